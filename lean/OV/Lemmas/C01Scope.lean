import OV.Lemmas.C01Names
import OV.Lemmas.C01Live
/-!
# Lemmas for C02: scoped definition-before-use of the model converter's output

`VisOK vis L`  : every ONNX value a Python name is bound to (in any scope of the stack) is visible.
`wfNodes vis ns` (Model/C01Graph): the node list is well scoped given the visible names `vis`.
Each function of the converter gets a lemma: started with `VisOK vis L`, it emits nodes with
`wfNodes vis ns`, returns values that are visible afterwards, and leaves `VisOK` intact.
-/
namespace OV.C01

/-! ## Visibility of bound values -/

def VisOK (vis : List Name) (L : Locals) : Prop :=
  ∀ fr, fr ∈ L → ∀ p, p ∈ fr → ∀ n, p.2 = Bind.val n → n ∈ vis

theorem VisOK.mono {vis vis' : List Name} {L : Locals} (h : VisOK vis L) (hs : ∀ x, x ∈ vis → x ∈ vis') :
    VisOK vis' L := fun fr hfr p hp n hn => hs n (h fr hfr p hp n hn)

theorem VisOK.push {vis : List Name} {L : Locals} (h : VisOK vis L) : VisOK vis ([] :: L) := by
  intro fr hfr p hp n hn
  rcases List.mem_cons.mp hfr with rfl | hfr
  · cases hp
  · exact h fr hfr p hp n hn

theorem VisOK.tail {vis : List Name} {fr : Frame} {L : Locals} (h : VisOK vis (fr :: L)) : VisOK vis L :=
  fun fr' hfr p hp n hn => h fr' (List.mem_cons_of_mem _ hfr) p hp n hn

theorem Frame.find_mem {fr : Frame} {x : Name} {b : Bind} (h : Frame.find fr x = some b) : (x, b) ∈ fr := by
  induction fr with
  | nil => simp [Frame.find] at h
  | cons p rest ih =>
    obtain ⟨y, b'⟩ := p
    unfold Frame.find at h
    by_cases hy : y = x
    · simp only [hy, if_true] at h
      cases h
      subst hy
      exact List.mem_cons_self
    · simp only [hy, if_false] at h
      exact List.mem_cons_of_mem _ (ih h)

theorem lookup_mem {L : Locals} {x : Name} {b : Bind} (h : lookup L x = some b) :
    ∃ fr, fr ∈ L ∧ (x, b) ∈ fr := by
  induction L with
  | nil => simp [lookup] at h
  | cons fr rest ih =>
    unfold lookup at h
    cases hf : Frame.find fr x with
    | some b' =>
      simp only [hf] at h
      cases h
      exact ⟨fr, List.mem_cons_self, Frame.find_mem hf⟩
    | none =>
      simp only [hf] at h
      obtain ⟨fr', hm, hp⟩ := ih h
      exact ⟨fr', List.mem_cons_of_mem _ hm, hp⟩

theorem VisOK.lookup {vis : List Name} {L : Locals} (h : VisOK vis L) {x n : Name}
    (hl : lookup L x = some (.val n)) : n ∈ vis := by
  obtain ⟨fr, hm, hp⟩ := lookup_mem hl
  exact h fr hm _ hp n rfl

theorem VisOK.current {vis : List Name} {L : Locals} (h : VisOK vis L) {x n : Name}
    (hl : currentScopeFind L x = some (.val n)) : n ∈ vis := by
  cases L with
  | nil => simp [currentScopeFind] at hl
  | cons fr rest =>
    simp only [currentScopeFind] at hl
    exact h fr List.mem_cons_self _ (Frame.find_mem hl) n rfl

theorem VisOK.bindVar {vis : List Name} {L : Locals} (h : VisOK vis L) {x n : Name} (hn : n ∈ vis) :
    VisOK vis (bindVar L x (.val n)) := by
  cases L with
  | nil =>
    intro fr hfr p hp m hm
    simp only [OV.C01.bindVar, List.mem_singleton] at hfr
    subst hfr
    simp only [List.mem_singleton] at hp
    subst hp
    cases hm
    exact hn
  | cons fr rest =>
    intro fr' hfr p hp m hm
    simp only [OV.C01.bindVar] at hfr
    rcases List.mem_cons.mp hfr with rfl | hfr
    · rcases List.mem_cons.mp hp with rfl | hp
      · cases hm; exact hn
      · exact h fr List.mem_cons_self p hp m hm
    · exact h fr' (List.mem_cons_of_mem _ hfr) p hp m hm

theorem VisOK.bindAttr {vis : List Name} {L : Locals} (h : VisOK vis L) {x p : Name} {ty : AttrTy} :
    VisOK vis (OV.C01.bindVar L x (.attr p ty)) := by
  cases L with
  | nil =>
    intro fr hfr q hq m hm
    simp only [OV.C01.bindVar, List.mem_singleton] at hfr
    subst hfr
    simp only [List.mem_singleton] at hq
    subst hq
    cases hm
  | cons fr rest =>
    intro fr' hfr q hq m hm
    simp only [OV.C01.bindVar] at hfr
    rcases List.mem_cons.mp hfr with rfl | hfr
    · rcases List.mem_cons.mp hq with rfl | hq
      · cases hm
      · exact h fr List.mem_cons_self q hq m hm
    · exact h fr' (List.mem_cons_of_mem _ hfr) q hq m hm

theorem VisOK.bindVals {vis : List Name} : ∀ (xs ns : List Name) {L : Locals}, VisOK vis L →
    (∀ n, n ∈ ns → n ∈ vis) → VisOK vis (OV.C01.bindVals L xs ns) := by
  intro xs
  induction xs with
  | nil => intro ns L h _; cases ns <;> exact h
  | cons x xs ih =>
    intro ns L h hn
    cases ns with
    | nil => exact h
    | cons n ns =>
      simp only [OV.C01.bindVals]
      exact ih ns (h.bindVar (hn n List.mem_cons_self)) (fun m hm => hn m (List.mem_cons_of_mem _ hm))

/-! ## `wfNodes` is monotone in the visible set and splits over `++` -/

theorem optIn_mono {x : Option Name} {vis vis' : List Name} (hs : ∀ x, x ∈ vis → x ∈ vis')
    (h : optIn x vis = true) : optIn x vis' = true := by
  cases x with
  | none => rfl
  | some n => simp only [optIn, List.contains_iff_mem] at h ⊢; exact hs n h

theorem allIn_mono {xs vis vis' : List Name} (hs : ∀ x, x ∈ vis → x ∈ vis')
    (h : allIn xs vis = true) : allIn xs vis' = true := by
  simp only [allIn, List.all_eq_true, List.contains_iff_mem] at h ⊢
  exact fun x hx => hs x (h x hx)

mutual
theorem wfNode_mono : ∀ (n : Node) {vis vis' : List Name}, (∀ x, x ∈ vis → x ∈ vis') →
    wfNode vis n = true → wfNode vis' n = true
  | .op dom name ins outs attrs, vis, vis', hs, h => by
    simp only [wfNode, List.all_eq_true] at h ⊢
    exact fun i hi => optIn_mono hs (h i hi)
  | .ifN c outs tn to en eo, vis, vis', hs, h => by
    simp only [wfNode, Bool.and_eq_true, List.contains_iff_mem] at h ⊢
    obtain ⟨⟨⟨⟨⟨⟨⟨⟨h1, h2⟩, h3⟩, h4⟩, h5⟩, h6⟩, h7⟩, h8⟩, h9⟩ := h
    exact ⟨⟨⟨⟨⟨⟨⟨⟨hs c h1, wfNodes_mono tn hs h2⟩, h3⟩, wfNodes_mono en hs h4⟩, h5⟩, h6⟩, h7⟩, h8⟩, h9⟩
  | .loop b c inits outs bi bn bo, vis, vis', hs, h => by
    simp only [wfNode, Bool.and_eq_true] at h ⊢
    obtain ⟨⟨⟨⟨⟨⟨⟨⟨h1, h2⟩, h3⟩, h4⟩, h5⟩, h6⟩, h7⟩, h8⟩, h9⟩ := h
    refine ⟨⟨⟨⟨⟨⟨⟨⟨optIn_mono hs h1, optIn_mono hs h2⟩, allIn_mono hs h3⟩, ?_⟩, h5⟩, h6⟩, h7⟩, h8⟩, h9⟩
    apply wfNodes_mono bn _ h4
    intro x hx
    rcases List.mem_append.mp hx with hx | hx
    · exact List.mem_append.mpr (Or.inl hx)
    · exact List.mem_append.mpr (Or.inr (hs x hx))
theorem wfNodes_mono : ∀ (ns : List Node) {vis vis' : List Name}, (∀ x, x ∈ vis → x ∈ vis') →
    wfNodes vis ns = true → wfNodes vis' ns = true
  | [], vis, vis', hs, h => by simp [wfNodes]
  | n :: ns, vis, vis', hs, h => by
    simp only [wfNodes, Bool.and_eq_true] at h ⊢
    refine ⟨wfNode_mono n hs h.1, wfNodes_mono ns ?_ h.2⟩
    intro x hx
    rcases List.mem_append.mp hx with hx | hx
    · exact List.mem_append.mpr (Or.inl hx)
    · exact List.mem_append.mpr (Or.inr (hs x hx))
end

theorem topDefs_append (a b : List Node) : topDefs (a ++ b) = topDefs a ++ topDefs b := by
  simp [topDefs]

theorem topDefs_cons (n : Node) (ns : List Node) : topDefs (n :: ns) = n.outs ++ topDefs ns := by
  simp [topDefs]

theorem wfNodes_append : ∀ (a b : List Node) (vis : List Name),
    wfNodes vis (a ++ b) = true ↔ (wfNodes vis a = true ∧ wfNodes (topDefs a ++ vis) b = true) := by
  intro a
  induction a with
  | nil => intro b vis; simp [wfNodes, topDefs]
  | cons n ns ih =>
    intro b vis
    simp only [List.cons_append, wfNodes, Bool.and_eq_true]
    rw [ih b (n.outs ++ vis)]
    have hiff : wfNodes (topDefs ns ++ (n.outs ++ vis)) b = true ↔
        wfNodes (topDefs (n :: ns) ++ vis) b = true := by
      constructor <;> intro h <;> apply wfNodes_mono b _ h <;> intro x hx <;>
        simp only [topDefs_cons, List.mem_append] at hx ⊢
      · rcases hx with h | h | h
        · exact Or.inl (Or.inr h)
        · exact Or.inl (Or.inl h)
        · exact Or.inr h
      · rcases hx with (h | h) | h
        · exact Or.inr (Or.inl h)
        · exact Or.inl h
        · exact Or.inr (Or.inr h)
    rw [hiff]
    constructor
    · rintro ⟨a, b, c⟩; exact ⟨⟨a, b⟩, c⟩
    · rintro ⟨⟨a, b⟩, c⟩; exact ⟨a, b, c⟩

end OV.C01

namespace OV.C01

/-! ## Specifications -/

/-- Nodes `ns` are well scoped under `vis`, and the value `x` is visible after them. -/
def ExprOK (vis : List Name) (x : Name) (ns : List Node) : Prop :=
  wfNodes vis ns = true ∧ x ∈ topDefs ns ++ vis

def ArgsOK (vis : List Name) (xs : List Name) (ns : List Node) : Prop :=
  wfNodes vis ns = true ∧ ∀ x, x ∈ xs → x ∈ topDefs ns ++ vis

theorem wf_app {vis : List Name} {a b : List Node} (ha : wfNodes vis a = true)
    (hb : wfNodes (topDefs a ++ vis) b = true) : wfNodes vis (a ++ b) = true :=
  (wfNodes_append a b vis).mpr ⟨ha, hb⟩

theorem mem_after_app {vis : List Name} {a b : List Node} {x : Name}
    (h : x ∈ topDefs b ++ (topDefs a ++ vis)) : x ∈ topDefs (a ++ b) ++ vis := by
  simp only [topDefs_append, List.mem_append] at h ⊢
  rcases h with h | h | h
  · exact Or.inl (Or.inr h)
  · exact Or.inl (Or.inl h)
  · exact Or.inr h

theorem mem_after_left {vis : List Name} {a b : List Node} {x : Name}
    (h : x ∈ topDefs a ++ vis) : x ∈ topDefs (a ++ b) ++ vis := by
  simp only [topDefs_append, List.mem_append] at h ⊢
  rcases h with h | h
  · exact Or.inl (Or.inl h)
  · exact Or.inr h

theorem vis_grow {vis : List Name} (a : List Node) : ∀ x, x ∈ vis → x ∈ topDefs a ++ vis :=
  fun _ hx => List.mem_append.mpr (Or.inr hx)

theorem wfNodes_nil (vis : List Name) : wfNodes vis [] = true := by simp [wfNodes]

theorem wf_single_op {vis : List Name} {dom name : String} {ins : List (Option Name)} {outs : List Name}
    {attrs : List (String × AttrV)} (h : ∀ i, i ∈ ins → ∀ n, i = some n → n ∈ vis) :
    wfNodes vis [Node.op dom name ins outs attrs] = true := by
  simp only [wfNodes, wfNode, Bool.and_true, List.all_eq_true]
  intro i hi
  cases i with
  | none => rfl
  | some n => simp only [optIn, List.contains_iff_mem]; exact h _ hi n rfl

/-! ## Leaf emitters -/

theorem emitConst_scope (vis : List Name) {l : Lit} {sug : Option Name} {x : Name} {ns : List Node} {s s' : St}
    (h : emitConst l sug s = .ok ((x, ns), s')) : ExprOK vis x ns := by
  unfold emitConst at h
  mbind h with n s1 hn
  mbind h with u s2 hm
  obtain ⟨h1, h2⟩ := pure_ok h
  cases h1
  exact ⟨wf_single_op (fun i hi => by cases hi), by simp [topDefs, Node.outs]⟩

theorem emitCopy_scope {vis : List Name} {o sug x : Name} {ns : List Node} {s s' : St}
    (ho : o ∈ vis) (h : emitCopy o sug s = .ok ((x, ns), s')) :
    ExprOK vis x ns ∧ x ∈ topDefs ns := by
  unfold emitCopy at h
  mbind h with n s1 hn
  obtain ⟨h1, h2⟩ := pure_ok h
  cases h1
  refine ⟨⟨wf_single_op ?_, by simp [topDefs, Node.outs]⟩, by simp [topDefs, Node.outs]⟩
  intro i hi m hm
  simp only [List.mem_singleton] at hi
  subst hi
  cases hm
  exact ho

theorem toOnnxVar_scope {vis : List Name} {b : Bind} {t x : Name} {ns : List Node} {s s' : St}
    (hb : ∀ n, b = .val n → n ∈ vis) (h : toOnnxVar b t s = .ok ((x, ns), s')) : ExprOK vis x ns := by
  cases b with
  | val n =>
    unfold toOnnxVar at h
    simp only at h
    obtain ⟨h1, h2⟩ := pure_ok h
    cases h1
    exact ⟨wfNodes_nil _, by simpa [topDefs] using hb _ rfl⟩
  | attr p ty =>
    unfold toOnnxVar at h
    simp only at h
    mbind h with r s1 hr
    cases hav : attrValueName ty with
    | none => simp only [hav] at h; exact (failM_ok h).elim
    | some an =>
      simp only [hav] at h
      by_cases hbool : ty = AttrTy.bool
      · simp only [hbool, if_true] at h
        mbind h with rb s2 hrb
        mbind h with u s3 hm
        obtain ⟨h1, h2⟩ := pure_ok h
        cases h1
        refine ⟨?_, by simp [topDefs, Node.outs]⟩
        simp only [wfNodes, wfNode, Bool.and_true, List.all_cons, List.all_nil, optIn, Node.outs,
          Bool.and_eq_true, List.contains_iff_mem]
        exact ⟨trivial, by simp⟩
      · simp only [hbool, if_false] at h
        mbind h with u s3 hm
        obtain ⟨h1, h2⟩ := pure_ok h
        cases h1
        exact ⟨wf_single_op (fun i hi => by cases hi), by simp [topDefs, Node.outs]⟩

theorem pyVar_scope {vis : List Name} {L : Locals} (hL : VisOK vis L) {v x : Name} {ns : List Node} {s s' : St}
    (h : pyVar L v s = .ok ((x, ns), s')) : ExprOK vis x ns := by
  unfold pyVar at h
  cases hl : lookup L v with
  | none => simp only [hl] at h; exact (failM_ok h).elim
  | some b =>
    simp only [hl] at h
    exact toOnnxVar_scope (fun n hn => by subst hn; exact hL.lookup hl) h

theorem castOne_scope {vis : List Name} {a : Name} {tgt : Option Name} {x : Name} {ns : List Node} {s s' : St}
    (ha : a ∈ vis) (ht : ∀ y, tgt = some y → y ∈ vis) (h : castOne a tgt s = .ok ((x, ns), s')) :
    ExprOK vis x ns := by
  unfold castOne at h
  cases tgt with
  | none =>
    simp only at h; cases h
    exact ⟨wfNodes_nil _, by simpa [topDefs] using ha⟩
  | some y =>
    simp only at h
    by_cases hc : s.castable.contains a = true
    · simp only [hc, if_true] at h
      cases hg : genUnique (a ++ "_cast") s with
      | error e => simp only [hg] at h; cases h
      | ok p =>
        obtain ⟨xc, s1⟩ := p
        simp only [hg] at h
        cases h
        refine ⟨wf_single_op ?_, by simp [topDefs, Node.outs]⟩
        intro i hi m hm
        simp only [List.mem_cons, List.mem_nil_iff, or_false] at hi
        rcases hi with rfl | rfl
        · cases hm; exact ha
        · cases hm; exact ht _ rfl
    · simp only [hc] at h
      cases h
      exact ⟨wfNodes_nil _, by simpa [topDefs] using ha⟩

theorem findBinding_mem {bs : List (String × Name)} {tv : String} {y : Name}
    (h : findBinding bs tv = some y) : ∃ t, (t, y) ∈ bs := by
  induction bs with
  | nil => simp [findBinding] at h
  | cons p rest ih =>
    obtain ⟨t, n⟩ := p
    unfold findBinding at h
    by_cases ht : t = tv
    · simp only [ht, if_true] at h
      cases h
      exact ⟨t, List.mem_cons_self⟩
    · simp only [ht, if_false] at h
      obtain ⟨t', hm⟩ := ih h
      exact ⟨t', List.mem_cons_of_mem _ hm⟩

theorem castTarget_mem {sig : Sig} {bs : List (String × Name)} {i : Nat} {y : Name}
    (h : castTarget sig bs i = some y) : ∃ t, (t, y) ∈ bs := by
  unfold castTarget at h
  split at h
  · exact findBinding_mem h
  · cases h

theorem castBindings_mem {sig : Sig} {castable : List Name} :
    ∀ (as : List Name) (i : Nat) (acc : List (String × Name)) {bs : List (String × Name)},
      castBindings sig castable as i acc = some bs →
      ∀ t y, (t, y) ∈ bs → y ∈ as ∨ (t, y) ∈ acc := by
  intro as
  induction as with
  | nil =>
    intro i acc bs h t y hm
    simp only [castBindings] at h
    cases h
    exact Or.inr hm
  | cons a as ih =>
    intro i acc bs h t y hm
    unfold castBindings at h
    cases hf : formalTv sig i with
    | none => simp only [hf] at h; cases h
    | some otv =>
      cases otv with
      | none =>
        simp only [hf] at h
        rcases ih _ _ h t y hm with h' | h'
        · exact Or.inl (List.mem_cons_of_mem _ h')
        · exact Or.inr h'
      | some tv =>
        simp only [hf] at h
        by_cases hc : castable.contains a = true
        · simp only [hc, if_true] at h
          rcases ih _ _ h t y hm with h' | h'
          · exact Or.inl (List.mem_cons_of_mem _ h')
          · exact Or.inr h'
        · simp only [hc] at h
          rcases ih _ _ h t y hm with h' | h'
          · exact Or.inl (List.mem_cons_of_mem _ h')
          · rcases List.mem_cons.mp h' with h'' | h''
            · cases h''; exact Or.inl List.mem_cons_self
            · exact Or.inr h''

theorem castArgs_scope {sig : Sig} {bs : List (String × Name)} :
    ∀ (as : List Name) (i : Nat) {vis : List Name} {xs : List Name} {ns : List Node} {s s' : St},
      (∀ a, a ∈ as → a ∈ vis) → (∀ t y, (t, y) ∈ bs → y ∈ vis) →
      castArgs sig bs as i s = .ok ((xs, ns), s') → ArgsOK vis xs ns := by
  intro as
  induction as with
  | nil =>
    intro i vis xs ns s s' _ _ h
    unfold castArgs at h
    obtain ⟨h1, h2⟩ := pure_ok h
    cases h1
    exact ⟨wfNodes_nil _, fun x hx => by cases hx⟩
  | cons a as ih =>
    intro i vis xs ns s s' ha hb h
    unfold castArgs at h
    mbind h with p s1 hc
    obtain ⟨x, n1⟩ := p
    try dsimp only at h
    mbind h with p s2 hr
    obtain ⟨rest, ns'⟩ := p
    try dsimp only at h
    obtain ⟨h1, h2⟩ := pure_ok h
    cases h1
    have h1 := castOne_scope (ha a List.mem_cons_self)
      (fun y hy => by obtain ⟨t, hm⟩ := castTarget_mem hy; exact hb t y hm) hc
    have h2 := ih (i + 1) (vis := topDefs n1 ++ vis)
      (fun a' ha' => vis_grow n1 a' (ha a' (List.mem_cons_of_mem _ ha')))
      (fun t y hm => vis_grow n1 y (hb t y hm)) hr
    refine ⟨wf_app h1.1 h2.1, ?_⟩
    intro y hy
    rcases List.mem_cons.mp hy with rfl | hy
    · exact mem_after_left h1.2
    · exact mem_after_app (h2.2 y hy)

theorem castInputs_scope {sig : Sig} {as xs : List Name} {vis : List Name} {ns : List Node} {s s' : St}
    (ha : ∀ a, a ∈ as → a ∈ vis) (h : castInputs sig as s = .ok ((xs, ns), s')) : ArgsOK vis xs ns := by
  unfold castInputs at h
  by_cases hk : (!sig.known) = true
  · rw [if_pos hk] at h
    cases h
    exact ⟨wfNodes_nil _, fun x hx => by simpa [topDefs] using ha x hx⟩
  · rw [if_neg hk] at h
    cases hbs : castBindings sig s.castable as 0 [] with
    | none => simp only [hbs] at h; cases h
    | some bs =>
      simp only [hbs] at h
      refine castArgs_scope as 0 ha ?_ h
      intro t y hm
      rcases castBindings_mem as 0 [] hbs t y hm with h' | h'
      · exact ha y h'
      · cases h'

end OV.C01

namespace OV.C01

/-! ## Expressions -/

theorem last_out_mem {vis : List Name} (pre : List Node) (dom name : String) (ins : List (Option Name))
    (r : Name) (attrs : List (String × AttrV)) :
    r ∈ topDefs (pre ++ [Node.op dom name ins [r] attrs]) ++ vis := by
  simp [topDefs_append, topDefs, Node.outs]

theorem ins_some_vis {vis : List Name} {xs : List Name} (h : ∀ x, x ∈ xs → x ∈ vis) :
    ∀ i, i ∈ xs.map some → ∀ n, i = some n → n ∈ vis := by
  intro i hi n hn
  subst hn
  obtain ⟨x, hx, he⟩ := List.mem_map.mp hi
  have : x = n := by injection he
  subst this
  exact h x hx

/-! ### Constant subscripts -/

/-- Membership goals about `topDefs (a ++ b) ++ vis`. -/
macro "memtac" : tactic =>
  `(tactic| (simp only [topDefs_append, topDefs_cons, List.mem_append, List.mem_cons, Node.outs] at *; grind))

def cacheNames (c : IntCache) : List Name := c.map Prod.snd

theorem cacheFind_mem : ∀ {c : IntCache} {v : Int} {n : Name}, cacheFind c v = some n → n ∈ cacheNames c := by
  intro c
  induction c with
  | nil => intro v n h; simp [cacheFind] at h
  | cons p rest ih =>
    intro v n h
    obtain ⟨k, m⟩ := p
    unfold cacheFind at h
    by_cases hk : k = v
    · simp only [hk, if_true] at h
      cases h
      simp [cacheNames]
    · simp only [hk, if_false] at h
      have := ih h
      simp only [cacheNames, List.map_cons, List.mem_cons] at this ⊢
      exact Or.inr this

theorem const1d_scope {vis : List Name} {c c' : IntCache} {v : Int} {x : Name} {ns : List Node} {s s' : St}
    (hc : ∀ n, n ∈ cacheNames c → n ∈ vis) (h : const1d c v s = .ok ((x, ns, c'), s')) :
    ArgsOK vis (x :: cacheNames c') ns := by
  unfold const1d at h
  cases hf : cacheFind c v with
  | some n =>
    simp only [hf] at h
    obtain ⟨e1, e2⟩ := pure_ok h
    cases e1
    refine ⟨wfNodes_nil _, ?_⟩
    intro y hy
    have : y ∈ vis := by
      rcases List.mem_cons.mp hy with rfl | hy
      · exact hc _ (cacheFind_mem hf)
      · exact hc _ hy
    simpa [topDefs] using this
  | none =>
    simp only [hf] at h
    mbind h with p s1 h1
    obtain ⟨n, ns'⟩ := p
    try dsimp only at h
    obtain ⟨e1, e2⟩ := pure_ok h
    cases e1
    have a := emitConst_scope vis h1
    refine ⟨a.1, ?_⟩
    intro y hy
    simp only [cacheNames, List.map_cons, List.mem_cons] at hy
    rcases hy with rfl | rfl | hy
    · exact a.2
    · exact a.2
    · exact vis_grow _ _ (hc _ hy)

theorem convSlice_scope {vis : List Name} {c c' : IntCache} {lo up st : Option Int} {ln un sn : Name}
    {ns : List Node} {s s' : St} (hc : ∀ n, n ∈ cacheNames c → n ∈ vis)
    (h : convSlice c lo up st s = .ok (((ln, un, sn), ns, c'), s')) :
    ArgsOK vis (ln :: un :: sn :: cacheNames c') ns := by
  unfold convSlice at h
  mbind h with p s1 h1
  obtain ⟨sn', ns1, c1⟩ := p
  try dsimp only at h
  mbind h with p s2 h2
  obtain ⟨ln', ns2, c2⟩ := p
  try dsimp only at h
  mbind h with p s3 h3
  obtain ⟨un', ns3, c3⟩ := p
  try dsimp only at h
  obtain ⟨e1, e2⟩ := pure_ok h
  cases e1
  have a1 := const1d_scope hc h1
  have a2 := const1d_scope (vis := topDefs ns1 ++ vis) (fun n hn => a1.2 n (List.mem_cons_of_mem _ hn)) h2
  have a3 := const1d_scope (vis := topDefs ns2 ++ (topDefs ns1 ++ vis))
    (fun n hn => a2.2 n (List.mem_cons_of_mem _ hn)) h3
  refine ⟨wf_app a1.1 (wf_app a2.1 a3.1), ?_⟩
  intro y hy
  have h1' := a1.2 sn List.mem_cons_self
  have h2' := a2.2 ln List.mem_cons_self
  have h3' := a3.2
  simp only [List.mem_cons] at hy
  rcases hy with rfl | rfl | rfl | hy
  · memtac
  · exact mem_after_app (mem_after_app (h3' _ List.mem_cons_self))
  · memtac
  · exact mem_after_app (mem_after_app (h3' _ (List.mem_cons_of_mem _ hy)))

theorem convSlices_scope : ∀ (els : List SliceEl) {vis : List Name} {c c' : IntCache}
    {starts ends axes steps : List Name} {ns : List Node} {s s' : St},
    (∀ n, n ∈ cacheNames c → n ∈ vis) →
    convSlices c els s = .ok (((starts, ends, axes, steps), ns, c'), s') →
    ArgsOK vis (starts ++ (ends ++ (axes ++ (steps ++ cacheNames c')))) ns := by
  intro els
  induction els with
  | nil =>
    intro vis c c' starts ends axes steps ns s s' hc h
    unfold convSlices at h
    obtain ⟨e1, e2⟩ := pure_ok h
    cases e1
    refine ⟨wfNodes_nil _, ?_⟩
    intro y hy
    simp only [List.nil_append] at hy
    simpa [topDefs] using hc y hy
  | cons el rest ih =>
    intro vis c c' starts ends axes steps ns s s' hc h
    obtain ⟨ax, lo, up, st⟩ := el
    unfold convSlices at h
    mbind h with p s1 h1
    obtain ⟨an, ns0, c0⟩ := p
    try dsimp only at h
    mbind h with p s2 h2
    obtain ⟨⟨l, u, sn⟩, ns1, c1⟩ := p
    try dsimp only at h
    mbind h with p s3 h3
    obtain ⟨⟨ls, us, as, ss⟩, ns2, c2⟩ := p
    try dsimp only at h
    obtain ⟨e1, e2⟩ := pure_ok h
    cases e1
    have a0 := const1d_scope hc h1
    have a1 := convSlice_scope (vis := topDefs ns0 ++ vis) (fun n hn => a0.2 n (List.mem_cons_of_mem _ hn)) h2
    have a2 := ih (vis := topDefs ns1 ++ (topDefs ns0 ++ vis))
      (fun n hn => a1.2 n (List.mem_cons_of_mem _ (List.mem_cons_of_mem _ (List.mem_cons_of_mem _ hn)))) h3
    refine ⟨wf_app a0.1 (wf_app a1.1 a2.1), ?_⟩
    intro y hy
    have h0' := a0.2 an List.mem_cons_self
    have hl := a1.2 l List.mem_cons_self
    have hu := a1.2 u (List.mem_cons_of_mem _ List.mem_cons_self)
    have hs := a1.2 sn (List.mem_cons_of_mem _ (List.mem_cons_of_mem _ List.mem_cons_self))
    have hrest := a2.2
    simp only [List.cons_append, List.mem_cons, List.mem_append] at hy
    have lift : ∀ z, z ∈ ls ++ (us ++ (as ++ (ss ++ cacheNames c'))) →
        z ∈ topDefs (ns0 ++ (ns1 ++ ns2)) ++ vis := fun z hz => mem_after_app (mem_after_app (hrest z hz))
    rcases hy with rfl | hy | rfl | hy | rfl | hy | rfl | hy | hy
    · memtac
    · exact lift _ (by simp [hy])
    · memtac
    · exact lift _ (by simp [hy])
    · memtac
    · exact lift _ (by simp [hy])
    · memtac
    · exact lift _ (by simp [hy])
    · exact lift _ (by simp [hy])

theorem pickOrConcat_scope {vis : List Name} {cand : Name} {xs : List Name} {x : Name} {ns : List Node}
    {s s' : St} (hx : ∀ y, y ∈ xs → y ∈ vis) (h : pickOrConcat cand xs s = .ok ((x, ns), s')) :
    ExprOK vis x ns := by
  have hc : ∀ {s s' : St} {x : Name} {ns : List Node},
      (do let r ← genUnique cand
          pure (r, [Node.op "" "Concat" (xs.map some) [r] [("axis", AttrV.const "i:0")]]) : M (Name × List Node)) s
        = .ok ((x, ns), s') → ExprOK vis x ns := by
    intro s s' x ns h
    mbind h with r s1 h1
    obtain ⟨e1, e2⟩ := pure_ok h
    cases e1
    exact ⟨wf_single_op (ins_some_vis hx), by simp [topDefs, Node.outs]⟩
  unfold pickOrConcat at h
  cases xs with
  | nil => exact hc h
  | cons a t =>
    cases t with
    | nil =>
      simp only at h
      obtain ⟨e1, e2⟩ := pure_ok h
      cases e1
      exact ⟨wfNodes_nil _, by simpa [topDefs] using hx _ List.mem_cons_self⟩
    | cons b t' => exact hc h

theorem convSubscript_scope {vis : List Name} {var : Name} {tgt : Option Name} {idx : List Idx} {x : Name}
    {ns : List Node} {s s' : St} (hv : var ∈ vis) (h : convSubscript var tgt idx s = .ok ((x, ns), s')) :
    ExprOK vis x ns := by
  unfold convSubscript at h
  mbind h with target s0 h0
  try dsimp only at h
  by_cases hc : (!(slicedOf 0 idx).isEmpty || decide ((scalarsOf 0 idx).length > 1)) = true
  · rw [if_pos hc] at h
    mbind h with p s1 h1
    obtain ⟨⟨starts, ends, axes, steps⟩, ns1, cc⟩ := p
    try dsimp only at h
    mbind h with p s2 h2
    obtain ⟨sv, n1⟩ := p
    try dsimp only at h
    mbind h with p s3 h3
    obtain ⟨ev, n2⟩ := p
    try dsimp only at h
    mbind h with p s4 h4
    obtain ⟨av, n3⟩ := p
    try dsimp only at h
    mbind h with p s5 h5
    obtain ⟨tv, n4⟩ := p
    try dsimp only at h
    have a1 := convSlices_scope _ (vis := vis) (c := []) (fun n hn => by simp [cacheNames] at hn) h1
    have b1 := pickOrConcat_scope (vis := topDefs ns1 ++ vis) (fun y hy => a1.2 y (by simp [hy])) h2
    have b2 := pickOrConcat_scope (vis := topDefs n1 ++ (topDefs ns1 ++ vis))
      (fun y hy => vis_grow _ _ (a1.2 y (by simp [hy]))) h3
    have b3 := pickOrConcat_scope (vis := topDefs n2 ++ (topDefs n1 ++ (topDefs ns1 ++ vis)))
      (fun y hy => vis_grow _ _ (vis_grow _ _ (a1.2 y (by simp [hy])))) h4
    have b4 := pickOrConcat_scope (vis := topDefs n3 ++ (topDefs n2 ++ (topDefs n1 ++ (topDefs ns1 ++ vis))))
      (fun y hy => vis_grow _ _ (vis_grow _ _ (vis_grow _ _ (a1.2 y (by simp [hy]))))) h5
    have hb1 := b1.2
    have hb2 := b2.2
    have hb3 := b3.2
    have hb4 := b4.2
    have hins : ∀ i, i ∈ [some var, some sv, some ev, some av, some tv] → ∀ n, i = some n →
        n ∈ topDefs n4 ++ (topDefs n3 ++ (topDefs n2 ++ (topDefs n1 ++ (topDefs ns1 ++ vis)))) := by
      intro i hi n hn
      subst hn
      simp only [List.mem_cons, Option.some.injEq, List.mem_nil_iff, or_false] at hi
      rcases hi with rfl | rfl | rfl | rfl | rfl
      · memtac
      · memtac
      · memtac
      · memtac
      · memtac
    by_cases hsc : (scalarsOf 0 idx).isEmpty = true
    · rw [if_pos hsc] at h
      obtain ⟨e1, e2⟩ := pure_ok h
      cases e1
      refine ⟨wf_app a1.1 (wf_app b1.1 (wf_app b2.1 (wf_app b3.1 (wf_app b4.1 (wf_single_op hins))))), ?_⟩
      simp [topDefs_append, topDefs, Node.outs]
    · rw [if_neg hsc] at h
      mbind h with sliced s6 h6
      mbind h with p s7 h7
      obtain ⟨sq, n5⟩ := p
      try dsimp only at h
      obtain ⟨e1, e2⟩ := pure_ok h
      cases e1
      have c5 := emitConst_scope (topDefs [Node.op "" "Slice" [some var, some sv, some ev, some av, some tv] [sliced] []]
        ++ (topDefs n4 ++ (topDefs n3 ++ (topDefs n2 ++ (topDefs n1 ++ (topDefs ns1 ++ vis)))))) h7
      have hc5 := c5.2
      have hlast : wfNodes (topDefs [Node.op "" "Slice" [some var, some sv, some ev, some av, some tv] [sliced] []]
          ++ (topDefs n4 ++ (topDefs n3 ++ (topDefs n2 ++ (topDefs n1 ++ (topDefs ns1 ++ vis))))))
          (n5 ++ [Node.op "" "Squeeze" [some sliced, some sq] [x] []]) = true := by
        refine wf_app c5.1 (wf_single_op ?_)
        intro i hi n hn
        subst hn
        simp only [List.mem_cons, Option.some.injEq, List.mem_nil_iff, or_false] at hi
        rcases hi with rfl | rfl
        · simp [topDefs, Node.outs]
        · exact hc5
      refine ⟨wf_app a1.1 (wf_app b1.1 (wf_app b2.1 (wf_app b3.1 (wf_app b4.1
        (wf_app (a := [Node.op "" "Slice" [some var, some sv, some ev, some av, some tv] [sliced] []])
          (wf_single_op hins) hlast))))), ?_⟩
      simp [topDefs_append, topDefs, Node.outs]
  · rw [if_neg hc] at h
    cases hsc : scalarsOf 0 idx with
    | nil =>
      simp only [hsc] at h
      obtain ⟨e1, e2⟩ := pure_ok h
      cases e1
      refine ⟨wf_single_op ?_, by simp [topDefs, Node.outs]⟩
      intro i hi n hn
      subst hn
      simp only [List.mem_cons, Option.some.injEq, List.mem_nil_iff, or_false] at hi
      subst hi
      exact hv
    | cons p rest =>
      obtain ⟨ax, k⟩ := p
      simp only [hsc] at h
      mbind h with q s1 h1
      obtain ⟨iv, n1⟩ := q
      try dsimp only at h
      obtain ⟨e1, e2⟩ := pure_ok h
      cases e1
      have c1 := emitConst_scope vis h1
      refine ⟨wf_app c1.1 (wf_single_op ?_), by simp [topDefs_append, topDefs, Node.outs]⟩
      intro i hi n hn
      subst hn
      simp only [List.mem_cons, Option.some.injEq, List.mem_nil_iff, or_false] at hi
      rcases hi with rfl | rfl
      · exact vis_grow _ _ hv
      · exact c1.2

mutual
theorem convExpr_scope (L : Locals) : ∀ (e : Expr) (tgt : Option Name) {vis : List Name} {x : Name}
    {ns : List Node} {s s' : St}, VisOK vis L →
    convExpr L e tgt s = .ok ((x, ns), s') → ExprOK vis x ns
  | .var v, tgt, vis, x, ns, s, s', hL, h => by
    unfold convExpr at h
    exact pyVar_scope hL h
  | .lit l, tgt, vis, x, ns, s, s', hL, h => by
    unfold convExpr at h
    exact emitConst_scope vis h
  | .call dom op sig args attrs, tgt, vis, x, ns, s, s', hL, h => by
    unfold convExpr at h
    mbind h with p s1 h1
    obtain ⟨as, ns1⟩ := p
    try dsimp only at h
    mbind h with attrs' s2 h2
    mbind h with p s3 h3
    obtain ⟨as', ns2⟩ := p
    try dsimp only at h
    mbind h with r s4 h4
    obtain ⟨e1, e2⟩ := pure_ok h
    cases e1
    have a1 := convArgs_scope L args hL h1
    have a2 := castInputs_scope (vis := topDefs ns1 ++ vis) a1.2 h3
    refine ⟨wf_app a1.1 (wf_app a2.1 (wf_single_op (ins_some_vis a2.2))), ?_⟩
    rw [← List.append_assoc]
    exact last_out_mem _ _ _ _ _ _
  | .binop o a b, tgt, vis, x, ns, s, s', hL, h => by
    unfold convExpr at h
    cases hp : primop o with
    | none => simp only [hp] at h; exact (failM_ok h).elim
    | some oname =>
      simp only [hp] at h
      mbind h with p s1 h1
      obtain ⟨l, ns1⟩ := p
      try dsimp only at h
      mbind h with p s2 h2
      obtain ⟨r, ns2⟩ := p
      try dsimp only at h
      mbind h with p s3 h3
      obtain ⟨as', ns3⟩ := p
      try dsimp only at h
      mbind h with res s4 h4
      obtain ⟨e1, e2⟩ := pure_ok h
      cases e1
      have a1 := convExpr_scope L a none hL h1
      have a2 := convExpr_scope L b none (vis := topDefs ns1 ++ vis) (hL.mono (vis_grow ns1)) h2
      have a3 := castInputs_scope (as := [l, r]) (vis := topDefs ns2 ++ (topDefs ns1 ++ vis)) (by
        intro y hy
        simp only [List.mem_cons, List.mem_nil_iff, or_false] at hy
        rcases hy with rfl | rfl
        · exact vis_grow ns2 _ a1.2
        · exact a2.2) h3
      refine ⟨wf_app a1.1 (wf_app a2.1 (wf_app a3.1 (wf_single_op (ins_some_vis a3.2)))), ?_⟩
      rw [← List.append_assoc, ← List.append_assoc]
      exact last_out_mem _ _ _ _ _ _
  | .unop o a, tgt, vis, x, ns, s, s', hL, h => by
    unfold convExpr at h
    cases hp : primop o with
    | none => simp only [hp] at h; exact (failM_ok h).elim
    | some oname =>
      simp only [hp] at h
      cases hn : negatedLiteral o a with
      | some l => simp only [hn] at h; exact emitConst_scope vis h
      | none =>
        simp only [hn] at h
        mbind h with p s1 h1
        obtain ⟨y, ns1⟩ := p
        try dsimp only at h
        mbind h with res s4 h4
        obtain ⟨e1, e2⟩ := pure_ok h
        cases e1
        have a1 := convExpr_scope L a none hL h1
        refine ⟨wf_app a1.1 (wf_single_op ?_), last_out_mem _ _ _ _ _ _⟩
        intro i hi n hn'
        simp only [List.mem_singleton] at hi
        subst hi
        cases hn'
        exact a1.2
  | .cmp o a b, tgt, vis, x, ns, s, s', hL, h => by
    unfold convExpr at h
    cases hp : primop o with
    | none => simp only [hp] at h; exact (failM_ok h).elim
    | some oname =>
      simp only [hp] at h
      mbind h with p s1 h1
      obtain ⟨l, ns1⟩ := p
      try dsimp only at h
      mbind h with p s2 h2
      obtain ⟨r, ns2⟩ := p
      try dsimp only at h
      mbind h with p s3 h3
      obtain ⟨as', ns3⟩ := p
      try dsimp only at h
      have a1 := convExpr_scope L a none hL h1
      have a2 := convExpr_scope L b none (vis := topDefs ns1 ++ vis) (hL.mono (vis_grow ns1)) h2
      have a3 := castInputs_scope (as := [l, r]) (vis := topDefs ns2 ++ (topDefs ns1 ++ vis)) (by
        intro y hy
        simp only [List.mem_cons, List.mem_nil_iff, or_false] at hy
        rcases hy with rfl | rfl
        · exact vis_grow ns2 _ a1.2
        · exact a2.2) h3
      by_cases hne : oname = "NotEqual"
      · simp only [hne, if_true] at h
        mbind h with tmp s4 h4
        mbind h with res s5 h5
        obtain ⟨e1, e2⟩ := pure_ok h
        cases e1
        refine ⟨wf_app a1.1 (wf_app a2.1 (wf_app a3.1 ?_)), ?_⟩
        · simp only [wfNodes, wfNode, Bool.and_true, Bool.and_eq_true, List.all_eq_true, Node.outs]
          refine ⟨?_, ?_⟩
          · intro i hi
            cases i with
            | none => rfl
            | some n =>
              simp only [optIn, List.contains_iff_mem]
              exact ins_some_vis a3.2 _ hi n rfl
          · intro i hi
            simp only [List.mem_singleton] at hi
            subst hi
            simp [optIn]
        · simp [topDefs_append, topDefs, Node.outs]
      · simp only [hne, if_false] at h
        mbind h with res s4 h4
        obtain ⟨e1, e2⟩ := pure_ok h
        cases e1
        refine ⟨wf_app a1.1 (wf_app a2.1 (wf_app a3.1 (wf_single_op (ins_some_vis a3.2)))), ?_⟩
        rw [← List.append_assoc, ← List.append_assoc]
        exact last_out_mem _ _ _ _ _ _
  | .subscript base idx, tgt, vis, x, ns, s, s', hL, h => by
    unfold convExpr at h
    mbind h with p s1 h1
    obtain ⟨v, ns1⟩ := p
    try dsimp only at h
    mbind h with p s2 h2
    obtain ⟨r, ns2⟩ := p
    try dsimp only at h
    obtain ⟨e1, e2⟩ := pure_ok h
    cases e1
    have a1 := convExpr_scope L base none hL h1
    have a2 := convSubscript_scope (vis := topDefs ns1 ++ vis) a1.2 h2
    exact ⟨wf_app a1.1 a2.1, mem_after_app a2.2⟩
  | .other us, tgt, vis, x, ns, s, s', hL, h => by
    unfold convExpr at h
    exact (failM_ok h).elim
theorem convArgs_scope (L : Locals) : ∀ (es : List Expr) {vis : List Name} {xs : List Name}
    {ns : List Node} {s s' : St}, VisOK vis L →
    convArgs L es s = .ok ((xs, ns), s') → ArgsOK vis xs ns
  | [], vis, xs, ns, s, s', hL, h => by
    unfold convArgs at h
    obtain ⟨e1, e2⟩ := pure_ok h
    cases e1
    exact ⟨wfNodes_nil _, fun x hx => by cases hx⟩
  | e :: es, vis, xs, ns, s, s', hL, h => by
    unfold convArgs at h
    mbind h with p s1 h1
    obtain ⟨y, ns1⟩ := p
    try dsimp only at h
    mbind h with p s2 h2
    obtain ⟨ys, ns2⟩ := p
    try dsimp only at h
    obtain ⟨e1, e2⟩ := pure_ok h
    cases e1
    have a1 := convExpr_scope L e none hL h1
    have a2 := convArgs_scope L es (vis := topDefs ns1 ++ vis) (hL.mono (vis_grow ns1)) h2
    refine ⟨wf_app a1.1 a2.1, ?_⟩
    intro z hz
    rcases List.mem_cons.mp hz with rfl | hz
    · exact mem_after_left a1.2
    · exact mem_after_app (a2.2 z hz)
end

end OV.C01

namespace OV.C01

/-! ## Used names -/

mutual
theorem topDefs_sub_node : ∀ (n : Node) (x : Name), x ∈ n.outs → x ∈ n.allDefs
  | .op _ _ _ o _, x, h => by simpa [Node.outs, Node.allDefs] using h
  | .ifN _ o _ _ _ _, x, h => by
    simp only [Node.outs] at h
    simp only [Node.allDefs, List.mem_append]
    exact Or.inl h
  | .loop _ _ _ o _ _ _, x, h => by
    simp only [Node.outs] at h
    simp only [Node.allDefs, List.mem_append]
    exact Or.inl h
end

theorem topDefs_sub_allDefsL : ∀ (ns : List Node) (x : Name), x ∈ topDefs ns → x ∈ allDefsL ns := by
  intro ns
  induction ns with
  | nil => intro x h; simp [topDefs] at h
  | cons n ns ih =>
    intro x h
    rw [topDefs_cons] at h
    simp only [allDefsL, List.mem_append] at h ⊢
    rcases h with h | h
    · exact Or.inl (topDefs_sub_node n x h)
    · exact Or.inr (ih x h)

theorem after_in_used {s s' : St} {ns : List Node} (hf : NodesFresh s s' ns) {x : Name}
    (h : x ∈ topDefs ns ++ s.used) : x ∈ s'.used := by
  rcases List.mem_append.mp h with h | h
  · exact (hf.2.2 x (topDefs_sub_allDefsL ns x h)).2
  · exact hf.1 x h

theorem emitCopy_out_fresh {o sug x : Name} {ns : List Node} {s s' : St}
    (h : emitCopy o sug s = .ok ((x, ns), s')) : x ∉ s.used := by
  unfold emitCopy at h
  mbind h with n s1 hn
  obtain ⟨h1, h2⟩ := pure_ok h
  cases h1
  exact (genUnique_spec hn).1

theorem grow_used {s s' : St} {ns : List Node} {vis : List Name} (hf : NodesFresh s s' ns)
    (hv : ∀ x, x ∈ vis → x ∈ s.used) : ∀ x, x ∈ topDefs ns ++ vis → x ∈ s'.used := by
  intro x hx
  rcases List.mem_append.mp hx with h | h
  · exact (hf.2.2 x (topDefs_sub_allDefsL ns x h)).2
  · exact hf.1 x (hv x h)

theorem nodupB_of_nodup : ∀ (l : List Name), l.Nodup → nodupB l = true := by
  intro l
  induction l with
  | nil => intro _; rfl
  | cons x xs ih =>
    intro hn
    simp only [List.nodup_cons] at hn
    simp [nodupB, hn.1, ih hn.2]

theorem nodup_snoc {l : List Name} {x : Name} (h : l.Nodup) (hx : x ∉ l) : (l ++ [x]).Nodup := by
  rw [List.nodup_append]
  refine ⟨h, by simp, ?_⟩
  intro a ha b hb hab
  simp only [List.mem_singleton] at hb
  subst hb; subst hab
  exact hx ha

end OV.C01

namespace OV.C01

/-! ## Statement helpers -/

/-- Nodes `ns` are well scoped under `vis` and every bound value is visible afterwards. -/
def StmtOK (vis : List Name) (L' : Locals) (ns : List Node) : Prop :=
  wfNodes vis ns = true ∧ VisOK (topDefs ns ++ vis) L'

theorem mem_swap_app {a b vis : List Name} {x : Name} (h : x ∈ a ++ (b ++ vis)) : x ∈ (b ++ a) ++ vis := by
  simp only [List.mem_append] at h ⊢
  rcases h with h | h | h
  · exact Or.inl (Or.inr h)
  · exact Or.inl (Or.inl h)
  · exact Or.inr h

theorem mem_swap_app' {a b vis : List Name} {x : Name} (h : x ∈ (b ++ a) ++ vis) : x ∈ a ++ (b ++ vis) := by
  simp only [List.mem_append] at h ⊢
  rcases h with (h | h) | h
  · exact Or.inr (Or.inl h)
  · exact Or.inl h
  · exact Or.inr (Or.inr h)

/-- `wfNodes` under `topDefs (sofar ++ a) ++ vis` is `wfNodes` under `topDefs a ++ (topDefs sofar ++ vis)`. -/
theorem wf_reassoc {sofar a : List Node} {vis : List Name} {b : List Node}
    (h : wfNodes (topDefs (sofar ++ a) ++ vis) b = true) :
    wfNodes (topDefs a ++ (topDefs sofar ++ vis)) b = true := by
  apply wfNodes_mono b _ h
  intro x hx
  rw [topDefs_append] at hx
  exact mem_swap_app' hx

theorem blockOutputs_scope (L : Locals) (vis0 : List Name) : ∀ (vs : List Name) (sofar : List Node)
    (outs : List Name) {os : List Name} {ns : List Node} {s s' : St},
    VisOK (topDefs sofar ++ vis0) L → (∀ x, x ∈ topDefs sofar ++ vis0 → x ∈ s.used) →
    (∀ x, x ∈ outs → x ∈ s.used) → outs.Nodup →
    blockOutputs L vs sofar outs s = .ok ((os, ns), s') →
    wfNodes (topDefs sofar ++ vis0) ns = true ∧ (∀ o, o ∈ os → o ∈ topDefs (sofar ++ ns))
      ∧ os.length = vs.length ∧ (outs ++ os).Nodup ∧ (∀ x, x ∈ os → x ∈ s'.used) := by
  intro vs
  induction vs with
  | nil =>
    intro sofar outs os ns s s' _ _ _ hnd h
    unfold blockOutputs at h
    obtain ⟨e1, e2⟩ := pure_ok h
    cases e1
    exact ⟨wfNodes_nil _, (fun o ho => by cases ho), rfl, by simpa using hnd, (fun o ho => by cases ho)⟩
  | cons pv rest ih =>
    intro sofar outs os ns s s' hL hvu hou hnd h
    unfold blockOutputs at h
    have grow : ∀ (a : List Node), VisOK (topDefs (sofar ++ a) ++ vis0) L := by
      intro a
      apply hL.mono
      intro x hx
      rw [topDefs_append]
      simp only [List.mem_append] at hx ⊢
      rcases hx with hx | hx
      · exact Or.inl (Or.inl hx)
      · exact Or.inr hx
    have growu : ∀ {s1 : St} (a : List Node), NodesFresh s s1 a →
        ∀ x, x ∈ topDefs (sofar ++ a) ++ vis0 → x ∈ s1.used := by
      intro s1 a hf x hx
      rw [topDefs_append] at hx
      have : x ∈ topDefs a ++ (topDefs sofar ++ vis0) := mem_swap_app' hx
      exact grow_used hf hvu x this
    cases hc : currentScopeFind L pv with
    | some b =>
      simp only [hc] at h
      mbind h with p s1 h1
      obtain ⟨o, ns1⟩ := p
      try dsimp only at h
      have a1 := toOnnxVar_scope (vis := topDefs sofar ++ vis0)
        (fun n hn => by subst hn; exact hL.current hc) h1
      have f1 := toOnnxVar_fresh h1
      by_cases hin : ((topDefs (sofar ++ ns1)).contains o && !outs.contains o) = true
      · rw [if_pos hin] at h
        simp only [Bool.and_eq_true, Bool.not_eq_true', List.contains_iff_mem] at hin
        have hno : o ∉ outs := by
          intro hm
          have := List.contains_iff_mem.mpr hm
          rw [hin.2] at this
          cases this
        mbind h with p s2 h2
        obtain ⟨os', ns2⟩ := p
        try dsimp only at h
        obtain ⟨e1, e2⟩ := pure_ok h
        cases e1; subst e2
        have hou1 : o ∈ s1.used := grow_used f1 hvu o a1.2
        obtain ⟨w2, m2, l2, n2, u2⟩ := ih (sofar ++ ns1) (outs ++ [o]) (grow ns1) (growu ns1 f1)
          (by
            intro x hx
            rcases List.mem_append.mp hx with hx | hx
            · exact f1.1 x (hou x hx)
            · simp only [List.mem_singleton] at hx; subst hx; exact hou1)
          (nodup_snoc hnd hno) h2
        refine ⟨wf_app a1.1 (wf_reassoc w2), ?_, by simp [l2], by simpa [List.append_assoc] using n2, ?_⟩
        · intro o' ho'
          rcases List.mem_cons.mp ho' with rfl | ho'
          · rw [← List.append_assoc, topDefs_append]
            exact List.mem_append.mpr (Or.inl hin.1)
          · rw [← List.append_assoc]; exact m2 o' ho'
        · intro x hx
          rcases List.mem_cons.mp hx with rfl | hx
          · exact (blockOutputs_fresh L rest _ _ h2).1 _ hou1
          · exact u2 x hx
      · rw [if_neg hin] at h
        mbind h with p s2 h2
        obtain ⟨o', nc⟩ := p
        try dsimp only at h
        mbind h with p s3 h3
        obtain ⟨os', ns2⟩ := p
        try dsimp only at h
        obtain ⟨e1, e2⟩ := pure_ok h
        cases e1; subst e2
        obtain ⟨c1, c2⟩ := emitCopy_scope (vis := topDefs ns1 ++ (topDefs sofar ++ vis0)) a1.2 h2
        have fc := emitCopy_fresh h2
        have f12 : NodesFresh s s2 (ns1 ++ nc) := f1.append fc
        have hfreshc : o' ∉ s1.used := emitCopy_out_fresh h2
        have hno : o' ∉ outs := fun hm => hfreshc (f1.1 _ (hou _ hm))
        have hou2 : o' ∈ s2.used := (fc.2.2 o' (topDefs_sub_allDefsL nc o' c2)).2
        obtain ⟨w2, m2, l2, n2, u2⟩ := ih (sofar ++ (ns1 ++ nc)) (outs ++ [o']) (grow (ns1 ++ nc))
          (growu (ns1 ++ nc) f12)
          (by
            intro x hx
            rcases List.mem_append.mp hx with hx | hx
            · exact f12.1 x (hou x hx)
            · simp only [List.mem_singleton] at hx; subst hx; exact hou2)
          (nodup_snoc hnd hno) h3
        refine ⟨wf_app a1.1 (wf_app c1.1 ?_), ?_, by simp [l2], by simpa [List.append_assoc] using n2, ?_⟩
        · have := wf_reassoc w2
          apply wfNodes_mono ns2 _ this
          intro x hx
          rw [topDefs_append] at hx
          simp only [List.mem_append] at hx ⊢
          rcases hx with (hx | hx) | hx | hx
          · exact Or.inr (Or.inl hx)
          · exact Or.inl hx
          · exact Or.inr (Or.inr (Or.inl hx))
          · exact Or.inr (Or.inr (Or.inr hx))
        · intro o'' ho''
          rcases List.mem_cons.mp ho'' with rfl | ho''
          · simp only [topDefs_append, List.mem_append]
            exact Or.inr (Or.inr (Or.inl c2))
          · have := m2 o'' ho''
            simpa [List.append_assoc] using this
        · intro x hx
          rcases List.mem_cons.mp hx with rfl | hx
          · exact (blockOutputs_fresh L rest _ _ h3).1 _ hou2
          · exact u2 x hx
    | none =>
      simp only [hc] at h
      cases hl : lookup L pv with
      | none => simp only [hl] at h; exact (failM_ok h).elim
      | some b =>
        simp only [hl] at h
        mbind h with p s1 h1
        obtain ⟨o, ns1⟩ := p
        try dsimp only at h
        have a1 := toOnnxVar_scope (vis := topDefs sofar ++ vis0)
          (fun n hn => by subst hn; exact hL.lookup hl) h1
        have f1 := toOnnxVar_fresh h1
        mbind h with p s2 h2
        obtain ⟨o', nc⟩ := p
        try dsimp only at h
        mbind h with p s3 h3
        obtain ⟨os', ns2⟩ := p
        try dsimp only at h
        obtain ⟨e1, e2⟩ := pure_ok h
        cases e1; subst e2
        obtain ⟨c1, c2⟩ := emitCopy_scope (vis := topDefs ns1 ++ (topDefs sofar ++ vis0)) a1.2 h2
        have fc := emitCopy_fresh h2
        have f12 : NodesFresh s s2 (ns1 ++ nc) := f1.append fc
        have hfreshc : o' ∉ s1.used := emitCopy_out_fresh h2
        have hno : o' ∉ outs := fun hm => hfreshc (f1.1 _ (hou _ hm))
        have hou2 : o' ∈ s2.used := (fc.2.2 o' (topDefs_sub_allDefsL nc o' c2)).2
        obtain ⟨w2, m2, l2, n2, u2⟩ := ih (sofar ++ (ns1 ++ nc)) (outs ++ [o']) (grow (ns1 ++ nc))
          (growu (ns1 ++ nc) f12)
          (by
            intro x hx
            rcases List.mem_append.mp hx with hx | hx
            · exact f12.1 x (hou x hx)
            · simp only [List.mem_singleton] at hx; subst hx; exact hou2)
          (nodup_snoc hnd hno) h3
        refine ⟨wf_app a1.1 (wf_app c1.1 ?_), ?_, by simp [l2], by simpa [List.append_assoc] using n2, ?_⟩
        · have := wf_reassoc w2
          apply wfNodes_mono ns2 _ this
          intro x hx
          rw [topDefs_append] at hx
          simp only [List.mem_append] at hx ⊢
          rcases hx with (hx | hx) | hx | hx
          · exact Or.inr (Or.inl hx)
          · exact Or.inl hx
          · exact Or.inr (Or.inr (Or.inl hx))
          · exact Or.inr (Or.inr (Or.inr hx))
        · intro o'' ho''
          rcases List.mem_cons.mp ho'' with rfl | ho''
          · simp only [topDefs_append, List.mem_append]
            exact Or.inr (Or.inr (Or.inl c2))
          · have := m2 o'' ho''
            simpa [List.append_assoc] using this
        · intro x hx
          rcases List.mem_cons.mp hx with rfl | hx
          · exact (blockOutputs_fresh L rest _ _ h3).1 _ hou2
          · exact u2 x hx


theorem loopOutputs_scope (L : Locals) (vis0 : List Name) : ∀ (vs : List Name) (sofar : List Node)
    (outs : List Name) {os : List Name} {ns : List Node} {s s' : St},
    VisOK (topDefs sofar ++ vis0) L → (∀ x, x ∈ topDefs sofar ++ vis0 → x ∈ s.used) →
    (∀ x, x ∈ outs → x ∈ s.used) → outs.Nodup →
    loopOutputs L vs sofar outs s = .ok ((os, ns), s') →
    wfNodes (topDefs sofar ++ vis0) ns = true ∧ (∀ o, o ∈ os → o ∈ topDefs (sofar ++ ns))
      ∧ os.length = vs.length ∧ (outs ++ os).Nodup ∧ (∀ x, x ∈ os → x ∈ s'.used) := by
  intro vs
  induction vs with
  | nil =>
    intro sofar outs os ns s s' _ _ _ hnd h
    unfold loopOutputs at h
    obtain ⟨e1, e2⟩ := pure_ok h
    cases e1
    exact ⟨wfNodes_nil _, (fun o ho => by cases ho), rfl, by simpa using hnd, (fun o ho => by cases ho)⟩
  | cons pv rest ih =>
    intro sofar outs os ns s s' hL hvu hou hnd h
    unfold loopOutputs at h
    have grow : ∀ (a : List Node), VisOK (topDefs (sofar ++ a) ++ vis0) L := by
      intro a
      apply hL.mono
      intro x hx
      rw [topDefs_append]
      simp only [List.mem_append] at hx ⊢
      rcases hx with hx | hx
      · exact Or.inl (Or.inl hx)
      · exact Or.inr hx
    have growu : ∀ {s1 : St} (a : List Node), NodesFresh s s1 a →
        ∀ x, x ∈ topDefs (sofar ++ a) ++ vis0 → x ∈ s1.used := by
      intro s1 a hf x hx
      rw [topDefs_append] at hx
      have : x ∈ topDefs a ++ (topDefs sofar ++ vis0) := mem_swap_app' hx
      exact grow_used hf hvu x this
    mbind h with p s1 h1
    obtain ⟨o, ns1⟩ := p
    try dsimp only at h
    have a1 := pyVar_scope hL h1
    have f1 := pyVar_fresh h1
    by_cases hin : ((topDefs (sofar ++ ns1)).contains o && !outs.contains o) = true
    · rw [if_pos hin] at h
      simp only [Bool.and_eq_true, Bool.not_eq_true', List.contains_iff_mem] at hin
      have hno : o ∉ outs := by
        intro hm
        have := List.contains_iff_mem.mpr hm
        rw [hin.2] at this
        cases this
      mbind h with p s2 h2
      obtain ⟨os', ns2⟩ := p
      try dsimp only at h
      obtain ⟨e1, e2⟩ := pure_ok h
      cases e1; subst e2
      have hou1 : o ∈ s1.used := grow_used f1 hvu o a1.2
      obtain ⟨w2, m2, l2, n2, u2⟩ := ih (sofar ++ ns1) (outs ++ [o]) (grow ns1) (growu ns1 f1)
        (by
          intro x hx
          rcases List.mem_append.mp hx with hx | hx
          · exact f1.1 x (hou x hx)
          · simp only [List.mem_singleton] at hx; subst hx; exact hou1)
        (nodup_snoc hnd hno) h2
      refine ⟨wf_app a1.1 (wf_reassoc w2), ?_, by simp [l2], by simpa [List.append_assoc] using n2, ?_⟩
      · intro o' ho'
        rcases List.mem_cons.mp ho' with rfl | ho'
        · rw [← List.append_assoc, topDefs_append]
          exact List.mem_append.mpr (Or.inl hin.1)
        · rw [← List.append_assoc]; exact m2 o' ho'
      · intro x hx
        rcases List.mem_cons.mp hx with rfl | hx
        · exact (loopOutputs_fresh L rest _ _ h2).1 _ hou1
        · exact u2 x hx
    · rw [if_neg hin] at h
      mbind h with p s2 h2
      obtain ⟨o', nc⟩ := p
      try dsimp only at h
      mbind h with p s3 h3
      obtain ⟨os', ns2⟩ := p
      try dsimp only at h
      obtain ⟨e1, e2⟩ := pure_ok h
      cases e1; subst e2
      obtain ⟨c1, c2⟩ := emitCopy_scope (vis := topDefs ns1 ++ (topDefs sofar ++ vis0)) a1.2 h2
      have fc := emitCopy_fresh h2
      have f12 : NodesFresh s s2 (ns1 ++ nc) := f1.append fc
      have hfreshc : o' ∉ s1.used := emitCopy_out_fresh h2
      have hno : o' ∉ outs := fun hm => hfreshc (f1.1 _ (hou _ hm))
      have hou2 : o' ∈ s2.used := (fc.2.2 o' (topDefs_sub_allDefsL nc o' c2)).2
      obtain ⟨w2, m2, l2, n2, u2⟩ := ih (sofar ++ (ns1 ++ nc)) (outs ++ [o']) (grow (ns1 ++ nc))
        (growu (ns1 ++ nc) f12)
        (by
          intro x hx
          rcases List.mem_append.mp hx with hx | hx
          · exact f12.1 x (hou x hx)
          · simp only [List.mem_singleton] at hx; subst hx; exact hou2)
        (nodup_snoc hnd hno) h3
      refine ⟨wf_app a1.1 (wf_app c1.1 ?_), ?_, by simp [l2], by simpa [List.append_assoc] using n2, ?_⟩
      · have := wf_reassoc w2
        apply wfNodes_mono ns2 _ this
        intro x hx
        rw [topDefs_append] at hx
        simp only [List.mem_append] at hx ⊢
        rcases hx with (hx | hx) | hx | hx
        · exact Or.inr (Or.inl hx)
        · exact Or.inl hx
        · exact Or.inr (Or.inr (Or.inl hx))
        · exact Or.inr (Or.inr (Or.inr hx))
      · intro o'' ho''
        rcases List.mem_cons.mp ho'' with rfl | ho''
        · simp only [topDefs_append, List.mem_append]
          exact Or.inr (Or.inr (Or.inl c2))
        · have := m2 o'' ho''
          simpa [List.append_assoc] using this
      · intro x hx
        rcases List.mem_cons.mp hx with rfl | hx
        · exact (loopOutputs_fresh L rest _ _ h3).1 _ hou2
        · exact u2 x hx

theorem loopInits_scope (L : Locals) : ∀ (vs : List Name) {vis : List Name} {os : List Name}
    {ns : List Node} {s s' : St}, VisOK vis L → loopInits L vs s = .ok ((os, ns), s') →
    ArgsOK vis os ns ∧ os.length = vs.length := by
  intro vs
  induction vs with
  | nil =>
    intro vis os ns s s' _ h
    unfold loopInits at h
    obtain ⟨e1, e2⟩ := pure_ok h
    cases e1
    exact ⟨⟨wfNodes_nil _, fun x hx => by cases hx⟩, rfl⟩
  | cons pv rest ih =>
    intro vis os ns s s' hL h
    unfold loopInits at h
    mbind h with p s1 h1
    obtain ⟨o, ns1⟩ := p
    try dsimp only at h
    mbind h with p s2 h2
    obtain ⟨os', ns2⟩ := p
    try dsimp only at h
    obtain ⟨e1, e2⟩ := pure_ok h
    cases e1
    have a1 := pyVar_scope hL h1
    obtain ⟨a2, l2⟩ := ih (vis := topDefs ns1 ++ vis) (hL.mono (vis_grow ns1)) h2
    refine ⟨⟨wf_app a1.1 a2.1, ?_⟩, by simp [l2]⟩
    intro z hz
    rcases List.mem_cons.mp hz with rfl | hz
    · exact mem_after_left a1.2
    · exact mem_after_app (a2.2 z hz)

theorem loopParams_scope : ∀ (vs : List Name) (L : Locals) {L' : Locals} {ps : List Name} {s s' : St}
    {vis : List Name}, loopParams L vs s = .ok ((L', ps), s') → VisOK vis L → (∀ p, p ∈ ps → p ∈ vis) →
    VisOK vis L' ∧ ps.length = vs.length := by
  intro vs
  induction vs with
  | nil =>
    intro L L' ps s s' vis h hL _
    unfold loopParams at h
    obtain ⟨e1, e2⟩ := pure_ok h
    cases e1
    exact ⟨hL, rfl⟩
  | cons pv rest ih =>
    intro L L' ps s s' vis h hL hp
    unfold loopParams at h
    mbind h with p s1 h1
    mbind h with q s2 h2
    obtain ⟨L'', ps'⟩ := q
    try dsimp only at h
    obtain ⟨e1, e2⟩ := pure_ok h
    cases e1
    obtain ⟨r1, r2⟩ := ih _ h2 (hL.bindVar (hp p List.mem_cons_self))
      (fun q hq => hp q (List.mem_cons_of_mem _ hq))
    exact ⟨r1, by simp [r2]⟩

theorem convParExprs_scope (L : Locals) : ∀ (xs : List Name) (es : List Expr) {vis : List Name}
    {ts : List Name} {ns : List Node} {s s' : St}, VisOK vis L →
    convParExprs L xs es s = .ok ((ts, ns), s') → ArgsOK vis ts ns := by
  intro xs
  induction xs with
  | nil =>
    intro es vis ts ns s s' hL h
    unfold convParExprs at h
    obtain ⟨e1, e2⟩ := pure_ok h
    cases e1
    exact ⟨wfNodes_nil _, fun x hx => by cases hx⟩
  | cons x xs ih =>
    intro es vis ts ns s s' hL h
    cases es with
    | nil =>
      unfold convParExprs at h
      obtain ⟨e1, e2⟩ := pure_ok h
      cases e1
      exact ⟨wfNodes_nil _, fun x hx => by cases hx⟩
    | cons e es =>
      unfold convParExprs at h
      mbind h with p s1 h1
      obtain ⟨t, ns1⟩ := p
      try dsimp only at h
      mbind h with p s2 h2
      obtain ⟨ts', ns2⟩ := p
      try dsimp only at h
      obtain ⟨e1, e2⟩ := pure_ok h
      cases e1
      have a1 := convExpr_scope L e _ hL h1
      have a2 := ih es (vis := topDefs ns1 ++ vis) (hL.mono (vis_grow ns1)) h2
      refine ⟨wf_app a1.1 a2.1, ?_⟩
      intro z hz
      rcases List.mem_cons.mp hz with rfl | hz
      · exact mem_after_left a1.2
      · exact mem_after_app (a2.2 z hz)

theorem convPar_scope (xs : List Name) (es : List Expr) (L : Locals) {vis : List Name} {L' : Locals}
    {ns : List Node} {s s' : St} (hL : VisOK vis L) (h : convPar L xs es s = .ok ((L', ns), s')) :
    StmtOK vis L' ns := by
  unfold convPar at h
  mbind h with p s1 h1
  obtain ⟨ts, ns1⟩ := p
  try dsimp only at h
  obtain ⟨e1, e2⟩ := pure_ok h
  cases e1
  have a1 := convParExprs_scope L xs es hL h1
  exact ⟨a1.1, VisOK.bindVals _ _ (hL.mono (vis_grow ns)) a1.2⟩

end OV.C01

namespace OV.C01

/-! ## Loops -/

theorem allIn_iff' (xs vis : List Name) : allIn xs vis = true ↔ ∀ x, x ∈ xs → x ∈ vis := by
  simp [allIn, List.all_eq_true]

theorem genUniques_length : ∀ (cs : List Name) {rs : List Name} {s s' : St},
    genUniques cs s = .ok (rs, s') → rs.length = cs.length :=
  fun cs _ _ _ h => (genUniques_fresh cs h).2.2

theorem loopEnter_scope {L : Locals} {v : Name} {bindIt : Bool} {state : List Name} {L1 : Locals} {iv : Name}
    {ps : List Name} {s s' : St} {vis : List Name}
    (h : loopEnter L v bindIt state s = .ok ((L1, iv, ps), s')) (hL : VisOK vis L)
    (hiv : iv ∈ vis) (hps : ∀ p, p ∈ ps → p ∈ vis) : VisOK vis L1 ∧ ps.length = state.length := by
  unfold loopEnter at h
  mbind h with iv' s1 h1
  mbind h with p s2 h2
  obtain ⟨L1', ps'⟩ := p
  try dsimp only at h
  obtain ⟨e1, e2⟩ := pure_ok h
  cases e1
  refine loopParams_scope _ _ h2 ?_ hps
  unfold loopScope
  cases bindIt with
  | true => simpa using hL.push.bindVar hiv
  | false => simpa using hL.push

theorem condNodes_scope {whileVar brkCond : Option Name} {oc co : Name} {cns : List Node} {s s' : St}
    {V : List Name} (hoc : oc ∈ V) (hbrk : ∀ b, brkCond = some b → b ∈ V)
    (h : condNodes whileVar brkCond oc s = .ok ((co, cns), s')) :
    wfNodes V cns = true ∧ co ∈ topDefs cns ∧ (∀ x, x ∈ topDefs cns → x ∈ s'.used) ∧ Mono s s' := by
  have hf := condNodes_fresh h
  have hused : ∀ x, x ∈ topDefs cns → x ∈ s'.used :=
    fun x hx => after_in_used hf (List.mem_append.mpr (Or.inl hx))
  have hone : ∀ {s s' : St} {co : Name} {cns : List Node},
      (do let co ← genUnique "cond_out"
          pure (co, [condNode brkCond oc co]) : M (Name × List Node)) s = .ok ((co, cns), s') →
      wfNodes V cns = true ∧ co ∈ topDefs cns := by
    intro s s' co cns h
    mbind h with c s1 h1
    obtain ⟨e1, e2⟩ := pure_ok h
    cases e1
    cases hb : brkCond with
    | none =>
      refine ⟨?_, by simp [condNode, topDefs, Node.outs]⟩
      simp only [condNode]
      apply wf_single_op
      intro i hi n hn
      simp only [List.mem_singleton] at hi
      subst hi; cases hn; exact hoc
    | some b =>
      refine ⟨?_, by simp [condNode, topDefs, Node.outs]⟩
      simp only [condNode]
      apply wf_single_op
      intro i hi n hn
      simp only [List.mem_singleton] at hi
      subst hi; cases hn; exact hbrk _ hb
  unfold condNodes at h
  cases whileVar with
  | none => obtain ⟨a, b⟩ := hone h; exact ⟨a, b, hused, hf.1⟩
  | some w =>
    cases hb : brkCond with
    | none => subst hb; obtain ⟨a, b⟩ := hone h; exact ⟨a, b, hused, hf.1⟩
    | some b =>
      subst hb
      simp only at h
      mbind h with nb s1 h1
      mbind h with c s2 h2
      obtain ⟨e1, e2⟩ := pure_ok h
      cases e1
      refine ⟨?_, by simp [topDefs, Node.outs], hused, hf.1⟩
      refine wf_app (a := [Node.op "" "Not" [some b] [nb] []]) (wf_single_op ?_) (wf_single_op ?_)
      · intro i hi n hn
        simp only [List.mem_singleton] at hi
        subst hi; cases hn; exact hbrk _ rfl
      · intro i hi n hn
        subst hn
        simp only [List.mem_cons, Option.some.injEq, List.mem_nil_iff, or_false] at hi
        rcases hi with rfl | rfl
        · exact vis_grow _ _ hoc
        · simp [topDefs, Node.outs]

theorem loopFinish_scope {L L2 : Locals} {state : List Name} {bound cond : Option Name}
    {condIn iv : Name} {ps : List Name} {whileVar : Option Name} {bn : List Node}
    {brkCond : Option Name} {L' : Locals} {nl : List Node} {s s' : St} {vis : List Name}
    (h : loopFinish L L2 state bound cond condIn iv ps whileVar bn brkCond s = .ok ((L', nl), s'))
    (hL : VisOK vis L)
    (hL2 : VisOK (topDefs bn ++ ((iv :: condIn :: ps) ++ vis)) L2)
    (hbn : wfNodes ((iv :: condIn :: ps) ++ vis) bn = true)
    (hb : optIn bound vis = true) (hc : optIn cond vis = true)
    (hbrk : ∀ b, brkCond = some b → b ∈ topDefs bn ++ ((iv :: condIn :: ps) ++ vis))
    (hps : ps.length = state.length)
    (hvu : ∀ x, x ∈ topDefs bn ++ ((iv :: condIn :: ps) ++ vis) → x ∈ s.used) :
    StmtOK vis L' nl := by
  unfold loopFinish at h
  cases hcn : loopCondName L2 whileVar condIn with
  | none => simp only [hcn] at h; exact (failM_ok h).elim
  | some oc =>
    simp only [hcn] at h
    mbind h with p s1 h1
    obtain ⟨condOut, cns⟩ := p
    try dsimp only at h
    mbind h with p s2 h2
    obtain ⟨os, ns3⟩ := p
    try dsimp only at h
    mbind h with p s3 h3
    obtain ⟨inits, ns4⟩ := p
    try dsimp only at h
    mbind h with outs s4 h4
    obtain ⟨e1, e2⟩ := pure_ok h
    cases e1
    -- the condition value is visible inside the body
    have hoc : oc ∈ topDefs bn ++ ((iv :: condIn :: ps) ++ vis) := by
      unfold loopCondName at hcn
      cases whileVar with
      | none =>
        simp only at hcn
        cases hcn
        simp
      | some w =>
        simp only at hcn
        cases hf : currentScopeFind L2 w with
        | none => simp only [hf] at hcn; cases hcn
        | some b =>
          cases b with
          | val n =>
            simp only [hf] at hcn
            cases hcn
            exact hL2.current hf
          | attr p ty => simp only [hf] at hcn; cases hcn
    obtain ⟨hcn_wf, hco_mem, hcn_used, m1⟩ := condNodes_scope hoc hbrk h1
    -- state outputs
    have hL2' : VisOK (topDefs (bn ++ cns) ++ ((iv :: condIn :: ps) ++ vis)) L2 := by
      apply hL2.mono
      intro x hx
      rw [topDefs_append]
      simp only [List.mem_append] at hx ⊢
      rcases hx with hx | hx
      · exact Or.inl (Or.inl hx)
      · exact Or.inr hx
    have hvu1 : ∀ x, x ∈ topDefs (bn ++ cns) ++ ((iv :: condIn :: ps) ++ vis) → x ∈ s1.used := by
      intro x hx
      rw [topDefs_append] at hx
      simp only [List.mem_append] at hx
      rcases hx with (hx | hx) | hx
      · exact m1 x (hvu x (List.mem_append.mpr (Or.inl hx)))
      · exact hcn_used x hx
      · exact m1 x (hvu x (List.mem_append.mpr (Or.inr (List.mem_append.mpr hx))))
    obtain ⟨w3, m3, l3, n3, _⟩ := loopOutputs_scope L2 ((iv :: condIn :: ps) ++ vis) state (bn ++ cns)
      [condOut] hL2' hvu1 (by
        intro x hx
        simp only [List.mem_singleton] at hx
        subst hx; exact hcn_used _ hco_mem) (by simp) h2
    obtain ⟨a4, l4⟩ := loopInits_scope L state hL h3
    have l5 := genUniques_length _ h4
    -- the body as a whole
    have hbody : wfNodes ((iv :: condIn :: ps) ++ (topDefs ns4 ++ vis)) (bn ++ (cns ++ ns3)) = true := by
      have hb1 : wfNodes ((iv :: condIn :: ps) ++ vis) (bn ++ (cns ++ ns3)) = true :=
        wf_app hbn (wf_app hcn_wf (wf_reassoc w3))
      apply wfNodes_mono _ _ hb1
      intro x hx
      simp only [List.mem_append] at hx ⊢
      rcases hx with hx | hx
      · exact Or.inl hx
      · exact Or.inr (Or.inr hx)
    refine ⟨wf_app a4.1 ?_, ?_⟩
    · simp only [wfNodes, wfNode, Bool.and_true, Bool.and_eq_true]
      refine ⟨⟨⟨⟨⟨⟨⟨⟨optIn_mono (vis_grow ns4) hb, optIn_mono (vis_grow ns4) hc⟩, ?_⟩, hbody⟩, ?_⟩, ?_⟩, ?_⟩, ?_⟩,
        nodupB_of_nodup _ (by simpa using n3)⟩
      · exact (allIn_iff' _ _).mpr a4.2
      · apply (allIn_iff' _ _).mpr
        intro o ho
        rcases List.mem_cons.mp ho with rfl | ho
        · simp only [topDefs_append, List.mem_append]
          exact Or.inr (Or.inl hco_mem)
        · have := m3 o ho
          simpa [List.append_assoc] using this
      · simp [hps, l4]
      · simp [l3, l4]
      · simp [l5, l4]
    · apply VisOK.bindVals
      · apply hL.mono
        intro x hx
        exact List.mem_append.mpr (Or.inr hx)
      · intro n hn
        simp [topDefs_append, topDefs, Node.outs, hn]

end OV.C01

namespace OV.C01

/-! ## Statements -/

theorem stmtOK_seq {vis : List Name} {a b : List Node} {L2 : Locals}
    (ha : wfNodes vis a = true) (hb : StmtOK (topDefs a ++ vis) L2 b) : StmtOK vis L2 (a ++ b) :=
  ⟨wf_app ha hb.1, hb.2.mono (fun _ hy => mem_after_app hy)⟩

mutual
theorem convStmt_scope (L : Locals) : ∀ (st : Stmt) (lo : VSet) {vis : List Name} {L' : Locals}
    {ns : List Node} {s s' : St}, VisOK vis L → (∀ x, x ∈ vis → x ∈ s.used) →
    convStmt L st lo s = .ok ((L', ns), s') → StmtOK vis L' ns
  | .assign x e, lo, vis, L', ns, s, s', hL, hvu, h => by
    unfold convStmt at h
    mbind h with p s1 h1
    obtain ⟨t, ns1⟩ := p
    try dsimp only at h
    obtain ⟨e1, e2⟩ := pure_ok h
    cases e1
    have a1 := convExpr_scope L e _ hL h1
    exact ⟨a1.1, (hL.mono (vis_grow ns)).bindVar a1.2⟩
  | .par xs es, lo, vis, L', ns, s, s', hL, hvu, h => by
    unfold convStmt at h
    by_cases hl : xs.length ≠ es.length
    · rw [if_pos hl] at h; exact (failM_ok h).elim
    · rw [if_neg hl] at h; exact convPar_scope _ _ _ hL h
  | .tuple xs e, lo, vis, L', ns, s, s', hL, hvu, h => by
    cases e with
    | call dom op sig args attrs =>
      unfold convStmt at h
      simp only at h
      mbind h with p s1 h1
      obtain ⟨as, ns1⟩ := p
      try dsimp only at h
      mbind h with attrs' s2 h2
      mbind h with p s3 h3
      obtain ⟨as', ns2⟩ := p
      try dsimp only at h
      mbind h with outs s4 h4
      obtain ⟨e1, e2⟩ := pure_ok h
      cases e1
      have a1 := convArgs_scope L args hL h1
      have a2 := castInputs_scope (vis := topDefs ns1 ++ vis) a1.2 h3
      refine ⟨wf_app a1.1 (wf_app a2.1 (wf_single_op (ins_some_vis a2.2))), ?_⟩
      apply VisOK.bindVals
      · exact hL.mono (fun x hx => List.mem_append.mpr (Or.inr hx))
      · intro n hn
        simp [topDefs_append, topDefs, Node.outs, hn]
    | _ => unfold convStmt at h; exact (failM_ok h).elim
  | .badAssign xs e, lo, vis, L', ns, s, s', hL, hvu, h => by
    unfold convStmt at h; exact (failM_ok h).elim
  | .ite c t e, lo, vis, L', ns, s, s', hL, hvu, h => by
    unfold convStmt at h
    cases ha : assignedStmt (.ite c t e) with
    | none => simp only [ha] at h; exact (failM_ok h).elim
    | some defs =>
      simp only [ha] at h
      mbind h with p s1 h1
      obtain ⟨test, ns0⟩ := p
      try dsimp only at h
      mbind h with p s2 h2
      obtain ⟨Lt, tn⟩ := p
      try dsimp only at h
      mbind h with p s3 h3
      obtain ⟨to, tn2⟩ := p
      try dsimp only at h
      mbind h with p s4 h4
      obtain ⟨Le, en⟩ := p
      try dsimp only at h
      mbind h with p s5 h5
      obtain ⟨eo, en2⟩ := p
      try dsimp only at h
      mbind h with renamed s6 h6
      by_cases hre : renamed.isEmpty = true
      · rw [if_pos hre] at h; exact (failM_ok h).elim
      · rw [if_neg hre] at h
        by_cases hrt : (renamed == [test]) = true
        · rw [if_pos hrt] at h; exact (failM_ok h).elim
        · rw [if_neg hrt] at h
          obtain ⟨e1, e2⟩ := pure_ok h
          cases e1
          have a1 := convExpr_scope L c _ hL h1
          have hL1 : VisOK (topDefs ns0 ++ vis) ([] :: L) := (hL.mono (vis_grow ns0)).push
          have f1 := convExpr_fresh L c _ h1
          have hvu1 : ∀ x, x ∈ topDefs ns0 ++ vis → x ∈ s1.used := grow_used f1 hvu
          have r2 := convStmts_scope _ t lo hL1 hvu1 h2
          have f2 := convStmts_fresh _ t lo h2
          obtain ⟨w3, m3, l3, n3, _⟩ := blockOutputs_scope Lt (topDefs ns0 ++ vis) _ tn [] r2.2
            (grow_used f2 hvu1) (fun x hx => by cases hx) List.nodup_nil h3
          have f3 := blockOutputs_fresh _ _ _ _ h3
          have hvu3 : ∀ x, x ∈ topDefs ns0 ++ vis → x ∈ s3.used := fun x hx => f3.1 _ (f2.1 _ (hvu1 x hx))
          have r4 := convStmts_scope _ e lo hL1 hvu3 h4
          have f4 := convStmts_fresh _ e lo h4
          obtain ⟨w5, m5, l5, n5, _⟩ := blockOutputs_scope Le (topDefs ns0 ++ vis) _ en [] r4.2
            (grow_used f4 hvu3) (fun x hx => by cases hx) List.nodup_nil h5
          have l6 := genUniques_length _ h6
          refine ⟨wf_app a1.1 ?_, ?_⟩
          · simp only [wfNodes, wfNode, Bool.and_true, Bool.and_eq_true, List.contains_iff_mem]
            refine ⟨⟨⟨⟨⟨⟨⟨⟨a1.2, wf_app r2.1 w3⟩, ?_⟩, wf_app r4.1 w5⟩, ?_⟩, ?_⟩, ?_⟩,
              nodupB_of_nodup _ (by simpa using n3)⟩, nodupB_of_nodup _ (by simpa using n5)⟩
            · exact (allIn_iff' _ _).mpr m3
            · exact (allIn_iff' _ _).mpr m5
            · simp [l3, l6]
            · simp [l5, l6]
          · apply VisOK.bindVals
            · exact hL.mono (fun x hx => List.mem_append.mpr (Or.inr hx))
            · intro n hn
              simp [topDefs_append, topDefs, Node.outs, hn]
  | .for_ i okIter bound body, lo, vis, L', ns, s, s', hL, hvu, h => by
    unfold convStmt at h
    by_cases hok : okIter = true
    · simp only [hok, Bool.not_true, Bool.false_eq_true, if_false] at h
      cases hs : loopState body lo with
      | none => simp only [hs] at h; exact (failM_ok h).elim
      | some state =>
        simp only [hs] at h
        mbind h with p s1 h1
        obtain ⟨ob, ns0⟩ := p
        try dsimp only at h
        mbind h with condIn s2 h2
        have h2 := (forCondIn_ok h2).2
        mbind h with p s3 h3
        obtain ⟨L1, iv, ps⟩ := p
        try dsimp only at h
        mbind h with p s4 h4
        obtain ⟨L2, bn, bc⟩ := p
        try dsimp only at h
        mbind h with p s5 h5
        obtain ⟨L'', nl⟩ := p
        try dsimp only at h
        obtain ⟨e1, e2⟩ := pure_ok h
        cases e1
        have a1 := convExpr_scope L bound _ hL h1
        have f1 := convExpr_fresh L bound _ h1
        have hcondIn : condIn ∈ s2.used := (genUnique_fresh h2).2.2 _ List.mem_cons_self |>.2
        have hvu2 : ∀ x, x ∈ topDefs ns0 ++ vis → x ∈ s2.used :=
          fun x hx => (genUnique_fresh h2).1 _ (grow_used f1 hvu x hx)
        have hLv : VisOK (topDefs ns0 ++ vis) L := hL.mono (vis_grow ns0)
        obtain ⟨hL1, lps⟩ := loopEnter_scope (vis := (iv :: condIn :: ps) ++ (topDefs ns0 ++ vis)) h3
          (hLv.mono (fun x hx => List.mem_append.mpr (Or.inr hx))) (by simp)
          (fun p hp => by simp [hp])
        have hvu3 : ∀ x, x ∈ (iv :: condIn :: ps) ++ (topDefs ns0 ++ vis) → x ∈ s3.used := by
          intro x hx
          have f3 := loopEnter_fresh h3
          simp only [List.mem_append, List.mem_cons] at hx
          rcases hx with (rfl | rfl | hx) | hx
          · exact (f3.2.2 _ List.mem_cons_self).2
          · exact f3.1 _ hcondIn
          · exact (f3.2.2 _ (List.mem_cons_of_mem _ hx)).2
          · exact f3.1 _ (hvu2 x (List.mem_append.mpr hx))
        obtain ⟨r4, b4⟩ := convLoopBody_scope L1 body _ hL1 hvu3 h4
        have f4 := convLoopBody_fresh L1 body _ h4
        have r5 := loopFinish_scope (vis := topDefs ns0 ++ vis) h5 hLv r4.2 r4.1
          (by simpa [optIn] using a1.2) (by simp [optIn]) b4 lps (grow_used f4 hvu3)
        exact stmtOK_seq a1.1 r5
    · simp only [hok, Bool.not_false, if_true] at h; exact (failM_ok h).elim
  | .while_ c body, lo, vis, L', ns, s, s', hL, hvu, h => by
    cases c with
    | var t =>
      unfold convStmt at h
      simp only at h
      cases hs : loopState body lo with
      | none => simp only [hs] at h; exact (failM_ok h).elim
      | some state =>
        simp only [hs] at h
        mbind h with condIn s2 h2
        mbind h with p s1 h1
        have h1 := whileCond_ok h1
        obtain ⟨oc, ns0⟩ := p
        try dsimp only at h
        mbind h with p s3 h3
        obtain ⟨L1, iv, ps⟩ := p
        try dsimp only at h
        mbind h with p s4 h4
        obtain ⟨L2, bn, bc⟩ := p
        try dsimp only at h
        mbind h with p s5 h5
        obtain ⟨L'', nl⟩ := p
        try dsimp only at h
        obtain ⟨e1, e2⟩ := pure_ok h
        cases e1
        have a1 := pyVar_scope hL h1
        have f1 := pyVar_fresh h1
        have hcondIn : condIn ∈ s1.used := f1.1 _ ((genUnique_fresh h2).2.2 _ List.mem_cons_self |>.2)
        have hvu2 : ∀ x, x ∈ topDefs ns0 ++ vis → x ∈ s1.used :=
          grow_used f1 (fun x hx => (genUnique_fresh h2).1 _ (hvu x hx))
        have hLv : VisOK (topDefs ns0 ++ vis) L := hL.mono (vis_grow ns0)
        obtain ⟨hL1, lps⟩ := loopEnter_scope (vis := (iv :: condIn :: ps) ++ (topDefs ns0 ++ vis)) h3
          (hLv.mono (fun x hx => List.mem_append.mpr (Or.inr hx))) (by simp)
          (fun p hp => by simp [hp])
        have hvu3 : ∀ x, x ∈ (iv :: condIn :: ps) ++ (topDefs ns0 ++ vis) → x ∈ s3.used := by
          intro x hx
          have f3 := loopEnter_fresh h3
          simp only [List.mem_append, List.mem_cons] at hx
          rcases hx with (rfl | rfl | hx) | hx
          · exact (f3.2.2 _ List.mem_cons_self).2
          · exact f3.1 _ hcondIn
          · exact (f3.2.2 _ (List.mem_cons_of_mem _ hx)).2
          · exact f3.1 _ (hvu2 x (List.mem_append.mpr hx))
        obtain ⟨r4, b4⟩ := convLoopBody_scope L1 body _ hL1 hvu3 h4
        have f4 := convLoopBody_fresh L1 body _ h4
        have r5 := loopFinish_scope (vis := topDefs ns0 ++ vis) h5 hLv r4.2 r4.1
          (by simp [optIn]) (by simpa [optIn] using a1.2) b4 lps (grow_used f4 hvu3)
        exact stmtOK_seq a1.1 r5
    | _ => unfold convStmt at h; exact (failM_ok h).elim
  | .brk c, lo, vis, L', ns, s, s', hL, hvu, h => by
    unfold convStmt at h; exact (failM_ok h).elim
  | .ret es b, lo, vis, L', ns, s, s', hL, hvu, h => by
    unfold convStmt at h; exact (failM_ok h).elim
  | .skip, lo, vis, L', ns, s, s', hL, hvu, h => by
    unfold convStmt at h
    obtain ⟨e1, e2⟩ := pure_ok h
    cases e1
    exact ⟨wfNodes_nil _, by simpa [topDefs] using hL⟩
  | .unsupported, lo, vis, L', ns, s, s', hL, hvu, h => by
    unfold convStmt at h; exact (failM_ok h).elim
theorem convStmts_scope (L : Locals) : ∀ (ss : List Stmt) (lo : VSet) {vis : List Name} {L' : Locals}
    {ns : List Node} {s s' : St}, VisOK vis L → (∀ x, x ∈ vis → x ∈ s.used) →
    convStmts L ss lo s = .ok ((L', ns), s') → StmtOK vis L' ns
  | [], lo, vis, L', ns, s, s', hL, hvu, h => by
    unfold convStmts at h
    obtain ⟨e1, e2⟩ := pure_ok h
    cases e1
    exact ⟨wfNodes_nil _, by simpa [topDefs] using hL⟩
  | st :: ss, lo, vis, L', ns, s, s', hL, hvu, h => by
    unfold convStmts at h
    mbind h with p s1 h1
    obtain ⟨L1, ns1⟩ := p
    try dsimp only at h
    mbind h with p s2 h2
    obtain ⟨L2, ns2⟩ := p
    try dsimp only at h
    obtain ⟨e1, e2⟩ := pure_ok h
    cases e1
    have r1 := convStmt_scope L st _ hL hvu h1
    exact stmtOK_seq r1.1 (convStmts_scope L1 ss lo r1.2 (grow_used (convStmt_fresh L st _ h1) hvu) h2)
theorem convLoopBody_scope (L : Locals) : ∀ (ss : List Stmt) (lo : VSet) {vis : List Name} {L' : Locals}
    {ns : List Node} {bc : Option Name} {s s' : St}, VisOK vis L → (∀ x, x ∈ vis → x ∈ s.used) →
    convLoopBody L ss lo s = .ok ((L', ns, bc), s') →
    StmtOK vis L' ns ∧ ∀ b, bc = some b → b ∈ topDefs ns ++ vis
  | [], lo, vis, L', ns, bc, s, s', hL, hvu, h => by
    unfold convLoopBody at h
    obtain ⟨e1, e2⟩ := pure_ok h
    cases e1
    exact ⟨⟨wfNodes_nil _, by simpa [topDefs] using hL⟩, fun b hb => by cases hb⟩
  | st :: ss, lo, vis, L', ns, bc, s, s', hL, hvu, h => by
    by_cases hb : ∃ c, st = .brk c
    · obtain ⟨c, rfl⟩ := hb
      unfold convLoopBody at h
      cases c with
      | var t =>
        simp only at h
        by_cases he : (!ss.isEmpty) = true
        · rw [if_pos he] at h; exact (failM_ok h).elim
        · rw [if_neg he] at h
          cases hf : currentScopeFind L t with
          | none => rw [hf] at h; exact (failM_ok h).elim
          | some b =>
            cases b with
            | val n =>
              rw [hf] at h
              obtain ⟨e1, e2⟩ := pure_ok h
              cases e1
              refine ⟨⟨wfNodes_nil _, by simpa [topDefs] using hL⟩, ?_⟩
              intro b hb
              cases hb
              simpa [topDefs] using hL.current hf
            | attr p ty => rw [hf] at h; exact (failM_ok h).elim
      | _ => exact (failM_ok h).elim
    · rw [convLoopBody_cons_nonbrk L st ss lo (fun c hc => hb ⟨c, hc⟩)] at h
      mbind h with p s1 h1
      obtain ⟨L1, ns1⟩ := p
      try dsimp only at h
      mbind h with p s2 h2
      obtain ⟨L2, ns2, bc'⟩ := p
      try dsimp only at h
      obtain ⟨e1, e2⟩ := pure_ok h
      cases e1
      have r1 := convStmt_scope L st _ hL hvu h1
      obtain ⟨r2, b2⟩ := convLoopBody_scope L1 ss lo r1.2 (grow_used (convStmt_fresh L st _ h1) hvu) h2
      exact ⟨stmtOK_seq r1.1 r2, fun b hb => mem_after_app (b2 b hb)⟩
end

end OV.C01

namespace OV.C01

/-! ## Function level -/

theorem convRetOne_scope {L : Locals} {inputs : List Name} {e : Expr} {pref : Name} {outs : List Name}
    {o : Name} {ns : List Node} {s s' : St} {vis : List Name} (hL : VisOK vis L)
    (h : convRetOne L inputs e pref outs s = .ok ((o, ns), s')) : ExprOK vis o ns := by
  unfold convRetOne at h
  mbind h with p s1 h1
  obtain ⟨rv, ns1⟩ := p
  try dsimp only at h
  mbind h with p s2 h2
  obtain ⟨rv2, ns2⟩ := p
  try dsimp only at h
  have a1 := convExpr_scope L e _ hL h1
  have a2 : ExprOK (topDefs ns1 ++ vis) rv2 ns2 := by
    by_cases hi : returnsInput inputs rv = true
    · rw [if_pos hi] at h2; exact (emitCopy_scope a1.2 h2).1
    · rw [if_neg hi] at h2
      obtain ⟨e1, e2⟩ := pure_ok h2
      cases e1
      exact ⟨wfNodes_nil _, by simpa [topDefs] using a1.2⟩
  by_cases hc : outs.contains rv2 = true
  · rw [if_pos hc] at h
    mbind h with p s3 h3
    obtain ⟨rv3, ns3⟩ := p
    try dsimp only at h
    obtain ⟨e1, e2⟩ := pure_ok h
    cases e1
    have a3 := (emitCopy_scope a2.2 h3).1
    exact ⟨wf_app a1.1 (wf_app a2.1 a3.1), mem_after_app (mem_after_app a3.2)⟩
  · rw [if_neg hc] at h
    obtain ⟨e1, e2⟩ := pure_ok h
    cases e1
    exact ⟨wf_app a1.1 a2.1, mem_after_app a2.2⟩

theorem convRetAll_scope {L : Locals} {inputs : List Name} {single : Bool} :
    ∀ (es : List Expr) (i : Nat) (outs : List Name) {vis : List Name} {outs' : List Name} {ns : List Node}
      {s s' : St}, VisOK vis L → (∀ o, o ∈ outs → o ∈ vis) →
      convRetAll L inputs single es i outs s = .ok ((outs', ns), s') →
      wfNodes vis ns = true ∧ ∀ o, o ∈ outs' → o ∈ topDefs ns ++ vis := by
  intro es
  induction es with
  | nil =>
    intro i outs vis outs' ns s s' _ ho h
    unfold convRetAll at h
    obtain ⟨e1, e2⟩ := pure_ok h
    cases e1
    exact ⟨wfNodes_nil _, fun o hm => by simpa [topDefs] using ho o hm⟩
  | cons e es ih =>
    intro i outs vis outs' ns s s' hL ho h
    unfold convRetAll at h
    simp only at h
    mbind h with p s1 h1
    obtain ⟨o, ns1⟩ := p
    try dsimp only at h
    mbind h with p s2 h2
    obtain ⟨outs2, ns2⟩ := p
    try dsimp only at h
    obtain ⟨e1, e2⟩ := pure_ok h
    cases e1
    have a1 := convRetOne_scope hL h1
    obtain ⟨w2, m2⟩ := ih (i + 1) (outs ++ [o]) (vis := topDefs ns1 ++ vis) (hL.mono (vis_grow ns1))
      (by
        intro o' ho'
        rcases List.mem_append.mp ho' with ho' | ho'
        · exact vis_grow ns1 _ (ho o' ho')
        · simp only [List.mem_singleton] at ho'; subst ho'; exact a1.2) h2
    exact ⟨wf_app a1.1 w2, fun o' ho' => mem_after_app (m2 o' ho')⟩

theorem convRetStmt_scope {L : Locals} {inputs : List Name} {rc : Option Nat} {es : List Expr} {bare : Bool}
    {outs outs' : List Name} {ns : List Node} {s s' : St} {vis : List Name} (hL : VisOK vis L)
    (ho : ∀ o, o ∈ outs → o ∈ vis)
    (h : convRetStmt L inputs rc es bare outs s = .ok ((outs', ns), s')) :
    wfNodes vis ns = true ∧ ∀ o, o ∈ outs' → o ∈ topDefs ns ++ vis := by
  unfold convRetStmt at h
  by_cases hb : bare = true
  · rw [if_pos hb] at h; exact (failM_ok h).elim
  · rw [if_neg hb] at h
    cases rc with
    | none => exact convRetAll_scope _ _ _ hL ho h
    | some k =>
      simp only at h
      by_cases hk : k ≠ es.length
      · rw [if_pos hk] at h; exact (failM_ok h).elim
      · rw [if_neg hk] at h; exact convRetAll_scope _ _ _ hL ho h

theorem convTop_scope {inputs : List Name} {rc : Option Nat} :
    ∀ (ss : List Stmt) (L : Locals) (outs : List Name) {vis : List Name} {ns : List Node}
      {outs' : List Name} {s s' : St}, VisOK vis L → (∀ x, x ∈ vis → x ∈ s.used) → (∀ o, o ∈ outs → o ∈ vis) →
      convTop inputs rc L ss outs s = .ok ((ns, outs'), s') →
      wfNodes vis ns = true ∧ ∀ o, o ∈ outs' → o ∈ topDefs ns ++ vis := by
  intro ss
  induction ss with
  | nil =>
    intro L outs vis ns outs' s s' _ _ ho h
    unfold convTop at h
    obtain ⟨e1, e2⟩ := pure_ok h
    cases e1
    exact ⟨wfNodes_nil _, fun o hm => by simpa [topDefs] using ho o hm⟩
  | cons st ss ih =>
    intro L outs vis ns outs' s s' hL hvu ho h
    by_cases hb : ∃ es b, st = .ret es b
    · obtain ⟨es, b, rfl⟩ := hb
      unfold convTop at h
      mbind h with p s1 h1
      have h1 := (onlyLast_ok h1).2
      obtain ⟨outs1, ns1⟩ := p
      try dsimp only at h
      mbind h with p s2 h2
      obtain ⟨ns2, outs2⟩ := p
      try dsimp only at h
      obtain ⟨e1, e2⟩ := pure_ok h
      cases e1
      obtain ⟨w1, m1⟩ := convRetStmt_scope hL ho h1
      obtain ⟨w2, m2⟩ := ih L outs1 (vis := topDefs ns1 ++ vis) (hL.mono (vis_grow ns1))
        (grow_used (convRetStmt_fresh h1) hvu) m1 h2
      exact ⟨wf_app w1 w2, fun o hm => mem_after_app (m2 o hm)⟩
    · rw [convTop_cons_nonret inputs rc L st ss outs (fun es b hc => hb ⟨es, b, hc⟩)] at h
      mbind h with p s1 h1
      obtain ⟨L1, ns1⟩ := p
      try dsimp only at h
      mbind h with p s2 h2
      obtain ⟨ns2, outs2⟩ := p
      try dsimp only at h
      obtain ⟨e1, e2⟩ := pure_ok h
      cases e1
      have r1 := convStmt_scope L st _ hL hvu h1
      obtain ⟨w2, m2⟩ := ih L1 outs (vis := topDefs ns1 ++ vis) r1.2
        (grow_used (convStmt_fresh L st _ h1) hvu) (fun o hm => vis_grow ns1 _ (ho o hm)) h2
      exact ⟨wf_app r1.1 w2, fun o hm => mem_after_app (m2 o hm)⟩

theorem paramFrame_vis : ∀ (ps : List Param) (p : Name × Bind), p ∈ paramFrame ps →
    ∀ n, p.2 = Bind.val n → n ∈ tensorParams ps := by
  intro ps
  induction ps with
  | nil => intro p hp; simp [paramFrame] at hp
  | cons q qs ih =>
    intro p hp n hn
    cases q with
    | tensor x =>
      simp only [paramFrame, List.mem_append, List.mem_singleton] at hp
      rcases hp with hp | hp
      · have := ih p hp n hn
        simp [tensorParams, this]
        exact Or.inr (by simpa [tensorParams] using this)
      · subst hp
        cases hn
        simp [tensorParams]
    | attr x ty =>
      simp only [paramFrame, List.mem_append, List.mem_singleton] at hp
      rcases hp with hp | hp
      · have := ih p hp n hn
        simpa [tensorParams] using this
      · subst hp
        cases hn

/-- **Scoped definition before use.**  In the emitted function body every node input — at every nesting
depth — names a function input, an output of an earlier node of the same graph, or a value of an enclosing
graph defined before the enclosing control-flow node; every If/Loop subgraph output is produced by a node
of that subgraph; and every function output is visible at the end of the body. -/
theorem convert_scoped_ok {f : Func} {g : Graph} (h : convert f = .ok g) :
    wfNodes g.inputs g.nodes = true ∧ ∀ o, o ∈ g.outputs → o ∈ g.inputs ++ topDefs g.nodes := by
  obtain ⟨h, _, d0, ha0⟩ := convert_core h
  unfold convertCore at h
  cases ha : assignedBlock f.body with
  | none => rw [ha] at ha0; cases ha0
  | some d =>
    simp only at h
    cases hc : convTop (tensorParams f.params) f.retCount [paramFrame f.params] f.body []
        { used := (tensorParams f.params).reverse, next := 0, castable := [] } with
    | error e => rw [hc] at h; cases h
    | ok r =>
      obtain ⟨⟨ns, outs⟩, s'⟩ := r
      rw [hc] at h
      cases h
      have hL : VisOK (tensorParams f.params) [paramFrame f.params] := by
        intro fr hfr p hp n hn
        simp only [List.mem_singleton] at hfr
        subst hfr
        exact paramFrame_vis _ p hp n hn
      obtain ⟨w, m⟩ := convTop_scope _ _ _ hL (fun x hx => by simpa using hx) (fun o ho => by cases ho) hc
      refine ⟨w, fun o ho => ?_⟩
      have := m o ho
      simp only [List.mem_append] at this ⊢
      exact this.symm

end OV.C01

namespace OV.C01

/-! ## Function outputs are pairwise distinct -/

theorem convRetOne_new {L : Locals} {inputs : List Name} {e : Expr} {pref : Name} {outs : List Name}
    {o : Name} {ns : List Node} {s s' : St} (hL : VisOK s.used L) (ho : ∀ x, x ∈ outs → x ∈ s.used)
    (h : convRetOne L inputs e pref outs s = .ok ((o, ns), s')) : o ∉ outs ∧ o ∈ s'.used := by
  have hin : o ∈ s'.used := after_in_used (convRetOne_fresh h) (convRetOne_scope hL h).2
  refine ⟨?_, hin⟩
  unfold convRetOne at h
  mbind h with p s1 h1
  obtain ⟨rv, ns1⟩ := p
  try dsimp only at h
  mbind h with p s2 h2
  obtain ⟨rv2, ns2⟩ := p
  try dsimp only at h
  have m1 := (convExpr_fresh L e _ h1).1
  have m2 : Mono s1 s2 := by
    by_cases hi : returnsInput inputs rv = true
    · rw [if_pos hi] at h2; exact (emitCopy_fresh h2).1
    · rw [if_neg hi] at h2
      obtain ⟨e1, e2⟩ := pure_ok h2
      subst e2
      exact Mono.refl _
  by_cases hc : outs.contains rv2 = true
  · rw [if_pos hc] at h
    mbind h with p s3 h3
    obtain ⟨rv3, ns3⟩ := p
    try dsimp only at h
    obtain ⟨e1, e2⟩ := pure_ok h
    cases e1
    intro hm
    exact emitCopy_out_fresh h3 (m2 _ (m1 _ (ho _ hm)))
  · rw [if_neg hc] at h
    obtain ⟨e1, e2⟩ := pure_ok h
    cases e1
    intro hm
    exact hc (List.contains_iff_mem.mpr hm)

theorem convRetAll_nodup {L : Locals} {inputs : List Name} {single : Bool} :
    ∀ (es : List Expr) (i : Nat) (outs : List Name) {outs' : List Name} {ns : List Node} {s s' : St},
      VisOK s.used L → (∀ x, x ∈ outs → x ∈ s.used) → outs.Nodup →
      convRetAll L inputs single es i outs s = .ok ((outs', ns), s') →
      outs'.Nodup ∧ ∀ x, x ∈ outs' → x ∈ s'.used := by
  intro es
  induction es with
  | nil =>
    intro i outs outs' ns s s' _ ho hn h
    unfold convRetAll at h
    obtain ⟨e1, e2⟩ := pure_ok h
    cases e1; subst e2
    exact ⟨hn, ho⟩
  | cons e es ih =>
    intro i outs outs' ns s s' hL ho hn h
    unfold convRetAll at h
    simp only at h
    mbind h with p s1 h1
    obtain ⟨o, ns1⟩ := p
    try dsimp only at h
    mbind h with p s2 h2
    obtain ⟨outs2, ns2⟩ := p
    try dsimp only at h
    obtain ⟨e1, e2⟩ := pure_ok h
    cases e1; subst e2
    obtain ⟨n1, u1⟩ := convRetOne_new hL ho h1
    have m1 := (convRetOne_fresh h1).1
    apply ih (i + 1) (outs ++ [o]) (hL.mono m1) _ _ h2
    · intro x hx
      rcases List.mem_append.mp hx with hx | hx
      · exact m1 _ (ho x hx)
      · simp only [List.mem_singleton] at hx; subst hx; exact u1
    · rw [List.nodup_append]
      refine ⟨hn, by simp, ?_⟩
      intro a ha b hb hab
      simp only [List.mem_singleton] at hb
      subst hb; subst hab
      exact n1 ha

theorem convRetStmt_nodup {L : Locals} {inputs : List Name} {rc : Option Nat} {es : List Expr} {bare : Bool}
    {outs outs' : List Name} {ns : List Node} {s s' : St} (hL : VisOK s.used L)
    (ho : ∀ x, x ∈ outs → x ∈ s.used) (hn : outs.Nodup)
    (h : convRetStmt L inputs rc es bare outs s = .ok ((outs', ns), s')) :
    outs'.Nodup ∧ ∀ x, x ∈ outs' → x ∈ s'.used := by
  unfold convRetStmt at h
  by_cases hb : bare = true
  · rw [if_pos hb] at h; exact (failM_ok h).elim
  · rw [if_neg hb] at h
    cases rc with
    | none => exact convRetAll_nodup _ _ _ hL ho hn h
    | some k =>
      simp only at h
      by_cases hk : k ≠ es.length
      · rw [if_pos hk] at h; exact (failM_ok h).elim
      · rw [if_neg hk] at h; exact convRetAll_nodup _ _ _ hL ho hn h

theorem convTop_nodup {inputs : List Name} {rc : Option Nat} :
    ∀ (ss : List Stmt) (L : Locals) (outs : List Name) {ns : List Node} {outs' : List Name} {s s' : St},
      VisOK s.used L → (∀ x, x ∈ outs → x ∈ s.used) → outs.Nodup →
      convTop inputs rc L ss outs s = .ok ((ns, outs'), s') → outs'.Nodup := by
  intro ss
  induction ss with
  | nil =>
    intro L outs ns outs' s s' _ _ hn h
    unfold convTop at h
    obtain ⟨e1, e2⟩ := pure_ok h
    cases e1
    exact hn
  | cons st ss ih =>
    intro L outs ns outs' s s' hL ho hn h
    by_cases hb : ∃ es b, st = .ret es b
    · obtain ⟨es, b, rfl⟩ := hb
      unfold convTop at h
      mbind h with p s1 h1
      have h1 := (onlyLast_ok h1).2
      obtain ⟨outs1, ns1⟩ := p
      try dsimp only at h
      mbind h with p s2 h2
      obtain ⟨ns2, outs2⟩ := p
      try dsimp only at h
      obtain ⟨e1, e2⟩ := pure_ok h
      cases e1
      obtain ⟨n1, u1⟩ := convRetStmt_nodup hL ho hn h1
      exact ih L outs1 (hL.mono (convRetStmt_fresh h1).1) u1 n1 h2
    · rw [convTop_cons_nonret inputs rc L st ss outs (fun es b hc => hb ⟨es, b, hc⟩)] at h
      mbind h with p s1 h1
      obtain ⟨L1, ns1⟩ := p
      try dsimp only at h
      mbind h with p s2 h2
      obtain ⟨ns2, outs2⟩ := p
      try dsimp only at h
      obtain ⟨e1, e2⟩ := pure_ok h
      cases e1
      have r1 := convStmt_scope L st _ hL (fun x hx => hx) h1
      have f1 := convStmt_fresh L st _ h1
      have hL1 : VisOK s1.used L1 := r1.2.mono (fun x hx => after_in_used f1 hx)
      exact ih L1 outs hL1 (fun x hx => f1.1 _ (ho x hx)) hn h2

/-- **Function outputs are pairwise distinct** (`_translate_return_stmt` copies a value that is already an output). -/
theorem convert_outputs_nodup {f : Func} {g : Graph} (h : convert f = .ok g) : g.outputs.Nodup := by
  obtain ⟨h, _, d0, ha0⟩ := convert_core h
  unfold convertCore at h
  cases ha : assignedBlock f.body with
  | none => rw [ha] at ha0; cases ha0
  | some d =>
    simp only at h
    cases hc : convTop (tensorParams f.params) f.retCount [paramFrame f.params] f.body []
        { used := (tensorParams f.params).reverse, next := 0, castable := [] } with
    | error e => rw [hc] at h; cases h
    | ok r =>
      obtain ⟨⟨ns, outs⟩, s'⟩ := r
      rw [hc] at h
      cases h
      refine convTop_nodup _ _ _ ?_ (fun x hx => by cases hx) List.nodup_nil hc
      intro fr hfr p hp n hn
      simp only [List.mem_singleton] at hfr
      subst hfr
      simpa using paramFrame_vis _ p hp n hn

end OV.C01

namespace OV.C01

/-! ## No graph input is returned directly -/

theorem lookup_bindVar_ne {L : Locals} {x y : Name} {b : Bind} (h : y ≠ x) :
    lookup (bindVar L x b) y = lookup L y := by
  cases L with
  | nil => simp [bindVar, lookup, Frame.find, Ne.symm h]
  | cons f fs => simp [bindVar, lookup, Frame.find, Ne.symm h]

theorem lookup_bindVals_notin : ∀ (xs ns : List Name) (L : Locals) {y : Name}, y ∉ xs →
    lookup (bindVals L xs ns) y = lookup L y := by
  intro xs
  induction xs with
  | nil => intro ns L y _; cases ns <;> rfl
  | cons x xs ih =>
    intro ns L y hy
    cases ns with
    | nil => rfl
    | cons n ns =>
      simp only [bindVals]
      rw [ih ns _ (fun hm => hy (List.mem_cons_of_mem _ hm))]
      exact lookup_bindVar_ne (fun he => hy (he ▸ List.mem_cons_self))

theorem mem_vinter {y : Name} {a b : VSet} : y ∈ vinter a b ↔ y ∈ a ∧ y ∈ b := by
  simp [vinter]

theorem convRetOne_not_input {L : Locals} {inputs : List Name} {e : Expr} {pref : Name} {outs : List Name}
    {o : Name} {ns : List Node} {s s' : St} (hu : ∀ x, x ∈ inputs → x ∈ s.used)
    (h : convRetOne L inputs e pref outs s = .ok ((o, ns), s')) : o ∉ inputs := by
  unfold convRetOne at h
  mbind h with p s1 h1
  obtain ⟨rv, ns1⟩ := p
  try dsimp only at h
  mbind h with p s2 h2
  obtain ⟨rv2, ns2⟩ := p
  try dsimp only at h
  have m1 := (convExpr_fresh L e _ h1).1
  have key : rv2 ∉ inputs ∧ Mono s1 s2 := by
    by_cases hi : returnsInput inputs rv = true
    · rw [if_pos hi] at h2
      exact ⟨fun hm => emitCopy_out_fresh h2 (m1 _ (hu _ hm)), (emitCopy_fresh h2).1⟩
    · rw [if_neg hi] at h2
      obtain ⟨e1, e2⟩ := pure_ok h2
      cases e1; subst e2
      refine ⟨fun hm => hi ?_, Mono.refl _⟩
      unfold returnsInput
      simpa using hm
  by_cases hc : outs.contains rv2 = true
  · rw [if_pos hc] at h
    mbind h with p s3 h3
    obtain ⟨rv3, ns3⟩ := p
    try dsimp only at h
    obtain ⟨e1, e2⟩ := pure_ok h
    cases e1
    exact fun hm => emitCopy_out_fresh h3 (key.2 _ (m1 _ (hu _ hm)))
  · rw [if_neg hc] at h
    obtain ⟨e1, e2⟩ := pure_ok h
    cases e1
    exact key.1

theorem convRetAll_not_input {L : Locals} {inputs : List Name} {single : Bool} :
    ∀ (es : List Expr) (i : Nat) (outs : List Name) {outs' : List Name} {ns : List Node} {s s' : St},
      (∀ x, x ∈ inputs → x ∈ s.used) → (∀ o, o ∈ outs → o ∉ inputs) →
      convRetAll L inputs single es i outs s = .ok ((outs', ns), s') → ∀ o, o ∈ outs' → o ∉ inputs := by
  intro es
  induction es with
  | nil =>
    intro i outs outs' ns s s' _ ho h
    unfold convRetAll at h
    obtain ⟨e1, e2⟩ := pure_ok h
    cases e1
    exact ho
  | cons e es ih =>
    intro i outs outs' ns s s' hu ho h
    unfold convRetAll at h
    simp only at h
    mbind h with p s1 h1
    obtain ⟨o, ns1⟩ := p
    try dsimp only at h
    mbind h with p s2 h2
    obtain ⟨outs2, ns2⟩ := p
    try dsimp only at h
    obtain ⟨e1, e2⟩ := pure_ok h
    cases e1
    have n1 := convRetOne_not_input hu h1
    have m1 := (convRetOne_fresh h1).1
    apply ih (i + 1) (outs ++ [o]) (fun x hx => m1 _ (hu x hx)) _ h2
    intro o' ho'
    rcases List.mem_append.mp ho' with ho' | ho'
    · exact ho o' ho'
    · simp only [List.mem_singleton] at ho'; subst ho'; exact n1

theorem convRetStmt_not_input {L : Locals} {inputs : List Name} {rc : Option Nat} {es : List Expr} {bare : Bool}
    {outs outs' : List Name} {ns : List Node} {s s' : St}
    (hu : ∀ x, x ∈ inputs → x ∈ s.used) (ho : ∀ o, o ∈ outs → o ∉ inputs)
    (h : convRetStmt L inputs rc es bare outs s = .ok ((outs', ns), s')) : ∀ o, o ∈ outs' → o ∉ inputs := by
  unfold convRetStmt at h
  by_cases hb : bare = true
  · rw [if_pos hb] at h; exact (failM_ok h).elim
  · rw [if_neg hb] at h
    cases rc with
    | none => exact convRetAll_not_input _ _ _ hu ho h
    | some k =>
      simp only at h
      by_cases hk : k ≠ es.length
      · rw [if_pos hk] at h; exact (failM_ok h).elim
      · rw [if_neg hk] at h; exact convRetAll_not_input _ _ _ hu ho h

theorem convTop_not_input {inputs : List Name} {rc : Option Nat} :
    ∀ (ss : List Stmt) (L : Locals) (outs : List Name) {ns : List Node} {outs' : List Name}
      {s s' : St}, (∀ x, x ∈ inputs → x ∈ s.used) → (∀ o, o ∈ outs → o ∉ inputs) →
      convTop inputs rc L ss outs s = .ok ((ns, outs'), s') → ∀ o, o ∈ outs' → o ∉ inputs := by
  intro ss
  induction ss with
  | nil =>
    intro L outs ns outs' s s' _ ho h
    unfold convTop at h
    obtain ⟨e1, e2⟩ := pure_ok h
    cases e1
    exact ho
  | cons st ss ih =>
    intro L outs ns outs' s s' hu ho h
    by_cases hr : ∃ es b', st = .ret es b'
    · obtain ⟨es, b', rfl⟩ := hr
      unfold convTop at h
      mbind h with p s1 h1
      have h1 := (onlyLast_ok h1).2
      obtain ⟨outs1, ns1⟩ := p
      try dsimp only at h
      mbind h with p s2 h2
      obtain ⟨ns2, outs2⟩ := p
      try dsimp only at h
      obtain ⟨e1, e2⟩ := pure_ok h
      cases e1
      have n1 := convRetStmt_not_input hu ho h1
      exact ih L outs1 (fun x hx => (convRetStmt_fresh h1).1 _ (hu x hx)) n1 h2
    · rw [convTop_cons_nonret inputs rc L st ss outs (fun es b' hc => hr ⟨es, b', hc⟩)] at h
      mbind h with p s1 h1
      obtain ⟨L1, ns1⟩ := p
      try dsimp only at h
      mbind h with p s2 h2
      obtain ⟨ns2, outs2⟩ := p
      try dsimp only at h
      obtain ⟨e1, e2⟩ := pure_ok h
      cases e1
      exact ih L1 outs (fun x hx => (convStmt_fresh L st _ h1).1 _ (hu x hx)) ho h2

theorem Frame.find_append (a b : Frame) (x : Name) :
    Frame.find (a ++ b) x = match Frame.find a x with | some v => some v | none => Frame.find b x := by
  induction a with
  | nil => simp [Frame.find]
  | cons p rest ih =>
    obtain ⟨y, v⟩ := p
    simp only [List.cons_append, Frame.find]
    by_cases hy : y = x
    · simp [hy]
    · simp [hy, ih]

theorem paramFrame_find_none : ∀ (ps : List Param) (x : Name), x ∉ ps.map Param.name →
    Frame.find (paramFrame ps) x = none := by
  intro ps
  induction ps with
  | nil => intro x _; simp [paramFrame, Frame.find]
  | cons q qs ih =>
    intro x hx
    simp only [List.map_cons, List.mem_cons, not_or] at hx
    cases q with
    | tensor y =>
      simp only [paramFrame, Frame.find_append, ih x hx.2, Frame.find]
      simp only [Param.name] at hx
      simp [Ne.symm hx.1]
    | attr y ty =>
      simp only [paramFrame, Frame.find_append, ih x hx.2, Frame.find]
      simp only [Param.name] at hx
      simp [Ne.symm hx.1]

theorem paramFrame_find : ∀ (ps : List Param) (x : Name), (ps.map Param.name).Nodup →
    x ∈ tensorParams ps → Frame.find (paramFrame ps) x = some (.val x) := by
  intro ps
  induction ps with
  | nil => intro x _ hx; simp [tensorParams] at hx
  | cons q qs ih =>
    intro x hn hx
    simp only [List.map_cons, List.nodup_cons] at hn
    cases q with
    | tensor y =>
      simp only [tensorParams, List.filterMap_cons, List.mem_cons] at hx
      simp only [paramFrame, Frame.find_append]
      rcases hx with rfl | hx
      · rw [paramFrame_find_none qs x (by simpa [Param.name] using hn.1)]
        simp [Frame.find]
      · rw [ih x hn.2 (by simpa [tensorParams] using hx)]
    | attr y ty =>
      simp only [tensorParams, List.filterMap_cons] at hx
      simp only [paramFrame, Frame.find_append]
      rw [ih x hn.2 (by simpa [tensorParams] using hx)]

/-- **No graph input is returned directly** (`_translate_return_stmt` copies a returned input; since fix
3b56caa the test looks at the returned value itself). -/
theorem convert_no_input_returned {f : Func} {g : Graph} (h : convert f = .ok g) :
    ∀ o, o ∈ g.outputs → o ∉ g.inputs := by
  obtain ⟨h, _, d0, ha0⟩ := convert_core h
  unfold convertCore at h
  cases ha : assignedBlock f.body with
  | none => rw [ha] at ha0; cases ha0
  | some d =>
    simp only at h
    cases hc : convTop (tensorParams f.params) f.retCount [paramFrame f.params] f.body []
        { used := (tensorParams f.params).reverse, next := 0, castable := [] } with
    | error e => rw [hc] at h; cases h
    | ok r =>
      obtain ⟨⟨ns, outs⟩, s'⟩ := r
      rw [hc] at h
      cases h
      exact convTop_not_input _ _ _ (fun x hx => by simpa using hx) (fun o ho => by cases ho) hc

end OV.C01

namespace OV.C01

theorem tensorParams_sublist : ∀ (ps : List Param), (tensorParams ps).Sublist (ps.map Param.name) := by
  intro ps
  induction ps with
  | nil => simp [tensorParams]
  | cons q qs ih =>
    cases q with
    | tensor x =>
      simp only [tensorParams, List.filterMap_cons, List.map_cons, Param.name]
      exact List.Sublist.cons₂ _ ih
    | attr x ty =>
      simp only [tensorParams, List.filterMap_cons, List.map_cons, Param.name]
      exact List.Sublist.cons _ ih

theorem tensorParams_nodup {ps : List Param} (h : (ps.map Param.name).Nodup) : (tensorParams ps).Nodup :=
  (tensorParams_sublist ps).nodup h

theorem convert_wfGraph {f : Func} {g : Graph} (h : convert f = .ok g)
    (hnames : (f.params.map Param.name).Nodup) : wfGraph g = true := by
  have h1 := convert_allDefs_nodup h (tensorParams_nodup hnames)
  have h2 := convert_scoped_ok h
  have h3 := convert_outputs_nodup h
  have h4 := convert_no_input_returned h
  unfold wfGraph
  simp only [Bool.and_eq_true]
  refine ⟨⟨⟨⟨nodupB_of_nodup _ h1, h2.1⟩, (allIn_iff' _ _).mpr h2.2⟩, nodupB_of_nodup _ h3⟩, ?_⟩
  simp only [List.all_eq_true]
  intro o ho
  simpa using h4 o ho

end OV.C01
