import OV.Model.C02Collect
/-! Lemmas for `OV.Model.C02Collect`: import tables (`setDefault`, `mergeDefault`, `graphImports`, `modelImports`)
and the called-function walk (`visit`).  Core Lean only. -/
namespace OV.C02

/-! ## import tables -/

theorem hasKey_append (a b : Imports) (d : String) : hasKey (a ++ b) d = (hasKey a d || hasKey b d) := by
  simp [hasKey, List.any_append]

theorem hasKey_iff_mem (imp : Imports) (d : String) : hasKey imp d = true ↔ d ∈ keys imp := by
  simp only [hasKey, keys, List.any_eq_true, List.mem_map]
  constructor
  · rintro ⟨p, hp, he⟩
    exact ⟨p, hp, by simpa using he⟩
  · rintro ⟨p, hp, he⟩
    exact ⟨p, hp, by simpa using he⟩

/-- `imp'` is `imp` with entries added behind (a dict that only grew). -/
def Ext (imp imp' : Imports) : Prop := ∃ ext, imp' = imp ++ ext

theorem Ext.refl (imp : Imports) : Ext imp imp := ⟨[], by simp⟩

theorem Ext.trans {a b c : Imports} (h1 : Ext a b) (h2 : Ext b c) : Ext a c := by
  obtain ⟨e1, rfl⟩ := h1
  obtain ⟨e2, rfl⟩ := h2
  exact ⟨e1 ++ e2, by simp⟩

theorem Ext.key {a b : Imports} (h : Ext a b) {d : String} (hk : hasKey a d = true) : hasKey b d = true := by
  obtain ⟨e, rfl⟩ := h
  simp [hasKey_append, hk]

theorem lookup_append_of_hasKey (a b : Imports) (d : String) (h : hasKey a d = true) :
    lookup (a ++ b) d = lookup a d := by
  induction a with
  | nil => simp [hasKey] at h
  | cons p rest ih =>
    simp only [List.cons_append, lookup]
    by_cases hp : (p.1 == d) = true
    · simp [hp]
    · simp only [hp, Bool.false_eq_true, if_false]
      apply ih
      simpa [hasKey, hp] using h

/-- A dict that only grew keeps the version of every key it had. -/
theorem Ext.look {a b : Imports} (h : Ext a b) {d : String} (hk : hasKey a d = true) : lookup b d = lookup a d := by
  obtain ⟨e, rfl⟩ := h
  exact lookup_append_of_hasKey a e d hk

/-- What one table operation guarantees: only grows, keys stay distinct, and the listed domains are keys. -/
structure Good (imp imp' : Imports) (ds : List String) : Prop where
  ext : Ext imp imp'
  nodup : (keys imp).Nodup → (keys imp').Nodup
  covers : ∀ d, d ∈ ds → hasKey imp' d = true

theorem Good.trans {a b c : Imports} {d1 d2 : List String} (h1 : Good a b d1) (h2 : Good b c d2) :
    Good a c (d1 ++ d2) :=
  ⟨h1.ext.trans h2.ext, fun h => h2.nodup (h1.nodup h), fun d hd => by
    rcases List.mem_append.mp hd with h | h
    · exact h2.ext.key (h1.covers d h)
    · exact h2.covers d h⟩

theorem Good.mono {a b : Imports} {d1 d2 : List String} (h : Good a b d1) (hs : ∀ d, d ∈ d2 → d ∈ d1) : Good a b d2 :=
  ⟨h.ext, h.nodup, fun d hd => h.covers d (hs d hd)⟩

theorem setDefault_good (imp : Imports) (d : String) (v : Nat) : Good imp (setDefault imp d v) [d] := by
  unfold setDefault
  by_cases hk : hasKey imp d = true
  · simp only [hk, if_true]
    exact ⟨Ext.refl _, id, fun d' hd' => by simp at hd'; subst hd'; exact hk⟩
  · simp only [hk, Bool.false_eq_true, if_false]
    refine ⟨⟨_, rfl⟩, ?_, ?_⟩
    · intro hn
      have : d ∉ keys imp := fun hm => hk ((hasKey_iff_mem imp d).mpr hm)
      simp only [keys, List.map_append, List.map_cons, List.map_nil] at *
      rw [List.nodup_append]
      refine ⟨hn, by simp, ?_⟩
      intro a ha b hb
      simp at hb
      subst hb
      intro hab
      subst hab
      exact this ha
    · intro d' hd'
      simp at hd'
      subst hd'
      simp [hasKey_append, hasKey]

theorem mergeDefault_good (sub : Imports) : ∀ imp : Imports, Good imp (mergeDefault imp sub) (keys sub) := by
  induction sub with
  | nil => intro imp; exact ⟨Ext.refl _, id, fun d hd => by simp [keys] at hd⟩
  | cons p rest ih =>
    intro imp
    simp only [mergeDefault]
    exact ((setDefault_good imp p.1 p.2).trans (ih _)).mono (fun d hd => by simpa [keys] using hd)

mutual
theorem nodeImports_good : ∀ (n : CNode) (imp : Imports), Good imp (nodeImports imp n) (nodeDomains n)
  | .op d v _, imp => by simpa [nodeImports, nodeDomains] using setDefault_good imp d v
  | .ifN v tn en, imp => by
    simp only [nodeImports, nodeDomains]
    have ht := graphImports_good tn []
    have he := graphImports_good en []
    have m1 := mergeDefault_good (graphImports [] tn) imp
    have m2 := mergeDefault_good (graphImports [] en) (mergeDefault imp (graphImports [] tn))
    have s := setDefault_good (mergeDefault (mergeDefault imp (graphImports [] tn)) (graphImports [] en)) "" v
    refine ((m1.trans m2).trans s).mono ?_
    intro d hd
    simp only [List.mem_cons, List.mem_append] at hd
    simp only [List.mem_append, List.mem_cons, List.not_mem_nil, or_false]
    rcases hd with h | h | h
    · exact Or.inr h
    · exact Or.inl (Or.inl ((hasKey_iff_mem _ _).mp (ht.covers d h)))
    · exact Or.inl (Or.inr ((hasKey_iff_mem _ _).mp (he.covers d h)))
  | .loop v bn, imp => by
    simp only [nodeImports, nodeDomains]
    have hb := graphImports_good bn []
    have m1 := mergeDefault_good (graphImports [] bn) imp
    have s := setDefault_good (mergeDefault imp (graphImports [] bn)) "" v
    refine (m1.trans s).mono ?_
    intro d hd
    simp only [List.mem_cons] at hd
    simp only [List.mem_append, List.mem_cons, List.not_mem_nil, or_false]
    rcases hd with h | h
    · exact Or.inr h
    · exact Or.inl ((hasKey_iff_mem _ _).mp (hb.covers d h))
theorem graphImports_good : ∀ (ns : List CNode) (imp : Imports), Good imp (graphImports imp ns) (domainsL ns)
  | [], imp => ⟨Ext.refl _, id, fun d hd => by simp [domainsL] at hd⟩
  | n :: ns, imp => by
    simp only [graphImports, domainsL]
    exact (nodeImports_good n imp).trans (graphImports_good ns _)
end

/-- One round of the `for func in ir_functions` loop of `_to_model_proto`. -/
def importStep (imp : Imports) (f : CFunc) : Imports :=
  let imp := setDefault imp f.domain f.version
  if hasKey imp "" then imp
  else match lookup (graphImports [] f.nodes) "" with
    | some v => imp ++ [("", v)]
    | none => imp

theorem importStep_good (imp : Imports) (f : CFunc) : Good imp (importStep imp f) [f.domain] := by
  unfold importStep
  have s := setDefault_good imp f.domain f.version
  by_cases hk : hasKey (setDefault imp f.domain f.version) "" = true
  · simpa [hk] using s
  · simp only [hk, Bool.false_eq_true, if_false]
    cases lookup (graphImports [] f.nodes) "" with
    | none => simpa using s
    | some v =>
      have h2 : Good (setDefault imp f.domain f.version) (setDefault (setDefault imp f.domain f.version) "" v) [""] :=
        setDefault_good _ "" v
      have hgen : ∀ X : Imports, ¬ hasKey X "" = true → setDefault X "" v = X ++ [("", v)] :=
        fun X hX => by simp [setDefault, hX]
      have := hgen _ hk
      rw [this] at h2
      exact (s.trans h2).mono (fun d hd => by simp at hd; simp [hd])

theorem importFold_good (funcs : List CFunc) : ∀ imp : Imports,
    Good imp (funcs.foldl importStep imp) (funcs.map (·.domain)) := by
  induction funcs with
  | nil => intro imp; exact ⟨Ext.refl _, id, fun d hd => by simp at hd⟩
  | cons f rest ih =>
    intro imp
    simp only [List.foldl_cons, List.map_cons]
    exact ((importStep_good imp f).trans (ih _)).mono (fun d hd => by simpa using hd)

theorem modelImports_eq (mainImp : Imports) (funcs : List CFunc) (ov : Option Nat) (latest : Nat) :
    modelImports mainImp funcs ov latest = setDefault (funcs.foldl importStep mainImp) "" (ov.getD latest) := rfl

theorem modelImports_good (mainImp : Imports) (funcs : List CFunc) (ov : Option Nat) (latest : Nat) :
    Good mainImp (modelImports mainImp funcs ov latest) (funcs.map (·.domain) ++ [""]) := by
  rw [modelImports_eq]
  exact (importFold_good funcs mainImp).trans (setDefault_good _ "" _)

/-! ## the called-function walk, for a dict keyed by an arbitrary key -/

section
variable {κ : Type} [BEq κ] [LawfulBEq κ]

omit [LawfulBEq κ] in
theorem hasK_append (a b : List (κ × Nat)) (k : κ) : hasK (a ++ b) k = (hasK a k || hasK b k) := by
  simp [hasK, List.any_append]

theorem hasK_iff_mem (acc : List (κ × Nat)) (k : κ) : hasK acc k = true ↔ k ∈ acc.map (·.1) := by
  simp only [hasK, List.any_eq_true, List.mem_map]
  constructor
  · rintro ⟨p, hp, he⟩
    exact ⟨p, hp, by simpa using he⟩
  · rintro ⟨p, hp, he⟩
    exact ⟨p, hp, by simpa using he⟩

/-- Every entry of the dict is `key of the function ↦ that function`. -/
def EntriesBy (key : CFunc → κ) (w : World) (acc : List (κ × Nat)) : Prop :=
  ∀ p, p ∈ acc → ∃ f, w[p.2]? = some f ∧ key f = p.1

/-- Every callee reference of every function in the dict has its key in the dict already or is still pending. -/
def InvBy (key : CFunc → κ) (w : World) (stack : List Nat) (acc : List (κ × Nat)) : Prop :=
  ∀ p, p ∈ acc → ∀ f, w[p.2]? = some f → ∀ c, c ∈ calleesL f.nodes → ∀ g, w[c]? = some g →
    hasK acc (key g) = true ∨ c ∈ stack

structure VisitBySpec (key : CFunc → κ) (w : World) (stack : List Nat) (acc r : List (κ × Nat)) : Prop where
  ext : ∃ e, r = acc ++ e
  nodup : (acc.map (·.1)).Nodup → (r.map (·.1)).Nodup
  entries : EntriesBy key w acc → EntriesBy key w r
  stackDone : ∀ c, c ∈ stack → ∀ g, w[c]? = some g → hasK r (key g) = true
  closed : InvBy key w stack acc → InvBy key w [] r

theorem visitBy_spec (key : CFunc → κ) (w : World) : ∀ (fuel : Nat) (stack : List Nat) (acc r : List (κ × Nat)),
    visitBy key w fuel stack acc = some r → VisitBySpec key w stack acc r := by
  intro fuel
  induction fuel with
  | zero =>
    intro stack acc r h
    cases stack with
    | nil =>
      simp only [visitBy, Option.some.injEq] at h
      subst h
      exact ⟨⟨[], by simp⟩, id, id, fun c hc => by simp at hc, fun hi p hp f hf c hc g hg => hi p hp f hf c hc g hg⟩
    | cons c cs => simp [visitBy] at h
  | succ fuel ih =>
    intro stack acc r h
    cases stack with
    | nil =>
      simp only [visitBy, Option.some.injEq] at h
      subst h
      exact ⟨⟨[], by simp⟩, id, id, fun c hc => by simp at hc, fun hi p hp f hf c hc g hg => hi p hp f hf c hc g hg⟩
    | cons c cs =>
      simp only [visitBy] at h
      cases hw : w[c]? with
      | none => simp [hw] at h
      | some f =>
        simp only [hw] at h
        by_cases hn : hasK acc (key f) = true
        · simp only [hn, if_true] at h
          have s := ih cs acc r h
          refine ⟨s.ext, s.nodup, s.entries, ?_, ?_⟩
          · intro c' hc' g hg
            rcases List.mem_cons.mp hc' with rfl | hc'
            · rw [hw] at hg
              cases hg
              obtain ⟨e, rfl⟩ := s.ext
              simp [hasK_append, hn]
            · exact s.stackDone c' hc' g hg
          · intro hi
            apply s.closed
            intro p hp f' hf' c' hc' g hg
            rcases hi p hp f' hf' c' hc' g hg with h1 | h1
            · exact Or.inl h1
            · rcases List.mem_cons.mp h1 with rfl | h1
              · rw [hw] at hg
                cases hg
                exact Or.inl hn
              · exact Or.inr h1
        · simp only [hn, Bool.false_eq_true, if_false] at h
          have s := ih (calleesL f.nodes ++ cs) (acc ++ [(key f, c)]) r h
          obtain ⟨e, he⟩ := s.ext
          have hkey : hasK r (key f) = true := by
            rw [he]
            simp [hasK]
          refine ⟨⟨(key f, c) :: e, by rw [he]; simp⟩, ?_, ?_, ?_, ?_⟩
          · intro hnd
            apply s.nodup
            rw [List.map_append, List.nodup_append]
            refine ⟨hnd, by simp, ?_⟩
            intro a ha b hb
            simp at hb
            subst hb
            intro hab
            subst hab
            exact hn ((hasK_iff_mem acc _).mpr ha)
          · intro hen
            apply s.entries
            intro p hp
            rcases List.mem_append.mp hp with hp | hp
            · exact hen p hp
            · simp at hp
              subst hp
              exact ⟨f, hw, rfl⟩
          · intro c' hc' g hg
            rcases List.mem_cons.mp hc' with rfl | hc'
            · rw [hw] at hg
              cases hg
              exact hkey
            · exact s.stackDone c' (List.mem_append.mpr (Or.inr hc')) g hg
          · intro hi
            apply s.closed
            intro p hp f' hf' c' hc' g hg
            rcases List.mem_append.mp hp with hp | hp
            · rcases hi p hp f' hf' c' hc' g hg with h1 | h1
              · exact Or.inl (by simp [hasK_append, h1])
              · rcases List.mem_cons.mp h1 with rfl | h1
                · rw [hw] at hg
                  cases hg
                  exact Or.inl (by simp [hasK])
                · exact Or.inr (List.mem_append.mpr (Or.inr h1))
            · simp at hp
              subst hp
              simp only at hf'
              rw [hw] at hf'
              cases hf'
              exact Or.inr (List.mem_append.mpr (Or.inl hc'))

/-! ### the step budget of `collectBy` is never exhausted -/

omit [LawfulBEq κ] in
theorem pendingWork_mono (key : CFunc → κ) (w : World) (acc : List (κ × Nat)) (p : κ × Nat) :
    pendingWork key w (acc ++ [p]) ≤ pendingWork key w acc := by
  induction w with
  | nil => simp [pendingWork]
  | cons f rest ih =>
    simp only [pendingWork]
    by_cases h : hasK acc (key f) = true
    · simp [hasK_append, h]; exact ih
    · simp only [h, Bool.false_eq_true, if_false]
      split <;> omega

/-- Adding the key of a function of the world that was not in the dict frees at least its callee references. -/
theorem pendingWork_drop (key : CFunc → κ) (w : World) (acc : List (κ × Nat)) (c : Nat) (f : CFunc)
    (hw : w[c]? = some f) (hn : hasK acc (key f) = false) :
    pendingWork key w (acc ++ [(key f, c)]) + (calleesL f.nodes).length ≤ pendingWork key w acc := by
  induction w generalizing c with
  | nil => simp at hw
  | cons g rest ih =>
    simp only [pendingWork]
    cases c with
    | zero =>
      simp only [List.getElem?_cons_zero, Option.some.injEq] at hw
      subst hw
      have := pendingWork_mono key rest acc (key g, 0)
      simp only [hasK_append, hn, Bool.false_or, Bool.false_eq_true, if_false]
      have hh : hasK [(key g, 0)] (key g) = true := by simp [hasK]
      simp only [hh, if_true]
      omega
    | succ c =>
      simp only [List.getElem?_cons_succ] at hw
      have h1 := ih c hw
      have hm : pendingWork key rest (acc ++ [(key f, c + 1)]) = pendingWork key rest (acc ++ [(key f, c)]) := by
        clear ih hw h1
        induction rest with
        | nil => rfl
        | cons x xs ihx => simp only [pendingWork, hasK, List.any_append, List.any_cons, List.any_nil, ihx]
      rw [hm]
      by_cases h : hasK acc (key g) = true
      · simp only [hasK_append, h, Bool.true_or, if_true]
        omega
      · simp only [h, Bool.false_eq_true, if_false]
        split <;> omega

end

/-- No reference dangles: on the stack, and in every function of the world. -/
def RefsOK (w : World) (stack : List Nat) : Prop :=
  (∀ c, c ∈ stack → c < w.length) ∧ ∀ f, f ∈ w → ∀ c, c ∈ calleesL f.nodes → c < w.length

theorem visitBy_total {κ : Type} [BEq κ] [LawfulBEq κ] (key : CFunc → κ) (w : World) :
    ∀ (fuel : Nat) (stack : List Nat) (acc : List (κ × Nat)),
    RefsOK w stack → stack.length + pendingWork key w acc ≤ fuel → ∃ r, visitBy key w fuel stack acc = some r := by
  intro fuel
  induction fuel with
  | zero =>
    intro stack acc _ hb
    cases stack with
    | nil => exact ⟨acc, rfl⟩
    | cons c cs => simp at hb
  | succ fuel ih =>
    intro stack acc hr hb
    cases stack with
    | nil => exact ⟨acc, rfl⟩
    | cons c cs =>
      have hc : c < w.length := hr.1 c (by simp)
      have hw : w[c]? = some w[c] := List.getElem?_eq_getElem hc
      simp only [visitBy, hw]
      by_cases hn : hasK acc (key w[c]) = true
      · simp only [hn, if_true]
        apply ih
        · exact ⟨fun c' hc' => hr.1 c' (by simp [hc']), hr.2⟩
        · simp only [List.length_cons] at hb
          omega
      · simp only [hn, Bool.false_eq_true, if_false]
        apply ih
        · refine ⟨fun c' hc' => ?_, hr.2⟩
          rcases List.mem_append.mp hc' with h | h
          · exact hr.2 w[c] (List.getElem_mem hc) c' h
          · exact hr.1 c' (by simp [h])
        · have := pendingWork_drop key w acc c w[c] hw (by simpa using hn)
          simp only [List.length_cons, List.length_append] at hb ⊢
          omega

/-- `c` is called, directly or through other functions, from the node list whose callee references are `roots`. -/
inductive Reach (w : World) (roots : List Nat) : Nat → Prop
  | root {c : Nat} : c ∈ roots → Reach w roots c
  | step {p c : Nat} {f : CFunc} : Reach w roots p → w[p]? = some f → c ∈ calleesL f.nodes → Reach w roots c

theorem visitBy_reach {κ : Type} [BEq κ] (key : CFunc → κ) (w : World) (roots : List Nat) :
    ∀ (fuel : Nat) (stack : List Nat) (acc r : List (κ × Nat)),
    visitBy key w fuel stack acc = some r → (∀ p, p ∈ acc → Reach w roots p.2) → (∀ c, c ∈ stack → Reach w roots c) →
    ∀ p, p ∈ r → Reach w roots p.2 := by
  intro fuel
  induction fuel with
  | zero =>
    intro stack acc r h ha _
    cases stack with
    | nil => simp only [visitBy, Option.some.injEq] at h; subst h; exact ha
    | cons c cs => simp [visitBy] at h
  | succ fuel ih =>
    intro stack acc r h ha hs
    cases stack with
    | nil => simp only [visitBy, Option.some.injEq] at h; subst h; exact ha
    | cons c cs =>
      simp only [visitBy] at h
      cases hw : w[c]? with
      | none => simp [hw] at h
      | some f =>
        simp only [hw] at h
        by_cases hn : hasK acc (key f) = true
        · simp only [hn, if_true] at h
          exact ih cs acc r h ha (fun c' hc' => hs c' (by simp [hc']))
        · simp only [hn, Bool.false_eq_true, if_false] at h
          have hc : Reach w roots c := hs c (by simp)
          refine ih _ _ r h ?_ ?_
          · intro p hp
            rcases List.mem_append.mp hp with hp | hp
            · exact ha p hp
            · simp at hp; subst hp; exact hc
          · intro c' hc'
            rcases List.mem_append.mp hc' with h1 | h1
            · exact Reach.step hc hw h1
            · exact hs c' (by simp [h1])

theorem funcsOf_keys {κ : Type} [BEq κ] [LawfulBEq κ] {key : CFunc → κ} {w : World} :
    ∀ {r : List (κ × Nat)}, EntriesBy key w r → (funcsOf w (r.map (·.2))).map key = r.map (·.1)
  | [], _ => rfl
  | p :: rest, he => by
    obtain ⟨f, hf, hn⟩ := he p (by simp)
    have ih := funcsOf_keys (key := key) (w := w) (r := rest) (fun q hq => he q (by simp [hq]))
    simp only [funcsOf, List.map_cons, List.filterMap_cons, hf] at ih ⊢
    rw [hn, ih]

theorem mem_funcsOf_of_key {κ : Type} [BEq κ] [LawfulBEq κ] {key : CFunc → κ} {w : World} {r : List (κ × Nat)}
    (he : EntriesBy key w r) {k : κ} (hm : k ∈ r.map (·.1)) :
    ∃ f, f ∈ funcsOf w (r.map (·.2)) ∧ key f = k := by
  obtain ⟨p, hp, hpn⟩ := List.mem_map.mp hm
  obtain ⟨f, hf, hfn⟩ := he p hp
  exact ⟨f, List.mem_filterMap.mpr ⟨p.2, List.mem_map.mpr ⟨p, hp, rfl⟩, hf⟩, by rw [hfn, hpn]⟩

/-! ## the pre-d4270e9 walk keyed by name: when does a name determine the identifier? -/

/-- Functions of the world with the same name live in the same domain (so a name determines the identifier). -/
def NamesIdentify (w : World) : Prop :=
  ∀ (i j : Nat) (f g : CFunc), w[i]? = some f → w[j]? = some g → f.name = g.name → f.domain = g.domain

theorem namesIdentify_of_check (w : World)
    (h : (w.all fun f => w.all fun g => f.name != g.name || f.domain == g.domain) = true) : NamesIdentify w := by
  intro i j f g hf hg hn
  have h1 := List.all_eq_true.mp h f (List.mem_of_getElem? hf)
  have h2 := List.all_eq_true.mp h1 g (List.mem_of_getElem? hg)
  simpa [hn] using h2

theorem mem_funcsOf_ident {w : World} {r : List (String × Nat)} (he : EntriesBy CFunc.name w r) {g : CFunc}
    (hid : NamesIdentify w) {c : Nat} (hg : w[c]? = some g) (hm : g.name ∈ r.map (·.1)) :
    ident g ∈ (funcsOf w (r.map (·.2))).map ident := by
  obtain ⟨p, hp, hpn⟩ := List.mem_map.mp hm
  obtain ⟨f, hf, hfn⟩ := he p hp
  have hd : f.domain = g.domain := hid p.2 c f g hf hg (by rw [hfn, hpn])
  refine List.mem_map.mpr ⟨f, ?_, by simp [ident, hd, hfn, hpn]⟩
  exact List.mem_filterMap.mpr ⟨p.2, List.mem_map.mpr ⟨p, hp, rfl⟩, hf⟩

end OV.C02
