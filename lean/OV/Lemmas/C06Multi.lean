import OV.Lemmas.C06SolveC
/-!
  C06 — completeness of the transcribed matcher for OR-free patterns with several output nodes,
  in the region outside finding C06-F5: every output node after the first has an operator
  identifier and no host node carries an overload.
-/
namespace OV.C06

theorem matchOutputNodes_complete (E : Env) (A : Assign) (hno : E.p.noOr = true) (htopo : E.p.topo)
    (hnc : E.fixF2 = false ∨ NamedVarsUnchecked E.p) :
    ∀ (l : List (NPId × NodeId)) (c : Partial), SLe c A →
      (∀ np n, (np, n) ∈ l → SatN E A np n) →
      ∃ c', matchOutputNodes E l [c] = (true, [c']) ∧ SLe c' A := by
  intro l
  induction l with
  | nil => intro c h _; exact ⟨c, rfl, h⟩
  | cons hd rest ih =>
    intro c h hall
    obtain ⟨np, n⟩ := hd
    have hs := hall np n (List.mem_cons_self ..)
    obtain ⟨hb, _⟩ := satN_bounds hs
    obtain ⟨c1, e1, s1⟩ := matchNode_complete E A hno htopo hnc E.p.fuel np n c (Nat.lt_succ_of_lt hb) hs h
    unfold matchOutputNodes
    simp only [e1, Bool.not_true, Bool.false_eq_true, if_false]
    exact ih c1 s1 (fun np' n' hm => hall np' n' (List.mem_cons_of_mem _ hm))

theorem firstMatch_ok_of_mem (E : Env) (rm : Bool) : ∀ (cs : List (List NodeId)) (last : Option Result)
    (c : List NodeId), c ∈ cs → (multiMatch E rm c).ok = true → (firstMatch E rm cs last).ok = true := by
  intro cs
  induction cs with
  | nil => intro _ c h; simp at h
  | cons c0 cs ih =>
    intro last c hc hok
    unfold firstMatch
    dsimp only
    by_cases h0 : (multiMatch E rm c0).ok = true
    · simp [h0]
    · simp only [h0, Bool.false_eq_true, if_false]
      rcases List.mem_cons.1 hc with he | hm
      · subst he; exact absurd hok h0
      · exact ih _ c hm hok

/-- every output node after the first has an operator identifier (exact domain and op given as `str`) -/
def LaterOutputsIdentified (p : GPat) : Prop :=
  ∀ np ∈ p.outputNodes.tail, ∃ P d o, p.nodes[np]? = some P ∧ P.opId = some (d, o)

/-- no host node carries an overload -/
def NoOverloads (g : Graph) : Prop := ∀ N ∈ g.nodes, N.overload = ""

theorem opIdF_exact {b : Bool} {P : NPat} {d o : String} (h : P.opIdF b = some (d, o)) :
    P.domain = .exact d ∧ P.op = .exact o := by
  unfold NPat.opIdF at h
  split at h
  · cases h
  · split at h
    · next d' o' hd ho => cases h; exact ⟨hd, ho⟩
    · cases h

theorem opId_opIdF {b : Bool} {P : NPat} {x : String × String} (h : P.opId = some x) : P.opIdF b = some x := by
  unfold NPat.opId at h
  unfold NPat.opIdF
  split at h
  · cases h
  · next hs =>
    have : P.opIsStr = true := by simpa using hs
    simp only [this, Bool.not_true, Bool.false_and, Bool.false_eq_true, if_false]
    exact h

/-- the condition under which every node an output pattern can match is among its candidates: repair C06-F5,
or — for the code before it — identifiers on all later output nodes and no overloads in the graph -/
def CandidatesComplete (E : Env) : Prop :=
  E.fixF5 = true ∨ (LaterOutputsIdentified E.p ∧ NoOverloads E.g)

/-- the instance's nodes for the later output nodes form one of the candidate combinations -/
theorem candidates_cover (E : Env) (A : Assign) :
    ∀ (l : List NPId) (b : Bool),
      (E.fixF5 = true ∨ ((∀ np ∈ l, ∃ P d o, E.p.nodes[np]? = some P ∧ P.opId = some (d, o)) ∧ NoOverloads E.g)) →
      (∀ np ∈ l, ∃ n, SatN E A np n) →
      ∃ ns, ns ∈ product (candidatesRest E l b) ∧ ∀ np n, (np, n) ∈ l.zip ns → SatN E A np n := by
  intro l
  induction l with
  | nil => intro b _ _; exact ⟨[], by simp [candidatesRest, product], fun _ _ h => by simp at h⟩
  | cons np rest ih =>
    intro b hid hsat
    obtain ⟨n, hn⟩ := hsat np (List.mem_cons_self ..)
    have hid' : E.fixF5 = true ∨ ((∀ np ∈ rest, ∃ P d o, E.p.nodes[np]? = some P ∧ P.opId = some (d, o)) ∧ NoOverloads E.g) :=
      hid.imp id (fun h => ⟨fun np' hm => h.1 np' (List.mem_cons_of_mem _ hm), h.2⟩)
    have hsat' : ∀ np ∈ rest, ∃ n, SatN E A np n := fun np' hm => hsat np' (List.mem_cons_of_mem _ hm)
    have hlt : n < E.g.nodes.length := (satN_bounds hn).2
    cases hn with
    | mk _ _ P N hP hN hnode hopm hdom hat hlen hnone hsome hout =>
      have hn' : SatN E A np n := .mk np n P N hP hN hnode hopm hdom hat hlen hnone hsome hout
      unfold candidatesRest
      simp only [hP, Option.bind_some]
      cases hop : P.opIdF E.fixF5b with
      | none =>
        dsimp only
        have hnotid : E.fixF5 = true := by
          rcases hid with h | h
          · exact h
          · obtain ⟨P', d, o, hP', hop'⟩ := h.1 np (List.mem_cons_self ..)
            rw [hP] at hP'; cases hP'
            rw [opId_opIdF hop'] at hop
            cases hop
        obtain ⟨ns, hns, hz⟩ := ih true hid' hsat'
        refine ⟨n :: ns, ?_, ?_⟩
        · simp only [hnotid, Bool.not_true, Bool.and_false, Bool.false_eq_true, if_false, product,
            List.mem_flatMap, List.mem_map]
          exact ⟨n, List.mem_range.2 hlt, ns, hns, rfl⟩
        · intro np' n' hm
          simp only [List.zip_cons_cons, List.mem_cons] at hm
          rcases hm with he | hm
          · cases he; exact hn'
          · exact hz np' n' hm
      | some x =>
        obtain ⟨d, o⟩ := x
        dsimp only
        obtain ⟨hd, ho⟩ := opIdF_exact hop
        have h1 : N.op = o := by rw [ho] at hopm; exact (by simpa [StrPat.matches] using hopm : o = N.op).symm
        have h2 : N.domain = d := by rw [hd] at hdom; exact (by simpa [StrPat.matches] using hdom : d = N.domain).symm
        have hcand : isCandidate E d o n = true := by
          unfold isCandidate
          simp only [hN]
          rcases hid with h | h
          · simp [h, h1, h2]
          · by_cases hf : E.fixF5 = true
            · simp [hf, h1, h2]
            · have h3 := h.2 N (List.mem_of_getElem? hN)
              simp [hf, GNode.opKey, h1, h2, h3]
        obtain ⟨ns, hns, hz⟩ := ih b hid' hsat'
        refine ⟨n :: ns, ?_, ?_⟩
        · simp only [product, List.mem_flatMap, List.mem_map, List.mem_filter, List.mem_range]
          exact ⟨n, ⟨hlt, hcand⟩, ns, hns, rfl⟩
        · intro np' n' hm
          simp only [List.zip_cons_cons, List.mem_cons] at hm
          rcases hm with he | hm
          · cases he; exact hn'
          · exact hz np' n' hm

theorem valueChecks_ok_aux : ∀ (vp : VPat), vp.checksOk = true → ∀ id b, (id, b) ∈ vpChecks vp → b = true
  | .var id' _ _ _ (some b'), h, id, b, hm => by
    simp only [vpChecks, List.mem_singleton, Prod.mk.injEq] at hm
    simp only [VPat.checksOk] at h
    obtain ⟨_, rfl⟩ := hm
    cases b <;> simp_all
  | .var _ _ _ _ none, _, _, _, hm => by simp [vpChecks] at hm
  | .any, _, _, _, hm => by simp [vpChecks] at hm
  | .const .., _, _, _, hm => by simp [vpChecks] at hm
  | .out .., _, _, _, hm => by simp [vpChecks] at hm
  | .orD .., _, _, _, hm => by simp [vpChecks] at hm
  | .orB _ _ _ _ alts, h, id, b, hm => by
    simp only [vpChecks] at hm
    simp only [VPat.checksOk] at h
    exact valueChecksL_ok_aux alts h id b hm
where
  valueChecksL_ok_aux : ∀ (l : List VPat), checksOkL l = true → ∀ id b, (id, b) ∈ vpChecksL l → b = true
  | [], _, _, _, hm => by simp [vpChecksL] at hm
  | a :: rest, h, id, b, hm => by
    simp only [checksOkL, Bool.and_eq_true] at h
    simp only [vpChecksL, List.mem_append] at hm
    rcases hm with h1 | h2
    · exact valueChecks_ok_aux a h.1 id b h1
    · exact valueChecksL_ok_aux rest h.2 id b h2

/-- `_multi_match` succeeds on a candidate combination that `A` satisfies and that covers every
output node -/
theorem multiMatch_ok (E : Env) (A : Assign) (combo : List NodeId)
    (hno : E.p.noOr = true) (htopo : E.p.topo) (hnc : E.fixF2 = false ∨ NamedVarsUnchecked E.p)
    (har : E.fixF1 = true ∨ OutputArityOk E.p E.g)
    (houts : OutputsOfOutputNodes E.p) (hlen : E.p.outputNodes.length ≤ combo.length)
    (hsat : ∀ np n, (np, n) ∈ E.p.outputNodes.zip combo → SatN E A np n) :
    (multiMatch E false combo).ok = true ∧
      (∀ k x, (k, x) ∈ (multiMatch E false combo).nb → A.node k = some x) ∧
      (∀ k x, (k, x) ∈ (multiMatch E false combo).vb → A.leaf k = some x) := by
  have s0 : SLe ({} : Partial) A :=
    ⟨rfl, fun _ _ h => by simp at h, fun _ _ h => by simp at h, fun _ _ h => by simp at h⟩
  obtain ⟨c, e, s⟩ := matchOutputNodes_complete E A hno htopo hnc _ {} s0 hsat
  have inv0 : Inv E ({} : Partial) [] := by intro q m hq; simp at hq
  obtain ⟨c', r1, _, _, s1⟩ := matchOutputNodes_spec E (E.p.noOr_dispOk hno) (E.p.topo_topoDeep hno htopo) har
    _ {} _ e inv0 rfl
  have hcc : c' = c := by
    have := r1.st
    simp at this
    exact this.symm
  subst hcc
  have hbound : ∀ vp ∈ E.p.outputs, ∃ y, (assignOf c').outputOf E.p vp = some y := by
    intro vp hvp
    obtain ⟨q, idx, P, rfl, hq, hP, hidx⟩ := houts vp hvp
    obtain ⟨i, hi⟩ := List.mem_iff_getElem?.1 hq
    have hilt : i < E.p.outputNodes.length := by
      rcases Nat.lt_or_ge i E.p.outputNodes.length with h | h
      · exact h
      · simp [List.getElem?_eq_none h] at hi
    have hic : i < combo.length := by omega
    have hm : (q, combo[i]) ∈ E.p.outputNodes.zip combo :=
      List.mem_iff_getElem?.2 ⟨i, List.getElem?_zip_eq_some.2 ⟨hi, List.getElem?_eq_getElem hic⟩⟩
    have hs := (s1 rfl).2 q _ hm
    cases hs with
    | mk _ _ P' N hP' hN _ _ _ _ _ _ _ hout =>
      rw [hP] at hP'
      cases hP'
      obtain ⟨x, _, hx⟩ := hout idx hidx
      exact ⟨_, boundTo_outputOf _ _ _ _ _ hx⟩
  obtain ⟨outs, ho⟩ := mapM_some _ _ hbound
  have hov : outputValues E.p c' = some outs := by rw [outputValues_eq]; exact ho
  have hf : multiMatch E false combo = Result.ofPartial c' outs := by
    unfold multiMatch finish
    simp [e, topPartial, hov]
  rw [hf]
  exact ⟨s.ok, s.n, s.v⟩

theorem matcher_complete_multi (E : Env) (A : Assign) (root : NodeId)
    (hno : E.p.noOr = true) (htopo : E.p.topo) (hnc : E.fixF2 = false ∨ NamedVarsUnchecked E.p)
    (har : E.fixF1 = true ∨ OutputArityOk E.p E.g)
    (houts : OutputsOfOutputNodes E.p) (hcc : CandidatesComplete E)
    (hinst : Instance E root A) :
    ∃ combo, combo ∈ combos E root ∧ (multiMatch E false combo).ok = true ∧
      (matcherMatch E root false).ok = true := by
  obtain ⟨ns, hns, hz⟩ := candidates_cover E A E.p.outputNodes.tail false hcc
    (fun np hm => by
      obtain ⟨n, _, hs⟩ := hinst.outNodes np (List.mem_of_mem_tail hm)
      exact ⟨n, hs⟩)
  have hnsl : ns.length = E.p.outputNodes.tail.length := by
    have := product_length _ _ hns
    simpa [candidatesRest_length] using this
  have hsat : ∀ np n, (np, n) ∈ E.p.outputNodes.zip (root :: ns) → SatN E A np n := by
    intro np n hm
    cases hon : E.p.outputNodes with
    | nil => simp [hon] at hm
    | cons np0 rest =>
      simp only [hon, List.zip_cons_cons, List.mem_cons, List.tail_cons] at hm hz
      have hroot : SatN E A np0 root := by
        obtain ⟨n', hn', hs'⟩ := hinst.outNodes np0 (by simp [hon])
        have hr := hinst.rootNode np0 (by simp [hon])
        rw [hr] at hn'
        cases hn'
        exact hs'
      rcases hm with he | hm
      · cases he; exact hroot
      · exact hz np n hm
  have hlen : E.p.outputNodes.length ≤ (root :: ns).length := by
    simp only [List.length_cons, hnsl, List.length_tail]
    omega
  obtain ⟨hok, _, _⟩ := multiMatch_ok E A (root :: ns) hno htopo hnc har houts hlen hsat
  have hmem : (root :: ns) ∈ product ([root] :: candidatesRest E E.p.outputNodes.tail false) := by
    simp only [product, List.flatMap_cons, List.flatMap_nil, List.append_nil, List.mem_map]
    exact ⟨ns, hns, rfl⟩
  unfold combos matcherMatch
  split
  · next np hnp =>
    have hns0 : ns = [] := by
      have : ns.length = 0 := by simp [hnsl, hnp]
      exact List.length_eq_zero_iff.1 this
    subst hns0
    refine ⟨[root], by simp, hok, ?_⟩
    have : finish E false (matchNode E E.p.fuel np root [{}]) = multiMatch E false [root] := by
      unfold multiMatch
      simp only [hnp, List.zip_cons_cons, List.zip_nil_right]
      unfold matchOutputNodes
      unfold matchOutputNodes
      exact (finish_congr E false _).symm
    rw [this]
    exact hok
  · exact ⟨root :: ns, hmem, hok, firstMatch_ok_of_mem E false _ none _ hmem hok⟩

theorem checksOk_valueChecks (p : GPat) (hc : p.checksOk = true) (houts : OutputsOfOutputNodes p) :
    ∀ id b, (id, b) ∈ p.valueChecks → b = true := by
  intro id b hm
  unfold GPat.valueChecks at hm
  rcases List.mem_append.1 hm with h1 | h2
  · simp only [List.mem_flatMap] at h1
    obtain ⟨n, hn, i, hi, hx⟩ := h1
    cases i with
    | none => simp at hx
    | some vp =>
      unfold GPat.checksOk at hc
      simp only [List.all_eq_true, Bool.and_eq_true] at hc
      exact valueChecks_ok_aux vp ((hc n hn).2 (some vp) hi) id b hx
  · simp only [List.mem_flatMap] at h2
    obtain ⟨vp, hvp, hx⟩ := h2
    obtain ⟨q, idx, P, rfl, _⟩ := houts vp hvp
    simp [vpChecks] at hx

/-- `Pattern.match` reports a match on every instance of an OR-free multi-output pattern outside
the region of finding C06-F5, when no opaque checker rejects -/
theorem patternMatch_complete_multi (E : Env) (A : Assign) (root : NodeId)
    (hno : E.p.noOr = true) (htopo : E.p.topo) (hnc : E.fixF2 = false ∨ NamedVarsUnchecked E.p)
    (har : E.fixF1 = true ∨ OutputArityOk E.p E.g)
    (houts : OutputsOfOutputNodes E.p) (hcc : CandidatesComplete E)
    (hchk : E.p.checksOk = true) (hinst : Instance E root A) :
    (patternMatch E root false).isSome = true := by
  obtain ⟨_, _, _, hok⟩ := matcher_complete_multi E A root hno htopo hnc har houts hcc hinst
  unfold patternMatch
  have h1 : ∀ r : Result, checksPass E.p r = true := by
    intro r
    unfold checksPass
    simp only [List.all_eq_true]
    intro kv _
    cases hP : E.p.nodes[kv.1]? with
    | none => rfl
    | some P =>
      have := (checksOk_input hchk hP).1
      simpa using this
  have h2 : ∀ r : Result, valueChecksPass E.p r = true := by
    intro r
    unfold valueChecksPass
    simp only [List.all_eq_true]
    intro kv _
    obtain ⟨k, v⟩ := kv
    cases k with
    | outp a b => rfl
    | leaf id =>
      dsimp only
      cases hl : E.p.valueChecks.lookup id with
      | none => simp
      | some b =>
        have := checksOk_valueChecks E.p hchk houts id b (lookup_mem _ _ _ hl)
        subst this
        simp
  dsimp only
  rw [if_neg (by simp [hok]), if_neg (by simp [h1]), if_neg (by simp [h2]), if_neg (by simp [hinst.cond])]
  rfl

end OV.C06
