import OV.Lemmas.C03Dtype
/-!
# Helper lemmas for the end-to-end theorem on the extended fragment A

Fragment A = generic folding + `Constant` nodes (const marking) + `Identity` nodes (alias recording,
alias substitution on later inputs, graph-output replacement).
-/
namespace OV.C03

variable {V : Type}

/-! ### alias substitution, characterised -/

/-- what the first loop of `process_node` does to one input -/
def substOne (st : St) : Option Name → Option Name
  | none => none
  | some x => match st.getSym (some x) with
    | some (.alias y) => some y
    | _ => some x

theorem getSym_sameIS {st st' : St} (h : SameIS st st') (x : Option Name) : st'.getSym x = st.getSym x := by
  cases x with
  | none => rfl
  | some y => simp only [St.getSym, h.2]

theorem substOne_sameIS {st st' : St} (h : SameIS st st') (x : Option Name) : substOne st' x = substOne st x := by
  cases x with
  | none => rfl
  | some y => simp only [substOne, getSym_sameIS h]

theorem substOne_some (st : St) (x : Name) : ∃ y, substOne st (some x) = some y := by
  simp only [substOne]
  split
  · exact ⟨_, rfl⟩
  · exact ⟨_, rfl⟩

theorem substInputs_spec (st : St) (n : Node) :
    (substInputs st n).1 = n.setInputs (n.inputs.map (substOne st)) ∧ SameIS st (substInputs st n).2 := by
  unfold substInputs
  simp only []
  have key : ∀ (l : List (Option Name)) (acc : List (Option Name) × St), SameIS st acc.2 →
      (l.foldl substStep acc).1 = acc.1 ++ l.map (substOne st) ∧ SameIS st (l.foldl substStep acc).2 := by
    intro l
    induction l with
    | nil => intro acc h; simp [h]
    | cons x xs ih =>
      intro acc h
      simp only [List.foldl_cons, List.map_cons]
      have hstep : (substStep acc x).1 = acc.1 ++ [substOne st x] ∧ SameIS st (substStep acc x).2 := by
        cases x with
        | none => exact ⟨rfl, h⟩
        | some y =>
          simp only [substStep, substOne, getSym_sameIS h]
          cases hsym : st.getSym (some y) with
          | none => exact ⟨rfl, h⟩
          | some sv =>
            cases sv with
            | alias z => exact ⟨rfl, SameIS.trans h ⟨rfl, rfl⟩⟩
            | seq l => exact ⟨rfl, h⟩
            | shape sh => exact ⟨rfl, h⟩
      obtain ⟨h1, h2⟩ := ih _ hstep.2
      rw [h1, hstep.1]
      exact ⟨by simp, h2⟩
  obtain ⟨h1, h2⟩ := key n.inputs ([], st) (SameIS.refl st)
  rw [h1]
  exact ⟨by simp, h2⟩

/-- the recorded aliases hold in the environment -/
def AliasOK (st : St) (ρ : Env V) : Prop := ∀ x y, lookupA st.sym x = some (.alias y) → ρ x = ρ y

theorem lookupIn_substOne {st : St} {ρ : Env V} (h : AliasOK st ρ) (x : Option Name) :
    lookupIn ρ (substOne st x) = lookupIn ρ x := by
  cases x with
  | none => rfl
  | some y =>
    simp only [substOne, St.getSym, Option.bind]
    split
    · rename_i z hz
      simp only [lookupIn, h y z hz]
    · rfl

theorem lookupAll_substOne {st : St} {ρ : Env V} (h : AliasOK st ρ) : ∀ (l : List (Option Name)),
    lookupAll ρ (l.map (substOne st)) = lookupAll ρ l
  | [] => rfl
  | x :: xs => by simp only [List.map_cons, lookupAll, lookupIn_substOne h, lookupAll_substOne h xs]

theorem nodeOutputs_setInputs (sem : Sem V) (sub : Env V → Graph → List (Option V) → Option (List V)) (ρ : Env V) (n : Node)
    (ins : List (Option Name)) (hemp : ins.isEmpty = n.inputs.isEmpty) (args : List (Option V)) :
    nodeOutputs sem sub ρ (n.setInputs ins) args = nodeOutputs sem sub ρ n args := by
  cases n with
  | mk op dom ins0 outs attrs subs =>
    simp only [Node.inputs] at hemp
    simp only [nodeOutputs, constDenote, Node.setInputs, Node.subs, Node.isOp, Node.op, Node.domain,
      Node.isOnnxDomain, Node.attrs, Node.inputs, Node.sub, Node.outputs, hemp]
    rfl

theorem evalNode_substInputs (sem : Sem V) (sub) (st : St) (ρ : Env V) (h : AliasOK st ρ) (n : Node) :
    evalNode sem sub ρ (n.setInputs (n.inputs.map (substOne st))) = evalNode sem sub ρ n := by
  have hin : (n.setInputs (n.inputs.map (substOne st))).inputs = n.inputs.map (substOne st) := rfl
  have hout : (n.setInputs (n.inputs.map (substOne st))).outputs = n.outputs := by cases n; rfl
  unfold evalNode
  rw [hin, lookupAll_substOne h, hout]
  cases lookupAll ρ n.inputs with
  | none => rfl
  | some args =>
    simp only [Option.bind]
    rw [nodeOutputs_setInputs sem sub ρ n _ (by simp)]

/-! ### the invariant of fragment A -/

structure Inv2 (sem : Sem V) (st : St) (ρ : Env V) (todo : List Node) : Prop where
  symAlias : ∀ x s, lookupA st.sym x = some s → ∃ y, s = SymVal.alias y
  alias : ∀ x y, lookupA st.sym x = some (.alias y) → ρ x = ρ y
  aliasFut : ∀ x y, lookupA st.sym x = some (.alias y) → ∀ m ∈ todo, m.outputs.contains x = false ∧ m.outputs.contains y = false
  const : ∀ x c, st.constOf x = some c → ρ x = some (sem.tensor c.tok)
  fut : ∀ x c, st.constOf x = some c → ∀ m ∈ todo, m.outputs.contains x = false
  aliasNF : ∀ x y, lookupA st.sym x = some (.alias y) → NF y
  constNF : ∀ x c, st.constOf x = some c → NF x

theorem mentions_of_input {n : Node} {x : Name} (h : some x ∈ n.inputs) : mentionsTop n x = true := by
  simp only [mentionsTop, Bool.or_eq_true, List.contains_iff_mem]
  exact Or.inl h

theorem mentions_of_output {n : Node} {x : Name} (h : n.outputs.contains x = true) : mentionsTop n x = true := by
  simp only [mentionsTop, Bool.or_eq_true]
  exact Or.inr h

theorem not_later_output {n : Node} {rest : List Node} (hord : orderOK (n :: rest) = true) {x : Name}
    (hm : mentionsTop n x = true) : ∀ m ∈ rest, m.outputs.contains x = false := by
  intro m hmem
  cases hc : m.outputs.contains x with
  | false => rfl
  | true =>
    have := orderOK_head hord hmem hc
    rw [hm] at this
    exact absurd this (by decide)

/-- One step of the node loop preserves the invariant: the new state's facts are old facts, or
facts about the outputs of the node just executed that hold in the new environment. -/
theorem Inv2.step {sem : Sem V} {sub} {st st' : St} {ρ ρ1 : Env V} {n : Node} {rest : List Node}
    (hI : Inv2 sem st ρ (n :: rest)) (hord : orderOK (n :: rest) = true) (he : evalNode sem sub ρ n = some ρ1)
    (hc : ∀ x c, st'.constOf x = some c → st.constOf x = some c ∨
      (n.outputs.contains x = true ∧ ρ1 x = some (sem.tensor c.tok)))
    (hs : ∀ x s, lookupA st'.sym x = some s → lookupA st.sym x = some s ∨
      (∃ y, s = SymVal.alias y ∧ n.outputs.contains x = true ∧ mentionsTop n y = true ∧ ρ1 x = ρ1 y))
    (hnfn : ∀ y, mentionsTop n y = true → NF y) :
    Inv2 sem st' ρ1 rest := by
  have hmemn : n ∈ n :: rest := List.mem_cons_self
  refine ⟨?_, ?_, ?_, ?_, ?_, ?_, ?_⟩
  · intro x s hx
    rcases hs x s hx with h | ⟨y, hy, _⟩
    · exact hI.symAlias x s h
    · exact ⟨y, hy⟩
  · intro x y hx
    rcases hs x _ hx with h | ⟨y', hy', _, _, heq⟩
    · have hf := hI.aliasFut x y h n hmemn
      rw [evalNode_get_other sem he hf.1, evalNode_get_other sem he hf.2]
      exact hI.alias x y h
    · cases hy'
      exact heq
  · intro x y hx m hm
    rcases hs x _ hx with h | ⟨y', hy', hox, hmy, _⟩
    · exact hI.aliasFut x y h m (List.mem_cons_of_mem _ hm)
    · cases hy'
      exact ⟨not_later_output hord (mentions_of_output hox) m hm, not_later_output hord hmy m hm⟩
  · intro x c hx
    rcases hc x c hx with h | ⟨_, h⟩
    · rw [evalNode_get_other sem he (hI.fut x c h n hmemn)]
      exact hI.const x c h
    · exact h
  · intro x c hx m hm
    rcases hc x c hx with h | ⟨hox, _⟩
    · exact hI.fut x c h m (List.mem_cons_of_mem _ hm)
    · exact not_later_output hord (mentions_of_output hox) m hm
  · intro x y hx
    rcases hs x _ hx with h | ⟨y', hy', _, hmy, _⟩
    · exact hI.aliasNF x y h
    · cases hy'
      exact hnfn y hmy
  · intro x c hx
    rcases hc x c hx with h | ⟨hox, _⟩
    · exact hI.constNF x c h
    · exact hnfn x (mentions_of_output hox)

theorem Inv2.aliasOK {sem : Sem V} {st : St} {ρ : Env V} {todo : List Node} (h : Inv2 sem st ρ todo) : AliasOK st ρ :=
  h.alias

/-- alias substitution keeps the order condition -/
theorem orderOK_subst {sem : Sem V} {st : St} {ρ : Env V} {n : Node} {rest : List Node}
    (hI : Inv2 sem st ρ (n :: rest)) (hord : orderOK (n :: rest) = true) :
    orderOK (n.setInputs (n.inputs.map (substOne st)) :: rest) = true := by
  simp only [orderOK, Bool.and_eq_true, List.all_eq_true] at hord ⊢
  refine ⟨?_, hord.2⟩
  intro m hm o ho
  have hold := hord.1 m hm o ho
  simp only [mentionsTop, Bool.not_eq_true', Bool.or_eq_false_iff] at hold ⊢
  have hout : (n.setInputs (n.inputs.map (substOne st))).outputs = n.outputs := by cases n; rfl
  have hin : (n.setInputs (n.inputs.map (substOne st))).inputs = n.inputs.map (substOne st) := rfl
  rw [hout, hin]
  refine ⟨?_, hold.2⟩
  cases hc : (n.inputs.map (substOne st)).contains (some o) with
  | false => rfl
  | true =>
    exfalso
    have hmem : some o ∈ n.inputs.map (substOne st) := by simpa using hc
    obtain ⟨z, hz, hzo⟩ := List.mem_map.mp hmem
    cases z with
    | none => simp [substOne] at hzo
    | some z' =>
      simp only [substOne, St.getSym, Option.bind] at hzo
      split at hzo
      · rename_i y hy
        have hyo : y = o := by simpa using hzo
        subst hyo
        have := (hI.aliasFut z' y hy m (List.mem_cons_of_mem _ hm)).2
        rw [show m.outputs.contains y = true by simpa using ho] at this
        exact absurd this (by decide)
      · have hzo' : z' = o := by simpa using hzo
        subst hzo'
        have : n.inputs.contains (some z') = true := by simpa using hz
        rw [this] at hold
        exact absurd hold.1 (by decide)

/-! ### `process_node` on a node without reference attributes, by class -/

theorem constOf_setInfo (st : St) (o x : Name) (v : VInfo) :
    (st.setInfo o v).constOf x = if x = o then v.const else st.constOf x := by
  simp only [St.constOf, St.getInfo, St.setInfo, lookupA_insert]
  by_cases h : x = o <;> simp [h]

theorem processConstant_facts (ctx : Ctx) (st0 : St) (n : Node) :
    (processConstant ctx st0 n).sym = st0.sym ∧
    ∀ x c, (processConstant ctx st0 n).constOf x = some c → st0.constOf x = some c ∨ n.outputs.contains x = true := by
  unfold processConstant
  split
  · exact ⟨rfl, fun x c h => Or.inl h⟩
  · split
    · exact ⟨rfl, fun x c h => Or.inl h⟩
    · split
      · rename_i o k a ho hattrs
        have key : ∀ (c? : Option CInfo),
            (match c? with
              | none => st0
              | some c => st0.setInfo o { dtype := some c.dtype, shape := some (c.shape.map fun (d : Nat) => Dim.known (Int.ofNat d)), const := some c }).sym = st0.sym ∧
            ∀ x c', (match c? with
              | none => st0
              | some c => st0.setInfo o { dtype := some c.dtype, shape := some (c.shape.map fun (d : Nat) => Dim.known (Int.ofNat d)), const := some c }).constOf x = some c' →
              st0.constOf x = some c' ∨ n.outputs.contains x = true := by
          intro c?
          cases c? with
          | none => exact ⟨rfl, fun x c h => Or.inl h⟩
          | some c =>
            refine ⟨rfl, ?_⟩
            intro x c' h
            rw [constOf_setInfo] at h
            by_cases hx : x = o
            · right; rw [ho, hx]; simp
            · simp only [hx, if_false] at h; exact Or.inl h
        exact key _
      · exact ⟨rfl, fun x c h => Or.inl h⟩

theorem hasRefAttr_setInputs (n : Node) (ins : List (Option Name)) : hasRefAttr (n.setInputs ins) = hasRefAttr n := by
  cases n; rfl

theorem lookupEvaluator_setInputs (n : Node) (ins : List (Option Name)) (v : Nat) :
    lookupEvaluator (n.setInputs ins) v = lookupEvaluator n v := by
  cases n; rfl

theorem isOp_setInputs (n : Node) (ins : List (Option Name)) (o : String) : (n.setInputs ins).isOp o = n.isOp o := by
  cases n; rfl

theorem processNode_noref (ctx : Ctx) (st : St) (n0 : Node) (href : hasRefAttr n0 = false) :
    processNode ctx st n0 =
      (match lookupA ctx.imports n0.domain with
       | none => (.keep (substInputs st n0).1,
           (if n0.isOp "Constant" then processConstant ctx (substInputs st n0).2 (substInputs st n0).1 else (substInputs st n0).2).note "gate:noimport")
       | some v => finishNode ctx (substInputs st n0).1 v (evalPartial (substInputs st n0).1 v
           (if n0.isOp "Constant" then processConstant ctx (substInputs st n0).2 (substInputs st n0).1 else (substInputs st n0).2))) := by
  have h1 := (substInputs_spec st n0).1
  have hr : hasRefAttr (substInputs st n0).1 = false := by rw [h1, hasRefAttr_setInputs]; exact href
  have hop : (substInputs st n0).1.isOp "Constant" = n0.isOp "Constant" := by rw [h1, isOp_setInputs]
  have hdom : (substInputs st n0).1.domain = n0.domain := by rw [h1]; cases n0; rfl
  unfold processNode
  simp only [hr, Bool.false_eq_true, if_false, hop, hdom]
  cases lookupA ctx.imports n0.domain <;> rfl

theorem evalPartial_identity (st0 : St) (n : Node) (v : Nat) (x o : Name)
    (hop : n.op = "Identity") (hdom : n.domain = "") (hin : n.inputs = [some x]) (hout : n.outputs = [o]) :
    ∃ st2, evalPartial n v st0 = (EvRes.none, st2) ∧ st2.sym = insertA st0.sym o (.alias x) ∧
      (∀ y, st2.constOf y = st0.constOf y) ∧ SameBk st0 st2 ∧ st2.fresh = st0.fresh ∧ st2.err = st0.err := by
  have hl : lookupEvaluator n v = some evIdentity := by
    unfold lookupEvaluator
    simp [hdom, hop]
  unfold evalPartial
  rw [hl]
  simp only [runEvaluator, evIdentity, hin, hout]
  by_cases hgi : st0.isGraphInput x = true
  · rw [if_pos hgi]
    exact ⟨_, rfl, rfl, fun y => rfl, ⟨rfl, rfl, rfl, rfl⟩, rfl, rfl⟩
  rw [if_neg hgi]
  refine ⟨_, rfl, rfl, ?_, ⟨rfl, rfl, rfl, rfl⟩, rfl, rfl⟩
  intro y
  simp only [St.constOf, St.getInfo, St.setInfo, St.setSym, St.note, lookupA_insert]
  by_cases hy : y = x
  · subst hy; simp
  · simp [hy]

theorem identity_alias_env (sem : Sem V) (sub) (ρ ρ' : Env V) (x o : Name) (attrs : List (String × Attr))
    (hid : ∀ v, sem.op "Identity" "" attrs [some v] = some [v]) (hne : o ≠ x)
    (h : evalNode sem sub ρ (.mk "Identity" "" [some x] [o] attrs []) = some ρ') : ρ' o = ρ' x := by
  simp only [evalNode, Node.inputs, lookupAll, lookupIn, Node.outputs] at h
  cases hx : ρ x with
  | none => simp [hx] at h
  | some v =>
    simp only [hx, Option.map, Option.bind, nodeOutputs, Node.subs, List.isEmpty_nil, if_true, constDenote,
      Node.isOp, Node.op, Node.domain, Node.attrs] at h
    have hc : ("Identity" == "Constant") = false := by decide
    simp only [hc, Bool.false_and, hid v] at h
    have h' : ρ' = ρ.set o v := by
      simp only [bindOuts, Bool.false_eq_true, if_false, Option.some.injEq] at h
      exact h.symm
    rw [h', Env.set_get_same, Env.set_get_ne ρ v (Ne.symm hne), hx]

theorem intAttr_some' {n : Node} {k : String} {i : Int} (h : intAttr n k none = some i) :
    (n.attrs.find? (·.1 == k)).map (·.2) = some (Attr.int i) := by
  unfold intAttr Node.attr at h
  split at h
  · rename_i j hj
    simp only [Option.some.injEq] at h
    subst h
    exact hj
  · simp at h
  · split at h <;> simp at h

/-! ### fragment A and the simulation -/

def ClsP (n : Node) : Prop := n.isOp "Constant" = false ∧ ∀ v, lookupEvaluator n v = none
def ClsK (n : Node) : Prop := n.isOp "Constant" = true ∧ n.inputs = [] ∧ ∃ o, n.outputs = [o]
def ClsI (n : Node) : Prop :=
  n.op = "Identity" ∧ n.domain = "" ∧ ∃ x o, n.inputs = [some x] ∧ n.outputs = [o] ∧ o ≠ x

/-- `Concat` of one operand, or inference-mode `Dropout` (no `training_mode` input) with one declared output -/
def ClsR (n : Node) : Prop :=
  n.domain = "" ∧ ∃ x o, n.outputs = [o] ∧ (∀ y, some y ∈ n.inputs → y ≠ o) ∧
    ((n.op = "Concat" ∧ n.inputs = [some x]) ∨ (n.op = "Dropout" ∧ ∃ tl, n.inputs = some x :: tl ∧ tl.length ≤ 1))

/-- `Cast` of one operand to an element type other than UNDEFINED -/
def ClsC (n : Node) : Prop :=
  n.op = "Cast" ∧ n.domain = "" ∧ ∃ x o, n.inputs = [some x] ∧ n.outputs = [o] ∧ (∀ y, some y ∈ n.inputs → y ≠ o) ∧
    intAttr n "to" none ≠ some 0

/-- `CastLike(x, w)` -/
def ClsCL (n : Node) : Prop :=
  n.op = "CastLike" ∧ n.domain = "" ∧ n.attrs = [] ∧ ∃ x w o, n.inputs = [some x, some w] ∧ n.outputs = [o] ∧
    (∀ y, some y ∈ n.inputs → y ≠ o)

/-- a node of fragment A -/
def FragA (n : Node) : Prop :=
  n.subs = [] ∧ hasRefAttr n = false ∧ (ClsP n ∨ ClsK n ∨ ClsI n ∨ ClsR n ∨ ClsC n ∨ ClsCL n)

/-- no name the node mentions looks like a generated name `%k` -/
def NodeNF (n : Node) : Prop := ∀ y, mentionsTop n y = true → NF y

/-- the two operator facts behind the one-node replacements -/
def ReplLaws (sem : Sem V) : Prop :=
  (∀ attrs (v : V), sem.op "Concat" "" attrs [some v] = some [v]) ∧
  (∀ attrs (v : V) rest vs, rest.length ≤ 1 → sem.op "Dropout" "" attrs (some v :: rest) = some vs → vs.head? = some v)

/-- whatever constant `_process_constant_node` attributes to the output of a `Constant` node is what the node evaluates to -/
def ConstMarkSound (sem : Sem V) (ctx : Ctx) (n : Node) : Prop :=
  ∀ (sub : Env V → Graph → List (Option V) → Option (List V)) (st0 : St) (x : Name) (c : CInfo) (ρ ρ1 : Env V),
    st0.constOf x = none → (processConstant ctx st0 n).constOf x = some c → n.outputs.contains x = true →
    evalNode sem sub ρ n = some ρ1 → ρ1 x = some (sem.tensor c.tok)

def IdentityLaw (sem : Sem V) : Prop := ∀ attrs (v : V), sem.op "Identity" "" attrs [some v] = some [v]

theorem Inv2.replace_head {sem : Sem V} {st : St} {ρ : Env V} {n0 n : Node} {rest : List Node}
    (h : Inv2 sem st ρ (n0 :: rest)) (hout : n.outputs = n0.outputs) : Inv2 sem st ρ (n :: rest) := by
  refine ⟨h.symAlias, h.alias, ?_, h.const, ?_, h.aliasNF, h.constNF⟩
  · intro x y hx m hm
    rcases List.mem_cons.mp hm with rfl | hm'
    · rw [hout]; exact h.aliasFut x y hx n0 List.mem_cons_self
    · exact h.aliasFut x y hx m (List.mem_cons_of_mem _ hm')
  · intro x c hx m hm
    rcases List.mem_cons.mp hm with rfl | hm'
    · rw [hout]; exact h.fut x c hx n0 List.mem_cons_self
    · exact h.fut x c hx m (List.mem_cons_of_mem _ hm')

theorem Inv2.sameIS {sem : Sem V} {st st' : St} {ρ : Env V} {todo : List Node} (h : Inv2 sem st ρ todo) (hs : SameIS st st') :
    Inv2 sem st' ρ todo := by
  refine ⟨?_, ?_, ?_, ?_, ?_, ?_, ?_⟩
  · intro x s hx; rw [hs.2] at hx; exact h.symAlias x s hx
  · intro x y hx; rw [hs.2] at hx; exact h.alias x y hx
  · intro x y hx; rw [hs.2] at hx; exact h.aliasFut x y hx
  · intro x c hx; rw [hs.constOf] at hx; exact h.const x c hx
  · intro x c hx; rw [hs.constOf] at hx; exact h.fut x c hx
  · intro x y hx; rw [hs.2] at hx; exact h.aliasNF x y hx
  · intro x c hx; rw [hs.constOf] at hx; exact h.constNF x c hx

/-- a state that knows less satisfies the invariant too -/
theorem Inv2.weaken {sem : Sem V} {st st' : St} {ρ : Env V} {todo : List Node} (h : Inv2 sem st ρ todo)
    (hc : ∀ x c, st'.constOf x = some c → st.constOf x = some c)
    (hs : ∀ x s, lookupA st'.sym x = some s → lookupA st.sym x = some s) : Inv2 sem st' ρ todo :=
  ⟨fun x s hx => h.symAlias x s (hs x s hx), fun x y hx => h.alias x y (hs x _ hx),
   fun x y hx => h.aliasFut x y (hs x _ hx), fun x c hx => h.const x c (hc x c hx),
   fun x c hx => h.fut x c (hc x c hx), fun x y hx => h.aliasNF x y (hs x _ hx),
   fun x c hx => h.constNF x c (hc x c hx)⟩

theorem orderOK_replace_head {n m : Node} {rest : List Node} (hm : ∀ y, mentionsTop m y = true → mentionsTop n y = true)
    (h : orderOK (n :: rest) = true) : orderOK (m :: rest) = true := by
  simp only [orderOK, Bool.and_eq_true, List.all_eq_true] at h ⊢
  refine ⟨?_, h.2⟩
  intro k hk o ho
  have := h.1 k hk o ho
  cases hc : mentionsTop m o with
  | false => rfl
  | true => rw [hm o hc] at this; exact this

theorem setInputs_subs (n : Node) (ins : List (Option Name)) : (n.setInputs ins).subs = n.subs := by cases n; rfl
theorem setInputs_outputs (n : Node) (ins : List (Option Name)) : (n.setInputs ins).outputs = n.outputs := by cases n; rfl
theorem setInputs_inputs (n : Node) (ins : List (Option Name)) : (n.setInputs ins).inputs = ins := by cases n; rfl
theorem setInputs_op (n : Node) (ins : List (Option Name)) : (n.setInputs ins).op = n.op := by cases n; rfl
theorem setInputs_domain (n : Node) (ins : List (Option Name)) : (n.setInputs ins).domain = n.domain := by cases n; rfl
theorem setInputs_attrs (n : Node) (ins : List (Option Name)) : (n.setInputs ins).attrs = n.attrs := by cases n; rfl

/-- **Simulation through the node loop on fragment A.** -/
theorem visitNodes_simA (sem : Sem V) (ctx : Ctx) (hnf : ctx.isFunction = false) (hor : OracleSound sem ctx)
    (hid : IdentityLaw sem) (hrl : ReplLaws sem) (L : OpLaws sem) (hct : CastTyped L) (hot : OracleTyped L ctx)
    (sub : Env V → Graph → List (Option V) → Option (List V)) (vg : St → Graph → St × Graph) :
    ∀ (f : Nat) (todo : List Node) (st : St) (acc : List Node) (ai : List (Name × String)) (ρ ρf : Env V),
      (∀ n ∈ todo, FragA n ∧ (n.isOp "Constant" = true → ConstMarkSound sem ctx n)) → (∀ n ∈ todo, NodeNF n) →
      (∀ n ∈ todo, n.isOp "Constant" = true → ConstMarkTyped L ctx n) →
      orderOK todo = true → Inv2 sem st ρ todo → DtOK L st ρf →
      evalNodes (evalNode sem sub) ρ todo = some ρf →
      ∃ new added, (visitNodes ctx vg f st todo acc ai).2.1 = acc.reverse ++ new ∧
        (visitNodes ctx vg f st todo acc ai).2.2 = ai ++ added ∧
        (∀ p ∈ added, ∃ m ∈ todo, m.outputs.contains p.1 = true) ∧
        evalNodes (evalNode sem sub) (bindInits sem ρ added) new = some ρf ∧
        ((visitNodes ctx vg f st todo acc ai).1.err.isSome = true ∨ AliasOK (visitNodes ctx vg f st todo acc ai).1 ρf) ∧
        (∀ m ∈ new, m.subs = []) := by
  intro f
  induction f with
  | zero =>
    intro todo st acc ai ρ ρf hfr _ _ _ _ _ he
    exact ⟨todo, [], by simp [visitNodes], by simp [visitNodes], by simp, he, Or.inl (by simp [visitNodes]),
      fun m hm => (hfr m hm).1.1⟩
  | succ f ih =>
    intro todo st acc ai ρ ρf hfr hNF hCMT hord hI hD he
    cases todo with
    | nil =>
      have : ρ = ρf := by simpa [evalNodes] using he
      subst this
      exact ⟨[], [], by simp [visitNodes], by simp [visitNodes], by simp, he,
        Or.inr (by simp only [visitNodes]; exact hI.alias), by simp⟩
    | cons n0 rest =>
      have hfr0 := hfr n0 List.mem_cons_self
      have hfrrest : ∀ m ∈ rest, FragA m ∧ (m.isOp "Constant" = true → ConstMarkSound sem ctx m) := fun m hm => hfr m (List.mem_cons_of_mem _ hm)
      have hNF0 : NodeNF n0 := hNF n0 List.mem_cons_self
      have hNFrest : ∀ m ∈ rest, NodeNF m := fun m hm => hNF m (List.mem_cons_of_mem _ hm)
      have hCMTrest : ∀ m ∈ rest, m.isOp "Constant" = true → ConstMarkTyped L ctx m := fun m hm => hCMT m (List.mem_cons_of_mem _ hm)
      have stuck : ∀ (s : St), s.err.isSome = true → ∃ new added,
          ((s, acc.reverse ++ n0 :: rest, ai) : St × List Node × List (Name × String)).2.1 = acc.reverse ++ new ∧
          ((s, acc.reverse ++ n0 :: rest, ai) : St × List Node × List (Name × String)).2.2 = ai ++ added ∧
          (∀ p ∈ added, ∃ m ∈ n0 :: rest, m.outputs.contains p.1 = true) ∧
          evalNodes (evalNode sem sub) (bindInits sem ρ added) new = some ρf ∧
          (((s, acc.reverse ++ n0 :: rest, ai) : St × List Node × List (Name × String)).1.err.isSome = true ∨
            AliasOK ((s, acc.reverse ++ n0 :: rest, ai) : St × List Node × List (Name × String)).1 ρf) ∧
          (∀ m ∈ new, m.subs = []) :=
        fun s hs => ⟨n0 :: rest, [], rfl, by simp, by simp, he, Or.inl hs, fun m hm => (hfr m hm).1.1⟩
      obtain ⟨ρ1, he0, he2⟩ := evalNodes_cons_some he
      -- the node after alias substitution
      obtain ⟨hspec1, hspec2⟩ := substInputs_spec st n0
      generalize hnn : (substInputs st n0).1 = n at hspec1
      generalize hst0 : (substInputs st n0).2 = st0 at hspec2
      have hnsubs : n.subs = [] := by rw [hspec1, setInputs_subs]; exact hfr0.1.1
      have hnout : n.outputs = n0.outputs := by rw [hspec1, setInputs_outputs]
      have he1 : evalNode sem sub ρ n = some ρ1 := by
        rw [hspec1, evalNode_substInputs sem sub st ρ hI.aliasOK n0]; exact he0
      have hordn : orderOK (n :: rest) = true := by rw [hspec1]; exact orderOK_subst hI hord
      have hIn : Inv2 sem st ρ (n :: rest) := hI.replace_head hnout
      have hordr := orderOK_tail hord
      have hnfn : ∀ y, mentionsTop n y = true → NF y := by
        intro y hy
        rw [hspec1] at hy
        simp only [mentionsTop, setInputs_inputs, setInputs_outputs, Bool.or_eq_true] at hy
        rcases hy with hy | hy
        · have hmem : some y ∈ n0.inputs.map (substOne st) := by simpa using hy
          obtain ⟨z, hz, hzy⟩ := List.mem_map.mp hmem
          cases z with
          | none => simp [substOne] at hzy
          | some z' =>
            simp only [substOne, St.getSym, Option.bind] at hzy
            split at hzy
            · rename_i y' hy'
              have : y' = y := by simpa using hzy
              subst this
              exact hI.aliasNF z' y' hy'
            · have : z' = y := by simpa using hzy
              subst this
              exact hNF0 z' (mentions_of_input hz)
        · exact hNF0 y (mentions_of_output hy)
      -- a kept node
      have keepCase : ∀ (st' : St),
          (∀ x c, st'.constOf x = some c → st.constOf x = some c ∨ (n.outputs.contains x = true ∧ ρ1 x = some (sem.tensor c.tok))) →
          (∀ x s, lookupA st'.sym x = some s → lookupA st.sym x = some s ∨
            (∃ y, s = SymVal.alias y ∧ n.outputs.contains x = true ∧ mentionsTop n y = true ∧ ρ1 x = ρ1 y)) →
          DtOK L st' ρf →
          ∃ new added, (visitNodes ctx vg f st' rest (n :: acc) ai).2.1 = acc.reverse ++ new ∧
            (visitNodes ctx vg f st' rest (n :: acc) ai).2.2 = ai ++ added ∧
            (∀ p ∈ added, ∃ m ∈ n0 :: rest, m.outputs.contains p.1 = true) ∧
            evalNodes (evalNode sem sub) (bindInits sem ρ added) new = some ρf ∧
            ((visitNodes ctx vg f st' rest (n :: acc) ai).1.err.isSome = true ∨ AliasOK (visitNodes ctx vg f st' rest (n :: acc) ai).1 ρf) ∧
            (∀ m ∈ new, m.subs = []) := by
        intro st' hc hs hD'
        obtain ⟨newr, addedr, h1, h2, h3, h4, h5, h6⟩ :=
          ih rest st' (n :: acc) ai ρ1 ρf hfrrest hNFrest hCMTrest hordr (hIn.step hordn he1 hc hs hnfn) hD' he2
        refine ⟨n :: newr, addedr, by rw [h1]; simp, h2, ?_, ?_, h5, ?_⟩
        · intro p hp
          obtain ⟨m, hm, hmo⟩ := h3 p hp
          exact ⟨m, List.mem_cons_of_mem _ hm, hmo⟩
        · simp only [evalNodes]
          rw [evalNode_bindInits sem hnsubs addedr ρ (fun p hp => by
            obtain ⟨m, hm, hmo⟩ := h3 p hp
            exact orderOK_head hordn hm hmo), he1]
          exact h4
        · intro m hm
          rcases List.mem_cons.mp hm with rfl | hm'
          · exact hnsubs
          · exact h6 m hm'
      -- facts that make a state "the old state up to bookkeeping"
      have keepSame : ∀ (st' : St), SameIS st st' → _ := fun st' hs' =>
        keepCase st' (fun x c hx => Or.inl (by rw [hs'.constOf] at hx; exact hx))
          (fun x s hx => Or.inl (by rw [hs'.2] at hx; exact hx)) (hD.sameIS hs')
      -- values bound by the current node or earlier keep their value to the end
      have hfin1 : ∀ y, mentionsTop n y = true → ρf y = ρ1 y := fun y hy =>
        evalNodes_get_other sem he2 (not_later_output hordn hy)
      -- the gate cascade on a state `stG` whose constants are those of `st`
      have cascade : ∀ (stG : St) (v : Nat), (∀ y, stG.constOf y = st.constOf y) →
          (∀ x s, lookupA stG.sym x = some s → lookupA st.sym x = some s ∨
            (∃ y, s = SymVal.alias y ∧ n.outputs.contains x = true ∧ mentionsTop n y = true ∧ ρ1 x = ρ1 y)) →
          DtOK L stG ρf →
          ∃ new added,
            (match gateCascade ctx stG n v with
              | (PRes.error m, st) => ({ st with err := some m }, acc.reverse ++ n0 :: rest, ai)
              | (PRes.keep n', st) => visitNodes ctx vg f (visitSubs vg st n'.subs).1 rest (n'.setSubs (visitSubs vg st n'.subs).2 :: acc) ai
              | (PRes.repl n' r, st) =>
                match applyRepl ctx st n' r with
                | .error m => ({ st with err := some m }, acc.reverse ++ n0 :: rest, ai)
                | .ok (newNodes, inits, st) => visitNodes ctx vg f st (newNodes ++ rest) acc (ai ++ inits)).2.1 = acc.reverse ++ new ∧
            (match gateCascade ctx stG n v with
              | (PRes.error m, st) => ({ st with err := some m }, acc.reverse ++ n0 :: rest, ai)
              | (PRes.keep n', st) => visitNodes ctx vg f (visitSubs vg st n'.subs).1 rest (n'.setSubs (visitSubs vg st n'.subs).2 :: acc) ai
              | (PRes.repl n' r, st) =>
                match applyRepl ctx st n' r with
                | .error m => ({ st with err := some m }, acc.reverse ++ n0 :: rest, ai)
                | .ok (newNodes, inits, st) => visitNodes ctx vg f st (newNodes ++ rest) acc (ai ++ inits)).2.2 = ai ++ added ∧
            (∀ p ∈ added, ∃ m ∈ n0 :: rest, m.outputs.contains p.1 = true) ∧
            evalNodes (evalNode sem sub) (bindInits sem ρ added) new = some ρf ∧
            ((match gateCascade ctx stG n v with
              | (PRes.error m, st) => ({ st with err := some m }, acc.reverse ++ n0 :: rest, ai)
              | (PRes.keep n', st) => visitNodes ctx vg f (visitSubs vg st n'.subs).1 rest (n'.setSubs (visitSubs vg st n'.subs).2 :: acc) ai
              | (PRes.repl n' r, st) =>
                match applyRepl ctx st n' r with
                | .error m => ({ st with err := some m }, acc.reverse ++ n0 :: rest, ai)
                | .ok (newNodes, inits, st) => visitNodes ctx vg f st (newNodes ++ rest) acc (ai ++ inits)).1.err.isSome = true ∨
              AliasOK (match gateCascade ctx stG n v with
              | (PRes.error m, st) => ({ st with err := some m }, acc.reverse ++ n0 :: rest, ai)
              | (PRes.keep n', st) => visitNodes ctx vg f (visitSubs vg st n'.subs).1 rest (n'.setSubs (visitSubs vg st n'.subs).2 :: acc) ai
              | (PRes.repl n' r, st) =>
                match applyRepl ctx st n' r with
                | .error m => ({ st with err := some m }, acc.reverse ++ n0 :: rest, ai)
                | .ok (newNodes, inits, st) => visitNodes ctx vg f st (newNodes ++ rest) acc (ai ++ inits)).1 ρf) ∧
            (∀ m ∈ new, m.subs = []) := by
        intro stG v hGc hGs hGd
        rcases gateCascade_cases ctx hnf stG n v with ⟨st', hg, hs'⟩ | ⟨m, st', hg⟩ | ⟨c, st2, st3, o, hs2, hora, ho, hsubs, hnc, hins, hg, hsym3, hinfo3⟩
        · rw [hg]
          simp only [hnsubs, visitSubs, setSubs_nil n hnsubs]
          exact keepCase st' (fun x c hx => Or.inl (by rw [hs'.constOf, hGc] at hx; exact hx))
            (fun x s hx => by rw [hs'.2] at hx; exact hGs x s hx) (hGd.sameIS hs')
        · rw [hg]
          exact stuck _ rfl
        · rw [hg]
          obtain ⟨st4, happ, hs4, _⟩ := applyRepl_fold ctx hnf st3 n o (freshOf st2) c.tok ho
          simp only [happ, List.nil_append]
          have hcong : ∀ x, st2.constOf x = st.constOf x := fun x => by rw [hs2.constOf, hGc]
          have hins2 : ∀ x, some x ∈ n.inputs → (st2.constOf x).isSome = true := fun x hx => by
            rw [hs2.constOf]; exact hins x hx
          have hinsst : ∀ x, some x ∈ n.inputs → (st.constOf x).isSome = true := fun x hx => by
            rw [← hGc]; exact hins x hx
          have hop := hor st2 n v c hora hins2
          rw [constArgs_congr sem hcong] at hop
          have hρ1 : ρ1 = ρ.set o (sem.tensor c.tok) := by
            have : evalNode sem sub ρ n = some (ρ.set o (sem.tensor c.tok)) := by
              simp only [evalNode, lookupAll_const sem st ρ hI.const n.inputs hinsst, Option.bind, nodeOutputs, hsubs,
                List.isEmpty_nil, if_true, constDenote_not_constant sem n hnc, hop, ho, bindOuts]
            rw [this] at he1
            exact (Option.some.inj he1).symm
          have hfold := inheritInfo_fold st2 st3 o (freshOf st2) c hinfo3
          have hIr : Inv2 sem st4 ρ1 rest := by
            apply hIn.step hordn he1
            · intro x c' hx
              rw [hs4.constOf] at hx
              rcases hfold.2 x c' hx with ⟨hxo, hcc⟩ | hx2
              · subst hxo; subst hcc
                right
                exact ⟨by simp [ho], by rw [hρ1, Env.set_get_same]⟩
              · rw [hcong] at hx2
                exact Or.inl hx2
            · intro x s hx
              rw [hs4.2, hfold.1, hsym3, hs2.2, lookupA_erase] at hx
              by_cases hxo : x = o
              · simp [hxo] at hx
              · simp only [hxo, if_false] at hx
                exact hGs x s hx
            · exact hnfn
          have hmo : mentionsTop n o = true := mentions_of_output (by rw [ho]; simp)
          have hD4 : DtOK L st4 ρf := by
            apply hGd.step
            intro y dt hy
            rw [getInfo_sameIS hs4, getInfo_inheritInfo] at hy
            have hofv : o ≠ freshOf st2 := hnfn o hmo st2.fresh
            have hg3 : ∀ z, st3.getInfo z = if z = freshOf st2 then foldInfo c else st2.getInfo z := by
              intro z
              simp only [St.getInfo, hinfo3, lookupA_insert]
              by_cases hz : z = freshOf st2 <;> simp [hz]
            by_cases hyf : y = freshOf st2
            · simp [hyf] at hy
            · simp only [hyf, if_false] at hy
              by_cases hyo : y = o
              · subst hyo
                simp only [if_true, hg3, hyf, if_false] at hy
                cases hold : (st2.getInfo y).dtype with
                | some d =>
                  rw [hold] at hy
                  left
                  rw [← getInfo_sameIS hs2, hold]
                  exact hy
                | none =>
                  rw [hold] at hy
                  simp only [orElse, foldInfo, Option.some.injEq] at hy
                  right
                  refine ⟨hnfn y hmo, ?_⟩
                  intro w hw
                  rw [hfin1 y hmo, hρ1, Env.set_get_same] at hw
                  rw [← Option.some.inj hw, ← hy]
                  exact hot _ c hora
              · simp only [hyo, if_false, hg3, hyf] at hy
                left
                rw [← getInfo_sameIS hs2]
                exact hy
          obtain ⟨newr, addedr, h1, h2, h3, h4, h5, h6⟩ := ih rest st4 acc (ai ++ [(o, c.tok)]) ρ1 ρf hfrrest hNFrest hCMTrest hordr hIr hD4 he2
          refine ⟨newr, (o, c.tok) :: addedr, h1, by rw [h2]; simp, ?_, ?_, h5, h6⟩
          · intro p hp
            rcases List.mem_cons.mp hp with rfl | hp
            · exact ⟨n0, List.mem_cons_self, by rw [← hnout]; simp [ho]⟩
            · obtain ⟨m, hm, hmo⟩ := h3 p hp
              exact ⟨m, List.mem_cons_of_mem _ hm, hmo⟩
          · simp only [bindInits]
            rw [← hρ1]
            exact h4
      -- a substituted input differs from the output as soon as the original input does
      have substNe : ∀ (x0 x o : Name), substOne st (some x0) = some x → some x0 ∈ n0.inputs → n0.outputs = [o] → x0 ≠ o → o ≠ x := by
        intro x0 x o hsx hx0in hout0 hne e
        simp only [substOne, St.getSym, Option.bind] at hsx
        split at hsx
        · rename_i y hy
          have hyx : y = x := by simpa using hsx
          have := (hI.aliasFut x0 y hy n0 List.mem_cons_self).2
          rw [hout0, hyx, ← e] at this
          simp at this
        · have : x0 = x := by simpa using hsx
          exact hne (by rw [this, e])
      -- the node is replaced by one new node `opn(x) → o` that computes the same environment
      have replCase : ∀ (o x : Name) (opn : String) (attrs : List (String × Attr)) (st2 : St),
          n.outputs = [o] → mentionsTop n x = true → SameIS st0 st2 →
          (FragA (mkNode opn [some x] [o] attrs) ∧
            ((mkNode opn [some x] [o] attrs).isOp "Constant" = true → ConstMarkSound sem ctx (mkNode opn [some x] [o] attrs))) →
          evalNode sem sub ρ (mkNode opn [some x] [o] attrs) = some ρ1 →
          ∃ new added,
            (match applyRepl ctx st2 n (oneRepl st0 opn x attrs) with
              | .error m => ({ st2 with err := some m }, acc.reverse ++ n0 :: rest, ai)
              | .ok (newNodes, inits, st) => visitNodes ctx vg f st (newNodes ++ rest) acc (ai ++ inits)).2.1 = acc.reverse ++ new ∧
            (match applyRepl ctx st2 n (oneRepl st0 opn x attrs) with
              | .error m => ({ st2 with err := some m }, acc.reverse ++ n0 :: rest, ai)
              | .ok (newNodes, inits, st) => visitNodes ctx vg f st (newNodes ++ rest) acc (ai ++ inits)).2.2 = ai ++ added ∧
            (∀ p ∈ added, ∃ m ∈ n0 :: rest, m.outputs.contains p.1 = true) ∧
            evalNodes (evalNode sem sub) (bindInits sem ρ added) new = some ρf ∧
            ((match applyRepl ctx st2 n (oneRepl st0 opn x attrs) with
              | .error m => ({ st2 with err := some m }, acc.reverse ++ n0 :: rest, ai)
              | .ok (newNodes, inits, st) => visitNodes ctx vg f st (newNodes ++ rest) acc (ai ++ inits)).1.err.isSome = true ∨
              AliasOK (match applyRepl ctx st2 n (oneRepl st0 opn x attrs) with
              | .error m => ({ st2 with err := some m }, acc.reverse ++ n0 :: rest, ai)
              | .ok (newNodes, inits, st) => visitNodes ctx vg f st (newNodes ++ rest) acc (ai ++ inits)).1 ρf) ∧
            (∀ m ∈ new, m.subs = []) := by
        intro o x opn attrs st2 hno hmx his2 hmfr hem
        have hxfv : x ≠ freshOf st0 := hnfn x hmx st0.fresh
        obtain ⟨l, happ⟩ := applyRepl_one ctx hnf st2 n o (freshOf st0) x opn attrs hno hxfv
        have happ' : applyRepl ctx st2 n (oneRepl st0 opn x attrs) = .ok ([mkNode opn [some x] [o] attrs], [],
            replState st2 n o (freshOf st0) (mkNode opn [some x] [o] attrs) l) := happ
        simp only [happ', List.cons_append, List.nil_append, List.append_nil]
        have hmm : ∀ y, mentionsTop (mkNode opn [some x] [o] attrs) y = true → mentionsTop n y = true := by
          intro y hy
          have : y = x ∨ y = o := by
            simpa [mentionsTop, mkNode, Node.inputs, Node.outputs] using hy
          rcases this with rfl | rfl
          · exact hmx
          · exact mentions_of_output (by rw [hno]; simp)
        have hD0 := (hD.sameIS hspec2).sameIS his2
        have hfv : st2.constOf (freshOf st0) = none := by
          cases hc : st2.constOf (freshOf st0) with
          | none => rfl
          | some c =>
            rw [his2.constOf, hspec2.constOf] at hc
            exact absurd rfl (hI.constNF _ c hc st0.fresh)
        have hfvd : (st2.getInfo (freshOf st0)).dtype = none := by
          cases hc : (st2.getInfo (freshOf st0)).dtype with
          | none => rfl
          | some d => exact absurd rfl (hD0.2 _ d hc st0.fresh)
        obtain ⟨hpsym, hpc⟩ := inheritInfo_plain st2 o (freshOf st0) hfv
        have hs4 := sameIS_replState st2 n o (freshOf st0) (mkNode opn [some x] [o] attrs) l
        have hI4 : Inv2 sem (replState st2 n o (freshOf st0) (mkNode opn [some x] [o] attrs) l) ρ
            (mkNode opn [some x] [o] attrs :: rest) := by
          apply (hIn.replace_head (n := mkNode opn [some x] [o] attrs) (by rw [hno]; rfl)).weaken
          · intro y c hy
            rw [hs4.constOf] at hy
            have := hpc y c hy
            rw [his2.constOf, hspec2.constOf] at this
            exact this
          · intro y s hy
            rw [hs4.2, hpsym, lookupA_erase] at hy
            by_cases hyo : y = o
            · simp [hyo] at hy
            · simp only [hyo, if_false] at hy
              rw [his2.2, hspec2.2] at hy
              exact hy
        have hD4 : DtOK L (replState st2 n o (freshOf st0) (mkNode opn [some x] [o] attrs) l) ρf := by
          apply hD0.step
          intro y dt hy
          rw [getInfo_sameIS hs4, getInfo_inheritInfo] at hy
          left
          by_cases hyf : y = freshOf st0
          · simp [hyf] at hy
          · simp only [hyf, if_false] at hy
            by_cases hyo : y = o
            · subst hyo
              simp only [if_true, hfvd] at hy
              cases hold : (st2.getInfo y).dtype with
              | some d => rw [hold] at hy; exact hy
              | none => rw [hold] at hy; simp [orElse] at hy
            · simp only [hyo, if_false] at hy
              exact hy
        have hev' : evalNodes (evalNode sem sub) ρ (mkNode opn [some x] [o] attrs :: rest) = some ρf := by
          simp only [evalNodes, hem, Option.bind]
          exact he2
        have hfr' : ∀ k ∈ mkNode opn [some x] [o] attrs :: rest,
            FragA k ∧ (k.isOp "Constant" = true → ConstMarkSound sem ctx k) := by
          intro k hk
          rcases List.mem_cons.mp hk with rfl | hk'
          · exact hmfr
          · exact hfrrest k hk'
        have hNF' : ∀ k ∈ mkNode opn [some x] [o] attrs :: rest, NodeNF k := by
          intro k hk
          rcases List.mem_cons.mp hk with rfl | hk'
          · exact fun y hy => hnfn y (hmm y hy)
          · exact hNFrest k hk'
        have hCMT' : ∀ k ∈ mkNode opn [some x] [o] attrs :: rest, k.isOp "Constant" = true → ConstMarkTyped L ctx k := by
          intro k hk
          rcases List.mem_cons.mp hk with rfl | hk'
          · intro hk0
            exfalso
            rcases hmfr.1.2.2 with hP | hK | hI' | hR' | hC' | hCL'
            · rw [hP.1] at hk0; exact absurd hk0 (by decide)
            · have := hK.2.1; simp [mkNode, Node.inputs] at this
            · have h1 : (mkNode opn [some x] [o] attrs).op = "Identity" := hI'.1
              simp [Node.isOp, h1] at hk0
            · rcases hR'.2 with ⟨_, _, _, _, h⟩
              rcases h with ⟨h1, _⟩ | ⟨h1, _⟩ <;> simp [Node.isOp, h1] at hk0
            · have h1 := hC'.1; simp [Node.isOp, h1] at hk0
            · have h1 := hCL'.1; simp [Node.isOp, h1] at hk0
          · exact hCMTrest k hk'
        obtain ⟨newr, addedr, h1, h2, h3, h4, h5, h6⟩ :=
          ih (mkNode opn [some x] [o] attrs :: rest) _ acc ai ρ ρf hfr' hNF' hCMT' (orderOK_replace_head hmm hordn) hI4 hD4 hev'
        refine ⟨newr, addedr, h1, h2, ?_, h4, h5, h6⟩
        intro p hp
        obtain ⟨k, hk, hko⟩ := h3 p hp
        rcases List.mem_cons.mp hk with rfl | hk'
        · exact ⟨n0, List.mem_cons_self, by rw [← hnout, hno]; exact hko⟩
        · exact ⟨k, List.mem_cons_of_mem _ hk', hko⟩
      -- …in particular by `Identity(x)`
      have idCase : ∀ (o x : Name) (st2 : St), n.outputs = [o] → mentionsTop n x = true → o ≠ x → SameIS st0 st2 →
          evalNode sem sub ρ (mkNode "Identity" [some x] [o]) = some ρ1 → _ :=
        fun o x st2 hno hmx hox his2 hem =>
          replCase o x "Identity" [] st2 hno hmx his2
            ⟨⟨rfl, rfl, Or.inr (Or.inr (Or.inl ⟨rfl, rfl, x, o, rfl, rfl, hox⟩))⟩,
              fun h => by simp [Node.isOp, mkNode, Node.op] at h⟩ hem
      simp only [visitNodes]
      split
      · rename_i herr
        exact stuck st herr
      · rw [processNode_noref ctx st n0 hfr0.1.2.1, hnn, hst0]
        have hdom : n.domain = n0.domain := by rw [hspec1, setInputs_domain]
        rcases hfr0.1.2.2 with hP | hK | hIcls | hR | hC | hCL
        · -- plain operator
          have hev : ∀ v, lookupEvaluator n v = none := fun v => by rw [hspec1, lookupEvaluator_setInputs]; exact hP.2 v
          simp only [hP.1, Bool.false_eq_true, if_false]
          cases himp : lookupA ctx.imports n0.domain with
          | none =>
            simp only [hnsubs, visitSubs, setSubs_nil n hnsubs]
            exact keepSame _ (SameIS.trans hspec2 ⟨rfl, rfl⟩)
          | some v =>
            simp only [evalPartial, hev, finishNode]
            exact cascade st0 v (fun y => hspec2.constOf y) (fun x s hx => Or.inl (by rw [hspec2.2] at hx; exact hx))
              (hD.sameIS hspec2)
        · -- Constant node
          have hev : ∀ v, lookupEvaluator n v = none := by
            intro v
            rw [hspec1, lookupEvaluator_setInputs]
            have hk := hK.1
            simp only [Node.isOp, Bool.and_eq_true, beq_iff_eq] at hk
            unfold lookupEvaluator
            split
            · rfl
            · simp [hk.1]
          have hisop : n.isOp "Constant" = true := by rw [hspec1, isOp_setInputs]; exact hK.1
          obtain ⟨hpsym, hpc⟩ := processConstant_facts ctx st0 n
          have hcms : ConstMarkSound sem ctx n := by
            have hin0 : n0.inputs.map (substOne st) = n0.inputs := by rw [hK.2.1]; rfl
            have : n = n0 := by
              rw [hspec1, hin0]; cases n0; rfl
            rw [this]; exact hfr0.2 hK.1
          have kfacts : ∀ (st' : St), SameIS (processConstant ctx st0 n) st' → _ := fun st' hs' =>
            keepCase st'
              (fun x c hx => by
                rw [hs'.constOf] at hx
                rcases hpc x c hx with h | h
                · exact Or.inl (by rw [hspec2.constOf] at h; exact h)
                · cases hold : st0.constOf x with
                  | some c' =>
                    exfalso
                    rw [hspec2.constOf] at hold
                    have := hI.fut x c' hold n0 List.mem_cons_self
                    rw [← hnout, h] at this
                    exact absurd this (by decide)
                  | none => exact Or.inr ⟨h, hcms sub st0 x c ρ ρ1 hold hx h he1⟩)
              (fun x s hx => Or.inl (by rw [hs'.2, hpsym, hspec2.2] at hx; exact hx))
              (by
                apply (hD.sameIS hspec2).step
                intro y dt hy
                rw [getInfo_sameIS hs'] at hy
                by_cases hch : (processConstant ctx st0 n).getInfo y = st0.getInfo y
                · left; rw [hch] at hy; exact hy
                · right
                  have hyo : n.outputs.contains y = true := by
                    rcases processConstant_info ctx st0 n y with h | h
                    · exact absurd h hch
                    · exact h
                  have hmy := mentions_of_output hyo
                  refine ⟨hnfn y hmy, ?_⟩
                  intro w hw
                  rw [hfin1 y hmy] at hw
                  have hcmt : ConstMarkTyped L ctx n := by
                    have hin0 : n0.inputs.map (substOne st) = n0.inputs := by rw [hK.2.1]; rfl
                    have : n = n0 := by
                      rw [hspec1, hin0]; cases n0; rfl
                    rw [this]; exact hCMT n0 List.mem_cons_self hK.1
                  exact hcmt sub st0 y dt ρ ρ1 w hch hy he1 hw)
          simp only [hK.1, if_true]
          cases himp : lookupA ctx.imports n0.domain with
          | none =>
            simp only [hnsubs, visitSubs, setSubs_nil n hnsubs]
            exact kfacts _ ⟨rfl, rfl⟩
          | some v =>
            simp only [evalPartial, hev, finishNode, gateCascade, hisop, if_true]
            simp only [hnsubs, visitSubs, setSubs_nil n hnsubs]
            exact kfacts _ ⟨rfl, rfl⟩
        · -- Identity node
          obtain ⟨hiop, hidom, x0, o, hin0, hout0, hox0⟩ := hIcls
          have hnc : n0.isOp "Constant" = false := by
            simp [Node.isOp, hiop]
          simp only [hnc, Bool.false_eq_true, if_false]
          cases himp : lookupA ctx.imports n0.domain with
          | none =>
            simp only [hnsubs, visitSubs, setSubs_nil n hnsubs]
            exact keepSame _ (SameIS.trans hspec2 ⟨rfl, rfl⟩)
          | some v =>
            -- the substituted input
            have hxin : ∃ x, n.inputs = [some x] := by
              rw [hspec1, setInputs_inputs, hin0]
              simp only [List.map_cons, List.map_nil, substOne]
              split
              · exact ⟨_, rfl⟩
              · exact ⟨_, rfl⟩
            obtain ⟨x, hxin⟩ := hxin
            have hno : n.outputs = [o] := by rw [hnout, hout0]
            obtain ⟨st2, hep, hsym2, hc2, _, _, _⟩ := evalPartial_identity st0 n v x o
              (by rw [hspec1, setInputs_op]; exact hiop) (by rw [hdom]; exact hidom) hxin hno
            have hdt2 := evalPartial_identity_dtype st0 n v x o
              (by rw [hspec1, setInputs_op]; exact hiop) (by rw [hdom]; exact hidom) hxin hno
            rw [hep] at hdt2
            simp only [hep, finishNode]
            -- the alias holds once the node has run
            have halias : ρ1 o = ρ1 x := by
              have hmx : mentionsTop n x = true := mentions_of_input (by rw [hxin]; simp)
              have hxo : x ≠ o := by
                intro e
                -- `x` is an input of `n`, `o` its output: the original node has o ≠ x0, and an alias target is never a later output
                rw [hspec1, setInputs_inputs, hin0] at hxin
                simp only [List.map_cons, List.map_nil, substOne, List.cons.injEq, and_true] at hxin
                split at hxin
                · rename_i y hy
                  have hyx : y = x := by simpa using hxin
                  have := (hI.aliasFut x0 y hy n0 List.mem_cons_self).2
                  rw [hout0, hyx, e] at this
                  simp at this
                · have : x0 = x := by simpa using hxin
                  exact hox0 (by rw [this, e])
              have hev : evalNode sem sub ρ (Node.mk "Identity" "" [some x] [o] n.attrs []) = some ρ1 := by
                have hnop : n.op = "Identity" := by rw [hspec1, setInputs_op]; exact hiop
                have hndom : n.domain = "" := by rw [hdom]; exact hidom
                have : n = Node.mk "Identity" "" [some x] [o] n.attrs [] := by
                  clear hspec1 hnn he1 hIn hordn keepCase keepSame cascade hep
                  cases n with
                  | mk op dom ins outs attrs subs =>
                    simp only [Node.inputs] at hxin
                    simp only [Node.outputs] at hno
                    simp only [Node.subs] at hnsubs
                    simp only [Node.op] at hnop
                    simp only [Node.domain] at hndom
                    simp [Node.attrs, hnop, hndom, hxin, hno, hnsubs]
                rw [← this]; exact he1
              exact identity_alias_env sem sub ρ ρ1 x o n.attrs (hid n.attrs) (Ne.symm hxo) hev
            exact cascade st2 v (fun y => by rw [hc2, hspec2.constOf])
              (fun x' s hx => by
                rw [hsym2, lookupA_insert] at hx
                by_cases hxo : x' = o
                · simp only [hxo, if_true, Option.some.injEq] at hx
                  right
                  exact ⟨x, hx.symm, by rw [hxo, hno]; simp, mentions_of_input (by rw [hxin]; simp), by rw [hxo]; exact halias⟩
                · simp only [hxo, if_false] at hx
                  left; rw [hspec2.2] at hx; exact hx)
              (by
                have hD0 := hD.sameIS hspec2
                apply hD0.step
                intro y dt hy
                rcases hdt2 y dt hy with h | ⟨hyx, ho⟩
                · exact Or.inl h
                · right
                  have hmx : mentionsTop n x = true := mentions_of_input (by rw [hxin]; simp)
                  have hmo : mentionsTop n o = true := mentions_of_output (by rw [hno]; simp)
                  subst hyx
                  refine ⟨hnfn y hmx, ?_⟩
                  intro w hw
                  rw [hfin1 y hmx, ← halias, ← hfin1 o hmo] at hw
                  exact hD0.1 o w dt hw ho)
        · -- replaced by `Identity(first input)`
          obtain ⟨hrdom, x0, o, hout0, hneo, hcls⟩ := hR
          have hnc : n0.isOp "Constant" = false := by
            rcases hcls with ⟨hop, _⟩ | ⟨hop, _⟩ <;> simp [Node.isOp, hop]
          simp only [hnc, Bool.false_eq_true, if_false]
          cases himp : lookupA ctx.imports n0.domain with
          | none =>
            simp only [hnsubs, visitSubs, setSubs_nil n hnsubs]
            exact keepSame _ (SameIS.trans hspec2 ⟨rfl, rfl⟩)
          | some v =>
            have hno : n.outputs = [o] := by rw [hnout, hout0]
            have hnop : n.op = n0.op := by rw [hspec1, setInputs_op]
            have hninp : n.inputs = n0.inputs.map (substOne st) := by rw [hspec1, setInputs_inputs]
            have hndom : n.domain = "" := by rw [hdom]; exact hrdom
            by_cases hreg : n0.op = "Dropout" ∧ v < 12
            · have hev : lookupEvaluator n v = none := by
                unfold lookupEvaluator
                have : ¬ 12 ≤ v := by omega
                simp [hndom, hnop, hreg.1, this]
              simp only [evalPartial, hev, finishNode]
              exact cascade st0 v (fun y => hspec2.constOf y) (fun x s hx => Or.inl (by rw [hspec2.2] at hx; exact hx))
                (hD.sameIS hspec2)
            · obtain ⟨x, hsx⟩ := substOne_some st x0
              have hfacts : ∃ tl, n.inputs = some x :: tl ∧ ReplId n v x ∧
                  (∀ (w : V) args vs, args.length = tl.length →
                    sem.op n.op n.domain n.attrs (some w :: args) = some vs → vs.head? = some w) := by
                rcases hcls with ⟨hop, hin0⟩ | ⟨hop, tl0, hin0, htl0⟩
                · refine ⟨[], by rw [hninp, hin0]; simp [hsx], ⟨hndom, Or.inl ⟨by rw [hnop]; exact hop, by rw [hninp, hin0]; simp [hsx]⟩⟩, ?_⟩
                  intro w args vs hlen hop'
                  have hargs : args = [] := List.eq_nil_of_length_eq_zero (by simpa using hlen)
                  rw [hargs, hnop, hop, hndom, hrl.1 n.attrs w] at hop'
                  rw [← Option.some.inj hop']; rfl
                · have hv : 12 ≤ v := by
                    cases Nat.lt_or_ge v 12 with
                    | inl h => exact absurd ⟨hop, h⟩ hreg
                    | inr h => exact h
                  refine ⟨tl0.map (substOne st), by rw [hninp, hin0]; simp [hsx],
                    ⟨hndom, Or.inr ⟨by rw [hnop]; exact hop, hv, by rw [hno]; rfl, tl0.map (substOne st),
                      by rw [hninp, hin0]; simp [hsx], by simpa using htl0⟩⟩, ?_⟩
                  intro w args vs hlen hop'
                  rw [hnop, hop, hndom] at hop'
                  exact hrl.2 n.attrs w args vs (by rw [hlen]; simpa using htl0) hop'
              obtain ⟨tl, hxin, hRid, hlawn⟩ := hfacts
              obtain ⟨st2, hep, his2, _, _⟩ := evalPartial_replId st0 n v x hRid
              simp only [hep, finishNode]
              have hx0in : some x0 ∈ n0.inputs := by
                rcases hcls with ⟨_, hin0⟩ | ⟨_, tl0, hin0, _⟩ <;> rw [hin0] <;> simp
              have hnc' : n.isOp "Constant" = false := by rw [hspec1, isOp_setInputs]; exact hnc
              exact idCase o x st2 hno (mentions_of_input (by rw [hxin]; simp)) (substNe x0 x o hsx hx0in hout0 (hneo x0 hx0in)) his2
                (evalNode_first_input sem sub ρ ρ1 n x o tl hnsubs hnc' hxin hno
                  (fun w args vs _ hargs hop' => hlawn w args vs (lookupAll_length tl args hargs) hop') (hid []) he1)
        · -- `Cast`
          obtain ⟨hcop, hcdom, x0, o, hin0, hout0, hneo, hto0⟩ := hC
          have hnc : n0.isOp "Constant" = false := by simp [Node.isOp, hcop]
          simp only [hnc, Bool.false_eq_true, if_false]
          cases himp : lookupA ctx.imports n0.domain with
          | none =>
            simp only [hnsubs, visitSubs, setSubs_nil n hnsubs]
            exact keepSame _ (SameIS.trans hspec2 ⟨rfl, rfl⟩)
          | some v =>
            obtain ⟨x, hsx⟩ := substOne_some st x0
            have hno : n.outputs = [o] := by rw [hnout, hout0]
            have hnop : n.op = "Cast" := by rw [hspec1, setInputs_op]; exact hcop
            have hndom : n.domain = "" := by rw [hdom]; exact hcdom
            have hxin : n.inputs = [some x] := by rw [hspec1, setInputs_inputs, hin0]; simp [hsx]
            have hnattrs : n.attrs = n0.attrs := by rw [hspec1, setInputs_attrs]
            have hnc' : n.isOp "Constant" = false := by rw [hspec1, isOp_setInputs]; exact hnc
            have hx0in : some x0 ∈ n0.inputs := by rw [hin0]; simp
            have hmx : mentionsTop n x = true := mentions_of_input (by rw [hxin]; simp)
            have hmo : mentionsTop n o = true := mentions_of_output (by rw [hno]; simp)
            have hox : o ≠ x := substNe x0 x o hsx hx0in hout0 (hneo x0 hx0in)
            have hD0 := hD.sameIS hspec2
            obtain ⟨vx, wo, ws, hvx, hopx, hρ1⟩ := evalNode_unary sem sub ρ ρ1 n x o hnsubs hnc' hxin hno he1
            have hxfin : ρf x = some vx := by
              rw [hfin1 x hmx, hρ1, Env.set_get_ne ρ wo hox.symm, hvx]
            have hto : intAttr n "to" none = intAttr n0 "to" none := by
              rw [hspec1]; cases n0; rfl
            rcases evalPartial_cast st0 n v x o hnop hndom hxin hno with ⟨st2, hep, hsym2, hc2, hdt2⟩ | ⟨st2, to, hep, his2, hattr, hdt⟩
            · simp only [hep, finishNode]
              refine cascade st2 v (fun y => by rw [hc2, hspec2.constOf])
                (fun x' s hx => Or.inl (by rw [hsym2, hspec2.2] at hx; exact hx)) ?_
              apply hD0.step
              intro y dt hy
              rcases hdt2 y dt hy with h | ⟨hyo, to, hattr, hdtto⟩
              · exact Or.inl h
              · right
                subst hyo
                refine ⟨hnfn y hmo, ?_⟩
                intro w hw
                rw [hfin1 y hmo, hρ1, Env.set_get_same] at hw
                rw [← Option.some.inj hw, hdtto]
                rw [hnop, hndom] at hopx
                exact hct n.attrs vx wo ws to hopx (intAttr_some' hattr)
            · simp only [hep, finishNode]
              -- the annotated element type of `x` is `to`, and truthful: `Cast` is the identity on `x`
              have hsem : sem.op n.op n.domain n.attrs [some vx] = some [vx] := by
                cases hdx : (st0.getInfo x).dtype with
                | none =>
                  exfalso
                  rw [hdx] at hdt
                  simp only [Option.getD_none] at hdt
                  apply hto0
                  rw [← hto, hattr, ← hdt]
                  rfl
                | some dx =>
                  rw [hdx] at hdt
                  simp only [Option.getD_some] at hdt
                  rw [hnop, hndom]
                  exact L.cast_same n.attrs vx dx (hD0.1 x vx dx hxfin hdx) (by rw [hdt]; exact intAttr_some' hattr)
              exact idCase o x st2 hno hmx hox his2
                (evalNode_first_input sem sub ρ ρ1 n x o [] hnsubs hnc' hxin hno
                  (fun w args vs hw hargs hop' => by
                    have hargs' : args = [] := by simpa [lookupAll] using hargs.symm
                    rw [hvx] at hw
                    have hwv : vx = w := Option.some.inj hw
                    subst hwv
                    rw [hargs', hsem] at hop'
                    rw [← Option.some.inj hop']; rfl) (hid []) he1)
        · -- `CastLike`
          obtain ⟨hcop, hcdom, hcattrs, x0, w0, o, hin0, hout0, hneo⟩ := hCL
          have hnc : n0.isOp "Constant" = false := by simp [Node.isOp, hcop]
          simp only [hnc, Bool.false_eq_true, if_false]
          cases himp : lookupA ctx.imports n0.domain with
          | none =>
            simp only [hnsubs, visitSubs, setSubs_nil n hnsubs]
            exact keepSame _ (SameIS.trans hspec2 ⟨rfl, rfl⟩)
          | some v =>
            obtain ⟨x, hsx⟩ := substOne_some st x0
            obtain ⟨w, hsw⟩ := substOne_some st w0
            have hno : n.outputs = [o] := by rw [hnout, hout0]
            have hnop : n.op = "CastLike" := by rw [hspec1, setInputs_op]; exact hcop
            have hndom : n.domain = "" := by rw [hdom]; exact hcdom
            have hxin : n.inputs = [some x, some w] := by rw [hspec1, setInputs_inputs, hin0]; simp [hsx, hsw]
            have hnattrs : n.attrs = [] := by rw [hspec1, setInputs_attrs]; exact hcattrs
            have hnc' : n.isOp "Constant" = false := by rw [hspec1, isOp_setInputs]; exact hnc
            have hx0in : some x0 ∈ n0.inputs := by rw [hin0]; simp
            have hw0in : some w0 ∈ n0.inputs := by rw [hin0]; simp
            have hmx : mentionsTop n x = true := mentions_of_input (by rw [hxin]; simp)
            have hmw : mentionsTop n w = true := mentions_of_input (by rw [hxin]; simp)
            have hox : o ≠ x := substNe x0 x o hsx hx0in hout0 (hneo x0 hx0in)
            have how : o ≠ w := substNe w0 w o hsw hw0in hout0 (hneo w0 hw0in)
            have hD0 := hD.sameIS hspec2
            -- the two operands, now and at the end
            have hargs : ∃ vx vw, ρ x = some vx ∧ ρ w = some vw := by
              simp only [evalNode, hxin, lookupAll, lookupIn] at he1
              cases hx : ρ x with
              | none => simp [hx] at he1
              | some vx =>
                cases hw : ρ w with
                | none => simp [hx, hw] at he1
                | some vw => exact ⟨vx, vw, rfl, rfl⟩
            obtain ⟨vx, vw, hvx, hvw⟩ := hargs
            have hfinx : ρf x = some vx := by rw [hfin1 x hmx, evalNode_get_other sem he1 (by rw [hno]; simp; exact hox.symm), hvx]
            have hfinw : ρf w = some vw := by rw [hfin1 w hmw, evalNode_get_other sem he1 (by rw [hno]; simp; exact how.symm), hvw]
            have hla : lookupAll ρ n.inputs = some [some vx, some vw] := by
              simp [hxin, lookupAll, lookupIn, hvx, hvw]
            rcases evalPartial_castlike st0 n v x w hnop hndom hxin with ⟨st2, hep, his2⟩ | ⟨st2, dw, hep, his2, hdw0, hdw, hdx⟩ | ⟨st2, dw, hep, his2, hdw0, hdw⟩
            · simp only [hep, finishNode]
              exact cascade st2 v (fun y => by rw [his2.constOf, hspec2.constOf])
                (fun x' s hx => Or.inl (by rw [his2.2, hspec2.2] at hx; exact hx)) (hD0.sameIS his2)
            · simp only [hep, finishNode]
              have hcl := L.castlike_is_cast vx vw dw (hD0.1 w vw dw hfinw hdw)
              have hsame := L.cast_same [("to", Attr.int dw)] vx dw (hD0.1 x vx dw hfinx hdx) rfl
              exact idCase o x st2 hno hmx hox his2
                (evalNode_first_input sem sub ρ ρ1 n x o [some w] hnsubs hnc' hxin hno
                  (fun u args vs hu hargs hop' => by
                    have hargs' : args = [some vw] := by
                      simp [lookupAll, lookupIn, hvw] at hargs
                      exact hargs.symm
                    rw [hvx] at hu
                    have huv : vx = u := Option.some.inj hu
                    subst huv
                    rw [hargs', hnop, hndom, hnattrs, hcl, hsame] at hop'
                    rw [← Option.some.inj hop']; rfl) (hid []) he1)
            · simp only [hep, finishNode]
              have hcl := L.castlike_is_cast vx vw dw (hD0.1 w vw dw hfinw hdw)
              have hmm : ∀ y, mentionsTop (mkNode "Cast" [some x] [o] [("to", Attr.int dw)]) y = true → mentionsTop n y = true := by
                intro y hy
                have : y = x ∨ y = o := by
                  simpa [mentionsTop, mkNode, Node.inputs, Node.outputs] using hy
                rcases this with rfl | rfl
                · exact hmx
                · exact mentions_of_output (by rw [hno]; simp)
              have hmc : (mkNode "Cast" [some x] [o] [("to", Attr.int dw)]).isOp "Constant" = false := by
                simp [Node.isOp, mkNode, Node.op]
              refine replCase o x "Cast" [("to", Attr.int dw)] st2 hno hmx his2 ?_ ?_
              · refine ⟨⟨rfl, rfl, Or.inr (Or.inr (Or.inr (Or.inr (Or.inl ⟨rfl, rfl, x, o, rfl, rfl, ?_, ?_⟩))))⟩, ?_⟩
                · intro y hy
                  have : y = x := by simpa [mkNode, Node.inputs] using hy
                  rw [this]; exact hox.symm
                · intro h
                  have : intAttr (mkNode "Cast" [some x] [o] [("to", Attr.int dw)]) "to" none = some (dw : Int) := by
                    simp [intAttr, Node.attr, mkNode, Node.attrs]
                  rw [this] at h
                  have : (dw : Int) = 0 := Option.some.inj h
                  exact hdw0 (by exact_mod_cast this)
                · intro h; rw [hmc] at h; exact absurd h (by decide)
              · rw [← he1]
                apply evalNode_congr_op sem sub ρ n _ hnsubs rfl hnc' hmc (by rw [hno]; rfl) [some vx, some vw] [some vx] hla
                  (by simp [mkNode, Node.inputs, lookupAll, lookupIn, hvx])
                show sem.op "Cast" "" [("to", Attr.int dw)] [some vx] = sem.op n.op n.domain n.attrs [some vx, some vw]
                rw [hnop, hndom, hnattrs, hcl]

/-! ### graph level -/

theorem replaceOutputs_alias {ρf : Env V} (nodes : List Node) : ∀ (outs : List Name) (st : St), AliasOK st ρf →
    lookupOuts ρf (replaceOutputs st nodes outs).2 = lookupOuts ρf outs
  | [], _, _ => rfl
  | o :: rest, st, h => by
    simp only [replaceOutputs]
    split
    · rename_i y hy
      have hyo : ρf o = ρf y := h o y (by simpa [St.getSym] using hy)
      split
      · simp only [lookupOuts]
        rw [replaceOutputs_alias nodes rest (st.note "out:noproducer") h]
      · split
        · simp only [lookupOuts]
          rw [replaceOutputs_alias nodes rest (st.note "out:alreadyoutput") h]
        · simp only [lookupOuts]
          have ih := replaceOutputs_alias (ρf := ρf) nodes rest
            ({ st with gouts := y :: st.gouts.erase o, modified := true }.note "out:replaced") h
          simp only [St.note] at ih ⊢
          rw [ih, hyo]
    · simp only [lookupOuts]
      rw [replaceOutputs_alias nodes rest st h]

/-- well-formedness of fragment-A graphs (one level) -/
structure FragAWF (sem : Sem V) (ctx : Ctx) (g : Graph) : Prop where
  nodes : ∀ n ∈ g.nodes, FragA n ∧ (n.isOp "Constant" = true → ConstMarkSound sem ctx n)
  order : orderOK g.nodes = true
  outs_fresh : ∀ n ∈ g.nodes, ∀ o, n.outputs.contains o = true → g.inputs.contains o = false
  nf : ∀ n ∈ g.nodes, NodeNF n

/-- the element-type annotations handed to the pass are truthful for this execution, and none is about a name `%k` -/
def AnnotSound {sem : Sem V} (L : OpLaws sem) (d : Nat) (outer : Env V) (g : Graph) (args : List (Option V))
    (info : List (Name × VInfo)) : Prop :=
  ∀ ρ0 ρf, startEnv sem outer g args = some ρ0 → evalNodes (evalNode sem (evalGraph sem d)) ρ0 g.nodes = some ρf →
    (∀ x v dt, ρf x = some v → ((lookupA info x).getD {}).dtype = some dt → L.hasDtype v dt) ∧
    (∀ x dt, ((lookupA info x).getD {}).dtype = some dt → NF x)

/-- **End-to-end on fragment A, before `_clear_unused_initializers` is applied.** -/
theorem visitGraph_fragmentA (sem : Sem V) (ctx : Ctx) (hnf : ctx.isFunction = false) (hor : OracleSound sem ctx)
    (hid : IdentityLaw sem) (hrl : ReplLaws sem) (L : OpLaws sem) (hct : CastTyped L) (hot : OracleTyped L ctx)
    (info : List (Name × VInfo)) (g : Graph) (hwf : FragAWF sem ctx g)
    (hcmt : ∀ n ∈ g.nodes, n.isOp "Constant" = true → ConstMarkTyped L ctx n) (d k : Nat)
    (outer : Env V) (args : List (Option V)) (hinfo : ConstInfoSound sem outer g args info)
    (hinfoNF : ∀ x c, ((lookupA info x).getD {}).const = some c → NF x)
    (hann : AnnotSound L d outer g args info) (vs : List V)
    (he : evalGraph sem (d + 1) outer g args = some vs) :
    evalGraph sem (d + 1) outer (visitGraph ctx (k + 1) (initialState g info) g).2 args = some vs ∧
    ∃ inits' new outs, (visitGraph ctx (k + 1) (initialState g info) g).2 = Graph.mk g.inputs inits' new outs ∧
      ∀ m ∈ new, m.subs = [] := by
  obtain ⟨hsym0, hinfo0⟩ := initialState_sym g info
  simp only [evalGraph] at he
  cases hs : startEnv sem outer g args with
  | none => simp [hs] at he
  | some ρ0 =>
    simp only [hs, Option.bind] at he
    cases hn : evalNodes (evalNode sem (evalGraph sem d)) ρ0 g.nodes with
    | none => simp [hn] at he
    | some ρf =>
      simp only [hn] at he
      have hI : Inv2 sem (initialState g info) ρ0 g.nodes := by
        refine ⟨?_, ?_, ?_, ?_, ?_, ?_, ?_⟩
        · intro x s hx; rw [hsym0] at hx; simp [lookupA] at hx
        · intro x y hx; rw [hsym0] at hx; simp [lookupA] at hx
        · intro x y hx; rw [hsym0] at hx; simp [lookupA] at hx
        · intro x c hx
          simp only [St.constOf, St.getInfo, hinfo0] at hx
          exact hinfo.start ρ0 hs x c hx
        · intro x c hx m hm
          simp only [St.constOf, St.getInfo, hinfo0] at hx
          exact hinfo.notOutput x c hx m hm
        · intro x y hx; rw [hsym0] at hx; simp [lookupA] at hx
        · intro x c hx
          simp only [St.constOf, St.getInfo, hinfo0] at hx
          exact hinfoNF x c hx
      have hD : DtOK L (initialState g info) ρf := by
        obtain ⟨a1, a2⟩ := hann ρ0 ρf hs hn
        refine ⟨?_, ?_⟩
        · intro x v dt hv hd
          simp only [St.getInfo, hinfo0] at hd
          exact a1 x v dt hv hd
        · intro x dt hd
          simp only [St.getInfo, hinfo0] at hd
          exact a2 x dt hd
      obtain ⟨new, added, h1, h2, h3, h4, h5, h6⟩ := visitNodes_simA sem ctx hnf hor hid hrl L hct hot (evalGraph sem d) (visitGraph ctx k)
        (stepFuel g + 16 * (initialState g info).uses.length) g.nodes (initialState g info) [] [] ρ0 ρf
        hwf.nodes hwf.nf hcmt hwf.order hI hD hn
      simp only [List.reverse_nil, List.nil_append] at h1 h2
      have hres : ∃ outs, (visitGraph ctx (k + 1) (initialState g info) g).2 = Graph.mk g.inputs (g.inits ++ added) new outs ∧
          lookupOuts ρf outs = lookupOuts ρf g.outputs := by
        simp only [visitGraph]
        split
        · exact ⟨_, by rw [h1, h2], rfl⟩
        · rename_i herr
          have hal : AliasOK (visitNodes ctx (visitGraph ctx k) (stepFuel g + 16 * (initialState g info).uses.length)
              (initialState g info) g.nodes [] []).1 ρf := by
            rcases h5 with h | h
            · exact absurd h herr
            · exact h
          exact ⟨_, by rw [h1, h2], replaceOutputs_alias _ _ _ hal⟩
      obtain ⟨outs, hg', houts⟩ := hres
      refine ⟨?_, g.inits ++ added, new, outs, hg', h6⟩
      rw [hg']
      have hadd_in : ∀ p ∈ added, g.inputs.contains p.1 = false := by
        intro p hp
        obtain ⟨m, hm, hmo⟩ := h3 p hp
        exact hwf.outs_fresh m hm p.1 hmo
      have hgeq : g = Graph.mk g.inputs g.inits g.nodes g.outputs := by cases g; rfl
      have hstart : startEnv sem outer (Graph.mk g.inputs (g.inits ++ added) new outs) args =
          some (bindInits sem ρ0 added) := by
        rw [hgeq] at hs
        exact startEnv_added sem outer g.inputs g.inits added g.nodes new g.outputs outs args ρ0 hs hadd_in
      show ((startEnv sem outer (Graph.mk g.inputs (g.inits ++ added) new outs) args).bind fun ρ0 =>
        (evalNodes (evalNode sem (evalGraph sem d)) ρ0 (Graph.mk g.inputs (g.inits ++ added) new outs).nodes).bind fun ρ =>
          lookupOuts ρ (Graph.mk g.inputs (g.inits ++ added) new outs).outputs) = some vs
      rw [hstart]
      show ((evalNodes (evalNode sem (evalGraph sem d)) (bindInits sem ρ0 added) new).bind fun ρ => lookupOuts ρ outs) = some vs
      rw [h4]
      show lookupOuts ρf outs = some vs
      rw [houts]
      exact he

/-- **End to end on fragment A**, `_clear_unused_initializers` included, given that what it popped is
unreferenced in the result (`hprune`: decidable on the result; the driver evaluates it on every case). -/
theorem foldGraph_fragmentA (sem : Sem V) (ctx : Ctx) (hnf : ctx.isFunction = false) (hor : OracleSound sem ctx)
    (hid : IdentityLaw sem) (hrl : ReplLaws sem) (L : OpLaws sem) (hct : CastTyped L) (hot : OracleTyped L ctx)
    (info : List (Name × VInfo)) (g : Graph) (hwf : FragAWF sem ctx g)
    (hcmt : ∀ n ∈ g.nodes, n.isOp "Constant" = true → ConstMarkTyped L ctx n) (d : Nat)
    (outer : Env V) (args : List (Option V)) (hinfo : ConstInfoSound sem outer g args info)
    (hinfoNF : ∀ x c, ((lookupA info x).getD {}).const = some c → NF x)
    (hann : AnnotSound L d outer g args info) (vs : List V)
    (hprune : ∀ x, (foldGraph ctx info g).1.removed.contains x = true →
      g.inputs.contains x = false ∧
      (visitGraph ctx maxDepth (initialState g info) g).2.outputs.contains x = false ∧
      ∀ n ∈ (visitGraph ctx maxDepth (initialState g info) g).2.nodes, n.inputs.contains (some x) = false)
    (he : evalGraph sem (d + 1) outer g args = some vs) :
    evalGraph sem (d + 1) outer (foldGraph ctx info g).2 args = some vs := by
  obtain ⟨hev, inits', new, outs, hshape, hplain⟩ := visitGraph_fragmentA sem ctx hnf hor hid hrl L hct hot info g hwf hcmt d 7 outer args hinfo hinfoNF hann vs he
  have hmd : maxDepth = 7 + 1 := rfl
  simp only [foldGraph] at hprune ⊢
  rw [hmd] at hprune ⊢
  rw [hshape] at hev hprune ⊢
  rw [pruneInits_plain _ 7 _ _ _ _ hplain]
  rw [prune_sound sem _ g.inputs inits' new outs d outer args hplain]
  · exact hev
  · intro x hx
    cases hc : (visitGraph ctx (7 + 1) (initialState g info) g).1.removed.contains x with
    | false => rfl
    | true =>
      have := (hprune x hc).1
      rw [List.contains_iff_mem.mpr hx] at this
      exact absurd this (by decide)
  · intro x hx
    cases hc : (visitGraph ctx (7 + 1) (initialState g info) g).1.removed.contains x with
    | false => rfl
    | true =>
      have := (hprune x hc).2.1
      simp only [Graph.outputs] at this
      rw [List.contains_iff_mem.mpr hx] at this
      exact absurd this (by decide)
  · intro n hn x hx
    cases hc : (visitGraph ctx (7 + 1) (initialState g info) g).1.removed.contains x with
    | false => rfl
    | true =>
      have := (hprune x hc).2.2 n (by simpa [Graph.nodes] using hn)
      rw [List.contains_iff_mem.mpr hx] at this
      exact absurd this (by decide)

/-! ### `ConstMarkSound` from token coherence -/

/-- the constant tokens the pass attributes to `Constant` nodes denote what the attributes denote -/
structure TokCoherent (sem : Sem V) (ctx : Ctx) : Prop where
  tensor : ∀ t c, lookupTok ctx t = some c → sem.tensor c.tok = sem.tensor t
  ints : ∀ l, sem.tensor ("ints:" ++ showInts l) = sem.intsTensor l
  int : ∀ i : Int, sem.tensor ("int:" ++ toString i) = sem.intTensor i

/-- `ConstMarkSound` holds of every `Constant` node in one of the three forms the semantics interprets
(`value`, `value_ints`, `value_int`) as soon as the tokens are coherent. -/
theorem constMarkSound_of_coherent (sem : Sem V) (ctx : Ctx) (hco : TokCoherent sem ctx) (o : Name) (a : String × Attr)
    (ha : (∃ t, a = ("value", .tensor t)) ∨ (∃ l, a = ("value_ints", .ints l)) ∨ (∃ i, a = ("value_int", .int i))) :
    ConstMarkSound sem ctx (.mk "Constant" "" [] [o] [a] []) := by
  intro sub st0 x c ρ ρ1 hold hc hxo hev
  have hx : x = o := by simpa [Node.outputs] using hxo
  subst hx
  have hev' : ∀ (w : V), constDenote sem (.mk "Constant" "" [] [x] [a] []) = some w → ρ1 = ρ.set x w := by
    intro w hw
    simp only [evalNode, Node.inputs, lookupAll, Option.bind, nodeOutputs, Node.subs, List.isEmpty_nil, if_true, hw,
      Node.outputs, bindOuts, Option.some.injEq] at hev
    exact hev.symm
  rcases ha with ⟨t, rfl⟩ | ⟨l, rfl⟩ | ⟨i, rfl⟩
  · rw [hev' (sem.tensor t) rfl, Env.set_get_same]
    cases hl : lookupTok ctx t with
    | none =>
      simp [processConstant, Node.isOp, Node.isOnnxDomain, Node.op, Node.domain, Node.subs, Node.attrs, Node.outputs, hl] at hc
      rw [hold] at hc
      exact absurd hc (by simp)
    | some c0 =>
      simp [processConstant, Node.isOp, Node.isOnnxDomain, Node.op, Node.domain, Node.subs, Node.attrs, Node.outputs, hl,
        constOf_setInfo] at hc
      rw [← hc, hco.tensor t c0 hl]
  · rw [hev' (sem.intsTensor l) rfl, Env.set_get_same]
    simp [processConstant, Node.isOp, Node.isOnnxDomain, Node.op, Node.domain, Node.subs, Node.attrs, Node.outputs,
      constOf_setInfo] at hc
    rw [← hc]
    exact congrArg some (hco.ints l).symm
  · rw [hev' (sem.intTensor i) rfl, Env.set_get_same]
    simp [processConstant, Node.isOp, Node.isOnnxDomain, Node.op, Node.domain, Node.subs, Node.attrs, Node.outputs,
      constOf_setInfo] at hc
    rw [← hc]
    exact congrArg some (hco.int i).symm

/-! ### the decidable classifier `fragAWFB` (OV/Model/C03Frag.lean) is sound -/

theorem lookupEvaluator_none_of_100 (n : Node) (h : (lookupEvaluator n 100).isNone = true) : ∀ v, lookupEvaluator n v = none := by
  intro v
  unfold lookupEvaluator at h ⊢
  split
  · rfl
  · rename_i hd
    simp only [hd, if_false] at h
    split <;> first | rfl | (simp_all)

theorem io1_some {n : Node} {x o : Name} (h : io1 n = some (x, o)) : n.inputs = [some x] ∧ n.outputs = [o] := by
  unfold io1 at h
  split at h
  · rename_i x' o' hi ho
    simp only [Option.some.injEq, Prod.mk.injEq] at h
    rw [hi, ho, h.1, h.2]
    exact ⟨rfl, rfl⟩
  · simp at h

/-- the decidable classifier is sound for the node classes of fragment A -/
theorem nodeFragAB_sound (n : Node) (h : nodeFragAB n = true) : FragA n := by
  unfold nodeFragAB at h
  simp only [Bool.and_eq_true, Bool.or_eq_true, Bool.not_eq_true', List.isEmpty_iff, beq_iff_eq, bne_iff_ne, ne_eq] at h
  obtain ⟨⟨hsubs, href⟩, hcls⟩ := h
  refine ⟨hsubs, href, ?_⟩
  rcases hcls with ((((hP | hK) | hI) | hR) | hC) | hCL
  · exact Or.inl ⟨hP.1, lookupEvaluator_none_of_100 n hP.2⟩
  · refine Or.inr (Or.inl ⟨hK.1.1, hK.1.2, ?_⟩)
    have hl := hK.2
    cases ho : n.outputs with
    | nil => simp [ho] at hl
    | cons o r =>
      cases r with
      | nil => exact ⟨o, rfl⟩
      | cons b r' => simp [ho] at hl
  · obtain ⟨⟨hop, hdom⟩, hio⟩ := hI
    cases hio1 : io1 n with
    | none => simp [hio1] at hio
    | some p =>
      obtain ⟨x, o⟩ := p
      simp only [hio1] at hio
      obtain ⟨hi, ho⟩ := io1_some hio1
      exact Or.inr (Or.inr (Or.inl ⟨hop, hdom, x, o, hi, ho, by simpa using hio⟩))
  · obtain ⟨hdom, hrest⟩ := hR
    cases ho : n.outputs with
    | nil => simp [ho] at hrest
    | cons o r =>
      cases r with
      | cons b r' => simp [ho] at hrest
      | nil =>
        simp only [ho, Bool.and_eq_true, List.all_eq_true, Bool.or_eq_true, beq_iff_eq, bne_iff_ne, ne_eq] at hrest
        obtain ⟨hne, hkind⟩ := hrest
        have hne' : ∀ y, some y ∈ n.inputs → y ≠ o := fun y hy e => hne (some y) hy (by rw [e])
        rcases hkind with ⟨hop, hin⟩ | ⟨hop, hin⟩
        · cases hi : n.inputs with
          | nil => simp [hi] at hin
          | cons a r =>
            cases a with
            | none => simp [hi] at hin
            | some x =>
              cases r with
              | nil => exact Or.inr (Or.inr (Or.inr (Or.inl ⟨hdom, x, o, ho, hne', Or.inl ⟨hop, hi⟩⟩)))
              | cons b r' => simp [hi] at hin
        · cases hi : n.inputs with
          | nil => simp [hi] at hin
          | cons a tl =>
            cases a with
            | none => simp [hi] at hin
            | some x =>
              simp only [hi, decide_eq_true_eq] at hin
              exact Or.inr (Or.inr (Or.inr (Or.inl ⟨hdom, x, o, ho, hne', Or.inr ⟨hop, tl, hi, hin⟩⟩)))
  · obtain ⟨⟨⟨hop, hdom⟩, hio⟩, hto⟩ := hC
    cases hio1 : io1 n with
    | none => simp [hio1] at hio
    | some p =>
      obtain ⟨x, o⟩ := p
      simp only [hio1] at hio
      obtain ⟨hi, ho⟩ := io1_some hio1
      refine Or.inr (Or.inr (Or.inr (Or.inr (Or.inl ⟨hop, hdom, x, o, hi, ho, ?_, hto⟩))))
      intro y hy e
      rw [hi] at hy
      have : y = x := by simpa using hy
      have hox : ¬ o = x := by simpa using hio
      exact hox (by rw [← e, this])
  · obtain ⟨⟨⟨hop, hdom⟩, hattrs⟩, hio⟩ := hCL
    cases hi : n.inputs with
    | nil => simp [hi] at hio
    | cons a r =>
      cases a with
      | none => simp [hi] at hio
      | some x =>
        cases r with
        | nil => simp [hi] at hio
        | cons b r2 =>
          cases b with
          | none => simp [hi] at hio
          | some w =>
            cases r2 with
            | cons c r3 => simp [hi] at hio
            | nil =>
              cases ho : n.outputs with
              | nil => simp [hi, ho] at hio
              | cons o r' =>
                cases r' with
                | cons b' r'' => simp [hi, ho] at hio
                | nil =>
                  simp only [hi, ho, Bool.and_eq_true, bne_iff_ne, ne_eq] at hio
                  refine Or.inr (Or.inr (Or.inr (Or.inr (Or.inr ⟨hop, hdom, hattrs, x, w, o, hi, ho, ?_⟩))))
                  intro y hy e
                  rw [hi] at hy
                  have : y = x ∨ y = w := by simpa using hy
                  rcases this with rfl | rfl
                  · exact hio.1 e.symm
                  · exact hio.2 e.symm

theorem nameOKB_nf {y : Name} (h : nameOKB y = true) : NF y := by
  intro k e
  have : y.toList.head? = some '%' := by
    rw [e]; simp [String.toList_append]
  simp [nameOKB, this] at h

theorem fragAWFB_sound (g : Graph) (h : fragAWFB g = true) :
    (∀ n ∈ g.nodes, FragA n) ∧ orderOK g.nodes = true ∧
    (∀ n ∈ g.nodes, ∀ o, n.outputs.contains o = true → g.inputs.contains o = false) ∧ (∀ n ∈ g.nodes, NodeNF n) ∧
    (∀ k : Nat, cnt ("%" ++ toString k) g.nodes = 0) := by
  unfold fragAWFB at h
  simp only [Bool.and_eq_true, List.all_eq_true] at h
  obtain ⟨⟨⟨h1, h2⟩, h3⟩, h4⟩ := h
  have hnf : ∀ n ∈ g.nodes, NodeNF n := by
    intro n hn y hy
    have := h4 n hn
    simp only [nodeNamesOKB, Bool.and_eq_true, List.all_eq_true] at this
    simp only [mentionsTop, Bool.or_eq_true, List.contains_iff_mem] at hy
    rcases hy with hy | hy
    · exact nameOKB_nf (this.1 (some y) hy)
    · exact nameOKB_nf (this.2 y hy)
  refine ⟨fun n hn => nodeFragAB_sound n (h1 n hn), h2, ?_, hnf, ?_⟩
  · intro n hn o ho
    have := h3 n hn o (by simpa using ho)
    simpa using this
  · intro k
    unfold cnt
    apply List.count_eq_zero.mpr
    intro hmem
    obtain ⟨n, hn, hx⟩ := List.mem_flatMap.mp hmem
    exact hnf n hn _ (mentions_of_input hx) k rfl

theorem lookupA_mem {α} {l : List (Name × α)} {x : Name} {v : α} (h : lookupA l x = some v) : (x, v) ∈ l := by
  unfold lookupA at h
  cases hf : l.find? (fun p => p.1 == x) with
  | none => simp [hf] at h
  | some p =>
    simp only [hf, Option.map_some, Option.some.injEq] at h
    have hm := List.mem_of_find?_eq_some hf
    have hp := List.find?_some hf
    have : p.1 = x := by simpa using hp
    have : p = (x, v) := by cases p; simp_all
    rw [← this]; exact hm

theorem infoOKB_sound (info : List (Name × VInfo)) (g : Graph) (h : infoOKB info g = true) :
    (∀ x c, ((lookupA info x).getD {}).const = some c → NF x) ∧
    (∀ x c, ((lookupA info x).getD {}).const = some c → ∀ m ∈ g.nodes, m.outputs.contains x = false) ∧
    (∀ x dt, ((lookupA info x).getD {}).dtype = some dt → NF x) := by
  unfold infoOKB at h
  simp only [List.all_eq_true, Bool.and_eq_true, Bool.or_eq_true] at h
  have key : ∀ x, ∀ vi, lookupA info x = some vi → _ := fun x vi hl => h (x, vi) (lookupA_mem hl)
  refine ⟨?_, ?_, ?_⟩
  · intro x c hc
    cases hl : lookupA info x with
    | none => simp [hl] at hc
    | some vi =>
      simp only [hl, Option.getD_some] at hc
      rcases (key x vi hl).1 with h1 | h1
      · simp [hc] at h1
      · exact nameOKB_nf h1.1
  · intro x c hc m hm
    cases hl : lookupA info x with
    | none => simp [hl] at hc
    | some vi =>
      simp only [hl, Option.getD_some] at hc
      rcases (key x vi hl).1 with h1 | h1
      · simp [hc] at h1
      · have := h1.2 m hm
        simpa using this
  · intro x dt hd
    cases hl : lookupA info x with
    | none => simp [hl] at hd
    | some vi =>
      simp only [hl, Option.getD_some] at hd
      rcases (key x vi hl).2 with h1 | h1
      · simp [hd] at h1
      · exact nameOKB_nf h1

/-! ### `ConstMarkTyped` from typed tokens -/

/-- the constants `_process_constant_node` recognises carry their true element type -/
structure TokTyped {sem : Sem V} (L : OpLaws sem) (ctx : Ctx) : Prop where
  tensor : ∀ t c, lookupTok ctx t = some c → L.hasDtype (sem.tensor t) c.dtype
  ints : ∀ l, L.hasDtype (sem.intsTensor l) DT_INT64
  int : ∀ i : Int, L.hasDtype (sem.intTensor i) DT_INT64

/-- `ConstMarkTyped` holds of every `Constant` node in one of the three forms the semantics interprets -/
theorem constMarkTyped_of_typed {sem : Sem V} (L : OpLaws sem) (ctx : Ctx) (hty : TokTyped L ctx) (o : Name) (a : String × Attr)
    (ha : (∃ t, a = ("value", .tensor t)) ∨ (∃ l, a = ("value_ints", .ints l)) ∨ (∃ i, a = ("value_int", .int i))) :
    ConstMarkTyped L ctx (.mk "Constant" "" [] [o] [a] []) := by
  intro sub st0 x dt ρ ρ1 v hch hdt hev hv
  have hxo : x = o := by
    rcases processConstant_info ctx st0 (.mk "Constant" "" [] [o] [a] []) x with h | h
    · exact absurd h hch
    · simpa [Node.outputs] using h
  subst hxo
  have hev' : ∀ (w : V), constDenote sem (.mk "Constant" "" [] [x] [a] []) = some w → v = w := by
    intro w hw
    simp only [evalNode, Node.inputs, lookupAll, Option.bind, nodeOutputs, Node.subs, List.isEmpty_nil, if_true, hw,
      Node.outputs, bindOuts, Option.some.injEq] at hev
    rw [← hev, Env.set_get_same] at hv
    exact (Option.some.inj hv).symm
  rcases ha with ⟨t, rfl⟩ | ⟨l, rfl⟩ | ⟨i, rfl⟩
  · rw [hev' (sem.tensor t) rfl]
    cases hl : lookupTok ctx t with
    | none =>
      exfalso
      apply hch
      simp [processConstant, Node.isOp, Node.isOnnxDomain, Node.op, Node.domain, Node.subs, Node.attrs, Node.outputs, hl]
    | some c0 =>
      simp [processConstant, Node.isOp, Node.isOnnxDomain, Node.op, Node.domain, Node.subs, Node.attrs, Node.outputs, hl,
        getInfo_setInfo] at hdt
      rw [← hdt]
      exact hty.tensor t c0 hl
  · rw [hev' (sem.intsTensor l) rfl]
    simp [processConstant, Node.isOp, Node.isOnnxDomain, Node.op, Node.domain, Node.subs, Node.attrs, Node.outputs,
      getInfo_setInfo] at hdt
    rw [← hdt]
    exact hty.ints l
  · rw [hev' (sem.intTensor i) rfl]
    simp [processConstant, Node.isOp, Node.isOnnxDomain, Node.op, Node.domain, Node.subs, Node.attrs, Node.outputs,
      getInfo_setInfo] at hdt
    rw [← hdt]
    exact hty.int i

end OV.C03
