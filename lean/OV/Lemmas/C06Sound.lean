import OV.Model.C06Spec
/-!
  C06 — lemmas for soundness of the transcribed matcher on OR-free patterns.
  Without OR patterns the partial-match stack stays a singleton `[c]`; the assignment read
  off `c` (`assignOf`) grows monotonically and everything matched so far stays satisfied.
-/
namespace OV.C06

/-! ## OR-free patterns, topological order -/

def VPat.noOr : VPat → Bool
  | .orD .. => false
  | .orB .. => false
  | _ => true

def NPat.noOr (n : NPat) : Bool := n.inputs.all (fun i => match i with | some v => v.noOr | none => true)

/-- no `OrValue` anywhere in the pattern -/
def GPat.noOr (p : GPat) : Bool := p.nodes.all NPat.noOr && p.outputs.all VPat.noOr

/-- no BacktrackingOr anywhere in the value pattern, and every OpIdDispatchOr has no tag variable
(dispatch on the producer's operator identifier needs no backtracking) -/
def VPat.dispOk : VPat → Bool
  | .orD _ _ tagVar _ => tagVar.isNone
  | .orB .. => false
  | _ => true

def NPat.dispOk (n : NPat) : Bool := n.inputs.all (fun i => match i with | some v => v.dispOk | none => true)

/-- every `OrValue` of the pattern is an `OpIdDispatchOr` (without tag variable) -/
def GPat.dispOk (p : GPat) : Bool := p.nodes.all NPat.dispOk

mutual
/-- node patterns a value pattern refers to (through OR alternatives too) -/
def VPat.refs : VPat → List NPId
  | .out q _ => [q]
  | .orD _ _ _ alts => alts.map (·.np)
  | .orB _ _ _ _ alts => refsL alts
  | _ => []
def refsL : List VPat → List NPId
  | [] => []
  | a :: rest => a.refs ++ refsL rest
end

/-- node patterns only refer (also inside OR alternatives) to node patterns created before them -/
def GPat.topoDeep (p : GPat) : Prop :=
  ∀ (np : NPId) (P : NPat), p.nodes[np]? = some P → ∀ vp : VPat, some vp ∈ P.inputs → ∀ q ∈ vp.refs, q < np

/-- node patterns only refer to node patterns created before them (always true for patterns
written with the builder API: inputs exist before the node is constructed) -/
def GPat.topo (p : GPat) : Prop :=
  ∀ np P, p.nodes[np]? = some P → ∀ q idx, some (VPat.out q idx) ∈ P.inputs → q < np

/-- no pattern node asks for more outputs than a host node it locally matches has
(excludes finding C06-F1) -/
def OutputArityOk (p : GPat) (g : Graph) : Prop :=
  ∀ P ∈ p.nodes, ∀ N ∈ g.nodes, P.op.matches N.op = true → P.domain.matches N.domain = true →
    P.outputs.length ≤ N.outputs.length

/-! ## The assignment carried by a partial match -/

def assignOf (c : Partial) : Assign :=
  { names := fun k => c.bindings.lookup k
    node := fun np => c.nb.lookup np
    leaf := fun k => c.vb.lookup k }

structure Le (c c' : Partial) : Prop where
  b : ∀ k x, c.bindings.lookup k = some x → c'.bindings.lookup k = some x
  v : ∀ k x, c.vb.lookup k = some x → c'.vb.lookup k = some x
  n : ∀ k x, c.nb.lookup k = some x → c'.nb.lookup k = some x
  /-- the success flag is never set back to `True` -/
  ok : c'.ok = true → c.ok = true := by first | exact id | exact (fun h => Bool.noConfusion h) | (intro h; simpa using h)

theorem Le.refl (c : Partial) : Le c c := ⟨fun _ _ h => h, fun _ _ h => h, fun _ _ h => h, id⟩

theorem Le.trans {a b c : Partial} (h1 : Le a b) (h2 : Le b c) : Le a c :=
  ⟨fun k x h => h2.b k x (h1.b k x h), fun k x h => h2.v k x (h1.v k x h),
   fun k x h => h2.n k x (h1.n k x h), fun h => h1.ok (h2.ok h)⟩

/-- assignment order -/
structure ALe (A A' : Assign) : Prop where
  names : ∀ k x, A.names k = some x → A'.names k = some x
  node : ∀ k x, A.node k = some x → A'.node k = some x
  leaf : ∀ k x, A.leaf k = some x → A'.leaf k = some x

theorem Le.toALe {c c' : Partial} (h : Le c c') : ALe (assignOf c) (assignOf c') :=
  ⟨h.b, h.n, h.v⟩

theorem boundTo_mono {A A' : Assign} (h : ALe A A') (p : GPat) (vp : VPat) (v : Option ValueId) :
    A.boundTo p vp v → A'.boundTo p vp v := by
  unfold Assign.boundTo
  split
  · exact h.names _ _
  · split
    · exact h.leaf _ _
    · exact id

theorem attrsSat_mono {A A' : Assign} (h : ALe A A') (P : NPat) (N : GNode) :
    attrsSat A P N → attrsSat A' P N := by
  intro hs
  refine ⟨fun name ap hm => ⟨(hs.1 name ap hm).1, fun nm hn => h.names _ _ ((hs.1 name ap hm).2 nm hn)⟩, hs.2⟩

mutual
theorem satV_mono {E : Env} {A A' : Assign} (h : ALe A A') :
    ∀ {vp : VPat} {v : Option ValueId}, SatV E A vp v → SatV E A' vp v
  | _, _, .any v => .any v
  | _, _, .var id name isVar canNone check v hb h1 h2 =>
    .var id name isVar canNone check v (boundTo_mono h _ _ _ hb) h1 h2
  | _, _, .const id c x cv hb h1 h2 => .const id c x cv (boundTo_mono h _ _ _ hb) h1 h2
  | _, _, .out np idx x n hb hf hp hi hn =>
    .out np idx x n (boundTo_mono h _ _ _ hb) hf hp hi (satN_mono h hn)
  | _, _, .orD id name tagVar alts x a hb hf hd hs ht =>
    .orD id name tagVar alts x a (boundTo_mono h _ _ _ hb) hf hd (satV_mono h hs)
      (fun t e => h.names _ _ (ht t e))
  | _, _, .orB id name tagVar tags alts v i alt hb hf ha hs ht =>
    .orB id name tagVar tags alts v i alt (boundTo_mono h _ _ _ hb) hf ha (satV_mono h hs)
      (fun t e => h.names _ _ (ht t e))
theorem satN_mono {E : Env} {A A' : Assign} (h : ALe A A') :
    ∀ {np : NPId} {n : NodeId}, SatN E A np n → SatN E A' np n
  | _, _, .mk np n P N h1 h2 h3 h4 h5 h6 h7 h8 h9 h10 =>
    .mk np n P N h1 h2 (h.node _ _ h3) h4 h5 (attrsSat_mono h P N h6) h7 h8
      (fun i vp e => satV_mono h (h9 i vp e))
      (fun i hi => let ⟨x, e1, e2⟩ := h10 i hi; ⟨x, e1, boundTo_mono h _ _ _ e2⟩)
end

/-! ## Singleton stacks -/

@[simp] theorem lookupBinding_single (c : Partial) (k : String) :
    lookupBinding [c] k = c.bindings.lookup k := by simp [lookupBinding]
@[simp] theorem lookupVB_single (c : Partial) (k : VKey) : lookupVB [c] k = c.vb.lookup k := by
  simp [lookupVB]
@[simp] theorem lookupNode_single (c : Partial) (k : NPId) : lookupNode [c] k = c.nb.lookup k := by
  simp [lookupNode]

theorem lookup_snoc_self {α β} [BEq α] [LawfulBEq α] (l : List (α × β)) (k : α) (b : β)
    (h : l.lookup k = none) : (l ++ [(k, b)]).lookup k = some b := by
  simp [List.lookup_append, h, List.lookup]

theorem lookup_snoc_of_some {α β} [BEq α] (l : List (α × β)) (k k' : α) (b x : β)
    (h : l.lookup k' = some x) : (l ++ [(k, b)]).lookup k' = some x := by
  simp [List.lookup_append, h]

/-- `c'` extends `c` without touching matched nodes / node bindings -/
structure Ext (c c' : Partial) : Prop where
  le : Le c c'
  nb : c'.nb = c.nb
  nodes : c'.nodes = c.nodes

theorem Ext.refl (c : Partial) : Ext c c := ⟨Le.refl c, rfl, rfl⟩
theorem Ext.trans {a b c : Partial} (h1 : Ext a b) (h2 : Ext b c) : Ext a c :=
  ⟨h1.le.trans h2.le, h2.nb.trans h1.nb, h2.nodes.trans h1.nodes⟩

/-- shape of a result on a singleton stack: still a singleton; `true` keeps the success flag,
`false` comes with a failed partial match -/
structure Res (c : Partial) (r : R) (c' : Partial) : Prop where
  st : r.2 = [c']
  okT : r.1 = true → c'.ok = c.ok
  okF : r.1 = false → c'.ok = false

theorem fail_single (c : Partial) : fail [c] = (false, [{ c with ok := false }]) := rfl

theorem ext_failed (c : Partial) : Ext c { c with ok := false } :=
  ⟨⟨fun _ _ h => h, fun _ _ h => h, fun _ _ h => h, fun h => Bool.noConfusion h⟩, rfl, rfl⟩

theorem bind_spec (c : Partial) (k : String) (b : Bound) :
    ∃ c', Res c (bind [c] k b) c' ∧ Ext c c' ∧ c'.vb = c.vb ∧
      ((bind [c] k b).1 = true → c'.bindings.lookup k = some b) := by
  unfold bind
  simp only [lookupBinding_single]
  split
  · next b' hb =>
    by_cases h : (b' == b) = true
    · simp only [h, if_true]
      have : b' = b := by simpa using h
      exact ⟨c, ⟨rfl, fun _ => rfl, fun h => by simp at h⟩, Ext.refl c, rfl, fun _ => this ▸ hb⟩
    · simp only [h]
      exact ⟨_, ⟨rfl, fun h => by simp [fail_single] at h, fun _ => rfl⟩, ext_failed c, rfl,
        fun h => by simp [fail_single] at h⟩
  · next hb =>
    refine ⟨{ c with bindings := c.bindings ++ [(k, b)] }, ⟨rfl, fun _ => rfl, fun h => by simp at h⟩,
      ⟨⟨fun k' x h => lookup_snoc_of_some _ _ _ _ _ h, fun _ _ h => h, fun _ _ h => h, id⟩, rfl, rfl⟩, rfl,
      fun _ => lookup_snoc_self _ _ _ hb⟩

theorem bindValue_spec (p : GPat) (c : Partial) (vp : VPat) (v : Option ValueId) :
    ∃ c', Res c (bindValue p [c] vp v) c' ∧ Ext c c' ∧
      ((bindValue p [c] vp v).1 = true → (assignOf c').boundTo p vp v) := by
  unfold bindValue Assign.boundTo
  rcases hn : p.vname vp with _ | nm <;> dsimp only
  · rcases hk : vp.key with _ | k <;> dsimp only
    · exact ⟨c, ⟨rfl, fun _ => rfl, fun h => by simp at h⟩, Ext.refl c, fun _ => trivial⟩
    · simp only [lookupVB_single]
      rcases hv : c.vb.lookup k with _ | v' <;> dsimp only
      · refine ⟨{ c with vb := c.vb ++ [(k, v)] }, ⟨rfl, fun _ => rfl, fun h => by simp at h⟩,
          ⟨⟨fun _ _ h => h, fun k' x h => lookup_snoc_of_some _ _ _ _ _ h, fun _ _ h => h, id⟩, rfl, rfl⟩,
          fun _ => lookup_snoc_self _ _ _ hv⟩
      · by_cases h : (v' == v) = true
        · simp only [h, if_true]
          have : v' = v := by simpa using h
          exact ⟨c, ⟨rfl, fun _ => rfl, fun h => by simp at h⟩, Ext.refl c, fun _ => this ▸ hv⟩
        · simp only [h]
          exact ⟨_, ⟨rfl, fun h => by simp [fail_single] at h, fun _ => rfl⟩, ext_failed c,
            fun h => by simp [fail_single] at h⟩
  · obtain ⟨c', h1, h2, _, h4⟩ := bind_spec c nm (Bound.ofVal v)
    exact ⟨c', h1, h2, fun h => h4 h⟩

theorem bindValue2_spec (fix2 : Bool) (p : GPat) (c : Partial) (vp : VPat) (v : Option ValueId) :
    ∃ c', Res c (bindValue2 fix2 p [c] vp v) c' ∧ Ext c c' ∧
      ((bindValue2 fix2 p [c] vp v).1 = true → (assignOf c').boundTo p vp v) := by
  obtain ⟨c1, r1, e1, b1⟩ := bindValue_spec p c vp v
  unfold bindValue2
  dsimp only
  split
  · next hcond =>
    have ht : (bindValue p [c] vp v).1 = true := by
      simp only [Bool.and_eq_true] at hcond
      exact hcond.1.1.2
    split
    · next k hk =>
      rw [r1.st]
      simp only [lookupVB_single]
      split
      · next hnone =>
        have hnone' : c1.vb.lookup k = none := by
          cases hl : c1.vb.lookup k with
          | none => rfl
          | some x => simp [hl] at hnone
        refine ⟨{ c1 with vb := c1.vb ++ [(k, v)] },
          ⟨rfl, fun _ => r1.okT ht, fun h => by simp at h⟩, e1.trans
            ⟨⟨fun _ _ h => h, fun k' x h => lookup_snoc_of_some _ _ _ _ _ h, fun _ _ h => h, id⟩, rfl, rfl⟩,
          fun _ => ?_⟩
        have hb := b1 ht
        unfold Assign.boundTo at hb ⊢
        have hname : (p.vname vp).isSome = true := by
          simp only [Bool.and_eq_true] at hcond
          exact hcond.1.2
        rcases hn : p.vname vp with _ | nm
        · simp [hn] at hname
        · simp only [hn] at hb ⊢
          exact hb
      · exact ⟨c1, r1, e1, b1⟩
    · exact ⟨c1, r1, e1, b1⟩
  · exact ⟨c1, r1, e1, b1⟩

theorem Res.same (c : Partial) (b : Bool) (h : b = true) : Res c (b, [c]) c :=
  ⟨rfl, fun _ => rfl, fun h' => by simp [h] at h'⟩

theorem Res.failed (c : Partial) : Res c (fail [c]) { c with ok := false } :=
  ⟨rfl, fun h => by simp [fail_single] at h, fun _ => rfl⟩

/-- continue after a successful first step -/
theorem Res.chain {c c1 c2 : Partial} {r1 r2 : R} (h1 : Res c r1 c1) (h2 : Res c1 r2 c2)
    (ht : r1.1 = true) : Res c r2 c2 :=
  ⟨h2.st, fun h => (h2.okT h).trans (h1.okT ht), h2.okF⟩


theorem attrsLoop_spec (n : GNode) : ∀ (l : List (String × APat)) (c : Partial) (r : R),
    attrsLoop n l [c] = r →
    ∃ c', Res c r c' ∧ Ext c c' ∧
      (r.1 = true → ∀ name ap, (name, ap) ∈ l →
        attrOk n name ap ∧
        (∀ nm, ap.name = some nm → c'.bindings.lookup nm = some (Bound.ofAttr (n.attr name)))) := by
  intro l
  induction l with
  | nil =>
    intro c r hr
    subst hr
    exact ⟨c, Res.same c true rfl, Ext.refl c, fun _ _ _ h => by simp at h⟩
  | cons hd rest ih =>
    intro c r hr
    obtain ⟨name, ap⟩ := hd
    unfold attrsLoop at hr
    dsimp only at hr
    split at hr
    · subst hr
      exact ⟨_, Res.failed c, ext_failed c, fun h => by simp [fail_single] at h⟩
    · next hbad =>
      have hgood : attrOk n name ap := by
        unfold attrOk
        unfold attrBad at hbad
        revert hbad
        cases n.attr name <;> simp
      split at hr
      · next nm hnm =>
        obtain ⟨c1, r1, e1, _, b1⟩ := bind_spec c nm (Bound.ofAttr (n.attr name))
        split at hr
        · next hb =>
          subst hr
          have hb' : (bind [c] nm (Bound.ofAttr (n.attr name))).1 = false := by simpa using hb
          exact ⟨c1, r1, e1, fun h => by simp [hb'] at h⟩
        · next hb =>
          have hb' : (bind [c] nm (Bound.ofAttr (n.attr name))).1 = true := by simpa using hb
          rw [r1.st] at hr
          obtain ⟨c', h1, h2, h3⟩ := ih c1 r hr
          refine ⟨c', r1.chain h1 hb', e1.trans h2, fun ht name' ap' hm => ?_⟩
          rcases List.mem_cons.1 hm with he | hm
          · cases he
            refine ⟨hgood, fun nm' e => ?_⟩
            have : nm' = nm := by simpa [hnm] using e.symm
            subst this
            exact h2.le.b _ _ (b1 hb')
          · exact h3 ht name' ap' hm
      · next hnm =>
        obtain ⟨c', h1, h2, h3⟩ := ih c r hr
        refine ⟨c', h1, h2, fun ht name' ap' hm => ?_⟩
        rcases List.mem_cons.1 hm with he | hm
        · cases he
          exact ⟨hgood, fun nm' e => by simp [hnm] at e⟩
        · exact h3 ht name' ap' hm

theorem nodeMatches_spec (np : NPat) (n : GNode) (c : Partial) (r : R)
    (hr : nodeMatches np n [c] = r) :
    ∃ c', Res c r c' ∧ Ext c c' ∧
      (r.1 = true → np.op.matches n.op = true ∧ np.domain.matches n.domain = true ∧
        attrsSat (assignOf c') np n) := by
  unfold nodeMatches at hr
  split at hr
  · subst hr; exact ⟨_, Res.failed c, ext_failed c, fun h => by simp [fail_single] at h⟩
  · next hop =>
    split at hr
    · subst hr; exact ⟨_, Res.failed c, ext_failed c, fun h => by simp [fail_single] at h⟩
    · next hdom =>
      dsimp only at hr
      obtain ⟨c1, r1, e1, a1⟩ := attrsLoop_spec n np.attrs c _ rfl
      split at hr
      · next hf =>
        subst hr
        have hf' : (attrsLoop n np.attrs [c]).1 = false := by simpa using hf
        exact ⟨c1, r1, e1, fun h => by simp [hf'] at h⟩
      · next ht =>
        have ht' : (attrsLoop n np.attrs [c]).1 = true := by simpa using ht
        split at hr
        · next hx =>
          subst hr
          rw [r1.st]
          exact ⟨_, r1.chain (Res.failed c1) ht', e1.trans (ext_failed c1),
            fun h => by simp [fail_single] at h⟩
        · next hx =>
          subst hr
          refine ⟨c1, r1, e1, fun _ => ⟨by simpa using hop, by simpa using hdom, ?_, ?_⟩⟩
          · intro name ap hm
            exact ⟨(a1 ht' name ap hm).1, fun nm e => (a1 ht' name ap hm).2 nm e⟩
          · intro hao a ha
            simp only [hao, Bool.not_false, Bool.true_and, List.any_eq_true, Bool.not_eq_true',
              not_exists, not_and, Bool.not_eq_false] at hx
            have := hx a ha
            obtain ⟨kv, hk1, hk2⟩ := this
            refine ⟨kv.2, ?_⟩
            have : kv.1 = a.name := by simpa using hk2
            rw [← this]
            exact hk1

/-! ## Invariants -/

/-- every bound pattern node is either still being matched (`P`) or satisfied -/
def Inv (E : Env) (c : Partial) (P : List NPId) : Prop :=
  ∀ q m, c.nb.lookup q = some m → q ∈ P ∨ SatN E (assignOf c) q m

/-- the matched-node list is the image of the node bindings, in binding order -/
def NB (c : Partial) : Prop := c.nodes = c.nb.map (·.2)

theorem Inv.ext {E : Env} {c c' : Partial} {P : List NPId} (h : Inv E c P) (e : Ext c c') :
    Inv E c' P := by
  intro q m hq
  rw [e.nb] at hq
  rcases h q m hq with h | h
  · exact .inl h
  · exact .inr (satN_mono e.le.toALe h)

theorem NB.ext {c c' : Partial} (h : NB c) (e : Ext c c') : NB c' := by
  unfold NB at *
  rw [e.nb, e.nodes, h]

/-- what the recursive node matcher has to satisfy -/
def NodeSpec (E : Env) (rec : NPId → NodeId → Stack → R) : Prop :=
  ∀ np n c P r, rec np n [c] = r → Inv E c P → (∀ x ∈ P, np < x) → NB c →
    ∃ c', Res c r c' ∧ Le c c' ∧ NB c' ∧ (r.1 = true → Inv E c' P ∧ SatN E (assignOf c') np n)

theorem matchConstant_spec (E : Env) (k : ConstPat) (x : ValueId) (c : Partial) (r : R)
    (hr : matchConstant E k x [c] = r) :
    ∃ c', Res c r c' ∧ Ext c c' ∧
      (r.1 = true → ∃ cv, E.g.constOf x = some cv ∧ constOk E.close k cv = true) := by
  unfold matchConstant at hr
  split at hr
  · subst hr; exact ⟨_, Res.failed c, ext_failed c, fun h => by simp [fail_single] at h⟩
  · next cv hcv =>
    split at hr
    · next hok => subst hr; exact ⟨c, Res.same c true rfl, Ext.refl c, fun _ => ⟨cv, hcv, hok⟩⟩
    · subst hr; exact ⟨_, Res.failed c, ext_failed c, fun h => by simp [fail_single] at h⟩

theorem crossGraph_var {g : Graph} {id : Nat} {name : Option String} {isVar canNone : Bool}
    {check : Option Bool} {v : Option ValueId}
    (h : ¬ crossGraphBad g (.var id name isVar canNone check) v = true) :
    ∀ x, v = some x → g.isForeign x = true → isVar = true := by
  intro x hx hf
  subst hx
  simp only [crossGraphBad, VPat.crossGraphOk, hf, Bool.true_and, Bool.not_eq_true',
    Bool.not_eq_false] at h
  simpa using h

theorem crossGraph_out {g : Graph} {np idx : Nat} {x : ValueId}
    (h : ¬ crossGraphBad g (.out np idx) (some x) = true) : g.isForeign x = false := by
  simp only [crossGraphBad, VPat.crossGraphOk, Bool.not_false, Bool.and_true,
    Bool.not_eq_true] at h
  exact h

theorem matchValue_spec (E : Env) (rec : NPId → NodeId → Stack → R) (hrec : NodeSpec E rec)
    (vp : VPat) (hno : vp.dispOk = true) (v : Option ValueId) (c : Partial) (P : List NPId) (r : R)
    (hr : matchValue E rec vp v [c] = r) (hinv : Inv E c P) (hnb : NB c)
    (hq : ∀ q ∈ vp.refs, ∀ x ∈ P, q < x) :
    ∃ c', Res c r c' ∧ Le c c' ∧ NB c' ∧ (r.1 = true → Inv E c' P ∧ SatV E (assignOf c') vp v) := by
  unfold matchValue at hr
  split at hr
  · subst hr
    exact ⟨_, Res.failed c, (ext_failed c).le, hnb.ext (ext_failed c), fun h => by simp [fail_single] at h⟩
  · next hcg =>
    cases vp with
    | any =>
      dsimp only at hr
      subst hr
      exact ⟨c, Res.same c true rfl, Le.refl c, hnb, fun _ => ⟨hinv, .any v⟩⟩
    | var id name isVar canNone check =>
      dsimp only at hr
      obtain ⟨c1, r1, e1, b1⟩ := bindValue2_spec E.fixF2 E.p c (.var id name isVar canNone check) v
      split at hr
      · next hf =>
        subst hr
        have hf' : (bindValue2 E.fixF2 E.p [c] (.var id name isVar canNone check) v).1 = false := by simpa using hf
        exact ⟨c1, r1, e1.le, hnb.ext e1, fun h => by simp [hf'] at h⟩
      · next ht =>
        have ht' : (bindValue2 E.fixF2 E.p [c] (.var id name isVar canNone check) v).1 = true := by simpa using ht
        split at hr
        · subst hr
          rw [r1.st]
          exact ⟨_, r1.chain (Res.failed c1) ht', (e1.trans (ext_failed c1)).le,
            hnb.ext (e1.trans (ext_failed c1)), fun h => by simp [fail_single] at h⟩
        · next hn =>
          subst hr
          refine ⟨c1, r1, e1.le, hnb.ext e1, fun _ => ⟨hinv.ext e1, .var _ _ _ _ _ _ (b1 ht') ?_ (crossGraph_var hcg)⟩⟩
          intro hv
          subst hv
          simpa using hn
    | const id k =>
      dsimp only at hr
      obtain ⟨c1, r1, e1, b1⟩ := bindValue_spec E.p c (.const id k) v
      split at hr
      · next hf =>
        subst hr
        have hf' : (bindValue E.p [c] (.const id k) v).1 = false := by simpa using hf
        exact ⟨c1, r1, e1.le, hnb.ext e1, fun h => by simp [hf'] at h⟩
      · next ht =>
        have ht' : (bindValue E.p [c] (.const id k) v).1 = true := by simpa using ht
        rw [r1.st] at hr
        split at hr
        · subst hr
          exact ⟨_, r1.chain (Res.failed c1) ht', (e1.trans (ext_failed c1)).le,
            hnb.ext (e1.trans (ext_failed c1)), fun h => by simp [fail_single] at h⟩
        · next x =>
          obtain ⟨c2, r2, e2, k2⟩ := matchConstant_spec E k x c1 r hr
          refine ⟨c2, r1.chain r2 ht', (e1.trans e2).le, hnb.ext (e1.trans e2), fun h => ⟨hinv.ext (e1.trans e2), ?_⟩⟩
          obtain ⟨cv, h1, h2⟩ := k2 h
          exact .const id k x cv (boundTo_mono e2.le.toALe _ _ _ (b1 ht')) h1 h2
    | out np idx =>
      dsimp only at hr
      obtain ⟨c1, r1, e1, b1⟩ := bindValue_spec E.p c (.out np idx) v
      split at hr
      · next hf =>
        subst hr
        have hf' : (bindValue E.p [c] (.out np idx) v).1 = false := by simpa using hf
        exact ⟨c1, r1, e1.le, hnb.ext e1, fun h => by simp [hf'] at h⟩
      · next ht =>
        have ht' : (bindValue E.p [c] (.out np idx) v).1 = true := by simpa using ht
        rw [r1.st] at hr
        split at hr
        · subst hr
          exact ⟨_, r1.chain (Res.failed c1) ht', (e1.trans (ext_failed c1)).le,
            hnb.ext (e1.trans (ext_failed c1)), fun h => by simp [fail_single] at h⟩
        · next x =>
          unfold matchNodeOutput at hr
          split at hr
          · subst hr
            exact ⟨_, r1.chain (Res.failed c1) ht', (e1.trans (ext_failed c1)).le,
              hnb.ext (e1.trans (ext_failed c1)), fun h => by simp [fail_single] at h⟩
          · next n hprod =>
            split at hr
            · subst hr
              exact ⟨_, r1.chain (Res.failed c1) ht', (e1.trans (ext_failed c1)).le,
                hnb.ext (e1.trans (ext_failed c1)), fun h => by simp [fail_single] at h⟩
            · next hidx =>
              obtain ⟨c2, r2, l2, nb2, s2⟩ := hrec np n c1 P r hr (hinv.ext e1) (hq np (by simp [VPat.refs])) (hnb.ext e1)
              refine ⟨c2, r1.chain r2 ht', e1.le.trans l2, nb2, fun h => ⟨(s2 h).1, ?_⟩⟩
              have hidx' : E.g.index x = some idx := by simpa using hidx
              exact .out np idx x n (boundTo_mono l2.toALe _ _ _ (b1 ht')) (crossGraph_out hcg) hprod hidx' (s2 h).2
    | orD id name tagVar alts =>
      have htv : tagVar = none := by
        cases tagVar with
        | none => rfl
        | some t => simp [VPat.dispOk] at hno
      subst htv
      dsimp only at hr
      obtain ⟨c1, r1, e1, b1⟩ := bindValue_spec E.p c (.orD id name none alts) v
      split at hr
      · next hf =>
        subst hr
        have hf' : (bindValue E.p [c] (.orD id name none alts) v).1 = false := by simpa using hf
        exact ⟨c1, r1, e1.le, hnb.ext e1, fun h => by simp [hf'] at h⟩
      · next ht =>
        have ht' : (bindValue E.p [c] (.orD id name none alts) v).1 = true := by simpa using ht
        rw [r1.st] at hr
        split at hr
        · subst hr
          exact ⟨_, r1.chain (Res.failed c1) ht', (e1.trans (ext_failed c1)).le,
            hnb.ext (e1.trans (ext_failed c1)), fun h => by simp [fail_single] at h⟩
        · next x =>
          have hfor : E.g.isForeign x = false := by
            simp only [crossGraphBad, VPat.crossGraphOk, Bool.not_false, Bool.and_true,
              Bool.not_eq_true] at hcg
            exact hcg
          split at hr
          · subst hr
            exact ⟨_, r1.chain (Res.failed c1) ht', (e1.trans (ext_failed c1)).le,
              hnb.ext (e1.trans (ext_failed c1)), fun h => by simp [fail_single] at h⟩
          · next a hd =>
            have hdm : a ∈ alts := by
              unfold getDispatch at hd
              split at hd
              · cases hd
              · split at hd
                · cases hd
                · exact List.mem_of_find?_eq_some hd
            obtain ⟨c2, r2, e2, b2⟩ := bindValue_spec E.p c1 (.out a.np a.idx) (some x)
            have hr' : (if !(bindValue E.p [c1] (.out a.np a.idx) (some x)).1 then
                bindValue E.p [c1] (.out a.np a.idx) (some x)
              else matchNodeOutput E rec a.np a.idx x (bindValue E.p [c1] (.out a.np a.idx) (some x)).2) = r := by
              simp only [ite_self] at hr
              exact hr
            clear hr
            split at hr'
            · next hf2 =>
              subst hr'
              have hf2' : (bindValue E.p [c1] (.out a.np a.idx) (some x)).1 = false := by simpa using hf2
              exact ⟨c2, r1.chain r2 ht', (e1.trans e2).le, hnb.ext (e1.trans e2), fun h => by simp [hf2'] at h⟩
            · next ht2 =>
              have ht2' : (bindValue E.p [c1] (.out a.np a.idx) (some x)).1 = true := by simpa using ht2
              rw [r2.st] at hr'
              have e12 := e1.trans e2
              unfold matchNodeOutput at hr'
              split at hr'
              · subst hr'
                exact ⟨_, (r1.chain r2 ht').chain (Res.failed c2) ht2', (e12.trans (ext_failed c2)).le,
                  hnb.ext (e12.trans (ext_failed c2)), fun h => by simp [fail_single] at h⟩
              · next n hprod =>
                split at hr'
                · subst hr'
                  exact ⟨_, (r1.chain r2 ht').chain (Res.failed c2) ht2', (e12.trans (ext_failed c2)).le,
                    hnb.ext (e12.trans (ext_failed c2)), fun h => by simp [fail_single] at h⟩
                · next hidx =>
                  obtain ⟨c3, r3, l3, nb3, s3⟩ := hrec a.np n c2 P r hr' (hinv.ext e12)
                    (hq a.np (by simp only [VPat.refs, List.mem_map]; exact ⟨a, hdm, rfl⟩)) (hnb.ext e12)
                  refine ⟨c3, (r1.chain r2 ht').chain r3 ht2', e12.le.trans l3, nb3, fun h => ⟨(s3 h).1, ?_⟩⟩
                  have hidx' : E.g.index x = some a.idx := by simpa using hidx
                  refine .orD id name none alts x a (boundTo_mono (e2.le.trans l3).toALe _ _ _ (b1 ht')) hfor hd ?_
                    (fun t e => by cases e)
                  exact .out a.np a.idx x n (boundTo_mono l3.toALe _ _ _ (b2 ht2')) hfor hprod hidx' (s3 h).2
    | orB => simp [VPat.dispOk] at hno

theorem matchInputs_spec (E : Env) (rec : NPId → NodeId → Stack → R) (hrec : NodeSpec E rec)
    (P : List NPId) :
    ∀ (pairs : List (Option ValueId × Option VPat)) (c : Partial) (r : R),
      matchInputs (matchValue E rec) pairs [c] = r → Inv E c P → NB c →
      (∀ v vp, (v, some vp) ∈ pairs → vp.dispOk = true ∧ ∀ q ∈ vp.refs, ∀ x ∈ P, q < x) →
      ∃ c', Res c r c' ∧ Le c c' ∧ NB c' ∧ (r.1 = true → Inv E c' P ∧
        (∀ v, (v, none) ∈ pairs → v = none) ∧
        (∀ v vp, (v, some vp) ∈ pairs → SatV E (assignOf c') vp v)) := by
  intro pairs
  induction pairs with
  | nil =>
    intro c r hr hinv hnb _
    unfold matchInputs at hr
    subst hr
    exact ⟨c, Res.same c true rfl, Le.refl c, hnb, fun _ => ⟨hinv, fun _ h => by simp at h, fun _ _ h => by simp at h⟩⟩
  | cons hd rest ih =>
    intro c r hr hinv hnb hp
    obtain ⟨v, ovp⟩ := hd
    cases ovp with
    | none =>
      unfold matchInputs at hr
      split at hr
      · next hv =>
        obtain ⟨c', h1, h2, h3, h4⟩ := ih c r hr hinv hnb (fun v vp hm => hp v vp (List.mem_cons_of_mem _ hm))
        refine ⟨c', h1, h2, h3, fun ht => ⟨(h4 ht).1, ?_, ?_⟩⟩
        · intro v' hm
          rcases List.mem_cons.1 hm with he | hm
          · cases he; simpa using hv
          · exact (h4 ht).2.1 v' hm
        · intro v' vp hm
          rcases List.mem_cons.1 hm with he | hm
          · cases he
          · exact (h4 ht).2.2 v' vp hm
      · subst hr
        exact ⟨_, Res.failed c, (ext_failed c).le, hnb.ext (ext_failed c), fun h => by simp [fail_single] at h⟩
    | some vp =>
      unfold matchInputs at hr
      dsimp only at hr
      obtain ⟨hno, hq⟩ := hp v vp (List.mem_cons_self ..)
      obtain ⟨c1, r1, l1, nb1, s1⟩ := matchValue_spec E rec hrec vp hno v c P _ rfl hinv hnb hq
      split at hr
      · next hf =>
        subst hr
        have hf' : (matchValue E rec vp v [c]).1 = false := by simpa using hf
        exact ⟨c1, r1, l1, nb1, fun h => by simp [hf'] at h⟩
      · next ht =>
        have ht' : (matchValue E rec vp v [c]).1 = true := by simpa using ht
        rw [r1.st] at hr
        obtain ⟨c', h1, h2, h3, h4⟩ := ih c1 r hr (s1 ht').1 nb1 (fun v vp hm => hp v vp (List.mem_cons_of_mem _ hm))
        refine ⟨c', r1.chain h1 ht', l1.trans h2, h3, fun ht2 => ⟨(h4 ht2).1, ?_, ?_⟩⟩
        · intro v' hm
          rcases List.mem_cons.1 hm with he | hm
          · cases he
          · exact (h4 ht2).2.1 v' hm
        · intro v' vp' hm
          rcases List.mem_cons.1 hm with he | hm
          · cases he
            exact satV_mono h2.toALe (s1 ht').2
          · exact (h4 ht2).2.2 v' vp' hm

theorem bindOutputs_spec (fix : Bool) (p : GPat) (np : NPId) (gouts : List ValueId) :
    ∀ (rest : List (Option String)) (i : Nat) (c : Partial) (r : R),
      bindOutputs fix p np gouts rest i [c] = r → (fix = true ∨ i + rest.length ≤ gouts.length) →
      ∃ c', Res c r c' ∧ Ext c c' ∧
        (r.1 = true → ∀ j, i ≤ j → j < i + rest.length →
          ∃ x, gouts[j]? = some x ∧ (assignOf c').boundTo p (.out np j) (some x)) := by
  intro rest
  induction rest with
  | nil =>
    intro i c r hr _
    unfold bindOutputs at hr
    subst hr
    exact ⟨c, Res.same c true rfl, Ext.refl c, fun _ j h1 h2 => by simp at h2; omega⟩
  | cons hd rest ih =>
    intro i c r hr hlen
    unfold bindOutputs at hr
    simp only [List.length_cons] at hlen
    split at hr
    · next hnone =>
      rcases hlen with hfix | hlen
      · subst hfix
        simp only [if_true] at hr
        subst hr
        exact ⟨_, Res.failed c, ext_failed c, fun h => by simp [fail_single] at h⟩
      · have : i < gouts.length := by omega
        simp at hnone
        omega
    · next x hx =>
      dsimp only at hr
      obtain ⟨c1, r1, e1, b1⟩ := bindValue_spec p c (.out np i) (some x)
      split at hr
      · next hf =>
        subst hr
        have hf' : (bindValue p [c] (.out np i) (some x)).1 = false := by simpa using hf
        exact ⟨c1, r1, e1, fun h => by simp [hf'] at h⟩
      · next ht =>
        have ht' : (bindValue p [c] (.out np i) (some x)).1 = true := by simpa using ht
        rw [r1.st] at hr
        obtain ⟨c', h1, h2, h3⟩ := ih (i + 1) c1 r hr (by rcases hlen with h | h; exact .inl h; exact .inr (by omega))
        refine ⟨c', r1.chain h1 ht', e1.trans h2, fun ht2 j hj1 hj2 => ?_⟩
        by_cases hji : j = i
        · subst hji
          exact ⟨x, hx, boundTo_mono h2.le.toALe _ _ _ (b1 ht')⟩
        · exact h3 ht2 j (by omega) (by simp only [List.length_cons] at hj2; omega)

theorem zipPad_mem_of_get : ∀ (vs : List (Option ValueId)) (ps : List (Option VPat)) (i : Nat)
    (pat : Option VPat), ps[i]? = some pat → ((vs[i]?).bind id, pat) ∈ zipPad vs ps := by
  intro vs ps
  induction ps generalizing vs with
  | nil => intro i pat h; simp at h
  | cons p ps ih =>
    intro i pat h
    cases vs with
    | nil =>
      unfold zipPad
      cases i with
      | zero => simp at h; subst h; simp
      | succ i =>
        simp at h
        have := ih [] i pat h
        simp at this
        simp [this]
    | cons v vs =>
      unfold zipPad
      cases i with
      | zero => simp at h; subst h; simp
      | succ i =>
        simp at h
        have := ih vs i pat h
        simp only [List.getElem?_cons_succ]
        exact List.mem_cons_of_mem _ this

theorem zipPad_mem_snd : ∀ (vs : List (Option ValueId)) (ps : List (Option VPat))
    (v : Option ValueId) (pat : Option VPat), (v, pat) ∈ zipPad vs ps → pat ∈ ps := by
  intro vs ps
  induction ps generalizing vs with
  | nil => intro v pat h; simp [zipPad] at h
  | cons p ps ih =>
    intro v pat h
    cases vs with
    | nil =>
      unfold zipPad at h
      rcases List.mem_cons.1 h with he | hm
      · cases he; simp
      · exact List.mem_cons_of_mem _ (ih [] v pat hm)
    | cons v' vs =>
      unfold zipPad at h
      rcases List.mem_cons.1 h with he | hm
      · cases he; simp
      · exact List.mem_cons_of_mem _ (ih vs v pat hm)

theorem noOr_input {p : GPat} (h : p.noOr = true) {np : NPId} {Pn : NPat} (hP : p.nodes[np]? = some Pn)
    {vp : VPat} (hm : some vp ∈ Pn.inputs) : vp.noOr = true := by
  unfold GPat.noOr at h
  simp only [Bool.and_eq_true, List.all_eq_true] at h
  have h1 := h.1 Pn (List.mem_of_getElem? hP)
  unfold NPat.noOr at h1
  simp only [List.all_eq_true] at h1
  exact h1 (some vp) hm

theorem dispOk_input {p : GPat} (h : p.dispOk = true) {np : NPId} {Pn : NPat} (hP : p.nodes[np]? = some Pn)
    {vp : VPat} (hm : some vp ∈ Pn.inputs) : vp.dispOk = true := by
  unfold GPat.dispOk at h
  simp only [List.all_eq_true] at h
  have h1 := h Pn (List.mem_of_getElem? hP)
  unfold NPat.dispOk at h1
  simp only [List.all_eq_true] at h1
  exact h1 (some vp) hm

theorem VPat.noOr_dispOk : ∀ vp : VPat, vp.noOr = true → vp.dispOk = true
  | .var .., _ => rfl
  | .any, _ => rfl
  | .const .., _ => rfl
  | .out .., _ => rfl
  | .orD .., h => by simp [VPat.noOr] at h
  | .orB .., h => by simp [VPat.noOr] at h

/-- OR-free patterns are in particular dispatch-only patterns -/
theorem GPat.noOr_dispOk (p : GPat) (h : p.noOr = true) : p.dispOk = true := by
  unfold GPat.noOr at h
  unfold GPat.dispOk
  simp only [Bool.and_eq_true, List.all_eq_true] at h ⊢
  intro n hn
  have := h.1 n hn
  unfold NPat.noOr at this
  unfold NPat.dispOk
  simp only [List.all_eq_true] at this ⊢
  intro i hi
  have h2 := this i hi
  cases i with
  | none => rfl
  | some v => exact VPat.noOr_dispOk v h2

/-- for OR-free patterns the shallow order condition is the deep one -/
theorem GPat.topo_topoDeep (p : GPat) (hno : p.noOr = true) (h : p.topo) : p.topoDeep := by
  intro np P hP vp hin q hq
  have hv := noOr_input hno hP hin
  cases vp with
  | out q' idx => simp [VPat.refs] at hq; subst hq; exact h np P hP q idx hin
  | var => simp [VPat.refs] at hq
  | any => simp [VPat.refs] at hq
  | const => simp [VPat.refs] at hq
  | orD => simp [VPat.noOr] at hv
  | orB => simp [VPat.noOr] at hv

theorem nodeStep_spec (E : Env) (rec : NPId → NodeId → Stack → R) (hrec : NodeSpec E rec)
    (hno : E.p.dispOk = true) (htopo : E.p.topoDeep) (har : E.fixF1 = true ∨ OutputArityOk E.p E.g) :
    NodeSpec E (nodeStep E (matchValue E rec)) := by
  intro np n c P r hr hinv hlt hnb
  unfold nodeStep at hr
  simp only [lookupNode_single] at hr
  split at hr
  · next m hm =>
    split at hr
    · next hmn =>
      subst hr
      have hmn' : m = n := by simpa using hmn
      subst hmn'
      refine ⟨c, Res.same c true rfl, Le.refl c, hnb, fun _ => ⟨hinv, ?_⟩⟩
      rcases hinv np m hm with h | h
      · exact absurd (hlt np h) (Nat.lt_irrefl _)
      · exact h
    · subst hr
      exact ⟨_, Res.failed c, (ext_failed c).le, hnb.ext (ext_failed c), fun h => by simp [fail_single] at h⟩
  · next hm =>
    split at hr
    · next Pn N hP hN =>
      obtain ⟨c1, r1, e1, a1⟩ := nodeMatches_spec Pn N c _ rfl
      split at hr
      · next hf =>
        subst hr
        rw [r1.st]
        have hf' : (nodeMatches Pn N [c]).1 = false := by simpa using hf
        refine ⟨_, ⟨rfl, fun h => by simp [fail_single] at h, fun _ => rfl⟩,
          (e1.trans (ext_failed c1)).le, hnb.ext (e1.trans (ext_failed c1)), fun h => by simp [fail_single] at h⟩
      · next ht =>
        have ht' : (nodeMatches Pn N [c]).1 = true := by simpa using ht
        rw [r1.st] at hr
        -- the state after bind_node
        let c2 : Partial := { c1 with nodes := c1.nodes ++ [n], nb := c1.nb ++ [(np, n)] }
        have hc2 : bindNode [c1] np n = [c2] := rfl
        rw [hc2] at hr
        have hm1 : c1.nb.lookup np = none := by rw [e1.nb]; exact hm
        have l12 : Le c1 c2 :=
          ⟨fun _ _ h => h, fun _ _ h => h, fun k x h => lookup_snoc_of_some _ _ _ _ _ h, id⟩
        have hnp2 : c2.nb.lookup np = some n := lookup_snoc_self _ _ _ hm1
        have nb2 : NB c2 := by
          have := hnb.ext e1
          unfold NB at *
          show c1.nodes ++ [n] = (c1.nb ++ [(np, n)]).map (·.2)
          simp [this]
        have inv2 : Inv E c2 (np :: P) := by
          intro q m hq
          by_cases hqn : q = np
          · exact .inl (by simp [hqn])
          · have hq1 : c1.nb.lookup q = some m := by
              have : (c1.nb ++ [(np, n)]).lookup q = some m := hq
              simp only [List.lookup_append, List.lookup] at this
              cases h1 : c1.nb.lookup q with
              | some m' => simp [h1] at this; exact this ▸ rfl
              | none =>
                simp [h1] at this
                have hne : (q == np) = false := by simpa using hqn
                simp [hne] at this
            rcases (hinv.ext e1) q m hq1 with h | h
            · exact .inl (List.mem_cons_of_mem _ h)
            · exact .inr (satN_mono l12.toALe h)
        have res12 : Res c1 (true, [c2]) c2 := ⟨rfl, fun _ => rfl, fun h => by simp at h⟩
        split at hr
        · subst hr
          exact ⟨_, ⟨rfl, fun h => by simp [fail_single] at h, fun _ => rfl⟩,
            (e1.le.trans l12).trans (ext_failed c2).le, nb2.ext (ext_failed c2),
            fun h => by simp [fail_single] at h⟩
        · next hlen =>
          have hpairs : ∀ v vp, (v, some vp) ∈ zipPad N.inputs Pn.inputs →
              vp.dispOk = true ∧ ∀ q ∈ vp.refs, ∀ x ∈ np :: P, q < x := by
            intro v vp hmem
            have hin := zipPad_mem_snd _ _ _ _ hmem
            refine ⟨dispOk_input hno hP hin, fun q hqr x hx => ?_⟩
            have hqnp := htopo np Pn hP vp hin q hqr
            rcases List.mem_cons.1 hx with h | h
            · exact h ▸ hqnp
            · exact Nat.lt_trans hqnp (hlt x h)
          obtain ⟨c3, r3, l3, nb3, s3⟩ :=
            matchInputs_spec E rec hrec (np :: P) _ c2 _ rfl inv2 nb2 hpairs
          split at hr
          · next hf =>
            subst hr
            have hf' : (matchInputs (matchValue E rec) (zipPad N.inputs Pn.inputs) [c2]).1 = false := by
              simpa using hf
            refine ⟨c3, ⟨r3.st, fun h => by simp [hf'] at h, r3.okF⟩, (e1.le.trans l12).trans l3, nb3,
              fun h => by simp [hf'] at h⟩
          · next ht3 =>
            have ht3' : (matchInputs (matchValue E rec) (zipPad N.inputs Pn.inputs) [c2]).1 = true := by
              simpa using ht3
            rw [r3.st] at hr
            have harity : E.fixF1 = true ∨ 0 + Pn.outputs.length ≤ N.outputs.length := by
              rcases har with h | har
              · exact .inl h
              · have := har Pn (List.mem_of_getElem? hP) N (List.mem_of_getElem? hN) (a1 ht').1 (a1 ht').2.1
                exact .inr (by omega)
            obtain ⟨c4, r4, e4, b4⟩ := bindOutputs_spec E.fixF1 E.p np N.outputs Pn.outputs 0 c3 r hr harity
            have okc2 : c2.ok = c.ok := r1.okT ht'
            have l14 : Le c1 c4 := (l12.trans l3).trans e4.le
            refine ⟨c4, ⟨r4.st, fun h => ((r4.okT h).trans (r3.okT ht3')).trans okc2, r4.okF⟩,
              e1.le.trans l14, nb3.ext e4, fun h => ?_⟩
            have hsat : SatN E (assignOf c4) np n := by
              refine .mk np n Pn N hP hN (e4.le.n _ _ (l3.n _ _ hnp2)) (a1 ht').1 (a1 ht').2.1
                (attrsSat_mono l14.toALe _ _ (a1 ht').2.2) ?_ ?_ ?_ ?_
              · by_cases hl : N.inputs.length ≤ Pn.inputs.length
                · exact .inl hl
                · right
                  have : N.inputs.length > Pn.inputs.length := by omega
                  simp only [this, decide_true, Bool.true_and, Bool.not_eq_true', Bool.not_eq_false] at hlen
                  simpa using hlen
              · intro i hi
                have := zipPad_mem_of_get N.inputs Pn.inputs i none hi
                exact (s3 ht3').2.1 _ this
              · intro i vp hi
                have := zipPad_mem_of_get N.inputs Pn.inputs i (some vp) hi
                exact satV_mono e4.le.toALe ((s3 ht3').2.2 _ vp this)
              · intro i hi
                exact b4 h i (Nat.zero_le _) (by omega)
            refine ⟨?_, hsat⟩
            intro q m hq
            rcases ((s3 ht3').1.ext e4) q m hq with h' | h'
            · rcases List.mem_cons.1 h' with h'' | h''
              · subst h''
                have : c4.nb.lookup q = some n := e4.le.n _ _ (l3.n _ _ hnp2)
                rw [this] at hq
                cases hq
                exact .inr hsat
              · exact .inl h''
            · exact .inr h'
    · subst hr
      exact ⟨_, Res.failed c, (ext_failed c).le, hnb.ext (ext_failed c), fun h => by simp [fail_single] at h⟩

theorem matchNode_spec (E : Env) (hno : E.p.dispOk = true) (htopo : E.p.topoDeep)
    (har : E.fixF1 = true ∨ OutputArityOk E.p E.g) : ∀ f, NodeSpec E (matchNode E f)
  | 0 => by
    intro np n c P r hr hinv _ hnb
    unfold matchNode at hr
    subst hr
    exact ⟨_, Res.failed c, (ext_failed c).le, hnb.ext (ext_failed c), fun h => by simp [fail_single] at h⟩
  | f + 1 => by
    have ih := matchNode_spec E hno htopo har f
    have := nodeStep_spec E (matchNode E f) ih hno htopo har
    intro np n c P r hr
    unfold matchNode at hr
    exact this np n c P r hr

theorem matchOutputNodes_spec (E : Env) (hno : E.p.dispOk = true) (htopo : E.p.topoDeep)
    (har : E.fixF1 = true ∨ OutputArityOk E.p E.g) :
    ∀ (l : List (NPId × NodeId)) (c : Partial) (r : R),
      matchOutputNodes E l [c] = r → Inv E c [] → NB c →
      ∃ c', Res c r c' ∧ Le c c' ∧ NB c' ∧
        (r.1 = true → Inv E c' [] ∧ ∀ np n, (np, n) ∈ l → SatN E (assignOf c') np n) := by
  intro l
  induction l with
  | nil =>
    intro c r hr hinv hnb
    unfold matchOutputNodes at hr
    subst hr
    exact ⟨c, Res.same c true rfl, Le.refl c, hnb, fun _ => ⟨hinv, fun _ _ h => by simp at h⟩⟩
  | cons hd rest ih =>
    intro c r hr hinv hnb
    obtain ⟨np, n⟩ := hd
    unfold matchOutputNodes at hr
    dsimp only at hr
    obtain ⟨c1, r1, l1, nb1, s1⟩ :=
      matchNode_spec E hno htopo har E.p.fuel np n c [] _ rfl hinv (fun _ h => by simp at h) hnb
    split at hr
    · next hf =>
      subst hr
      have hf' : (matchNode E E.p.fuel np n [c]).1 = false := by simpa using hf
      exact ⟨c1, r1, l1, nb1, fun h => by simp [hf'] at h⟩
    · next ht =>
      have ht' : (matchNode E E.p.fuel np n [c]).1 = true := by simpa using ht
      rw [r1.st] at hr
      obtain ⟨c', h1, h2, h3, h4⟩ := ih c1 r hr (s1 ht').1 nb1
      refine ⟨c', r1.chain h1 ht', l1.trans h2, h3, fun ht2 => ⟨(h4 ht2).1, fun np' n' hm => ?_⟩⟩
      rcases List.mem_cons.1 hm with he | hm
      · cases he
        exact satN_mono h2.toALe (s1 ht').2
      · exact (h4 ht2).2 np' n' hm

/-- the assignment read off a final result -/
def Result.assign (r : Result) : Assign :=
  { names := fun k => r.bindings.lookup k
    node := fun np => r.nb.lookup np
    leaf := fun k => r.vb.lookup k }

theorem validToReplace_removable (g : Graph) (matched : List NodeId) (outs : List Bound)
    (h : validToReplace g matched outs = true) : Removable g matched outs := by
  intro n hn gn hgn v hv hnot
  unfold validToReplace at h
  simp only [List.all_eq_true] at h
  have h1 := h n hn
  simp only [hgn, List.all_eq_true] at h1
  have h2 := h1 v hv
  have hc : outs.contains (Bound.val v) = false := by
    simpa using hnot
  simp only [hc, Bool.false_or, Bool.and_eq_true, Bool.not_eq_true', List.all_eq_true] at h2
  refine ⟨h2.1.1, fun c hc => ?_, ?_⟩
  · have := h2.1.2 c hc
    simpa using this
  · have := h2.2
    simpa using this

/-- what `finish` adds on top of a successful run of the output-node loop -/
theorem finish_spec (E : Env) (rm : Bool) (r0 : R) (c' : Partial) (hst : r0.2 = [c'])
    (hF : r0.1 = false → c'.ok = false) (hok : (finish E rm r0).ok = true) :
    r0.1 = true ∧ outputValues E.p c' = some (finish E rm r0).outputs ∧
      (finish E rm r0).bindings = c'.bindings ∧ (finish E rm r0).nodes = c'.nodes ∧
      (finish E rm r0).nb = c'.nb ∧ (finish E rm r0).vb = c'.vb ∧
      (rm = true → Removable E.g c'.nodes (finish E rm r0).outputs) := by
  unfold finish at hok ⊢
  simp only [hst, topPartial] at hok ⊢
  by_cases h1 : r0.1 = true
  · simp only [h1, Bool.not_true, Bool.false_eq_true, if_false] at hok ⊢
    cases ho : outputValues E.p c' with
    | none => simp [ho, Result.ofPartial] at hok
    | some outs =>
      simp only [ho] at hok ⊢
      by_cases hv : (rm && !validToReplace E.g c'.nodes outs) = true
      · simp [hv, Result.ofPartial] at hok
      · simp only [hv, Bool.false_eq_true, if_false, Result.ofPartial] at hok ⊢
        refine ⟨trivial, trivial, trivial, trivial, trivial, trivial, fun hrm => ?_⟩
        subst hrm
        simp only [Bool.true_and, Bool.not_eq_true', Bool.not_eq_false] at hv
        exact validToReplace_removable _ _ _ (by simpa using hv)
  · have h1' : r0.1 = false := by simpa using h1
    simp only [h1', Bool.not_false, if_true, Result.ofPartial] at hok
    rw [hF h1'] at hok
    simp at hok

/-! ## Top level -/

theorem product_length {α} : ∀ (ls : List (List α)) (c : List α), c ∈ product ls → c.length = ls.length := by
  intro ls
  induction ls with
  | nil => intro c h; simp [product] at h; simp [h]
  | cons l ls ih =>
    intro c h
    simp only [product, List.mem_flatMap, List.mem_map] at h
    obtain ⟨x, _, rest, hr, rfl⟩ := h
    simp [ih rest hr]

theorem product_head {α} (x : α) (ls : List (List α)) (c : List α) (h : c ∈ product ([x] :: ls)) :
    c.head? = some x := by
  simp only [product, List.flatMap_cons, List.flatMap_nil, List.append_nil, List.mem_map] at h
  obtain ⟨rest, _, rfl⟩ := h
  rfl

theorem candidatesRest_length (E : Env) : ∀ (l : List NPId) (b : Bool), (candidatesRest E l b).length = l.length := by
  intro l
  induction l with
  | nil => intro b; rfl
  | cons np rest ih =>
    intro b
    unfold candidatesRest
    split <;> simp [ih]

theorem firstMatch_ok (E : Env) (rm : Bool) : ∀ (cs : List (List NodeId)) (last : Option Result),
    (firstMatch E rm cs last).ok = true →
    (∃ c ∈ cs, firstMatch E rm cs last = multiMatch E rm c) ∨
      (cs = [] ∧ ∃ m, last = some m ∧ m.ok = true) := by
  intro cs
  induction cs with
  | nil =>
    intro last h
    unfold firstMatch at h
    cases last with
    | none => simp [Result.failed] at h
    | some m => exact .inr ⟨rfl, m, rfl, by simpa using h⟩
  | cons c cs ih =>
    intro last h
    unfold firstMatch at h ⊢
    dsimp only at h ⊢
    by_cases hm : (multiMatch E rm c).ok = true
    · simp only [hm, if_true]
      exact .inl ⟨c, List.mem_cons_self .., rfl⟩
    · simp only [hm, Bool.false_eq_true, if_false] at h ⊢
      rcases ih _ h with ⟨c', hc', he⟩ | ⟨_, m, hm1, hm2⟩
      · exact .inl ⟨c', List.mem_cons_of_mem _ hc', he⟩
      · cases hm1
        exact absurd hm2 hm

theorem finish_congr (E : Env) (rm : Bool) (r : R) :
    finish E rm (if !r.1 then r else (true, r.2)) = finish E rm r := by
  obtain ⟨b, st⟩ := r
  cases b <;> rfl

/-- a successful `SimplePatternMatcher.match` is the `_multi_match` of one candidate combination
that starts with the given node and covers every output node of the pattern -/
theorem matcherMatch_ok (E : Env) (root : NodeId) (rm : Bool)
    (h : (matcherMatch E root rm).ok = true) :
    ∃ combo, matcherMatch E root rm = multiMatch E rm combo ∧ combo.head? = some root ∧
      E.p.outputNodes.length ≤ combo.length := by
  unfold matcherMatch at h ⊢
  split at h
  · next np hnp =>
    refine ⟨[root], ?_, rfl, by simp [hnp]⟩
    unfold multiMatch
    simp only [hnp, List.zip_cons_cons, List.zip_nil_right]
    unfold matchOutputNodes
    unfold matchOutputNodes
    exact (finish_congr E rm _).symm
  · next outs hne =>
    rcases firstMatch_ok E rm _ none h with ⟨c, hc, he⟩ | ⟨_, m, hm, _⟩
    · refine ⟨c, he, product_head _ _ _ hc, ?_⟩
      have := product_length _ _ hc
      simp only [List.length_cons, candidatesRest_length, List.length_tail] at this
      omega
    · cases hm

end OV.C06
