import OV.Model.C07Apply
/-! Helper lemmas for C07: evaluation of node lists — locality, commutation of independent nodes,
sinking the matched nodes to the root, agreement off a set of hidden names. -/
namespace OV.C07
variable {V : Type}

/-! ### `bindOuts` as a total update -/

def setMany (ρ : Env V) : List Name → List V → Env V
  | x :: xs, v :: vs => setMany (ρ.set x v) xs vs
  | _, _ => ρ

theorem bindOuts_eq (xs : List Name) : ∀ (ρ : Env V) (vs : List V),
    bindOuts ρ xs vs = if xs.length = vs.length then some (setMany ρ xs vs) else none := by
  induction xs with
  | nil => intro ρ vs; cases vs <;> simp [bindOuts, setMany]
  | cons x xs ih => intro ρ vs; cases vs with
    | nil => simp [bindOuts]
    | cons v vs => simp [bindOuts, setMany, ih]

theorem setMany_notMem (xs : List Name) : ∀ (ρ : Env V) (vs : List V) (x : Name), x ∉ xs →
    setMany ρ xs vs x = ρ x := by
  induction xs with
  | nil => intro ρ vs x _; cases vs <;> rfl
  | cons y ys ih =>
    intro ρ vs x hx
    cases vs with
    | nil => rfl
    | cons v vs =>
      have hne : x ≠ y := fun h => hx (by simp [h])
      have hys : x ∉ ys := fun h => hx (by simp [h])
      simp only [setMany]
      rw [ih _ _ _ hys]
      simp [Env.set, hne]

theorem setMany_mem_indep (xs : List Name) : ∀ (ρ ρ' : Env V) (vs : List V) (x : Name), x ∈ xs →
    xs.length = vs.length → setMany ρ xs vs x = setMany ρ' xs vs x := by
  induction xs with
  | nil => intro _ _ _ x hx; simp at hx
  | cons y ys ih =>
    intro ρ ρ' vs x hx hl
    cases vs with
    | nil => simp at hl
    | cons v vs =>
      simp only [setMany]
      by_cases hys : x ∈ ys
      · exact ih _ _ _ _ hys (by simpa using hl)
      · have hxy : x = y := by
          rcases List.mem_cons.mp hx with h | h
          · exact h
          · exact absurd h hys
        rw [setMany_notMem ys _ _ _ hys, setMany_notMem ys _ _ _ hys]
        simp [Env.set, hxy]

/-- agreement of two environments outside `H` -/
def EqOff (H : List Name) (ρ ρ' : Env V) : Prop := ∀ x, x ∉ H → ρ x = ρ' x

theorem EqOff.refl (H : List Name) (ρ : Env V) : EqOff H ρ ρ := fun _ _ => rfl

theorem setMany_eqOff (H xs : List Name) (ρ ρ' : Env V) (vs : List V) (hl : xs.length = vs.length)
    (h : EqOff H ρ ρ') : EqOff H (setMany ρ xs vs) (setMany ρ' xs vs) := by
  intro x hx
  by_cases hm : x ∈ xs
  · exact setMany_mem_indep xs _ _ _ _ hm hl
  · rw [setMany_notMem xs _ _ _ hm, setMany_notMem xs _ _ _ hm]; exact h x hx

/-! ### a node's values depend only on what it reads -/

def nodeVals (sem : Sem V) (sub : Env V → Graph → List (Option V) → Option (List V)) (ρ : Env V) (n : Node) :
    Option (List V) :=
  (lookupAll ρ n.inputs).bind (nodeOutputs sem sub ρ n)

theorem evalNode_eq (sem : Sem V) (sub) (ρ : Env V) (n : Node) :
    evalNode sem sub ρ n = (nodeVals sem sub ρ n).bind fun vs =>
      if n.outputs.length = vs.length then some (setMany ρ n.outputs vs) else none := by
  unfold evalNode nodeVals
  cases lookupAll ρ n.inputs with
  | none => rfl
  | some args =>
    simp only [Option.bind_some]
    cases nodeOutputs sem sub ρ n args with
    | none => rfl
    | some vs => simp [bindOuts_eq]

theorem lookupAll_congr (ins : List (Option Name)) (ρ ρ' : Env V)
    (h : ∀ x, some x ∈ ins → ρ x = ρ' x) : lookupAll ρ ins = lookupAll ρ' ins := by
  induction ins with
  | nil => rfl
  | cons i r ih =>
    have hr := ih (fun x hx => h x (by simp [hx]))
    cases i with
    | none => simp [lookupAll, lookupIn, hr]
    | some x => simp [lookupAll, lookupIn, hr, h x (by simp)]

theorem mem_inputNames {n : Node} {x : Name} : some x ∈ n.inputs → x ∈ n.inputNames := by
  intro h
  unfold Node.inputNames
  exact List.mem_filterMap.mpr ⟨some x, h, rfl⟩

theorem nodeVals_congr (sem : Sem V) (sub) (ρ ρ' : Env V) (n : Node)
    (h : ∀ x ∈ n.reads, ρ x = ρ' x) : nodeVals sem sub ρ n = nodeVals sem sub ρ' n := by
  unfold nodeVals
  have h1 : lookupAll ρ n.inputs = lookupAll ρ' n.inputs :=
    lookupAll_congr _ _ _ (fun x hx => h x (by unfold Node.reads; simp [mem_inputNames hx]))
  have h2 : ρ.restrict n.caps = ρ'.restrict n.caps := by
    funext y
    unfold Env.restrict
    by_cases hy : y ∈ n.caps
    · simp [hy, h y (by unfold Node.reads; simp [hy])]
    · simp [hy]
  rw [h1]
  cases lookupAll ρ' n.inputs with
  | none => rfl
  | some args =>
    simp only [Option.bind_some]
    unfold nodeOutputs
    rw [h2]

/-! ### relation on optional environments -/

def ORel (H : List Name) : Option (Env V) → Option (Env V) → Prop
  | some ρ, some ρ' => EqOff H ρ ρ'
  | none, none => True
  | _, _ => False

theorem ORel.refl (H : List Name) (r : Option (Env V)) : ORel H r r := by
  cases r with
  | none => trivial
  | some ρ => exact EqOff.refl H ρ

theorem evalNode_eqOff (sem : Sem V) (sub) (H : List Name) (ρ ρ' : Env V) (n : Node)
    (h : EqOff H ρ ρ') (hr : ∀ x ∈ n.reads, x ∉ H) :
    ORel H (evalNode sem sub ρ n) (evalNode sem sub ρ' n) := by
  rw [evalNode_eq, evalNode_eq, nodeVals_congr sem sub ρ ρ' n (fun x hx => h x (hr x hx))]
  cases nodeVals sem sub ρ' n with
  | none => trivial
  | some vs =>
    simp only [Option.bind_some]
    by_cases hl : n.outputs.length = vs.length
    · simp only [hl, if_true]; exact setMany_eqOff H _ _ _ _ hl h
    · simp only [hl, if_false]; trivial

theorem evalNodes_eqOff (sem : Sem V) (sub) (H : List Name) (ns : List Node)
    (hr : ∀ n ∈ ns, ∀ x ∈ n.reads, x ∉ H) : ∀ (r r' : Option (Env V)), ORel H r r' →
    ORel H (r.bind fun ρ => evalNodes (evalNode sem sub) ρ ns) (r'.bind fun ρ => evalNodes (evalNode sem sub) ρ ns) := by
  induction ns with
  | nil =>
    intro r r' h
    cases r <;> cases r' <;> simp_all [ORel, evalNodes]
  | cons n ns ih =>
    intro r r' h
    cases r with
    | none => cases r' with
      | none => trivial
      | some _ => exact absurd h (by simp [ORel])
    | some ρ => cases r' with
      | none => exact absurd h (by simp [ORel])
      | some ρ' =>
        simp only [Option.bind_some, evalNodes]
        exact ih (fun m hm => hr m (by simp [hm])) _ _
          (evalNode_eqOff sem sub H ρ ρ' n h (hr n (by simp)))

theorem evalNodes_append (f : Env V → Node → Option (Env V)) (a b : List Node) : ∀ ρ : Env V,
    evalNodes f ρ (a ++ b) = (evalNodes f ρ a).bind fun ρ' => evalNodes f ρ' b := by
  induction a with
  | nil => intro ρ; rfl
  | cons n a ih =>
    intro ρ
    simp only [List.cons_append, evalNodes]
    cases f ρ n with
    | none => rfl
    | some ρ1 => simp [ih]

/-! ### independent nodes commute -/

/-- `a` and `b` touch disjoint names: neither writes what the other reads or writes. -/
def Indep (a b : Node) : Prop :=
  (∀ x ∈ a.outputs, x ∉ b.reads) ∧ (∀ x ∈ b.outputs, x ∉ a.reads) ∧ (∀ x ∈ a.outputs, x ∉ b.outputs)

theorem setMany_comm (ρ : Env V) (xs ys : List Name) (vs ws : List V) (h : ∀ x ∈ xs, x ∉ ys)
    (hl : xs.length = vs.length) (hl' : ys.length = ws.length) :
    setMany (setMany ρ xs vs) ys ws = setMany (setMany ρ ys ws) xs vs := by
  funext z
  by_cases hy : z ∈ ys
  · have hx : z ∉ xs := fun hx => h z hx hy
    rw [setMany_notMem xs _ _ _ hx]
    exact setMany_mem_indep ys _ _ _ _ hy hl'
  · rw [setMany_notMem ys _ _ _ hy]
    by_cases hx : z ∈ xs
    · exact setMany_mem_indep xs _ _ _ _ hx hl
    · rw [setMany_notMem xs _ _ _ hx, setMany_notMem xs _ _ _ hx, setMany_notMem ys _ _ _ hy]

theorem swap_indep (sem : Sem V) (sub) (ρ : Env V) (a b : Node) (h : Indep a b) :
    evalNodes (evalNode sem sub) ρ [a, b] = evalNodes (evalNode sem sub) ρ [b, a] := by
  obtain ⟨hab, hba, hoo⟩ := h
  simp only [evalNodes]
  rw [evalNode_eq sem sub ρ a, evalNode_eq sem sub ρ b]
  -- values of each node are the same before and after the other ran
  have hbv : ∀ vs, nodeVals sem sub (setMany ρ a.outputs vs) b = nodeVals sem sub ρ b := fun vs =>
    nodeVals_congr sem sub _ _ b (fun x hx => setMany_notMem _ _ _ _ (fun hm => hab x hm hx))
  have hav : ∀ ws, nodeVals sem sub (setMany ρ b.outputs ws) a = nodeVals sem sub ρ a := fun ws =>
    nodeVals_congr sem sub _ _ a (fun x hx => setMany_notMem _ _ _ _ (fun hm => hba x hm hx))
  cases hva : nodeVals sem sub ρ a with
  | none =>
    cases hvb : nodeVals sem sub ρ b with
    | none => rfl
    | some ws =>
      simp only [Option.bind_none, Option.bind_some]
      by_cases hl' : b.outputs.length = ws.length
      · simp only [hl', if_true, Option.bind_some]
        rw [evalNode_eq, hav, hva]; rfl
      · simp [hl']
  | some vs =>
    simp only [Option.bind_some]
    by_cases hl : a.outputs.length = vs.length
    · simp only [hl, if_true, Option.bind_some]
      rw [evalNode_eq, hbv]
      cases hvb : nodeVals sem sub ρ b with
      | none => rfl
      | some ws =>
        simp only [Option.bind_some]
        by_cases hl' : b.outputs.length = ws.length
        · simp only [hl', if_true, Option.bind_some]
          rw [evalNode_eq, hav, hva]
          simp only [Option.bind_some, hl, if_true]
          rw [setMany_comm ρ a.outputs b.outputs vs ws hoo hl hl']
        · simp [hl']
    · simp only [hl, if_false, Option.bind_none]
      cases hvb : nodeVals sem sub ρ b with
      | none => rfl
      | some ws =>
        simp only [Option.bind_some]
        by_cases hl' : b.outputs.length = ws.length
        · simp only [hl', if_true, Option.bind_some]
          rw [evalNode_eq, hav, hva]
          simp [hl]
        · simp [hl']

/-- move one node past a block of nodes it is independent of -/
theorem move_past (sem : Sem V) (sub) (a : Node) (us tl : List Node) (h : ∀ u ∈ us, Indep a u) :
    ∀ ρ : Env V, evalNodes (evalNode sem sub) ρ (a :: us ++ tl) = evalNodes (evalNode sem sub) ρ (us ++ a :: tl) := by
  induction us with
  | nil => intro ρ; rfl
  | cons u us ih =>
    intro ρ
    have hsw := swap_indep sem sub ρ a u (h u (by simp))
    have e1 : a :: (u :: us) ++ tl = [a, u] ++ (us ++ tl) := by simp
    have e2 : (u :: us) ++ a :: tl = [u] ++ (us ++ a :: tl) := by simp
    rw [e1, e2, evalNodes_append, hsw, evalNodes_append]
    have e3 : evalNodes (evalNode sem sub) ρ [u, a] =
        (evalNodes (evalNode sem sub) ρ [u]).bind fun ρ' => evalNodes (evalNode sem sub) ρ' [a] := by
      have : [u, a] = [u] ++ [a] := rfl
      rw [this, evalNodes_append]
    rw [e3, Option.bind_assoc]
    congr 1
    funext ρ1
    have := ih (fun v hv => h v (by simp [hv])) ρ1
    have e4 : a :: us ++ tl = [a] ++ (us ++ tl) := by simp
    rw [e4, evalNodes_append] at this
    exact this

/-- sinking: evaluating `l` = evaluating its unmarked nodes first, then its marked nodes, when
every marked node is independent of every unmarked node that follows it. -/
theorem sink (sem : Sem V) (sub) (P : Node → Bool) (l : List Node)
    (h : List.Pairwise (fun a b => P a = true → P b = false → Indep a b) l) :
    ∀ (tl : List Node) (ρ : Env V), evalNodes (evalNode sem sub) ρ (l ++ tl) =
      evalNodes (evalNode sem sub) ρ (l.filter (fun n => !P n) ++ (l.filter P ++ tl)) := by
  induction l with
  | nil => intro tl ρ; rfl
  | cons a r ih =>
    intro tl ρ
    obtain ⟨ha, hr⟩ := List.pairwise_cons.mp h
    by_cases hp : P a = true
    · have hf1 : (a :: r).filter (fun n => !P n) = r.filter (fun n => !P n) := by simp [List.filter_cons, hp]
      have hf2 : (a :: r).filter P = a :: r.filter P := by simp [List.filter_cons, hp]
      rw [hf1, hf2]
      have step : evalNodes (evalNode sem sub) ρ (a :: r ++ tl) =
          evalNodes (evalNode sem sub) ρ (a :: (r.filter (fun n => !P n) ++ (r.filter P ++ tl))) := by
        simp only [List.cons_append, evalNodes]
        cases evalNode sem sub ρ a with
        | none => rfl
        | some ρ1 => simp only [Option.bind_some]; exact ih hr tl ρ1
      rw [step]
      have := move_past sem sub a (r.filter (fun n => !P n)) (r.filter P ++ tl)
        (fun u hu => by
          have hu' := List.mem_filter.mp hu
          exact ha u hu'.1 hp (by simpa using hu'.2)) ρ
      simpa using this
    · have hp' : P a = false := by simpa using hp
      have hf1 : (a :: r).filter (fun n => !P n) = a :: r.filter (fun n => !P n) := by simp [List.filter_cons, hp']
      have hf2 : (a :: r).filter P = r.filter P := by simp [List.filter_cons, hp']
      rw [hf1, hf2]
      simp only [List.cons_append, evalNodes]
      cases evalNode sem sub ρ a with
      | none => rfl
      | some ρ1 => simp only [Option.bind_some]; exact ih hr tl ρ1

theorem lookupOuts_eqOff (H : List Name) (ρ ρ' : Env V) (outs : List Name) (h : EqOff H ρ ρ')
    (ho : ∀ o ∈ outs, o ∉ H) : lookupOuts ρ outs = lookupOuts ρ' outs := by
  induction outs with
  | nil => rfl
  | cons o r ih =>
    simp only [lookupOuts]
    rw [h o (ho o (by simp)), ih (fun x hx => ho x (by simp [hx]))]

/-! ### writing equivalent bodies back into a node -/

/-- bodies pairwise equal as functions of (enclosing environment, arguments) -/
def BodiesEquiv (sub : Env V → Graph → List (Option V) → Option (List V)) :
    List (String × Graph) → List (String × Graph) → Prop
  | [], [] => True
  | x :: a, y :: b => (∀ ρ vs, sub ρ x.2 vs = sub ρ y.2 vs) ∧ BodiesEquiv sub a b
  | _, _ => False

theorem bodies_map_eq (sub : Env V → Graph → List (Option V) → Option (List V)) (ρ : Env V)
    (a : List (String × Graph)) : ∀ b, BodiesEquiv sub a b →
    (a.map fun sg => fun vs => sub ρ sg.2 vs) = (b.map fun sg => fun vs => sub ρ sg.2 vs) := by
  induction a with
  | nil => intro b h; cases b with
    | nil => rfl
    | cons _ _ => exact absurd h (by simp [BodiesEquiv])
  | cons x a ih => intro b h; cases b with
    | nil => exact absurd h (by simp [BodiesEquiv])
    | cons y b =>
      obtain ⟨hxy, hr⟩ := h
      simp only [List.map_cons, ih b hr]
      congr 1
      funext vs
      exact hxy ρ vs

theorem bodies_isEmpty (sub : Env V → Graph → List (Option V) → Option (List V))
    (a b : List (String × Graph)) (h : BodiesEquiv sub a b) : a.isEmpty = b.isEmpty := by
  cases a <;> cases b <;> simp_all [BodiesEquiv]

theorem evalNode_setBodies (sem : Sem V) (sub) (ρ : Env V) (n : Node) (subs' : List (String × Graph))
    (h : BodiesEquiv sub subs' n.subs) :
    evalNode sem sub ρ (n.setBodies n.caps subs') = evalNode sem sub ρ n := by
  cases n with
  | mk id op dom ov ins outs attrs mp caps subs =>
    simp only [Node.subs] at h
    have hempty := bodies_isEmpty sub subs' subs h
    have hmap := bodies_map_eq sub (ρ.restrict caps) subs' subs h
    simp only [Node.setBodies, Node.caps, Node.subs, Node.id, Node.op, Node.domain, Node.overload, Node.inputs,
      Node.outputs, Node.attrs, Node.mprops, evalNode, nodeOutputs, hempty, hmap]
    rfl

theorem evalNodes_map_congr (f : Env V → Node → Option (Env V)) (g : Node → Node) (l : List Node)
    (h : ∀ n ∈ l, ∀ ρ, f ρ (g n) = f ρ n) : ∀ ρ, evalNodes f ρ (l.map g) = evalNodes f ρ l := by
  induction l with
  | nil => intro ρ; rfl
  | cons a r ih =>
    intro ρ
    simp only [List.map_cons, evalNodes, h a (by simp)]
    cases f ρ a with
    | none => rfl
    | some ρ1 => simp [ih (fun n hn => h n (by simp [hn]))]

end OV.C07

namespace OV.C07
variable {V : Type}

/-! ### a graph's meaning depends on the enclosing environment only through the names it mentions -/

/-- agreement of two environments on `S` -/
def EqOn (S : List Name) (ρ ρ' : Env V) : Prop := ∀ x ∈ S, ρ x = ρ' x

theorem setMany_eqOn (S xs : List Name) (ρ ρ' : Env V) (vs : List V) (hl : xs.length = vs.length)
    (h : EqOn S ρ ρ') : EqOn S (setMany ρ xs vs) (setMany ρ' xs vs) := by
  intro x hx
  by_cases hm : x ∈ xs
  · exact setMany_mem_indep xs _ _ _ _ hm hl
  · rw [setMany_notMem xs _ _ _ hm, setMany_notMem xs _ _ _ hm]; exact h x hx

/-- both fail, or both succeed with environments that agree on `S` -/
def ORelOn (S : List Name) : Option (Env V) → Option (Env V) → Prop
  | some ρ, some ρ' => EqOn S ρ ρ'
  | none, none => True
  | _, _ => False

theorem evalNode_eqOn (sem : Sem V) (sub) (S : List Name) (ρ ρ' : Env V) (n : Node)
    (h : EqOn S ρ ρ') (hr : ∀ x ∈ n.reads, x ∈ S) :
    ORelOn S (evalNode sem sub ρ n) (evalNode sem sub ρ' n) := by
  rw [evalNode_eq, evalNode_eq, nodeVals_congr sem sub ρ ρ' n (fun x hx => h x (hr x hx))]
  cases nodeVals sem sub ρ' n with
  | none => trivial
  | some vs =>
    simp only [Option.bind_some]
    by_cases hl : n.outputs.length = vs.length
    · simp only [hl, if_true]; exact setMany_eqOn S _ _ _ _ hl h
    · simp only [hl, if_false]; trivial

theorem evalNodes_eqOn (sem : Sem V) (sub) (S : List Name) (ns : List Node)
    (hr : ∀ n ∈ ns, ∀ x ∈ n.reads, x ∈ S) : ∀ (ρ ρ' : Env V), EqOn S ρ ρ' →
    ORelOn S (evalNodes (evalNode sem sub) ρ ns) (evalNodes (evalNode sem sub) ρ' ns) := by
  induction ns with
  | nil => intro ρ ρ' h; exact h
  | cons n ns ih =>
    intro ρ ρ' h
    have h1 := evalNode_eqOn sem sub S ρ ρ' n h (hr n (by simp))
    simp only [evalNodes]
    revert h1
    cases evalNode sem sub ρ n <;> cases evalNode sem sub ρ' n <;> intro h1
    · trivial
    · exact absurd h1 (by simp [ORelOn])
    · exact absurd h1 (by simp [ORelOn])
    · simp only [Option.bind_some]
      exact ih (fun m hm => hr m (by simp [hm])) _ _ h1

theorem bindInits_eqOn (sem : Sem V) (S : List Name) (inits : List (Name × String)) :
    ∀ (ρ ρ' : Env V), EqOn S ρ ρ' → EqOn S (bindInits sem ρ inits) (bindInits sem ρ' inits) := by
  induction inits with
  | nil => intro ρ ρ' h; exact h
  | cons p r ih =>
    intro ρ ρ' h
    obtain ⟨x, t⟩ := p
    simp only [bindInits]
    apply ih
    intro y hy
    simp only [Env.set]
    by_cases hxy : y = x
    · simp [hxy]
    · simp [hxy, h y hy]

theorem bindInputs_eqOn (S : List Name) (ins : List Name) :
    ∀ (args : List (Option V)) (ρ ρ' : Env V), EqOn S ρ ρ' →
      ORelOn S (bindInputs ρ ins args) (bindInputs ρ' ins args) := by
  induction ins with
  | nil => intro args ρ ρ' h; cases args <;> simp [bindInputs, ORelOn]; exact h
  | cons x xs ih =>
    intro args ρ ρ' h
    cases args with
    | nil => simp [bindInputs, ORelOn]
    | cons a as =>
      cases a with
      | none => simp only [bindInputs]; exact ih as ρ ρ' h
      | some v =>
        simp only [bindInputs]
        apply ih
        intro y hy
        simp only [Env.set]
        by_cases hxy : y = x
        · simp [hxy]
        · simp [hxy, h y hy]

theorem lookupOuts_eqOn (S : List Name) (ρ ρ' : Env V) (outs : List Name) (h : EqOn S ρ ρ')
    (ho : ∀ o ∈ outs, o ∈ S) : lookupOuts ρ outs = lookupOuts ρ' outs := by
  induction outs with
  | nil => rfl
  | cons o r ih =>
    simp only [lookupOuts]
    rw [h o (ho o (by simp)), ih (fun x hx => ho x (by simp [hx]))]

/-- the names a graph mentions at its own level: what its nodes read (inputs and captures) and its outputs -/
def mentions (g : Graph) : List Name := g.nodes.flatMap (·.reads) ++ g.outputs

/-- **A graph's meaning depends on the enclosing environment only through the names it mentions.** -/
theorem evalGraph_congr_outer (sem : Sem V) (d : Nat) (g : Graph) (outer outer' : Env V)
    (args : List (Option V)) (h : EqOn (mentions g) outer outer') :
    evalGraph sem d outer g args = evalGraph sem d outer' g args := by
  cases d with
  | zero => rfl
  | succ d =>
    simp only [evalGraph, startEnv]
    have h0 := bindInputs_eqOn (mentions g) g.inputs args _ _ (bindInits_eqOn sem (mentions g) g.inits outer outer' h)
    revert h0
    cases bindInputs (bindInits sem outer g.inits) g.inputs args <;>
      cases bindInputs (bindInits sem outer' g.inits) g.inputs args <;> intro h0
    · rfl
    · exact absurd h0 (by simp [ORelOn])
    · exact absurd h0 (by simp [ORelOn])
    · simp only [Option.bind_some]
      have h1 := evalNodes_eqOn sem (evalGraph sem d) (mentions g) g.nodes
        (fun n hn x hx => List.mem_append.mpr (Or.inl (List.mem_flatMap.mpr ⟨n, hn, hx⟩))) _ _ h0
      revert h1
      cases evalNodes (evalNode sem (evalGraph sem d)) _ g.nodes <;>
        cases evalNodes (evalNode sem (evalGraph sem d)) _ g.nodes <;> intro h1
      · rfl
      · exact absurd h1 (by simp [ORelOn])
      · exact absurd h1 (by simp [ORelOn])
      · simp only [Option.bind_some]
        exact lookupOuts_eqOn (mentions g) _ _ g.outputs h1 (fun o ho => List.mem_append.mpr (Or.inr ho))

end OV.C07

namespace OV.C07
variable {V : Type}

/-- rewritten bodies `a` against the old bodies `b` of a node whose captures go from `C` to `C'`:
pairwise equivalent (as functions of enclosing environment and arguments, at depth `d`), and every
formerly captured name a new body still mentions is still captured -/
def BodiesShrink (sem : Sem V) (d : Nat) (C C' : List Name) :
    List (String × Graph) → List (String × Graph) → Prop
  | [], [] => True
  | x :: a, y :: b =>
    ((∀ ρ vs, evalGraph sem d ρ x.2 vs = evalGraph sem d ρ y.2 vs) ∧ (∀ n ∈ mentions x.2, n ∈ C → n ∈ C')) ∧
      BodiesShrink sem d C C' a b
  | _, _ => False

theorem restrict_shrink_eqOn (ρ : Env V) (C C' S : List Name) (hsub : ∀ x ∈ C', x ∈ C)
    (hkeep : ∀ x ∈ S, x ∈ C → x ∈ C') : EqOn S (ρ.restrict C') (ρ.restrict C) := by
  intro x hx
  unfold Env.restrict
  by_cases h' : x ∈ C'
  · simp [h', hsub x h']
  · have : x ∉ C := fun hc => h' (hkeep x hx hc)
    simp [h', this]

theorem bodies_shrink_map_eq (sem : Sem V) (d : Nat) (ρ : Env V) (C C' : List Name) (hsub : ∀ x ∈ C', x ∈ C)
    (a : List (String × Graph)) : ∀ b, BodiesShrink sem d C C' a b →
    (a.map fun sg => fun vs => evalGraph sem d (ρ.restrict C') sg.2 vs) =
      (b.map fun sg => fun vs => evalGraph sem d (ρ.restrict C) sg.2 vs) := by
  induction a with
  | nil => intro b h; cases b with
    | nil => rfl
    | cons _ _ => exact absurd h (by simp [BodiesShrink])
  | cons x a ih => intro b h; cases b with
    | nil => exact absurd h (by simp [BodiesShrink])
    | cons y b =>
      obtain ⟨⟨hxy, hk⟩, hr⟩ := h
      simp only [List.map_cons, ih b hr]
      congr 1
      funext vs
      rw [evalGraph_congr_outer sem d x.2 _ _ vs (restrict_shrink_eqOn ρ C C' (mentions x.2) hsub hk)]
      exact hxy _ vs

theorem bodies_shrink_isEmpty (sem : Sem V) (d : Nat) (C C' : List Name)
    (a b : List (String × Graph)) (h : BodiesShrink sem d C C' a b) : a.isEmpty = b.isEmpty := by
  cases a <;> cases b <;> simp_all [BodiesShrink]

theorem evalNode_setBodies_shrink (sem : Sem V) (d : Nat) (ρ : Env V) (n : Node) (C' : List Name)
    (subs' : List (String × Graph)) (hsub : ∀ x ∈ C', x ∈ n.caps)
    (h : BodiesShrink sem d n.caps C' subs' n.subs) :
    evalNode sem (evalGraph sem d) ρ (n.setBodies C' subs') = evalNode sem (evalGraph sem d) ρ n := by
  cases n with
  | mk id op dom ov ins outs attrs mp caps subs =>
    simp only [Node.subs, Node.caps] at h hsub
    have hempty := bodies_shrink_isEmpty sem d caps C' subs' subs h
    have hmap := bodies_shrink_map_eq sem d ρ caps C' hsub subs' subs h
    simp only [Node.setBodies, Node.caps, Node.subs, Node.id, Node.op, Node.domain, Node.overload, Node.inputs,
      Node.outputs, Node.attrs, Node.mprops, evalNode, nodeOutputs, hempty, hmap]
    rfl

end OV.C07
