import OV.Model.C01Sem
/-!
# Lemmas for C01: soundness of the liveness equations of analysis.py on loop-free code
-/
namespace OV.C01

/-! ## Sets -/

theorem mem_vins {x y : Name} {s : VSet} : y ∈ vins x s ↔ y = x ∨ y ∈ s := by
  induction s with
  | nil => simp [vins]
  | cons z zs ih =>
    unfold vins
    by_cases h1 : x < z
    · simp [h1]
    · by_cases h2 : x = z
      · subst h2; simp [h1]
      · simp only [h1, h2, if_false, List.mem_cons, ih]
        constructor
        · rintro (h | h | h)
          · exact Or.inr (Or.inl h)
          · exact Or.inl h
          · exact Or.inr (Or.inr h)
        · rintro (h | h | h)
          · exact Or.inr (Or.inl h)
          · exact Or.inl h
          · exact Or.inr (Or.inr h)

theorem mem_vofList {y : Name} {l : List Name} : y ∈ vofList l ↔ y ∈ l := by
  induction l with
  | nil => simp [vofList]
  | cons x xs ih =>
    have : vofList (x :: xs) = vins x (vofList xs) := by simp [vofList]
    rw [this, mem_vins, ih]; simp

theorem mem_vunion {y : Name} {a b : VSet} : y ∈ vunion a b ↔ y ∈ a ∨ y ∈ b := by
  induction a with
  | nil => simp [vunion]
  | cons x xs ih =>
    have : vunion (x :: xs) b = vins x (vunion xs b) := by simp [vunion]
    rw [this, mem_vins, ih]
    simp only [List.mem_cons]
    constructor
    · rintro (h | h | h)
      · exact Or.inl (Or.inl h)
      · exact Or.inl (Or.inr h)
      · exact Or.inr h
    · rintro ((h | h) | h)
      · exact Or.inl h
      · exact Or.inr (Or.inl h)
      · exact Or.inr (Or.inr h)

theorem mem_vdiff {y : Name} {a b : VSet} : y ∈ vdiff a b ↔ y ∈ a ∧ y ∉ b := by
  simp [vdiff]

/-! ## Agreement of stores -/

def Agree {V} (L : VSet) (ρ1 ρ2 : Store V) : Prop := ∀ x, x ∈ L → ρ1 x = ρ2 x

theorem Agree.mono {V} {L L' : VSet} {ρ1 ρ2 : Store V} (h : Agree L ρ1 ρ2) (hs : ∀ x, x ∈ L' → x ∈ L) :
    Agree L' ρ1 ρ2 := fun x hx => h x (hs x hx)

theorem Agree.set {V} {L : VSet} {ρ1 ρ2 : Store V} {x : Name} {v : PV V}
    (h : Agree (vdiff L [x]) ρ1 ρ2) : Agree L (ρ1.set x v) (ρ2.set x v) := by
  intro y hy
  unfold Store.set
  by_cases hyx : y = x
  · simp [hyx]
  · simp only [hyx, if_false]
    exact h y (mem_vdiff.mpr ⟨hy, by simpa using hyx⟩)

theorem Agree.setMany {V} : ∀ (xs : List Name) (vs : List (PV V)) {L : VSet} {ρ1 ρ2 : Store V},
    vs.length = xs.length →
    Agree (vdiff L (vofList xs)) ρ1 ρ2 → Agree L (ρ1.setMany xs vs) (ρ2.setMany xs vs) := by
  intro xs
  induction xs with
  | nil =>
    intro vs L ρ1 ρ2 hl h
    cases vs with
    | nil =>
      unfold Store.setMany
      exact h.mono (fun x hx => mem_vdiff.mpr ⟨hx, by simp [vofList]⟩)
    | cons v vs => simp at hl
  | cons x xs ih =>
    intro vs L ρ1 ρ2 hl h
    cases vs with
    | nil => simp at hl
    | cons v vs =>
      unfold Store.setMany
      apply ih _ (by simpa using hl)
      intro y hy
      have hy' := mem_vdiff.mp hy
      unfold Store.set
      by_cases hyx : y = x
      · simp [hyx]
      · simp only [hyx, if_false]
        apply h y
        apply mem_vdiff.mpr
        refine ⟨hy'.1, ?_⟩
        intro hm
        rcases (mem_vofList.mp hm) with _ | ⟨_, hm'⟩
        · exact hyx rfl
        · exact hy'.2 (mem_vofList.mpr hm')

/-! ## Expressions read only their used variables -/

mutual
theorem evalExpr_agree {V} (S : Sem V) (ρ1 ρ2 : Store V) : ∀ (e : Expr),
    Agree (usedVars e) ρ1 ρ2 → evalExpr S ρ1 e = evalExpr S ρ2 e
  | .var x, h => by
    unfold evalExpr
    exact h x (by simp [usedVars])
  | .lit l, h => by unfold evalExpr; rfl
  | .call dom op sig args attrs, h => by
    unfold evalExpr
    rw [evalExprs_agree S ρ1 ρ2 args (h.mono (fun x hx => by
      unfold usedVars; exact mem_vunion.mpr (Or.inl hx)))]
  | .binop o a b, h => by
    unfold evalExpr
    rw [evalExpr_agree S ρ1 ρ2 a (h.mono (fun x hx => by unfold usedVars; exact mem_vunion.mpr (Or.inl hx))),
        evalExpr_agree S ρ1 ρ2 b (h.mono (fun x hx => by unfold usedVars; exact mem_vunion.mpr (Or.inr hx)))]
  | .unop o a, h => by
    unfold evalExpr
    rw [evalExpr_agree S ρ1 ρ2 a (h.mono (fun x hx => by unfold usedVars; exact hx))]
  | .cmp o a b, h => by
    unfold evalExpr
    rw [evalExpr_agree S ρ1 ρ2 a (h.mono (fun x hx => by unfold usedVars; exact mem_vunion.mpr (Or.inl hx))),
        evalExpr_agree S ρ1 ρ2 b (h.mono (fun x hx => by unfold usedVars; exact mem_vunion.mpr (Or.inr hx)))]
  | .other us, h => by unfold evalExpr; rfl
theorem evalExprs_agree {V} (S : Sem V) (ρ1 ρ2 : Store V) : ∀ (es : List Expr),
    Agree (usedVarsL es) ρ1 ρ2 → evalExprs S ρ1 es = evalExprs S ρ2 es
  | [], h => by unfold evalExprs; rfl
  | e :: es, h => by
    unfold evalExprs
    rw [evalExpr_agree S ρ1 ρ2 e (h.mono (fun x hx => by unfold usedVarsL; exact mem_vunion.mpr (Or.inl hx))),
        evalExprs_agree S ρ1 ρ2 es (h.mono (fun x hx => by unfold usedVarsL; exact mem_vunion.mpr (Or.inr hx)))]
end

/-! ## Statements -/

/-- Two runs are indistinguishable as far as the variables in `lo` are concerned. -/
def OutRel {V} (lo : VSet) : Option (Outcome V) → Option (Outcome V) → Prop
  | none, none => True
  | some (.normal a), some (.normal b) => Agree lo a b
  | some (.broke _), some (.broke _) => True
  | some (.returned v), some (.returned w) => v = w
  | _, _ => False

theorem OutRel.refl_none {V} (lo : VSet) : OutRel (V := V) lo none none := trivial

mutual
theorem liveStmt_sound {V} (S : Sem V) (fuel : Nat) : ∀ (st : Stmt) (lo : VSet) (ρ1 ρ2 : Store V),
    loopFree st = true → Agree (liveInStmt st lo) ρ1 ρ2 →
    OutRel lo (evalStmt S fuel st ρ1) (evalStmt S fuel st ρ2)
  | .assign x e, lo, ρ1, ρ2, _, h => by
    unfold liveInStmt at h
    unfold evalStmt
    rw [evalExpr_agree S ρ1 ρ2 e (h.mono (fun y hy => mem_vunion.mpr (Or.inr hy)))]
    cases evalExpr S ρ2 e with
    | none => exact trivial
    | some v => exact Agree.set (h.mono (fun y hy => mem_vunion.mpr (Or.inl hy)))
  | .par xs es, lo, ρ1, ρ2, _, h => by
    unfold liveInStmt at h
    unfold evalStmt
    rw [evalExprs_agree S ρ1 ρ2 es (h.mono (fun y hy => mem_vunion.mpr (Or.inr hy)))]
    cases evalExprs S ρ2 es with
    | none => exact trivial
    | some vs =>
      by_cases hl : vs.length = xs.length
      · simp only [hl, if_true]
        exact Agree.setMany xs vs hl (h.mono (fun y hy => mem_vunion.mpr (Or.inl hy)))
      · simp only [hl, if_false]; exact trivial
  | .tuple xs e, lo, ρ1, ρ2, _, h => by
    cases e with
    | call dom op sig args attrs =>
      unfold liveInStmt at h
      unfold evalStmt
      simp only
      rw [evalExprs_agree S ρ1 ρ2 args (h.mono (fun y hy => mem_vunion.mpr (Or.inr (by
        unfold usedVars; exact mem_vunion.mpr (Or.inl hy)))))]
      cases evalExprs S ρ2 args with
      | none => exact trivial
      | some vs =>
        simp only
        cases applyOp S dom op sig vs attrs with
        | none => exact trivial
        | some rs =>
          simp only
          by_cases hl : rs.length = xs.length
          · simp only [hl, if_true]
            exact Agree.setMany xs _ (by simpa using hl) (h.mono (fun y hy => mem_vunion.mpr (Or.inl hy)))
          · simp only [hl, if_false]; exact trivial
    | _ => unfold evalStmt; exact trivial
  | .badAssign xs e, lo, ρ1, ρ2, _, h => by unfold evalStmt; exact trivial
  | .ite c t e, lo, ρ1, ρ2, hf, h => by
    unfold liveInStmt at h
    unfold loopFree at hf
    simp only [Bool.and_eq_true] at hf
    unfold evalStmt
    rw [evalExpr_agree S ρ1 ρ2 c (h.mono (fun y hy => mem_vunion.mpr (Or.inr hy)))]
    cases evalExpr S ρ2 c with
    | none => exact trivial
    | some cv =>
      simp only
      cases truthPV S cv with
      | none => exact trivial
      | some b =>
        cases b with
        | true =>
          exact liveBlock_sound S fuel t lo ρ1 ρ2 hf.1
            (h.mono (fun y hy => mem_vunion.mpr (Or.inl (mem_vunion.mpr (Or.inl hy)))))
        | false =>
          exact liveBlock_sound S fuel e lo ρ1 ρ2 hf.2
            (h.mono (fun y hy => mem_vunion.mpr (Or.inl (mem_vunion.mpr (Or.inr hy)))))
  | .for_ i ok b body, lo, ρ1, ρ2, hf, h => by unfold loopFree at hf; cases hf
  | .while_ c body, lo, ρ1, ρ2, hf, h => by unfold loopFree at hf; cases hf
  | .brk c, lo, ρ1, ρ2, _, h => by
    unfold liveInStmt at h
    unfold evalStmt
    rw [evalExpr_agree S ρ1 ρ2 c (h.mono (fun y hy => mem_vunion.mpr (Or.inr hy)))]
    cases evalExpr S ρ2 c with
    | none => exact trivial
    | some cv =>
      simp only
      cases truthPV S cv with
      | none => exact trivial
      | some b =>
        cases b with
        | true => exact trivial
        | false => exact h.mono (fun y hy => mem_vunion.mpr (Or.inl hy))
  | .ret es bare, lo, ρ1, ρ2, _, h => by
    unfold liveInStmt at h
    unfold evalStmt
    rw [evalExprs_agree S ρ1 ρ2 es h]
    cases evalExprs S ρ2 es with
    | none => exact trivial
    | some vs => exact rfl
  | .skip, lo, ρ1, ρ2, _, h => by
    unfold liveInStmt at h
    unfold evalStmt
    exact h
  | .unsupported, lo, ρ1, ρ2, _, h => by unfold evalStmt; exact trivial
theorem liveBlock_sound {V} (S : Sem V) (fuel : Nat) : ∀ (ss : List Stmt) (lo : VSet) (ρ1 ρ2 : Store V),
    loopFreeL ss = true → Agree (liveInBlock ss lo) ρ1 ρ2 →
    OutRel lo (evalBlock S fuel ss ρ1) (evalBlock S fuel ss ρ2)
  | [], lo, ρ1, ρ2, _, h => by
    unfold liveInBlock at h
    unfold evalBlock
    exact h
  | st :: ss, lo, ρ1, ρ2, hf, h => by
    unfold liveInBlock at h
    unfold loopFreeL at hf
    simp only [Bool.and_eq_true] at hf
    have h1 := liveStmt_sound S fuel st (liveInBlock ss lo) ρ1 ρ2 hf.1 h
    unfold evalBlock
    cases ho1 : evalStmt S fuel st ρ1 with
    | none =>
      cases ho2 : evalStmt S fuel st ρ2 with
      | none => exact trivial
      | some o2 => rw [ho1, ho2] at h1; cases o2 <;> exact h1.elim
    | some o1 =>
      cases ho2 : evalStmt S fuel st ρ2 with
      | none => rw [ho1, ho2] at h1; cases o1 <;> exact h1.elim
      | some o2 =>
        rw [ho1, ho2] at h1
        cases o1 with
        | normal a =>
          cases o2 with
          | normal b => exact liveBlock_sound S fuel ss lo a b hf.2 h1
          | broke b => exact h1.elim
          | returned w => exact h1.elim
        | broke a =>
          cases o2 with
          | normal b => exact h1.elim
          | broke b => exact trivial
          | returned w => exact h1.elim
        | returned v =>
          cases o2 with
          | normal b => exact h1.elim
          | broke b => exact h1.elim
          | returned w => exact h1
end

/-! ## Graph evaluation of control-flow-free node lists does not depend on the fuel -/

theorem evalNodes_opsOnly_fuel {V : Type} (S : Sem V) (f1 f2 : Nat) :
    ∀ (ns : List Node) (ρ : Env V), opsOnly ns = true → evalNodes S f1 ρ ns = evalNodes S f2 ρ ns := by
  intro ns
  induction ns with
  | nil => intro ρ _; simp [evalNodes]
  | cons n ns ih =>
    intro ρ h
    cases n with
    | op dom name ins outs attrs =>
      simp only [opsOnly] at h
      simp only [evalNodes, evalNode]
      cases ins.mapM ρ.getOpt with
      | none => rfl
      | some vs =>
        simp only
        cases S.op dom name vs attrs with
        | none => rfl
        | some rs =>
          simp only
          by_cases hl : rs.length = outs.length
          · simp only [hl, if_true]; exact ih _ h
          · simp only [hl, if_false]
    | ifN c outs tn to en eo => exact Bool.noConfusion (show false = true from h)
    | loop b c inits outs bi bn bo => exact Bool.noConfusion (show false = true from h)


end OV.C01
