import OV.Model.C01Sem
/-!
# Lemmas for C01: soundness of the liveness equations of analysis.py on loop-free code
-/
namespace OV.C01

/-! ## Sets -/

theorem mem_vins {x y : Name} {s : VSet} : y ∈ vins x s ↔ y = x ∨ y ∈ s := by
  induction s with
  | nil => simp [vins]
  | cons z zs ih =>
    unfold vins
    by_cases h1 : x < z
    · simp [h1]
    · by_cases h2 : x = z
      · subst h2; simp [h1]
      · simp only [h1, h2, if_false, List.mem_cons, ih]
        constructor
        · rintro (h | h | h)
          · exact Or.inr (Or.inl h)
          · exact Or.inl h
          · exact Or.inr (Or.inr h)
        · rintro (h | h | h)
          · exact Or.inr (Or.inl h)
          · exact Or.inl h
          · exact Or.inr (Or.inr h)

theorem mem_vofList {y : Name} {l : List Name} : y ∈ vofList l ↔ y ∈ l := by
  induction l with
  | nil => simp [vofList]
  | cons x xs ih =>
    have : vofList (x :: xs) = vins x (vofList xs) := by simp [vofList]
    rw [this, mem_vins, ih]; simp

theorem mem_vunion {y : Name} {a b : VSet} : y ∈ vunion a b ↔ y ∈ a ∨ y ∈ b := by
  induction a with
  | nil => simp [vunion]
  | cons x xs ih =>
    have : vunion (x :: xs) b = vins x (vunion xs b) := by simp [vunion]
    rw [this, mem_vins, ih]
    simp only [List.mem_cons]
    constructor
    · rintro (h | h | h)
      · exact Or.inl (Or.inl h)
      · exact Or.inl (Or.inr h)
      · exact Or.inr h
    · rintro ((h | h) | h)
      · exact Or.inl h
      · exact Or.inr (Or.inl h)
      · exact Or.inr (Or.inr h)

theorem mem_vdiff {y : Name} {a b : VSet} : y ∈ vdiff a b ↔ y ∈ a ∧ y ∉ b := by
  simp [vdiff]

/-! ## Agreement of stores -/

def Agree {V} (L : VSet) (ρ1 ρ2 : Store V) : Prop := ∀ x, x ∈ L → ρ1 x = ρ2 x

theorem Agree.mono {V} {L L' : VSet} {ρ1 ρ2 : Store V} (h : Agree L ρ1 ρ2) (hs : ∀ x, x ∈ L' → x ∈ L) :
    Agree L' ρ1 ρ2 := fun x hx => h x (hs x hx)

theorem Agree.set {V} {L : VSet} {ρ1 ρ2 : Store V} {x : Name} {v : PV V}
    (h : Agree (vdiff L [x]) ρ1 ρ2) : Agree L (ρ1.set x v) (ρ2.set x v) := by
  intro y hy
  unfold Store.set
  by_cases hyx : y = x
  · simp [hyx]
  · simp only [hyx, if_false]
    exact h y (mem_vdiff.mpr ⟨hy, by simpa using hyx⟩)

theorem Agree.setMany {V} : ∀ (xs : List Name) (vs : List (PV V)) {L : VSet} {ρ1 ρ2 : Store V},
    vs.length = xs.length →
    Agree (vdiff L (vofList xs)) ρ1 ρ2 → Agree L (ρ1.setMany xs vs) (ρ2.setMany xs vs) := by
  intro xs
  induction xs with
  | nil =>
    intro vs L ρ1 ρ2 hl h
    cases vs with
    | nil =>
      unfold Store.setMany
      exact h.mono (fun x hx => mem_vdiff.mpr ⟨hx, by simp [vofList]⟩)
    | cons v vs => simp at hl
  | cons x xs ih =>
    intro vs L ρ1 ρ2 hl h
    cases vs with
    | nil => simp at hl
    | cons v vs =>
      unfold Store.setMany
      apply ih _ (by simpa using hl)
      intro y hy
      have hy' := mem_vdiff.mp hy
      unfold Store.set
      by_cases hyx : y = x
      · simp [hyx]
      · simp only [hyx, if_false]
        apply h y
        apply mem_vdiff.mpr
        refine ⟨hy'.1, ?_⟩
        intro hm
        rcases (mem_vofList.mp hm) with _ | ⟨_, hm'⟩
        · exact hyx rfl
        · exact hy'.2 (mem_vofList.mpr hm')

/-! ## Expressions read only their used variables -/

mutual
theorem evalExpr_agree {V} (S : Sem V) (ρ1 ρ2 : Store V) : ∀ (e : Expr),
    Agree (usedVars e) ρ1 ρ2 → evalExpr S ρ1 e = evalExpr S ρ2 e
  | .var x, h => by
    unfold evalExpr
    rw [h x (by simp [usedVars])]
  | .lit l, h => by unfold evalExpr; rfl
  | .call dom op sig args attrs, h => by
    unfold evalExpr
    rw [evalExprs_agree S ρ1 ρ2 args (h.mono (fun x hx => by
      unfold usedVars; exact mem_vunion.mpr (Or.inl hx)))]
  | .binop o a b, h => by
    unfold evalExpr
    rw [evalExpr_agree S ρ1 ρ2 a (h.mono (fun x hx => by unfold usedVars; exact mem_vunion.mpr (Or.inl hx))),
        evalExpr_agree S ρ1 ρ2 b (h.mono (fun x hx => by unfold usedVars; exact mem_vunion.mpr (Or.inr hx)))]
  | .unop o a, h => by
    unfold evalExpr
    rw [evalExpr_agree S ρ1 ρ2 a (h.mono (fun x hx => by unfold usedVars; exact hx))]
  | .cmp o a b, h => by
    unfold evalExpr
    rw [evalExpr_agree S ρ1 ρ2 a (h.mono (fun x hx => by unfold usedVars; exact mem_vunion.mpr (Or.inl hx))),
        evalExpr_agree S ρ1 ρ2 b (h.mono (fun x hx => by unfold usedVars; exact mem_vunion.mpr (Or.inr hx)))]
  | .subscript base idx, h => by unfold evalExpr; rfl
  | .other us, h => by unfold evalExpr; rfl
theorem evalExprs_agree {V} (S : Sem V) (ρ1 ρ2 : Store V) : ∀ (es : List Expr),
    Agree (usedVarsL es) ρ1 ρ2 → evalExprs S ρ1 es = evalExprs S ρ2 es
  | [], h => by unfold evalExprs; rfl
  | e :: es, h => by
    unfold evalExprs
    rw [evalExpr_agree S ρ1 ρ2 e (h.mono (fun x hx => by unfold usedVarsL; exact mem_vunion.mpr (Or.inl hx))),
        evalExprs_agree S ρ1 ρ2 es (h.mono (fun x hx => by unfold usedVarsL; exact mem_vunion.mpr (Or.inr hx)))]
end

/-! ## Statements -/

/-- Two runs are indistinguishable as far as the variables in `lo` are concerned. -/
def OutRel {V} (lo : VSet) : Option (Outcome V) → Option (Outcome V) → Prop
  | none, none => True
  | some (.normal a), some (.normal b) => Agree lo a b
  | some (.broke _), some (.broke _) => True
  | some (.returned v), some (.returned w) => v = w
  | _, _ => False

theorem OutRel.refl_none {V} (lo : VSet) : OutRel (V := V) lo none none := trivial

mutual
theorem liveStmt_sound {V} (S : Sem V) (fuel : Nat) : ∀ (st : Stmt) (lo : VSet) (ρ1 ρ2 : Store V),
    loopFree st = true → Agree (liveInStmt st lo) ρ1 ρ2 →
    OutRel lo (evalStmt S fuel st ρ1) (evalStmt S fuel st ρ2)
  | .assign x e, lo, ρ1, ρ2, _, h => by
    unfold liveInStmt at h
    unfold evalStmt
    rw [evalExpr_agree S ρ1 ρ2 e (h.mono (fun y hy => mem_vunion.mpr (Or.inr hy)))]
    cases evalExpr S ρ2 e with
    | none => exact trivial
    | some v => exact Agree.set (h.mono (fun y hy => mem_vunion.mpr (Or.inl hy)))
  | .par xs es, lo, ρ1, ρ2, _, h => by
    unfold liveInStmt at h
    unfold evalStmt
    rw [evalExprs_agree S ρ1 ρ2 es (h.mono (fun y hy => mem_vunion.mpr (Or.inr hy)))]
    cases evalExprs S ρ2 es with
    | none => exact trivial
    | some vs =>
      by_cases hl : vs.length = xs.length
      · simp only [hl, if_true]
        exact Agree.setMany xs vs hl (h.mono (fun y hy => mem_vunion.mpr (Or.inl hy)))
      · simp only [hl, if_false]; exact trivial
  | .tuple xs e, lo, ρ1, ρ2, _, h => by
    cases e with
    | call dom op sig args attrs =>
      unfold liveInStmt at h
      unfold evalStmt
      simp only
      rw [evalExprs_agree S ρ1 ρ2 args (h.mono (fun y hy => mem_vunion.mpr (Or.inr (by
        unfold usedVars; exact mem_vunion.mpr (Or.inl hy)))))]
      cases evalExprs S ρ2 args with
      | none => exact trivial
      | some vs =>
        simp only
        cases applyOp S dom op sig vs attrs with
        | none => exact trivial
        | some rs =>
          simp only
          by_cases hl : rs.length = xs.length
          · simp only [hl, if_true]
            exact Agree.setMany xs _ (by simpa using hl) (h.mono (fun y hy => mem_vunion.mpr (Or.inl hy)))
          · simp only [hl, if_false]; exact trivial
    | _ => unfold evalStmt; exact trivial
  | .badAssign xs e, lo, ρ1, ρ2, _, h => by unfold evalStmt; exact trivial
  | .ite c t e, lo, ρ1, ρ2, hf, h => by
    unfold liveInStmt at h
    unfold loopFree at hf
    simp only [Bool.and_eq_true] at hf
    unfold evalStmt
    rw [evalExpr_agree S ρ1 ρ2 c (h.mono (fun y hy => mem_vunion.mpr (Or.inr hy)))]
    cases evalExpr S ρ2 c with
    | none => exact trivial
    | some cv =>
      simp only
      cases truthPV S cv with
      | none => exact trivial
      | some b =>
        cases b with
        | true =>
          exact liveBlock_sound S fuel t lo ρ1 ρ2 hf.1
            (h.mono (fun y hy => mem_vunion.mpr (Or.inl (mem_vunion.mpr (Or.inl hy)))))
        | false =>
          exact liveBlock_sound S fuel e lo ρ1 ρ2 hf.2
            (h.mono (fun y hy => mem_vunion.mpr (Or.inl (mem_vunion.mpr (Or.inr hy)))))
  | .for_ i ok b body, lo, ρ1, ρ2, hf, h => by unfold loopFree at hf; cases hf
  | .while_ c body, lo, ρ1, ρ2, hf, h => by unfold loopFree at hf; cases hf
  | .brk c, lo, ρ1, ρ2, _, h => by
    unfold liveInStmt at h
    unfold evalStmt
    rw [evalExpr_agree S ρ1 ρ2 c (h.mono (fun y hy => mem_vunion.mpr (Or.inr hy)))]
    cases evalExpr S ρ2 c with
    | none => exact trivial
    | some cv =>
      simp only
      cases truthPV S cv with
      | none => exact trivial
      | some b =>
        cases b with
        | true => exact trivial
        | false => exact h.mono (fun y hy => mem_vunion.mpr (Or.inl hy))
  | .ret es bare, lo, ρ1, ρ2, _, h => by
    unfold liveInStmt at h
    unfold evalStmt
    rw [evalExprs_agree S ρ1 ρ2 es h]
    cases evalExprs S ρ2 es with
    | none => exact trivial
    | some vs => exact rfl
  | .skip, lo, ρ1, ρ2, _, h => by
    unfold liveInStmt at h
    unfold evalStmt
    exact h
  | .unsupported, lo, ρ1, ρ2, _, h => by unfold evalStmt; exact trivial
theorem liveBlock_sound {V} (S : Sem V) (fuel : Nat) : ∀ (ss : List Stmt) (lo : VSet) (ρ1 ρ2 : Store V),
    loopFreeL ss = true → Agree (liveInBlock ss lo) ρ1 ρ2 →
    OutRel lo (evalBlock S fuel ss ρ1) (evalBlock S fuel ss ρ2)
  | [], lo, ρ1, ρ2, _, h => by
    unfold liveInBlock at h
    unfold evalBlock
    exact h
  | st :: ss, lo, ρ1, ρ2, hf, h => by
    unfold liveInBlock at h
    unfold loopFreeL at hf
    simp only [Bool.and_eq_true] at hf
    have h1 := liveStmt_sound S fuel st (liveInBlock ss lo) ρ1 ρ2 hf.1 h
    unfold evalBlock
    cases ho1 : evalStmt S fuel st ρ1 with
    | none =>
      cases ho2 : evalStmt S fuel st ρ2 with
      | none => exact trivial
      | some o2 => rw [ho1, ho2] at h1; cases o2 <;> exact h1.elim
    | some o1 =>
      cases ho2 : evalStmt S fuel st ρ2 with
      | none => rw [ho1, ho2] at h1; cases o1 <;> exact h1.elim
      | some o2 =>
        rw [ho1, ho2] at h1
        cases o1 with
        | normal a =>
          cases o2 with
          | normal b => exact liveBlock_sound S fuel ss lo a b hf.2 h1
          | broke b => exact h1.elim
          | returned w => exact h1.elim
        | broke a =>
          cases o2 with
          | normal b => exact h1.elim
          | broke b => exact trivial
          | returned w => exact h1.elim
        | returned v =>
          cases o2 with
          | normal b => exact h1.elim
          | broke b => exact h1.elim
          | returned w => exact h1
end

/-! ## Liveness soundness with loops (fixed equations of commit 4304e8f) -/

theorem vsubset_mem {a b : VSet} (h : vsubset a b = true) : ∀ x, x ∈ a → x ∈ b := by
  intro x hx
  simp only [vsubset, List.all_eq_true, List.contains_iff_mem] at h
  exact h x hx

/-- As `OutRel`, but two runs that end in a `break` agree on `lo` as well. -/
def OutRelB {V} (lo : VSet) : Option (Outcome V) → Option (Outcome V) → Prop
  | none, none => True
  | some (.normal a), some (.normal b) => Agree lo a b
  | some (.broke a), some (.broke b) => Agree lo a b
  | some (.returned v), some (.returned w) => v = w
  | _, _ => False

theorem iterFor_not_broke {V} (S : Sem V) (i : Name) (body : Store V → Option (Outcome V)) :
    ∀ (left k : Nat) (ρ r : Store V), iterFor S i body left k ρ ≠ some (.broke r) := by
  intro left
  induction left with
  | zero => intro k ρ r h; simp [iterFor] at h
  | succ n ih =>
    intro k ρ r h
    unfold iterFor at h
    cases hb : body (ρ.set i (.t (S.ofNat k))) with
    | none => simp [hb] at h
    | some o =>
      cases o with
      | normal ρ' => simp only [hb] at h; exact ih _ _ _ h
      | broke ρ' => simp [hb] at h
      | returned vs => simp [hb] at h

theorem iterWhile_not_broke {V} (cond : Store V → Option Bool) (body : Store V → Option (Outcome V)) :
    ∀ (fuel : Nat) (ρ r : Store V), iterWhile cond body fuel ρ ≠ some (.broke r) := by
  intro fuel
  induction fuel with
  | zero => intro ρ r h; simp [iterWhile] at h
  | succ n ih =>
    intro ρ r h
    unfold iterWhile at h
    cases hc : cond ρ with
    | none => simp [hc] at h
    | some b =>
      cases b with
      | false => simp [hc] at h
      | true =>
        simp only [hc] at h
        cases hb : body ρ with
        | none => simp [hb] at h
        | some o =>
          cases o with
          | normal ρ' => simp only [hb] at h; exact ih _ _ h
          | broke ρ' => simp [hb] at h
          | returned vs => simp [hb] at h

mutual
theorem noBrk_stmt {V} (S : Sem V) (fuel : Nat) : ∀ (st : Stmt), noBrkS st = true →
    ∀ (ρ r : Store V), evalStmt S fuel st ρ ≠ some (.broke r)
  | .assign x e, _, ρ, r, h => by
    unfold evalStmt at h
    cases he : evalExpr S ρ e <;> simp [he] at h
  | .par xs es, _, ρ, r, h => by
    unfold evalStmt at h
    cases he : evalExprs S ρ es with
    | none => simp [he] at h
    | some vs =>
      simp only [he] at h
      by_cases hl : vs.length = xs.length <;> simp [hl] at h
  | .tuple xs e, _, ρ, r, h => by
    cases e with
    | call dom op sig args attrs =>
      unfold evalStmt at h
      simp only at h
      cases he : evalExprs S ρ args with
      | none => simp [he] at h
      | some vs =>
        simp only [he] at h
        cases ha : applyOp S dom op sig vs attrs with
        | none => simp [ha] at h
        | some rs =>
          simp only [ha] at h
          by_cases hl : rs.length = xs.length <;> simp [hl] at h
    | _ => unfold evalStmt at h; simp at h
  | .badAssign xs e, _, ρ, r, h => by unfold evalStmt at h; simp at h
  | .ite c t e, hn, ρ, r, h => by
    unfold noBrkS at hn
    simp only [Bool.and_eq_true] at hn
    unfold evalStmt at h
    cases hc : evalExpr S ρ c with
    | none => simp [hc] at h
    | some cv =>
      simp only [hc] at h
      cases ht : truthPV S cv with
      | none => simp [ht] at h
      | some b =>
        cases b with
        | true => simp only [ht] at h; exact noBrk_block S fuel t hn.1 ρ r h
        | false => simp only [ht] at h; exact noBrk_block S fuel e hn.2 ρ r h
  | .for_ i ok b body, _, ρ, r, h => by
    unfold evalStmt at h
    by_cases hok : (!ok) = true
    · rw [if_pos hok] at h; cases h
    · rw [if_neg hok] at h
      cases hb : evalExpr S ρ b with
      | none => simp [hb] at h
      | some bv =>
        simp only [hb] at h
        cases hn : natPV S bv with
        | none => simp [hn] at h
        | some n => simp only [hn] at h; exact iterFor_not_broke S i _ _ _ _ _ h
  | .while_ c body, _, ρ, r, h => by
    unfold evalStmt at h
    exact iterWhile_not_broke _ _ _ _ _ h
  | .brk c, hn, ρ, r, h => by unfold noBrkS at hn; cases hn
  | .ret es b, _, ρ, r, h => by
    unfold evalStmt at h
    cases he : evalExprs S ρ es <;> simp [he] at h
  | .skip, _, ρ, r, h => by unfold evalStmt at h; simp at h
  | .unsupported, _, ρ, r, h => by unfold evalStmt at h; simp at h
theorem noBrk_block {V} (S : Sem V) (fuel : Nat) : ∀ (ss : List Stmt), noBrkL ss = true →
    ∀ (ρ r : Store V), evalBlock S fuel ss ρ ≠ some (.broke r)
  | [], _, ρ, r, h => by unfold evalBlock at h; simp at h
  | st :: ss, hn, ρ, r, h => by
    unfold noBrkL at hn
    simp only [Bool.and_eq_true] at hn
    unfold evalBlock at h
    cases hs : evalStmt S fuel st ρ with
    | none => simp [hs] at h
    | some o =>
      cases o with
      | normal ρ' => simp only [hs] at h; exact noBrk_block S fuel ss hn.2 ρ' r h
      | broke ρ' => exact noBrk_stmt S fuel st hn.1 ρ ρ' hs
      | returned vs => simp [hs] at h
end

theorem outRel_upgrade {V} {lo : VSet} {o1 o2 : Option (Outcome V)} (h : OutRel lo o1 o2)
    (hn : ∀ r, o1 ≠ some (.broke r)) : OutRelB lo o1 o2 := by
  cases o1 with
  | none => cases o2 with
    | none => exact trivial
    | some b => cases b <;> exact h.elim
  | some a =>
    cases a with
    | normal x => cases o2 with
      | none => exact h.elim
      | some b => cases b with
        | normal y => exact h
        | broke y => exact h.elim
        | returned w => exact h.elim
    | broke x => exact absurd rfl (hn x)
    | returned v => cases o2 with
      | none => exact h.elim
      | some b => cases b with
        | normal y => exact h.elim
        | broke y => exact h.elim
        | returned w => exact h

theorem iterFor_agree {V} (S : Sem V) (i : Name) (body : Store V → Option (Outcome V)) (F Lb lo : VSet)
    (hbody : ∀ ρ1 ρ2, Agree Lb ρ1 ρ2 → OutRelB F (body ρ1) (body ρ2))
    (hsub : ∀ y, y ∈ Lb → y ≠ i → y ∈ F) (hlo : ∀ y, y ∈ lo → y ∈ F) :
    ∀ (left k : Nat) (ρ1 ρ2 : Store V), Agree F ρ1 ρ2 →
      OutRelB lo (iterFor S i body left k ρ1) (iterFor S i body left k ρ2) := by
  intro left
  induction left with
  | zero => intro k ρ1 ρ2 h; simp only [iterFor]; exact h.mono hlo
  | succ n ih =>
    intro k ρ1 ρ2 h
    simp only [iterFor]
    have hb := hbody (ρ1.set i (.t (S.ofNat k))) (ρ2.set i (.t (S.ofNat k))) (by
      intro y hy
      unfold Store.set
      by_cases hyi : y = i
      · simp [hyi]
      · simp only [hyi, if_false]; exact h y (hsub y hy hyi))
    cases h1 : body (ρ1.set i (.t (S.ofNat k))) with
    | none =>
      cases h2 : body (ρ2.set i (.t (S.ofNat k))) with
      | none => exact trivial
      | some o2 => rw [h1, h2] at hb; cases o2 <;> exact hb.elim
    | some o1 =>
      cases h2 : body (ρ2.set i (.t (S.ofNat k))) with
      | none => rw [h1, h2] at hb; cases o1 <;> exact hb.elim
      | some o2 =>
        rw [h1, h2] at hb
        cases o1 with
        | normal a => cases o2 with
          | normal b => exact ih _ a b hb
          | broke b => exact hb.elim
          | returned w => exact hb.elim
        | broke a => cases o2 with
          | normal b => exact hb.elim
          | broke b => exact Agree.mono hb hlo
          | returned w => exact hb.elim
        | returned v => cases o2 with
          | normal b => exact hb.elim
          | broke b => exact hb.elim
          | returned w => exact hb

theorem iterWhile_agree {V} (cond : Store V → Option Bool) (body : Store V → Option (Outcome V)) (F lo : VSet)
    (hcond : ∀ ρ1 ρ2, Agree F ρ1 ρ2 → cond ρ1 = cond ρ2)
    (hbody : ∀ ρ1 ρ2, Agree F ρ1 ρ2 → OutRelB F (body ρ1) (body ρ2))
    (hlo : ∀ y, y ∈ lo → y ∈ F) :
    ∀ (fuel : Nat) (ρ1 ρ2 : Store V), Agree F ρ1 ρ2 →
      OutRelB lo (iterWhile cond body fuel ρ1) (iterWhile cond body fuel ρ2) := by
  intro fuel
  induction fuel with
  | zero => intro ρ1 ρ2 _; simp only [iterWhile]; exact trivial
  | succ n ih =>
    intro ρ1 ρ2 h
    simp only [iterWhile]
    rw [hcond ρ1 ρ2 h]
    cases hc : cond ρ2 with
    | none => exact trivial
    | some b =>
      cases b with
      | false => exact h.mono hlo
      | true =>
        simp only
        have hb := hbody ρ1 ρ2 h
        cases h1 : body ρ1 with
        | none =>
          cases h2 : body ρ2 with
          | none => exact trivial
          | some o2 => rw [h1, h2] at hb; cases o2 <;> exact hb.elim
        | some o1 =>
          cases h2 : body ρ2 with
          | none => rw [h1, h2] at hb; cases o1 <;> exact hb.elim
          | some o2 =>
            rw [h1, h2] at hb
            cases o1 with
            | normal a => cases o2 with
              | normal b => exact ih a b hb
              | broke b => exact hb.elim
              | returned w => exact hb.elim
            | broke a => cases o2 with
              | normal b => exact hb.elim
              | broke b => exact Agree.mono hb hlo
              | returned w => exact hb.elim
            | returned v => cases o2 with
              | normal b => exact hb.elim
              | broke b => exact hb.elim
              | returned w => exact hb

theorem outRelB_block_step {V} (S : Sem V) (fuel : Nat) (st : Stmt) (ss : List Stmt) (lo : VSet)
    (ρ1 ρ2 : Store V) (hn : ∀ ρ r, evalStmt S fuel st ρ ≠ some (.broke r))
    (h1 : OutRelB (liveInBlock ss lo) (evalStmt S fuel st ρ1) (evalStmt S fuel st ρ2))
    (hrest : ∀ a b, Agree (liveInBlock ss lo) a b → OutRelB lo (evalBlock S fuel ss a) (evalBlock S fuel ss b)) :
    OutRelB lo (evalBlock S fuel (st :: ss) ρ1) (evalBlock S fuel (st :: ss) ρ2) := by
  unfold evalBlock
  cases ho1 : evalStmt S fuel st ρ1 with
  | none =>
    cases ho2 : evalStmt S fuel st ρ2 with
    | none => exact trivial
    | some o2 => rw [ho1, ho2] at h1; cases o2 <;> exact h1.elim
  | some o1 =>
    cases ho2 : evalStmt S fuel st ρ2 with
    | none => rw [ho1, ho2] at h1; cases o1 <;> exact h1.elim
    | some o2 =>
      rw [ho1, ho2] at h1
      cases o1 with
      | normal a => cases o2 with
        | normal b => exact hrest a b h1
        | broke b => exact h1.elim
        | returned w => exact h1.elim
      | broke a => exact absurd ho1 (hn ρ1 a)
      | returned v => cases o2 with
        | normal b => exact h1.elim
        | broke b => exact h1.elim
        | returned w => exact h1

mutual
theorem liveStmtB {V} (S : Sem V) (fuel : Nat) : ∀ (st : Stmt) (lo : VSet) (ρ1 ρ2 : Store V),
    noBrkS st = true → stableStmt st lo = true → Agree (liveInStmt st lo) ρ1 ρ2 →
    OutRelB lo (evalStmt S fuel st ρ1) (evalStmt S fuel st ρ2)
  | .assign x e, lo, ρ1, ρ2, hn, _, h =>
    outRel_upgrade (liveStmt_sound S fuel _ lo ρ1 ρ2 (by simp [loopFree]) h) (fun r => noBrk_stmt S fuel _ hn ρ1 r)
  | .par xs es, lo, ρ1, ρ2, hn, _, h =>
    outRel_upgrade (liveStmt_sound S fuel _ lo ρ1 ρ2 (by simp [loopFree]) h) (fun r => noBrk_stmt S fuel _ hn ρ1 r)
  | .tuple xs e, lo, ρ1, ρ2, hn, _, h =>
    outRel_upgrade (liveStmt_sound S fuel _ lo ρ1 ρ2 (by simp [loopFree]) h) (fun r => noBrk_stmt S fuel _ hn ρ1 r)
  | .badAssign xs e, lo, ρ1, ρ2, hn, _, h =>
    outRel_upgrade (liveStmt_sound S fuel _ lo ρ1 ρ2 (by simp [loopFree]) h) (fun r => noBrk_stmt S fuel _ hn ρ1 r)
  | .ret es b, lo, ρ1, ρ2, hn, _, h =>
    outRel_upgrade (liveStmt_sound S fuel _ lo ρ1 ρ2 (by simp [loopFree]) h) (fun r => noBrk_stmt S fuel _ hn ρ1 r)
  | .skip, lo, ρ1, ρ2, hn, _, h =>
    outRel_upgrade (liveStmt_sound S fuel _ lo ρ1 ρ2 (by simp [loopFree]) h) (fun r => noBrk_stmt S fuel _ hn ρ1 r)
  | .unsupported, lo, ρ1, ρ2, hn, _, h =>
    outRel_upgrade (liveStmt_sound S fuel _ lo ρ1 ρ2 (by simp [loopFree]) h) (fun r => noBrk_stmt S fuel _ hn ρ1 r)
  | .brk c, lo, ρ1, ρ2, hn, _, h => by unfold noBrkS at hn; cases hn
  | .ite c t e, lo, ρ1, ρ2, hn, hst, h => by
    unfold liveInStmt at h
    unfold noBrkS at hn
    unfold stableStmt at hst
    simp only [Bool.and_eq_true] at hn hst
    unfold evalStmt
    rw [evalExpr_agree S ρ1 ρ2 c (h.mono (fun y hy => mem_vunion.mpr (Or.inr hy)))]
    cases evalExpr S ρ2 c with
    | none => exact trivial
    | some cv =>
      simp only
      cases truthPV S cv with
      | none => exact trivial
      | some b =>
        cases b with
        | true =>
          exact liveBlockB S fuel t lo ρ1 ρ2 hn.1 hst.1
            (h.mono (fun y hy => mem_vunion.mpr (Or.inl (mem_vunion.mpr (Or.inl hy)))))
        | false =>
          exact liveBlockB S fuel e lo ρ1 ρ2 hn.2 hst.2
            (h.mono (fun y hy => mem_vunion.mpr (Or.inl (mem_vunion.mpr (Or.inr hy)))))
  | .for_ i ok b body, lo, ρ1, ρ2, hn, hst, h => by
    unfold noBrkS at hn
    unfold stableStmt at hst
    simp only [Bool.and_eq_true] at hst
    obtain ⟨⟨hlo, hsub⟩, hsb⟩ := hst
    have hF : liveInStmt (.for_ i ok b body) lo
        = vunion (loopBodyLo (.for_ i ok b body) lo) (usedVars b) := by
      simp [liveInStmt, loopBodyLo]
    rw [hF] at h
    unfold evalStmt
    by_cases hok : (!ok) = true
    · rw [if_pos hok, if_pos hok]; exact trivial
    · rw [if_neg hok, if_neg hok]
      rw [evalExpr_agree S ρ1 ρ2 b (h.mono (fun y hy => mem_vunion.mpr (Or.inr hy)))]
      cases evalExpr S ρ2 b with
      | none => exact trivial
      | some bv =>
        simp only
        cases natPV S bv with
        | none => exact trivial
        | some n =>
          simp only
          refine iterFor_agree S i _ (loopBodyLo (.for_ i ok b body) lo)
            (liveInBlock body (loopBodyLo (.for_ i ok b body) lo)) lo ?_ ?_ (vsubset_mem hlo) n 0 ρ1 ρ2
            (h.mono (fun y hy => mem_vunion.mpr (Or.inl hy)))
          · intro a c hac
            exact liveBodyB S fuel body _ a c hn hsb hac
          · intro y hy hyi
            exact vsubset_mem hsub y (mem_vdiff.mpr ⟨hy, by simpa using hyi⟩)
  | .while_ c body, lo, ρ1, ρ2, hn, hst, h => by
    unfold noBrkS at hn
    unfold stableStmt at hst
    simp only [Bool.and_eq_true] at hst
    obtain ⟨⟨⟨hlo, hcs⟩, hsub⟩, hsb⟩ := hst
    have hF : liveInStmt (.while_ c body) lo = loopBodyLo (.while_ c body) lo := by
      simp [liveInStmt, loopBodyLo]
    rw [hF] at h
    unfold evalStmt
    refine iterWhile_agree _ _ (loopBodyLo (.while_ c body) lo) lo ?_ ?_ (vsubset_mem hlo) fuel ρ1 ρ2 h
    · intro a d had
      show (match evalExpr S a c with | some v => truthPV S v | none => none)
        = (match evalExpr S d c with | some v => truthPV S v | none => none)
      rw [evalExpr_agree S a d c (had.mono (vsubset_mem hcs))]
    · intro a d had
      exact liveBodyB S fuel body _ a d hn hsb (had.mono (vsubset_mem hsub))
theorem liveBlockB {V} (S : Sem V) (fuel : Nat) : ∀ (ss : List Stmt) (lo : VSet) (ρ1 ρ2 : Store V),
    noBrkL ss = true → stableBlock ss lo = true → Agree (liveInBlock ss lo) ρ1 ρ2 →
    OutRelB lo (evalBlock S fuel ss ρ1) (evalBlock S fuel ss ρ2)
  | [], lo, ρ1, ρ2, _, _, h => by
    unfold liveInBlock at h
    unfold evalBlock
    exact h
  | st :: ss, lo, ρ1, ρ2, hn, hst, h => by
    unfold liveInBlock at h
    unfold noBrkL at hn
    unfold stableBlock at hst
    simp only [Bool.and_eq_true] at hn hst
    exact outRelB_block_step S fuel st ss lo ρ1 ρ2 (fun ρ r => noBrk_stmt S fuel st hn.1 ρ r)
      (liveStmtB S fuel st _ ρ1 ρ2 hn.1 hst.1 h)
      (fun a b hab => liveBlockB S fuel ss lo a b hn.2 hst.2 hab)
theorem liveBodyB {V} (S : Sem V) (fuel : Nat) : ∀ (ss : List Stmt) (lo : VSet) (ρ1 ρ2 : Store V),
    bodyBrkOK ss = true → stableBlock ss lo = true → Agree (liveInBlock ss lo) ρ1 ρ2 →
    OutRelB lo (evalBlock S fuel ss ρ1) (evalBlock S fuel ss ρ2)
  | [], lo, ρ1, ρ2, _, _, h => by
    unfold liveInBlock at h
    unfold evalBlock
    exact h
  | st :: ss, lo, ρ1, ρ2, hn, hst, h => by
    unfold liveInBlock at h
    unfold stableBlock at hst
    simp only [Bool.and_eq_true] at hst
    by_cases hb : (∃ c, st = .brk c) ∧ ss = []
    · obtain ⟨⟨c, rfl⟩, rfl⟩ := hb
      simp only [liveInBlock, liveInStmt] at h
      simp only [evalBlock, evalStmt]
      rw [evalExpr_agree S ρ1 ρ2 c (h.mono (fun y hy => mem_vunion.mpr (Or.inr hy)))]
      cases evalExpr S ρ2 c with
      | none => exact trivial
      | some cv =>
        simp only
        cases truthPV S cv with
        | none => exact trivial
        | some b =>
          cases b with
          | true => exact h.mono (fun y hy => mem_vunion.mpr (Or.inl hy))
          | false => exact h.mono (fun y hy => mem_vunion.mpr (Or.inl hy))
    · have hns : noBrkS st = true ∧ bodyBrkOK ss = true := by
        unfold bodyBrkOK at hn
        simp only [Bool.and_eq_true] at hn
        refine ⟨?_, hn.2⟩
        cases st with
        | brk c =>
          cases ss with
          | nil => exact absurd ⟨⟨c, rfl⟩, rfl⟩ hb
          | cons s2 ss2 => simpa using hn.1
        | _ => simpa using hn.1
      exact outRelB_block_step S fuel st ss lo ρ1 ρ2 (fun ρ r => noBrk_stmt S fuel st hns.1 ρ r)
        (liveStmtB S fuel st _ ρ1 ρ2 hns.1 hst.1 h)
        (fun a b hab => liveBodyB S fuel ss lo a b hns.2 hst.2 hab)
end

/-! ## Graph evaluation of control-flow-free node lists does not depend on the fuel -/

theorem evalNodes_opsOnly_fuel {V : Type} (S : Sem V) (f1 f2 : Nat) :
    ∀ (ns : List Node) (ρ : Env V), opsOnly ns = true → evalNodes S f1 ρ ns = evalNodes S f2 ρ ns := by
  intro ns
  induction ns with
  | nil => intro ρ _; simp [evalNodes]
  | cons n ns ih =>
    intro ρ h
    cases n with
    | op dom name ins outs attrs =>
      simp only [opsOnly] at h
      simp only [evalNodes, evalNode]
      cases ins.mapM ρ.getOpt with
      | none => rfl
      | some vs =>
        simp only
        cases S.op dom name vs attrs with
        | none => rfl
        | some rs =>
          simp only
          by_cases hl : rs.length = outs.length
          · simp only [hl, if_true]; exact ih _ h
          · simp only [hl, if_false]
    | ifN c outs tn to en eo => exact Bool.noConfusion (show false = true from h)
    | loop b c inits outs bi bn bo => exact Bool.noConfusion (show false = true from h)


end OV.C01
