import OV.Lemmas.C06SoundOr
import OV.Lemmas.C06Complete
import OV.Lemmas.C06SolveC
/-!
  C06 — completeness of the transcribed matcher for patterns with `BacktrackingOr` whose alternatives are
  mutually exclusive (no value can satisfy two alternatives of one OR, under any assignment): the first
  locally successful alternative is then the instance's alternative, so committing to it loses nothing.
  Stated over a stack `c :: rest`, combining the completeness invariant (`SubS`: everything bound so far is
  what the instance's assignment says) with the soundness lemmas of `C06SoundOr` (an earlier alternative
  that succeeded would be satisfiable).
-/
namespace OV.C06

/-- every binding held anywhere in the stack is what `A` says -/
structure SubS (st : Stack) (A : Assign) : Prop where
  b : ∀ p ∈ st, ∀ k x, (k, x) ∈ p.bindings → A.names k = some x
  v : ∀ p ∈ st, ∀ k x, (k, x) ∈ p.vb → A.leaf k = some x
  n : ∀ p ∈ st, ∀ k x, (k, x) ∈ p.nb → A.node k = some x

theorem lookupBinding_mem : ∀ (st : Stack) (k : String) (x : Bound),
    lookupBinding st k = some x → ∃ p ∈ st, (k, x) ∈ p.bindings := by
  intro st
  induction st with
  | nil => intro k x h; simp [lookupBinding] at h
  | cons c rest ih =>
    intro k x h
    rw [lookupBinding_cons] at h
    cases hr : lookupBinding rest k with
    | some y =>
      simp [hr] at h; subst h
      obtain ⟨p, hp, hm⟩ := ih k y hr
      exact ⟨p, List.mem_cons_of_mem _ hp, hm⟩
    | none =>
      simp [hr] at h
      exact ⟨c, List.mem_cons_self .., lookup_mem_c _ _ _ h⟩

theorem lookupVB_mem : ∀ (st : Stack) (k : VKey) (x : Option ValueId),
    lookupVB st k = some x → ∃ p ∈ st, (k, x) ∈ p.vb := by
  intro st
  induction st with
  | nil => intro k x h; simp [lookupVB] at h
  | cons c rest ih =>
    intro k x h
    rw [lookupVB_cons] at h
    cases hr : lookupVB rest k with
    | some y =>
      simp [hr] at h; subst h
      obtain ⟨p, hp, hm⟩ := ih k y hr
      exact ⟨p, List.mem_cons_of_mem _ hp, hm⟩
    | none =>
      simp [hr] at h
      exact ⟨c, List.mem_cons_self .., lookup_mem_c _ _ _ h⟩

theorem lookupNode_mem : ∀ (st : Stack) (k : NPId) (x : NodeId),
    lookupNode st k = some x → ∃ p ∈ st, (k, x) ∈ p.nb := by
  intro st
  induction st with
  | nil => intro k x h; simp [lookupNode] at h
  | cons c rest ih =>
    intro k x h
    rw [lookupNode_cons] at h
    cases hr : lookupNode rest k with
    | some y =>
      simp [hr] at h; subst h
      obtain ⟨p, hp, hm⟩ := ih k y hr
      exact ⟨p, List.mem_cons_of_mem _ hp, hm⟩
    | none =>
      simp [hr] at h
      exact ⟨c, List.mem_cons_self .., lookup_mem_c _ _ _ h⟩

/-- replace the current partial match by one whose entries still agree with `A` -/
theorem SubS.setTop {c c' : Partial} {rest : Stack} {A : Assign} (h : SubS (c :: rest) A)
    (hb : ∀ k x, (k, x) ∈ c'.bindings → A.names k = some x)
    (hv : ∀ k x, (k, x) ∈ c'.vb → A.leaf k = some x)
    (hn : ∀ k x, (k, x) ∈ c'.nb → A.node k = some x) : SubS (c' :: rest) A := by
  refine ⟨fun p hp => ?_, fun p hp => ?_, fun p hp => ?_⟩
  · rcases List.mem_cons.1 hp with rfl | hp
    · exact hb
    · exact h.b p (List.mem_cons_of_mem _ hp)
  · rcases List.mem_cons.1 hp with rfl | hp
    · exact hv
    · exact h.v p (List.mem_cons_of_mem _ hp)
  · rcases List.mem_cons.1 hp with rfl | hp
    · exact hn
    · exact h.n p (List.mem_cons_of_mem _ hp)

theorem SubS.top {c : Partial} {rest : Stack} {A : Assign} (h : SubS (c :: rest) A) :
    (∀ k x, (k, x) ∈ c.bindings → A.names k = some x) ∧ (∀ k x, (k, x) ∈ c.vb → A.leaf k = some x) ∧
      (∀ k x, (k, x) ∈ c.nb → A.node k = some x) :=
  ⟨h.b c (List.mem_cons_self ..), h.v c (List.mem_cons_self ..), h.n c (List.mem_cons_self ..)⟩

theorem bind_completeS (rest : Stack) (c : Partial) (A : Assign) (k : String) (b : Bound)
    (hok : c.ok = true) (h : SubS (c :: rest) A) (hA : A.names k = some b) :
    ∃ c', bind (c :: rest) k b = (true, c' :: rest) ∧ c'.ok = true ∧ SubS (c' :: rest) A := by
  unfold bind
  cases hl : lookupBinding (c :: rest) k with
  | some b' =>
    obtain ⟨p, hp, hm⟩ := lookupBinding_mem _ _ _ hl
    have : b' = b := by
      have := h.b p hp k b' hm
      rw [hA] at this
      exact (Option.some.inj this).symm
    subst this
    simp only [BEq.rfl, if_true]
    exact ⟨c, rfl, hok, h⟩
  | none =>
    obtain ⟨tb, tv, tn⟩ := h.top
    refine ⟨{ c with bindings := c.bindings ++ [(k, b)] }, rfl, hok, h.setTop (fun k' x hx => ?_) tv tn⟩
    rcases mem_snoc _ _ _ hx with h1 | he
    · exact tb _ _ h1
    · cases he; exact hA

theorem bindValue_completeS (p : GPat) (rest : Stack) (c : Partial) (A : Assign) (vp : VPat)
    (v : Option ValueId) (hok : c.ok = true) (h : SubS (c :: rest) A) (hA : A.boundTo p vp v) :
    ∃ c', bindValue p (c :: rest) vp v = (true, c' :: rest) ∧ c'.ok = true ∧ SubS (c' :: rest) A := by
  unfold bindValue
  unfold Assign.boundTo at hA
  rcases hn : p.vname vp with _ | nm <;> simp only [hn] at hA ⊢
  · rcases hk : vp.key with _ | k <;> simp only [hk] at hA ⊢
    · exact ⟨c, rfl, hok, h⟩
    · cases hl : lookupVB (c :: rest) k with
      | some v' =>
        obtain ⟨p', hp, hm⟩ := lookupVB_mem _ _ _ hl
        have : v' = v := by
          have := h.v p' hp k v' hm
          rw [hA] at this
          exact (Option.some.inj this).symm
        subst this
        simp only [BEq.rfl, if_true]
        exact ⟨c, rfl, hok, h⟩
      | none =>
        obtain ⟨tb, tv, tn⟩ := h.top
        refine ⟨{ c with vb := c.vb ++ [(k, v)] }, rfl, hok, h.setTop tb (fun k' x hx => ?_) tn⟩
        rcases mem_snoc _ _ _ hx with h1 | he
        · exact tv _ _ h1
        · cases he; exact hA
  · exact bind_completeS rest c A nm _ hok h hA

theorem bindValue2_completeS (fix2 : Bool) (p : GPat) (rest : Stack) (c : Partial) (A : Assign) (vp : VPat)
    (v : Option ValueId) (hok : c.ok = true) (h : SubS (c :: rest) A) (hA : A.boundTo p vp v)
    (hnc : NamedUnchecked p vp) :
    ∃ c', bindValue2 fix2 p (c :: rest) vp v = (true, c' :: rest) ∧ c'.ok = true ∧ SubS (c' :: rest) A := by
  obtain ⟨c1, e1, o1, s1⟩ := bindValue_completeS p rest c A vp v hok h hA
  unfold bindValue2
  dsimp only
  have : (fix2 && (bindValue p (c :: rest) vp v).1 && (p.vname vp).isSome && vp.check.isSome) = false := by
    cases hn : (p.vname vp).isSome with
    | false => simp
    | true => simp [hnc hn]
  simp only [this, Bool.false_eq_true, if_false]
  exact ⟨c1, e1, o1, s1⟩

theorem attrsLoop_completeS (n : GNode) (A : Assign) (rest : Stack) : ∀ (l : List (String × APat)) (c : Partial),
    c.ok = true → SubS (c :: rest) A →
    (∀ name ap, (name, ap) ∈ l → attrOk n name ap ∧
      ∀ nm, ap.name = some nm → A.names nm = some (Bound.ofAttr (n.attr name))) →
    ∃ c', attrsLoop n l (c :: rest) = (true, c' :: rest) ∧ c'.ok = true ∧ SubS (c' :: rest) A := by
  intro l
  induction l with
  | nil => intro c hok h _; exact ⟨c, rfl, hok, h⟩
  | cons hd tl ih =>
    intro c hok h hall
    obtain ⟨name, ap⟩ := hd
    have h0 := hall name ap (List.mem_cons_self ..)
    have hrest : ∀ name ap, (name, ap) ∈ tl → attrOk n name ap ∧
        ∀ nm, ap.name = some nm → A.names nm = some (Bound.ofAttr (n.attr name)) :=
      fun name ap hm => hall name ap (List.mem_cons_of_mem _ hm)
    unfold attrsLoop
    have hbad : attrBad n name ap = false := by
      have := h0.1
      unfold attrOk at this
      unfold attrBad
      cases hx : n.attr name <;> simp_all
    simp only [hbad, Bool.false_eq_true, if_false]
    rcases hnm : ap.name with _ | nm <;> dsimp only
    · exact ih c hok h hrest
    · obtain ⟨c1, e1, o1, s1⟩ := bind_completeS rest c A nm _ hok h (h0.2 nm hnm)
      simp only [e1, Bool.not_true, Bool.false_eq_true, if_false]
      exact ih c1 o1 s1 hrest

theorem nodeMatches_completeS (A : Assign) (P : NPat) (N : GNode) (rest : Stack) (c : Partial)
    (hok : c.ok = true) (h : SubS (c :: rest) A)
    (hop : P.op.matches N.op = true) (hdom : P.domain.matches N.domain = true) (ha : attrsSat A P N) :
    ∃ c', nodeMatches P N (c :: rest) = (true, c' :: rest) ∧ c'.ok = true ∧ SubS (c' :: rest) A := by
  unfold nodeMatches
  simp only [hop, hdom, Bool.not_true, Bool.false_eq_true, if_false]
  obtain ⟨c', e, o, s⟩ := attrsLoop_completeS N A rest P.attrs c hok h ha.1
  simp only [e, Bool.not_true, Bool.false_eq_true, if_false]
  refine ⟨c', ?_, o, s⟩
  by_cases hao : P.allowOtherAttrs = true
  · simp [hao]
  · have hao' : P.allowOtherAttrs = false := by simpa using hao
    have hno : (N.attrs.any fun a => !P.attrs.any fun kv => kv.1 == a.name) = false := by
      simp only [List.any_eq_false, Bool.not_eq_true']
      intro a ham
      obtain ⟨ap, hap⟩ := ha.2 hao' a ham
      intro hx
      exact hx (a.name, ap) hap (by simp)
    simp [hao', hno]

/-! ## Exclusive alternatives -/

/-- `vp` describes `v` under no assignment -/
def Unsat (E : Env) (vp : VPat) (v : Option ValueId) : Prop := ∀ A, ¬ SatV E A vp v

/-- no value satisfies two alternatives of the list: if a later one can be satisfied, every earlier one cannot -/
def ExclAlts (E : Env) (alts : List VPat) : Prop :=
  ∀ (v : Option ValueId) (i j : Nat) (ai aj : VPat), i < j → alts[i]? = some ai → alts[j]? = some aj →
    (∃ A, SatV E A aj v) → Unsat E ai v

mutual
/-- the alternatives of every `BacktrackingOr` inside the value pattern are mutually exclusive -/
def VPat.excl (E : Env) : VPat → Prop
  | .orB _ _ _ _ alts => ExclAlts E alts ∧ exclL E alts
  | _ => True
def exclL (E : Env) : List VPat → Prop
  | [] => True
  | a :: rest => a.excl E ∧ exclL E rest
end

mutual
/-- no *named* variable inside the value pattern carries a checker -/
def VPat.nu : VPat → Bool
  | .var _ name _ _ check => name.isNone || check.isNone
  | .orB _ _ _ _ alts => nuL alts
  | _ => true
def nuL : List VPat → Bool
  | [] => true
  | a :: rest => a.nu && nuL rest
end

/-- completeness of the recursive node matcher below `f`, from any state that agrees with `A` -/
def NodeCSt (E : Env) (A : Assign) (rec : NPId → NodeId → Stack → R) (f : Nat) : Prop :=
  ∀ np n rest c P, np < f → SatN E A np n → c.ok = true → SubS (c :: rest) A → InvS E rest c P →
    FreshP rest c → (∀ x ∈ P, np < x) →
    ∃ c', rec np n (c :: rest) = (true, c' :: rest) ∧ c'.ok = true ∧ SubS (c' :: rest) A

theorem SubS.push {c : Partial} {rest : Stack} {A : Assign} (h : SubS (c :: rest) A) :
    SubS (({} : Partial) :: c :: rest) A := by
  refine ⟨fun p hp => ?_, fun p hp => ?_, fun p hp => ?_⟩
  · rcases List.mem_cons.1 hp with rfl | hp
    · intro k x hm; simp at hm
    · exact h.b p hp
  · rcases List.mem_cons.1 hp with rfl | hp
    · intro k x hm; simp at hm
    · exact h.v p hp
  · rcases List.mem_cons.1 hp with rfl | hp
    · intro k x hm; simp at hm
    · exact h.n p hp

theorem tagBind_completeS (tagVar : Option String) (t : Int) (rest : Stack) (c : Partial) (A : Assign)
    (hok : c.ok = true) (h : SubS (c :: rest) A) (hf : FreshP rest c)
    (hA : ∀ tv, tagVar = some tv → A.names tv = some (.tag t)) :
    ∃ c', tagBind tagVar t (c :: rest) = c' :: rest ∧ c'.ok = true ∧ SubS (c' :: rest) A ∧ FreshP rest c' := by
  unfold tagBind
  cases tagVar with
  | none => exact ⟨c, rfl, hok, h, hf⟩
  | some tv =>
    obtain ⟨c1, e1, o1, s1⟩ := bind_completeS rest c A tv _ hok h (hA tv rfl)
    obtain ⟨c1', r1, _, _, f1, _⟩ := bind_specS rest c tv (.tag t) hf
    have : c1' = c1 := by
      have := r1.st
      rw [e1] at this
      simp at this
      exact this.symm
    subst this
    exact ⟨c1', by simp [e1], o1, s1, f1⟩

mutual
theorem matchValue_completeS (E : Env) (A : Assign) (rec : NPId → NodeId → Stack → R) (f : Nat)
    (hrecS : NodeSpecS E rec) (hrecC : NodeCSt E A rec f) (hf3 : E.fixF3 = true) :
    ∀ (vp : VPat) (v : Option ValueId) (rest : Stack) (c : Partial) (P : List NPId),
      SatV E A vp v → c.ok = true → SubS (c :: rest) A → InvS E rest c P → FreshP rest c →
      vp.backOk = true → vp.excl E → vp.nu = true →
      (∀ q ∈ vp.refs, ∀ x ∈ P, q < x) → (∀ q ∈ vp.refs, q < f) →
      ∃ c', matchValue E rec vp v (c :: rest) = (true, c' :: rest) ∧ c'.ok = true ∧ SubS (c' :: rest) A
  | .any, v, rest, c, P, _, hok, h, _, _, _, _, _, _, _ => by
    unfold matchValue
    have : crossGraphBad E.g .any v = false := by
      unfold crossGraphBad; cases v <;> simp [VPat.crossGraphOk]
    simp only [this, Bool.false_eq_true, if_false]
    exact ⟨c, rfl, hok, h⟩
  | .var id name isVar canNone check, v, rest, c, P, hs, hok, h, _, _, _, _, hnu, _, _ => by
    cases hs with
    | var _ _ _ _ _ _ hb h1 h2 =>
      unfold matchValue
      have hcg : crossGraphBad E.g (.var id name isVar canNone check) v = false := by
        unfold crossGraphBad
        cases v with
        | none => rfl
        | some x =>
          cases hfo : E.g.isForeign x with
          | false => simp [hfo]
          | true => simp [VPat.crossGraphOk, h2 x rfl hfo]
      simp only [hcg, Bool.false_eq_true, if_false]
      have hnc : NamedUnchecked E.p (.var id name isVar canNone check) := by
        intro hn
        simp only [GPat.vname] at hn
        simp only [VPat.nu, Bool.or_eq_true] at hnu
        rcases hnu with h' | h'
        · cases name <;> simp_all
        · simpa [VPat.check] using h'
      obtain ⟨c1, e1, o1, s1⟩ := bindValue2_completeS E.fixF2 E.p rest c A _ v hok h hb hnc
      simp only [e1, Bool.not_true, Bool.false_eq_true, if_false]
      have : (v.isNone && !canNone) = false := by
        cases v with
        | none => simp [h1 rfl]
        | some x => simp
      simp only [this, Bool.false_eq_true, if_false]
      exact ⟨c1, rfl, o1, s1⟩
  | .const id k, v, rest, c, P, hs, hok, h, _, _, _, _, _, _, _ => by
    cases hs with
    | const _ _ x cv hb h1 h2 =>
      unfold matchValue
      have hcg : crossGraphBad E.g (.const id k) (some x) = false := by
        simp [crossGraphBad, VPat.crossGraphOk]
      simp only [hcg, Bool.false_eq_true, if_false]
      obtain ⟨c1, e1, o1, s1⟩ := bindValue_completeS E.p rest c A _ _ hok h hb
      simp only [e1, Bool.not_true, Bool.false_eq_true, if_false]
      unfold matchConstant
      simp only [h1, h2, if_true]
      exact ⟨c1, rfl, o1, s1⟩
  | .out np idx, v, rest, c, P, hs, hok, h, hinv, hfr, _, _, _, hqP, hqf => by
    cases hs with
    | out _ _ x n hb hfo hp hi hn =>
      unfold matchValue
      have hcg : crossGraphBad E.g (.out np idx) (some x) = false := by
        simp [crossGraphBad, hfo]
      simp only [hcg, Bool.false_eq_true, if_false]
      obtain ⟨c1, e1, o1, s1⟩ := bindValue_completeS E.p rest c A _ _ hok h hb
      obtain ⟨c1', r1, x1, f1, _⟩ := bindValue_specS E.p rest c (.out np idx) (some x) hfr
      have hcc : c1' = c1 := by
        have := r1.st
        rw [e1] at this
        simp at this
        exact this.symm
      subst hcc
      simp only [e1, Bool.not_true, Bool.false_eq_true, if_false]
      unfold matchNodeOutput
      simp only [hp, hi, bne_self_eq_false, Bool.false_eq_true, if_false]
      exact hrecC np n rest c1' P (hqf np (by simp [VPat.refs])) hn o1 s1 (hinv.ext x1) f1
        (hqP np (by simp [VPat.refs]))
  | .orD id name tagVar alts, v, rest, c, P, hs, hok, h, hinv, hfr, hbk, _, _, hqP, hqf => by
    have htv : tagVar = none := by
      cases tagVar with
      | none => rfl
      | some t => simp [VPat.backOk] at hbk
    subst htv
    cases hs with
    | orD _ _ _ _ x d hb hfo hd hso _ =>
      cases hso with
      | out _ _ _ n hbo _ hp hi hn =>
        unfold matchValue
        have hcg : crossGraphBad E.g (.orD id name none alts) (some x) = false := by
          simp [crossGraphBad, hfo]
        simp only [hcg, Bool.false_eq_true, if_false, hd]
        obtain ⟨c1, e1, o1, s1⟩ := bindValue_completeS E.p rest c A _ _ hok h hb
        obtain ⟨c1', r1, x1, f1, _⟩ := bindValue_specS E.p rest c (.orD id name none alts) (some x) hfr
        have hcc : c1' = c1 := by
          have := r1.st
          rw [e1] at this
          simp at this
          exact this.symm
        subst hcc
        simp only [e1, Bool.not_true, Bool.false_eq_true, if_false]
        obtain ⟨c2, e2, o2, s2⟩ := bindValue_completeS E.p rest c1' A _ _ o1 s1 hbo
        obtain ⟨c2', r2, x2, f2, _⟩ := bindValue_specS E.p rest c1' (.out d.np d.idx) (some x) f1
        have hcc2 : c2' = c2 := by
          have := r2.st
          rw [e2] at this
          simp at this
          exact this.symm
        subst hcc2
        have hdm : d ∈ alts := by
          unfold getDispatch at hd
          split at hd
          · cases hd
          · split at hd
            · cases hd
            · exact List.mem_of_find?_eq_some hd
        have hmem : d.np ∈ (VPat.orD id name none alts).refs := by
          simp only [VPat.refs, List.mem_map]; exact ⟨d, hdm, rfl⟩
        obtain ⟨c3, e3, o3, s3⟩ := hrecC d.np n rest c2' P (hqf d.np hmem) hn o2 s2
          ((hinv.ext x1).ext x2) f2 (hqP d.np hmem)
        refine ⟨c3, ?_, o3, s3⟩
        simp only [e2, Bool.not_true, Bool.false_eq_true, if_false]
        unfold matchNodeOutput
        simp only [hp, hi, bne_self_eq_false, Bool.false_eq_true, if_false, e3, if_true]
  | .orB id name tagVar tags alts, v, rest, c, P, hs, hok, h, hinv, hfr, hbk, hex, hnu, hqP, hqf => by
    cases hs with
    | orB _ _ _ _ _ _ i alt hb hfo hi hsa ht =>
      unfold matchValue
      have hcg : crossGraphBad E.g (.orB id name tagVar tags alts) v = false := by
        unfold crossGraphBad
        cases v with
        | none => rfl
        | some x => simp [hfo x rfl]
      simp only [hcg, Bool.false_eq_true, if_false]
      obtain ⟨c1, e1, o1, s1⟩ := bindValue_completeS E.p rest c A _ _ hok h hb
      obtain ⟨c1', r1, x1, f1, _⟩ := bindValue_specS E.p rest c (.orB id name tagVar tags alts) v hfr
      have hcc : c1' = c1 := by
        have := r1.st
        rw [e1] at this
        simp at this
        exact this.symm
      subst hcc
      simp only [e1, Bool.not_true, Bool.false_eq_true, if_false]
      simp only [VPat.excl] at hex
      exact matchAlts_completeS E A rec f hrecS hrecC hf3 alts tags tagVar v rest c1' P i alt hi hsa ht
        (fun j hj aj haj => hex.1 v j i aj alt hj haj hi ⟨A, hsa⟩)
        o1 s1 (hinv.ext x1) f1 (by simpa [VPat.backOk] using hbk) hex.2 (by simpa [VPat.nu] using hnu)
        (fun q hq' => hqP q (by simpa [VPat.refs] using hq')) (fun q hq' => hqf q (by simpa [VPat.refs] using hq'))
theorem matchAlts_completeS (E : Env) (A : Assign) (rec : NPId → NodeId → Stack → R) (f : Nat)
    (hrecS : NodeSpecS E rec) (hrecC : NodeCSt E A rec f) (hf3 : E.fixF3 = true) :
    ∀ (alts : List VPat) (tags : List Int) (tagVar : Option String) (v : Option ValueId) (rest : Stack)
      (c : Partial) (P : List NPId) (i : Nat) (ai : VPat),
      alts[i]? = some ai → SatV E A ai v →
      (∀ t, tagVar = some t → A.names t = some (.tag (tags.getD i 0))) →
      (∀ j, j < i → ∀ aj, alts[j]? = some aj → Unsat E aj v) →
      c.ok = true → SubS (c :: rest) A → InvS E rest c P → FreshP rest c →
      backOkL alts = true → exclL E alts → nuL alts = true →
      (∀ q ∈ refsL alts, ∀ x ∈ P, q < x) → (∀ q ∈ refsL alts, q < f) →
      ∃ c', matchAlts E rec alts tags tagVar v (c :: rest) = (true, c' :: rest) ∧ c'.ok = true ∧
        SubS (c' :: rest) A
  | [], _, _, _, _, _, _, i, _, hi, _, _, _, _, _, _, _, _, _, _, _, _ => by simp at hi
  | alt :: more, tags, tagVar, v, rest, c, P, i, ai, hi, hsa, ht, hun, hok, h, hinv, hfr, hbk, hex, hnu, hqP, hqf => by
    simp only [backOkL, Bool.and_eq_true] at hbk
    simp only [exclL] at hex
    simp only [nuL, Bool.and_eq_true] at hnu
    have hpush := assignStack_push E rest c
    have inv0 : InvS E (c :: rest) ({} : Partial) P := by
      intro q m hq'
      rw [hpush.2.2 q] at hq'
      rcases hinv q m hq' with h' | h'
      · exact .inl h'
      · exact .inr (satN_mono hpush.1 h')
    have hrefsA : ∀ q ∈ alt.refs, ∀ x ∈ P, q < x := fun q hq' => hqP q (by simp [refsL, hq'])
    obtain ⟨cur1, ra, _, fa, sa⟩ := matchValue_specS E rec hrecS hf3 alt v (c :: rest) {} P _ rfl hbk.1 inv0
      (FreshP.empty _) hrefsA
    have enter_eq : enter (c :: rest) = ({} : Partial) :: c :: rest := rfl
    unfold matchAlts
    rw [enter_eq]
    dsimp only
    cases i with
    | zero =>
      simp at hi
      subst hi
      obtain ⟨cur, ec, oc, sc⟩ := matchValue_completeS E A rec f hrecS hrecC hf3 alt v (c :: rest) {} P hsa rfl
        h.push inv0 (FreshP.empty _) hbk.1 hex.1 hnu.1 hrefsA (fun q hq' => hqf q (by simp [refsL, hq']))
      have hcc : cur1 = cur := by
        have := ra.st
        rw [ec] at this
        simp at this
        exact this.symm
      subst hcc
      obtain ⟨cur2, et, o2, s2, f2⟩ := tagBind_completeS tagVar (tags.headD 0) (c :: rest) cur1 A oc sc fa
        (fun tv e => by have := ht tv e; cases tags <;> simpa using this)
      simp only [ec, if_true, et, topOk, o2, mergeTop, hf3]
      obtain ⟨eb, ev, en, eok, _⟩ := mergeAll_spec rest c cur2 hfr f2
      refine ⟨c.mergeAll cur2, rfl, by rw [eok]; exact hok, ?_⟩
      obtain ⟨tb, tv', tn⟩ := h.top
      obtain ⟨ub, uv, un⟩ := s2.top
      refine h.setTop (fun k x hm => ?_) (fun k x hm => ?_) (fun k x hm => ?_)
      · rw [eb] at hm
        rcases List.mem_append.1 hm with h' | h'
        · exact tb _ _ h'
        · exact ub _ _ h'
      · rw [ev] at hm
        rcases List.mem_append.1 hm with h' | h'
        · exact tv' _ _ h'
        · exact uv _ _ h'
      · rw [en] at hm
        rcases List.mem_append.1 hm with h' | h'
        · exact tn _ _ h'
        · exact un _ _ h'
    | succ j =>
      have hfalse : (matchValue E rec alt v (({} : Partial) :: c :: rest)).1 = false := by
        cases hb1 : (matchValue E rec alt v (({} : Partial) :: c :: rest)).1 with
        | false => rfl
        | true => exact absurd (sa hb1).2 (hun 0 (Nat.succ_pos j) alt rfl _)
      simp only [hfalse, Bool.false_eq_true, if_false]
      rw [ra.st]
      have : abandon (cur1 :: c :: rest) = c :: rest := rfl
      rw [this]
      exact matchAlts_completeS E A rec f hrecS hrecC hf3 more tags.tail tagVar v rest c P j ai
        (by simpa using hi) hsa
        (fun t e => by
          have hgt : tags.tail.getD j 0 = tags.getD (j + 1) 0 := by cases tags <;> simp
          rw [hgt]; exact ht t e)
        (fun k hk ak hak => hun (k + 1) (Nat.succ_lt_succ hk) ak (by simpa using hak))
        hok h hinv hfr hbk.2 hex.2 hnu.2
        (fun q hq' => hqP q (by simp [refsL, hq'])) (fun q hq' => hqf q (by simp [refsL, hq']))
end

/-! ## node level -/

def NPat.exclOk (E : Env) (n : NPat) : Prop := ∀ vp, some vp ∈ n.inputs → vp.excl E ∧ vp.nu = true

/-- every `BacktrackingOr` of the pattern has mutually exclusive alternatives, and no named variable
carries a checker -/
def GPat.exclOk (E : Env) : Prop := ∀ P ∈ E.p.nodes, NPat.exclOk E P

theorem matchInputs_completeS (E : Env) (A : Assign) (rec : NPId → NodeId → Stack → R) (f : Nat)
    (hrecS : NodeSpecS E rec) (hrecC : NodeCSt E A rec f) (hf3 : E.fixF3 = true) (P : List NPId)
    (rest : Stack) :
    ∀ (pairs : List (Option ValueId × Option VPat)) (c : Partial), c.ok = true → SubS (c :: rest) A →
      InvS E rest c P → FreshP rest c →
      (∀ v, (v, none) ∈ pairs → v = none) →
      (∀ v vp, (v, some vp) ∈ pairs → SatV E A vp v ∧ vp.backOk = true ∧ vp.excl E ∧ vp.nu = true ∧
        (∀ q ∈ vp.refs, ∀ x ∈ P, q < x) ∧ (∀ q ∈ vp.refs, q < f)) →
      ∃ c', matchInputs (matchValue E rec) pairs (c :: rest) = (true, c' :: rest) ∧ c'.ok = true ∧
        SubS (c' :: rest) A := by
  intro pairs
  induction pairs with
  | nil => intro c hok h _ _ _ _; exact ⟨c, rfl, hok, h⟩
  | cons hd tl ih =>
    intro c hok h hinv hfr hnone hsome
    obtain ⟨v, ovp⟩ := hd
    cases ovp with
    | none =>
      unfold matchInputs
      have : v = none := hnone v (List.mem_cons_self ..)
      subst this
      simp only [Option.isNone_none, if_true]
      exact ih c hok h hinv hfr (fun v hm => hnone v (List.mem_cons_of_mem _ hm))
        (fun v vp hm => hsome v vp (List.mem_cons_of_mem _ hm))
    | some vp =>
      unfold matchInputs
      obtain ⟨hs, hbk, hex, hnu, hqP, hqf⟩ := hsome v vp (List.mem_cons_self ..)
      obtain ⟨c1, e1, o1, s1⟩ := matchValue_completeS E A rec f hrecS hrecC hf3 vp v rest c P hs hok h hinv hfr
        hbk hex hnu hqP hqf
      obtain ⟨c1', r1, _, f1, i1⟩ := matchValue_specS E rec hrecS hf3 vp v rest c P _ rfl hbk hinv hfr hqP
      have hcc : c1' = c1 := by
        have := r1.st
        rw [e1] at this
        simp at this
        exact this.symm
      subst hcc
      simp only [e1, Bool.not_true, Bool.false_eq_true, if_false]
      exact ih c1' o1 s1 (i1 (by rw [e1])).1 f1 (fun v hm => hnone v (List.mem_cons_of_mem _ hm))
        (fun v vp hm => hsome v vp (List.mem_cons_of_mem _ hm))

theorem bindOutputs_completeS (fix : Bool) (p : GPat) (A : Assign) (np : NPId) (gouts : List ValueId)
    (rest : Stack) :
    ∀ (outs : List (Option String)) (i : Nat) (c : Partial), c.ok = true → SubS (c :: rest) A →
      (∀ j, i ≤ j → j < i + outs.length → ∃ x, gouts[j]? = some x ∧ A.boundTo p (.out np j) (some x)) →
      ∃ c', bindOutputs fix p np gouts outs i (c :: rest) = (true, c' :: rest) ∧ c'.ok = true ∧
        SubS (c' :: rest) A := by
  intro outs
  induction outs with
  | nil => intro i c hok h _; exact ⟨c, rfl, hok, h⟩
  | cons hd tl ih =>
    intro i c hok h hall
    unfold bindOutputs
    obtain ⟨x, hx, hb⟩ := hall i (Nat.le_refl _) (by simp)
    simp only [hx]
    obtain ⟨c1, e1, o1, s1⟩ := bindValue_completeS p rest c A _ _ hok h hb
    simp only [e1, Bool.not_true, Bool.false_eq_true, if_false]
    exact ih (i + 1) c1 o1 s1 (fun j h1 h2 => hall j (by omega) (by simp only [List.length_cons]; omega))

theorem nodeStep_completeS (E : Env) (A : Assign) (rec : NPId → NodeId → Stack → R) (f : Nat)
    (hrecS : NodeSpecS E rec) (hrecC : NodeCSt E A rec f) (hf3 : E.fixF3 = true)
    (hbk : E.p.backOk = true) (hex : GPat.exclOk E) (htopo : E.p.topoDeep) :
    ∀ np n rest c P, np ≤ f → SatN E A np n → c.ok = true → SubS (c :: rest) A → InvS E rest c P →
      FreshP rest c → (∀ x ∈ P, np < x) →
      ∃ c', nodeStep E (matchValue E rec) np n (c :: rest) = (true, c' :: rest) ∧ c'.ok = true ∧
        SubS (c' :: rest) A := by
  intro np n rest c P hnf hs hok h hinv hfr hlt
  cases hs with
  | mk _ _ Pn N hP hN hnode hop hdom hattrs hlen hnone hsome houts =>
    unfold nodeStep
    cases hl : lookupNode (c :: rest) np with
    | some m =>
      obtain ⟨p', hp', hm'⟩ := lookupNode_mem _ _ _ hl
      have : m = n := by
        have := h.n p' hp' np m hm'
        rw [hnode] at this
        exact (Option.some.inj this).symm
      subst this
      simp only [BEq.rfl, if_true]
      exact ⟨c, rfl, hok, h⟩
    | none =>
      simp only [hP, hN]
      obtain ⟨c1, e1, o1, s1⟩ := nodeMatches_completeS A Pn N rest c hok h hop hdom hattrs
      obtain ⟨c1', r1, x1, f1, _⟩ := nodeMatches_specS Pn N rest c _ rfl hfr
      have hcc : c1' = c1 := by
        have := r1.st
        rw [e1] at this
        simp at this
        exact this.symm
      subst hcc
      simp only [e1, Bool.not_true, Bool.false_eq_true, if_false]
      let c2 : Partial := { c1' with nodes := c1'.nodes ++ [n], nb := c1'.nb ++ [(np, n)] }
      have hc2 : bindNode (c1' :: rest) np n = c2 :: rest := rfl
      rw [hc2]
      obtain ⟨tb, tv, tn⟩ := s1.top
      have s2 : SubS (c2 :: rest) A := s1.setTop tb tv (fun k x hx => by
        rcases mem_snoc _ _ _ hx with h1 | he
        · exact tn _ _ h1
        · cases he; exact hnode)
      have hm' : lookupNode (c1' :: rest) np = none := by
        rw [lookupNode_cons, x1.nb, ← lookupNode_cons]; exact hl
      rw [lookupNode_cons] at hm'
      obtain ⟨hmr, hm1⟩ := or_none_both hm'
      have l12 : Le c1' c2 :=
        ⟨fun _ _ h => h, fun _ _ h => h, fun k x h => lookup_snoc_of_some _ _ _ _ _ h, id⟩
      have f2 : FreshP rest c2 :=
        ⟨f1.b, f1.v, fun k x hmem => by
            rcases List.mem_append.1 hmem with h1 | h1
            · exact f1.n _ _ h1
            · simp at h1; obtain ⟨rfl, rfl⟩ := h1; exact hmr,
         f1.bd, f1.vd, nodup_snoc _ _ _ f1.nd hm1, by simp [c2, f1.nbn]⟩
      have inv2 : InvS E rest c2 (np :: P) := by
        intro q m hq
        by_cases hqn : q = np
        · exact .inl (by simp [hqn])
        · have hq1 : lookupNode (c1' :: rest) q = some m := by
            rw [lookupNode_cons] at hq ⊢
            cases hr' : lookupNode rest q with
            | some y => simpa [hr'] using hq
            | none =>
              simp only [hr', Option.none_or] at hq ⊢
              have : (c1'.nb ++ [(np, n)]).lookup q = some m := hq
              simp only [List.lookup_append, List.lookup] at this
              cases h1 : c1'.nb.lookup q with
              | some m' => simp [h1] at this; exact this ▸ rfl
              | none =>
                simp [h1] at this
                have hne : (q == np) = false := by simpa using hqn
                simp [hne] at this
          rcases (hinv.ext x1) q m hq1 with h' | h'
          · exact .inl (List.mem_cons_of_mem _ h')
          · exact .inr (satN_mono (l12.toALeS rest) h')
      have hlen' : (decide (N.inputs.length > Pn.inputs.length) && !Pn.allowOtherInputs) = false := by
        rcases hlen with hl' | hl'
        · have : ¬ N.inputs.length > Pn.inputs.length := by omega
          simp [this]
        · simp [hl']
      simp only [hlen', Bool.false_eq_true, if_false]
      have hpairs_none : ∀ v, (v, none) ∈ zipPad N.inputs Pn.inputs → v = none := by
        intro v hm
        obtain ⟨i, h1, h2⟩ := zipPad_mem _ _ _ _ hm
        rw [h2]
        exact hnone i h1
      have hpairs_some : ∀ v vp, (v, some vp) ∈ zipPad N.inputs Pn.inputs →
          SatV E A vp v ∧ vp.backOk = true ∧ vp.excl E ∧ vp.nu = true ∧
            (∀ q ∈ vp.refs, ∀ x ∈ np :: P, q < x) ∧ (∀ q ∈ vp.refs, q < f) := by
        intro v vp hm
        obtain ⟨i, h1, h2⟩ := zipPad_mem _ _ _ _ hm
        have hin : some vp ∈ Pn.inputs := List.mem_of_getElem? h1
        have hex' := hex Pn (List.mem_of_getElem? hP) vp hin
        refine ⟨by rw [h2]; exact hsome i vp h1, backOk_input hbk hP hin, hex'.1, hex'.2, ?_, ?_⟩
        · intro q hqr x hx
          have hqnp := htopo np Pn hP vp hin q hqr
          rcases List.mem_cons.1 hx with h' | h'
          · exact h' ▸ hqnp
          · exact Nat.lt_trans hqnp (hlt x h')
        · intro q hqr
          exact Nat.lt_of_lt_of_le (htopo np Pn hP vp hin q hqr) hnf
      obtain ⟨c3, e3, o3, s3⟩ := matchInputs_completeS E A rec f hrecS hrecC hf3 (np :: P) rest _ c2 o1 s2 inv2 f2
        hpairs_none hpairs_some
      simp only [e3, Bool.not_true, Bool.false_eq_true, if_false]
      exact bindOutputs_completeS E.fixF1 E.p A np N.outputs rest Pn.outputs 0 c3 o3 s3
        (fun j _ hj => houts j (by omega))

theorem matchNode_completeS (E : Env) (A : Assign) (hf3 : E.fixF3 = true) (hbk : E.p.backOk = true)
    (hex : GPat.exclOk E) (htopo : E.p.topoDeep) (har : E.fixF1 = true ∨ OutputArityOk E.p E.g) :
    ∀ f, NodeCSt E A (matchNode E f) f
  | 0 => fun _ _ _ _ _ h => absurd h (Nat.not_lt_zero _)
  | f + 1 => by
    intro np n rest c P hlt hs hok h hinv hfr hP
    have ih := matchNode_completeS E A hf3 hbk hex htopo har f
    have ihS := matchNode_specS E hf3 hbk htopo har f
    unfold matchNode
    exact nodeStep_completeS E A (matchNode E f) f ihS ih hf3 hbk hex htopo np n rest c P (by omega) hs hok h hinv hfr hP

/-! ## Top level: one output node -/

theorem root_run_completeS (E : Env) (A : Assign) (root : NodeId) (np0 : NPId) (hf3 : E.fixF3 = true)
    (hbk : E.p.backOk = true) (hex : GPat.exclOk E) (htopo : E.p.topoDeep)
    (har : E.fixF1 = true ∨ OutputArityOk E.p E.g) (hsingle : E.p.outputNodes = [np0])
    (hroot : OutputsOfRoot E.p np0) (hinst : Instance E root A) :
    ∃ c outs, matchNode E E.p.fuel np0 root [{}] = (true, [c]) ∧ SLe c A ∧
      outputValues E.p c = some outs := by
  obtain ⟨n, hn, hs⟩ := hinst.outNodes np0 (by simp [hsingle])
  have hr := hinst.rootNode np0 (by simp [hsingle])
  rw [hr] at hn
  cases hn
  have hlt : np0 < E.p.nodes.length := (satN_bounds hs).1
  have s0 : SubS [({} : Partial)] A :=
    ⟨fun p hp => by simp at hp; subst hp; intro k x h; simp at h,
     fun p hp => by simp at hp; subst hp; intro k x h; simp at h,
     fun p hp => by simp at hp; subst hp; intro k x h; simp at h⟩
  have inv0 : InvS E [] ({} : Partial) [] := by
    intro q m hq
    simp [lookupNode] at hq
  obtain ⟨c, e, ok, s⟩ := matchNode_completeS E A hf3 hbk hex htopo har E.p.fuel np0 root [] {} []
    (Nat.lt_succ_of_lt hlt) hs rfl s0 inv0 (FreshP.empty []) (fun _ h => by simp at h)
  obtain ⟨c', r1, _, _, s1⟩ := matchNode_specS E hf3 hbk htopo har E.p.fuel np0 root [] {} [] _ e inv0
    (fun _ h => by simp at h) (FreshP.empty [])
  have hcc : c' = c := by
    have := r1.st
    simp at this
    exact this.symm
  subst hcc
  have hsat := satN_mono (assignStack_single c') (s1 rfl).2
  have hbound : ∀ vp ∈ E.p.outputs, ∃ y, (assignOf c').outputOf E.p vp = some y := by
    intro vp hvp
    obtain ⟨idx, P, rfl, hP, hidx⟩ := hroot vp hvp
    cases hsat with
    | mk _ _ P' N hP' hN _ _ _ _ _ _ _ hout =>
      rw [hP] at hP'
      cases hP'
      obtain ⟨x, _, hx⟩ := hout idx hidx
      exact ⟨_, boundTo_outputOf _ _ _ _ _ hx⟩
  obtain ⟨outs, ho⟩ := mapM_some _ _ hbound
  obtain ⟨tb, tv, tn⟩ := s.top
  exact ⟨c', outs, e, ⟨ok, tb, tv, tn⟩, by rw [outputValues_eq]; exact ho⟩

/-- what follows from a successful, `A`-agreeing run of `_match_node` on the single output node -/
theorem matcher_complete_of_run (E : Env) (A : Assign) (root : NodeId) (np0 : NPId)
    (hsingle : E.p.outputNodes = [np0])
    (hrun : ∃ c outs, matchNode E E.p.fuel np0 root [{}] = (true, [c]) ∧ SLe c A ∧
      outputValues E.p c = some outs) :
    (matcherMatch E root false).ok = true ∧
      (∀ k x, (k, x) ∈ (matcherMatch E root false).nb → A.node k = some x) ∧
      (∀ k x, (k, x) ∈ (matcherMatch E root false).vb → A.leaf k = some x) ∧
      ((matcherMatch E root true).ok =
        validToReplace E.g (matcherMatch E root false).nodes (matcherMatch E root false).outputs) ∧
      ((matcherMatch E root true).ok = true → matcherMatch E root true = matcherMatch E root false) := by
  obtain ⟨c, outs, e, s, ho⟩ := hrun
  have hf : matcherMatch E root false = Result.ofPartial c outs := by
    unfold matcherMatch
    simp only [hsingle]
    unfold finish
    simp [e, topPartial, ho]
  have ht : matcherMatch E root true =
      if validToReplace E.g c.nodes outs then Result.ofPartial c outs
      else Result.ofPartial { c with ok := false } [] := by
    unfold matcherMatch
    simp only [hsingle]
    unfold finish
    simp only [e, topPartial, ho, Bool.not_true, Bool.false_eq_true, if_false, Bool.true_and]
    cases validToReplace E.g c.nodes outs <;> simp
  rw [hf, ht]
  refine ⟨s.ok, s.n, s.v, ?_, ?_⟩
  · cases hv : validToReplace E.g c.nodes outs <;> simp [Result.ofPartial, hv, s.ok]
  · cases hv : validToReplace E.g c.nodes outs <;> simp [Result.ofPartial, hv]

theorem patternMatch_complete_or (E : Env) (A : Assign) (root : NodeId) (np0 : NPId) (hf3 : E.fixF3 = true)
    (hbk : E.p.backOk = true) (hex : GPat.exclOk E) (htopo : E.p.topoDeep)
    (har : E.fixF1 = true ∨ OutputArityOk E.p E.g) (hsingle : E.p.outputNodes = [np0])
    (hroot : OutputsOfRoot E.p np0) (hinst : Instance E root A) (hchk : ChecksPass E.p A) :
    ∃ r, patternMatch E root false = some r ∧
      ((patternMatch E root true).isSome = true ↔ Removable E.g r.nodes r.outputs) := by
  obtain ⟨hok, hn, hv, htrue, hsame⟩ := matcher_complete_of_run E A root np0 hsingle
    (root_run_completeS E A root np0 hf3 hbk hex htopo har hsingle hroot hinst)
  obtain ⟨r, hr, hrn, hro⟩ := patternMatch_of_ok E A root false hok hn hv hchk hinst.cond
  refine ⟨r, hr, ?_⟩
  rw [hrn, hro]
  constructor
  · intro hs
    have hokT : (matcherMatch E root true).ok = true := by
      cases hc : (matcherMatch E root true).ok with
      | true => rfl
      | false => rw [patternMatch_none_of_not_ok E root true hc] at hs; simp at hs
    rw [htrue] at hokT
    exact validToReplace_removable _ _ _ hokT
  · intro hrem
    have hv' := removable_validToReplace _ _ _ hrem
    have hokT : (matcherMatch E root true).ok = true := by rw [htrue]; exact hv'
    have heq := hsame hokT
    obtain ⟨r', hr', _, _⟩ := patternMatch_of_ok E A root true hokT
      (by rw [heq]; exact hn) (by rw [heq]; exact hv) hchk hinst.cond
    simp [hr']

/-- soundness and completeness combined -/
theorem patternMatch_iff_instance (E : Env) (root : NodeId) (np0 : NPId) (hf3 : E.fixF3 = true)
    (hbk : E.p.backOk = true) (hex : GPat.exclOk E) (htopo : E.p.topoDeep)
    (har : E.fixF1 = true ∨ OutputArityOk E.p E.g) (hsingle : E.p.outputNodes = [np0])
    (hroot : OutputsOfRoot E.p np0) :
    ((patternMatch E root false).isSome = true ↔ ∃ A, Instance E root A ∧ ChecksPass E.p A) ∧
    ((patternMatch E root true).isSome = true ↔
      ∃ r, patternMatch E root false = some r ∧ Removable E.g r.nodes r.outputs) := by
  constructor
  · constructor
    · intro h
      obtain ⟨r, hr⟩ := Option.isSome_iff_exists.1 h
      obtain ⟨hi, hc, _⟩ := patternMatch_soundS E root false r hf3 hbk htopo har hr
      exact ⟨r.assign, hi, hc⟩
    · rintro ⟨A, hi, hc⟩
      obtain ⟨r, hr, _⟩ := patternMatch_complete_or E A root np0 hf3 hbk hex htopo har hsingle hroot hi hc
      simp [hr]
  · constructor
    · intro h
      obtain ⟨r', hr'⟩ := Option.isSome_iff_exists.1 h
      obtain ⟨hi, hc, _⟩ := patternMatch_soundS E root true r' hf3 hbk htopo har hr'
      obtain ⟨r, hr, hiff⟩ := patternMatch_complete_or E r'.assign root np0 hf3 hbk hex htopo har hsingle hroot hi hc
      exact ⟨r, hr, hiff.1 h⟩
    · rintro ⟨r, hr, hrem⟩
      obtain ⟨hi, hc, _⟩ := patternMatch_soundS E root false r hf3 hbk htopo har hr
      obtain ⟨r2, hr2, hiff⟩ := patternMatch_complete_or E r.assign root np0 hf3 hbk hex htopo har hsingle hroot hi hc
      rw [hr] at hr2
      cases hr2
      exact hiff.2 hrem

end OV.C06
