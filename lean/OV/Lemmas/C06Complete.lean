import OV.Lemmas.C06Sound
import OV.Lemmas.C06Top
/-!
  C06 — completeness of the transcribed matcher on OR-free patterns: if an assignment `A` makes
  node `n` an instance of node pattern `np`, then `_match_node` succeeds from every successful
  state that agrees with `A`, and the resulting state still agrees with `A`.
-/
namespace OV.C06

/-- the partial match is successful and everything it has bound so far is what `A` says -/
structure SLe (c : Partial) (A : Assign) : Prop where
  ok : c.ok = true
  b : ∀ k x, (k, x) ∈ c.bindings → A.names k = some x
  v : ∀ k x, (k, x) ∈ c.vb → A.leaf k = some x
  n : ∀ k x, (k, x) ∈ c.nb → A.node k = some x

theorem lookup_mem_c {α β} [BEq α] [LawfulBEq α] : ∀ (l : List (α × β)) (k : α) (v : β),
    l.lookup k = some v → (k, v) ∈ l := by
  intro l
  induction l with
  | nil => intro k v h; simp at h
  | cons hd tl ih =>
    intro k v h
    obtain ⟨k', v'⟩ := hd
    simp only [List.lookup] at h
    split at h
    · next he =>
      have : k = k' := by simpa using he
      cases h; subst this; simp
    · exact List.mem_cons_of_mem _ (ih k v h)

theorem mem_snoc {α} (l : List α) (a x : α) (h : x ∈ l ++ [a]) : x ∈ l ∨ x = a := by
  simpa using h

theorem lookup_snoc {α β} [BEq α] [LawfulBEq α] (l : List (α × β)) (k k' : α) (b x : β)
    (h : (l ++ [(k, b)]).lookup k' = some x) : l.lookup k' = some x ∨ (k' = k ∧ x = b) := by
  simp only [List.lookup_append, List.lookup] at h
  cases h1 : l.lookup k' with
  | some y => simp [h1] at h; exact .inl (by rw [h])
  | none =>
    simp only [h1, Option.none_or] at h
    split at h
    · next he => cases h; exact .inr ⟨by simpa using he, rfl⟩
    · cases h

theorem bind_complete (c : Partial) (A : Assign) (k : String) (b : Bound) (h : SLe c A)
    (hA : A.names k = some b) : ∃ c', bind [c] k b = (true, [c']) ∧ SLe c' A ∧ c'.nb = c.nb := by
  unfold bind
  simp only [lookupBinding_single]
  cases hl : c.bindings.lookup k with
  | some b' =>
    have : b' = b := by
      have := h.b k b' (lookup_mem_c _ _ _ hl)
      rw [hA] at this
      exact (Option.some.inj this).symm
    subst this
    simp only [BEq.rfl, if_true]
    exact ⟨c, rfl, h, rfl⟩
  | none =>
    refine ⟨_, rfl, ⟨h.ok, fun k' x hx => ?_, h.v, h.n⟩, rfl⟩
    rcases mem_snoc _ _ _ hx with h1 | he
    · exact h.b _ _ h1
    · cases he; exact hA

theorem bindValue_complete (p : GPat) (c : Partial) (A : Assign) (vp : VPat) (v : Option ValueId)
    (h : SLe c A) (hA : A.boundTo p vp v) :
    ∃ c', bindValue p [c] vp v = (true, [c']) ∧ SLe c' A ∧ c'.nb = c.nb := by
  unfold bindValue
  unfold Assign.boundTo at hA
  rcases hn : p.vname vp with _ | nm <;> simp only [hn] at hA ⊢
  · rcases hk : vp.key with _ | k <;> simp only [hk] at hA ⊢
    · exact ⟨c, rfl, h, rfl⟩
    · simp only [lookupVB_single]
      cases hl : c.vb.lookup k with
      | some v' =>
        have : v' = v := by
          have := h.v k v' (lookup_mem_c _ _ _ hl)
          rw [hA] at this
          exact (Option.some.inj this).symm
        subst this
        simp only [BEq.rfl, if_true]
        exact ⟨c, rfl, h, rfl⟩
      | none =>
        refine ⟨_, rfl, ⟨h.ok, h.b, fun k' x hx => ?_, h.n⟩, rfl⟩
        rcases mem_snoc _ _ _ hx with h1 | he
        · exact h.v _ _ h1
        · cases he; exact hA
  · exact bind_complete c A nm _ h hA

/-- with repair C06-F2 a named pattern carrying a checker is recorded in `value_bindings` under its
object id, which the declarative assignment does not constrain; completeness is stated for patterns
whose named variables carry no checker (checkers of unnamed patterns are unrestricted) -/
def NamedUnchecked (p : GPat) (vp : VPat) : Prop := (p.vname vp).isSome = true → vp.check = none

theorem bindValue2_complete (fix2 : Bool) (p : GPat) (c : Partial) (A : Assign) (vp : VPat)
    (v : Option ValueId) (h : SLe c A) (hA : A.boundTo p vp v) (hnc : NamedUnchecked p vp) :
    ∃ c', bindValue2 fix2 p [c] vp v = (true, [c']) ∧ SLe c' A ∧ c'.nb = c.nb := by
  obtain ⟨c1, e1, s1, n1⟩ := bindValue_complete p c A vp v h hA
  unfold bindValue2
  dsimp only
  have : (fix2 && (bindValue p [c] vp v).1 && (p.vname vp).isSome && vp.check.isSome) = false := by
    cases hn : (p.vname vp).isSome with
    | false => simp
    | true => simp [hnc hn]
  simp only [this, Bool.false_eq_true, if_false]
  exact ⟨c1, e1, s1, n1⟩

theorem attrsLoop_complete (n : GNode) (A : Assign) : ∀ (l : List (String × APat)) (c : Partial),
    SLe c A →
    (∀ name ap, (name, ap) ∈ l → attrOk n name ap ∧
      ∀ nm, ap.name = some nm → A.names nm = some (Bound.ofAttr (n.attr name))) →
    ∃ c', attrsLoop n l [c] = (true, [c']) ∧ SLe c' A ∧ c'.nb = c.nb := by
  intro l
  induction l with
  | nil => intro c h _; exact ⟨c, rfl, h, rfl⟩
  | cons hd rest ih =>
    intro c h hall
    obtain ⟨name, ap⟩ := hd
    have h0 := hall name ap (List.mem_cons_self ..)
    have hrest : ∀ name ap, (name, ap) ∈ rest → attrOk n name ap ∧
        ∀ nm, ap.name = some nm → A.names nm = some (Bound.ofAttr (n.attr name)) :=
      fun name ap hm => hall name ap (List.mem_cons_of_mem _ hm)
    unfold attrsLoop
    have hbad : attrBad n name ap = false := by
      have := h0.1
      unfold attrOk at this
      unfold attrBad
      cases hx : n.attr name <;> simp_all
    simp only [hbad, Bool.false_eq_true, if_false]
    rcases hnm : ap.name with _ | nm <;> dsimp only
    · exact ih c h hrest
    · obtain ⟨c1, e1, s1, n1⟩ := bind_complete c A nm _ h (h0.2 nm hnm)
      simp only [e1, Bool.not_true, Bool.false_eq_true, if_false]
      obtain ⟨c', e2, s2, n2⟩ := ih c1 s1 hrest
      exact ⟨c', e2, s2, n2.trans n1⟩

theorem nodeMatches_complete (A : Assign) (P : NPat) (N : GNode) (c : Partial) (h : SLe c A)
    (hop : P.op.matches N.op = true) (hdom : P.domain.matches N.domain = true)
    (ha : attrsSat A P N) :
    ∃ c', nodeMatches P N [c] = (true, [c']) ∧ SLe c' A ∧ c'.nb = c.nb := by
  unfold nodeMatches
  simp only [hop, hdom, Bool.not_true, Bool.false_eq_true, if_false]
  obtain ⟨c', e, s, n⟩ := attrsLoop_complete N A P.attrs c h ha.1
  simp only [e, Bool.not_true, Bool.false_eq_true, if_false]
  refine ⟨c', ?_, s, n⟩
  by_cases hao : P.allowOtherAttrs = true
  · simp [hao]
  · have hao' : P.allowOtherAttrs = false := by simpa using hao
    have hno : (N.attrs.any fun a => !P.attrs.any fun kv => kv.1 == a.name) = false := by
      simp only [List.any_eq_false, Bool.not_eq_true', Bool.not_eq_false]
      intro a ham
      obtain ⟨ap, hap⟩ := ha.2 hao' a ham
      intro hx
      exact hx (a.name, ap) hap (by simp)
    simp [hao', hno]

/-- no *named* value pattern among the inputs of the node patterns carries a checker -/
def NamedVarsUnchecked (p : GPat) : Prop :=
  ∀ P ∈ p.nodes, ∀ vp, some vp ∈ P.inputs → NamedUnchecked p vp

/-- the recursive node matcher succeeds on every node pattern below `f` that `A` satisfies -/
def NodeC (E : Env) (A : Assign) (rec : NPId → NodeId → Stack → R) (f : Nat) : Prop :=
  ∀ np n c, np < f → SatN E A np n → SLe c A → ∃ c', rec np n [c] = (true, [c']) ∧ SLe c' A

theorem matchValue_complete (E : Env) (A : Assign) (rec : NPId → NodeId → Stack → R) (f : Nat)
    (hrec : NodeC E A rec f) (vp : VPat) (hno : vp.noOr = true) (v : Option ValueId) (c : Partial)
    (hs : SatV E A vp v) (h : SLe c A) (hq : ∀ q idx, vp = .out q idx → q < f)
    (hnc : E.fixF2 = false ∨ NamedUnchecked E.p vp) :
    ∃ c', matchValue E rec vp v [c] = (true, [c']) ∧ SLe c' A := by
  cases hs with
  | any v =>
    unfold matchValue
    have : crossGraphBad E.g .any v = false := by
      unfold crossGraphBad; cases v <;> simp [VPat.crossGraphOk]
    simp only [this, Bool.false_eq_true, if_false]
    exact ⟨c, rfl, h⟩
  | var id name isVar canNone check v hb h1 h2 =>
    unfold matchValue
    have hcg : crossGraphBad E.g (.var id name isVar canNone check) v = false := by
      unfold crossGraphBad
      cases v with
      | none => rfl
      | some x =>
        cases hf : E.g.isForeign x with
        | false => simp [hf]
        | true => simp [VPat.crossGraphOk, h2 x rfl hf]
    simp only [hcg, Bool.false_eq_true, if_false]
    obtain ⟨c1, e1, s1, _⟩ : ∃ c', bindValue2 E.fixF2 E.p [c] (.var id name isVar canNone check) v = (true, [c']) ∧
        SLe c' A ∧ c'.nb = c.nb := by
      rcases hnc with hf | hnc
      · obtain ⟨c1, e1, s1, n1⟩ := bindValue_complete E.p c A _ v h hb
        refine ⟨c1, ?_, s1, n1⟩
        unfold bindValue2
        simp [hf, e1]
      · exact bindValue2_complete E.fixF2 E.p c A _ v h hb hnc
    simp only [e1, Bool.not_true, Bool.false_eq_true, if_false]
    have : (v.isNone && !canNone) = false := by
      cases v with
      | none => simp [h1 rfl]
      | some x => simp
    simp only [this, Bool.false_eq_true, if_false]
    exact ⟨c1, rfl, s1⟩
  | const id k x cv hb h1 h2 =>
    unfold matchValue
    have hcg : crossGraphBad E.g (.const id k) (some x) = false := by
      simp [crossGraphBad, VPat.crossGraphOk]
    simp only [hcg, Bool.false_eq_true, if_false]
    obtain ⟨c1, e1, s1, _⟩ := bindValue_complete E.p c A _ _ h hb
    simp only [e1, Bool.not_true, Bool.false_eq_true, if_false]
    unfold matchConstant
    simp only [h1, h2, if_true]
    exact ⟨c1, rfl, s1⟩
  | out np idx x n hb hf hp hi hn =>
    unfold matchValue
    have hcg : crossGraphBad E.g (.out np idx) (some x) = false := by
      simp [crossGraphBad, hf]
    simp only [hcg, Bool.false_eq_true, if_false]
    obtain ⟨c1, e1, s1, _⟩ := bindValue_complete E.p c A _ _ h hb
    simp only [e1, Bool.not_true, Bool.false_eq_true, if_false]
    unfold matchNodeOutput
    simp only [hp, hi, bne_self_eq_false, Bool.false_eq_true, if_false]
    exact hrec np n c1 (hq np idx rfl) hn s1
  | orD => simp [VPat.noOr] at hno
  | orB => simp [VPat.noOr] at hno

theorem matchInputs_complete (E : Env) (A : Assign) (rec : NPId → NodeId → Stack → R) (f : Nat)
    (hrec : NodeC E A rec f) :
    ∀ (pairs : List (Option ValueId × Option VPat)) (c : Partial), SLe c A →
      (∀ v, (v, none) ∈ pairs → v = none) →
      (∀ v vp, (v, some vp) ∈ pairs → vp.noOr = true ∧ SatV E A vp v ∧ (∀ q idx, vp = .out q idx → q < f) ∧
        (E.fixF2 = false ∨ NamedUnchecked E.p vp)) →
      ∃ c', matchInputs (matchValue E rec) pairs [c] = (true, [c']) ∧ SLe c' A := by
  intro pairs
  induction pairs with
  | nil => intro c h _ _; exact ⟨c, rfl, h⟩
  | cons hd rest ih =>
    intro c h hnone hsome
    obtain ⟨v, ovp⟩ := hd
    cases ovp with
    | none =>
      unfold matchInputs
      have : v = none := hnone v (List.mem_cons_self ..)
      subst this
      simp only [Option.isNone_none, if_true]
      exact ih c h (fun v hm => hnone v (List.mem_cons_of_mem _ hm))
        (fun v vp hm => hsome v vp (List.mem_cons_of_mem _ hm))
    | some vp =>
      unfold matchInputs
      obtain ⟨hno, hs, hq, hnc⟩ := hsome v vp (List.mem_cons_self ..)
      obtain ⟨c1, e1, s1⟩ := matchValue_complete E A rec f hrec vp hno v c hs h hq hnc
      simp only [e1, Bool.not_true, Bool.false_eq_true, if_false]
      exact ih c1 s1 (fun v hm => hnone v (List.mem_cons_of_mem _ hm))
        (fun v vp hm => hsome v vp (List.mem_cons_of_mem _ hm))

theorem bindOutputs_complete (fix : Bool) (p : GPat) (A : Assign) (np : NPId) (gouts : List ValueId) :
    ∀ (rest : List (Option String)) (i : Nat) (c : Partial), SLe c A →
      (∀ j, i ≤ j → j < i + rest.length → ∃ x, gouts[j]? = some x ∧ A.boundTo p (.out np j) (some x)) →
      ∃ c', bindOutputs fix p np gouts rest i [c] = (true, [c']) ∧ SLe c' A ∧ c'.nb = c.nb := by
  intro rest
  induction rest with
  | nil => intro i c h _; exact ⟨c, rfl, h, rfl⟩
  | cons hd rest ih =>
    intro i c h hall
    unfold bindOutputs
    obtain ⟨x, hx, hb⟩ := hall i (Nat.le_refl _) (by simp)
    simp only [hx]
    obtain ⟨c1, e1, s1, n1⟩ := bindValue_complete p c A _ _ h hb
    simp only [e1, Bool.not_true, Bool.false_eq_true, if_false]
    obtain ⟨c', e2, s2, n2⟩ := ih (i + 1) c1 s1 (fun j h1 h2 => hall j (by omega) (by simp only [List.length_cons]; omega))
    exact ⟨c', e2, s2, n2.trans n1⟩

theorem zipPad_mem : ∀ (vs : List (Option ValueId)) (ps : List (Option VPat)) (v : Option ValueId)
    (pat : Option VPat), (v, pat) ∈ zipPad vs ps → ∃ i : Nat, ps[i]? = some pat ∧ v = (vs[i]?).bind id := by
  intro vs ps
  induction ps generalizing vs with
  | nil => intro v pat h; simp [zipPad] at h
  | cons p ps ih =>
    intro v pat h
    cases vs with
    | nil =>
      unfold zipPad at h
      rcases List.mem_cons.1 h with he | hm
      · cases he; exact ⟨0, rfl, rfl⟩
      · obtain ⟨i, h1, h2⟩ := ih [] v pat hm
        exact ⟨i + 1, by simpa using h1, by simpa using h2⟩
    | cons v' vs =>
      unfold zipPad at h
      rcases List.mem_cons.1 h with he | hm
      · cases he; exact ⟨0, rfl, rfl⟩
      · obtain ⟨i, h1, h2⟩ := ih vs v pat hm
        exact ⟨i + 1, by simpa using h1, by simpa using h2⟩

theorem nodeStep_complete (E : Env) (A : Assign) (rec : NPId → NodeId → Stack → R) (f : Nat)
    (hrec : NodeC E A rec f) (hno : E.p.noOr = true) (htopo : E.p.topo)
    (hnc : E.fixF2 = false ∨ NamedVarsUnchecked E.p) :
    ∀ np n c, np ≤ f → SatN E A np n → SLe c A →
      ∃ c', nodeStep E (matchValue E rec) np n [c] = (true, [c']) ∧ SLe c' A ∧
        (c.nb.lookup np = none → ∀ P N, E.p.nodes[np]? = some P → E.g.nodes[n]? = some N →
          ∀ i, i < P.outputs.length →
            ∃ x, N.outputs[i]? = some x ∧ (assignOf c').boundTo E.p (.out np i) (some x)) := by
  intro np n c hnf hs h
  cases hs with
  | mk _ _ P N hP hN hnode hop hdom hattrs hlen hnone hsome houts =>
    unfold nodeStep
    simp only [lookupNode_single]
    cases hl : c.nb.lookup np with
    | some m =>
      have : m = n := by
        have := h.n np m (lookup_mem_c _ _ _ hl)
        rw [hnode] at this
        exact (Option.some.inj this).symm
      subst this
      simp only [BEq.rfl, if_true]
      exact ⟨c, rfl, h, fun hn => by simp at hn⟩
    | none =>
      simp only [hP, hN]
      obtain ⟨c1, e1, s1, n1⟩ := nodeMatches_complete A P N c h hop hdom hattrs
      simp only [e1, Bool.not_true, Bool.false_eq_true, if_false]
      have hc2 : bindNode [c1] np n =
          [{ c1 with nodes := c1.nodes ++ [n], nb := c1.nb ++ [(np, n)] }] := rfl
      rw [hc2]
      have s2 : SLe { c1 with nodes := c1.nodes ++ [n], nb := c1.nb ++ [(np, n)] } A :=
        ⟨s1.ok, s1.b, s1.v, fun k x hx => by
          rcases mem_snoc _ _ _ hx with h1 | he
          · exact s1.n _ _ h1
          · cases he; exact hnode⟩
      have hlen' : (decide (N.inputs.length > P.inputs.length) && !P.allowOtherInputs) = false := by
        rcases hlen with hl | hl
        · have : ¬ N.inputs.length > P.inputs.length := by omega
          simp [this]
        · simp [hl]
      simp only [hlen', Bool.false_eq_true, if_false]
      have hpairs_none : ∀ v, (v, none) ∈ zipPad N.inputs P.inputs → v = none := by
        intro v hm
        obtain ⟨i, h1, h2⟩ := zipPad_mem _ _ _ _ hm
        rw [h2]
        exact hnone i h1
      have hpairs_some : ∀ v vp, (v, some vp) ∈ zipPad N.inputs P.inputs →
          vp.noOr = true ∧ SatV E A vp v ∧ (∀ q idx, vp = .out q idx → q < f) ∧
            (E.fixF2 = false ∨ NamedUnchecked E.p vp) := by
        intro v vp hm
        obtain ⟨i, h1, h2⟩ := zipPad_mem _ _ _ _ hm
        have hin : some vp ∈ P.inputs := List.mem_of_getElem? h1
        refine ⟨noOr_input hno hP hin, ?_, fun q idx he => ?_, hnc.imp id (fun h => h P (List.mem_of_getElem? hP) vp hin)⟩
        · rw [h2]; exact hsome i vp h1
        · subst he
          exact Nat.lt_of_lt_of_le (htopo np P hP q idx hin) hnf
      obtain ⟨c3, e3, s3⟩ := matchInputs_complete E A rec f hrec _ _ s2 hpairs_none hpairs_some
      simp only [e3, Bool.not_true, Bool.false_eq_true, if_false]
      obtain ⟨c4, e4, s4, _⟩ := bindOutputs_complete E.fixF1 E.p A np N.outputs P.outputs 0 c3 s3
        (fun j _ hj => houts j (by omega))
      refine ⟨c4, e4, s4, fun _ P' N' hP' hN' i hi => ?_⟩
      cases hP'; cases hN'
      have hlenO : 0 + P.outputs.length ≤ N.outputs.length := by
        rcases Nat.lt_or_ge N.outputs.length P.outputs.length with hlt | hge
        · obtain ⟨x, hx, _⟩ := houts N.outputs.length hlt
          simp at hx
        · omega
      obtain ⟨c5, r5, _, b5⟩ := bindOutputs_spec E.fixF1 E.p np N.outputs P.outputs 0 c3 _ e4 (.inr hlenO)
      have : c5 = c4 := by
        have := r5.st
        simp at this
        exact this.symm
      subst this
      exact b5 rfl i (Nat.zero_le _) (by omega)

theorem matchNode_complete (E : Env) (A : Assign) (hno : E.p.noOr = true) (htopo : E.p.topo)
    (hnc : E.fixF2 = false ∨ NamedVarsUnchecked E.p) :
    ∀ f, NodeC E A (matchNode E f) f
  | 0 => fun _ _ _ h => absurd h (Nat.not_lt_zero _)
  | f + 1 => by
    intro np n c hlt hs h
    have ih := matchNode_complete E A hno htopo hnc f
    unfold matchNode
    obtain ⟨c', e, s, _⟩ := nodeStep_complete E A (matchNode E f) f ih hno htopo hnc np n c (by omega) hs h
    exact ⟨c', e, s⟩

/-! ## Top level: patterns with one output node whose outputs are outputs of that node -/

theorem mapM_some {α β} (f : α → Option β) : ∀ l : List α, (∀ x ∈ l, ∃ y, f x = some y) →
    ∃ out, l.mapM f = some out := by
  intro l
  induction l with
  | nil => intro _; exact ⟨[], rfl⟩
  | cons a l ih =>
    intro h
    obtain ⟨y, hy⟩ := h a (List.mem_cons_self ..)
    obtain ⟨out, ho⟩ := ih (fun x hx => h x (List.mem_cons_of_mem _ hx))
    exact ⟨y :: out, by simp [List.mapM_cons, hy, ho]⟩

theorem boundTo_outputOf (A : Assign) (p : GPat) (np idx : Nat) (x : ValueId)
    (h : A.boundTo p (.out np idx) (some x)) : A.outputOf p (.out np idx) = some (.val x) := by
  unfold Assign.boundTo at h
  unfold Assign.outputOf
  rcases hn : p.vname (.out np idx) with _ | nm <;> simp only [hn] at h ⊢
  · simp only [VPat.key] at h ⊢
    simp [h, Bound.ofVal]
  · simpa [Bound.ofVal] using h

/-- every pattern output is an output of the (single) output node `np0` -/
def OutputsOfRoot (p : GPat) (np0 : NPId) : Prop :=
  ∀ vp ∈ p.outputs, ∃ idx P, vp = .out np0 idx ∧ p.nodes[np0]? = some P ∧ idx < P.outputs.length

/-- the run of `_match_node` on the root that completeness guarantees -/
theorem root_run_complete (E : Env) (A : Assign) (root : NodeId) (np0 : NPId)
    (hno : E.p.noOr = true) (htopo : E.p.topo) (hnc : E.fixF2 = false ∨ NamedVarsUnchecked E.p)
    (hsingle : E.p.outputNodes = [np0])
    (hroot : OutputsOfRoot E.p np0) (hinst : Instance E root A) :
    ∃ c outs, matchNode E E.p.fuel np0 root [{}] = (true, [c]) ∧ SLe c A ∧
      outputValues E.p c = some outs := by
  obtain ⟨n, hn, hs⟩ := hinst.outNodes np0 (by simp [hsingle])
  have hr := hinst.rootNode np0 (by simp [hsingle])
  rw [hr] at hn
  cases hn
  have hlt : np0 < E.p.nodes.length := by
    cases hs with
    | mk _ _ P N hP =>
      rcases Nat.lt_or_ge np0 E.p.nodes.length with h | h
      · exact h
      · simp [List.getElem?_eq_none h] at hP
  have s0 : SLe ({} : Partial) A :=
    ⟨rfl, fun _ _ h => by simp at h, fun _ _ h => by simp at h, fun _ _ h => by simp at h⟩
  have hfuel : E.p.fuel = E.p.nodes.length + 1 := rfl
  rw [hfuel]
  unfold matchNode
  obtain ⟨c, e, s, hb⟩ := nodeStep_complete E A (matchNode E E.p.nodes.length) E.p.nodes.length
    (matchNode_complete E A hno htopo hnc _) hno htopo hnc np0 root {} (Nat.le_of_lt hlt) hs s0
  have hbound := hb (by simp)
  have : ∀ vp ∈ E.p.outputs, ∃ y, (assignOf c).outputOf E.p vp = some y := by
    intro vp hvp
    obtain ⟨idx, P, rfl, hP, hidx⟩ := hroot vp hvp
    cases hs with
    | mk _ _ P' N hP' hN =>
      rw [hP] at hP'
      cases hP'
      obtain ⟨x, _, hx⟩ := hbound P N hP hN idx hidx
      exact ⟨_, boundTo_outputOf _ _ _ _ _ hx⟩
  obtain ⟨outs, ho⟩ := mapM_some _ _ this
  exact ⟨c, outs, e, s, by rw [outputValues_eq]; exact ho⟩

theorem removable_validToReplace (g : Graph) (matched : List NodeId) (outs : List Bound)
    (h : Removable g matched outs) : validToReplace g matched outs = true := by
  unfold validToReplace
  simp only [List.all_eq_true]
  intro n hn
  cases hg : g.nodes[n]? with
  | none => rfl
  | some gn =>
    simp only [List.all_eq_true]
    intro v hv
    by_cases hc : outs.contains (Bound.val v) = true
    · have : Bound.val v ∈ outs := by simpa using hc
      simp [this]
    · have hnot : Bound.val v ∉ outs := by simpa using hc
      obtain ⟨h1, h2, h3⟩ := h n hn gn hg v hv hnot
      have hc' : outs.contains (Bound.val v) = false := by simpa using hc
      simp only [hc', Bool.false_or, Bool.and_eq_true, Bool.not_eq_true', List.all_eq_true]
      refine ⟨⟨h1, fun c hcm => ?_⟩, ?_⟩
      · simpa using h2 c hcm
      · simpa using h3

/-- `SimplePatternMatcher.match` on an instance: without the removability test it succeeds; with
it, it succeeds exactly when the nodes/outputs it found pass `_valid_to_replace`. -/
theorem matcher_complete_single (E : Env) (A : Assign) (root : NodeId) (np0 : NPId)
    (hno : E.p.noOr = true) (htopo : E.p.topo) (hnc : E.fixF2 = false ∨ NamedVarsUnchecked E.p)
    (hsingle : E.p.outputNodes = [np0])
    (hroot : OutputsOfRoot E.p np0) (hinst : Instance E root A) :
    (matcherMatch E root false).ok = true ∧
      (∀ k x, (k, x) ∈ (matcherMatch E root false).nb → A.node k = some x) ∧
      (∀ k x, (k, x) ∈ (matcherMatch E root false).vb → A.leaf k = some x) ∧
      (∀ k x, (k, x) ∈ (matcherMatch E root false).bindings → A.names k = some x) ∧
      ((matcherMatch E root true).ok =
        validToReplace E.g (matcherMatch E root false).nodes (matcherMatch E root false).outputs) ∧
      ((matcherMatch E root true).ok = true → matcherMatch E root true = matcherMatch E root false) := by
  obtain ⟨c, outs, e, s, ho⟩ := root_run_complete E A root np0 hno htopo hnc hsingle hroot hinst
  have hf : matcherMatch E root false = Result.ofPartial c outs := by
    unfold matcherMatch
    simp only [hsingle]
    unfold finish
    simp [e, topPartial, ho]
  have ht : matcherMatch E root true =
      if validToReplace E.g c.nodes outs then Result.ofPartial c outs
      else Result.ofPartial { c with ok := false } [] := by
    unfold matcherMatch
    simp only [hsingle]
    unfold finish
    simp only [e, topPartial, ho, Bool.not_true, Bool.false_eq_true, if_false, Bool.true_and]
    cases validToReplace E.g c.nodes outs <;> simp
  rw [hf, ht]
  refine ⟨s.ok, s.n, s.v, s.b, ?_, ?_⟩
  · cases hv : validToReplace E.g c.nodes outs <;> simp [Result.ofPartial, hv, s.ok]
  · cases hv : validToReplace E.g c.nodes outs <;> simp [Result.ofPartial, hv]

theorem patternMatch_of_ok (E : Env) (A : Assign) (root : NodeId) (rm : Bool)
    (hok : (matcherMatch E root rm).ok = true)
    (hn : ∀ k x, (k, x) ∈ (matcherMatch E root rm).nb → A.node k = some x)
    (hv : ∀ k x, (k, x) ∈ (matcherMatch E root rm).vb → A.leaf k = some x)
    (hchk : ChecksPass E.p A) (hcond : E.p.cond = true) :
    ∃ r, patternMatch E root rm = some r ∧ r.nodes = (matcherMatch E root rm).nodes ∧
      r.outputs = (matcherMatch E root rm).outputs := by
  unfold patternMatch
  have h1 : ∀ r : Result, r.nb = (matcherMatch E root rm).nb → checksPass E.p r = true := by
    intro r hr
    unfold checksPass
    simp only [List.all_eq_true, hr]
    intro kv hkv
    cases hP : E.p.nodes[kv.1]? with
    | none => rfl
    | some P =>
      have := hchk.nodes kv.1 kv.2 P (hn kv.1 kv.2 hkv) hP
      simpa using this
  have h2 : ∀ r : Result, r.vb = (matcherMatch E root rm).vb → valueChecksPass E.p r = true := by
    intro r hr
    unfold valueChecksPass
    simp only [List.all_eq_true, hr]
    intro kv hkv
    obtain ⟨k, v⟩ := kv
    cases k with
    | outp a b => rfl
    | leaf id =>
      have := hchk.values id v (hv _ _ hkv)
      simpa using this
  refine ⟨{ matcherMatch E root rm with
    bindings := bindInputs E.p.inputs (matcherMatch E root rm).bindings }, ?_, rfl, rfl⟩
  dsimp only
  rw [if_neg (by simp [hok]), if_neg (by simp [h1]), if_neg (by simp [h2]), if_neg (by simp [hcond])]

theorem patternMatch_none_of_not_ok (E : Env) (root : NodeId) (rm : Bool)
    (hok : (matcherMatch E root rm).ok = false) : patternMatch E root rm = none := by
  unfold patternMatch
  simp [hok]

theorem patternMatch_complete_single (E : Env) (A : Assign) (root : NodeId) (np0 : NPId)
    (hno : E.p.noOr = true) (htopo : E.p.topo) (hnc : E.fixF2 = false ∨ NamedVarsUnchecked E.p)
    (hsingle : E.p.outputNodes = [np0])
    (hroot : OutputsOfRoot E.p np0) (hinst : Instance E root A) (hchk : ChecksPass E.p A) :
    ∃ r, patternMatch E root false = some r ∧
      ((patternMatch E root true).isSome = true ↔ Removable E.g r.nodes r.outputs) := by
  obtain ⟨hok, hn, hv, _, htrue, hsame⟩ :=
    matcher_complete_single E A root np0 hno htopo hnc hsingle hroot hinst
  obtain ⟨r, hr, hrn, hro⟩ := patternMatch_of_ok E A root false hok hn hv hchk hinst.cond
  refine ⟨r, hr, ?_⟩
  rw [hrn, hro]
  constructor
  · intro hs
    have hokT : (matcherMatch E root true).ok = true := by
      cases hc : (matcherMatch E root true).ok with
      | true => rfl
      | false => rw [patternMatch_none_of_not_ok E root true hc] at hs; simp at hs
    rw [htrue] at hokT
    exact validToReplace_removable _ _ _ hokT
  · intro hrem
    have hv' := removable_validToReplace _ _ _ hrem
    have hokT : (matcherMatch E root true).ok = true := by rw [htrue]; exact hv'
    have heq := hsame hokT
    obtain ⟨r', hr', _, _⟩ := patternMatch_of_ok E A root true hokT
      (by rw [heq]; exact hn) (by rw [heq]; exact hv) hchk hinst.cond
    simp [hr']

end OV.C06
