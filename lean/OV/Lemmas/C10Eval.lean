import OV.Model.C10Eval
import OV.Lemmas.C10
/-! Helper lemmas for the evaluation-level C10 theorems (core Lean only). -/
namespace OV.C10

variable {D E : Type}

theorem Env.set_same (env : Env D E) (n : Nat) (v : Option (Val D E)) : (env.set n v) n = v := by
  simp [Env.set]

theorem Env.set_ne (env : Env D E) {n m : Nat} (v : Option (Val D E)) (h : m ≠ n) : (env.set n v) m = env m := by
  simp [Env.set, h]

theorem evalNodes_append (sem : OpSem D E) (env : Env D E) (a b : List ENode) :
    evalNodes sem env (a ++ b) = evalNodes sem (evalNodes sem env a) b := by
  induction a generalizing env with
  | nil => rfl
  | cons n ns ih => simp only [List.cons_append, evalNodes, ih]

theorem agree_refl (b : Nat) (env : Env D E) : Agree b env env := fun _ _ => rfl

theorem agree_trans {b : Nat} {e1 e2 e3 : Env D E} (h1 : Agree b e1 e2) (h2 : Agree b e2 e3) : Agree b e1 e3 :=
  fun m hm => (h1 m hm).trans (h2 m hm)

theorem ins_agree {b : Nat} {env env' : Env D E} (h : Agree b env env') (ins : List (Option Nat))
    (hb : ∀ i ∈ ins, ∀ m, i = some m → m < b) :
    ins.map (fun i => i.bind env) = ins.map (fun i => i.bind env') := by
  apply List.map_congr_left
  intro i hi
  cases i with
  | none => rfl
  | some m => exact h m (hb _ hi m rfl)

theorem agree_evalNode (sem : OpSem D E) {b : Nat} {env env' : Env D E} (n : ENode) (hn : n.Below b)
    (h : Agree b env env') : Agree b (evalNode sem env n) (evalNode sem env' n) := by
  intro m hm
  unfold evalNode Env.set
  rw [ins_agree h n.ins hn.2]
  split
  · rfl
  · exact h m hm

theorem getD_bind_agree {b : Nat} {env env' : Env D E} (n : ENode) (hn : n.Below b) (h : Agree b env env') (j : Nat) :
    (n.ins.getD j none).bind env' = (n.ins.getD j none).bind env := by
  cases hi : n.ins.getD j none with
  | none => rfl
  | some m =>
    have hmem : some m ∈ n.ins := by
      have : n.ins[j]? = some (some m) := by
        simp only [List.getD_eq_getElem?_getD] at hi
        cases hq : n.ins[j]? with
        | none => simp [hq] at hi
        | some q => simp [hq] at hi; rw [hi]
      exact List.mem_of_getElem? this
    exact (h m (hn.2 _ hmem m rfl)).symm

theorem truthful_agree (chan : D → Nat) {b : Nat} {env env' : Env D E} (n : ENode) (hn : n.Below b) (h : Agree b env env')
    (ht : Truthful chan env n) : Truthful chan env' n := by
  unfold Truthful at *
  cases hop : n.op with
  | groupNorm gn =>
    rw [hop] at ht
    obtain ⟨h3, hdiv, ⟨s, b', hs, hb', ls, lb⟩, hx⟩ := ht
    refine ⟨h3, hdiv, ⟨s, b', ?_, ?_, ls, lb⟩, ?_⟩
    · rw [getD_bind_agree n hn h 1]; exact hs
    · rw [getD_bind_agree n hn h 2]; exact hb'
    · rcases hx with hx | ⟨dx, h1, h2⟩
      · exact Or.inl hx
      · exact Or.inr ⟨dx, by rw [getD_bind_agree n hn h 0]; exact h1, h2⟩
  | dft a b c d e f => rw [hop] at ht; exact ht
  | plain _ => trivial
  | const _ _ => trivial
  | call _ => trivial
  | gridSample _ _ _ => trivial

/-- Operators on which no adapter fires from `v` on read the same at every later opset. -/
theorem meaning_quiet {op : Op} {v : Nat} (h : ∀ v', v ≤ v' → adapt op v' = .noAdapter) (k : Nat) :
    op.meaning (v + k) = op.meaning v := by
  induction k with
  | zero => rfl
  | succ k ih => rw [← ih, ← Nat.add_assoc]; exact meaning_mono_lemma _ _ (h _ (by omega))

theorem evalOp_ver (sem : OpSem D E) (chan : D → Nat) (hl : Laws sem chan) (op : Op) (v v' : Nat) (ins : List (Option (Val D E)))
    (h : op.meaning v = op.meaning v') : evalOp sem op v ins = evalOp sem op v' ins := by
  unfold evalOp
  split <;> first | rfl | exact hl.sameMeaning _ _ _ _ h

theorem evalNode_ver (sem : OpSem D E) (chan : D → Nat) (hl : Laws sem chan) (env : Env D E) (n : ENode) (v' : Nat)
    (h : n.op.meaning n.ver = n.op.meaning v') : evalNode sem env { n with ver := v' } = evalNode sem env n := by
  unfold evalNode
  simp only []
  rw [evalOp_ver sem chan hl n.op n.ver v' _ h]

/-- Stamp-only steps. -/
theorem stepsE_quiet (k : Nat) : ∀ (v : Nat) (n : ENode) (f : Nat), n.ver = v →
    (∀ v', v ≤ v' → adapt n.op v' = .noAdapter) → stepsE k v n f = ([{ n with ver := v + k }], f) := by
  induction k with
  | zero => intro v n f hv _; simp [stepsE, ← hv]
  | succ k ih =>
    intro v n f hv hq
    unfold stepsE
    rw [hq v (Nat.le_refl _)]
    simp only []
    rw [ih (v + 1) { n with ver := v + 1 } f rfl (fun v' hv' => hq v' (by omega))]
    simp only [Prod.mk.injEq, List.cons.injEq, and_true]
    congr 1; omega

theorem mapFresh_quiet (g : ENode → Nat → List ENode × Nat) (h : ENode → ENode) :
    ∀ (ms : List ENode) (f : Nat), (∀ m ∈ ms, ∀ f, g m f = ([h m], f)) → mapFresh g ms f = (ms.map h, f) := by
  intro ms
  induction ms with
  | nil => intro f _; rfl
  | cons m ms ih =>
    intro f hm
    unfold mapFresh
    rw [hm m (List.mem_cons_self ..) f]
    simp only []
    rw [ih f (fun m' hm' => hm m' (List.mem_cons_of_mem _ hm'))]
    rfl

theorem evalNodes_map_congr (sem : OpSem D E) (h : ENode → ENode) :
    ∀ (ms : List ENode) (env : Env D E), (∀ m ∈ ms, ∀ e : Env D E, evalNode sem e (h m) = evalNode sem e m) →
      evalNodes sem env (ms.map h) = evalNodes sem env ms := by
  intro ms
  induction ms with
  | nil => intro _ _; rfl
  | cons m ms ih =>
    intro env hm
    simp only [List.map_cons, evalNodes, hm m (List.mem_cons_self ..)]
    exact ih _ (fun m' hm' => hm m' (List.mem_cons_of_mem _ hm'))

theorem getD_map_bind (env : Env D E) (ins : List (Option Nat)) (j : Nat) :
    (ins.map (fun i => i.bind env)).getD j none = (ins.getD j none).bind env := by
  simp only [List.getD_eq_getElem?_getD, List.getElem?_map]
  cases ins[j]? <;> rfl

theorem getD_below {n : ENode} {b : Nat} (hn : n.Below b) (j m : Nat) (h : n.ins.getD j none = some m) : m < b := by
  simp only [List.getD_eq_getElem?_getD] at h
  cases hq : n.ins[j]? with
  | none => simp [hq] at h
  | some q =>
    simp [hq] at h
    exact hn.2 q (List.mem_of_getElem? hq) m h

/-- Reading an input below `f` is not affected by a binding of a name `≥ f`. -/
theorem bind_set_fresh (env : Env D E) (i : Option Nat) (f g : Nat) (v : Option (Val D E))
    (hi : ∀ m, i = some m → m < f) (hg : f ≤ g) : i.bind (env.set g v) = i.bind env := by
  cases i with
  | none => rfl
  | some m =>
    have h1 : @LT.lt Nat _ m f := hi m rfl
    have hne : m ≠ g := fun h => by subst h; exact absurd h1 (Nat.not_lt.mpr hg)
    simp [Option.bind, Env.set, hne]

theorem evalOp_sem_gs (sem : OpSem D E) (m : Option String) (a : Option Int) (p : Option String) (v : Nat) ins :
    evalOp sem (.gridSample m a p) v ins = sem (.gridSample m a p) v ins := by
  simp [evalOp]

theorem evalOp_sem_dft (sem : OpSem D E) (a i o : Option Int) (l : Bool) (ai : Option Int) (r v : Nat) ins :
    evalOp sem (.dft a i o l ai r) v ins = sem (.dft a i o l ai r) v ins := by
  simp [evalOp]

theorem evalOp_sem_gn (sem : OpSem D E) (g : GN) (v : Nat) ins :
    evalOp sem (.groupNorm g) v ins = sem (.groupNorm g) v ins := by
  simp [evalOp]

theorem rewrite_eval_gs (sem : OpSem D E) (chan : D → Nat) (hl : Laws sem chan) (env : Env D E) (n : ENode) (v f b : Nat) (news : List Op)
    (m : Option String) (a : Option Int) (p : Option String) (hop : n.op = .gridSample m a p)
    (hA : adapt n.op v = .replaced news) (hver : n.ver = v) (hvalid : (n.op.meaning v).isSome) :
    ∃ news' f', rewriteE n v f = some (news', f') ∧ f ≤ f' ∧ news'.map (·.op) = news ∧ (∀ x ∈ news', x.ver = v + 1) ∧
      Agree b (evalNodes sem env news') (evalNode sem env n) := by
  rw [hop] at hA hvalid
  have hv : v = 19 := by
    simp only [adapt] at hA
    split at hA
    · assumption
    · cases hA
  subst hv
  simp only [adapt, if_true, gridsample_19_20] at hA
  have key : ∀ (m' : String), news = [.gridSample (some m') (some (a.getD 0)) (some (p.getD "zeros"))] →
      (Op.gridSample m a p).meaning 19 = (Op.gridSample (some m') (some (a.getD 0)) (some (p.getD "zeros"))).meaning 20 →
      ∃ news' f', rewriteE n 19 f = some (news', f') ∧ f ≤ f' ∧ news'.map (·.op) = news ∧ (∀ x ∈ news', x.ver = 19 + 1) ∧
        Agree b (evalNodes sem env news') (evalNode sem env n) := by
    intro m' hn hm
    subst hn
    refine ⟨[{ op := .gridSample (some m') (some (a.getD 0)) (some (p.getD "zeros")), ver := 20, ins := n.ins, out := n.out }],
      f, ?_, Nat.le_refl _, rfl, ?_, ?_⟩
    · have hA' : adapt n.op 19 = .replaced [.gridSample (some m') (some (a.getD 0)) (some (p.getD "zeros"))] := by
        rw [hop]; simp only [adapt, if_true, gridsample_19_20]; exact hA
      simp only [rewriteE, hop]
      rw [hop] at hA'
      rw [hA']
    · intro x hx; simp at hx; subst hx; rfl
    · intro q _
      simp only [evalNodes, evalNode, hop, hver, evalOp_sem_gs]
      rw [hl.gridSample m a p (some m') (some (a.getD 0)) (some (p.getD "zeros")) _ hm hvalid]
  split at hA
  · injection hA with hA
    refine key "linear" hA.symm ?_
    rename_i h1
    cases m with
    | none => simp [Option.getD] at h1
    | some ms =>
      simp only [Option.getD, beq_iff_eq] at h1
      subst h1
      simp [Op.meaning, gsInterp, Option.getD]
  · split at hA
    · injection hA with hA
      refine key "cubic" hA.symm ?_
      rename_i h1 h2
      cases m with
      | none => simp [Option.getD] at h2
      | some ms =>
        simp only [Option.getD, beq_iff_eq] at h2
        subst h2
        simp [Op.meaning, gsInterp, Option.getD]
    · cases hA

theorem rewrite_eval_dft (sem : OpSem D E) (chan : D → Nat) (hl : Laws sem chan) (env : Env D E) (n : ENode) (v f b : Nat) (news : List Op)
    (ax inv one : Option Int) (hasLen : Bool) (axisIn : Option Int) (rank : Nat)
    (hop : n.op = .dft ax inv one hasLen axisIn rank)
    (hA : adapt n.op v = .replaced news) (hver : n.ver = v) (hb : n.Below b) (hbf : b ≤ f)
    (hvalid : (n.op.meaning v).isSome) (ht : Truthful chan env n) :
    ∃ news' f', rewriteE n v f = some (news', f') ∧ f ≤ f' ∧ news'.map (·.op) = news ∧ (∀ x ∈ news', x.ver = v + 1) ∧
      Agree b (evalNodes sem env news') (evalNode sem env n) := by
  have hA0 := hA
  rw [hop] at hA hvalid
  have hv : v = 19 := by
    simp only [adapt] at hA
    split at hA
    · assumption
    · cases hA
  subst hv
  simp only [adapt, if_true, dft_19_20] at hA
  injection hA with hA
  -- valid at 19: no axis input
  have hai : axisIn = none := by
    cases axisIn with
    | none => rfl
    | some q => simp [Op.meaning] at hvalid
  subst hai
  have hlen : n.ins.length ≤ 2 := by unfold Truthful at ht; rw [hop] at ht; exact ht
  refine ⟨[{ op := .const true [ax.getD 1], ver := 19 + 1, ins := [], out := f },
           { op := .dft none (some (inv.getD 0)) (some (one.getD 0)) hasLen (some (ax.getD 1)) rank, ver := 19 + 1,
             ins := [n.ins.getD 0 none, n.ins.getD 1 none, some f], out := n.out }], f + 1, ?_, by omega, ?_, ?_, ?_⟩
  · simp only [rewriteE, hop]
    rw [hop] at hA0
    rw [hA0, ← hA]
  · simp [← hA]
  · intro x hx; simp at hx; rcases hx with rfl | rfl <;> rfl
  · intro q hq
    have hqf : q ≠ f := by omega
    simp only [evalNodes, evalNode, hop, hver, evalOp_sem_dft, List.map_cons, List.map_nil]
    have h0 := bind_set_fresh env (n.ins.getD 0 none) f f (evalOp sem (.const true [ax.getD 1]) 20 [])
      (fun m hm => Nat.lt_of_lt_of_le (getD_below hb 0 m hm) hbf) (Nat.le_refl _)
    have h1 := bind_set_fresh env (n.ins.getD 1 none) f f (evalOp sem (.const true [ax.getD 1]) 20 [])
      (fun m hm => Nat.lt_of_lt_of_le (getD_below hb 1 m hm) hbf) (Nat.le_refl _)
    rw [h0, h1]
    have hc : (Option.some f).bind (Env.set env f (evalOp sem (.const true [ax.getD 1]) 20 [])) = some (.ints [ax.getD 1]) := by
      simp [Option.bind, Env.set, evalOp]
    rw [hc, ← getD_map_bind, ← getD_map_bind, hl.dft ax inv one hasLen rank _ (by simpa using hlen)]
    by_cases hqo : q = n.out
    · simp [Env.set, hqo]
    · simp [Env.set, hqo, hqf]

theorem frame_fresh (sem : OpSem D E) (f : Nat) : ∀ (ms : List ENode) (env : Env D E), (∀ m ∈ ms, f ≤ m.out) →
    ∀ q, q < f → evalNodes sem env ms q = env q := by
  intro ms
  induction ms with
  | nil => intro _ _ _ _; rfl
  | cons m ms ih =>
    intro env hm q hq
    simp only [evalNodes]
    rw [ih _ (fun m' hm' => hm m' (List.mem_cons_of_mem _ hm')) q hq]
    have := hm m (List.mem_cons_self ..)
    unfold evalNode Env.set
    rw [if_neg (by omega)]

theorem evalNode_ne (sem : OpSem D E) (env : Env D E) (n : ENode) {m : Nat} (h : m ≠ n.out) :
    evalNode sem env n m = env m := by
  simp [evalNode, Env.set, h]

theorem evalNode_out (sem : OpSem D E) (env : Env D E) (n : ENode) :
    evalNode sem env n n.out = evalOp sem n.op n.ver (n.ins.map (fun i => i.bind env)) := by
  simp [evalNode, Env.set]

/-- `Reshape(src,[-1,1]) ; Expand(·,[1,k]) ; Reshape(·,[-1])` evaluated in an environment:
the last value is `expandScale k` of the source vector, nothing but the three outputs changes. -/
theorem chain_eval (sem : OpSem D E) (e : Env D E) (src cA cB cC o1 o2 o3 w k : Nat) (vs : List E)
    (h1 : e src = some (.vec vs)) (hA : e cA = some (.ints [-1, 1])) (hB : e cB = some (.ints [-1]))
    (hC : e cC = some (.ints [1, (k : Int)]))
    (d1 : cC ≠ o1) (d2 : cB ≠ o1) (d3 : cB ≠ o2) :
    (evalNodes sem e [{ op := .plain "Reshape", ver := w, ins := [some src, some cA], out := o1 },
                      { op := .plain "Expand", ver := w, ins := [some o1, some cC], out := o2 },
                      { op := .plain "Reshape", ver := w, ins := [some o2, some cB], out := o3 }]) o3
        = some (.vec (expandScale k vs)) ∧
    ∀ m, m ≠ o1 → m ≠ o2 → m ≠ o3 →
      (evalNodes sem e [{ op := .plain "Reshape", ver := w, ins := [some src, some cA], out := o1 },
                        { op := .plain "Expand", ver := w, ins := [some o1, some cC], out := o2 },
                        { op := .plain "Reshape", ver := w, ins := [some o2, some cB], out := o3 }]) m = e m := by
  constructor
  · simp only [evalNodes]
    rw [evalNode_out]
    simp only [List.map_cons, List.map_nil, Option.bind]
    rw [evalNode_out, evalNode_ne sem _ _ d3, evalNode_ne sem _ _ d2, hB]
    simp only [List.map_cons, List.map_nil, Option.bind]
    rw [evalNode_out, evalNode_ne sem _ _ d1, hC]
    simp only [List.map_cons, List.map_nil, Option.bind, h1, hA]
    simp [evalOp, expandScale]
  · intro m m1 m2 m3
    simp only [evalNodes]
    rw [evalNode_ne sem _ _ m3, evalNode_ne sem _ _ m2, evalNode_ne sem _ _ m1]

theorem int_div_toNat (a b : Nat) : ((a : Int) / (b : Int)).toNat = a / b := by
  have : ((a : Int) / (b : Int)) = ((a / b : Nat) : Int) := (Int.natCast_ediv a b).symm
  rw [this]; exact Int.toNat_natCast _

/-- The run-time-ratio chain `Shape(src) ; Div(ch,·) ; Reshape(src,[-1,1]) ; Concat([1],·) ; Expand ; Reshape(·,[-1])`:
the last value is `expandScale (C / |vs|) vs`, nothing but the six outputs changes. -/
theorem chain_dyn_eval (sem : OpSem D E) (e : Env D E) (src cA cB one ch o1 o2 o3 o4 o5 o6 w C : Nat) (vs : List E)
    (h1 : e src = some (.vec vs)) (hA : e cA = some (.ints [-1, 1])) (hB : e cB = some (.ints [-1]))
    (h1c : e one = some (.ints [1])) (hch : e ch = some (.ints [(C : Int)]))
    (d1 : ch ≠ o1) (d2 : src ≠ o1) (d3 : src ≠ o2) (d4 : cA ≠ o1) (d5 : cA ≠ o2)
    (d6 : one ≠ o1) (d7 : one ≠ o2) (d8 : one ≠ o3) (d9 : o2 ≠ o3) (d10 : o3 ≠ o4)
    (d11 : cB ≠ o1) (d12 : cB ≠ o2) (d13 : cB ≠ o3) (d14 : cB ≠ o4) (d15 : cB ≠ o5) :
    (evalNodes sem e [{ op := .plain "Shape", ver := w, ins := [some src], out := o1 },
                      { op := .plain "Div", ver := w, ins := [some ch, some o1], out := o2 },
                      { op := .plain "Reshape", ver := w, ins := [some src, some cA], out := o3 },
                      { op := .plain "Concat", ver := w, ins := [some one, some o2], out := o4 },
                      { op := .plain "Expand", ver := w, ins := [some o3, some o4], out := o5 },
                      { op := .plain "Reshape", ver := w, ins := [some o5, some cB], out := o6 }]) o6
        = some (.vec (expandScale (C / vs.length) vs)) ∧
    ∀ m, m ≠ o1 → m ≠ o2 → m ≠ o3 → m ≠ o4 → m ≠ o5 → m ≠ o6 →
      (evalNodes sem e [{ op := .plain "Shape", ver := w, ins := [some src], out := o1 },
                        { op := .plain "Div", ver := w, ins := [some ch, some o1], out := o2 },
                        { op := .plain "Reshape", ver := w, ins := [some src, some cA], out := o3 },
                        { op := .plain "Concat", ver := w, ins := [some one, some o2], out := o4 },
                        { op := .plain "Expand", ver := w, ins := [some o3, some o4], out := o5 },
                        { op := .plain "Reshape", ver := w, ins := [some o5, some cB], out := o6 }]) m = e m := by
  simp only [evalNodes]
  generalize he1 : evalNode sem e { op := .plain "Shape", ver := w, ins := [some src], out := o1 } = e1
  have v1 : e1 o1 = some (.ints [(vs.length : Int)]) := by
    rw [← he1, evalNode_out]; simp [Option.bind, h1, evalOp]
  have k1 : ∀ m, m ≠ o1 → e1 m = e m := fun m hm => by rw [← he1]; exact evalNode_ne sem _ _ hm
  generalize he2 : evalNode sem e1 { op := .plain "Div", ver := w, ins := [some ch, some o1], out := o2 } = e2
  have v2 : e2 o2 = some (.ints [(C : Int) / (vs.length : Int)]) := by
    rw [← he2, evalNode_out]; simp [Option.bind, k1 ch d1, hch, v1, evalOp]
  have k2 : ∀ m, m ≠ o2 → e2 m = e1 m := fun m hm => by rw [← he2]; exact evalNode_ne sem _ _ hm
  generalize he3 : evalNode sem e2 { op := .plain "Reshape", ver := w, ins := [some src, some cA], out := o3 } = e3
  have v3 : e3 o3 = some (.mat (reshapeCol vs)) := by
    rw [← he3, evalNode_out]
    simp [Option.bind, k2 src d3, k1 src d2, h1, k2 cA d5, k1 cA d4, hA, evalOp]
  have k3 : ∀ m, m ≠ o3 → e3 m = e2 m := fun m hm => by rw [← he3]; exact evalNode_ne sem _ _ hm
  generalize he4 : evalNode sem e3 { op := .plain "Concat", ver := w, ins := [some one, some o2], out := o4 } = e4
  have v4 : e4 o4 = some (.ints [1, (C : Int) / (vs.length : Int)]) := by
    rw [← he4, evalNode_out]
    simp [Option.bind, k3 one d8, k2 one d7, k1 one d6, h1c, k3 o2 d9, v2, evalOp]
  have k4 : ∀ m, m ≠ o4 → e4 m = e3 m := fun m hm => by rw [← he4]; exact evalNode_ne sem _ _ hm
  generalize he5 : evalNode sem e4 { op := .plain "Expand", ver := w, ins := [some o3, some o4], out := o5 } = e5
  have v5 : e5 o5 = some (.mat (expandRows (C / vs.length) (reshapeCol vs))) := by
    rw [← he5, evalNode_out]
    simp [Option.bind, k4 o3 d10, v3, v4, evalOp, int_div_toNat]
  have k5 : ∀ m, m ≠ o5 → e5 m = e4 m := fun m hm => by rw [← he5]; exact evalNode_ne sem _ _ hm
  constructor
  · rw [evalNode_out]
    simp [Option.bind, v5, k5 cB d15, k4 cB d14, k3 cB d13, k2 cB d12, k1 cB d11, hB, evalOp, expandScale]
  · intro m m1 m2 m3 m4 m5 m6
    rw [evalNode_ne sem _ _ m6, k5 m m5, k4 m m4, k3 m m3, k2 m m2, k1 m m1]

theorem rewrite_eval_gn (sem : OpSem D E) (chan : D → Nat) (hl : Laws sem chan) (env : Env D E) (n : ENode) (v f b : Nat) (news : List Op)
    (gn : GN) (hop : n.op = .groupNorm gn)
    (hA : adapt n.op v = .replaced news) (hver : n.ver = v) (hb : n.Below b) (hbf : b ≤ f)
    (hvalid : (n.op.meaning v).isSome) (ht : Truthful chan env n) :
    ∃ news' f', rewriteE n v f = some (news', f') ∧ f ≤ f' ∧ news'.map (·.op) = news ∧ (∀ x ∈ news', x.ver = v + 1) ∧
      Agree b (evalNodes sem env news') (evalNode sem env n) := by
  have hA0 := hA
  rw [hop] at hA hvalid
  have hv : v = 20 := by
    simp only [adapt] at hA
    split at hA
    · assumption
    · cases hA
  subst hv
  simp only [adapt, if_true] at hA
  obtain ⟨hx, hs, hbias, g, hg, hcase⟩ := gn_replaced hA
  -- validity at opset 20: per-group scale and bias, channels split evenly
  have hval : g * (gn.c / g) = gn.c ∧ gn.sLen = g ∧ gn.bLen = g := by
    simp only [Op.meaning, hg, hx, hs, hbias, Bool.and_self, Bool.not_true, Bool.false_eq_true, if_false,
      Nat.le_refl, if_true] at hvalid
    by_cases hd : g * (gn.c / g) ≠ gn.c
    · simp [hd] at hvalid
    · by_cases hl : gn.sLen = g ∧ gn.bLen = g
      · exact ⟨by omega, hl.1, hl.2⟩
      · simp [hd, hl] at hvalid
  obtain ⟨hgk0, hls, hlb⟩ := hval
  unfold Truthful at ht
  rw [hop] at ht
  simp only [hg, Option.getD] at ht
  obtain ⟨h3, hdiv, ⟨sv, bv, hsv, hbv, lsv, lbv⟩, hxdata⟩ := ht
  obtain ⟨xI, sI, bI, hins⟩ : ∃ x s b', n.ins = [x, s, b'] := by
    match hq : n.ins, h3 with
    | [x, s, b'], _ => exact ⟨x, s, b', rfl⟩
  rw [hins] at hsv hbv hxdata
  simp only [List.getD_cons_succ, List.getD_cons_zero] at hsv hbv hxdata
  obtain ⟨sm, rfl⟩ : ∃ sm, sI = some sm := by cases sI <;> simp_all
  obtain ⟨bm, rfl⟩ : ∃ bm, bI = some bm := by cases bI <;> simp_all
  have hsm : sm < f := Nat.lt_of_lt_of_le (hb.2 (some sm) (by simp [hins]) sm rfl) hbf
  have hbm : bm < f := Nat.lt_of_lt_of_le (hb.2 (some bm) (by simp [hins]) bm rfl) hbf
  have hxm : ∀ xm, xI = some xm → xm < f := fun xm h =>
    Nat.lt_of_lt_of_le (hb.2 xI (by simp [hins]) xm h) hbf
  have hout : n.out < f := Nat.lt_of_lt_of_le hb.1 hbf
  simp only [Option.bind] at hsv hbv
  have hconst : ∀ (is : List Int) (w : Nat), evalOp sem (.const false is) w [] = some (.ints is) := by
    intro is w; simp [evalOp]
  rcases hcase with ⟨hns, hnews⟩ | ⟨_, hnews, hgc, hgs, hgb⟩
  · -- run-time-ratio rewrite
    subst hnews
    obtain ⟨dx, hxd, hchan⟩ : ∃ dx : D, xI.bind env = some (.data dx) ∧ chan dx = gn.c := by
      rcases hxdata with hst | h
      · exact absurd hst hns
      · exact h
    obtain ⟨xm, rfl⟩ : ∃ xm, xI = some xm := by cases xI <;> simp_all
    have hxmf : xm < f := hxm xm rfl
    simp only [Option.bind] at hxd
    let gn' : GN := { gn with sLen := gn.sLen * (gn.c / gn.sLen), bLen := gn.bLen * (gn.c / gn.bLen),
                              sVis := .missing, bVis := .missing }
    refine ⟨[{ op := .const false [-1, 1], ver := 20 + 1, ins := [], out := f },
             { op := .const false [-1], ver := 20 + 1, ins := [], out := f + 1 },
             { op := .const false [1], ver := 20 + 1, ins := [], out := f + 2 },
             { op := .plain "Shape", ver := 20 + 1, ins := [some xm], out := f + 3 },
             { op := .plain "Shape", ver := 20 + 1, ins := [some sm], out := f + 4 },
             { op := .plain "Div", ver := 20 + 1, ins := [some (f + 3), some (f + 4)], out := f + 5 },
             { op := .plain "Reshape", ver := 20 + 1, ins := [some sm, some f], out := f + 6 },
             { op := .plain "Concat", ver := 20 + 1, ins := [some (f + 2), some (f + 5)], out := f + 7 },
             { op := .plain "Expand", ver := 20 + 1, ins := [some (f + 6), some (f + 7)], out := f + 8 },
             { op := .plain "Reshape", ver := 20 + 1, ins := [some (f + 8), some (f + 1)], out := f + 9 },
             { op := .plain "Shape", ver := 20 + 1, ins := [some bm], out := f + 10 },
             { op := .plain "Div", ver := 20 + 1, ins := [some (f + 3), some (f + 10)], out := f + 11 },
             { op := .plain "Reshape", ver := 20 + 1, ins := [some bm, some f], out := f + 12 },
             { op := .plain "Concat", ver := 20 + 1, ins := [some (f + 2), some (f + 11)], out := f + 13 },
             { op := .plain "Expand", ver := 20 + 1, ins := [some (f + 12), some (f + 13)], out := f + 14 },
             { op := .plain "Reshape", ver := 20 + 1, ins := [some (f + 14), some (f + 1)], out := f + 15 },
             { op := .groupNorm gn', ver := 20 + 1, ins := [some xm, some (f + 9), some (f + 15)], out := n.out }],
            f + 16, ?_, by omega, ?_, ?_, ?_⟩
    · simp only [rewriteE, hop]
      rw [hop] at hA0
      rw [hA0]
      simp [gnDynReplacement, hins, gn']
    · simp [gnDynReplacement, gn']
    · intro x hx'
      simp only [List.mem_cons, List.mem_nil_iff, or_false] at hx'
      rcases hx' with rfl | rfl | rfl | rfl | rfl | rfl | rfl | rfl | rfl | rfl | rfl | rfl | rfl | rfl | rfl | rfl | rfl <;> rfl
    · intro q hq
      have hqf : q < f := Nat.lt_of_lt_of_le hq hbf
      rw [show ∀ (a0 a1 a2 a3 b0 b1 b2 b3 b4 b5 c0 c1 c2 c3 c4 c5 z : ENode),
          [a0, a1, a2, a3, b0, b1, b2, b3, b4, b5, c0, c1, c2, c3, c4, c5, z]
            = [a0, a1, a2, a3] ++ ([b0, b1, b2, b3, b4, b5] ++ ([c0, c1, c2, c3, c4, c5] ++ [z])) from
          fun _ _ _ _ _ _ _ _ _ _ _ _ _ _ _ _ _ => rfl]
      rw [evalNodes_append, evalNodes_append, evalNodes_append]
      generalize he4 : evalNodes sem env
          [{ op := .const false [-1, 1], ver := 20 + 1, ins := [], out := f },
           { op := .const false [-1], ver := 20 + 1, ins := [], out := f + 1 },
           { op := .const false [1], ver := 20 + 1, ins := [], out := f + 2 },
           { op := .plain "Shape", ver := 20 + 1, ins := [some xm], out := f + 3 }] = e4
      have e4lt : ∀ m, m < f → e4 m = env m := by
        intro m hm; rw [← he4]
        exact frame_fresh sem f _ env (by intro x hx; simp at hx; rcases hx with rfl | rfl | rfl | rfl <;> simp) m hm
      have e4f : e4 f = some (.ints [-1, 1]) := by
        rw [← he4]; simp only [evalNodes]
        rw [evalNode_ne sem _ _ (by simp), evalNode_ne sem _ _ (by simp), evalNode_ne sem _ _ (by simp), evalNode_out]
        exact hconst _ _
      have e4f1 : e4 (f + 1) = some (.ints [-1]) := by
        rw [← he4]; simp only [evalNodes]
        rw [evalNode_ne sem _ _ (by simp), evalNode_ne sem _ _ (by simp), evalNode_out]; exact hconst _ _
      have e4f2 : e4 (f + 2) = some (.ints [1]) := by
        rw [← he4]; simp only [evalNodes]
        rw [evalNode_ne sem _ _ (by simp), evalNode_out]; exact hconst _ _
      have e4f3 : e4 (f + 3) = some (.ints [(gn.c : Int)]) := by
        rw [← he4]; simp only [evalNodes]
        rw [evalNode_out]
        simp only [List.map_cons, List.map_nil, Option.bind]
        rw [evalNode_ne sem _ _ (by simp; omega), evalNode_ne sem _ _ (by simp; omega), evalNode_ne sem _ _ (by simp; omega), hxd]
        have hsh : evalOp sem (.plain "Shape") (20 + 1) [some (.data dx)] = sem (.plain "Shape") (20 + 1) [some (.data dx)] := by
          simp [evalOp]
        rw [hsh, hl.shape, hchan]
      obtain ⟨c1, c2⟩ := chain_dyn_eval sem e4 sm f (f + 1) (f + 2) (f + 3) (f + 4) (f + 5) (f + 6) (f + 7) (f + 8)
        (f + 9) (20 + 1) gn.c sv (by rw [e4lt sm hsm]; exact hsv) e4f e4f1 e4f2 e4f3
        (by omega) (by omega) (by omega) (by omega) (by omega) (by omega) (by omega) (by omega) (by omega) (by omega)
        (by omega) (by omega) (by omega) (by omega) (by omega)
      generalize he10 : evalNodes sem e4
          [{ op := .plain "Shape", ver := 20 + 1, ins := [some sm], out := f + 4 },
           { op := .plain "Div", ver := 20 + 1, ins := [some (f + 3), some (f + 4)], out := f + 5 },
           { op := .plain "Reshape", ver := 20 + 1, ins := [some sm, some f], out := f + 6 },
           { op := .plain "Concat", ver := 20 + 1, ins := [some (f + 2), some (f + 5)], out := f + 7 },
           { op := .plain "Expand", ver := 20 + 1, ins := [some (f + 6), some (f + 7)], out := f + 8 },
           { op := .plain "Reshape", ver := 20 + 1, ins := [some (f + 8), some (f + 1)], out := f + 9 }] = e10 at c1 c2
      have keep : ∀ m, m < f + 4 → e10 m = e4 m := fun m hm =>
        c2 m (by omega) (by omega) (by omega) (by omega) (by omega) (by omega)
      obtain ⟨c3, c4⟩ := chain_dyn_eval sem e10 bm f (f + 1) (f + 2) (f + 3) (f + 10) (f + 11) (f + 12) (f + 13) (f + 14)
        (f + 15) (20 + 1) gn.c bv (by rw [keep bm (by omega), e4lt bm hbm]; exact hbv)
        (by rw [keep f (by omega)]; exact e4f) (by rw [keep (f + 1) (by omega)]; exact e4f1)
        (by rw [keep (f + 2) (by omega)]; exact e4f2) (by rw [keep (f + 3) (by omega)]; exact e4f3)
        (by omega) (by omega) (by omega) (by omega) (by omega) (by omega) (by omega) (by omega) (by omega) (by omega)
        (by omega) (by omega) (by omega) (by omega) (by omega)
      generalize he16 : evalNodes sem e10
          [{ op := .plain "Shape", ver := 20 + 1, ins := [some bm], out := f + 10 },
           { op := .plain "Div", ver := 20 + 1, ins := [some (f + 3), some (f + 10)], out := f + 11 },
           { op := .plain "Reshape", ver := 20 + 1, ins := [some bm, some f], out := f + 12 },
           { op := .plain "Concat", ver := 20 + 1, ins := [some (f + 2), some (f + 11)], out := f + 13 },
           { op := .plain "Expand", ver := 20 + 1, ins := [some (f + 12), some (f + 13)], out := f + 14 },
           { op := .plain "Reshape", ver := 20 + 1, ins := [some (f + 14), some (f + 1)], out := f + 15 }] = e16 at c3 c4
      have e16lt : ∀ m, m < f → e16 m = env m := by
        intro m hm
        rw [c4 m (by omega) (by omega) (by omega) (by omega) (by omega) (by omega), keep m (by omega), e4lt m hm]
      have e16s : e16 (f + 9) = some (.vec (expandScale (gn.c / sv.length) sv)) := by
        rw [c4 (f + 9) (by omega) (by omega) (by omega) (by omega) (by omega) (by omega)]; exact c1
      simp only [evalNodes]
      by_cases hqo : q = n.out
      · subst hqo
        rw [evalNode_out, evalNode_out]
        simp only [List.map_cons, List.map_nil, hop, hver, hins, evalOp_sem_gn]
        simp only [Option.bind, e16s, c3, hsv, hbv, e16lt xm hxmf, hxd]
        have hsl : sv.length = g := by omega
        have hbl : bv.length = g := by omega
        rw [hsl, hbl]
        exact hl.groupNorm gn gn' g (gn.c / g) (some (.data dx)) sv bv hg hsl hbl hgk0 rfl rfl rfl rfl rfl rfl
      · rw [evalNode_ne sem _ _ (by exact hqo), evalNode_ne sem env n hqo]
        exact e16lt q hqf
  · -- static rewrite
    subst hnews
    have hgk : g * (gn.c / g) = gn.c := hgk0
    let k := gn.c / g
    let gn' : GN := { gn with sLen := g * k, bLen := g * k, sVis := .missing, bVis := .missing }
    refine ⟨[{ op := .const false [-1, 1], ver := 20 + 1, ins := [], out := f },
             { op := .const false [-1], ver := 20 + 1, ins := [], out := f + 1 },
             { op := .const false [1, (k : Int)], ver := 20 + 1, ins := [], out := f + 2 },
             { op := .plain "Reshape", ver := 20 + 1, ins := [some sm, some f], out := f + 3 },
             { op := .plain "Expand", ver := 20 + 1, ins := [some (f + 3), some (f + 2)], out := f + 4 },
             { op := .plain "Reshape", ver := 20 + 1, ins := [some (f + 4), some (f + 1)], out := f + 5 },
             { op := .plain "Reshape", ver := 20 + 1, ins := [some bm, some f], out := f + 6 },
             { op := .plain "Expand", ver := 20 + 1, ins := [some (f + 6), some (f + 2)], out := f + 7 },
             { op := .plain "Reshape", ver := 20 + 1, ins := [some (f + 7), some (f + 1)], out := f + 8 },
             { op := .groupNorm gn', ver := 20 + 1, ins := [xI, some (f + 5), some (f + 8)], out := n.out }],
            f + 9, ?_, by omega, ?_, ?_, ?_⟩
    · simp only [rewriteE, hop]
      rw [hop] at hA0
      rw [hA0]
      simp [gnReplacement, hins, k, gn']
    · simp [gnReplacement, k, gn']
    · intro x hx'
      simp only [List.mem_cons, List.mem_nil_iff, or_false] at hx'
      rcases hx' with rfl | rfl | rfl | rfl | rfl | rfl | rfl | rfl | rfl | rfl <;> rfl
    · intro q hq
      have hqf : q < f := Nat.lt_of_lt_of_le hq hbf
      -- split the block: constants, scale chain, bias chain, the rewritten node
      rw [show ([{ op := .const false [-1, 1], ver := 20 + 1, ins := [], out := f },
             { op := .const false [-1], ver := 20 + 1, ins := [], out := f + 1 },
             { op := .const false [1, (k : Int)], ver := 20 + 1, ins := [], out := f + 2 },
             { op := .plain "Reshape", ver := 20 + 1, ins := [some sm, some f], out := f + 3 },
             { op := .plain "Expand", ver := 20 + 1, ins := [some (f + 3), some (f + 2)], out := f + 4 },
             { op := .plain "Reshape", ver := 20 + 1, ins := [some (f + 4), some (f + 1)], out := f + 5 },
             { op := .plain "Reshape", ver := 20 + 1, ins := [some bm, some f], out := f + 6 },
             { op := .plain "Expand", ver := 20 + 1, ins := [some (f + 6), some (f + 2)], out := f + 7 },
             { op := .plain "Reshape", ver := 20 + 1, ins := [some (f + 7), some (f + 1)], out := f + 8 },
             { op := .groupNorm gn', ver := 20 + 1, ins := [xI, some (f + 5), some (f + 8)], out := n.out }] : List ENode)
          = [{ op := .const false [-1, 1], ver := 20 + 1, ins := [], out := f },
             { op := .const false [-1], ver := 20 + 1, ins := [], out := f + 1 },
             { op := .const false [1, (k : Int)], ver := 20 + 1, ins := [], out := f + 2 }] ++
            ([{ op := .plain "Reshape", ver := 20 + 1, ins := [some sm, some f], out := f + 3 },
             { op := .plain "Expand", ver := 20 + 1, ins := [some (f + 3), some (f + 2)], out := f + 4 },
             { op := .plain "Reshape", ver := 20 + 1, ins := [some (f + 4), some (f + 1)], out := f + 5 }] ++
            ([{ op := .plain "Reshape", ver := 20 + 1, ins := [some bm, some f], out := f + 6 },
             { op := .plain "Expand", ver := 20 + 1, ins := [some (f + 6), some (f + 2)], out := f + 7 },
             { op := .plain "Reshape", ver := 20 + 1, ins := [some (f + 7), some (f + 1)], out := f + 8 }] ++
            [{ op := .groupNorm gn', ver := 20 + 1, ins := [xI, some (f + 5), some (f + 8)], out := n.out }])) from rfl]
      rw [evalNodes_append, evalNodes_append, evalNodes_append]
      generalize he3 : evalNodes sem env
          [{ op := .const false [-1, 1], ver := 20 + 1, ins := [], out := f },
           { op := .const false [-1], ver := 20 + 1, ins := [], out := f + 1 },
           { op := .const false [1, (k : Int)], ver := 20 + 1, ins := [], out := f + 2 }] = e3
      have e3f : e3 f = some (.ints [-1, 1]) := by
        rw [← he3]; simp only [evalNodes]
        rw [evalNode_ne sem _ _ (by simp), evalNode_ne sem _ _ (by simp), evalNode_out]; exact hconst _ _
      have e3f1 : e3 (f + 1) = some (.ints [-1]) := by
        rw [← he3]; simp only [evalNodes]
        rw [evalNode_ne sem _ _ (by simp), evalNode_out]; exact hconst _ _
      have e3f2 : e3 (f + 2) = some (.ints [1, (k : Int)]) := by
        rw [← he3]; simp only [evalNodes]
        rw [evalNode_out]; exact hconst _ _
      have e3lt : ∀ m, m < f → e3 m = env m := by
        intro m hm; rw [← he3]
        exact frame_fresh sem f _ env (by intro x hx; simp at hx; rcases hx with rfl | rfl | rfl <;> simp) m hm
      obtain ⟨c1, c2⟩ := chain_eval sem e3 sm f (f + 1) (f + 2) (f + 3) (f + 4) (f + 5) (20 + 1) k sv
        (by rw [e3lt sm hsm]; exact hsv) e3f e3f1 e3f2 (by omega) (by omega) (by omega)
      generalize he6 : evalNodes sem e3
          [{ op := .plain "Reshape", ver := 20 + 1, ins := [some sm, some f], out := f + 3 },
           { op := .plain "Expand", ver := 20 + 1, ins := [some (f + 3), some (f + 2)], out := f + 4 },
           { op := .plain "Reshape", ver := 20 + 1, ins := [some (f + 4), some (f + 1)], out := f + 5 }] = e6 at c1 c2
      obtain ⟨c3, c4⟩ := chain_eval sem e6 bm f (f + 1) (f + 2) (f + 6) (f + 7) (f + 8) (20 + 1) k bv
        (by rw [c2 bm (by omega) (by omega) (by omega), e3lt bm hbm]; exact hbv)
        (by rw [c2 f (by omega) (by omega) (by omega)]; exact e3f)
        (by rw [c2 (f + 1) (by omega) (by omega) (by omega)]; exact e3f1)
        (by rw [c2 (f + 2) (by omega) (by omega) (by omega)]; exact e3f2) (by omega) (by omega) (by omega)
      generalize he9 : evalNodes sem e6
          [{ op := .plain "Reshape", ver := 20 + 1, ins := [some bm, some f], out := f + 6 },
           { op := .plain "Expand", ver := 20 + 1, ins := [some (f + 6), some (f + 2)], out := f + 7 },
           { op := .plain "Reshape", ver := 20 + 1, ins := [some (f + 7), some (f + 1)], out := f + 8 }] = e9 at c3 c4
      have e9lt : ∀ m, m < f → e9 m = env m := by
        intro m hm
        rw [c4 m (by omega) (by omega) (by omega), c2 m (by omega) (by omega) (by omega), e3lt m hm]
      have e9s : e9 (f + 5) = some (.vec (expandScale k sv)) := by
        rw [c4 (f + 5) (by omega) (by omega) (by omega)]; exact c1
      have hxb : xI.bind e9 = xI.bind env := by
        cases hxi : xI with
        | none => rfl
        | some xm => exact e9lt xm (hxm xm hxi)
      simp only [evalNodes]
      by_cases hqo : q = n.out
      · subst hqo
        rw [evalNode_out, evalNode_out]
        simp only [List.map_cons, List.map_nil, hop, hver, hins, evalOp_sem_gn, hxb]
        simp only [Option.bind, e9s, c3, hsv, hbv]
        exact hl.groupNorm gn gn' g k (xI.bind env) sv bv hg (by omega) (by omega) hgk rfl rfl rfl rfl rfl rfl
      · rw [evalNode_ne sem _ _ (by exact hqo), evalNode_ne sem env n hqo]
        exact e9lt q hqf

/-- One replacement step, all adapters: the wired nodes carry exactly the operators of the node-level model
and evaluate, on the names of the source graph, to what the replaced node evaluated to. -/
theorem rewrite_eval (sem : OpSem D E) (chan : D → Nat) (hl : Laws sem chan) (env : Env D E) (n : ENode) (v f b : Nat) (news : List Op)
    (hA : adapt n.op v = .replaced news) (hver : n.ver = v) (hb : n.Below b) (hbf : b ≤ f)
    (hvalid : (n.op.meaning v).isSome) (ht : Truthful chan env n) :
    ∃ news' f', rewriteE n v f = some (news', f') ∧ f ≤ f' ∧ news'.map (·.op) = news ∧ (∀ x ∈ news', x.ver = v + 1) ∧
      Agree b (evalNodes sem env news') (evalNode sem env n) := by
  cases hop : n.op with
  | plain _ => rw [hop] at hA; simp [adapt] at hA
  | const _ _ => rw [hop] at hA; simp [adapt] at hA
  | call _ => rw [hop] at hA; simp [adapt] at hA
  | gridSample m a p => exact rewrite_eval_gs sem chan hl env n v f b news m a p hop hA hver hvalid
  | dft a i o l ai r => exact rewrite_eval_dft sem chan hl env n v f b news a i o l ai r hop hA hver hb hbf hvalid ht
  | groupNorm gn => exact rewrite_eval_gn sem chan hl env n v f b news gn hop hA hver hb hbf hvalid ht

theorem agree_symm {b : Nat} {e1 e2 : Env D E} (h : Agree b e1 e2) : Agree b e2 e1 := fun m hm => (h m hm).symm

/-- The step loop with wiring preserves, on the names of the source graph, what the node evaluates to. -/
theorem stepsE_eval (sem : OpSem D E) (chan : D → Nat) (hl : Laws sem chan) (b : Nat) :
    ∀ (k v : Nat) (n : ENode) (f : Nat) (env env' : Env D E),
      n.ver = v → n.Below b → b ≤ f → Agree b env env' → Truthful chan env n →
      (∀ v', v ≤ v' → v' < v + k → Good Op.meaning n.op v') → (n.op.meaning v).isSome →
      f ≤ (stepsE k v n f).2 ∧ Agree b (evalNode sem env n) (evalNodes sem env' (stepsE k v n f).1) := by
  intro k
  induction k with
  | zero =>
    intro v n f env env' _ hb _ hag _ _ _
    exact ⟨Nat.le_refl _, by simpa [stepsE, evalNodes] using agree_evalNode sem n hb hag⟩
  | succ k ih =>
    intro v n f env env' hver hb hbf hag ht hgood hvalid
    have hg : Good Op.meaning n.op v := hgood v (Nat.le_refl _) (by omega)
    unfold Good at hg
    unfold stepsE
    cases hA : adapt n.op v with
    | raised => rw [hA] at hg; exact hg.elim
    | noAdapter =>
      simp only []
      have hm : n.op.meaning (v + 1) = n.op.meaning v := meaning_mono_lemma _ _ hA
      have hev : evalNode sem env { n with ver := v + 1 } = evalNode sem env n :=
        evalNode_ver sem chan hl env n (v + 1) (by rw [hver, hm])
      have := ih (v + 1) { n with ver := v + 1 } f env env' rfl hb hbf hag ht
        (fun v' h1 h2 => hgood v' (by omega) (by omega)) (by simpa [hm] using hvalid)
      rw [hev] at this
      exact this
    | retNone =>
      rw [hA] at hg
      simp only []
      have hev : evalNode sem env { n with ver := v + 1 } = evalNode sem env n :=
        evalNode_ver sem chan hl env n (v + 1) (by rw [hver, hg])
      have := ih (v + 1) { n with ver := v + 1 } f env env' rfl hb hbf hag ht
        (fun v' h1 h2 => hgood v' (by omega) (by omega)) (by simpa [hg] using hvalid)
      rw [hev] at this
      exact this
    | replaced news =>
      simp only []
      obtain ⟨news', f', hr, hff, hops, hvers, hagr⟩ :=
        rewrite_eval sem chan hl env' n v f b news hA hver hb hbf hvalid (truthful_agree chan n hb hag ht)
      rw [hr]
      simp only []
      have hq := children_quiet hA
      have hquiet : ∀ m ∈ news', ∀ g, stepsE k (v + 1) m g = ([{ m with ver := v + 1 + k }], g) := by
        intro m hm g
        refine stepsE_quiet k (v + 1) m g (hvers m hm) (fun v' hv' => hq m.op ?_ v' (by omega))
        rw [← hops]; exact List.mem_map_of_mem hm
      rw [mapFresh_quiet _ (fun m => { m with ver := v + 1 + k }) news' f' hquiet]
      refine ⟨hff, ?_⟩
      simp only []
      rw [evalNodes_map_congr sem _ news' env' (fun m hm e => by
        refine evalNode_ver sem chan hl e m (v + 1 + k) ?_
        rw [hvers m hm]
        refine (meaning_quiet (fun v' hv' => hq m.op ?_ v' (by omega)) k).symm
        rw [← hops]; exact List.mem_map_of_mem hm)]
      exact agree_trans (agree_evalNode sem n hb hag) (agree_symm hagr)

/-- Every node's facts hold in the environment in which the source run evaluates it. -/
def AllTruthful (sem : OpSem D E) (chan : D → Nat) : Env D E → List ENode → Prop
  | _, [] => True
  | env, n :: ns => Truthful chan env n ∧ AllTruthful sem chan (evalNode sem env n) ns

theorem mapFresh_eval (sem : OpSem D E) (chan : D → Nat) (hl : Laws sem chan) (b k v : Nat) :
    ∀ (ns : List ENode) (f : Nat) (env env' : Env D E), b ≤ f → Agree b env env' →
      (∀ n ∈ ns, n.ver = v ∧ n.Below b ∧ (∀ v', v ≤ v' → v' < v + k → Good Op.meaning n.op v') ∧ (n.op.meaning v).isSome) →
      AllTruthful sem chan env ns →
      Agree b (evalNodes sem env ns) (evalNodes sem env' (mapFresh (stepsE k v) ns f).1) := by
  intro ns
  induction ns with
  | nil => intro f env env' _ hag _ _; simpa [mapFresh, evalNodes] using hag
  | cons n ns ih =>
    intro f env env' hbf hag hn ht
    obtain ⟨hv, hb, hg, hval⟩ := hn n (List.mem_cons_self ..)
    obtain ⟨h1, h2⟩ := stepsE_eval sem chan hl b k v n f env env' hv hb hbf hag ht.1 hg hval
    unfold mapFresh
    simp only [evalNodes, evalNodes_append]
    exact ih _ _ _ (Nat.le_trans hbf h1) h2 (fun n' hn' => hn n' (List.mem_cons_of_mem _ hn')) ht.2

theorem rewriteE_some (n : ENode) (v f : Nat) (news : List Op) (hA : adapt n.op v = .replaced news) :
    ∃ news' f', rewriteE n v f = some (news', f') ∧ news'.map (·.op) = news := by
  cases hop : n.op with
  | plain _ => rw [hop] at hA; simp [adapt] at hA
  | const _ _ => rw [hop] at hA; simp [adapt] at hA
  | call _ => rw [hop] at hA; simp [adapt] at hA
  | gridSample m a p =>
    rw [hop] at hA
    have hA' := hA
    simp only [adapt] at hA
    split at hA
    · simp only [gridsample_19_20] at hA
      split at hA
      · injection hA with hA; subst hA
        simp only [rewriteE, hop, hA']; exact ⟨_, _, rfl, rfl⟩
      · split at hA
        · injection hA with hA; subst hA
          simp only [rewriteE, hop, hA']; exact ⟨_, _, rfl, rfl⟩
        · cases hA
    · cases hA
  | dft a i o l ai r =>
    rw [hop] at hA
    have hA' := hA
    simp only [adapt] at hA
    split at hA
    · simp only [dft_19_20] at hA
      injection hA with hA; subst hA
      simp only [rewriteE, hop, hA']; exact ⟨_, _, rfl, rfl⟩
    · cases hA
  | groupNorm gn =>
    rw [hop] at hA
    have hA' := hA
    simp only [adapt] at hA
    split at hA
    · obtain ⟨_, _, _, g, _, hc⟩ := gn_replaced hA
      rcases hc with ⟨_, hn⟩ | ⟨_, hn, _⟩
      · subst hn; simp only [rewriteE, hop, hA', gnDynReplacement]; exact ⟨_, _, rfl, rfl⟩
      · subst hn; simp only [rewriteE, hop, hA', gnReplacement]; exact ⟨_, _, rfl, rfl⟩
    · cases hA

theorem mapFresh_ops (g : ENode → Nat → List ENode × Nat) (G : Op → List Op)
    (hg : ∀ m f, (g m f).1.map (·.op) = G m.op) :
    ∀ (ms : List ENode) (f : Nat), (mapFresh g ms f).1.map (·.op) = ms.flatMap (fun m => G m.op) := by
  intro ms
  induction ms with
  | nil => intro _; rfl
  | cons m ms ih =>
    intro f
    unfold mapFresh
    simp only [List.map_append, hg, ih, List.flatMap_cons]

/-- The wired conversion carries the same operators as the node-level model's `leafSteps`. -/
theorem stepsE_ops : ∀ (k v : Nat) (n : ENode) (f : Nat) (l : Leaf), n.op = l.op →
    (stepsE k v n f).1.map (·.op) = (leafSteps k v l).map (·.op) := by
  intro k
  induction k with
  | zero => intro v n f l h; simp [stepsE, leafSteps, h]
  | succ k ih =>
    intro v n f l h
    unfold stepsE leafSteps
    cases hA : adapt l.op v with
    | raised => rw [h, hA]; exact ih _ _ _ _ h
    | noAdapter => rw [h, hA]; exact ih _ _ _ _ rfl
    | retNone => rw [h, hA]; exact ih _ _ _ _ rfl
    | replaced news =>
      have hA' : adapt n.op v = .replaced news := by rw [h]; exact hA
      obtain ⟨news', f', hr, hops⟩ := rewriteE_some n v f news hA'
      rw [hA']
      simp only [hr]
      rw [mapFresh_ops (stepsE k (v + 1)) (fun o => (leafSteps k (v + 1) (newLeaf o (v + 1))).map (·.op))
        (fun m f => ih (v + 1) m f (newLeaf m.op (v + 1)) rfl) news' f']
      rw [List.map_flatMap, ← hops, List.flatMap_map]

end OV.C10
