import OV.Lemmas.C12Autocast
/-! Renaming invariance of the cast models: the three casts, the rule and `allRepresentable` only ever compare
type-constraint names, so an injective renaming of the names of a signature changes nothing.  This justifies
checking the registry table on interned (`Nat`) names. -/
namespace OV.Autocast

section
variable {κ κ' : Type} [DecidableEq κ] [DecidableEq κ']

def Formal.rename (ρ : κ → κ') (f : Formal κ) : Formal κ' := ⟨ρ f.tc, f.isVar, f.variadic, f.homogeneous⟩

def Slot.rename (ρ : κ → κ') : Slot κ → Slot κ'
  | .tv n v => .tv (ρ n) v
  | .untyped => .untyped

def rn (ρ : κ → κ') (p : Slot κ × Arg) : Slot κ' × Arg := (p.1.rename ρ, p.2)

/-- `ρ` is injective on the names in `S`. -/
def InjOn (ρ : κ → κ') (S : List κ) : Prop := ∀ a ∈ S, ∀ b ∈ S, ρ a = ρ b → a = b

/-- All slot names of `sa` are in `S`. -/
def SlotsIn (S : List κ) (sa : List (Slot κ × Arg)) : Prop := ∀ p ∈ sa, ∀ n v, p.1 = .tv n v → n ∈ S

theorem slotAt_rename (ρ : κ → κ') (fs : List (Formal κ)) (i : Nat) :
    slotAt (fs.map (Formal.rename ρ)) i =
      (match slotAt fs i with | .ok s => .ok (s.rename ρ) | .error e => .error e) := by
  unfold slotAt
  rw [List.getElem?_map, List.getLast?_map]
  cases fs[i]? with
  | some f => rfl
  | none =>
    cases fs.getLast? with
    | none => rfl
    | some l =>
      simp only [Option.map_some, Option.map_none, Formal.rename]
      cases l.variadic <;> cases l.homogeneous <;> rfl

theorem slotAt_in (fs : List (Formal κ)) (i : Nat) (n : κ) (v : Bool) (h : slotAt fs i = .ok (.tv n v)) :
    n ∈ fs.map (·.tc) := by
  unfold slotAt at h
  cases hi : fs[i]? with
  | some f =>
    rw [hi] at h
    simp only [Except.ok.injEq, Slot.tv.injEq] at h
    have := List.mem_of_getElem? hi
    exact List.mem_map.mpr ⟨f, this, h.1⟩
  | none =>
    rw [hi] at h
    cases hl : fs.getLast? with
    | none => rw [hl] at h; cases h
    | some l =>
      rw [hl] at h
      have hm : l ∈ fs := List.mem_of_getLast? hl
      cases hv : l.variadic <;> cases hh : l.homogeneous <;> simp [hv, hh] at h
      exact List.mem_map.mpr ⟨l, hm, h.1⟩

theorem assignFrom_rename (ρ : κ → κ') (fs : List (Formal κ)) : ∀ (args : List Arg) (i : Nat),
    assignFrom (fs.map (Formal.rename ρ)) i args =
      (match assignFrom fs i args with | .ok sa => .ok (sa.map (rn ρ)) | .error e => .error e)
  | [], _ => rfl
  | a :: as, i => by
    simp only [assignFrom, slotAt_rename ρ fs i, assignFrom_rename ρ fs as (i + 1)]
    cases slotAt fs i with
    | error e => rfl
    | ok s =>
      cases assignFrom fs (i + 1) as with
      | error e => rfl
      | ok rest => rfl

theorem assignFrom_in (fs : List (Formal κ)) : ∀ (args : List Arg) (i : Nat) (sa : List (Slot κ × Arg)),
    assignFrom fs i args = .ok sa → SlotsIn (fs.map (·.tc)) sa
  | [], _, sa, h => by
    simp only [assignFrom, Except.ok.injEq] at h
    subst h
    intro p hp; cases hp
  | a :: as, i, sa, h => by
    simp only [assignFrom] at h
    cases hs : slotAt fs i with
    | error e => rw [hs] at h; cases h
    | ok s =>
      rw [hs] at h
      cases hr : assignFrom fs (i + 1) as with
      | error e => rw [hr] at h; cases h
      | ok rest =>
        rw [hr] at h
        simp only [Except.ok.injEq] at h
        subst h
        intro p hp n v hn
        rcases List.mem_cons.mp hp with rfl | hp
        · simp only at hn
          subst hn
          exact slotAt_in fs i n v hs
        · exact assignFrom_in fs as (i + 1) rest hr p hp n v hn

theorem boundTo_rename (ρ : κ → κ') (S : List κ) (hinj : InjOn ρ S) (tc : κ) (htc : tc ∈ S)
    (p : Slot κ × Arg) (hp : ∀ n v, p.1 = .tv n v → n ∈ S) :
    boundTo (ρ tc) (rn ρ p) = boundTo tc p := by
  obtain ⟨s, a⟩ := p
  cases s with
  | untyped => rfl
  | tv n v =>
    cases a with
    | none => rfl
    | lit l => rfl
    | tensor dt k =>
      simp only [rn, Slot.rename, boundTo]
      have hn := hp n v rfl
      by_cases h : n = tc
      · subst h; simp
      · have : ρ n ≠ ρ tc := fun he => h (hinj n hn tc htc he)
        simp [h, this]

theorem firstBinding_rename (ρ : κ → κ') (S : List κ) (hinj : InjOn ρ S) (tc : κ) (htc : tc ∈ S) :
    ∀ (sa : List (Slot κ × Arg)), SlotsIn S sa → firstBinding (ρ tc) (sa.map (rn ρ)) = firstBinding tc sa
  | [], _ => rfl
  | p :: ps, h => by
    simp only [List.map, firstBinding]
    rw [boundTo_rename ρ S hinj tc htc p (h p List.mem_cons_self),
      firstBinding_rename ρ S hinj tc htc ps (fun q hq => h q (List.mem_cons_of_mem _ hq))]

theorem lastBinding_rename (ρ : κ → κ') (S : List κ) (hinj : InjOn ρ S) (tc : κ) (htc : tc ∈ S) :
    ∀ (sa : List (Slot κ × Arg)), SlotsIn S sa → lastBinding (ρ tc) (sa.map (rn ρ)) = lastBinding tc sa
  | [], _ => rfl
  | p :: ps, h => by
    simp only [List.map, lastBinding]
    rw [boundTo_rename ρ S hinj tc htc p (h p List.mem_cons_self),
      lastBinding_rename ρ S hinj tc htc ps (fun q hq => h q (List.mem_cons_of_mem _ hq))]

theorem targetFirst_rename (ρ : κ → κ') (S : List κ) (hinj : InjOn ρ S) (sa : List (Slot κ × Arg))
    (hsa : SlotsIn S sa) (s : Slot κ) (hs : ∀ n v, s = .tv n v → n ∈ S) :
    targetFirst (sa.map (rn ρ)) (s.rename ρ) = targetFirst sa s := by
  cases s with
  | untyped => rfl
  | tv n v => exact firstBinding_rename ρ S hinj n (hs n v rfl) sa hsa

theorem targetLast_rename (ρ : κ → κ') (S : List κ) (hinj : InjOn ρ S) (sa : List (Slot κ × Arg))
    (hsa : SlotsIn S sa) (s : Slot κ) (hs : ∀ n v, s = .tv n v → n ∈ S) :
    targetLast (sa.map (rn ρ)) (s.rename ρ) = targetLast sa s := by
  cases s with
  | untyped => rfl
  | tv n v => exact lastBinding_rename ρ S hinj n (hs n v rfl) sa hsa

theorem mapE_map_congr {α β γ ε : Type} (f : β → Except ε γ) (g : α → Except ε γ) (r : α → β) :
    ∀ (l : List α), (∀ x ∈ l, f (r x) = g x) → mapE f (l.map r) = mapE g l
  | [], _ => rfl
  | x :: xs, h => by
    simp only [List.map, mapE, h x List.mem_cons_self,
      mapE_map_congr f g r xs (fun y hy => h y (List.mem_cons_of_mem _ hy))]


theorem all_congr_mem {α : Type} (p q : α → Bool) : ∀ (l : List α), (∀ x ∈ l, p x = q x) → l.all p = l.all q
  | [], _ => rfl
  | x :: xs, h => by
    simp only [List.all_cons, h x List.mem_cons_self,
      all_congr_mem p q xs (fun y hy => h y (List.mem_cons_of_mem _ hy))]

/-! ### the per-argument functions and the casts -/

theorem emit_rename (ρ : κ → κ') (S : List κ) (hinj : InjOn ρ S) (sa : List (Slot κ × Arg)) (hsa : SlotsIn S sa)
    (p : Slot κ × Arg) (hp : p ∈ sa) :
    emitStatic (sa.map (rn ρ)) (rn ρ p) = emitStatic sa p ∧
    emitDynamic (sa.map (rn ρ)) (rn ρ p) = emitDynamic sa p ∧
    emitBuilder (sa.map (rn ρ)) (rn ρ p) = emitBuilder sa p ∧
    emitExpected (sa.map (rn ρ)) (rn ρ p) = emitExpected sa p ∧
    (∀ l, ruleDType (sa.map (rn ρ)) (p.1.rename ρ) l = ruleDType sa p.1 l) := by
  have hs := hsa p hp
  have h1 := targetFirst_rename ρ S hinj sa hsa p.1 hs
  have h2 := targetLast_rename ρ S hinj sa hsa p.1 hs
  simp only [emitStatic, emitDynamic, emitBuilder, emitExpected, ruleDType, rn, h1, h2]
  exact ⟨trivial, trivial, trivial, trivial, fun _ => trivial⟩

theorem assign_rename (ρ : κ → κ') (fs : List (Formal κ)) (args : List Arg) :
    assign (fs.map (Formal.rename ρ)) args =
      (match assign fs args with | .ok sa => .ok (sa.map (rn ρ)) | .error e => .error e) :=
  assignFrom_rename ρ fs args 0

theorem assign_in (fs : List (Formal κ)) (args : List Arg) (sa : List (Slot κ × Arg))
    (h : assign fs args = .ok sa) : SlotsIn (fs.map (·.tc)) sa :=
  assignFrom_in fs args 0 sa h

/-- **Renaming invariance.**  If `ρ` is injective on the type-constraint names of `fs`, renaming them changes
neither the three casts, nor the rule, nor `allRepresentable`. -/
theorem cast_rename (ρ : κ → κ') (fs : List (Formal κ)) (hinj : InjOn ρ (fs.map (·.tc))) (args : List Arg) :
    castStatic (fs.map (Formal.rename ρ)) args = castStatic fs args ∧
    castDynamic (fs.map (Formal.rename ρ)) args = castDynamic fs args ∧
    castBuilder (fs.map (Formal.rename ρ)) args = castBuilder fs args ∧
    expected (fs.map (Formal.rename ρ)) args = expected fs args ∧
    allRepresentable (fs.map (Formal.rename ρ)) args = allRepresentable fs args := by
  unfold castStatic castDynamic castBuilder expected allRepresentable
  rw [assign_rename]
  cases ha : assign fs args with
  | error e => exact ⟨rfl, rfl, rfl, rfl, rfl⟩
  | ok sa =>
    have hsa := assign_in fs args sa ha
    have he := fun p hp => emit_rename ρ _ hinj sa hsa p hp
    refine ⟨?_, ?_, ?_, ?_, ?_⟩
    · exact mapE_map_congr _ _ _ sa (fun p hp => (he p hp).1)
    · exact mapE_map_congr _ _ _ sa (fun p hp => (he p hp).2.1)
    · exact mapE_map_congr _ _ _ sa (fun p hp => (he p hp).2.2.1)
    · simp only [List.map_map]
      congr 1
      exact List.map_congr_left (fun p hp => (he p hp).2.2.2.1)
    · simp only [List.all_map]
      apply all_congr_mem
      intro p hp
      obtain ⟨s, a⟩ := p
      cases a with
      | none => rfl
      | tensor dt k => rfl
      | lit l => simp only [Function.comp, rn, (he (s, .lit l) hp).2.2.2.2 l]


/-! ### the table check on arbitrary names -/

/-- `agree3` for any name type (the `sig = raw` shortcut of `agree3` dropped). -/
def agree3G (sig raw : List (Formal κ)) (args : List Arg) : Bool :=
  let e := expected sig args
  resEq e (expected raw args) &&
  (if allRepresentable sig args then
    resEq (castStatic sig args) e && resEq (castDynamic sig args) e && resEq (castBuilder raw args) e
  else
    okOrOverflow (castStatic sig args) (dtypes e) && okOrOverflow (castDynamic sig args) (dtypes e)
      && okOrOverflow (castBuilder raw args) (dtypes e))

/-- `agree3All` for any name type: every position (plus two variadic-tail positions) × `litSet` × `probes`. -/
def agree3AllG (sig raw : List (Formal κ)) : Bool :=
  decide (sig.length = raw.length) &&
  (positions sig).all (fun p => litSet.all (fun l => (probes sig.length p l).all (agree3G sig raw)))

theorem injOn_subset (ρ : κ → κ') (S T : List κ) (h : InjOn ρ T) (hs : ∀ a ∈ S, a ∈ T) : InjOn ρ S :=
  fun a ha b hb e => h a (hs a ha) b (hs b hb) e

theorem agree3G_rename (ρ : κ → κ') (sig raw : List (Formal κ)) (hinj : InjOn ρ ((sig ++ raw).map (·.tc)))
    (args : List Arg) :
    agree3G (sig.map (Formal.rename ρ)) (raw.map (Formal.rename ρ)) args = agree3G sig raw args := by
  have hs : InjOn ρ (sig.map (·.tc)) := injOn_subset ρ _ _ hinj (fun a ha => by
    rw [List.map_append]; exact List.mem_append_left _ ha)
  have hr : InjOn ρ (raw.map (·.tc)) := injOn_subset ρ _ _ hinj (fun a ha => by
    rw [List.map_append]; exact List.mem_append_right _ ha)
  obtain ⟨s1, s2, _, s4, s5⟩ := cast_rename ρ sig hs args
  obtain ⟨_, _, r3, r4, _⟩ := cast_rename ρ raw hr args
  simp only [agree3G, s1, s2, s4, s5, r3, r4]

theorem positions_rename (ρ : κ → κ') (fs : List (Formal κ)) :
    positions (fs.map (Formal.rename ρ)) = positions fs := by
  unfold positions
  rw [List.getLast?_map, List.length_map]
  cases fs.getLast? <;> rfl

theorem agree3AllG_rename (ρ : κ → κ') (sig raw : List (Formal κ)) (hinj : InjOn ρ ((sig ++ raw).map (·.tc))) :
    agree3AllG (sig.map (Formal.rename ρ)) (raw.map (Formal.rename ρ)) = agree3AllG sig raw := by
  unfold agree3AllG
  rw [positions_rename, List.length_map, List.length_map]
  congr 1
  apply all_congr_mem; intro p _
  apply all_congr_mem; intro l _
  apply all_congr_mem; intro args _
  exact agree3G_rename ρ sig raw hinj args

end

/-! ### Boolean equalities are reflexive / sound where needed -/

theorem DType.beq_refl (d : DType) : d.beq d = true := by simp [DType.beq]

theorem intBeq_refl (a : Int) : intBeq a a = true := by cases a <;> simp [intBeq]

theorem SVal.beq_refl (v : SVal) : v.beq v = true := by
  cases v <;> simp [SVal.beq, intBeq_refl]

theorem listBeq_refl {α : Type} (eq : α → α → Bool) (h : ∀ a, eq a a = true) : ∀ l : List α, listBeq eq l l = true
  | [] => rfl
  | x :: xs => by simp [listBeq, h x, listBeq_refl eq h xs]

theorem Out.beq_refl (o : Out) : o.beq o = true := by
  cases o <;> simp [Out.beq, DType.beq_refl, listBeq_refl _ SVal.beq_refl]

theorem resEq_refl (r : Except Err (List Out)) : resEq r r = true := by
  cases r with
  | ok x => exact listBeq_refl _ Out.beq_refl x
  | error e => cases e <;> rfl

theorem beqNat_eq (a b : Formal Nat) (h : Formal.beqNat a b = true) : a = b := by
  cases a; cases b
  simp only [Formal.beqNat, Bool.and_eq_true, beq_iff_eq] at h
  simp [h.1.1.1, h.1.1.2, h.1.2, h.2]

theorem listBeqNat_eq : ∀ (a b : List (Formal Nat)), listBeq Formal.beqNat a b = true → a = b
  | [], [], _ => rfl
  | [], _ :: _, h => by simp [listBeq] at h
  | _ :: _, [], h => by simp [listBeq] at h
  | x :: xs, y :: ys, h => by
    simp only [listBeq, Bool.and_eq_true] at h
    rw [beqNat_eq x y h.1, listBeqNat_eq xs ys h.2]

theorem agree3_eq_G (s : IShape) (args : List Arg) : agree3 s args = agree3G s.sig s.raw args := by
  unfold agree3 agree3G
  cases hb : listBeq Formal.beqNat s.sig s.raw with
  | false => simp
  | true =>
    have := listBeqNat_eq _ _ hb
    simp only [Bool.true_or, Bool.true_and, ← this, resEq_refl]

theorem agree3All_eq_G (s : IShape) : agree3All s = agree3AllG s.sig s.raw := by
  unfold agree3All agree3AllG
  congr 1
  apply all_congr_mem; intro p _
  apply all_congr_mem; intro l _
  apply all_congr_mem; intro args _
  exact agree3_eq_G s args

/-! ### interning is an injective renaming -/

theorem idxOf_injOn (names : List String) : InjOn (fun n => names.idxOf n) names := by
  intro a ha b hb h
  have la : names.idxOf a < names.length := List.idxOf_lt_length_iff.mpr ha
  have lb : names.idxOf b < names.length := List.idxOf_lt_length_iff.mpr hb
  have ea := List.getElem_idxOf la
  have eb := List.getElem_idxOf lb
  simp only [h] at ea
  exact ea.symm.trans eb

theorem internWith_eq (names : List String) (fs : List SFormal) :
    internWith names fs = (fs.map SFormal.formal).map (Formal.rename (fun n => names.idxOf n)) := by
  unfold internWith
  rw [List.map_map]
  rfl

/-- **The interned table check is the string-level table check.** -/
theorem agree3All_intern (s : Shape) :
    agree3All s.intern = agree3AllG (s.sig.map SFormal.formal) (s.raw.map SFormal.formal) := by
  rw [agree3All_eq_G]
  simp only [Shape.intern, internWith_eq]
  apply agree3AllG_rename
  have : ((s.sig.map SFormal.formal ++ s.raw.map SFormal.formal).map (·.tc)) = (s.sig ++ s.raw).map (·.tc) := by
    rw [← List.map_append, List.map_map]; rfl
  rw [this]
  exact idxOf_injOn _

end OV.Autocast
