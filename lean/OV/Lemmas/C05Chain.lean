import OV.Model.C05Chain
/-! Helper lemmas for the rule-set driver model (`OV/Model/C05Chain.lean`): append laws of `run`/`mids`, soundness and
node-count bookkeeping of `visit` / `sweepAcc`. -/
namespace OV.Lemmas.C05Chain
open OV.C05.Chain OV.C05.Order

variable {α : Type} [Min α] [Max α]

theorem run_append (zero : α) (l m : List (Node α)) (x : α) :
    run zero (l ++ m) x = run zero m (run zero l x) := by
  unfold run; rw [List.foldl_append]

theorem mids_append (zero : α) (l m : List (Node α)) (x : α) :
    mids zero (l ++ m) x = mids zero l x ++ mids zero m (run zero l x) := by
  induction l generalizing x with
  | nil => simp [mids, run]
  | cons n l ih => simp [mids, run, ih, List.append_assoc]

theorem outs_append (zero : α) (l m : List (Node α)) (x : α) :
    outs zero (l ++ m) x = mids zero l x ++ outs zero m (run zero l x) := by
  unfold outs; rw [mids_append, run_append, List.append_assoc]

theorem firstMatch_sound (zero : α) (rules : List (Rule α)) (hr : ∀ r ∈ rules, RuleSound zero r)
    (p c f : COp α) (h : firstMatch rules p c = some f) (x : α) :
    f.eval zero x = c.eval zero (p.eval zero x) := by
  unfold firstMatch at h
  obtain ⟨r, hmem, hfire⟩ := List.exists_of_findSome?_eq_some h
  exact hr r hmem p c f hfire x

/-- Fusing `top; v` into `f` (producer not shared) leaves every observable value unchanged. -/
theorem outs_fuse (zero : α) (top v : Node α) (f : COp α) (hs : top.shared = false)
    (hf : ∀ x, f.eval zero x = v.op.eval zero (top.op.eval zero x)) (ns : List (Node α)) (x : α) :
    outs zero ({ op := f, shared := v.shared } :: ns) x = outs zero (top :: v :: ns) x := by
  simp [outs, mids, run, hs, hf]

theorem visit_sound (zero : α) (rules : List (Rule α)) (hr : ∀ r ∈ rules, RuleSound zero r) :
    ∀ (acc : List (Node α)) (v : Node α) (ns : List (Node α)) (x : α),
      outs zero ((visit rules acc v).1.reverse ++ ns) x = outs zero (acc.reverse ++ v :: ns) x := by
  intro acc
  induction acc with
  | nil => intro v ns x; simp [visit]
  | cons top rest ih =>
    intro v ns x
    unfold visit
    by_cases hs : top.shared = true
    · simp [hs]
    · simp only [hs, Bool.false_eq_true, if_false]
      cases hm : firstMatch rules top.op v.op with
      | none => simp
      | some f =>
        simp only []
        rw [ih]
        have hs' : top.shared = false := by simpa using hs
        have hf := firstMatch_sound zero rules hr top.op v.op f hm
        rw [outs_append, outs_fuse zero top v f hs' hf ns]
        simp [outs_append, List.append_assoc]

omit [Min α] [Max α] in
theorem visit_count (rules : List (Rule α)) :
    ∀ (acc : List (Node α)) (v : Node α), (visit rules acc v).1.length + (visit rules acc v).2 = acc.length + 1 := by
  intro acc
  induction acc with
  | nil => intro v; simp [visit]
  | cons top rest ih =>
    intro v
    unfold visit
    by_cases hs : top.shared = true
    · simp [hs]
    · simp only [hs, Bool.false_eq_true, if_false]
      cases hm : firstMatch rules top.op v.op with
      | none => simp
      | some f =>
        simp only []
        have := ih { op := f, shared := v.shared }
        simp only [List.length_cons]; omega

theorem sweepAcc_sound (zero : α) (rules : List (Rule α)) (hr : ∀ r ∈ rules, RuleSound zero r) :
    ∀ (ns : List (Node α)) (acc : List (Node α) × Nat) (x : α),
      outs zero (sweepAcc rules acc ns).1.reverse x = outs zero (acc.1.reverse ++ ns) x := by
  intro ns
  induction ns with
  | nil => intro acc x; simp [sweepAcc]
  | cons n ns ih =>
    intro acc x
    unfold sweepAcc
    simp only []
    rw [ih]
    exact visit_sound zero rules hr acc.1 n ns x

omit [Min α] [Max α] in
theorem sweepAcc_count (rules : List (Rule α)) :
    ∀ (ns : List (Node α)) (acc : List (Node α) × Nat),
      (sweepAcc rules acc ns).1.length + (sweepAcc rules acc ns).2 = acc.1.length + acc.2 + ns.length := by
  intro ns
  induction ns with
  | nil => intro acc; simp [sweepAcc]
  | cons n ns ih =>
    intro acc
    unfold sweepAcc
    simp only []
    rw [ih]
    have := visit_count rules acc.1 n
    simp only [List.length_cons]; omega


section plain
variable {α : Type}

theorem opd_bound_val (o : Opd α) (h : boundOk o.bound = true) : o.bound.val? = o.val? := by
  cases o <;> simp_all [Opd.bound, Opd.val?, Bound.val?, boundOk]

theorem of_clip_outcome (o : Outcome (ClipRepl α)) (f : COp α) (h : ofClipOutcome o = some f) :
    ∃ r, o = .fire r ∧ f = .clip (Opd.ofOption r.lo) (Opd.ofOption r.hi) := by
  cases o <;> simp [ofClipOutcome] at h
  exact ⟨_, rfl, h.symm⟩

theorem ofOption_val (o : Option α) : (Opd.ofOption o).val? = o := by cases o <;> rfl

theorem visit_congr (r1 r2 : List (Rule α)) (h : ∀ p c, firstMatch r1 p c = firstMatch r2 p c) :
    ∀ (acc : List (Node α)) (v : Node α), visit r1 acc v = visit r2 acc v := by
  intro acc
  induction acc with
  | nil => intro v; simp [visit]
  | cons top rest ih => intro v; unfold visit; rw [h]; split
                        · rfl
                        · split <;> simp_all

theorem sweepAcc_congr (r1 r2 : List (Rule α)) (h : ∀ p c, firstMatch r1 p c = firstMatch r2 p c) :
    ∀ (ns : List (Node α)) (acc : List (Node α) × Nat), sweepAcc r1 acc ns = sweepAcc r2 acc ns := by
  intro ns
  induction ns with
  | nil => intro acc; simp [sweepAcc]
  | cons n ns ih => intro acc; unfold sweepAcc; simp only [visit_congr r1 r2 h, ih]

/-- When at most one result is possible among the members, `firstMatch` finds it wherever it stands. -/
theorem firstMatch_eq_some_iff (rules : List (Rule α)) (p c : COp α)
    (hfun : ∀ r1 ∈ rules, ∀ r2 ∈ rules, ∀ f1 f2, r1 p c = some f1 → r2 p c = some f2 → f1 = f2) (f : COp α) :
    firstMatch rules p c = some f ↔ ∃ r ∈ rules, r p c = some f := by
  constructor
  · intro h; exact List.exists_of_findSome?_eq_some h
  · rintro ⟨r, hmem, hr⟩
    unfold firstMatch
    cases hfs : rules.findSome? (fun r => r p c) with
    | none =>
      rw [List.findSome?_eq_none_iff] at hfs
      have := hfs r hmem
      simp_all
    | some f' =>
      obtain ⟨r', hmem', hr'⟩ := List.exists_of_findSome?_eq_some hfs
      rw [hfun r' hmem' r hmem f' f hr' hr]


/-- No adjacent pair of the (reversed) prefix can be rewritten any more. -/
def Stable (rules : List (Rule α)) : List (Node α) → Prop
  | [] => True
  | [_] => True
  | v :: top :: rest => (top.shared = true ∨ firstMatch rules top.op v.op = none) ∧ Stable rules (top :: rest)

theorem Stable.tail (rules : List (Rule α)) : ∀ (a : Node α) (l : List (Node α)), Stable rules (a :: l) → Stable rules l
  | _, [], _ => trivial
  | _, _ :: _, h => h.2

theorem Stable.suffix (rules : List (Rule α)) : ∀ (l m : List (Node α)), Stable rules (l ++ m) → Stable rules m
  | [], _, h => h
  | a :: l, m, h => Stable.suffix rules l m (Stable.tail rules a (l ++ m) h)

theorem visit_stable (rules : List (Rule α)) :
    ∀ (acc : List (Node α)) (v : Node α), Stable rules acc → Stable rules (visit rules acc v).1 := by
  intro acc
  induction acc with
  | nil => intro v _; simp [visit, Stable]
  | cons top rest ih =>
    intro v hs
    unfold visit
    by_cases hsh : top.shared = true
    · simp only [hsh, if_true]; exact ⟨Or.inl hsh, hs⟩
    · simp only [hsh, Bool.false_eq_true, if_false]
      cases hm : firstMatch rules top.op v.op with
      | none => exact ⟨Or.inr hm, hs⟩
      | some f => exact ih _ (Stable.tail rules top rest hs)

theorem sweepAcc_stable (rules : List (Rule α)) :
    ∀ (ns : List (Node α)) (acc : List (Node α) × Nat), Stable rules acc.1 → Stable rules (sweepAcc rules acc ns).1 := by
  intro ns
  induction ns with
  | nil => intro acc h; simpa [sweepAcc] using h
  | cons n ns ih => intro acc h; unfold sweepAcc; exact ih _ (visit_stable rules acc.1 n h)

theorem visit_of_stable (rules : List (Rule α)) (acc : List (Node α)) (v : Node α) (h : Stable rules (v :: acc)) :
    visit rules acc v = (v :: acc, 0) := by
  cases acc with
  | nil => simp [visit]
  | cons top rest =>
    unfold visit
    rcases h.1 with hsh | hm
    · simp [hsh]
    · by_cases hsh : top.shared = true
      · simp [hsh]
      · simp [hsh, hm]

theorem sweepAcc_of_stable (rules : List (Rule α)) :
    ∀ (ns : List (Node α)) (acc : List (Node α)) (k : Nat), Stable rules (ns.reverse ++ acc) →
      sweepAcc rules (acc, k) ns = (ns.reverse ++ acc, k) := by
  intro ns
  induction ns with
  | nil => intro acc k _; simp [sweepAcc]
  | cons n ns ih =>
    intro acc k h
    have h' : Stable rules (ns.reverse ++ (n :: acc)) := by simpa [List.reverse_cons, List.append_assoc] using h
    unfold sweepAcc
    rw [visit_of_stable rules acc n (Stable.suffix rules _ _ h')]
    simp only [Nat.add_zero]
    rw [ih (n :: acc) k h']
    simp [List.reverse_cons, List.append_assoc]

/-- A second sweep over the result of a sweep rewrites nothing. -/
theorem sweep_fixpoint (rules : List (Rule α)) (chain : List (Node α)) :
    sweep rules (sweep rules chain) = sweep rules chain ∧ count rules (sweep rules chain) = 0 := by
  have hst := sweepAcc_stable rules chain ([], 0) trivial
  have := sweepAcc_of_stable rules (sweepAcc rules ([], 0) chain).1.reverse [] 0 (by simpa using hst)
  unfold sweep count
  rw [this]
  simp

end plain

end OV.Lemmas.C05Chain
