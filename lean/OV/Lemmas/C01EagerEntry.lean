import OV.Lemmas.C01Eager
import OV.Model.C01Sem
import OV.Model.C01Convert
/-! The eager entry of a script function whose parameters are all tensors, called with arrays: the pairing of
parameter names and tensor values `evalFunc` starts from. -/
namespace OV.C01.Eager
open OV.C01

variable {V : Type}

/-- the `op_signature` entry / the Python parameter of a tensor parameter `x` -/
def tensorSig (x : Name) : SigParam := ⟨x, true, false, true, false⟩
def tensorPy (x : Name) : PyParam (Arg V) := ⟨x, none⟩

@[simp] theorem tensorSig_isInput (x : Name) : (tensorSig x).isInput = true := rfl
@[simp] theorem tensorSig_name (x : Name) : (tensorSig x).name = x := rfl
@[simp] theorem tensorPy_name (x : Name) : (tensorPy x : PyParam (Arg V)).name = x := rfl

theorem sigMatch_tensors : ∀ xs : List Name, sigMatch (xs.map tensorSig) (xs.map (tensorPy (V := V))) = true
  | [] => rfl
  | x :: xs => by simp [sigMatch, tensorSig, tensorPy, sigMatch_tensors xs]

theorem nodupP_tensors : ∀ xs : List Name, xs.Nodup → nodupP (xs.map tensorSig) = true
  | [], _ => rfl
  | x :: xs, h => by
    have h' := List.nodup_cons.mp h
    simp only [List.map_cons, nodupP, Bool.and_eq_true, Bool.not_eq_true', nodupP_tensors xs h'.2, and_true]
    rw [List.any_eq_false]
    intro q hq
    obtain ⟨y, hy, rfl⟩ := List.mem_map.mp hq
    have : y ≠ x := fun hyx => h'.1 (hyx ▸ hy)
    simp [this]

theorem bindPos_arrays : ∀ (vs : List V) (ys : List Name), vs.length = ys.length →
    bindPos ([] : List (Name × Arg V)) (ys.map tensorPy) (vs.map Arg.arr) = .ok (ys.zip (vs.map Arg.arr))
  | [], [], _ => rfl
  | [], _ :: _, h => by simp at h
  | _ :: _, [], h => by simp at h
  | v :: vs, y :: ys, h => by
    rw [List.map_cons, List.map_cons, bindPos, bindPos_arrays vs ys (by simpa using h)]
    rfl

theorem adaptEnv_arrays (mk : Mk V) : ∀ (vs : List V) (ys : List Name), vs.length = ys.length →
    adaptEnv mk (ys.map tensorSig) (ys.zip (vs.map Arg.arr)) = .ok (ys.zip (vs.map Arg.ten))
      ∧ flagEnv (ys.map tensorSig) (ys.zip (vs.map Arg.arr)) = !vs.isEmpty
  | [], [], _ => ⟨rfl, rfl⟩
  | [], _ :: _, h => by simp at h
  | _ :: _, [], h => by simp at h
  | v :: vs, y :: ys, h => by
    obtain ⟨h1, _⟩ := adaptEnv_arrays mk vs ys (by simpa using h)
    constructor
    · rw [List.map_cons, List.map_cons, List.zip_cons_cons, adaptEnv]
      simp only [adaptTagged, tensorSig_isInput, if_true, adapt, h1]
      rfl
    · rw [List.map_cons, List.map_cons, List.zip_cons_cons, flagEnv]
      simp [hasArr]

theorem lk_zip_none {A} (y : Name) : ∀ (ys : List Name) (as : List A), y ∉ ys → lk y (ys.zip as) = none
  | [], _, _ => by simp [lk]
  | _ :: _, [], _ => by simp [lk]
  | z :: zs, a :: as, h => by
    have hz : z ≠ y := fun hh => h (by simp [hh])
    simp only [List.zip_cons_cons, lk, hz, if_false]
    exact lk_zip_none y zs as (fun hm => h (List.mem_cons_of_mem _ hm))

/-- `f(*arrays)` for a function whose parameters are the tensors `xs`: the body starts from `xs[i] ↦ Tensor(arrays[i])` -/
theorem eagerCall_arrays (mk : Mk V) (ae : Bool) (xs : List Name) (vs : List V) (hnd : xs.Nodup)
    (hlen : vs.length = xs.length) :
    eagerCall mk ae (xs.map tensorSig) (xs.map tensorPy) (vs.map Arg.arr) []
      = .ok (xs.zip (vs.map Arg.ten), !vs.isEmpty) := by
  have hpy : pyBind (xs.map (tensorPy (V := V))) (vs.map Arg.arr) [] = .ok (xs.zip (vs.map Arg.arr)) := by
    unfold pyBind
    simp only [List.length_map, hlen, Nat.lt_irrefl, gt_iff_lt, if_false, List.any_nil, Bool.false_eq_true]
    exact bindPos_arrays vs xs hlen
  rw [eagerCall_python mk ae _ _ _ _ _ (sigMatch_tensors xs) (nodupP_tensors xs hnd) hpy]
  obtain ⟨h1, h2⟩ := adaptEnv_arrays mk vs xs hlen
  simp [h1, h2]

/-- the store `evalFunc` starts from is that environment: `Store.setMany ∅ xs (vs.map PV.t)` binds `xs[i]` to the tensor
`vs[i]` — read through `lk` on the eager environment -/
theorem setMany_eq_lk : ∀ (xs : List Name) (vs : List V) (ρ : Store V) (x : Name), xs.Nodup → vs.length = xs.length →
    Store.setMany ρ xs (vs.map PV.t) x =
      match lk x (xs.zip (vs.map Arg.ten)) with
      | some (.ten v) => some (PV.t v)
      | _ => ρ x
  | [], [], ρ, x, _, _ => rfl
  | [], _ :: _, _, _, _, h => by simp at h
  | _ :: _, [], _, _, _, h => by simp at h
  | y :: ys, v :: vs, ρ, x, hnd, h => by
    have hnd' := List.nodup_cons.mp hnd
    simp only [List.map_cons, Store.setMany, List.zip_cons_cons, lk]
    rw [setMany_eq_lk ys vs (ρ.set y (PV.t v)) x hnd'.2 (by simpa using h)]
    by_cases hyx : y = x
    · subst hyx
      simp only [if_true]
      simp [lk_zip_none y ys (vs.map Arg.ten) hnd'.1, Store.set]
    · simp only [hyx, if_false]
      cases lk x (ys.zip (vs.map Arg.ten)) with
      | none => simp [Store.set, Ne.symm hyx]
      | some a => cases a <;> simp [Store.set, Ne.symm hyx]

/-- the signature entries of a parameter list without attribute parameters -/
def paramSig : Param → SigParam
  | .tensor x => tensorSig x
  | .attr x _ => ⟨x, false, false, true, false⟩
def paramPy : Param → PyParam (Arg V)
  | .tensor x => tensorPy x
  | .attr x _ => ⟨x, none⟩

theorem params_all_tensor : ∀ (ps : List Param), (∀ p ∈ ps, ∃ x, p = Param.tensor x) →
    ps.map paramSig = (tensorParams ps).map tensorSig ∧ ps.map (paramPy (V := V)) = (tensorParams ps).map tensorPy
  | [], _ => ⟨rfl, rfl⟩
  | p :: ps, h => by
    obtain ⟨x, rfl⟩ := h p List.mem_cons_self
    obtain ⟨h1, h2⟩ := params_all_tensor ps (fun q hq => h q (List.mem_cons_of_mem _ hq))
    simp only [List.map_cons, paramSig, paramPy, tensorParams, List.filterMap_cons] at h1 h2 ⊢
    exact ⟨by rw [h1], by rw [h2]⟩

end OV.C01.Eager

