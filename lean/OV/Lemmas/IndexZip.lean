import OV.Model.IndexZip
import OV.Lemmas.IndexGather
/-! Helper lemmas for the zip model of NumPy indexing (`OV.Model.IndexZip`): counting axes. -/
namespace OV.Index

theorem numpyAxis_isPick (c : Comp) (srcs : List Nat) (a : AxisMap) (h : numpyAxis c srcs = .ok a) :
    a.isPick = !c.isEagerScalar := by
  have hsc : ∀ i : Int, (match normIdx srcs.length i with
      | some k => (match srcs[k]? with | some s => Except.ok (AxisMap.drop s) | none => .error Err.indexError)
      | none => .error .indexError) = .ok a → a.isPick = false := by
    intro i h
    cases hn : normIdx srcs.length i with
    | none => simp [hn] at h
    | some k =>
      cases hk : srcs[k]? with
      | none => simp [hn, hk] at h
      | some s => simp only [hn, hk, Except.ok.injEq] at h; subst h; rfl
  cases c with
  | full => simp only [numpyAxis, Except.ok.injEq] at h; subst h; rfl
  | int i => exact hsc i h
  | tScalar i => exact hsc i h
  | slice lo hi st =>
    simp only [numpyAxis] at h
    split at h
    · cases h
    · simp only [Except.ok.injEq] at h; subst h; rfl
  | tVec vs =>
    simp only [numpyAxis] at h
    split at h
    · simp only [Except.ok.injEq] at h; subst h; rfl
    · cases h

theorem stretch_isVec (n : Nat) (c : Comp) : (c.stretch n).isVec = c.isVec := by
  unfold Comp.stretch; split <;> rfl

theorem stretch_isEagerScalar (n : Nat) (c : Comp) : (c.stretch n).isEagerScalar = c.isEagerScalar := by
  unfold Comp.stretch; split <;> rfl

theorem stretch_one (c : Comp) : c.stretch 1 = c := by
  unfold Comp.stretch; split <;> rfl

theorem stretch_of_len_ne_one (n : Nat) (c : Comp) (h : ∀ vs, c = .tVec vs → vs.length ≠ 1) :
    c.stretch n = c := by
  unfold Comp.stretch
  split
  · exact absurd rfl (h _ rfl)
  · rfl

theorem scalar_not_vec (c : Comp) (h : c.isEagerScalar = true) : c.isVec = false := by
  cases c <;> first | rfl | simp [Comp.isEagerScalar] at h

theorem View.init_shape_length (ds : List Nat) : (View.shape (View.init ds)).length = ds.length := by
  induction ds with
  | nil => rfl
  | cons d ds ih =>
    simp only [View.init, View.shape, List.map_cons, List.filterMap_cons, List.length_cons] at ih ⊢
    omega

theorem keptDims_init (ds : List Nat) :
    (keptDims ((View.init ds).map (ZAxis.ofAxis false))).length = ds.length ∧
    zipLen? ((View.init ds).map (ZAxis.ofAxis false)) = none := by
  induction ds with
  | nil => exact ⟨rfl, rfl⟩
  | cons d ds ih =>
    obtain ⟨h1, h2⟩ := ih
    simp only [View.init, List.map_cons, keptDims, zipLen?, ZAxis.ofAxis, List.filterMap_cons,
      List.findSome?_cons, List.length_cons, Bool.false_eq_true, if_false] at h1 h2 ⊢
    exact ⟨by omega, h2⟩

/-- Number of output axes of a per-axis result: one per source axis, minus the scalar-indexed ones. -/
theorem axiswise_shape_count (f : Comp → List Nat → Except Err AxisMap)
    (hD : ∀ c srcs a, f c srcs = .ok a → a.isPick = !c.isEagerScalar) :
    ∀ (cs : List Comp) (ds : List Nat) (v : View), axiswise f cs ds = .ok v →
      (View.shape v).length + (cs.filter Comp.isEagerScalar).length = ds.length := by
  intro cs
  induction cs with
  | nil =>
    intro ds v h
    simp only [axiswise, Except.ok.injEq] at h
    subst h
    simp [View.init_shape_length]
  | cons c cs ih =>
    intro ds v h
    cases ds with
    | nil => simp [axiswise] at h
    | cons d ds =>
      simp only [axiswise, bind, Except.bind] at h
      cases hf : f c (List.range d) with
      | error e => simp [hf] at h
      | ok a =>
        cases hr : axiswise f cs ds with
        | error e => simp [hf, hr] at h
        | ok r =>
          simp only [hf, hr, pure, Except.pure, Except.ok.injEq] at h
          subst h
          have hp := hD c _ a hf
          have := ih ds r hr
          cases a with
          | drop s =>
            have hc : c.isEagerScalar = true := by simpa [AxisMap.isPick] using hp
            simp only [View.shape, List.filterMap_cons, List.filter_cons, hc, if_true, List.length_cons] at this ⊢
            omega
          | pick s =>
            have hc : c.isEagerScalar = false := by simpa [AxisMap.isPick] using hp
            simp only [View.shape, List.filterMap_cons, List.filter_cons, hc, List.length_cons] at this ⊢
            simp only [Bool.false_eq_true, if_false]
            omega

/-- The same count for NumPy's zipped result: kept axes + zipped axes + scalar-indexed axes are all
the source axes; there is a shared axis iff there is a 1-D index. -/
theorem zmark_counts (n : Nat) :
    ∀ (cs : List Comp) (ds : List Nat) (v : View),
      axiswise numpyAxis (cs.map (Comp.stretch n)) ds = .ok v →
      (keptDims (zmark cs v)).length + (cs.filter Comp.isVec).length
          + (cs.filter Comp.isEagerScalar).length = ds.length ∧
      (zipLen? (zmark cs v)).isSome = cs.any Comp.isVec := by
  intro cs
  induction cs with
  | nil =>
    intro ds v h
    simp only [List.map_nil, axiswise, Except.ok.injEq] at h
    subst h
    have := keptDims_init ds
    simp only [zmark, List.filter_nil, List.length_nil, List.any_nil, this.1, this.2]
    exact ⟨by omega, rfl⟩
  | cons c cs ih =>
    intro ds v h
    cases ds with
    | nil => simp [axiswise] at h
    | cons d ds =>
      simp only [List.map_cons, axiswise, bind, Except.bind] at h
      cases hf : numpyAxis (c.stretch n) (List.range d) with
      | error e => simp [hf] at h
      | ok a =>
        cases hr : axiswise numpyAxis (cs.map (Comp.stretch n)) ds with
        | error e => simp [hf, hr] at h
        | ok r =>
          simp only [hf, hr, pure, Except.pure, Except.ok.injEq] at h
          subst h
          have hp := numpyAxis_isPick _ _ a hf
          rw [stretch_isEagerScalar] at hp
          obtain ⟨ih1, ih2⟩ := ih ds r hr
          cases a with
          | drop s =>
            have hc : c.isEagerScalar = true := by simpa [AxisMap.isPick] using hp
            have hv : c.isVec = false := scalar_not_vec c hc
            simp only [zmark, ZAxis.ofAxis, keptDims, zipLen?, List.filterMap_cons, List.findSome?_cons,
              List.filter_cons, hc, hv, if_true, List.length_cons, List.any_cons, Bool.false_or,
              Bool.false_eq_true, if_false] at ih1 ih2 ⊢
            exact ⟨by omega, ih2⟩
          | pick s =>
            have hc : c.isEagerScalar = false := by simpa [AxisMap.isPick] using hp
            cases hv : c.isVec with
            | false =>
              simp only [zmark, ZAxis.ofAxis, keptDims, zipLen?, List.filterMap_cons, List.findSome?_cons,
                List.filter_cons, hc, hv, List.length_cons, List.any_cons, Bool.false_or,
                Bool.false_eq_true, if_false] at ih1 ih2 ⊢
              exact ⟨by omega, ih2⟩
            | true =>
              simp only [zmark, ZAxis.ofAxis, keptDims, zipLen?, List.filterMap_cons, List.findSome?_cons,
                List.filter_cons, hc, hv, if_true, List.length_cons, List.any_cons, Bool.true_or,
                Bool.false_eq_true, if_false, Option.isSome_some] at ih1 ih2 ⊢
              exact ⟨by omega, trivial⟩

theorem keptDims_append (a b : List ZAxis) : keptDims (a ++ b) = keptDims a ++ keptDims b := by
  simp [keptDims, List.filterMap_append]

/-- Rank of a NumPy result: the kept axes and one axis for all zipped ones. -/
theorem ZRes.shape_length (z : ZRes) :
    z.shape.length = (keptDims z.axes).length + (if (zipLen? z.axes).isSome then 1 else 0) := by
  unfold ZRes.shape
  cases hz : zipLen? z.axes with
  | none => simp
  | some n =>
    by_cases hf : z.front = true
    · simp [hf]
    · have hsplit : keptDims z.axes = keptDims (z.axes.takeWhile (fun a => !a.isZip))
          ++ keptDims (z.axes.dropWhile (fun a => !a.isZip)) := by
        rw [← keptDims_append, List.takeWhile_append_dropWhile]
      simp only [hf, Bool.false_eq_true, if_false, hsplit, List.length_append, List.length_cons,
        Option.isSome_some, if_true]
      omega

theorem any_of_filter_length_pos {α} (p : α → Bool) (l : List α) (h : 0 < (l.filter p).length) :
    l.any p = true := by
  induction l with
  | nil => simp at h
  | cons a l ih =>
    simp only [List.filter_cons] at h
    simp only [List.any_cons]
    cases hp : p a with
    | true => rfl
    | false =>
      simp only [hp, Bool.false_eq_true, if_false] at h
      simp [ih h]

/-- 1-D indices of one common length broadcast to that length and nothing is stretched. -/
theorem bcast_equal_lengths (comps : List Comp) (n : Nat)
    (hn : ∀ c ∈ comps, ∀ vs, c = .tVec vs → vs.length = n) :
    ∃ m, bcastLen (comps.filterMap Comp.vecLen?) = some m ∧ comps.map (Comp.stretch m) = comps := by
  have hl : ∀ l ∈ comps.filterMap Comp.vecLen?, l = n := by
    intro l hl
    obtain ⟨c, hc, hcl⟩ := List.mem_filterMap.mp hl
    cases c with
    | tVec vs => simp only [Comp.vecLen?, Option.some.injEq] at hcl; rw [← hcl]; exact hn _ hc vs rfl
    | full => simp [Comp.vecLen?] at hcl
    | int i => simp [Comp.vecLen?] at hcl
    | tScalar i => simp [Comp.vecLen?] at hcl
    | slice a b c => simp [Comp.vecLen?] at hcl
  have hid1 : comps.map (Comp.stretch 1) = comps := by
    rw [List.map_congr_left (fun c _ => stretch_one c)]; simp
  by_cases h1 : n = 1
  · refine ⟨1, ?_, hid1⟩
    have : (comps.filterMap Comp.vecLen?).filter (fun n => n != 1) = [] := by
      rw [List.filter_eq_nil_iff]
      intro l hl'
      simp [hl l hl', h1]
    simp [bcastLen, this]
  · have hfil : (comps.filterMap Comp.vecLen?).filter (fun n => n != 1) = comps.filterMap Comp.vecLen? := by
      rw [List.filter_eq_self]
      intro l hl'
      simp [hl l hl', h1]
    cases hlens : comps.filterMap Comp.vecLen? with
    | nil =>
      refine ⟨1, ?_, hid1⟩
      simp [bcastLen]
    | cons a rest =>
      refine ⟨n, ?_, ?_⟩
      · have ha : a = n := hl a (by rw [hlens]; simp)
        have hrest : rest.all (fun m => m == a) = true := by
          rw [List.all_eq_true]
          intro m hm
          have : m = n := hl m (by rw [hlens]; simp [hm])
          simp [this, ha]
        rw [hlens] at hfil
        unfold bcastLen
        rw [hfil]
        subst ha
        simp only [hrest, if_true]
      · have : ∀ c ∈ comps, c.stretch n = c := by
          intro c hc
          exact stretch_of_len_ne_one n c (fun vs hvs => by rw [hn c hc vs hvs]; exact h1)
        rw [List.map_congr_left this]; simp

/-- Forgetting the zip marks gives back the per-axis maps. -/
theorem unzip_zmark : ∀ (cs : List Comp) (v : View), unzip (zmark cs v) = v := by
  have hax : ∀ (b : Bool) (a : AxisMap),
      (match ZAxis.ofAxis b a with | .drop s => AxisMap.drop s | .pick s => .pick s | .zip s => .pick s) = a := by
    intro b a
    cases a with
    | drop s => rfl
    | pick s => cases b <;> rfl
  have hnil : ∀ v : View, unzip (v.map (ZAxis.ofAxis false)) = v := by
    intro v
    induction v with
    | nil => rfl
    | cons a v ih =>
      simp only [unzip, List.map_cons, List.map_map] at ih ⊢
      rw [ih]
      congr 1
      exact hax false a
  intro cs
  induction cs with
  | nil => intro v; simp only [zmark]; exact hnil v
  | cons c cs ih =>
    intro v
    cases v with
    | nil => rfl
    | cons a v =>
      simp only [zmark, unzip, List.map_cons] at ih ⊢
      rw [ih v]
      congr 1
      exact hax c.isVec a

theorem vecPos_length (comps : List Comp) :
    ((comps.zipIdx.filter (fun p => p.1.isVec)).map (·.2)).length = (comps.filter Comp.isVec).length := by
  rw [List.length_map]
  exact zipIdx_filter_length Comp.isVec comps 0

/-- Below two 1-D indices `moveFront` is `needsTranspose`, i.e. whether `frontOf` names an axis. -/
theorem moveFront_eq_frontOf (comps : List Comp) (hvec : (comps.filter Comp.isVec).length ≤ 1) :
    moveFront comps = (frontOf comps).isSome := by
  have hl := vecPos_length comps
  cases hvp : ((comps.zipIdx.filter (fun p => p.1.isVec)).map (·.2)) with
  | nil =>
    have h1 : moveFront comps = false := by
      unfold moveFront; simp only [hvp]; split <;> rfl
    have h2 : needsTranspose comps = false := by
      unfold needsTranspose; simp only [hvp]; split <;> rfl
    rw [h1]; unfold frontOf; rw [h2]; rfl
  | cons p rest =>
    cases rest with
    | cons q rest => rw [hvp] at hl; simp only [List.length_cons] at hl; omega
    | nil =>
      have h1 : moveFront comps = needsTranspose comps := by
        unfold moveFront needsTranspose; simp only [hvp]
        split <;> split <;> simp_all
      rw [h1]; unfold frontOf; rw [hvp]
      cases needsTranspose comps <;> rfl

theorem all_vec_lengths_of_le_one (comps : List Comp) (hvec : (comps.filter Comp.isVec).length ≤ 1) :
    ∃ n, ∀ c ∈ comps, ∀ vs, c = .tVec vs → vs.length = n := by
  cases hf : comps.filter Comp.isVec with
  | nil =>
    refine ⟨0, ?_⟩
    intro c hc vs hcv
    have : c ∈ comps.filter Comp.isVec := List.mem_filter.mpr ⟨hc, by rw [hcv]; rfl⟩
    rw [hf] at this; cases this
  | cons c0 rest =>
    cases rest with
    | cons c1 rest => rw [hf] at hvec; simp at hvec
    | nil =>
      refine ⟨(c0.vecLen?).getD 0, ?_⟩
      intro c hc vs hcv
      have : c ∈ comps.filter Comp.isVec := List.mem_filter.mpr ⟨hc, by rw [hcv]; rfl⟩
      rw [hf] at this
      simp only [List.mem_singleton] at this
      rw [← this, hcv]
      rfl

end OV.Index
