import OV.Lemmas.C01SimIf
/-!
# Lemmas for C01: forward simulation for `for i in range(n)` loops (no break)

* evaluation of node lists is monotone in the fuel (`evalNodes_mono`);
* on the `if` fragment the exposed-uses analysis and the liveness analysis coincide, and liveness is
  monotone and "splits" (`live_split`), which ties `loop_state_vars` to the live set of the loop body;
* the ONNX `Loop` iteration simulates Python's `for`, by induction on the remaining trip count.
-/
namespace OV.C01

variable {V : Type}

/-! ## Fuel monotonicity of graph evaluation -/

theorem loopIter_mono (S : Sem V) {body body' : Nat → V → List V → Option (V × List V)}
    (hb : ∀ i c st x, body i c st = some x → body' i c st = some x) :
    ∀ (a a' : Nat), a ≤ a' → ∀ (left : Option Nat) (k : Nat) (c : V) (st r : List V),
      loopIter S body a left k c st = some r → loopIter S body' a' left k c st = some r := by
  intro a
  induction a with
  | zero => intro a' _ left k c st r h; simp [loopIter] at h
  | succ n ih =>
    intro a' hle left k c st r h
    cases a' with
    | zero => omega
    | succ n' =>
      unfold loopIter at h ⊢
      cases left with
      | some l =>
        cases l with
        | zero => simpa using h
        | succ l' =>
          simp only at h ⊢
          cases ht : S.truth c with
          | none => simp [ht] at h
          | some b =>
            cases b with
            | false => simpa [ht] using h
            | true =>
              simp only [ht] at h ⊢
              cases hbd : body k c st with
              | none => simp [hbd] at h
              | some x =>
                obtain ⟨c', st'⟩ := x
                rw [hb _ _ _ _ hbd]
                simp only [hbd] at h
                exact ih n' (by omega) _ _ _ _ _ h
      | none =>
        simp only at h ⊢
        cases ht : S.truth c with
        | none => simp [ht] at h
        | some b =>
          cases b with
          | false => simpa [ht] using h
          | true =>
            simp only [ht] at h ⊢
            cases hbd : body k c st with
            | none => simp [hbd] at h
            | some x =>
              obtain ⟨c', st'⟩ := x
              rw [hb _ _ _ _ hbd]
              simp only [hbd] at h
              exact ih n' (by omega) _ _ _ _ _ h

theorem loopResult_mono (S : Sem V) {body body' : Nat → V → List V → Option (V × List V)}
    (hb : ∀ i c st x, body i c st = some x → body' i c st = some x) (a a' : Nat) (hle : a ≤ a')
    (bv cv : Option V) (st0 r : List V) (h : loopResult S body a bv cv st0 = some r) :
    loopResult S body' a' bv cv st0 = some r := by
  unfold loopResult at h ⊢
  cases ht : loopTrip S bv with
  | none => simp [ht] at h
  | some left =>
    simp only [ht] at h ⊢
    exact loopIter_mono S hb a a' hle left 0 _ st0 r h

theorem loopBodyFn_mono (S : Sem V) {ev ev' : Env V → Option (Env V)}
    (he : ∀ e r, ev e = some r → ev' e = some r) (ρ : Env V) (bi bo : List Name) :
    ∀ i c st x, loopBodyFn S ev ρ bi bo i c st = some x → loopBodyFn S ev' ρ bi bo i c st = some x := by
  intro i c st x h
  unfold loopBodyFn at h ⊢
  cases hv : ev (ρ.setMany bi (S.ofNat i :: c :: st)) with
  | none => simp [hv] at h
  | some ρ' =>
    rw [he _ _ hv]
    simpa [hv] using h

mutual
theorem evalNode_mono (S : Sem V) : ∀ (n : Node) (f f' : Nat) (ρ r : Env V), f ≤ f' →
    evalNode S f ρ n = some r → evalNode S f' ρ n = some r
  | .op dom name ins outs attrs, f, f', ρ, r, _, h => by
    simpa [evalNode] using h
  | .ifN c outs tn to en eo, f, f', ρ, r, hle, h => by
    unfold evalNode at h ⊢
    cases hc : ρ c with
    | none => simp [hc] at h
    | some cv =>
      simp only [hc] at h ⊢
      cases ht : S.truth cv with
      | none => simp [ht] at h
      | some b =>
        cases b with
        | true =>
          simp only [ht] at h ⊢
          cases he : evalNodes S f ρ tn with
          | none => simp [he] at h
          | some ρ' =>
            rw [evalNodes_mono S tn f f' ρ ρ' hle he]
            simpa [he] using h
        | false =>
          simp only [ht] at h ⊢
          cases he : evalNodes S f ρ en with
          | none => simp [he] at h
          | some ρ' =>
            rw [evalNodes_mono S en f f' ρ ρ' hle he]
            simpa [he] using h
  | .loop b c inits outs bi bn bo, f, f', ρ, r, hle, h => by
    cases f with
    | zero => simp [evalNode] at h
    | succ a =>
      cases f' with
      | zero => omega
      | succ a' =>
        unfold evalNode at h ⊢
        simp only at h ⊢
        cases hb : ρ.getOpt b with
        | none => simp [hb] at h
        | some bv =>
          cases hc : ρ.getOpt c with
          | none => simp [hb, hc] at h
          | some cv =>
            cases hi : ρ.getMany inits with
            | none => simp [hb, hc, hi] at h
            | some st0 =>
              simp only [hb, hc, hi] at h ⊢
              cases hl : loopResult S (loopBodyFn S (fun e => evalNodes S a e bn) ρ bi bo) a bv cv st0 with
              | none => simp [hl] at h
              | some rs =>
                rw [loopResult_mono S (loopBodyFn_mono S (fun e r he => evalNodes_mono S bn a a' e r (by omega) he)
                  ρ bi bo) a a' (by omega) bv cv st0 rs hl]
                simpa [hl] using h
theorem evalNodes_mono (S : Sem V) : ∀ (ns : List Node) (f f' : Nat) (ρ r : Env V), f ≤ f' →
    evalNodes S f ρ ns = some r → evalNodes S f' ρ ns = some r
  | [], f, f', ρ, r, _, h => by simpa [evalNodes] using h
  | n :: ns, f, f', ρ, r, hle, h => by
    unfold evalNodes at h ⊢
    cases he : evalNode S f ρ n with
    | none => simp [he] at h
    | some ρ' =>
      rw [evalNode_mono S n f f' ρ ρ' hle he]
      simp only [he] at h
      exact evalNodes_mono S ns f f' ρ' r hle h
end

end OV.C01

namespace OV.C01

variable {V : Type}

/-! ## Exposed uses = liveness on the `if` fragment; liveness splits -/

mutual
theorem exposed_eq_live_stmt : ∀ (st : Stmt) (X : VSet), ifStmt st = true → exposedStmt st X = liveInStmt st X
  | .assign x e, X, _ => by simp [exposedStmt, liveInStmt]
  | .par xs es, X, _ => by simp [exposedStmt, liveInStmt]
  | .skip, X, _ => by simp [exposedStmt, liveInStmt]
  | .ite c t e, X, hi => by
    simp only [ifStmt, Bool.and_eq_true] at hi
    simp only [exposedStmt, liveInStmt, exposed_eq_live_block t X hi.1.2, exposed_eq_live_block e X hi.2]
  | .tuple _ _, _, hi => by simp [ifStmt] at hi
  | .badAssign _ _, _, hi => by simp [ifStmt] at hi
  | .for_ _ _ _ _, _, hi => by simp [ifStmt] at hi
  | .while_ _ _, _, hi => by simp [ifStmt] at hi
  | .brk _, _, hi => by simp [ifStmt] at hi
  | .ret _ _, _, hi => by simp [ifStmt] at hi
  | .unsupported, _, hi => by simp [ifStmt] at hi
theorem exposed_eq_live_block : ∀ (ss : List Stmt) (X : VSet), ifBlock ss = true →
    exposedBlock ss X = liveInBlock ss X
  | [], X, _ => by simp [exposedBlock, liveInBlock]
  | st :: ss, X, hi => by
    simp only [ifBlock, Bool.and_eq_true] at hi
    simp only [exposedBlock, liveInBlock, exposed_eq_live_block ss X hi.2,
      exposed_eq_live_stmt st _ hi.1]
end

mutual
/-- If every member of `Z` is in `A` or in `X`, then every live-in from `Z` is a live-in from `A` or in `X`. -/
theorem live_rel_stmt : ∀ (st : Stmt) {Z A X : VSet} {x : Name}, ifStmt st = true →
    (∀ y, y ∈ Z → y ∈ A ∨ y ∈ X) → x ∈ liveInStmt st Z → x ∈ liveInStmt st A ∨ x ∈ X
  | .assign v e, Z, A, X, x, _, hz, hx => by
    unfold liveInStmt at hx ⊢
    rcases mem_vunion.mp hx with h | h
    · obtain ⟨h1, h2⟩ := mem_vdiff.mp h
      rcases hz x h1 with h' | h'
      · exact Or.inl (mem_vunion.mpr (Or.inl (mem_vdiff.mpr ⟨h', h2⟩)))
      · exact Or.inr h'
    · exact Or.inl (mem_vunion.mpr (Or.inr h))
  | .par vs es, Z, A, X, x, _, hz, hx => by
    unfold liveInStmt at hx ⊢
    rcases mem_vunion.mp hx with h | h
    · obtain ⟨h1, h2⟩ := mem_vdiff.mp h
      rcases hz x h1 with h' | h'
      · exact Or.inl (mem_vunion.mpr (Or.inl (mem_vdiff.mpr ⟨h', h2⟩)))
      · exact Or.inr h'
    · exact Or.inl (mem_vunion.mpr (Or.inr h))
  | .skip, Z, A, X, x, _, hz, hx => by
    unfold liveInStmt at hx ⊢
    exact hz x hx
  | .ite c t e, Z, A, X, x, hi, hz, hx => by
    simp only [ifStmt, Bool.and_eq_true] at hi
    unfold liveInStmt at hx ⊢
    rcases mem_vunion.mp hx with h | h
    · rcases mem_vunion.mp h with h | h
      · rcases live_rel_block t hi.1.2 hz h with h' | h'
        · exact Or.inl (mem_vunion.mpr (Or.inl (mem_vunion.mpr (Or.inl h'))))
        · exact Or.inr h'
      · rcases live_rel_block e hi.2 hz h with h' | h'
        · exact Or.inl (mem_vunion.mpr (Or.inl (mem_vunion.mpr (Or.inr h'))))
        · exact Or.inr h'
    · exact Or.inl (mem_vunion.mpr (Or.inr h))
  | .tuple _ _, _, _, _, _, hi, _, _ => by simp [ifStmt] at hi
  | .badAssign _ _, _, _, _, _, hi, _, _ => by simp [ifStmt] at hi
  | .for_ _ _ _ _, _, _, _, _, hi, _, _ => by simp [ifStmt] at hi
  | .while_ _ _, _, _, _, _, hi, _, _ => by simp [ifStmt] at hi
  | .brk _, _, _, _, _, hi, _, _ => by simp [ifStmt] at hi
  | .ret _ _, _, _, _, _, hi, _, _ => by simp [ifStmt] at hi
  | .unsupported, _, _, _, _, hi, _, _ => by simp [ifStmt] at hi
theorem live_rel_block : ∀ (ss : List Stmt) {Z A X : VSet} {x : Name}, ifBlock ss = true →
    (∀ y, y ∈ Z → y ∈ A ∨ y ∈ X) → x ∈ liveInBlock ss Z → x ∈ liveInBlock ss A ∨ x ∈ X
  | [], Z, A, X, x, _, hz, hx => by
    unfold liveInBlock at hx ⊢
    exact hz x hx
  | st :: ss, Z, A, X, x, hi, hz, hx => by
    simp only [ifBlock, Bool.and_eq_true] at hi
    unfold liveInBlock at hx ⊢
    exact live_rel_stmt st hi.1 (fun y hy => live_rel_block ss hi.2 hz hy) hx
end

theorem live_mono_block {ss : List Stmt} {Z A : VSet} {x : Name} (hi : ifBlock ss = true)
    (hz : ∀ y, y ∈ Z → y ∈ A) (hx : x ∈ liveInBlock ss Z) : x ∈ liveInBlock ss A := by
  rcases live_rel_block ss (X := []) hi (fun y hy => Or.inl (hz y hy)) hx with h | h
  · exact h
  · cases h

/-! ## The fixpoint iteration -/

theorem fixIter_inv (P : VSet → Prop) (step : VSet → VSet) (hstep : ∀ X, P X → P (step X)) :
    ∀ (n : Nat) (X : VSet), P X → P (fixIter step n X) := by
  intro n
  induction n with
  | zero => intro X h; simpa [fixIter] using h
  | succ n ih =>
    intro X h
    unfold fixIter
    simp only
    by_cases he : (step X == X) = true
    · simp only [he, if_true]; exact h
    · simp only [he]; exact ih _ (hstep X h)

/-- What is needed of the live-out set `F` the body of `for i in range(b): body` is translated with. -/
structure ForLive (i : Name) (body : List Stmt) (lo F : VSet) : Prop where
  lo_sub : ∀ y, y ∈ lo → y ∈ F
  back : ∀ y, y ∈ liveInBlock body F → y ≠ i → y ∈ F
  sub_exposed : ∀ y, y ∈ F → y ∈ liveInBlock body [] ∨ y ∈ lo

theorem forLive_of_stable {i : Name} {ok : Bool} {b : Expr} {body : List Stmt} {lo : VSet}
    (hi : ifBlock body = true) (hst : stableStmt (.for_ i ok b body) lo = true) :
    ForLive i body lo (loopBodyLo (.for_ i ok b body) lo) := by
  unfold stableStmt at hst
  simp only [Bool.and_eq_true] at hst
  obtain ⟨⟨h1, h2⟩, _⟩ := hst
  refine ⟨vsubset_mem h1, ?_, ?_⟩
  · intro y hy hne
    exact vsubset_mem h2 y (mem_vdiff.mpr ⟨hy, by simpa using hne⟩)
  · simp only [loopBodyLo]
    apply fixIter_inv (fun X => ∀ y, y ∈ X → y ∈ liveInBlock body [] ∨ y ∈ lo)
    · intro X hX y hy
      rcases mem_vunion.mp hy with h | h
      · obtain ⟨h, _⟩ := mem_vdiff.mp h
        rcases live_rel_block body (A := []) (X := X) hi (fun z hz => Or.inr hz) h with h' | h'
        · exact Or.inl h'
        · exact hX y h'
      · exact Or.inr h
    · intro y hy; exact Or.inr hy

/-! ## Python's `for` over a block of the fragment -/

theorem evalExpr_var_of_none {S : Sem V} {t : Name} (h : S.attrLit t = none) (ρ : Store V) :
    evalExpr S ρ (.var t) = ρ t := by
  unfold evalExpr
  cases ρ t <;> simp [h]

theorem iterFor_run (S : Sem V) (fuel : Nat) (i : Name) {body : List Stmt} (hi : ifBlock body = true)
    (hF : TFree S (targetsBlock body))
    {d : VSet} (hd : assignedBlock body = some d) :
    ∀ (left k : Nat) {ρ : Store V} {o : Outcome V}, AllT S ρ →
      iterFor S i (fun r => evalBlock S fuel body r) left k ρ = some o →
      ∃ ρ', o = .normal ρ' ∧ AllT S ρ' ∧ (∀ x, ρ x ≠ none → ρ' x ≠ none)
        ∧ (∀ x, x ∉ d → x ≠ i → ρ' x = ρ x) := by
  intro left
  induction left with
  | zero =>
    intro k ρ o hρ h
    simp only [iterFor] at h
    cases h
    exact ⟨ρ, rfl, hρ, fun _ hx => hx, fun _ _ _ => rfl⟩
  | succ n ih =>
    intro k ρ o hρ h
    simp only [iterFor] at h
    cases hb : evalBlock S fuel body (ρ.set i (.t (S.ofNat k))) with
    | none => simp [hb] at h
    | some o1 =>
      obtain ⟨ρ1, rfl, r1⟩ := ifBlock_run S fuel body hi hF (hρ.set i (S.ofNat k)) hb
      simp only [hb] at h
      obtain ⟨ρ2, ho, a2, d2, f2⟩ := ih (k + 1) r1.allT h
      refine ⟨ρ2, ho, a2, ?_, ?_⟩
      · intro x hx
        apply d2
        apply r1.dom
        unfold Store.set
        by_cases hxi : x = i
        · simp [hxi]
        · simp only [hxi, if_false]; exact hx
      · intro x hxd hxi
        rw [f2 x hxd hxi, r1.frame d hd x hxd]
        unfold Store.set
        simp [hxi]

end OV.C01

namespace OV.C01

variable {V : Type}

/-! ## Translation-side facts about loops -/

theorem ifStmt_not_brk {st : Stmt} (h : ifStmt st = true) : ∀ c, st ≠ .brk c := by
  intro c hc; subst hc; simp [ifStmt] at h

theorem convLoopBody_ifBlock : ∀ (ss : List Stmt) (L : Locals) (lo : VSet) {L' : Locals} {ns : List Node}
    {bc : Option Name} {s s' : St}, ifBlock ss = true →
    convLoopBody L ss lo s = .ok ((L', ns, bc), s') → convStmts L ss lo s = .ok ((L', ns), s') ∧ bc = none := by
  intro ss
  induction ss with
  | nil =>
    intro L lo L' ns bc s s' _ h
    unfold convLoopBody at h
    obtain ⟨e1, e2⟩ := pure_ok h
    cases e1; subst e2
    exact ⟨by simp [convStmts, pure, M.pure], rfl⟩
  | cons st ss ih =>
    intro L lo L' ns bc s s' hi h
    simp only [ifBlock, Bool.and_eq_true] at hi
    rw [convLoopBody_cons_nonbrk L st ss lo (ifStmt_not_brk hi.1)] at h
    mbind h with p s1 h1
    obtain ⟨L1, ns1⟩ := p
    try dsimp only at h
    mbind h with p s2 h2
    obtain ⟨L2, ns2, bc'⟩ := p
    try dsimp only at h
    obtain ⟨e1, e2⟩ := pure_ok h
    cases e1; subst e2
    obtain ⟨h2', rfl⟩ := ih L1 lo hi.2 h2
    refine ⟨?_, rfl⟩
    unfold convStmts
    show (M.bind (convStmt L st (liveInBlock ss lo)) _) s = _
    unfold M.bind
    rw [h1]
    simp only
    show (M.bind (convStmts L1 ss lo) _) s1 = _
    unfold M.bind
    rw [h2']
    rfl

theorem condNodes_for {brkCond : Option Name} {oc co : Name} {cns : List Node} {s s' : St}
    (h : condNodes none brkCond oc s = .ok ((co, cns), s')) :
    genUnique "cond_out" s = .ok (co, s') ∧ cns = [condNode brkCond oc co] := by
  unfold condNodes at h
  simp only at h
  mbind h with c s1 h1
  obtain ⟨e1, e2⟩ := pure_ok h
  cases e1; subst e2
  exact ⟨h1, rfl⟩

theorem loopParams_eq : ∀ (state : List Name) (L0 : Locals) {L1 : Locals} {ps : List Name} {s s' : St},
    loopParams L0 state s = .ok ((L1, ps), s') → L1 = bindVals L0 state ps ∧ ps.length = state.length := by
  intro state
  induction state with
  | nil =>
    intro L0 L1 ps s s' h
    unfold loopParams at h
    obtain ⟨e1, e2⟩ := pure_ok h
    cases e1
    exact ⟨rfl, rfl⟩
  | cons x xs ih =>
    intro L0 L1 ps s s' h
    unfold loopParams at h
    mbind h with p s1 h1
    mbind h with q s2 h2
    obtain ⟨L'', ps'⟩ := q
    try dsimp only at h
    obtain ⟨e1, e2⟩ := pure_ok h
    cases e1
    obtain ⟨r1, r2⟩ := ih _ h2
    exact ⟨by rw [r1]; rfl, by simp [r2]⟩

theorem loopInits_val (L : Locals) : ∀ (state : List Name) {inits : List Name}
    {ns : List Node} {s s' : St}, FreeOf S L state → loopInits L state s = .ok ((inits, ns), s') →
    ns = [] ∧ s' = s ∧ All2 (fun n x => lookup L x = some (.val n)) inits state := by
  intro state
  induction state with
  | nil =>
    intro inits ns s s' _ h
    unfold loopInits at h
    obtain ⟨e1, e2⟩ := pure_ok h
    cases e1
    exact ⟨rfl, e2.symm, All2.nil⟩
  | cons x xs ih =>
    intro inits ns s s' hA h
    unfold loopInits at h
    mbind h with p s1 h1
    obtain ⟨o, ns1⟩ := p
    try dsimp only at h
    mbind h with p s2 h2
    obtain ⟨os, ns2⟩ := p
    try dsimp only at h
    obtain ⟨e1, e2⟩ := pure_ok h
    cases e1; subst e2
    unfold pyVar at h1
    cases hl : lookup L x with
    | none => simp only [hl] at h1; exact (failM_ok h1).elim
    | some b =>
      cases b with
      | attr p ty => exact absurd hl ((hA x List.mem_cons_self).1 p ty)
      | val n =>
        simp only [hl] at h1
        obtain ⟨rfl, rfl, rfl⟩ := toOnnxVar_val h1
        obtain ⟨r1, r2, r3⟩ := ih (hA.sub (fun y hy => List.mem_cons_of_mem _ hy)) h2
        subst r1; subst r2
        exact ⟨rfl, rfl, All2.cons _ _ _ _ hl r3⟩

theorem loopOutputs_sim (S : Sem V) (fuel : Nat) (hId : ∀ v, S.op "" "Identity" [some v] [] = some [v])
    {ρ' : Store V} (L2 : Locals) :
    ∀ (vs : List Name) (sofar : List Node) (outs : List Name) {env : Env V} {s s' : St} {os : List Name}
      {ns : List Node}, VisOK s.used L2 → FreeOf S L2 vs →
      (∀ pv, pv ∈ vs → ∀ n, lookup L2 pv = some (.val n) → ∃ v, env n = some v ∧ ρ' pv = some (.t v)) →
      loopOutputs L2 vs sofar outs s = .ok ((os, ns), s') →
      ∃ env', evalNodes S fuel env ns = some env' ∧ Ext env env' s s' ∧ s'.castable = s.castable ∧ Mono s s'
        ∧ All2 (fun o pv => ∃ v, env' o = some v ∧ ρ' pv = some (.t v)) os vs := by
  intro vs
  induction vs with
  | nil =>
    intro sofar outs env s s' os ns _ _ _ h
    unfold loopOutputs at h
    obtain ⟨e1, e2⟩ := pure_ok h
    cases e1; subst e2
    exact ⟨env, evalNodes_nil _ _ _, Ext.refl _ _, rfl, Mono.refl _, All2.nil⟩
  | cons pv rest ih =>
    intro sofar outs env s s' os ns hL hA hf h
    have hAr : FreeOf S L2 rest := hA.sub (fun y hy => List.mem_cons_of_mem _ hy)
    unfold loopOutputs at h
    have restf : ∀ {env1 : Env V} {s1 : St}, Ext env env1 s s1 → Mono s s1 →
        ∀ q, q ∈ rest → ∀ n, lookup L2 q = some (.val n) → ∃ v, env1 n = some v ∧ ρ' q = some (.t v) := by
      intro env1 s1 e1 _ q hq n hl
      obtain ⟨v, h1, h2⟩ := hf q (List.mem_cons_of_mem _ hq) n hl
      exact ⟨v, by rw [e1.envSame n (hL.lookup hl)]; exact h1, h2⟩
    mbind h with p s1 h1
    obtain ⟨o, ns1⟩ := p
    try dsimp only at h
    unfold pyVar at h1
    cases hl : lookup L2 pv with
    | none => simp only [hl] at h1; exact (failM_ok h1).elim
    | some b =>
      cases b with
      | attr p ty => exact absurd hl ((hA pv List.mem_cons_self).1 p ty)
      | val n =>
        simp only [hl] at h1
        obtain ⟨rfl, rfl, rfl⟩ := toOnnxVar_val h1
        obtain ⟨v, hn, hρ⟩ := hf pv List.mem_cons_self o hl
        have hnu : o ∈ s1.used := hL.lookup hl
        by_cases hin : ((topDefs (sofar ++ [])).contains o && !outs.contains o) = true
        · rw [if_pos hin] at h
          mbind h with p s2 h2
          obtain ⟨os', ns2⟩ := p
          try dsimp only at h
          obtain ⟨e1, e2⟩ := pure_ok h
          cases e1; subst e2
          obtain ⟨env3, ev3, x3, hc3, m3, a3⟩ := ih _ _ hL hAr (restf (Ext.refl _ _) (Mono.refl _)) h2
          refine ⟨env3, by simpa using ev3, x3, hc3, m3, ?_⟩
          exact All2.cons _ _ _ _ ⟨v, by rw [x3.envSame _ hnu]; exact hn, hρ⟩ a3
        · rw [if_neg hin] at h
          mbind h with p s2 h2
          obtain ⟨o', nc⟩ := p
          try dsimp only at h
          mbind h with p s3 h3
          obtain ⟨os', ns2⟩ := p
          try dsimp only at h
          obtain ⟨e1, e2⟩ := pure_ok h
          cases e1; subst e2
          obtain ⟨ev2, x2, hu2, m2⟩ := emitCopy_sim S fuel hId hn h2
          have hc2 := emitCopy_castable h2
          obtain ⟨env3, ev3, x3, hc3, m3, a3⟩ := ih _ _ (hL.mono m2) hAr (restf x2 m2) h3
          refine ⟨env3, by simpa using evalNodes_seq ev2 ev3, x2.trans m2 x3, by rw [hc3, hc2], m2.trans m3, ?_⟩
          exact All2.cons _ _ _ _ ⟨v, by rw [x3.envSame _ hu2]; exact Env.set_same _ _ _, hρ⟩ a3

/-! ### Castable bookkeeping of a whole `for` statement -/

theorem loopParams_cast : ∀ (state : List Name) (L0 : Locals) {L1 : Locals} {ps : List Name} {s s' : St},
    loopParams L0 state s = .ok ((L1, ps), s') → CastOK s s' := by
  intro state
  induction state with
  | nil =>
    intro L0 L1 ps s s' h
    unfold loopParams at h
    obtain ⟨_, e2⟩ := pure_ok h
    subst e2
    exact CastOK.refl _
  | cons x xs ih =>
    intro L0 L1 ps s s' h
    unfold loopParams at h
    mbind h with p s1 h1
    mbind h with q s2 h2
    obtain ⟨L'', ps'⟩ := q
    try dsimp only at h
    obtain ⟨_, e2⟩ := pure_ok h
    subst e2
    exact (genUnique_cast h1).trans (ih _ h2)

theorem loopOutputs_cast (L : Locals) : ∀ (vs : List Name) (sofar : List Node) (outs : List Name)
    {os : List Name} {ns : List Node} {s s' : St},
    loopOutputs L vs sofar outs s = .ok ((os, ns), s') → CastOK s s' := by
  intro vs
  induction vs with
  | nil =>
    intro sofar outs os ns s s' h
    unfold loopOutputs at h
    obtain ⟨_, e2⟩ := pure_ok h
    subst e2
    exact CastOK.refl _
  | cons pv rest ih =>
    intro sofar outs os ns s s' h
    unfold loopOutputs at h
    mbind h with p s1 h1
    obtain ⟨o, ns1⟩ := p
    try dsimp only at h
    by_cases hin : ((topDefs (sofar ++ ns1)).contains o && !outs.contains o) = true
    · rw [if_pos hin] at h
      mbind h with p s2 h2
      obtain ⟨os', ns2⟩ := p
      try dsimp only at h
      obtain ⟨_, e2⟩ := pure_ok h
      subst e2
      exact (pyVar_cast h1).trans (ih _ _ h2)
    · rw [if_neg hin] at h
      mbind h with p s2 h2
      obtain ⟨o', nc⟩ := p
      try dsimp only at h
      mbind h with p s3 h3
      obtain ⟨os', ns2⟩ := p
      try dsimp only at h
      obtain ⟨_, e2⟩ := pure_ok h
      subst e2
      exact (pyVar_cast h1).trans ((emitCopy_cast h2).trans (ih _ _ h3))

end OV.C01

namespace OV.C01

variable {V : Type}

theorem loopParams_castable : ∀ (state : List Name) (L0 : Locals) {L1 : Locals} {ps : List Name} {s s' : St},
    loopParams L0 state s = .ok ((L1, ps), s') → s'.castable = s.castable := by
  intro state
  induction state with
  | nil =>
    intro L0 L1 ps s s' h
    unfold loopParams at h
    obtain ⟨_, e2⟩ := pure_ok h
    subst e2; rfl
  | cons x xs ih =>
    intro L0 L1 ps s s' h
    unfold loopParams at h
    mbind h with p s1 h1
    mbind h with q s2 h2
    obtain ⟨L'', ps'⟩ := q
    try dsimp only at h
    obtain ⟨_, e2⟩ := pure_ok h
    subst e2
    rw [ih _ h2, (genUnique_spec h1).2.2]

/-- Decomposition of `loopEnter`. -/
theorem loopEnter_parts {L : Locals} {v : Name} {bindIt : Bool} {state : List Name} {L1 : Locals} {iv : Name}
    {ps : List Name} {s s' : St} (h : loopEnter L v bindIt state s = .ok ((L1, iv, ps), s')) :
    L1 = bindVals (loopScope L v bindIt iv) state ps ∧ ps.length = state.length
      ∧ s'.castable = s.castable ∧ CastOK s s' := by
  unfold loopEnter at h
  mbind h with iv' s1 h1
  mbind h with p s2 h2
  obtain ⟨L1', ps'⟩ := p
  try dsimp only at h
  obtain ⟨e1, e2⟩ := pure_ok h
  cases e1; subst e2
  obtain ⟨r1, r2⟩ := loopParams_eq _ _ h2
  exact ⟨r1, r2, by rw [loopParams_castable _ _ h2, (genUnique_spec h1).2.2],
    (genUnique_cast h1).trans (loopParams_cast _ _ h2)⟩

theorem envSetMany_cons (env : Env V) (x : Name) (xs : List Name) (v : V) (vs : List V) :
    Env.setMany env (x :: xs) (v :: vs) = Env.setMany (env.set x v) xs vs := rfl

end OV.C01

namespace OV.C01

variable {V : Type}

/-! ## The `Loop` node simulates Python's `for` -/

theorem All2.imp {α β : Type} {R R' : α → β → Prop} {as : List α} {bs : List β} (h : All2 R as bs)
    (hi : ∀ a b, b ∈ bs → R a b → R' a b) : All2 R' as bs := by
  induction h with
  | nil => exact All2.nil
  | cons a b as' bs' hr _ ih =>
    exact All2.cons _ _ _ _ (hi a b List.mem_cons_self hr)
      (ih (fun a' b' hb' => hi a' b' (List.mem_cons_of_mem _ hb')))

theorem all2_mem_right {α β : Type} {R : α → β → Prop} {as : List α} {bs : List β} (h : All2 R as bs) :
    ∀ b, b ∈ bs → ∃ a, R a b := by
  induction h with
  | nil => intro b hb; cases hb
  | cons a b as' bs' hr _ ih =>
    intro b' hb'
    rcases List.mem_cons.mp hb' with rfl | hb'
    · exact ⟨a, hr⟩
    · exact ih b' hb'

theorem inits_values {ρ : Store V} {L : Locals} {env1 : Env V} : ∀ {inits state : List Name},
    All2 (fun n x => lookup L x = some (.val n)) inits state →
    (∀ x, x ∈ state → ∀ n, lookup L x = some (.val n) → ∃ v, env1 n = some v ∧ ρ x = some (PV.t v)) →
    ∃ st0, inits.mapM env1 = some st0 ∧ All2 (fun v x => ρ x = some (PV.t v)) st0 state := by
  intro inits state h
  induction h with
  | nil => intro _; exact ⟨[], by simp, All2.nil⟩
  | cons n x ns xs hl _ ih =>
    intro hf
    obtain ⟨v, hv, hρ⟩ := hf x List.mem_cons_self n hl
    obtain ⟨st, hm, ha⟩ := ih (fun y hy => hf y (List.mem_cons_of_mem _ hy))
    exact ⟨v :: st, by simp [List.mapM_cons, hv, hm], All2.cons _ _ _ _ hρ ha⟩

/-! ## What the loop simulations need to know about a loop body -/

/-- `ns` evaluates `env` to `env'` at every large enough fuel. -/
def EvFrom (S : Sem V) (env : Env V) (ns : List Node) (env' : Env V) : Prop :=
  ∃ G0, ∀ G, G0 ≤ G → evalNodes S G env ns = some env'

theorem EvFrom.of_eval {S : Sem V} {env env' : Env V} {ns : List Node} {G : Nat}
    (h : evalNodes S G env ns = some env') : EvFrom S env ns env' :=
  ⟨G, fun G' hG' => evalNodes_mono S ns G G' _ _ hG' h⟩

theorem EvFrom.seq {S : Sem V} {env env1 env2 : Env V} {a b : List Node}
    (h1 : EvFrom S env a env1) (h2 : EvFrom S env1 b env2) : EvFrom S env (a ++ b) env2 := by
  obtain ⟨G1, e1⟩ := h1
  obtain ⟨G2, e2⟩ := h2
  exact ⟨max G1 G2, fun G hG => evalNodes_seq (e1 G (by omega)) (e2 G (by omega))⟩

/-- The facts about a block `body`, translated with live-out `F`, that the simulation of a loop around it uses:
how it runs, that its translation simulates it, its castable bookkeeping, that it has no `break` at its top
level, and how liveness / exposed uses split over it. -/
structure BodyFacts (S : Sem V) (fuel : Nat) (body : List Stmt) (F : VSet) : Prop where
  run : ∀ {ρ : Store V} {o : Outcome V}, AllT S ρ → evalBlock S fuel body ρ = some o →
    ∃ ρ1, o = .normal ρ1 ∧ RunOK S ρ ρ1 (assignedBlock body)
  sim : ∀ {L L' : Locals} {ρ ρ1 : Store V} {env : Env V} {s s' : St} {ns : List Node},
    FreeOf S L (targetsBlock body) → Inv S (liveInBlock body F) ρ L env s →
    evalBlock S fuel body ρ = some (.normal ρ1) →
    convStmts L body F s = .ok ((L', ns), s') →
    ∃ env', EvFrom S env ns env' ∧ Inv S F ρ1 L' env' s' ∧ Ext env env' s s' ∧ Mono s s'
  cast : ∀ {L L' : Locals} {ns : List Node} {s s' : St}, convStmts L body F s = .ok ((L', ns), s') → CastOK s s'
  nobrk : ∀ st, st ∈ body → ∀ c, st ≠ .brk c
  /-- a live-in of the body from a live-out inside `F` is an exposed use of the body or comes from that live-out -/
  toExp : ∀ {Z : VSet} {y : Name}, (∀ z, z ∈ Z → z ∈ F) → y ∈ liveInBlock body Z →
    y ∈ exposedBlock body [] ∨ y ∈ Z
  /-- an exposed use of the body is live at its head -/
  ofExp : ∀ y, y ∈ exposedBlock body [] → y ∈ liveInBlock body F
  /-- liveness of the body is monotone below `F` -/
  mono : ∀ {Z : VSet} {y : Name}, (∀ z, z ∈ Z → z ∈ F) → y ∈ liveInBlock body Z → y ∈ liveInBlock body F

/-- What is needed of the live-out set `F` the body of `for i in range(b): body` is translated with, in terms of
the exposed uses of the body (which is what `loop_state_vars` is computed from). -/
structure ForLiveE (i : Name) (body : List Stmt) (lo F : VSet) : Prop where
  lo_sub : ∀ y, y ∈ lo → y ∈ F
  back : ∀ y, y ∈ liveInBlock body F → y ≠ i → y ∈ F
  sub_exposed : ∀ y, y ∈ F → y ∈ exposedBlock body [] ∨ y ∈ lo

theorem forLiveE_of_stable {S : Sem V} {fuel : Nat} {i : Name} {ok : Bool} {b : Expr} {body : List Stmt} {lo : VSet}
    (hB : BodyFacts S fuel body (loopBodyLo (.for_ i ok b body) lo))
    (hst : stableStmt (.for_ i ok b body) lo = true) :
    ForLiveE i body lo (loopBodyLo (.for_ i ok b body) lo) := by
  unfold stableStmt at hst
  simp only [Bool.and_eq_true] at hst
  obtain ⟨⟨h1, h2⟩, _⟩ := hst
  have hback : ∀ y, y ∈ liveInBlock body (loopBodyLo (.for_ i ok b body) lo) → y ≠ i →
      y ∈ loopBodyLo (.for_ i ok b body) lo :=
    fun y hy hne => vsubset_mem h2 y (mem_vdiff.mpr ⟨hy, by simpa using hne⟩)
  have hlo := vsubset_mem h1
  refine ⟨hlo, hback, ?_⟩
  have hP : ∀ y, y ∈ loopBodyLo (.for_ i ok b body) lo →
      y ∈ loopBodyLo (.for_ i ok b body) lo ∧ (y ∈ exposedBlock body [] ∨ y ∈ lo) := by
    intro y hy
    exact ⟨hy, by
      revert y
      show ∀ y, y ∈ loopBodyLo (.for_ i ok b body) lo → (y ∈ exposedBlock body [] ∨ y ∈ lo)
      have key : ∀ y, y ∈ loopBodyLo (.for_ i ok b body) lo →
          y ∈ loopBodyLo (.for_ i ok b body) lo ∧ (y ∈ exposedBlock body [] ∨ y ∈ lo) := by
        conv => enter [y]; lhs; simp only [loopBodyLo]
        apply fixIter_inv (fun X => ∀ y, y ∈ X →
          y ∈ loopBodyLo (.for_ i ok b body) lo ∧ (y ∈ exposedBlock body [] ∨ y ∈ lo))
        · intro X hX y hy
          rcases mem_vunion.mp hy with h | h
          · obtain ⟨h, hni⟩ := mem_vdiff.mp h
            have hne : y ≠ i := by simpa using hni
            refine ⟨hback y (hB.mono (fun z hz => (hX z hz).1) h) hne, ?_⟩
            rcases hB.toExp (fun z hz => (hX z hz).1) h with h' | h'
            · exact Or.inl h'
            · exact (hX y h').2
          · exact ⟨hlo y h, Or.inr h⟩
        · intro y hy; exact ⟨hlo y hy, Or.inr hy⟩
      exact fun y hy => (key y hy).2⟩
  exact fun y hy => (hP y hy).2

theorem ForLive.toE {i : Name} {body : List Stmt} {lo F : VSet} (h : ForLive i body lo F)
    (hexp : exposedBlock body [] = liveInBlock body []) : ForLiveE i body lo F :=
  ⟨h.lo_sub, h.back, fun y hy => by rw [hexp]; exact h.sub_exposed y hy⟩

theorem convLoopBody_nobrk : ∀ (ss : List Stmt) (L : Locals) (lo : VSet) {L' : Locals} {ns : List Node}
    {bc : Option Name} {s s' : St}, (∀ st, st ∈ ss → ∀ c, st ≠ .brk c) →
    convLoopBody L ss lo s = .ok ((L', ns, bc), s') → convStmts L ss lo s = .ok ((L', ns), s') ∧ bc = none := by
  intro ss
  induction ss with
  | nil =>
    intro L lo L' ns bc s s' _ h
    unfold convLoopBody at h
    obtain ⟨e1, e2⟩ := pure_ok h
    cases e1; subst e2
    exact ⟨by simp [convStmts, pure, M.pure], rfl⟩
  | cons st ss ih =>
    intro L lo L' ns bc s s' hi h
    rw [convLoopBody_cons_nonbrk L st ss lo (hi st List.mem_cons_self)] at h
    mbind h with p s1 h1
    obtain ⟨L1, ns1⟩ := p
    try dsimp only at h
    mbind h with p s2 h2
    obtain ⟨L2, ns2, bc'⟩ := p
    try dsimp only at h
    obtain ⟨e1, e2⟩ := pure_ok h
    cases e1; subst e2
    obtain ⟨h2', rfl⟩ := ih L1 lo (fun st' hs' => hi st' (List.mem_cons_of_mem _ hs')) h2
    refine ⟨?_, rfl⟩
    unfold convStmts
    show (M.bind (convStmt L st (liveInBlock ss lo)) _) s = _
    unfold M.bind
    rw [h1]
    simp only
    show (M.bind (convStmts L1 ss lo) _) s1 = _
    unfold M.bind
    rw [h2']
    rfl

theorem bodyFacts_of_ifBlock (S : Sem V) (fuel : Nat) (hConst : ∀ l, ∃ c, constOf S l = some c)
    (hId : ∀ v, S.op "" "Identity" [some v] [] = some [v])
    (hTL : ∀ l c b, constOf S l = some c → truthPV S (.py l) = some b → S.truth c = some b) {body : List Stmt} (F : VSet)
    (h : ifBlock body = true) (hF : TFree S (targetsBlock body)) : BodyFacts S fuel body F where
  run := fun hρ he => ifBlock_run S fuel body h hF hρ he
  sim := fun hfree hinv he hc => by
    obtain ⟨env', ev, inv, x, m⟩ := block_step S fuel hConst hId hTL body F h hfree hinv he hc
    exact ⟨env', EvFrom.of_eval ev, inv, x, m⟩
  cast := fun hc => ifBlock_cast _ body F h hc
  nobrk := by
    intro st hst
    clear hF
    induction body with
    | nil => cases hst
    | cons s0 ss ih =>
      simp only [ifBlock, Bool.and_eq_true] at h
      rcases List.mem_cons.mp hst with rfl | hm
      · exact ifStmt_not_brk h.1
      · exact ih h.2 hm
  toExp := fun {Z y} _ hx => by
    rw [exposed_eq_live_block body [] h]
    exact live_rel_block body (A := []) (X := Z) h (fun z hz => Or.inr hz) hx
  ofExp := fun y hy => by
    rw [exposed_eq_live_block body [] h] at hy
    exact live_mono_block h (fun _ hz => by cases hz) hy
  mono := fun hz hx => live_mono_block h hz hx

/-- What stays true of the Python store over the iterations of a loop, relative to the store `ρ` at entry. -/
structure Along (S : Sem V) (ρ ρk : Store V) (d : VSet) (i : Name) : Prop where
  allT : AllT S ρk
  dom : ∀ x, ρ x ≠ none → ρk x ≠ none
  frame : ∀ x, x ∉ d → x ≠ i → ρk x = ρ x

theorem for_step (S : Sem V) (fuel : Nat) (hConst : ∀ l, ∃ c, constOf S l = some c)
    (hId : ∀ v, S.op "" "Identity" [some v] [] = some [v]) (hT : S.truth (S.ofBool true) = some true)
    {i : Name} {b : Expr} {body : List Stmt} {lo d : VSet} {ρ ρ' : Store V} {L L' : Locals} {env : Env V}
    {s s' : St} {ns : List Node}
    (hNat : ∀ k c, constOf S (.int k) = some c → S.natOf c = some k.toNat)
    (hB : BodyFacts S fuel body (loopBodyLo (.for_ i true b body) lo))
    (hd : assignedBlock body = some d)
    (hid : i ∉ d) (hiF : S.attrLit i = none ∧ i ∉ S.pyVars) (hfree : FreeOf S L (targetsBlock body))
    (hF : ForLiveE i body lo (loopBodyLo (.for_ i true b body) lo))
    (hinv : Inv S (liveInStmt (.for_ i true b body) lo) ρ L env s)
    (he : evalStmt S fuel (.for_ i true b body) ρ = some (.normal ρ'))
    (h : convStmt L (.for_ i true b body) lo s = .ok ((L', ns), s')) :
    ∃ G env', evalNodes S G env ns = some env' ∧ Inv S lo ρ' L' env' s' ∧ Ext env env' s s' ∧ Mono s s' := by
  have hfr := convStmt_fresh L _ lo h
  have hsc := convStmt_scope L _ lo hinv.vis (fun x hx => hx) h
  generalize hFdef : loopBodyLo (.for_ i true b body) lo = F at hF h hB
  have hLin : liveInStmt (.for_ i true b body) lo = vunion F (usedVars b) := by
    rw [← hFdef]; simp [liveInStmt, loopBodyLo]
  -- source side
  unfold evalStmt at he
  simp only [Bool.not_true, Bool.false_eq_true, if_false] at he
  cases hbe : evalExpr S ρ b with
  | none => simp [hbe] at he
  | some bv =>
    simp only [hbe] at he
    cases hn : natPV S bv with
    | none => simp [hn] at he
    | some n =>
      simp only [hn] at he
      -- converter side
      unfold convStmt at h
      simp only [Bool.not_true, Bool.false_eq_true, if_false] at h
      cases hs : loopState body lo with
      | none => simp only [hs] at h; exact (failM_ok h).elim
      | some state =>
        simp only [hs] at h
        mbind h with p s1 h1
        obtain ⟨ob, ns0⟩ := p
        try dsimp only at h
        mbind h with condIn s2 h2
        have hnl := (forCondIn_ok h2).1
        have h2 := (forCondIn_ok h2).2
        have hilo : i ∉ lo := by
          intro hm
          have hc := List.contains_iff_mem.mpr hm
          rw [hnl] at hc
          cases hc
        mbind h with p s3 h3
        obtain ⟨L1, iv, ps⟩ := p
        try dsimp only at h
        mbind h with p s4 h4
        obtain ⟨L2, bn, bc⟩ := p
        try dsimp only at h
        mbind h with p s5 h5
        obtain ⟨L'', nl⟩ := p
        try dsimp only at h
        obtain ⟨q1, q2⟩ := pure_ok h
        cases q1; subst q2
        rw [hFdef] at h4
        obtain ⟨h4c, hbc⟩ := convLoopBody_nobrk body L1 F hB.nobrk h4
        subst hbc
        clear h4
        have h4 := h4c
        clear h4c
        unfold loopFinish at h5
        simp only [loopCondName] at h5
        mbind h5 with p s4a h5a
        obtain ⟨condOut, cns⟩ := p
        try dsimp only at h5
        obtain ⟨h5a', hcns⟩ := condNodes_for h5a
        subst hcns
        clear h5a
        have h5a := h5a'
        clear h5a'
        mbind h5 with p s4b h5b
        obtain ⟨os, ns3⟩ := p
        try dsimp only at h5
        mbind h5 with p s4c h5c
        obtain ⟨inits, ns4⟩ := p
        try dsimp only at h5
        mbind h5 with outs s6 h5d
        obtain ⟨q1, q2⟩ := pure_ok h5
        cases q1; subst q2
        have hfreeS : FreeOf S L state := by
          intro x hx
          have hxd : x ∈ d := by
            have hs' := hs
            unfold loopState at hs'
            rw [hd] at hs'
            simp only at hs'
            cases hs'
            exact (mem_vinter.mp hx).1
          exact hfree x (assignedBlock_sub_targets body hd x hxd)
        obtain ⟨rfl, rfl, hinits⟩ := loopInits_val L state hfreeS h5c
        -- the state variables
        have hstate : ∀ x, x ∈ state ↔ x ∈ d ∧ (x ∈ exposedBlock body [] ∨ x ∈ lo) := by
          intro x
          unfold loopState at hs
          rw [hd] at hs
          simp only at hs
          cases hs
          rw [mem_vinter, mem_vunion]
          rfl
        have histate : i ∉ state := fun hm => hid ((hstate i).mp hm).1
        have hstF : ∀ x, x ∈ state → x ∈ F := by
          intro x hx
          obtain ⟨hxd, hx'⟩ := (hstate x).mp hx
          have hxi : x ≠ i := fun he' => hid (he' ▸ hxd)
          rcases hx' with h' | h'
          · exact hF.back x (hB.ofExp x h') hxi
          · exact hF.lo_sub x h'
        have hFlive : ∀ y, y ∈ F → y ∈ liveInStmt (.for_ i true b body) lo := by
          intro y hy; rw [hLin]; exact mem_vunion.mpr (Or.inl hy)
        -- bound expression
        have hLb : ∀ y, y ∈ usedVars b → y ∈ liveInStmt (.for_ i true b body) lo := by
          intro y hy; rw [hLin]; exact mem_vunion.mpr (Or.inr hy)
        have hbe' : evalExpr S (restrict ρ (liveInStmt (.for_ i true b body) lo)) b = some bv := by
          rw [evalExpr_restrict S ρ _ b hLb]; exact hbe
        obtain ⟨env1, ev1, r1, x1, c1⟩ :=
          convExpr_sim S fuel hConst _ L hinv.noattr b _ hinv.vis hinv.rel hinv.cast hbe' h1
        -- the trip count: a tensor, or the constant of an integer literal
        obtain ⟨bvv, hob, hnc⟩ : ∃ c, env1 ob = some c ∧ S.natOf c = some n := by
          cases bv with
          | t v => exact ⟨v, r1.1, hn⟩
          | py l =>
            obtain ⟨⟨c, hc, hev⟩, _⟩ := r1
            cases l with
            | int k =>
              simp only [natPV] at hn
              cases hn
              exact ⟨c, hev, hNat k c hc⟩
            | flt _ _ => simp [natPV] at hn
            | bool _ => simp [natPV] at hn
            | ints _ => simp [natPV] at hn
        have k1 := convExpr_cast L b _ h1
        -- fresh names of the body inputs
        obtain ⟨hcfresh, hcused, hccast⟩ := genUnique_spec h2
        have k2 := genUnique_cast h2
        obtain ⟨hL1eq, hpslen, hc3, k3⟩ := loopEnter_parts h3
        simp only [loopScope, if_true] at hL1eq
        have hAM1 : AttrMono L L1 := by
          rw [hL1eq]
          exact (AttrMono.push L).trans ((AttrMono.bindVal _ i iv).trans (AttrMono.bindVals state ps _))
        have hAM2 : AttrMono L L2 := hAM1.trans (convStmts_attrMono _ _ _ h4)
        obtain ⟨m3, f3⟩ := loopEnter_fresh h3
        have hps_nodup : ps.Nodup := (List.nodup_cons.mp f3.1).2
        have hiv_ps : iv ∉ ps := (List.nodup_cons.mp f3.1).1
        have hcondIn2 : condIn ∈ s2.used := by rw [hcused]; exact List.mem_cons_self
        have hcond_ps : condIn ∉ ps := fun hm => (f3.2 condIn (List.mem_cons_of_mem _ hm)).1 hcondIn2
        have hiv_cond : iv ≠ condIn := fun he' => (f3.2 iv List.mem_cons_self).1 (he' ▸ hcondIn2)
        have hbi_fresh : ∀ n, n ∈ s1.used → n ∉ iv :: condIn :: ps := by
          intro n hn hm
          rcases List.mem_cons.mp hm with rfl | hm
          · exact (f3.2 _ List.mem_cons_self).1 (k2.mono _ hn)
          · rcases List.mem_cons.mp hm with rfl | hm
            · exact hcfresh hn
            · exact (f3.2 n (List.mem_cons_of_mem _ hm)).1 (k2.mono _ hn)
        have k03 : CastOK s s3 := k1.trans (k2.trans k3)
        have cs3 : CastSub s3 := k03.sub hinv.cast
        have hnotcast3 : ∀ r, r ∈ iv :: condIn :: ps → r ∉ s3.castable := by
          intro r hr hc
          rw [hc3, hccast] at hc
          exact hbi_fresh r (c1 r hc) hr
        -- scope at the start of the body
        have hcondIn3 : condIn ∈ s3.used := m3 _ hcondIn2
        have hiv3 : iv ∈ s3.used := (f3.2 iv List.mem_cons_self).2
        have hps3 : ∀ p, p ∈ ps → p ∈ s3.used := fun p hp => (f3.2 p (List.mem_cons_of_mem _ hp)).2
        obtain ⟨hvis1, _⟩ := loopEnter_scope (vis := s3.used) h3 (hinv.vis.mono k03.mono) hiv3 hps3
        have hna1 : NoAttrBind S L1 := by
          rw [hL1eq]
          exact NoAttrBind.bindValsT (NoAttrBind.bindVal hinv.noattr.push i iv hiF.1) _ _
            (TFree.of_free hinv.noattr hfreeS)
        have hlk_old : ∀ y, y ∉ state → y ≠ i → lookup L1 y = lookup L y := by
          intro y hy hyi
          rw [hL1eq, lookup_bindVals_notin _ _ _ hy, lookup_bindVar_ne hyi, lookup_push]
        have hlk_i : lookup L1 i = some (.val iv) := by
          rw [hL1eq, lookup_bindVals_notin _ _ _ histate, lookup_bindVar_same]
        generalize hcn : condNode none condIn condOut = cnode at h5b
        have hcnode : cnode = Node.op "" "Identity" [some condIn] [condOut] [] := by
          rw [← hcn]; rfl
        obtain ⟨hofresh, houused, hocast⟩ := genUnique_spec h5a
        have k4 := hB.cast h4
        have k4a := genUnique_cast h5a
        -- the invariant at the start of an iteration
        have mkInv : ∀ (k : Nat) (cnd : V) (st : List V) (ρk : Store V), Along S ρ ρk d i →
            All2 (fun v x => ρk x = some (PV.t v)) st state →
            Inv S (liveInBlock body F) (ρk.set i (.t (S.ofNat k))) L1
              (Env.setMany env1 (iv :: condIn :: ps) (S.ofNat k :: cnd :: st)) s3 := by
          intro k cnd st ρk hal hR
          have henv_old : ∀ m, m ∈ s1.used →
              (Env.setMany env1 (iv :: condIn :: ps) (S.ofNat k :: cnd :: st)) m = env1 m :=
            fun m hm => envSetMany_frame _ _ _ m (hbi_fresh m hm)
          have hextk : Ext env (Env.setMany env1 (iv :: condIn :: ps) (S.ofNat k :: cnd :: st)) s s3 :=
            ⟨fun m hm => by rw [henv_old m (k1.mono m hm)]; exact x1.envSame m hm, k03.ext⟩
          have hR' : All2 (fun v x => (ρk.set i (PV.t (S.ofNat k))) x = some (PV.t v)) st state :=
            hR.imp (fun v x hx hv => by
              unfold Store.set
              simp only [show x ≠ i from fun he' => histate (he' ▸ hx), if_false]
              exact hv)
          refine ⟨hvis1, hna1, cs3, hal.allT.set i (S.ofNat k), ?_, ?_⟩
          · intro y q hy
            obtain ⟨hyL, hyq⟩ := restrict_some.mp hy
            by_cases hyi : y = i
            · subst hyi
              simp only [Store.set, if_true] at hyq
              cases hyq
              refine ⟨iv, hlk_i, ?_, hnotcast3 iv List.mem_cons_self⟩
              rw [envSetMany_cons, envSetMany_frame _ _ _ iv (by
                intro hm
                rcases List.mem_cons.mp hm with h' | h'
                · exact hiv_cond h'
                · exact hiv_ps h')]
              exact Env.set_same _ _ _
            · by_cases hys : y ∈ state
              · obtain ⟨r, v, hl, hev, hρ, hrn⟩ := bind_set state ps st (bindVar ([] :: L) i (.val iv))
                  ((env1.set iv (S.ofNat k)).set condIn cnd) hps_nodup hpslen hR' y hys
                rw [hρ] at hyq
                cases hyq
                exact ⟨r, by rw [hL1eq]; exact hl, hev,
                  hnotcast3 r (List.mem_cons_of_mem _ (List.mem_cons_of_mem _ hrn))⟩
              · have hyE : y ∈ exposedBlock body [] ∨ y ∈ lo := by
                  rcases hB.toExp (fun z hz => hz) hyL with h' | h'
                  · exact Or.inl h'
                  · exact hF.sub_exposed y h'
                have hyd : y ∉ d := fun hdm => hys ((hstate y).mpr ⟨hdm, hyE⟩)
                have hyF : y ∈ F := hF.back y hyL hyi
                simp only [Store.set, hyi, if_false] at hyq
                rw [hal.frame y hyd hyi] at hyq
                obtain ⟨m, hl, hr⟩ := hinv.rel y q (restrict_some.mpr ⟨hFlive y hyF, hyq⟩)
                exact ⟨m, by rw [hlk_old y hys hyi]; exact hl, hr.ext (hinv.vis.lookup hl) hextk⟩
          · intro y m hl
            unfold Store.set
            by_cases hyi : y = i
            · simp [hyi]
            · simp only [hyi, if_false]
              by_cases hys : y ∈ state
              · obtain ⟨v, hv⟩ := all2_mem_right hR y hys
                rw [hv]; simp
              · rw [hlk_old y hys hyi] at hl
                exact hal.dom y (hinv.bound y m hl)
        -- the iterations
        have iter : ∀ (left k : Nat) (ρk ρf : Store V) (st : List V), Along S ρ ρk d i →
            All2 (fun v x => ρk x = some (PV.t v)) st state →
            iterFor S i (fun r => evalBlock S fuel body r) left k ρk = some (.normal ρf) →
            ∃ G0, ∀ (G a : Nat), G0 ≤ G → left + 1 ≤ a →
            ∃ stf, loopIter S (loopBodyFn S (fun e => evalNodes S G e (bn ++ cnode :: ns3)) env1
                (iv :: condIn :: ps) (condOut :: os)) a (some left) k (S.ofBool true) st = some stf
              ∧ All2 (fun v x => ρf x = some (PV.t v)) stf state ∧ Along S ρ ρf d i := by
          intro left
          induction left with
          | zero =>
            intro k ρk ρf st hal hR hit
            simp only [iterFor] at hit
            cases hit
            refine ⟨0, fun G a _ ha => ?_⟩
            cases a with
            | zero => omega
            | succ a' => exact ⟨st, by simp [loopIter], hR, hal⟩
          | succ left ih =>
            intro k ρk ρf st hal hR hit
            simp only [iterFor] at hit
            cases hbk : evalBlock S fuel body (ρk.set i (.t (S.ofNat k))) with
            | none => simp [hbk] at hit
            | some o1 =>
              obtain ⟨ρ1, rfl, run1⟩ := hB.run (hal.allT.set i (S.ofNat k)) hbk
              simp only [hbk] at hit
              have invk := mkInv k (S.ofBool true) st ρk hal hR
              obtain ⟨envB, ⟨G1, evB⟩, invB, xB, mB⟩ := hB.sim (hfree.mono hAM1) invk hbk h4
              -- the condition output
              have hcondB : envB condIn = some (S.ofBool true) := by
                rw [xB.envSame condIn hcondIn3, envSetMany_cons, envSetMany_cons,
                  envSetMany_frame _ _ _ condIn hcond_ps]
                exact Env.set_same _ _ _
              have evC : ∀ G, evalNodes S G envB [cnode] = some (envB.set condOut (S.ofBool true)) := by
                intro G
                rw [hcnode]
                exact evalNodes_op1 (vs := [some (S.ofBool true)])
                  (by simp [List.mapM_cons, Env.getOpt, hcondB]) (hId _)
              have xC : Ext envB (envB.set condOut (S.ofBool true)) s4 s4a :=
                ext_set_fresh _ _ hofresh (fun m _ => by rw [hocast])
              have cs4a : CastSub s4a := k4a.sub invB.cast
              have invC : Inv S F ρ1 L2 (envB.set condOut (S.ofBool true)) s4a :=
                invB.ext xC k4a.mono cs4a
              have hfO : ∀ pv, pv ∈ state → ∀ m, lookup L2 pv = some (.val m) →
                  ∃ v, (envB.set condOut (S.ofBool true)) m = some v ∧ ρ1 pv = some (.t v) := by
                intro pv hpv m hl
                cases hq : ρ1 pv with
                | none => exact absurd hq (invC.bound pv m hl)
                | some q =>
                  obtain ⟨v, rfl⟩ := invC.allT pv q hq (hfreeS pv hpv).2
                  obtain ⟨m', hl', hr⟩ := invC.rel pv _ (restrict_some.mpr ⟨hstF pv hpv, hq⟩)
                  rw [hl] at hl'
                  cases hl'
                  exact ⟨v, hr.1, rfl⟩
              obtain ⟨envD, evD0, xD, _, mD, aD⟩ :=
                loopOutputs_sim S 0 hId L2 state (bn ++ [cnode]) [condOut] invC.vis (hfreeS.mono hAM2) hfO h5b
              have evD : ∀ G, evalNodes S G (envB.set condOut (S.ofBool true)) ns3 = some envD :=
                fun G => evalNodes_mono S ns3 0 G _ _ (Nat.zero_le G) evD0
              obtain ⟨rs, hrs, hallD⟩ := outs_values aD
              have hcoD : envD condOut = some (S.ofBool true) := by
                rw [xD.envSame condOut (by rw [houused]; exact List.mem_cons_self)]
                exact Env.set_same _ _ _
              have hbodyk : ∀ G, G1 ≤ G → loopBodyFn S (fun e => evalNodes S G e (bn ++ cnode :: ns3)) env1
                  (iv :: condIn :: ps) (condOut :: os) k (S.ofBool true) st = some (S.ofBool true, rs) := by
                intro G hG
                unfold loopBodyFn
                have : evalNodes S G (Env.setMany env1 (iv :: condIn :: ps) (S.ofNat k :: S.ofBool true :: st))
                    (bn ++ cnode :: ns3) = some envD := by
                  have := evalNodes_seq (evB G hG) (evalNodes_seq (a := [cnode]) (evC G) (evD G))
                  simpa using this
                simp only [this, Env.getMany, List.mapM_cons, hcoD, hrs]
                rfl
              have hal1 : Along S ρ ρ1 d i :=
                ⟨run1.allT,
                 fun x hx => run1.dom x (by
                   unfold Store.set
                   by_cases hxi : x = i
                   · simp [hxi]
                   · simp only [hxi, if_false]; exact hal.dom x hx),
                 fun x hxd hxi => by
                   rw [run1.frame d hd x hxd]
                   unfold Store.set
                   simp only [hxi, if_false]
                   exact hal.frame x hxd hxi⟩
              obtain ⟨G0', hih⟩ := ih (k + 1) ρ1 ρf rs hal1 hallD hit
              refine ⟨max G1 G0', fun G a hG ha => ?_⟩
              cases a with
              | zero => omega
              | succ a' =>
                obtain ⟨stf, hit', hRf, halF⟩ := hih G a' (by omega) (by omega)
                refine ⟨stf, ?_, hRf, halF⟩
                unfold loopIter
                simp only [hT, hbodyk G (by omega)]
                simpa using hit'
        -- the values the loop starts with
        have hf0 : ∀ x, x ∈ state → ∀ m, lookup L x = some (.val m) →
            ∃ v, env1 m = some v ∧ ρ x = some (PV.t v) := by
          intro x hx m hl
          cases hq : ρ x with
          | none => exact absurd hq (hinv.bound x m hl)
          | some q =>
            obtain ⟨v, rfl⟩ := hinv.allT x q hq (hfreeS x hx).2
            obtain ⟨m', hl', hr⟩ := hinv.rel x _ (restrict_some.mpr ⟨hFlive x (hstF x hx), hq⟩)
            rw [hl] at hl'
            cases hl'
            exact ⟨v, by rw [x1.envSame m (hinv.vis.lookup hl)]; exact hr.1, rfl⟩
        obtain ⟨st0, hst0, hR0⟩ := inits_values hinits hf0
        have hal0 : Along S ρ ρ d i := ⟨hinv.allT, fun _ hx => hx, fun _ _ _ => rfl⟩
        obtain ⟨Gi, hiter⟩ := iter n 0 ρ ρ' st0 hal0 hR0 he
        obtain ⟨GG, hGG1, hGG2, hGG3⟩ : ∃ GG, fuel ≤ GG ∧ Gi ≤ GG ∧ n + 1 ≤ GG :=
          ⟨max (max fuel Gi) (n + 1), by omega, by omega, by omega⟩
        obtain ⟨stf, hloop, hRf, halF⟩ := hiter GG GG hGG2 hGG3
        -- the Loop node
        obtain ⟨m6, f6, l6⟩ := genUniques_fresh _ h5d
        have hc6 := genUniques_castable _ h5d
        have k36 : CastOK s3 s6 := k4.trans (k4a.trans ((loopOutputs_cast _ _ _ _ h5b).trans (genUniques_cast _ h5d)))
        have k06 : CastOK s s6 := k03.trans k36
        have hlen : stf.length = outs.length := by rw [all2_len hRf, l6]
        have evLoop : evalNodes S (GG + 1) env1
            [Node.loop (some ob) none inits outs (iv :: condIn :: ps) (bn ++ cnode :: ns3) (condOut :: os)]
            = some (env1.setMany outs stf) := by
          simp [evalNodes, evalNode, Env.getOpt, hob, Env.getMany, hst0, loopResult, loopTrip, hnc,
            loopCond0, hloop, hlen]
        have hnotin : ∀ m, m ∈ s.used → m ∉ outs := fun m hm hmo =>
          (f6.2 m hmo).1 ((k03.trans (k4.trans (k4a.trans (loopOutputs_cast _ _ _ _ h5b)))).mono m hm)
        have xfin : Ext env (env1.setMany outs stf) s s6 :=
          ⟨fun m hm => by rw [envSetMany_frame outs stf env1 m (hnotin m hm)]; exact x1.envSame m hm, k06.ext⟩
        refine ⟨GG + 1, env1.setMany outs stf, ?_, ?_, xfin, hfr.1⟩
        · have ev1' := evalNodes_mono S ns0 fuel (GG + 1) _ _
            (by omega) ev1
          simpa using evalNodes_seq ev1' evLoop
        · refine ⟨hsc.2.mono (fun y hy => after_in_used hfr hy), hinv.noattr.bindValsT _ _ (TFree.of_free hinv.noattr hfreeS),
            k06.sub hinv.cast, halF.allT, ?_, ?_⟩
          · intro y q hy
            obtain ⟨hm, hq⟩ := restrict_some.mp hy
            by_cases hys : y ∈ state
            · obtain ⟨r, v, hl, hev, hρ, hrn⟩ := bind_set state outs stf L env1 f6.1 l6 hRf y hys
              rw [hρ] at hq
              cases hq
              refine ⟨r, hl, hev, ?_⟩
              intro hcst
              rw [hc6] at hcst
              exact (f6.2 r hrn).1 ((k03.trans (k4.trans (k4a.trans (loopOutputs_cast _ _ _ _ h5b)))).sub
                hinv.cast r hcst)
            · have hyi : y ≠ i := fun he' => hilo (he' ▸ hm)
              have hyd : y ∉ d := fun hdm => hys ((hstate y).mpr ⟨hdm, Or.inr hm⟩)
              rw [halF.frame y hyd hyi] at hq
              obtain ⟨m', hl, hr⟩ := hinv.rel y q (restrict_some.mpr ⟨hFlive y (hF.lo_sub y hm), hq⟩)
              exact ⟨m', by rw [lookup_bindVals_notin _ _ _ hys]; exact hl, hr.ext (hinv.vis.lookup hl) xfin⟩
          · intro y m hl
            by_cases hys : y ∈ state
            · obtain ⟨v, hv⟩ := all2_mem_right hRf y hys
              rw [hv]; simp
            · rw [lookup_bindVals_notin _ _ _ hys] at hl
              exact halF.dom y (hinv.bound y m hl)

/-! ## Loop bodies that end in `if t: break` -/

/-- The trailing statement `if t: break`. -/
def brkTail (t : Name) : List Stmt := [.brk (.var t)]

theorem liveInBlock_append : ∀ (a b : List Stmt) (X : VSet),
    liveInBlock (a ++ b) X = liveInBlock a (liveInBlock b X) := by
  intro a
  induction a with
  | nil => intro b X; simp [liveInBlock]
  | cons st ss ih => intro b X; simp only [List.cons_append, liveInBlock, ih]

theorem exposedBlock_append : ∀ (a b : List Stmt) (X : VSet),
    exposedBlock (a ++ b) X = exposedBlock a (exposedBlock b X) := by
  intro a
  induction a with
  | nil => intro b X; simp [exposedBlock]
  | cons st ss ih => intro b X; simp only [List.cons_append, exposedBlock, ih]

theorem live_brk (pre : List Stmt) (t : Name) (X : VSet) :
    liveInBlock (pre ++ brkTail t) X = liveInBlock pre (vunion X [t]) := by
  rw [liveInBlock_append]; simp [brkTail, liveInBlock, liveInStmt, usedVars]

theorem exposed_brk {pre : List Stmt} (t : Name) (hp : ifBlock pre = true) :
    exposedBlock (pre ++ brkTail t) [] = liveInBlock (pre ++ brkTail t) [] := by
  rw [exposedBlock_append, live_brk, exposed_eq_live_block pre _ hp]
  simp [brkTail, exposedBlock, exposedStmt, usedVars]

theorem assigned_brk : ∀ (pre : List Stmt) (t : Name), assignedBlock (pre ++ brkTail t) = assignedBlock pre := by
  intro pre t
  induction pre with
  | nil => simp [brkTail, assignedBlock, assignedStmt, vunion]
  | cons st ss ih => simp only [List.cons_append, assignedBlock, ih]

theorem targets_brk : ∀ (pre : List Stmt) (t : Name), targetsBlock (pre ++ brkTail t) = targetsBlock pre ++ [t] := by
  intro pre t
  induction pre with
  | nil => simp [brkTail, targetsBlock, targetsStmt, bareVar]
  | cons st ss ih => simp only [List.cons_append, targetsBlock, ih, List.append_assoc]

theorem tfree_brk {S : Sem V} {pre : List Stmt} {t : Name} (hp : TFree S (targetsBlock pre))
    (ht : S.attrLit t = none ∧ t ∉ S.pyVars) : TFree S (targetsBlock (pre ++ brkTail t)) := by
  intro x hx
  rw [targets_brk] at hx
  rcases List.mem_append.mp hx with h' | h'
  · exact hp x h'
  · simp only [List.mem_singleton] at h'
    rw [h']; exact ht

theorem live_rel_brk {pre : List Stmt} {t : Name} (hp : ifBlock pre = true) {X : VSet} {y : Name}
    (h : y ∈ liveInBlock (pre ++ brkTail t) X) : y ∈ liveInBlock (pre ++ brkTail t) [] ∨ y ∈ X := by
  rw [live_brk] at h ⊢
  refine live_rel_block pre hp ?_ h
  intro z hz
  rcases mem_vunion.mp hz with h' | h'
  · exact Or.inr h'
  · exact Or.inl (mem_vunion.mpr (Or.inr h'))

theorem live_mono_brk {pre : List Stmt} {t : Name} (hp : ifBlock pre = true) {Z A : VSet} {y : Name}
    (hz : ∀ x, x ∈ Z → x ∈ A) (h : y ∈ liveInBlock (pre ++ brkTail t) Z) :
    y ∈ liveInBlock (pre ++ brkTail t) A := by
  rw [live_brk] at h ⊢
  refine live_mono_block hp ?_ h
  intro x hx
  rcases mem_vunion.mp hx with h' | h'
  · exact mem_vunion.mpr (Or.inl (hz x h'))
  · exact mem_vunion.mpr (Or.inr h')

/-- `ForLive` from the fixpoint test, for any body whose liveness splits (`if` fragment, with or without a
trailing break). -/
theorem forLive_of_stable' {i : Name} {ok : Bool} {b : Expr} {body : List Stmt} {lo : VSet}
    (hrel : ∀ (X : VSet) (y : Name), y ∈ liveInBlock body X → y ∈ liveInBlock body [] ∨ y ∈ X)
    (hst : stableStmt (.for_ i ok b body) lo = true) :
    ForLive i body lo (loopBodyLo (.for_ i ok b body) lo) := by
  unfold stableStmt at hst
  simp only [Bool.and_eq_true] at hst
  obtain ⟨⟨h1, h2⟩, _⟩ := hst
  refine ⟨vsubset_mem h1, ?_, ?_⟩
  · intro y hy hne
    exact vsubset_mem h2 y (mem_vdiff.mpr ⟨hy, by simpa using hne⟩)
  · simp only [loopBodyLo]
    apply fixIter_inv (fun X => ∀ y, y ∈ X → y ∈ liveInBlock body [] ∨ y ∈ lo)
    · intro X hX y hy
      rcases mem_vunion.mp hy with h | h
      · obtain ⟨h, _⟩ := mem_vdiff.mp h
        rcases hrel X y h with h' | h'
        · exact Or.inl h'
        · exact hX y h'
      · exact Or.inr h
    · intro y hy; exact Or.inr hy

theorem evalBlock_append (S : Sem V) (fuel : Nat) : ∀ (a b : List Stmt) (ρ : Store V),
    evalBlock S fuel (a ++ b) ρ =
      match evalBlock S fuel a ρ with
      | some (.normal ρ') => evalBlock S fuel b ρ'
      | other => other := by
  intro a
  induction a with
  | nil => intro b ρ; simp [evalBlock]
  | cons st ss ih =>
    intro b ρ
    simp only [List.cons_append]
    rw [evalBlock, evalBlock]
    cases hs : evalStmt S fuel st ρ with
    | none => rfl
    | some o =>
      cases o with
      | normal ρ1 => simp only []; exact ih b ρ1
      | broke ρ1 => rfl
      | returned vs => rfl

/-- One run of a body `pre; if t: break`. -/
theorem brkBody_run (S : Sem V) (fuel : Nat) {pre : List Stmt} {t : Name} (hp : ifBlock pre = true)
    (hF : TFree S (targetsBlock (pre ++ brkTail t)))
    {ρ : Store V} {o : Outcome V} (hρ : AllT S ρ)
    (h : evalBlock S fuel (pre ++ brkTail t) ρ = some o) :
    ∃ ρ1 v bk, evalBlock S fuel pre ρ = some (.normal ρ1) ∧ RunOK S ρ ρ1 (assignedBlock pre) ∧
      ρ1 t = some (.t v) ∧ S.truth v = some bk ∧ o = (if bk then .broke ρ1 else .normal ρ1) := by
  rw [evalBlock_append] at h
  cases hb : evalBlock S fuel pre ρ with
  | none => simp [hb] at h
  | some o1 =>
    have hFp : TFree S (targetsBlock pre) := hF.sub (fun x hx => by rw [targets_brk]; exact List.mem_append_left _ hx)
    have htl : S.attrLit t = none := (hF t (by rw [targets_brk]; simp)).1
    have htP : t ∉ S.pyVars := (hF t (by rw [targets_brk]; simp)).2
    obtain ⟨ρ1, rfl, run1⟩ := ifBlock_run S fuel pre hp hFp hρ hb
    simp only [hb, brkTail, evalBlock, evalStmt, evalExpr_var_of_none htl] at h
    cases ht : ρ1 t with
    | none => simp [ht] at h
    | some cv =>
      obtain ⟨v, rfl⟩ := run1.allT t cv ht htP
      simp only [ht, truthPV] at h
      cases hv : S.truth v with
      | none => simp [hv] at h
      | some bk =>
        simp only [hv] at h
        refine ⟨ρ1, v, bk, rfl, run1, ht, hv, ?_⟩
        cases bk with
        | true => simp only [if_true] at h ⊢; injection h with h; exact h.symm
        | false => simp only [Bool.false_eq_true, if_false] at h ⊢; injection h with h; exact h.symm

theorem iterForB_run (S : Sem V) (fuel : Nat) (i : Name) {pre : List Stmt} {t : Name} (hi : ifBlock pre = true)
    (hF : TFree S (targetsBlock (pre ++ brkTail t))) :
    ∀ (left k : Nat) {ρ : Store V} {o : Outcome V}, AllT S ρ →
      iterFor S i (fun r => evalBlock S fuel (pre ++ brkTail t) r) left k ρ = some o → ∃ ρ', o = .normal ρ' := by
  intro left
  induction left with
  | zero =>
    intro k ρ o hρ h
    simp only [iterFor] at h
    cases h
    exact ⟨ρ, rfl⟩
  | succ n ih =>
    intro k ρ o hρ h
    simp only [iterFor] at h
    cases hb : evalBlock S fuel (pre ++ brkTail t) (ρ.set i (.t (S.ofNat k))) with
    | none => simp [hb] at h
    | some o1 =>
      obtain ⟨ρ1, v, bk, _, run1, _, _, rfl⟩ := brkBody_run S fuel hi hF (hρ.set i (S.ofNat k)) hb
      simp only [hb] at h
      cases bk with
      | true => simp only [if_true] at h; cases h; exact ⟨ρ1, rfl⟩
      | false => simp only [Bool.false_eq_true, if_false] at h; exact ih (k + 1) run1.allT h

theorem convLoopBody_brk (t : Name) : ∀ (pre : List Stmt) (L : Locals) (lo : VSet) {L' : Locals}
    {ns : List Node} {bc : Option Name} {s s' : St}, ifBlock pre = true →
    convLoopBody L (pre ++ brkTail t) lo s = .ok ((L', ns, bc), s') →
    convStmts L pre (vunion lo [t]) s = .ok ((L', ns), s') ∧
      ∃ n, bc = some n ∧ currentScopeFind L' t = some (.val n) := by
  intro pre
  induction pre with
  | nil =>
    intro L lo L' ns bc s s' _ h
    simp only [List.nil_append, brkTail] at h
    unfold convLoopBody at h
    simp only [List.isEmpty_nil, Bool.not_true, Bool.false_eq_true, if_false] at h
    cases hc : currentScopeFind L t with
    | none => simp only [hc] at h; exact (failM_ok h).elim
    | some bnd =>
      cases bnd with
      | attr p ty => simp only [hc] at h; exact (failM_ok h).elim
      | val n =>
        simp only [hc] at h
        obtain ⟨e1, e2⟩ := pure_ok h
        cases e1; subst e2
        exact ⟨by simp [convStmts, pure, M.pure], n, rfl, hc⟩
  | cons st ss ih =>
    intro L lo L' ns bc s s' hi h
    simp only [ifBlock, Bool.and_eq_true] at hi
    simp only [List.cons_append] at h
    rw [convLoopBody_cons_nonbrk L st (ss ++ brkTail t) lo (ifStmt_not_brk hi.1)] at h
    mbind h with p s1 h1
    obtain ⟨L1, ns1⟩ := p
    try dsimp only at h
    mbind h with p s2 h2
    obtain ⟨L2, ns2, bc'⟩ := p
    try dsimp only at h
    obtain ⟨e1, e2⟩ := pure_ok h
    cases e1; subst e2
    obtain ⟨h2', n, hbc, hcur⟩ := ih L1 lo hi.2 h2
    refine ⟨?_, n, hbc, hcur⟩
    rw [live_brk] at h1
    unfold convStmts
    show (M.bind (convStmt L st (liveInBlock ss (vunion lo [t]))) _) s = _
    unfold M.bind
    rw [h1]
    simp only
    show (M.bind (convStmts L1 ss (vunion lo [t])) _) s1 = _
    unfold M.bind
    rw [h2']
    rfl

/-- The same for a body `pre; if t: break`: `cond_out = Not(t)`, and the iteration stops after the first body run
that leaves `t` true, keeping that run's state. -/
theorem forB_step (S : Sem V) (fuel : Nat) (hConst : ∀ l, ∃ c, constOf S l = some c)
    (hId : ∀ v, S.op "" "Identity" [some v] [] = some [v])
    (hTL : ∀ l c b, constOf S l = some c → truthPV S (.py l) = some b → S.truth c = some b) (hT : S.truth (S.ofBool true) = some true)
    (hNot : ∀ v bk, S.truth v = some bk → ∃ w, S.op "" "Not" [some v] [] = some [w] ∧ S.truth w = some (!bk))
    {i : Name} {b : Expr} {pre body : List Stmt} {t : Name} {lo d : VSet} {ρ ρ' : Store V} {L L' : Locals}
    {env : Env V} {s s' : St} {ns : List Node} (hbd : body = pre ++ brkTail t)
    (hNat : ∀ k c, constOf S (.int k) = some c → S.natOf c = some k.toNat) (hp : ifBlock pre = true) (hd : assignedBlock pre = some d)
    (hid : i ∉ d) (hiF : S.attrLit i = none ∧ i ∉ S.pyVars) (htAttr : S.attrLit t = none ∧ t ∉ S.pyVars) (hfree : FreeOf S L (targetsBlock pre))
    (hF : ForLive i body lo (loopBodyLo (.for_ i true b body) lo))
    (hinv : Inv S (liveInStmt (.for_ i true b body) lo) ρ L env s)
    (he : evalStmt S fuel (.for_ i true b body) ρ = some (.normal ρ'))
    (h : convStmt L (.for_ i true b body) lo s = .ok ((L', ns), s')) :
    ∃ G env', evalNodes S G env ns = some env' ∧ Inv S lo ρ' L' env' s' ∧ Ext env env' s s' ∧ Mono s s' := by
  have hlive : ∀ X, liveInBlock body X = liveInBlock pre (vunion X [t]) := by
    intro X; rw [hbd]; exact live_brk pre t X
  have hexp : exposedBlock body [] = liveInBlock body [] := by rw [hbd]; exact exposed_brk t hp
  have hdb : assignedBlock body = some d := by rw [hbd, assigned_brk]; exact hd
  have hrel : ∀ (X : VSet) (y : Name), y ∈ liveInBlock body X → y ∈ liveInBlock body [] ∨ y ∈ X := by
    intro X y hy; rw [hbd] at hy ⊢; exact live_rel_brk hp hy
  have hmono : ∀ {Z A : VSet} {y : Name}, (∀ x, x ∈ Z → x ∈ A) → y ∈ liveInBlock body Z →
      y ∈ liveInBlock body A := by
    intro Z A y hz hy; rw [hbd] at hy ⊢; exact live_mono_brk hp hz hy
  have hfr := convStmt_fresh L _ lo h
  have hsc := convStmt_scope L _ lo hinv.vis (fun x hx => hx) h
  generalize hFdef : loopBodyLo (.for_ i true b body) lo = F at hF h
  have hLin : liveInStmt (.for_ i true b body) lo = vunion F (usedVars b) := by
    rw [← hFdef]; simp [liveInStmt, loopBodyLo]
  -- source side
  unfold evalStmt at he
  simp only [Bool.not_true, Bool.false_eq_true, if_false] at he
  cases hbe : evalExpr S ρ b with
  | none => simp [hbe] at he
  | some bv =>
    simp only [hbe] at he
    cases hn : natPV S bv with
    | none => simp [hn] at he
    | some n =>
      simp only [hn] at he
      -- converter side
      unfold convStmt at h
      simp only [Bool.not_true, Bool.false_eq_true, if_false] at h
      cases hs : loopState body lo with
      | none => simp only [hs] at h; exact (failM_ok h).elim
      | some state =>
        simp only [hs] at h
        mbind h with p s1 h1
        obtain ⟨ob, ns0⟩ := p
        try dsimp only at h
        mbind h with condIn s2 h2
        have hnl := (forCondIn_ok h2).1
        have h2 := (forCondIn_ok h2).2
        have hilo : i ∉ lo := by
          intro hm
          have hc := List.contains_iff_mem.mpr hm
          rw [hnl] at hc
          cases hc
        mbind h with p s3 h3
        obtain ⟨L1, iv, ps⟩ := p
        try dsimp only at h
        mbind h with p s4 h4
        obtain ⟨L2, bn, bc⟩ := p
        try dsimp only at h
        mbind h with p s5 h5
        obtain ⟨L'', nl⟩ := p
        try dsimp only at h
        obtain ⟨q1, q2⟩ := pure_ok h
        cases q1; subst q2
        rw [hFdef] at h4
        rw [hbd] at h4
        obtain ⟨h4c, nb, hbc, hcur⟩ := convLoopBody_brk t pre L1 F hp h4
        subst hbc
        clear h4
        have h4 := h4c
        clear h4c
        unfold loopFinish at h5
        simp only [loopCondName] at h5
        mbind h5 with p s4a h5a
        obtain ⟨condOut, cns⟩ := p
        try dsimp only at h5
        obtain ⟨h5a', hcns⟩ := condNodes_for h5a
        subst hcns
        clear h5a
        have h5a := h5a'
        clear h5a'
        mbind h5 with p s4b h5b
        obtain ⟨os, ns3⟩ := p
        try dsimp only at h5
        mbind h5 with p s4c h5c
        obtain ⟨inits, ns4⟩ := p
        try dsimp only at h5
        mbind h5 with outs s6 h5d
        obtain ⟨q1, q2⟩ := pure_ok h5
        cases q1; subst q2
        have hfreeS : FreeOf S L state := by
          intro x hx
          have hxd : x ∈ d := by
            have hs' := hs
            unfold loopState at hs'
            rw [hdb] at hs'
            simp only at hs'
            cases hs'
            exact (mem_vinter.mp hx).1
          exact hfree x (assignedBlock_sub_targets pre hd x hxd)
        obtain ⟨rfl, rfl, hinits⟩ := loopInits_val L state hfreeS h5c
        -- the state variables
        have hstate : ∀ x, x ∈ state ↔ x ∈ d ∧ (x ∈ liveInBlock body [] ∨ x ∈ lo) := by
          intro x
          unfold loopState at hs
          rw [hdb] at hs
          simp only at hs
          cases hs
          rw [mem_vinter, mem_vunion]
          unfold exposedUses
          rw [hexp]
        have histate : i ∉ state := fun hm => hid ((hstate i).mp hm).1
        have hstF : ∀ x, x ∈ state → x ∈ F := by
          intro x hx
          obtain ⟨hxd, hx'⟩ := (hstate x).mp hx
          have hxi : x ≠ i := fun he' => hid (he' ▸ hxd)
          rcases hx' with h' | h'
          · exact hF.back x (hmono (fun _ hy => by cases hy) h') hxi
          · exact hF.lo_sub x h'
        have hFlive : ∀ y, y ∈ F → y ∈ liveInStmt (.for_ i true b body) lo := by
          intro y hy; rw [hLin]; exact mem_vunion.mpr (Or.inl hy)
        -- bound expression
        have hLb : ∀ y, y ∈ usedVars b → y ∈ liveInStmt (.for_ i true b body) lo := by
          intro y hy; rw [hLin]; exact mem_vunion.mpr (Or.inr hy)
        have hbe' : evalExpr S (restrict ρ (liveInStmt (.for_ i true b body) lo)) b = some bv := by
          rw [evalExpr_restrict S ρ _ b hLb]; exact hbe
        obtain ⟨env1, ev1, r1, x1, c1⟩ :=
          convExpr_sim S fuel hConst _ L hinv.noattr b _ hinv.vis hinv.rel hinv.cast hbe' h1
        -- the trip count: a tensor, or the constant of an integer literal
        obtain ⟨bvv, hob, hnc⟩ : ∃ c, env1 ob = some c ∧ S.natOf c = some n := by
          cases bv with
          | t v => exact ⟨v, r1.1, hn⟩
          | py l =>
            obtain ⟨⟨c, hc, hev⟩, _⟩ := r1
            cases l with
            | int k =>
              simp only [natPV] at hn
              cases hn
              exact ⟨c, hev, hNat k c hc⟩
            | flt _ _ => simp [natPV] at hn
            | bool _ => simp [natPV] at hn
            | ints _ => simp [natPV] at hn
        have k1 := convExpr_cast L b _ h1
        -- fresh names of the body inputs
        obtain ⟨hcfresh, hcused, hccast⟩ := genUnique_spec h2
        have k2 := genUnique_cast h2
        obtain ⟨hL1eq, hpslen, hc3, k3⟩ := loopEnter_parts h3
        simp only [loopScope, if_true] at hL1eq
        have hAM1 : AttrMono L L1 := by
          rw [hL1eq]
          exact (AttrMono.push L).trans ((AttrMono.bindVal _ i iv).trans (AttrMono.bindVals state ps _))
        have hAM2 : AttrMono L L2 := hAM1.trans (convStmts_attrMono _ _ _ h4)
        obtain ⟨m3, f3⟩ := loopEnter_fresh h3
        have hps_nodup : ps.Nodup := (List.nodup_cons.mp f3.1).2
        have hiv_ps : iv ∉ ps := (List.nodup_cons.mp f3.1).1
        have hcondIn2 : condIn ∈ s2.used := by rw [hcused]; exact List.mem_cons_self
        have hcond_ps : condIn ∉ ps := fun hm => (f3.2 condIn (List.mem_cons_of_mem _ hm)).1 hcondIn2
        have hiv_cond : iv ≠ condIn := fun he' => (f3.2 iv List.mem_cons_self).1 (he' ▸ hcondIn2)
        have hbi_fresh : ∀ n, n ∈ s1.used → n ∉ iv :: condIn :: ps := by
          intro n hn hm
          rcases List.mem_cons.mp hm with rfl | hm
          · exact (f3.2 _ List.mem_cons_self).1 (k2.mono _ hn)
          · rcases List.mem_cons.mp hm with rfl | hm
            · exact hcfresh hn
            · exact (f3.2 n (List.mem_cons_of_mem _ hm)).1 (k2.mono _ hn)
        have k03 : CastOK s s3 := k1.trans (k2.trans k3)
        have cs3 : CastSub s3 := k03.sub hinv.cast
        have hnotcast3 : ∀ r, r ∈ iv :: condIn :: ps → r ∉ s3.castable := by
          intro r hr hc
          rw [hc3, hccast] at hc
          exact hbi_fresh r (c1 r hc) hr
        -- scope at the start of the body
        have hcondIn3 : condIn ∈ s3.used := m3 _ hcondIn2
        have hiv3 : iv ∈ s3.used := (f3.2 iv List.mem_cons_self).2
        have hps3 : ∀ p, p ∈ ps → p ∈ s3.used := fun p hp => (f3.2 p (List.mem_cons_of_mem _ hp)).2
        obtain ⟨hvis1, _⟩ := loopEnter_scope (vis := s3.used) h3 (hinv.vis.mono k03.mono) hiv3 hps3
        have hna1 : NoAttrBind S L1 := by
          rw [hL1eq]
          exact NoAttrBind.bindValsT (NoAttrBind.bindVal hinv.noattr.push i iv hiF.1) _ _
            (TFree.of_free hinv.noattr hfreeS)
        have hlk_old : ∀ y, y ∉ state → y ≠ i → lookup L1 y = lookup L y := by
          intro y hy hyi
          rw [hL1eq, lookup_bindVals_notin _ _ _ hy, lookup_bindVar_ne hyi, lookup_push]
        have hlk_i : lookup L1 i = some (.val iv) := by
          rw [hL1eq, lookup_bindVals_notin _ _ _ histate, lookup_bindVar_same]
        generalize hcn : condNode (some nb) condIn condOut = cnode at h5b
        have hcnode : cnode = Node.op "" "Not" [some nb] [condOut] [] := by
          rw [← hcn]; rfl
        obtain ⟨hofresh, houused, hocast⟩ := genUnique_spec h5a
        have k4 := ifBlock_cast L1 pre (vunion F [t]) hp h4
        have k4a := genUnique_cast h5a
        -- the invariant at the start of an iteration
        have mkInv : ∀ (k : Nat) (cnd : V) (st : List V) (ρk : Store V), Along S ρ ρk d i →
            All2 (fun v x => ρk x = some (PV.t v)) st state →
            Inv S (liveInBlock body F) (ρk.set i (.t (S.ofNat k))) L1
              (Env.setMany env1 (iv :: condIn :: ps) (S.ofNat k :: cnd :: st)) s3 := by
          intro k cnd st ρk hal hR
          have henv_old : ∀ m, m ∈ s1.used →
              (Env.setMany env1 (iv :: condIn :: ps) (S.ofNat k :: cnd :: st)) m = env1 m :=
            fun m hm => envSetMany_frame _ _ _ m (hbi_fresh m hm)
          have hextk : Ext env (Env.setMany env1 (iv :: condIn :: ps) (S.ofNat k :: cnd :: st)) s s3 :=
            ⟨fun m hm => by rw [henv_old m (k1.mono m hm)]; exact x1.envSame m hm, k03.ext⟩
          have hR' : All2 (fun v x => (ρk.set i (PV.t (S.ofNat k))) x = some (PV.t v)) st state :=
            hR.imp (fun v x hx hv => by
              unfold Store.set
              simp only [show x ≠ i from fun he' => histate (he' ▸ hx), if_false]
              exact hv)
          refine ⟨hvis1, hna1, cs3, hal.allT.set i (S.ofNat k), ?_, ?_⟩
          · intro y q hy
            obtain ⟨hyL, hyq⟩ := restrict_some.mp hy
            by_cases hyi : y = i
            · subst hyi
              simp only [Store.set, if_true] at hyq
              cases hyq
              refine ⟨iv, hlk_i, ?_, hnotcast3 iv List.mem_cons_self⟩
              rw [envSetMany_cons, envSetMany_frame _ _ _ iv (by
                intro hm
                rcases List.mem_cons.mp hm with h' | h'
                · exact hiv_cond h'
                · exact hiv_ps h')]
              exact Env.set_same _ _ _
            · by_cases hys : y ∈ state
              · obtain ⟨r, v, hl, hev, hρ, hrn⟩ := bind_set state ps st (bindVar ([] :: L) i (.val iv))
                  ((env1.set iv (S.ofNat k)).set condIn cnd) hps_nodup hpslen hR' y hys
                rw [hρ] at hyq
                cases hyq
                exact ⟨r, by rw [hL1eq]; exact hl, hev,
                  hnotcast3 r (List.mem_cons_of_mem _ (List.mem_cons_of_mem _ hrn))⟩
              · have hyE : y ∈ liveInBlock body [] ∨ y ∈ lo := by
                  rcases hrel F y hyL with h' | h'
                  · exact Or.inl h'
                  · exact hF.sub_exposed y h'
                have hyd : y ∉ d := fun hdm => hys ((hstate y).mpr ⟨hdm, hyE⟩)
                have hyF : y ∈ F := hF.back y hyL hyi
                simp only [Store.set, hyi, if_false] at hyq
                rw [hal.frame y hyd hyi] at hyq
                obtain ⟨m, hl, hr⟩ := hinv.rel y q (restrict_some.mpr ⟨hFlive y hyF, hyq⟩)
                exact ⟨m, by rw [hlk_old y hys hyi]; exact hl, hr.ext (hinv.vis.lookup hl) hextk⟩
          · intro y m hl
            unfold Store.set
            by_cases hyi : y = i
            · simp [hyi]
            · simp only [hyi, if_false]
              by_cases hys : y ∈ state
              · obtain ⟨v, hv⟩ := all2_mem_right hR y hys
                rw [hv]; simp
              · rw [hlk_old y hys hyi] at hl
                exact hal.dom y (hinv.bound y m hl)
        -- the iterations
        have htF : t ∈ vunion F [t] := mem_vunion.mpr (Or.inr List.mem_cons_self)
        have iter : ∀ (left k : Nat) (ρk ρf : Store V) (st : List V) (cnd : V), S.truth cnd = some true →
            Along S ρ ρk d i → All2 (fun v x => ρk x = some (PV.t v)) st state →
            iterFor S i (fun r => evalBlock S fuel body r) left k ρk = some (.normal ρf) →
            ∀ (G a : Nat), fuel ≤ G → left + 1 ≤ a →
            ∃ stf, loopIter S (loopBodyFn S (fun e => evalNodes S G e (bn ++ cnode :: ns3)) env1
                (iv :: condIn :: ps) (condOut :: os)) a (some left) k cnd st = some stf
              ∧ All2 (fun v x => ρf x = some (PV.t v)) stf state ∧ Along S ρ ρf d i := by
          intro left
          induction left with
          | zero =>
            intro k ρk ρf st cnd _ hal hR hit G a _ ha
            simp only [iterFor] at hit
            cases hit
            cases a with
            | zero => omega
            | succ a' => exact ⟨st, by simp [loopIter], hR, hal⟩
          | succ left ih =>
            intro k ρk ρf st cnd hcnd hal hR hit G a hG ha
            simp only [iterFor] at hit
            cases hbk : evalBlock S fuel body (ρk.set i (.t (S.ofNat k))) with
            | none => simp [hbk] at hit
            | some o1 =>
              obtain ⟨ρ1, v, bk, hpre, run1, ht, hv, ho1⟩ :=
                brkBody_run S fuel hp (tfree_brk (TFree.of_free hinv.noattr hfree) htAttr) (hal.allT.set i (S.ofNat k)) (hbd ▸ hbk)
              simp only [hbk] at hit
              have invk := mkInv k cnd st ρk hal hR
              rw [hlive F] at invk
              obtain ⟨envB, evB, invB, xB, mB⟩ :=
                block_step S fuel hConst hId hTL pre (vunion F [t]) hp (hfree.mono hAM1) invk hpre h4
              have evBG := evalNodes_mono S bn fuel G _ _ hG evB
              -- the break condition and the condition output
              obtain ⟨m', hl', hr'⟩ := invB.rel t _ (restrict_some.mpr ⟨htF, ht⟩)
              rw [current_lookup hcur] at hl'
              cases hl'
              obtain ⟨w, hop, hw⟩ := hNot v bk hv
              have evC : evalNodes S G envB [cnode] = some (envB.set condOut w) := by
                rw [hcnode]
                exact evalNodes_op1 (vs := [some v]) (by simp [List.mapM_cons, Env.getOpt, hr'.1]) hop
              have xC : Ext envB (envB.set condOut w) s4 s4a :=
                ext_set_fresh _ _ hofresh (fun m _ => by rw [hocast])
              have cs4a : CastSub s4a := k4a.sub invB.cast
              have invC : Inv S (vunion F [t]) ρ1 L2 (envB.set condOut w) s4a :=
                invB.ext xC k4a.mono cs4a
              have hfO : ∀ pv, pv ∈ state → ∀ m, lookup L2 pv = some (.val m) →
                  ∃ v, (envB.set condOut w) m = some v ∧ ρ1 pv = some (.t v) := by
                intro pv hpv m hl
                cases hq : ρ1 pv with
                | none => exact absurd hq (invC.bound pv m hl)
                | some q =>
                  obtain ⟨v', rfl⟩ := invC.allT pv q hq (hfreeS pv hpv).2
                  obtain ⟨m2, hl2, hr2⟩ := invC.rel pv _
                    (restrict_some.mpr ⟨mem_vunion.mpr (Or.inl (hstF pv hpv)), hq⟩)
                  rw [hl] at hl2
                  cases hl2
                  exact ⟨v', hr2.1, rfl⟩
              obtain ⟨envD, evD, xD, _, mD, aD⟩ :=
                loopOutputs_sim S G hId L2 state (bn ++ [cnode]) [condOut] invC.vis (hfreeS.mono hAM2) hfO h5b
              obtain ⟨rs, hrs, hallD⟩ := outs_values aD
              have hcoD : envD condOut = some w := by
                rw [xD.envSame condOut (by rw [houused]; exact List.mem_cons_self)]
                exact Env.set_same _ _ _
              have hbodyk : loopBodyFn S (fun e => evalNodes S G e (bn ++ cnode :: ns3)) env1
                  (iv :: condIn :: ps) (condOut :: os) k cnd st = some (w, rs) := by
                unfold loopBodyFn
                have : evalNodes S G (Env.setMany env1 (iv :: condIn :: ps) (S.ofNat k :: cnd :: st))
                    (bn ++ cnode :: ns3) = some envD := by
                  have := evalNodes_seq evBG (evalNodes_seq (a := [cnode]) evC evD)
                  simpa using this
                simp only [this, Env.getMany, List.mapM_cons, hcoD, hrs]
                rfl
              have hal1 : Along S ρ ρ1 d i :=
                ⟨run1.allT,
                 fun x hx => run1.dom x (by
                   unfold Store.set
                   by_cases hxi : x = i
                   · simp [hxi]
                   · simp only [hxi, if_false]; exact hal.dom x hx),
                 fun x hxd hxi => by
                   rw [run1.frame d hd x hxd]
                   unfold Store.set
                   simp only [hxi, if_false]
                   exact hal.frame x hxd hxi⟩
              cases a with
              | zero => omega
              | succ a' =>
                cases bk with
                | true =>
                  -- `break`: the loop ends with this run's state
                  subst ho1
                  simp only [if_true] at hit
                  cases hit
                  refine ⟨rs, ?_, hallD, hal1⟩
                  unfold loopIter
                  simp only [hcnd, hbodyk]
                  cases a' with
                  | zero => omega
                  | succ a'' =>
                    unfold loopIter
                    cases left with
                    | zero => simp
                    | succ l' => simp [hw]
                | false =>
                  subst ho1
                  simp only [Bool.false_eq_true, if_false] at hit
                  obtain ⟨stf, hit', hRf, halF⟩ :=
                    ih (k + 1) ρ1 ρf rs w (by simpa using hw) hal1 hallD hit G a' hG (by omega)
                  refine ⟨stf, ?_, hRf, halF⟩
                  unfold loopIter
                  simp only [hcnd, hbodyk]
                  simpa using hit'
        -- the values the loop starts with
        have hf0 : ∀ x, x ∈ state → ∀ m, lookup L x = some (.val m) →
            ∃ v, env1 m = some v ∧ ρ x = some (PV.t v) := by
          intro x hx m hl
          cases hq : ρ x with
          | none => exact absurd hq (hinv.bound x m hl)
          | some q =>
            obtain ⟨v, rfl⟩ := hinv.allT x q hq (hfreeS x hx).2
            obtain ⟨m', hl', hr⟩ := hinv.rel x _ (restrict_some.mpr ⟨hFlive x (hstF x hx), hq⟩)
            rw [hl] at hl'
            cases hl'
            exact ⟨v, by rw [x1.envSame m (hinv.vis.lookup hl)]; exact hr.1, rfl⟩
        obtain ⟨st0, hst0, hR0⟩ := inits_values hinits hf0
        have hal0 : Along S ρ ρ d i := ⟨hinv.allT, fun _ hx => hx, fun _ _ _ => rfl⟩
        obtain ⟨stf, hloop, hRf, halF⟩ :=
          iter n 0 ρ ρ' st0 (S.ofBool true) hT hal0 hR0 he (max fuel (n + 1)) (max fuel (n + 1)) (Nat.le_max_left _ _)
            (Nat.le_max_right _ _)
        -- the Loop node
        obtain ⟨m6, f6, l6⟩ := genUniques_fresh _ h5d
        have hc6 := genUniques_castable _ h5d
        have k36 : CastOK s3 s6 := k4.trans (k4a.trans ((loopOutputs_cast _ _ _ _ h5b).trans (genUniques_cast _ h5d)))
        have k06 : CastOK s s6 := k03.trans k36
        have hlen : stf.length = outs.length := by rw [all2_len hRf, l6]
        have evLoop : evalNodes S (max fuel (n + 1) + 1) env1
            [Node.loop (some ob) none inits outs (iv :: condIn :: ps) (bn ++ cnode :: ns3) (condOut :: os)]
            = some (env1.setMany outs stf) := by
          simp [evalNodes, evalNode, Env.getOpt, hob, Env.getMany, hst0, loopResult, loopTrip, hnc,
            loopCond0, hloop, hlen]
        have hnotin : ∀ m, m ∈ s.used → m ∉ outs := fun m hm hmo =>
          (f6.2 m hmo).1 ((k03.trans (k4.trans (k4a.trans (loopOutputs_cast _ _ _ _ h5b)))).mono m hm)
        have xfin : Ext env (env1.setMany outs stf) s s6 :=
          ⟨fun m hm => by rw [envSetMany_frame outs stf env1 m (hnotin m hm)]; exact x1.envSame m hm, k06.ext⟩
        refine ⟨max fuel (n + 1) + 1, env1.setMany outs stf, ?_, ?_, xfin, hfr.1⟩
        · have ev1' := evalNodes_mono S ns0 fuel (max fuel (n + 1) + 1) _ _
            (Nat.le_succ_of_le (Nat.le_max_left _ _)) ev1
          simpa using evalNodes_seq ev1' evLoop
        · refine ⟨hsc.2.mono (fun y hy => after_in_used hfr hy), hinv.noattr.bindValsT _ _ (TFree.of_free hinv.noattr hfreeS),
            k06.sub hinv.cast, halF.allT, ?_, ?_⟩
          · intro y q hy
            obtain ⟨hm, hq⟩ := restrict_some.mp hy
            by_cases hys : y ∈ state
            · obtain ⟨r, v, hl, hev, hρ, hrn⟩ := bind_set state outs stf L env1 f6.1 l6 hRf y hys
              rw [hρ] at hq
              cases hq
              refine ⟨r, hl, hev, ?_⟩
              intro hcst
              rw [hc6] at hcst
              exact (f6.2 r hrn).1 ((k03.trans (k4.trans (k4a.trans (loopOutputs_cast _ _ _ _ h5b)))).sub
                hinv.cast r hcst)
            · have hyi : y ≠ i := fun he' => hilo (he' ▸ hm)
              have hyd : y ∉ d := fun hdm => hys ((hstate y).mpr ⟨hdm, Or.inr hm⟩)
              rw [halF.frame y hyd hyi] at hq
              obtain ⟨m', hl, hr⟩ := hinv.rel y q (restrict_some.mpr ⟨hFlive y (hF.lo_sub y hm), hq⟩)
              exact ⟨m', by rw [lookup_bindVals_notin _ _ _ hys]; exact hl, hr.ext (hinv.vis.lookup hl) xfin⟩
          · intro y m hl
            by_cases hys : y ∈ state
            · obtain ⟨v, hv⟩ := all2_mem_right hRf y hys
              rw [hv]; simp
            · rw [lookup_bindVals_notin _ _ _ hys] at hl
              exact halF.dom y (hinv.bound y m hl)

/-! ## `while t:` over a body of the `if` fragment -/

/-- What is needed of the live-out set `F` the body of `while t: body` is translated with (`F` is also the
live-in of the loop). -/
structure WhileLive (t : Name) (body : List Stmt) (lo F : VSet) : Prop where
  lo_sub : ∀ y, y ∈ lo → y ∈ F
  cond_in : t ∈ F
  back : ∀ y, y ∈ liveInBlock body F → y ∈ F
  sub_exposed : ∀ y, y ∈ F → y ∈ liveInBlock body [] ∨ y ∈ lo ∨ y = t

theorem whileLive_of_stable {t : Name} {body : List Stmt} {lo : VSet}
    (hrel : ∀ (X : VSet) (y : Name), y ∈ liveInBlock body X → y ∈ liveInBlock body [] ∨ y ∈ X)
    (hst : stableStmt (.while_ (.var t) body) lo = true) :
    WhileLive t body lo (loopBodyLo (.while_ (.var t) body) lo) := by
  unfold stableStmt at hst
  simp only [Bool.and_eq_true] at hst
  obtain ⟨⟨⟨h1, h2⟩, h3⟩, _⟩ := hst
  refine ⟨vsubset_mem h1, vsubset_mem h2 t (by simp [usedVars]), vsubset_mem h3, ?_⟩
  simp only [loopBodyLo]
  apply fixIter_inv (fun X => ∀ y, y ∈ X → y ∈ liveInBlock body [] ∨ y ∈ lo ∨ y = t)
  · intro X hX y hy
    rcases mem_vunion.mp hy with h | h
    · rcases mem_vunion.mp h with h | h
      · rcases hrel X y h with h' | h'
        · exact Or.inl h'
        · exact hX y h'
      · simp only [usedVars, List.mem_singleton] at h
        exact Or.inr (Or.inr h)
    · exact Or.inr (Or.inl h)
  · intro y hy
    rcases mem_vunion.mp hy with h | h
    · exact Or.inr (Or.inl h)
    · simp only [usedVars, List.mem_singleton] at h
      exact Or.inr (Or.inr h)

/-- `WhileLive` in terms of the exposed uses of the body. -/
structure WhileLiveE (t : Name) (body : List Stmt) (lo F : VSet) : Prop where
  lo_sub : ∀ y, y ∈ lo → y ∈ F
  cond_in : t ∈ F
  back : ∀ y, y ∈ liveInBlock body F → y ∈ F
  sub_exposed : ∀ y, y ∈ F → y ∈ exposedBlock body [] ∨ y ∈ lo ∨ y = t

theorem WhileLive.toE {t : Name} {body : List Stmt} {lo F : VSet} (h : WhileLive t body lo F)
    (hexp : exposedBlock body [] = liveInBlock body []) : WhileLiveE t body lo F :=
  ⟨h.lo_sub, h.cond_in, h.back, fun y hy => by rw [hexp]; exact h.sub_exposed y hy⟩

theorem whileLiveE_of_stable {S : Sem V} {fuel : Nat} {t : Name} {body : List Stmt} {lo : VSet}
    (hB : BodyFacts S fuel body (loopBodyLo (.while_ (.var t) body) lo))
    (hst : stableStmt (.while_ (.var t) body) lo = true) :
    WhileLiveE t body lo (loopBodyLo (.while_ (.var t) body) lo) := by
  unfold stableStmt at hst
  simp only [Bool.and_eq_true] at hst
  obtain ⟨⟨⟨h1, h2⟩, h3⟩, _⟩ := hst
  have hlo := vsubset_mem h1
  have ht : t ∈ loopBodyLo (.while_ (.var t) body) lo := vsubset_mem h2 t (by simp [usedVars])
  have hback := vsubset_mem h3
  refine ⟨hlo, ht, hback, ?_⟩
  have key : ∀ y, y ∈ loopBodyLo (.while_ (.var t) body) lo →
      y ∈ loopBodyLo (.while_ (.var t) body) lo ∧ (y ∈ exposedBlock body [] ∨ y ∈ lo ∨ y = t) := by
    conv => enter [y]; lhs; simp only [loopBodyLo]
    apply fixIter_inv (fun X => ∀ y, y ∈ X →
      y ∈ loopBodyLo (.while_ (.var t) body) lo ∧ (y ∈ exposedBlock body [] ∨ y ∈ lo ∨ y = t))
    · intro X hX y hy
      rcases mem_vunion.mp hy with h | h
      · rcases mem_vunion.mp h with h | h
        · refine ⟨hback y (hB.mono (fun z hz => (hX z hz).1) h), ?_⟩
          rcases hB.toExp (fun z hz => (hX z hz).1) h with h' | h'
          · exact Or.inl h'
          · exact (hX y h').2
        · simp only [usedVars, List.mem_singleton] at h
          subst h
          exact ⟨ht, Or.inr (Or.inr rfl)⟩
      · exact ⟨hlo y h, Or.inr (Or.inl h)⟩
    · intro y hy
      rcases mem_vunion.mp hy with h | h
      · exact ⟨hlo y h, Or.inr (Or.inl h)⟩
      · simp only [usedVars, List.mem_singleton] at h
        subst h
        exact ⟨ht, Or.inr (Or.inr rfl)⟩
  exact fun y hy => (key y hy).2

/-- What stays true of the Python store over the iterations of a `while` loop. -/
structure AlongW (S : Sem V) (ρ ρk : Store V) (d : VSet) : Prop where
  allT : AllT S ρk
  dom : ∀ x, ρ x ≠ none → ρk x ≠ none
  frame : ∀ x, x ∉ d → ρk x = ρ x

/-- The `Loop` node of a `while t:` loop simulates Python's `while`, given the pieces of its translation
(`convStmt` unfolded), with the iteration-number input of the body bound to no Python name. -/
theorem while_core (S : Sem V) (fuel : Nat) (hConst : ∀ l, ∃ c, constOf S l = some c)
    (hId : ∀ v, S.op "" "Identity" [some v] [] = some [v])
    {t : Name} {body : List Stmt} {lo d F state : VSet} {ρ ρ' : Store V} {L L1 L2 L' : Locals} {env : Env V}
    {s s2 s2' s3 s4 s' : St} {condIn oc iv : Name} {ps : List Name} {ns0 bn nl : List Node} {bc : Option Name}
    {ilName : Name}
    (hB : BodyFacts S fuel body F) (hd : assignedBlock body = some d) (hs : loopState body lo = some state)
    (hW : WhileLiveE t body lo F)
    (hside : t ∈ state ∨ t ∉ liveInBlock body F) (htP : t ∉ S.pyVars) (hfree : FreeOf S L (targetsBlock body))
    (hinv : Inv S F ρ L env s)
    (he : iterWhile (fun r => match r t with | some v => truthPV S v | none => none)
      (fun r => evalBlock S fuel body r) fuel ρ = some (.normal ρ'))
    (h2 : genUnique t s = .ok (condIn, s2))
    (h1 : pyVar L t s2 = .ok ((oc, ns0), s2'))
    (h3 : loopEnter L ilName false state s2' = .ok ((L1, iv, ps), s3))
    (h4 : convLoopBody L1 body F s3 = .ok ((L2, bn, bc), s4))
    (h5 : loopFinish L L2 state none (some oc) condIn iv ps (some t) bn bc s4 = .ok ((L', nl), s'))
    (hmono : Mono s s') (hvisF : VisOK s'.used L') :
    ∃ G env', evalNodes S G env (ns0 ++ nl) = some env' ∧ Inv S lo ρ' L' env' s' ∧ Ext env env' s s' := by
  -- the condition value before the loop
  have htF := hW.cond_in
  obtain ⟨hcfresh, hcused, hccast⟩ := genUnique_spec h2
  have k2 := genUnique_cast h2
  unfold pyVar at h1
  cases hlt : lookup L t with
  | none => simp only [hlt] at h1; exact (failM_ok h1).elim
  | some bnd =>
    cases bnd with
    | attr p ty =>
      exfalso
      cases hρt : ρ t with
      | none =>
        cases fuel with
        | zero => simp [iterWhile] at he
        | succ fl => simp [iterWhile, hρt] at he
      | some q0 =>
        obtain ⟨m0, hl0, _⟩ := hinv.rel t q0 (restrict_some.mpr ⟨htF, hρt⟩)
        rw [hlt] at hl0
        cases hl0
    | val n0 =>
      simp only [hlt] at h1
      obtain ⟨rfl, rfl, rfl⟩ := toOnnxVar_val h1
      clear h1
      have hρt0 : ρ t ≠ none := hinv.bound t oc hlt
      cases hρt : ρ t with
      | none => exact absurd hρt hρt0
      | some q0 =>
        obtain ⟨v0, rfl⟩ := hinv.allT t q0 hρt htP
        obtain ⟨m0, hl0, hr0⟩ := hinv.rel t _ (restrict_some.mpr ⟨htF, hρt⟩)
        rw [hlt] at hl0
        cases hl0
        -- the body
        obtain ⟨h4c, hbc⟩ := convLoopBody_nobrk body L1 F hB.nobrk h4
        subst hbc
        clear h4
        have h4 := h4c
        clear h4c
        unfold loopFinish at h5
        cases hcn : loopCondName L2 (some t) condIn with
        | none => simp only [hcn] at h5; exact (failM_ok h5).elim
        | some n2 =>
          simp only [hcn] at h5
          have hcur : currentScopeFind L2 t = some (.val n2) := by
            unfold loopCondName at hcn
            simp only at hcn
            cases hf : currentScopeFind L2 t with
            | none => simp only [hf] at hcn; cases hcn
            | some b =>
              cases b with
              | val n => simp only [hf] at hcn; cases hcn; rfl
              | attr p ty => simp only [hf] at hcn; cases hcn
          mbind h5 with p s4a h5a
          obtain ⟨condOut, cns⟩ := p
          try dsimp only at h5
          have hcns : genUnique "cond_out" s4 = .ok (condOut, s4a) ∧ cns = [condNode none n2 condOut] := by
            unfold condNodes at h5a
            simp only at h5a
            mbind h5a with c sx hx
            obtain ⟨e1, e2⟩ := pure_ok h5a
            cases e1; subst e2
            exact ⟨hx, rfl⟩
          obtain ⟨h5a', hcns⟩ := hcns
          subst hcns
          clear h5a
          have h5a := h5a'
          clear h5a'
          mbind h5 with p s4b h5b
          obtain ⟨os, ns3⟩ := p
          try dsimp only at h5
          mbind h5 with p s4c h5c
          obtain ⟨inits, ns4⟩ := p
          try dsimp only at h5
          mbind h5 with outs s6 h5d
          obtain ⟨q1, q2⟩ := pure_ok h5
          cases q1; subst q2
          have hfreeS : FreeOf S L state := by
            intro x hx
            have hxd : x ∈ d := by
              have hs' := hs
              unfold loopState at hs'
              rw [hd] at hs'
              simp only at hs'
              cases hs'
              exact (mem_vinter.mp hx).1
            exact hfree x (assignedBlock_sub_targets body hd x hxd)
          obtain ⟨rfl, rfl, hinits⟩ := loopInits_val L state hfreeS h5c
          -- the state variables
          have hstate : ∀ x, x ∈ state ↔ x ∈ d ∧ (x ∈ exposedBlock body [] ∨ x ∈ lo) := by
            intro x
            unfold loopState at hs
            rw [hd] at hs
            simp only at hs
            cases hs
            rw [mem_vinter, mem_vunion]
            rfl
          have hstF : ∀ x, x ∈ state → x ∈ F := by
            intro x hx
            obtain ⟨_, hx'⟩ := (hstate x).mp hx
            rcases hx' with h' | h'
            · exact hW.back x (hB.ofExp x h')
            · exact hW.lo_sub x h'
          -- fresh names of the body inputs
          obtain ⟨hL1eq, hpslen, hc3, k3⟩ := loopEnter_parts h3
          simp only [loopScope, Bool.false_eq_true, if_false] at hL1eq
          have hAM1 : AttrMono L L1 := by
            rw [hL1eq]
            exact (AttrMono.push L).trans (AttrMono.bindVals state ps _)
          have hAM2 : AttrMono L L2 := hAM1.trans (convStmts_attrMono _ _ _ h4)
          obtain ⟨m3, f3⟩ := loopEnter_fresh h3
          have hps_nodup : ps.Nodup := (List.nodup_cons.mp f3.1).2
          have hiv_ps : iv ∉ ps := (List.nodup_cons.mp f3.1).1
          have hcondIn2 : condIn ∈ s2'.used := by rw [hcused]; exact List.mem_cons_self
          have hcond_ps : condIn ∉ ps := fun hm => (f3.2 condIn (List.mem_cons_of_mem _ hm)).1 hcondIn2
          have hiv_cond : iv ≠ condIn := fun he' => (f3.2 iv List.mem_cons_self).1 (he' ▸ hcondIn2)
          have hbi_fresh : ∀ n, n ∈ s.used → n ∉ iv :: condIn :: ps := by
            intro n hn hm
            rcases List.mem_cons.mp hm with rfl | hm
            · exact (f3.2 _ List.mem_cons_self).1 (k2.mono _ hn)
            · rcases List.mem_cons.mp hm with rfl | hm
              · exact hcfresh hn
              · exact (f3.2 n (List.mem_cons_of_mem _ hm)).1 (k2.mono _ hn)
          have k03 : CastOK s s3 := k2.trans k3
          have cs3 : CastSub s3 := k03.sub hinv.cast
          have hnotcast3 : ∀ r, r ∈ iv :: condIn :: ps → r ∉ s3.castable := by
            intro r hr hc
            rw [hc3, hccast] at hc
            exact hbi_fresh r (hinv.cast r hc) hr
          have hcondIn3 : condIn ∈ s3.used := m3 _ hcondIn2
          have hiv3 : iv ∈ s3.used := (f3.2 iv List.mem_cons_self).2
          have hps3 : ∀ p, p ∈ ps → p ∈ s3.used := fun p hp => (f3.2 p (List.mem_cons_of_mem _ hp)).2
          obtain ⟨hvis1, _⟩ := loopEnter_scope (vis := s3.used) h3 (hinv.vis.mono k03.mono) hiv3 hps3
          have hna1 : NoAttrBind S L1 := by
            rw [hL1eq]
            exact NoAttrBind.bindValsT hinv.noattr.push _ _ (TFree.of_free hinv.noattr hfreeS)
          have hlk_old : ∀ y, y ∉ state → lookup L1 y = lookup L y := by
            intro y hy
            rw [hL1eq, lookup_bindVals_notin _ _ _ hy, lookup_push]
          generalize hcnd : condNode none n2 condOut = cnode at h5b
          have hcnode : cnode = Node.op "" "Identity" [some n2] [condOut] [] := by
            rw [← hcnd]; rfl
          obtain ⟨hofresh, houused, hocast⟩ := genUnique_spec h5a
          have k4 := hB.cast h4
          have k4a := genUnique_cast h5a
          -- the invariant at the start of an iteration
          have mkInv : ∀ (k : Nat) (cnd : V) (st : List V) (ρk : Store V), AlongW S ρ ρk d →
              All2 (fun v x => ρk x = some (PV.t v)) st state →
              Inv S (liveInBlock body F) ρk L1
                (Env.setMany env (iv :: condIn :: ps) (S.ofNat k :: cnd :: st)) s3 := by
            intro k cnd st ρk hal hR
            have henv_old : ∀ m, m ∈ s.used →
                (Env.setMany env (iv :: condIn :: ps) (S.ofNat k :: cnd :: st)) m = env m :=
              fun m hm => envSetMany_frame _ _ _ m (hbi_fresh m hm)
            have hextk : Ext env (Env.setMany env (iv :: condIn :: ps) (S.ofNat k :: cnd :: st)) s s3 :=
              ⟨fun m hm => henv_old m hm, k03.ext⟩
            refine ⟨hvis1, hna1, cs3, hal.allT, ?_, ?_⟩
            · intro y q hy
              obtain ⟨hyL, hyq⟩ := restrict_some.mp hy
              by_cases hys : y ∈ state
              · obtain ⟨r, v, hl, hev, hρ, hrn⟩ := bind_set state ps st ([] :: L)
                  ((env.set iv (S.ofNat k)).set condIn cnd) hps_nodup hpslen hR y hys
                rw [hρ] at hyq
                cases hyq
                exact ⟨r, by rw [hL1eq]; exact hl, hev,
                  hnotcast3 r (List.mem_cons_of_mem _ (List.mem_cons_of_mem _ hrn))⟩
              · have hyF : y ∈ F := hW.back y hyL
                have hyd : y ∉ d := by
                  intro hdm
                  rcases hB.toExp (fun z hz => hz) hyL with h' | _
                  · exact hys ((hstate y).mpr ⟨hdm, Or.inl h'⟩)
                  · rcases hW.sub_exposed y hyF with h' | h' | h'
                    · exact hys ((hstate y).mpr ⟨hdm, Or.inl h'⟩)
                    · exact hys ((hstate y).mpr ⟨hdm, Or.inr h'⟩)
                    · subst h'
                      rcases hside with h'' | h''
                      · exact hys h''
                      · exact h'' hyL
                rw [hal.frame y hyd] at hyq
                obtain ⟨m, hl, hr⟩ := hinv.rel y q (restrict_some.mpr ⟨hyF, hyq⟩)
                exact ⟨m, by rw [hlk_old y hys]; exact hl, hr.ext (hinv.vis.lookup hl) hextk⟩
            · intro y m hl
              by_cases hys : y ∈ state
              · obtain ⟨v, hv⟩ := all2_mem_right hR y hys
                rw [hv]; simp
              · rw [hlk_old y hys] at hl
                exact hal.dom y (hinv.bound y m hl)
          -- the iterations
          have iter : ∀ (fl k : Nat) (ρk ρf : Store V) (st : List V) (cnd : V), ρk t = some (PV.t cnd) →
              AlongW S ρ ρk d → All2 (fun v x => ρk x = some (PV.t v)) st state →
              iterWhile (fun r => match r t with | some v => truthPV S v | none => none)
                (fun r => evalBlock S fuel body r) fl ρk = some (.normal ρf) →
              ∃ G0, ∀ (G a : Nat), G0 ≤ G → fl + 1 ≤ a →
              ∃ stf, loopIter S (loopBodyFn S (fun e => evalNodes S G e (bn ++ ([cnode] ++ ns3))) env
                  (iv :: condIn :: ps) (condOut :: os)) a none k cnd st = some stf
                ∧ All2 (fun v x => ρf x = some (PV.t v)) stf state ∧ AlongW S ρ ρf d := by
            intro fl
            induction fl with
            | zero => intro k ρk ρf st cnd _ _ _ hit; simp [iterWhile] at hit
            | succ fl ih =>
              intro k ρk ρf st cnd hcv hal hR hit
              simp only [iterWhile, hcv, truthPV] at hit
              cases htr : S.truth cnd with
              | none => simp [htr] at hit
              | some bcur =>
                  cases bcur with
                  | false =>
                    simp only [htr] at hit
                    cases hit
                    refine ⟨0, fun G a _ ha => ?_⟩
                    cases a with
                    | zero => omega
                    | succ a' => exact ⟨st, by simp [loopIter, htr], hR, hal⟩
                  | true =>
                    simp only [htr] at hit
                    cases hbk : evalBlock S fuel body ρk with
                    | none => simp [hbk] at hit
                    | some o1 =>
                      obtain ⟨ρ1, rfl, run1⟩ := hB.run hal.allT hbk
                      simp only [hbk] at hit
                      have invk := mkInv k cnd st ρk hal hR
                      obtain ⟨envB, ⟨G1, evB⟩, invB, xB, mB⟩ := hB.sim (hfree.mono hAM1) invk hbk h4
                      -- the re-computed condition
                      have hl2 := current_lookup hcur
                      have hρ1t : ρ1 t ≠ none := invB.bound t n2 hl2
                      cases hq1 : ρ1 t with
                      | none => exact absurd hq1 hρ1t
                      | some q1 =>
                        obtain ⟨v1, rfl⟩ := invB.allT t q1 hq1 htP
                        obtain ⟨m', hl', hr'⟩ := invB.rel t _ (restrict_some.mpr ⟨htF, hq1⟩)
                        rw [hl2] at hl'
                        cases hl'
                        have evC : ∀ G, evalNodes S G envB [cnode] = some (envB.set condOut v1) := by
                          intro G
                          rw [hcnode]
                          exact evalNodes_op1 (vs := [some v1])
                            (by simp [List.mapM_cons, Env.getOpt, hr'.1]) (hId _)
                        have xC : Ext envB (envB.set condOut v1) s4 s4a :=
                          ext_set_fresh _ _ hofresh (fun m _ => by rw [hocast])
                        have cs4a : CastSub s4a := k4a.sub invB.cast
                        have invC : Inv S F ρ1 L2 (envB.set condOut v1) s4a :=
                          invB.ext xC k4a.mono cs4a
                        have hfO : ∀ pv, pv ∈ state → ∀ m, lookup L2 pv = some (.val m) →
                            ∃ v, (envB.set condOut v1) m = some v ∧ ρ1 pv = some (.t v) := by
                          intro pv hpv m hl
                          cases hq : ρ1 pv with
                          | none => exact absurd hq (invC.bound pv m hl)
                          | some q =>
                            obtain ⟨v', rfl⟩ := invC.allT pv q hq (hfreeS pv hpv).2
                            obtain ⟨m2, hlm, hrm⟩ := invC.rel pv _ (restrict_some.mpr ⟨hstF pv hpv, hq⟩)
                            rw [hl] at hlm
                            cases hlm
                            exact ⟨v', hrm.1, rfl⟩
                        obtain ⟨envD, evD0, xD, _, mD, aD⟩ :=
                          loopOutputs_sim S 0 hId L2 state (bn ++ [cnode]) [condOut] invC.vis (hfreeS.mono hAM2) hfO h5b
                        have evD : ∀ G, evalNodes S G (envB.set condOut v1) ns3 = some envD :=
                          fun G => evalNodes_mono S ns3 0 G _ _ (Nat.zero_le G) evD0
                        obtain ⟨rs, hrs, hallD⟩ := outs_values aD
                        have hcoD : envD condOut = some v1 := by
                          rw [xD.envSame condOut (by rw [houused]; exact List.mem_cons_self)]
                          exact Env.set_same _ _ _
                        have hbodyk : ∀ G, G1 ≤ G → loopBodyFn S (fun e => evalNodes S G e (bn ++ ([cnode] ++ ns3))) env
                            (iv :: condIn :: ps) (condOut :: os) k cnd st = some (v1, rs) := by
                          intro G hG
                          unfold loopBodyFn
                          have : evalNodes S G (Env.setMany env (iv :: condIn :: ps) (S.ofNat k :: cnd :: st))
                              (bn ++ ([cnode] ++ ns3)) = some envD :=
                            evalNodes_seq (evB G hG) (evalNodes_seq (a := [cnode]) (evC G) (evD G))
                          simp only [this, Env.getMany, List.mapM_cons, hcoD, hrs]
                          rfl
                        have hal1 : AlongW S ρ ρ1 d :=
                          ⟨run1.allT, fun x hx => run1.dom x (hal.dom x hx),
                           fun x hxd => by rw [run1.frame d hd x hxd]; exact hal.frame x hxd⟩
                        obtain ⟨G0', hih⟩ := ih (k + 1) ρ1 ρf rs v1 hq1 hal1 hallD hit
                        refine ⟨max G1 G0', fun G a hG ha => ?_⟩
                        cases a with
                        | zero => omega
                        | succ a' =>
                          obtain ⟨stf, hit', hRf, halF⟩ := hih G a' (by omega) (by omega)
                          refine ⟨stf, ?_, hRf, halF⟩
                          unfold loopIter
                          simp only [htr, hbodyk G (by omega)]
                          simpa using hit'
          -- the values the loop starts with
          have hf0 : ∀ x, x ∈ state → ∀ m, lookup L x = some (.val m) →
              ∃ v, env m = some v ∧ ρ x = some (PV.t v) := by
            intro x hx m hl
            cases hq : ρ x with
            | none => exact absurd hq (hinv.bound x m hl)
            | some q =>
              obtain ⟨v, rfl⟩ := hinv.allT x q hq (hfreeS x hx).2
              obtain ⟨m', hl', hr⟩ := hinv.rel x _ (restrict_some.mpr ⟨hstF x hx, hq⟩)
              rw [hl] at hl'
              cases hl'
              exact ⟨v, hr.1, rfl⟩
          obtain ⟨st0, hst0, hR0⟩ := inits_values hinits hf0
          have hal0 : AlongW S ρ ρ d := ⟨hinv.allT, fun _ hx => hx, fun _ _ => rfl⟩
          obtain ⟨Gi, hiter⟩ := iter fuel 0 ρ ρ' st0 v0 hρt hal0 hR0 he
          obtain ⟨GG, hGG2, hGG3⟩ : ∃ GG, Gi ≤ GG ∧ fuel + 1 ≤ GG := ⟨max Gi (fuel + 1), by omega, by omega⟩
          obtain ⟨stf, hloop, hRf, halF⟩ := hiter GG GG hGG2 hGG3
          -- the Loop node
          obtain ⟨m6, f6, l6⟩ := genUniques_fresh _ h5d
          have hc6 := genUniques_castable _ h5d
          have k36 : CastOK s3 s6 :=
            k4.trans (k4a.trans ((loopOutputs_cast _ _ _ _ h5b).trans (genUniques_cast _ h5d)))
          have k06 : CastOK s s6 := k03.trans k36
          have hlen : stf.length = outs.length := by rw [all2_len hRf, l6]
          have evLoop : evalNodes S (GG + 1) env
              [Node.loop none (some oc) inits outs (iv :: condIn :: ps) (bn ++ ([cnode] ++ ns3)) (condOut :: os)]
              = some (env.setMany outs stf) := by
            simp only [List.singleton_append] at hloop
            simp [evalNodes, evalNode, Env.getOpt, hr0.1, Env.getMany, hst0, loopResult, loopTrip,
              loopCond0, hloop, hlen]
          have hnotin : ∀ m, m ∈ s.used → m ∉ outs := fun m hm hmo =>
            (f6.2 m hmo).1 ((k03.trans (k4.trans (k4a.trans (loopOutputs_cast _ _ _ _ h5b)))).mono m hm)
          have xfin : Ext env (env.setMany outs stf) s s6 :=
            ⟨fun m hm => envSetMany_frame outs stf env m (hnotin m hm), k06.ext⟩
          refine ⟨GG + 1, env.setMany outs stf, ?_, ?_, xfin⟩
          · simpa using evLoop
          · refine ⟨hvisF, hinv.noattr.bindValsT _ _ (TFree.of_free hinv.noattr hfreeS), k06.sub hinv.cast, halF.allT, ?_, ?_⟩
            · intro y q hy
              obtain ⟨hm, hq⟩ := restrict_some.mp hy
              by_cases hys : y ∈ state
              · obtain ⟨r, v, hl, hev, hρ, hrn⟩ := bind_set state outs stf L env f6.1 l6 hRf y hys
                rw [hρ] at hq
                cases hq
                refine ⟨r, hl, hev, ?_⟩
                intro hcst
                rw [hc6] at hcst
                exact (f6.2 r hrn).1 ((k03.trans (k4.trans (k4a.trans (loopOutputs_cast _ _ _ _ h5b)))).sub
                  hinv.cast r hcst)
              · have hyd : y ∉ d := fun hdm => hys ((hstate y).mpr ⟨hdm, Or.inr hm⟩)
                rw [halF.frame y hyd] at hq
                obtain ⟨m', hl, hr⟩ := hinv.rel y q (restrict_some.mpr ⟨hW.lo_sub y hm, hq⟩)
                exact ⟨m', by rw [lookup_bindVals_notin _ _ _ hys]; exact hl, hr.ext (hinv.vis.lookup hl) xfin⟩
            · intro y m hl
              by_cases hys : y ∈ state
              · obtain ⟨v, hv⟩ := all2_mem_right hRf y hys
                rw [hv]; simp
              · rw [lookup_bindVals_notin _ _ _ hys] at hl
                exact halF.dom y (hinv.bound y m hl)

/-- The same for a body `pre; if b: break`: `cond_out = And(t, Not(b))` (since ddfea30). -/
theorem whileB_core (S : Sem V) (fuel : Nat) (hConst : ∀ l, ∃ c, constOf S l = some c)
    (hId : ∀ v, S.op "" "Identity" [some v] [] = some [v])
    (hTL : ∀ l c b, constOf S l = some c → truthPV S (.py l) = some b → S.truth c = some b)
    (hNot : ∀ v bk, S.truth v = some bk → ∃ w, S.op "" "Not" [some v] [] = some [w] ∧ S.truth w = some (!bk))
    (hAnd : ∀ x y yb, S.truth y = some yb → ∃ w, S.op "" "And" [some x, some y] [] = some [w] ∧
      (yb = false → S.truth w = some false) ∧ (yb = true → S.truth w = S.truth x))
    {t b : Name} {pre body : List Stmt} (hbd : body = pre ++ brkTail b) {lo d F state : VSet} {ρ ρ' : Store V} {L L1 L2 L' : Locals} {env : Env V}
    {s s2 s2' s3 s4 s' : St} {condIn oc iv : Name} {ps : List Name} {ns0 bn nl : List Node} {bc : Option Name}
    {ilName : Name}
    (hp : ifBlock pre = true) (hd : assignedBlock pre = some d) (hs : loopState body lo = some state)
    (hW : WhileLive t body lo F)
    (hside : t ∈ state ∨ t ∉ liveInBlock body F) (htP : t ∉ S.pyVars) (hbAttr : S.attrLit b = none ∧ b ∉ S.pyVars) (hfree : FreeOf S L (targetsBlock pre))
    (hinv : Inv S F ρ L env s)
    (he : iterWhile (fun r => match r t with | some v => truthPV S v | none => none)
      (fun r => evalBlock S fuel body r) fuel ρ = some (.normal ρ'))
    (h2 : genUnique t s = .ok (condIn, s2))
    (h1 : pyVar L t s2 = .ok ((oc, ns0), s2'))
    (h3 : loopEnter L ilName false state s2' = .ok ((L1, iv, ps), s3))
    (h4 : convLoopBody L1 body F s3 = .ok ((L2, bn, bc), s4))
    (h5 : loopFinish L L2 state none (some oc) condIn iv ps (some t) bn bc s4 = .ok ((L', nl), s'))
    (hmono : Mono s s') (hvisF : VisOK s'.used L') :
    ∃ G env', evalNodes S G env (ns0 ++ nl) = some env' ∧ Inv S lo ρ' L' env' s' ∧ Ext env env' s s' := by
  have hlive : ∀ X, liveInBlock body X = liveInBlock pre (vunion X [b]) := by
    intro X; rw [hbd]; exact live_brk pre b X
  have hexp : exposedBlock body [] = liveInBlock body [] := by rw [hbd]; exact exposed_brk b hp
  have hdb : assignedBlock body = some d := by rw [hbd, assigned_brk]; exact hd
  have hrel : ∀ (X : VSet) (y : Name), y ∈ liveInBlock body X → y ∈ liveInBlock body [] ∨ y ∈ X := by
    intro X y hy; rw [hbd] at hy ⊢; exact live_rel_brk hp hy
  have hmono' : ∀ {Z A : VSet} {y : Name}, (∀ x, x ∈ Z → x ∈ A) → y ∈ liveInBlock body Z →
      y ∈ liveInBlock body A := by
    intro Z A y hz hy; rw [hbd] at hy ⊢; exact live_mono_brk hp hz hy
  -- the condition value before the loop
  have htF := hW.cond_in
  obtain ⟨hcfresh, hcused, hccast⟩ := genUnique_spec h2
  have k2 := genUnique_cast h2
  unfold pyVar at h1
  cases hlt : lookup L t with
  | none => simp only [hlt] at h1; exact (failM_ok h1).elim
  | some bnd =>
    cases bnd with
    | attr p ty =>
      exfalso
      cases hρt : ρ t with
      | none =>
        cases fuel with
        | zero => simp [iterWhile] at he
        | succ fl => simp [iterWhile, hρt] at he
      | some q0 =>
        obtain ⟨m0, hl0, _⟩ := hinv.rel t q0 (restrict_some.mpr ⟨htF, hρt⟩)
        rw [hlt] at hl0
        cases hl0
    | val n0 =>
      simp only [hlt] at h1
      obtain ⟨rfl, rfl, rfl⟩ := toOnnxVar_val h1
      clear h1
      have hρt0 : ρ t ≠ none := hinv.bound t oc hlt
      cases hρt : ρ t with
      | none => exact absurd hρt hρt0
      | some q0 =>
        obtain ⟨v0, rfl⟩ := hinv.allT t q0 hρt htP
        obtain ⟨m0, hl0, hr0⟩ := hinv.rel t _ (restrict_some.mpr ⟨htF, hρt⟩)
        rw [hlt] at hl0
        cases hl0
        -- the body
        rw [hbd] at h4
        obtain ⟨h4c, nb, hbc, hcurb⟩ := convLoopBody_brk b pre L1 F hp h4
        subst hbc
        clear h4
        have h4 := h4c
        clear h4c
        unfold loopFinish at h5
        cases hcn : loopCondName L2 (some t) condIn with
        | none => simp only [hcn] at h5; exact (failM_ok h5).elim
        | some n2 =>
          simp only [hcn] at h5
          have hcur : currentScopeFind L2 t = some (.val n2) := by
            unfold loopCondName at hcn
            simp only at hcn
            cases hf : currentScopeFind L2 t with
            | none => simp only [hf] at hcn; cases hcn
            | some b =>
              cases b with
              | val n => simp only [hf] at hcn; cases hcn; rfl
              | attr p ty => simp only [hf] at hcn; cases hcn
          mbind h5 with p s4a h5a
          obtain ⟨condOut, cns⟩ := p
          try dsimp only at h5
          have hcns : ∃ notb s4n, genUnique "not_break" s4 = .ok (notb, s4n) ∧
              genUnique "cond_out" s4n = .ok (condOut, s4a) ∧
              cns = [Node.op "" "Not" [some nb] [notb] [], Node.op "" "And" [some n2, some notb] [condOut] []] := by
            unfold condNodes at h5a
            simp only at h5a
            mbind h5a with c1 sx hx
            mbind h5a with c2 sy hy
            obtain ⟨e1, e2⟩ := pure_ok h5a
            cases e1; subst e2
            exact ⟨c1, sx, hx, hy, rfl⟩
          obtain ⟨notb, s4n, h5n, h5a', hcns⟩ := hcns
          subst hcns
          clear h5a
          have h5a := h5a'
          clear h5a'
          mbind h5 with p s4b h5b
          obtain ⟨os, ns3⟩ := p
          try dsimp only at h5
          mbind h5 with p s4c h5c
          obtain ⟨inits, ns4⟩ := p
          try dsimp only at h5
          mbind h5 with outs s6 h5d
          obtain ⟨q1, q2⟩ := pure_ok h5
          cases q1; subst q2
          have hfreeS : FreeOf S L state := by
            intro x hx
            have hxd : x ∈ d := by
              have hs' := hs
              unfold loopState at hs'
              rw [hdb] at hs'
              simp only at hs'
              cases hs'
              exact (mem_vinter.mp hx).1
            exact hfree x (assignedBlock_sub_targets pre hd x hxd)
          obtain ⟨rfl, rfl, hinits⟩ := loopInits_val L state hfreeS h5c
          -- the state variables
          have hstate : ∀ x, x ∈ state ↔ x ∈ d ∧ (x ∈ liveInBlock body [] ∨ x ∈ lo) := by
            intro x
            unfold loopState at hs
            rw [hdb] at hs
            simp only at hs
            cases hs
            rw [mem_vinter, mem_vunion]
            unfold exposedUses
            rw [hexp]
          have hstF : ∀ x, x ∈ state → x ∈ F := by
            intro x hx
            obtain ⟨_, hx'⟩ := (hstate x).mp hx
            rcases hx' with h' | h'
            · exact hW.back x (hmono' (fun _ hy => by cases hy) h')
            · exact hW.lo_sub x h'
          -- fresh names of the body inputs
          obtain ⟨hL1eq, hpslen, hc3, k3⟩ := loopEnter_parts h3
          simp only [loopScope, Bool.false_eq_true, if_false] at hL1eq
          have hAM1 : AttrMono L L1 := by
            rw [hL1eq]
            exact (AttrMono.push L).trans (AttrMono.bindVals state ps _)
          have hAM2 : AttrMono L L2 := hAM1.trans (convStmts_attrMono _ _ _ h4)
          obtain ⟨m3, f3⟩ := loopEnter_fresh h3
          have hps_nodup : ps.Nodup := (List.nodup_cons.mp f3.1).2
          have hiv_ps : iv ∉ ps := (List.nodup_cons.mp f3.1).1
          have hcondIn2 : condIn ∈ s2'.used := by rw [hcused]; exact List.mem_cons_self
          have hcond_ps : condIn ∉ ps := fun hm => (f3.2 condIn (List.mem_cons_of_mem _ hm)).1 hcondIn2
          have hiv_cond : iv ≠ condIn := fun he' => (f3.2 iv List.mem_cons_self).1 (he' ▸ hcondIn2)
          have hbi_fresh : ∀ n, n ∈ s.used → n ∉ iv :: condIn :: ps := by
            intro n hn hm
            rcases List.mem_cons.mp hm with rfl | hm
            · exact (f3.2 _ List.mem_cons_self).1 (k2.mono _ hn)
            · rcases List.mem_cons.mp hm with rfl | hm
              · exact hcfresh hn
              · exact (f3.2 n (List.mem_cons_of_mem _ hm)).1 (k2.mono _ hn)
          have k03 : CastOK s s3 := k2.trans k3
          have cs3 : CastSub s3 := k03.sub hinv.cast
          have hnotcast3 : ∀ r, r ∈ iv :: condIn :: ps → r ∉ s3.castable := by
            intro r hr hc
            rw [hc3, hccast] at hc
            exact hbi_fresh r (hinv.cast r hc) hr
          have hcondIn3 : condIn ∈ s3.used := m3 _ hcondIn2
          have hiv3 : iv ∈ s3.used := (f3.2 iv List.mem_cons_self).2
          have hps3 : ∀ p, p ∈ ps → p ∈ s3.used := fun p hp => (f3.2 p (List.mem_cons_of_mem _ hp)).2
          obtain ⟨hvis1, _⟩ := loopEnter_scope (vis := s3.used) h3 (hinv.vis.mono k03.mono) hiv3 hps3
          have hna1 : NoAttrBind S L1 := by
            rw [hL1eq]
            exact NoAttrBind.bindValsT hinv.noattr.push _ _ (TFree.of_free hinv.noattr hfreeS)
          have hlk_old : ∀ y, y ∉ state → lookup L1 y = lookup L y := by
            intro y hy
            rw [hL1eq, lookup_bindVals_notin _ _ _ hy, lookup_push]
          obtain ⟨hnfresh, hnused, hncast⟩ := genUnique_spec h5n
          obtain ⟨hofresh, houused, hocast⟩ := genUnique_spec h5a
          have k4 := ifBlock_cast L1 pre (vunion F [b]) hp h4
          have k4n := genUnique_cast h5n
          have k4a := k4n.trans (genUnique_cast h5a)
          have hbF : b ∈ vunion F [b] := mem_vunion.mpr (Or.inr List.mem_cons_self)
          have htFb : t ∈ vunion F [b] := mem_vunion.mpr (Or.inl htF)
          -- the invariant at the start of an iteration
          have mkInv : ∀ (k : Nat) (cnd : V) (st : List V) (ρk : Store V), AlongW S ρ ρk d →
              All2 (fun v x => ρk x = some (PV.t v)) st state →
              Inv S (liveInBlock body F) ρk L1
                (Env.setMany env (iv :: condIn :: ps) (S.ofNat k :: cnd :: st)) s3 := by
            intro k cnd st ρk hal hR
            have henv_old : ∀ m, m ∈ s.used →
                (Env.setMany env (iv :: condIn :: ps) (S.ofNat k :: cnd :: st)) m = env m :=
              fun m hm => envSetMany_frame _ _ _ m (hbi_fresh m hm)
            have hextk : Ext env (Env.setMany env (iv :: condIn :: ps) (S.ofNat k :: cnd :: st)) s s3 :=
              ⟨fun m hm => henv_old m hm, k03.ext⟩
            refine ⟨hvis1, hna1, cs3, hal.allT, ?_, ?_⟩
            · intro y q hy
              obtain ⟨hyL, hyq⟩ := restrict_some.mp hy
              by_cases hys : y ∈ state
              · obtain ⟨r, v, hl, hev, hρ, hrn⟩ := bind_set state ps st ([] :: L)
                  ((env.set iv (S.ofNat k)).set condIn cnd) hps_nodup hpslen hR y hys
                rw [hρ] at hyq
                cases hyq
                exact ⟨r, by rw [hL1eq]; exact hl, hev,
                  hnotcast3 r (List.mem_cons_of_mem _ (List.mem_cons_of_mem _ hrn))⟩
              · have hyF : y ∈ F := hW.back y hyL
                have hyd : y ∉ d := by
                  intro hdm
                  rcases hrel F y hyL with h' | _
                  · exact hys ((hstate y).mpr ⟨hdm, Or.inl h'⟩)
                  · rcases hW.sub_exposed y hyF with h' | h' | h'
                    · exact hys ((hstate y).mpr ⟨hdm, Or.inl h'⟩)
                    · exact hys ((hstate y).mpr ⟨hdm, Or.inr h'⟩)
                    · subst h'
                      rcases hside with h'' | h''
                      · exact hys h''
                      · exact h'' hyL
                rw [hal.frame y hyd] at hyq
                obtain ⟨m, hl, hr⟩ := hinv.rel y q (restrict_some.mpr ⟨hyF, hyq⟩)
                exact ⟨m, by rw [hlk_old y hys]; exact hl, hr.ext (hinv.vis.lookup hl) hextk⟩
            · intro y m hl
              by_cases hys : y ∈ state
              · obtain ⟨v, hv⟩ := all2_mem_right hR y hys
                rw [hv]; simp
              · rw [hlk_old y hys] at hl
                exact hal.dom y (hinv.bound y m hl)
          -- the iterations
          have iter : ∀ (fl k : Nat) (ρk ρf : Store V) (st : List V) (cnd : V),
              (∃ vt, ρk t = some (PV.t vt) ∧ S.truth cnd = S.truth vt) →
              AlongW S ρ ρk d → All2 (fun v x => ρk x = some (PV.t v)) st state →
              iterWhile (fun r => match r t with | some v => truthPV S v | none => none)
                (fun r => evalBlock S fuel body r) fl ρk = some (.normal ρf) →
              ∀ (G a : Nat), fuel ≤ G → fl + 2 ≤ a →
              ∃ stf, loopIter S (loopBodyFn S (fun e => evalNodes S G e
                  (bn ++ ([Node.op "" "Not" [some nb] [notb] [], Node.op "" "And" [some n2, some notb] [condOut] []]
                    ++ ns3))) env
                  (iv :: condIn :: ps) (condOut :: os)) a none k cnd st = some stf
                ∧ All2 (fun v x => ρf x = some (PV.t v)) stf state ∧ AlongW S ρ ρf d := by
            intro fl
            induction fl with
            | zero => intro k ρk ρf st cnd _ _ _ hit; simp [iterWhile] at hit
            | succ fl ih =>
              intro k ρk ρf st cnd hcv hal hR hit G a hG ha
              obtain ⟨vt, hvt, htt⟩ := hcv
              simp only [iterWhile, hvt, truthPV] at hit
              cases a with
              | zero => omega
              | succ a' =>
                cases htr : S.truth vt with
                | none => simp [htr] at hit
                | some bcur =>
                  rw [htr] at htt
                  cases bcur with
                  | false =>
                    simp only [htr] at hit
                    cases hit
                    exact ⟨st, by simp [loopIter, htt], hR, hal⟩
                  | true =>
                    simp only [htr] at hit
                    cases hbk : evalBlock S fuel body ρk with
                    | none => simp [hbk] at hit
                    | some o1 =>
                      obtain ⟨ρ1, vb, bk, hpre, run1, hbv, hbt, ho1⟩ :=
                        brkBody_run S fuel hp (tfree_brk (TFree.of_free hinv.noattr hfree) hbAttr) hal.allT (hbd ▸ hbk)
                      simp only [hbk] at hit
                      have invk := mkInv k cnd st ρk hal hR
                      rw [hlive F] at invk
                      obtain ⟨envB, evB, invB, xB, mB⟩ :=
                        block_step S fuel hConst hId hTL pre (vunion F [b]) hp (hfree.mono hAM1) invk hpre h4
                      have evBG := evalNodes_mono S bn fuel G _ _ hG evB
                      -- the break condition
                      obtain ⟨mb, hlb, hrb⟩ := invB.rel b _ (restrict_some.mpr ⟨hbF, hbv⟩)
                      rw [current_lookup hcurb] at hlb
                      cases hlb
                      -- the re-computed while condition
                      have hl2 := current_lookup hcur
                      have hρ1t : ρ1 t ≠ none := invB.bound t n2 hl2
                      cases hq1 : ρ1 t with
                      | none => exact absurd hq1 hρ1t
                      | some q1 =>
                        obtain ⟨v1, rfl⟩ := invB.allT t q1 hq1 htP
                        obtain ⟨m', hl', hr'⟩ := invB.rel t _ (restrict_some.mpr ⟨htFb, hq1⟩)
                        rw [hl2] at hl'
                        cases hl'
                        obtain ⟨wn, hopn, hwn⟩ := hNot vb bk hbt
                        obtain ⟨w, hopa, hwf, hwt⟩ := hAnd v1 wn (!bk) hwn
                        have hn2_ne : n2 ≠ notb := by
                          intro he'
                          exact hnfresh (he' ▸ (invB.vis.lookup hl2))
                        have evC : evalNodes S G envB
                            [Node.op "" "Not" [some nb] [notb] [], Node.op "" "And" [some n2, some notb] [condOut] []]
                            = some ((envB.set notb wn).set condOut w) := by
                          have e1 : evalNodes S G envB [Node.op "" "Not" [some nb] [notb] []]
                              = some (envB.set notb wn) :=
                            evalNodes_op1 (vs := [some vb]) (by simp [List.mapM_cons, Env.getOpt, hrb.1]) hopn
                          have e2 : evalNodes S G (envB.set notb wn)
                              [Node.op "" "And" [some n2, some notb] [condOut] []]
                              = some ((envB.set notb wn).set condOut w) :=
                            evalNodes_op1 (vs := [some v1, some wn])
                              (by simp [List.mapM_cons, Env.getOpt, Env.set_same, Env.set_other _ _ hn2_ne, hr'.1]) hopa
                          exact evalNodes_seq (a := [Node.op "" "Not" [some nb] [notb] []]) e1 e2
                        have xC : Ext envB ((envB.set notb wn).set condOut w) s4 s4a := by
                          have x1 : Ext envB (envB.set notb wn) s4 s4n :=
                            ext_set_fresh _ _ hnfresh (fun m _ => by rw [hncast])
                          have x2 : Ext (envB.set notb wn) ((envB.set notb wn).set condOut w) s4n s4a :=
                            ext_set_fresh _ _ hofresh (fun m _ => by rw [hocast])
                          exact x1.trans k4n.mono x2
                        have cs4a : CastSub s4a := k4a.sub invB.cast
                        have invC : Inv S (vunion F [b]) ρ1 L2 ((envB.set notb wn).set condOut w) s4a :=
                          invB.ext xC k4a.mono cs4a
                        have hfO : ∀ pv, pv ∈ state → ∀ m, lookup L2 pv = some (.val m) →
                            ∃ v, ((envB.set notb wn).set condOut w) m = some v ∧ ρ1 pv = some (.t v) := by
                          intro pv hpv m hl
                          cases hq : ρ1 pv with
                          | none => exact absurd hq (invC.bound pv m hl)
                          | some q =>
                            obtain ⟨v', rfl⟩ := invC.allT pv q hq (hfreeS pv hpv).2
                            obtain ⟨m2, hlm, hrm⟩ := invC.rel pv _
                              (restrict_some.mpr ⟨mem_vunion.mpr (Or.inl (hstF pv hpv)), hq⟩)
                            rw [hl] at hlm
                            cases hlm
                            exact ⟨v', hrm.1, rfl⟩
                        obtain ⟨envD, evD, xD, _, mD, aD⟩ :=
                          loopOutputs_sim S G hId L2 state
                            (bn ++ [Node.op "" "Not" [some nb] [notb] [], Node.op "" "And" [some n2, some notb] [condOut] []])
                            [condOut] invC.vis (hfreeS.mono hAM2) hfO h5b
                        obtain ⟨rs, hrs, hallD⟩ := outs_values aD
                        have hcoD : envD condOut = some w := by
                          rw [xD.envSame condOut (by rw [houused]; exact List.mem_cons_self)]
                          exact Env.set_same _ _ _
                        have hbodyk : loopBodyFn S (fun e => evalNodes S G e
                            (bn ++ ([Node.op "" "Not" [some nb] [notb] [], Node.op "" "And" [some n2, some notb] [condOut] []]
                              ++ ns3))) env
                            (iv :: condIn :: ps) (condOut :: os) k cnd st = some (w, rs) := by
                          unfold loopBodyFn
                          have : evalNodes S G (Env.setMany env (iv :: condIn :: ps) (S.ofNat k :: cnd :: st))
                              (bn ++ ([Node.op "" "Not" [some nb] [notb] [], Node.op "" "And" [some n2, some notb] [condOut] []]
                                ++ ns3)) = some envD :=
                            evalNodes_seq evBG (evalNodes_seq evC evD)
                          simp only [this, Env.getMany, List.mapM_cons, hcoD, hrs]
                          rfl
                        have hal1 : AlongW S ρ ρ1 d :=
                          ⟨run1.allT, fun x hx => run1.dom x (hal.dom x hx),
                           fun x hxd => by rw [run1.frame d hd x hxd]; exact hal.frame x hxd⟩
                        cases bk with
                        | true =>
                          subst ho1
                          simp only [if_true] at hit
                          cases hit
                          have hwfalse : S.truth w = some false := hwf (by simp)
                          refine ⟨rs, ?_, hallD, hal1⟩
                          unfold loopIter
                          simp only [htt, hbodyk]
                          cases a' with
                          | zero => omega
                          | succ a'' => simp [loopIter, hwfalse]
                        | false =>
                          subst ho1
                          simp only [Bool.false_eq_true, if_false] at hit
                          have hwv : S.truth w = S.truth v1 := hwt (by simp)
                          obtain ⟨stf, hit', hRf, halF⟩ :=
                            ih (k + 1) ρ1 ρf rs w ⟨v1, hq1, hwv⟩ hal1 hallD hit G a' hG (by omega)
                          refine ⟨stf, ?_, hRf, halF⟩
                          unfold loopIter
                          simp only [htt, hbodyk]
                          simpa using hit'
          -- the values the loop starts with
          have hf0 : ∀ x, x ∈ state → ∀ m, lookup L x = some (.val m) →
              ∃ v, env m = some v ∧ ρ x = some (PV.t v) := by
            intro x hx m hl
            cases hq : ρ x with
            | none => exact absurd hq (hinv.bound x m hl)
            | some q =>
              obtain ⟨v, rfl⟩ := hinv.allT x q hq (hfreeS x hx).2
              obtain ⟨m', hl', hr⟩ := hinv.rel x _ (restrict_some.mpr ⟨hstF x hx, hq⟩)
              rw [hl] at hl'
              cases hl'
              exact ⟨v, hr.1, rfl⟩
          obtain ⟨st0, hst0, hR0⟩ := inits_values hinits hf0
          have hal0 : AlongW S ρ ρ d := ⟨hinv.allT, fun _ hx => hx, fun _ _ => rfl⟩
          obtain ⟨stf, hloop, hRf, halF⟩ :=
            iter fuel 0 ρ ρ' st0 v0 ⟨v0, hρt, rfl⟩ hal0 hR0 he (fuel + 2) (fuel + 2) (by omega) (Nat.le_refl _)
          -- the Loop node
          obtain ⟨m6, f6, l6⟩ := genUniques_fresh _ h5d
          have hc6 := genUniques_castable _ h5d
          have k36 : CastOK s3 s6 :=
            k4.trans (k4a.trans ((loopOutputs_cast _ _ _ _ h5b).trans (genUniques_cast _ h5d)))
          have k06 : CastOK s s6 := k03.trans k36
          have hlen : stf.length = outs.length := by rw [all2_len hRf, l6]
          have evLoop : evalNodes S (fuel + 2 + 1) env
              [Node.loop none (some oc) inits outs (iv :: condIn :: ps)
                (bn ++ ([Node.op "" "Not" [some nb] [notb] [], Node.op "" "And" [some n2, some notb] [condOut] []] ++ ns3))
                (condOut :: os)]
              = some (env.setMany outs stf) := by
            simp only [List.cons_append, List.nil_append] at hloop
            simp [evalNodes, evalNode, Env.getOpt, hr0.1, Env.getMany, hst0, loopResult, loopTrip,
              loopCond0, hloop, hlen]
          have hnotin : ∀ m, m ∈ s.used → m ∉ outs := fun m hm hmo =>
            (f6.2 m hmo).1 ((k03.trans (k4.trans (k4a.trans (loopOutputs_cast _ _ _ _ h5b)))).mono m hm)
          have xfin : Ext env (env.setMany outs stf) s s6 :=
            ⟨fun m hm => envSetMany_frame outs stf env m (hnotin m hm), k06.ext⟩
          refine ⟨fuel + 2 + 1, env.setMany outs stf, ?_, ?_, xfin⟩
          · simpa using evLoop
          · refine ⟨hvisF, hinv.noattr.bindValsT _ _ (TFree.of_free hinv.noattr hfreeS), k06.sub hinv.cast, halF.allT, ?_, ?_⟩
            · intro y q hy
              obtain ⟨hm, hq⟩ := restrict_some.mp hy
              by_cases hys : y ∈ state
              · obtain ⟨r, v, hl, hev, hρ, hrn⟩ := bind_set state outs stf L env f6.1 l6 hRf y hys
                rw [hρ] at hq
                cases hq
                refine ⟨r, hl, hev, ?_⟩
                intro hcst
                rw [hc6] at hcst
                exact (f6.2 r hrn).1 ((k03.trans (k4.trans (k4a.trans (loopOutputs_cast _ _ _ _ h5b)))).sub
                  hinv.cast r hcst)
              · have hyd : y ∉ d := fun hdm => hys ((hstate y).mpr ⟨hdm, Or.inr hm⟩)
                rw [halF.frame y hyd] at hq
                obtain ⟨m', hl, hr⟩ := hinv.rel y q (restrict_some.mpr ⟨hW.lo_sub y hm, hq⟩)
                exact ⟨m', by rw [lookup_bindVals_notin _ _ _ hys]; exact hl, hr.ext (hinv.vis.lookup hl) xfin⟩
            · intro y m hl
              by_cases hys : y ∈ state
              · obtain ⟨v, hv⟩ := all2_mem_right hRf y hys
                rw [hv]; simp
              · rw [lookup_bindVals_notin _ _ _ hys] at hl
                exact halF.dom y (hinv.bound y m hl)

/-! ## The two refusals added by 9b326d7 and 9f69276 -/

/-- A `for` loop whose loop variable is live after the loop is never translated. -/
theorem for_live_target_refused (L : Locals) (i : Name) (ok : Bool) (b : Expr) (body : List Stmt) (lo : VSet)
    (hi : i ∈ lo) (s : St) (r : (Locals × List Node) × St) :
    convStmt L (.for_ i ok b body) lo s ≠ .ok r := by
  intro h
  obtain ⟨⟨L', ns⟩, s'⟩ := r
  unfold convStmt at h
  by_cases hok : ok = true
  · simp only [hok, Bool.not_true, Bool.false_eq_true, if_false] at h
    cases hs : loopState body lo with
    | none => simp only [hs] at h; exact (failM_ok h).elim
    | some state =>
      simp only [hs] at h
      mbind h with p s1 h1
      obtain ⟨ob, ns0⟩ := p
      try dsimp only at h
      mbind h with condIn s2 h2
      have hnl := (forCondIn_ok h2).1
      have hc := List.contains_iff_mem.mpr hi
      rw [hnl] at hc
      cases hc
  · simp only [hok, Bool.not_false, if_true] at h; exact (failM_ok h).elim

/-- A loop without loop-carried state is never translated (fc696f7). -/
theorem stateless_for_refused (L : Locals) (i : Name) (ok : Bool) (b : Expr) (body : List Stmt) (lo : VSet)
    (hs : loopState body lo = some []) (s : St) (r : (Locals × List Node) × St) :
    convStmt L (.for_ i ok b body) lo s ≠ .ok r := by
  intro h
  obtain ⟨⟨L', ns⟩, s'⟩ := r
  unfold convStmt at h
  by_cases hok : ok = true
  · simp only [hok, Bool.not_true, Bool.false_eq_true, if_false, hs] at h
    mbind h with p s1 h1
    obtain ⟨ob, ns0⟩ := p
    try dsimp only at h
    mbind h with condIn s2 h2
    unfold forCondIn at h2
    mbind h2 with c' sx hx
    cases hl : lo.contains i with
    | true => simp only [hl, if_true] at h2; exact (failM_ok h2).elim
    | false =>
      simp only [hl, Bool.false_eq_true, if_false] at h2
      exact (needState_ok h2).1 rfl
  · simp only [hok, Bool.not_false, if_true] at h; exact (failM_ok h).elim

/-- A `return` followed by further statements is never translated. -/
theorem non_last_return_refused (inputs : List Name) (rc : Option Nat) (L : Locals) (es : List Expr) (bare : Bool)
    (st : Stmt) (ss : List Stmt) (outs : List Name) (s : St) (r : (List Node × List Name) × St) :
    convTop inputs rc L (.ret es bare :: st :: ss) outs s ≠ .ok r := by
  intro h
  obtain ⟨⟨ns, outs'⟩, s'⟩ := r
  unfold convTop at h
  mbind h with p s1 h1
  have := (onlyLast_ok h1).1
  simp at this

/-! ## Function level -/

theorem forLine_cons {st : Stmt} {ss : List Stmt} (h : forLine (st :: ss) = true) :
    (∃ es, st = .ret es false ∧ ss = []) ∨
      (forTopStmt st (liveInBlock ss []) = true ∧ forLine ss = true) := by
  unfold forLine at h
  cases st with
  | ret es bare =>
    cases ss with
    | nil =>
      simp only [Bool.not_eq_true'] at h
      subst h
      exact Or.inl ⟨es, rfl, rfl⟩
    | cons s2 ss2 => simp [forTopStmt, ifStmt] at h
  | _ => right; simpa using h

theorem splitBrk_eq {body pre : List Stmt} {t : Name} (h : splitBrk body = some (pre, t)) :
    body = pre ++ brkTail t := by
  unfold splitBrk at h
  cases hl : body.getLast? with
  | none => simp [hl] at h
  | some st =>
    have hbody : body.dropLast ++ [st] = body := by
      have hne : body ≠ [] := by intro hc; subst hc; simp at hl
      have h1 := List.dropLast_concat_getLast hne
      have h2 := List.getLast?_eq_some_getLast hne
      rw [hl] at h2
      injection h2 with h2
      rw [h2]; exact h1
    cases st with
    | brk c =>
      cases c with
      | var t' =>
        simp only [hl, Option.some.injEq, Prod.mk.injEq] at h
        obtain ⟨rfl, rfl⟩ := h
        exact hbody.symm
      | _ => simp [hl] at h
    | _ => simp [hl] at h

theorem for_run (S : Sem V) (fuel : Nat) {i : Name} {b : Expr} {body : List Stmt}
    {ρ : Store V} {o : Outcome V}
    (hrun : ∀ (n k : Nat) (ρ0 : Store V) (o : Outcome V), AllT S ρ0 →
      iterFor S i (fun r => evalBlock S fuel body r) n k ρ0 = some o → ∃ ρ', o = .normal ρ')
    (hρ : AllT S ρ)
    (he : evalStmt S fuel (.for_ i true b body) ρ = some o) : ∃ ρ', o = .normal ρ' := by
  unfold evalStmt at he
  simp only [Bool.not_true, Bool.false_eq_true, if_false] at he
  cases hbe : evalExpr S ρ b with
  | none => simp [hbe] at he
  | some bv =>
    simp only [hbe] at he
    cases hn : natPV S bv with
    | none => simp [hn] at he
    | some n =>
      simp only [hn] at he
      exact hrun n 0 ρ o hρ he

/-- The `while` case of `convStmt`, with the choice whether the iteration-number input is bound to the Python
name `infinite_loop` made explicit. -/
def convWhileAt (L : Locals) (t : Name) (body : List Stmt) (lo : VSet) (bindIt : Bool) : M (Locals × List Node) :=
  match loopState body lo with
  | none => failM .value
  | some state => do
    let condIn ← genUnique t
    let (oc, ns0) ← whileCond L t state
    let (L1, iv, ps) ← loopEnter L "infinite_loop" bindIt state
    let (L2, bn, bc) ← convLoopBody L1 body (loopBodyLo (.while_ (.var t) body) lo)
    let (L', nl) ← loopFinish L L2 state none (some oc) condIn iv ps (some t) bn bc
    pure (L', ns0 ++ nl)

theorem iterWhile_run (S : Sem V) (fuel : Nat) {body : List Stmt} {cond : Store V → Option Bool}
    (hrun : ∀ (ρ0 : Store V) (o : Outcome V), AllT S ρ0 → evalBlock S fuel body ρ0 = some o →
      ∃ ρ1, (o = .normal ρ1 ∨ o = .broke ρ1) ∧ AllT S ρ1) :
    ∀ (fl : Nat) {ρ : Store V} {o : Outcome V}, AllT S ρ →
      iterWhile cond (fun r => evalBlock S fuel body r) fl ρ = some o → ∃ ρ', o = .normal ρ' := by
  intro fl
  induction fl with
  | zero => intro ρ o _ h; simp [iterWhile] at h
  | succ n ih =>
    intro ρ o hρ h
    simp only [iterWhile] at h
    cases hc : cond ρ with
    | none => simp [hc] at h
    | some bc =>
      cases bc with
      | false => simp only [hc] at h; cases h; exact ⟨ρ, rfl⟩
      | true =>
        simp only [hc] at h
        cases hb : evalBlock S fuel body ρ with
        | none => simp [hb] at h
        | some o1 =>
          obtain ⟨ρ1, ho, h1⟩ := hrun ρ o1 hρ hb
          simp only [hb] at h
          rcases ho with rfl | rfl
          · exact ih h1 h
          · simp only at h; cases h; exact ⟨ρ1, rfl⟩

theorem whileAt_step (S : Sem V) (fuel : Nat) (hConst : ∀ l, ∃ c, constOf S l = some c)
    (hId : ∀ v, S.op "" "Identity" [some v] [] = some [v])
    (hTL : ∀ l c b, constOf S l = some c → truthPV S (.py l) = some b → S.truth c = some b)
    (hNot : ∀ v bk, S.truth v = some bk → ∃ w, S.op "" "Not" [some v] [] = some [w] ∧ S.truth w = some (!bk))
    (hAnd : ∀ x y yb, S.truth y = some yb → ∃ w, S.op "" "And" [some x, some y] [] = some [w] ∧
      (yb = false → S.truth w = some false) ∧ (yb = true → S.truth w = S.truth x))
    {t : Name} {body : List Stmt} {lo : VSet} {ρ : Store V} {o : Outcome V} {L L' : Locals} {env : Env V}
    {s s' : St} {ns : List Node}
    (hok : whileOK t body lo = true) (hfree : FreeOf S L (targetsBlock body))
    (hTF : TFree S (targetsStmt (.while_ (.var t) body)))
    (hinv : Inv S (liveInStmt (.while_ (.var t) body) lo) ρ L env s)
    (he : evalStmt S fuel (.while_ (.var t) body) ρ = some o)
    (h : convWhileAt L t body lo false s = .ok ((L', ns), s'))
    (hmono : Mono s s') (hvisF : VisOK s'.used L') :
    ∃ ρ1, o = .normal ρ1 ∧ ∃ G env', evalNodes S G env ns = some env' ∧ Inv S lo ρ1 L' env' s' := by
  have hFeq : liveInStmt (.while_ (.var t) body) lo = loopBodyLo (.while_ (.var t) body) lo := by
    simp [liveInStmt, loopBodyLo]
  rw [hFeq] at hinv
  unfold whileOK at hok
  simp only [Bool.and_eq_true] at hok
  obtain ⟨⟨hbody, hside⟩, hstab⟩ := hok
  cases hd : assignedBlock body with
  | none => simp [hd] at hside
  | some d =>
    cases hs : loopState body lo with
    | none => simp [hd, hs] at hside
    | some state =>
      simp only [hd, hs, Bool.or_eq_true, Bool.not_eq_true', List.contains_iff_mem] at hside
      have hside' : t ∈ state ∨ t ∉ liveInBlock body (loopBodyLo (.while_ (.var t) body) lo) := by
        rcases hside with h' | h'
        · exact Or.inl h'
        · right
          intro hm
          have := List.contains_iff_mem.mpr hm
          rw [h'] at this; cases this
      -- source side
      have htl : S.attrLit t = none := (hTF t (by simp [targetsStmt, bareVar])).1
      have htP : t ∉ S.pyVars := (hTF t (by simp [targetsStmt, bareVar])).2
      have hTFb : TFree S (targetsBlock body) := hTF.sub (fun x hx => by simp [targetsStmt, hx])
      unfold evalStmt at he
      simp only [evalExpr_var_of_none htl] at he
      -- converter side
      unfold convWhileAt at h
      simp only [hs] at h
      mbind h with condIn s2 h2
      mbind h with p s2' h1
      have h1 := whileCond_ok h1
      obtain ⟨oc, ns0⟩ := p
      try dsimp only at h
      mbind h with p s3 h3
      obtain ⟨L1, iv, ps⟩ := p
      try dsimp only at h
      mbind h with p s4 h4
      obtain ⟨L2, bn, bc⟩ := p
      try dsimp only at h
      mbind h with p s5 h5
      obtain ⟨L'', nl⟩ := p
      try dsimp only at h
      obtain ⟨q1, q2⟩ := pure_ok h
      cases q1; subst q2
      unfold loopBodyOK at hbody
      rcases Bool.or_eq_true_iff.mp hbody with hbody | hbody
      · have hW := whileLive_of_stable (t := t) (body := body) (lo := lo)
          (fun X y hy => live_rel_block body (A := []) (X := X) hbody (fun z hz => Or.inr hz) hy) hstab
        obtain ⟨ρ1, rfl⟩ := iterWhile_run S fuel
          (fun ρ0 o h0 hb => by
            obtain ⟨ρ1, ho, r1⟩ := ifBlock_run S fuel body hbody hTFb h0 hb
            exact ⟨ρ1, Or.inl ho, r1.allT⟩) fuel hinv.allT he
        obtain ⟨G, env', ev, inv', _⟩ := while_core S fuel hConst hId (bodyFacts_of_ifBlock S fuel hConst hId hTL _ hbody hTFb) hd hs
          (hW.toE (exposed_eq_live_block body [] hbody)) hside' htP hfree hinv he
          h2 h1 h3 h4 h5 hmono hvisF
        exact ⟨ρ1, rfl, G, env', ev, inv'⟩
      · cases hsp : splitBrk body with
        | none => simp [hsp] at hbody
        | some pt =>
          obtain ⟨pre, b⟩ := pt
          simp only [hsp] at hbody
          have hbd := splitBrk_eq hsp
          have hdp : assignedBlock pre = some d := by rw [← assigned_brk pre b, ← hbd]; exact hd
          have hW := whileLive_of_stable (t := t) (body := body) (lo := lo)
            (fun X y hy => by rw [hbd] at hy ⊢; exact live_rel_brk hbody hy) hstab
          obtain ⟨ρ1, rfl⟩ := iterWhile_run S fuel
            (fun ρ0 o h0 hb => by
              rw [hbd] at hb
              obtain ⟨ρ1, v, bk, _, run1, _, _, ho⟩ := brkBody_run S fuel hbody (hbd ▸ hTFb) h0 hb
              refine ⟨ρ1, ?_, run1.allT⟩
              cases bk with
              | true => right; simpa using ho
              | false => left; simpa using ho) fuel hinv.allT he
          obtain ⟨G, env', ev, inv', _⟩ := whileB_core S fuel hConst hId hTL hNot hAnd hbd hbody hdp hs hW hside' htP
            (hTFb b (by rw [hbd, targets_brk]; simp))
            (hfree.sub (fun x hx => by rw [hbd, targets_brk]; exact List.mem_append_left _ hx)) hinv he h2 h1 h3 h4 h5 hmono hvisF
          exact ⟨ρ1, rfl, G, env', ev, inv'⟩

theorem convStmt_while (L : Locals) (t : Name) (body : List Stmt) (lo : VSet) :
    convStmt L (.while_ (.var t) body) lo = convWhileAt L t body lo false := by
  unfold convStmt convWhileAt
  rfl

theorem stateless_while_refused (L : Locals) (t : Name) (body : List Stmt) (lo : VSet)
    (hs : loopState body lo = some []) (s : St) (r : (Locals × List Node) × St) :
    convStmt L (.while_ (.var t) body) lo s ≠ .ok r := by
  intro h
  obtain ⟨⟨L', ns⟩, s'⟩ := r
  rw [convStmt_while] at h
  unfold convWhileAt at h
  simp only [hs] at h
  mbind h with condIn s2 h2
  mbind h with p s2' h1
  unfold whileCond at h1
  mbind h1 with r' sx hx
  exact (needState_ok h1).1 rfl

theorem top_step (S : Sem V) (fuel : Nat) (hConst : ∀ l, ∃ c, constOf S l = some c)
    (hId : ∀ v, S.op "" "Identity" [some v] [] = some [v])
    (hTL : ∀ l c b, constOf S l = some c → truthPV S (.py l) = some b → S.truth c = some b) (hT : S.truth (S.ofBool true) = some true)
    (hNat : ∀ k c, constOf S (.int k) = some c → S.natOf c = some k.toNat)
    (hNot : ∀ v bk, S.truth v = some bk → ∃ w, S.op "" "Not" [some v] [] = some [w] ∧ S.truth w = some (!bk))
    (hAnd : ∀ x y yb, S.truth y = some yb → ∃ w, S.op "" "And" [some x, some y] [] = some [w] ∧
      (yb = false → S.truth w = some false) ∧ (yb = true → S.truth w = S.truth x))
    (st : Stmt) (lo : VSet) {ρ : Store V} {o : Outcome V} {L L' : Locals} {env : Env V} {s s' : St}
    {ns : List Node} (hst : forTopStmt st lo = true) (hfree : FreeOf S L (targetsStmt st))
    (hinv : Inv S (liveInStmt st lo) ρ L env s)
    (he : evalStmt S fuel st ρ = some o) (h : convStmt L st lo s = .ok ((L', ns), s')) :
    ∃ ρ1, o = .normal ρ1 ∧ ∃ G env', evalNodes S G env ns = some env' ∧ Inv S lo ρ1 L' env' s' := by
  have hTF : TFree S (targetsStmt st) := TFree.of_free hinv.noattr hfree
  by_cases hfor : ∃ i ok b body, st = .for_ i ok b body
  · obtain ⟨i, ok, b, body, rfl⟩ := hfor
    have hiF := hTF i (by simp [targetsStmt])
    have hTFb : TFree S (targetsBlock body) := hTF.sub (fun x hx => by simp [targetsStmt, hx])
    simp only [forTopStmt, forOK, Bool.and_eq_true] at hst
    obtain ⟨rfl, ⟨hbody, hdd⟩, hstab⟩ := hst
    cases hd : assignedBlock body with
    | none => simp [hd] at hdd
    | some d =>
      simp only [hd, Bool.not_eq_true'] at hdd
      have hid : i ∉ d := by
        intro hm
        have : d.contains i = true := List.contains_iff_mem.mpr hm
        rw [hdd] at this; cases this
      unfold loopBodyOK at hbody
      rcases Bool.or_eq_true_iff.mp hbody with hbody | hbody
      · obtain ⟨ρ1, rfl⟩ := for_run S fuel
          (fun n k ρ0 o h0 hit => by
            obtain ⟨ρ', ho, _⟩ := iterFor_run S fuel i hbody hTFb hd n k h0 hit
            exact ⟨ρ', ho⟩) hinv.allT he
        obtain ⟨G, env', ev, inv', _, _⟩ := for_step S fuel hConst hId hT hNat (bodyFacts_of_ifBlock S fuel hConst hId hTL _ hbody hTFb) hd hid hiF
          (hfree.sub (fun x hx => by simp [targetsStmt, hx]))
          ((forLive_of_stable hbody hstab).toE (exposed_eq_live_block body [] hbody)) hinv he h
        exact ⟨ρ1, rfl, G, env', ev, inv'⟩
      · cases hsp : splitBrk body with
        | none => simp [hsp] at hbody
        | some pt =>
          obtain ⟨pre, t⟩ := pt
          simp only [hsp] at hbody
          have hbd := splitBrk_eq hsp
          have hdp : assignedBlock pre = some d := by rw [← assigned_brk pre t, ← hbd]; exact hd
          obtain ⟨ρ1, rfl⟩ := for_run S fuel
            (fun n k ρ0 o h0 hit => by
              rw [hbd] at hit
              exact iterForB_run S fuel i hbody (hbd ▸ hTFb) n k h0 hit) hinv.allT he
          have hF := forLive_of_stable' (i := i) (ok := true) (b := b) (body := body) (lo := lo)
            (fun X y hy => by rw [hbd] at hy ⊢; exact live_rel_brk hbody hy) hstab
          obtain ⟨G, env', ev, inv', _, _⟩ := forB_step S fuel hConst hId hTL hT hNot hbd hNat hbody hdp hid hiF
            (hTFb t (by rw [hbd, targets_brk]; simp))
            (hfree.sub (fun x hx => by
              simp only [targetsStmt, List.mem_cons]
              exact Or.inr (by rw [hbd, targets_brk]; exact List.mem_append_left _ hx)))
            hF hinv he h
          exact ⟨ρ1, rfl, G, env', ev, inv'⟩
  · by_cases hwh : ∃ t body, st = .while_ (.var t) body
    · obtain ⟨t, body, rfl⟩ := hwh
      simp only [forTopStmt] at hst
      have hfr := convStmt_fresh L _ lo h
      have hsc := convStmt_scope L _ lo hinv.vis (fun x hx => hx) h
      rw [convStmt_while] at h
      exact whileAt_step S fuel hConst hId hTL hNot hAnd hst (hfree.sub (fun x hx => by simp [targetsStmt, hx])) hTF hinv he h hfr.1
        (hsc.2.mono (fun y hy => after_in_used hfr hy))
    have hif : ifStmt st = true := by
      cases st with
      | for_ i ok b body => exact absurd ⟨i, ok, b, body, rfl⟩ hfor
      | while_ c body =>
        cases c with
        | var t => exact absurd ⟨t, body, rfl⟩ hwh
        | _ => simp [forTopStmt, ifStmt] at hst
      | _ => exact hst
    obtain ⟨ρ1, rfl, _⟩ := ifStmt_run S fuel st hif hTF hinv.allT he
    obtain ⟨env1, ev1, inv1, _, _⟩ := stmt_step S fuel hConst hId hTL st _ hif hfree hinv he h
    exact ⟨ρ1, rfl, fuel, env1, ev1, inv1⟩

theorem convTop_for_sim (S : Sem V) (fuel : Nat) (hConst : ∀ l, ∃ c, constOf S l = some c)
    (hId : ∀ v, S.op "" "Identity" [some v] [] = some [v])
    (hTL : ∀ l c b, constOf S l = some c → truthPV S (.py l) = some b → S.truth c = some b) (hT : S.truth (S.ofBool true) = some true)
    (hNat : ∀ k c, constOf S (.int k) = some c → S.natOf c = some k.toNat)
    (hNot : ∀ v bk, S.truth v = some bk → ∃ w, S.op "" "Not" [some v] [] = some [w] ∧ S.truth w = some (!bk))
    (hAnd : ∀ x y yb, S.truth y = some yb → ∃ w, S.op "" "And" [some x, some y] [] = some [w] ∧
      (yb = false → S.truth w = some false) ∧ (yb = true → S.truth w = S.truth x))
    {inputs : List Name} {rc : Option Nat} :
    ∀ (body : List Stmt) (L : Locals) {ρ : Store V} {env : Env V} {s s' : St} {ns : List Node}
      {outs : List Name} {pvs : List (PV V)} {vs : List V},
      forLine body = true → FreeOf S L (targetsBlock body) → Inv S (liveInBlock body []) ρ L env s →
      evalBlock S fuel body ρ = some (.returned pvs) → pvs.mapM (toTensor S) = some vs →
      convTop inputs rc L body [] s = .ok ((ns, outs), s') →
      ∃ G env', evalNodes S G env ns = some env' ∧ outs.mapM env' = some vs := by
  intro body
  induction body with
  | nil => intro L ρ env s s' ns outs pvs vs hi; simp [forLine] at hi
  | cons st ss ih =>
    intro L ρ env s s' ns outs pvs vs hi hfree hinv he hv h
    rcases forLine_cons hi with ⟨es, rfl, rfl⟩ | ⟨hst, hss⟩
    · obtain ⟨env', ev, hm⟩ := convTop_if_sim S fuel hConst hId hTL [.ret es false] L (by simp [ifLine])
        hfree hinv he hv h
      exact ⟨fuel, env', ev, hm⟩
    · unfold liveInBlock at hinv
      unfold evalBlock at he
      cases hs : evalStmt S fuel st ρ with
      | none => simp [hs] at he
      | some o1 =>
        have hnr : ∀ es b, st ≠ .ret es b := by
          intro es b hc
          subst hc
          simp [forTopStmt, ifStmt] at hst
        rw [convTop_cons_nonret inputs rc L st ss [] hnr] at h
        mbind h with p s1 h1
        obtain ⟨L1, ns1⟩ := p
        try dsimp only at h
        mbind h with p s2 h2
        obtain ⟨ns2, outs2⟩ := p
        try dsimp only at h
        obtain ⟨q1, q2⟩ := pure_ok h
        cases q1
        obtain ⟨ρ1, rfl, G1, env1, ev1, inv1⟩ :=
          top_step S fuel hConst hId hTL hT hNat hNot hAnd st _ hst hfree.head.1 hinv hs h1
        simp only [hs] at he
        obtain ⟨G2, env2, ev2, hm2⟩ := ih L1 hss (hfree.head.2.mono (convStmt_attrMono L st _ h1)) inv1 he hv h2
        exact ⟨max G1 G2, env2,
          evalNodes_seq (evalNodes_mono S ns1 G1 _ _ _ (Nat.le_max_left _ _) ev1)
            (evalNodes_mono S _ G2 _ _ _ (Nat.le_max_right _ _) ev2), hm2⟩

/-- The function-level wrapper shared by the refinement theorems: the invariant holds at the head of the body,
so a simulation of the body (`hsim`) gives the refinement. -/
theorem convert_correct_via (S : Sem V) {f : Func} {g : Graph} {ts : List Name}
    (hattr : ∀ p, p ∈ attrParams f.params → p ∉ ts)
    (hσ : ∀ x l, S.attrLit x = some l → ∃ ty, Param.attr x ty ∈ f.params ∧ AttrVal S x ty l)
    (hPy : ∀ x, x ∈ S.pyVars → x ∉ ts)
    (hnames : (f.params.map Param.name).Nodup) (h : convert f = .ok g)
    {fuel : Nat} {args vs : List V} (he : evalFunc S fuel f args = some vs)
    (hsim : ∀ {ρ : Store V} {env : Env V} {s s' : St} {ns : List Node} {outs : List Name} {pvs : List (PV V)},
      FreeOf S [paramFrame f.params] ts →
      Inv S (liveInBlock f.body []) ρ [paramFrame f.params] env s →
      evalBlock S fuel f.body ρ = some (.returned pvs) → pvs.mapM (toTensor S) = some vs →
      convTop (tensorParams f.params) f.retCount [paramFrame f.params] f.body [] s = .ok ((ns, outs), s') →
      ∃ G env', evalNodes S G env ns = some env' ∧ outs.mapM env' = some vs) :
    ∃ G, evalGraph S G g args = some vs := by
  obtain ⟨h, _, d0, ha0⟩ := convert_core h
  unfold convertCore at h
  cases ha : assignedBlock f.body with
  | none => rw [ha] at ha0; cases ha0
  | some d =>
    simp only at h
    cases hc : convTop (tensorParams f.params) f.retCount [paramFrame f.params] f.body []
        { used := (tensorParams f.params).reverse, next := 0, castable := [] } with
    | error e => rw [hc] at h; cases h
    | ok r =>
      obtain ⟨⟨ns, outs⟩, s'⟩ := r
      rw [hc] at h
      cases h
      unfold evalFunc at he
      simp only at he
      by_cases hlen : args.length = (tensorParams f.params).length
      · rw [if_pos hlen] at he
        cases hb : evalBlock S fuel f.body
            (Store.setMany (fun _ => none) (tensorParams f.params) (args.map PV.t)) with
        | none => simp [hb] at he
        | some o =>
          cases o with
          | normal _ => simp [hb] at he
          | broke _ => simp [hb] at he
          | returned pvs =>
            simp only [hb] at he
            have hrelst := setMany_rel (tensorParams f.params) args (fun _ => none) (fun _ => none)
              (fun _ => rfl)
            have hL : VisOK (tensorParams f.params).reverse [paramFrame f.params] := by
              intro fr hfr p hp n hn
              simp only [List.mem_singleton] at hfr
              subst hfr
              simpa using paramFrame_vis _ p hp n hn
            have hinv : Inv S (liveInBlock f.body [])
                (Store.setMany (fun _ => none) (tensorParams f.params) (args.map PV.t))
                [paramFrame f.params] (Env.setMany (fun _ => none) (tensorParams f.params) args)
                { used := (tensorParams f.params).reverse, next := 0, castable := [] } := by
              refine ⟨hL, noAttrBind_paramFrame _ hnames hσ, (fun n hn => by cases hn), ?_, ?_, ?_⟩
              · intro x pv hx
                rw [hrelst] at hx
                cases hev : Env.setMany (fun _ => none) (tensorParams f.params) args x with
                | none => simp [hev] at hx
                | some v => simp only [hev, Option.map_some] at hx; cases hx; exact fun _ => ⟨v, rfl⟩
              · intro x pv hx
                obtain ⟨_, hx⟩ := restrict_some.mp hx
                rw [hrelst] at hx
                cases hev : Env.setMany (fun _ => none) (tensorParams f.params) args x with
                | none => simp [hev] at hx
                | some v =>
                  simp only [hev, Option.map_some] at hx
                  cases hx
                  have hmem : x ∈ tensorParams f.params := by
                    rcases setMany_dom _ _ _ _ _ hev with h' | h'
                    · exact h'
                    · cases h'
                  refine ⟨x, ?_, hev, by simp⟩
                  simp only [lookup]
                  rw [paramFrame_find _ x hnames hmem]
              · intro x n hl
                obtain ⟨fr, hfr, hm⟩ := lookup_mem hl
                simp only [List.mem_singleton] at hfr
                subst hfr
                exact setMany_defined _ _ _ x (by simpa using hlen.symm) (paramFrame_key _ x n hm)
            obtain ⟨G, env', ev, hm⟩ := hsim (freeOf_paramFrame _ _ hattr hPy) hinv hb he hc
            refine ⟨G, ?_⟩
            unfold evalGraph
            simp only [hlen, if_true, ev]
            exact hm
      · rw [if_neg hlen] at he; cases he

/-- **Refinement for functions made of assignments, nested `if`/`else`, `for i in range(n)` and `while t` loops
(with or without a trailing `if b: break`).**
The graph may need more evaluation fuel than the Python run (one unit per nesting level plus the trip
count), so the conclusion is for some fuel; by `evalNodes_mono` it then holds for every larger one. -/
theorem convert_correct_for (S : Sem V) (hConst : ∀ l, ∃ c, constOf S l = some c)
    (hId : ∀ v, S.op "" "Identity" [some v] [] = some [v])
    (hTL : ∀ l c b, constOf S l = some c → truthPV S (.py l) = some b → S.truth c = some b) (hT : S.truth (S.ofBool true) = some true)
    (hNat : ∀ k c, constOf S (.int k) = some c → S.natOf c = some k.toNat)
    (hNot : ∀ v bk, S.truth v = some bk → ∃ w, S.op "" "Not" [some v] [] = some [w] ∧ S.truth w = some (!bk))
    (hAnd : ∀ x y yb, S.truth y = some yb → ∃ w, S.op "" "And" [some x, some y] [] = some [w] ∧
      (yb = false → S.truth w = some false) ∧ (yb = true → S.truth w = S.truth x))
    {f : Func} {g : Graph}
    (hil : forLine f.body = true) (hattr : ∀ p, p ∈ attrParams f.params → p ∉ targetsBlock f.body)
    (hσ : ∀ x l, S.attrLit x = some l → ∃ ty, Param.attr x ty ∈ f.params ∧ AttrVal S x ty l)
    (hPy : ∀ x, x ∈ S.pyVars → x ∉ targetsBlock f.body)
    (hnames : (f.params.map Param.name).Nodup) (h : convert f = .ok g)
    {fuel : Nat} {args vs : List V} (he : evalFunc S fuel f args = some vs) :
    ∃ G, evalGraph S G g args = some vs :=
  convert_correct_via S hattr hσ hPy hnames h he
    (fun hfree hinv hb he' hc => convTop_for_sim S fuel hConst hId hTL hT hNat hNot hAnd f.body _ hil hfree hinv hb he' hc)

end OV.C01
