import OV.Lemmas.C01SimIf
/-!
# Lemmas for C01: forward simulation for `for i in range(n)` loops (no break)

* evaluation of node lists is monotone in the fuel (`evalNodes_mono`);
* on the `if` fragment the exposed-uses analysis and the liveness analysis coincide, and liveness is
  monotone and "splits" (`live_split`), which ties `loop_state_vars` to the live set of the loop body;
* the ONNX `Loop` iteration simulates Python's `for`, by induction on the remaining trip count.
-/
namespace OV.C01

variable {V : Type}

/-! ## Fuel monotonicity of graph evaluation -/

theorem loopIter_mono (S : Sem V) {body body' : Nat → V → List V → Option (V × List V)}
    (hb : ∀ i c st x, body i c st = some x → body' i c st = some x) :
    ∀ (a a' : Nat), a ≤ a' → ∀ (left : Option Nat) (k : Nat) (c : V) (st r : List V),
      loopIter S body a left k c st = some r → loopIter S body' a' left k c st = some r := by
  intro a
  induction a with
  | zero => intro a' _ left k c st r h; simp [loopIter] at h
  | succ n ih =>
    intro a' hle left k c st r h
    cases a' with
    | zero => omega
    | succ n' =>
      unfold loopIter at h ⊢
      cases left with
      | some l =>
        cases l with
        | zero => simpa using h
        | succ l' =>
          simp only at h ⊢
          cases ht : S.truth c with
          | none => simp [ht] at h
          | some b =>
            cases b with
            | false => simpa [ht] using h
            | true =>
              simp only [ht] at h ⊢
              cases hbd : body k c st with
              | none => simp [hbd] at h
              | some x =>
                obtain ⟨c', st'⟩ := x
                rw [hb _ _ _ _ hbd]
                simp only [hbd] at h
                exact ih n' (by omega) _ _ _ _ _ h
      | none =>
        simp only at h ⊢
        cases ht : S.truth c with
        | none => simp [ht] at h
        | some b =>
          cases b with
          | false => simpa [ht] using h
          | true =>
            simp only [ht] at h ⊢
            cases hbd : body k c st with
            | none => simp [hbd] at h
            | some x =>
              obtain ⟨c', st'⟩ := x
              rw [hb _ _ _ _ hbd]
              simp only [hbd] at h
              exact ih n' (by omega) _ _ _ _ _ h

theorem loopResult_mono (S : Sem V) {body body' : Nat → V → List V → Option (V × List V)}
    (hb : ∀ i c st x, body i c st = some x → body' i c st = some x) (a a' : Nat) (hle : a ≤ a')
    (bv cv : Option V) (st0 r : List V) (h : loopResult S body a bv cv st0 = some r) :
    loopResult S body' a' bv cv st0 = some r := by
  unfold loopResult at h ⊢
  cases ht : loopTrip S bv with
  | none => simp [ht] at h
  | some left =>
    simp only [ht] at h ⊢
    exact loopIter_mono S hb a a' hle left 0 _ st0 r h

theorem loopBodyFn_mono (S : Sem V) {ev ev' : Env V → Option (Env V)}
    (he : ∀ e r, ev e = some r → ev' e = some r) (ρ : Env V) (bi bo : List Name) :
    ∀ i c st x, loopBodyFn S ev ρ bi bo i c st = some x → loopBodyFn S ev' ρ bi bo i c st = some x := by
  intro i c st x h
  unfold loopBodyFn at h ⊢
  cases hv : ev (ρ.setMany bi (S.ofNat i :: c :: st)) with
  | none => simp [hv] at h
  | some ρ' =>
    rw [he _ _ hv]
    simpa [hv] using h

mutual
theorem evalNode_mono (S : Sem V) : ∀ (n : Node) (f f' : Nat) (ρ r : Env V), f ≤ f' →
    evalNode S f ρ n = some r → evalNode S f' ρ n = some r
  | .op dom name ins outs attrs, f, f', ρ, r, _, h => by
    simpa [evalNode] using h
  | .ifN c outs tn to en eo, f, f', ρ, r, hle, h => by
    unfold evalNode at h ⊢
    cases hc : ρ c with
    | none => simp [hc] at h
    | some cv =>
      simp only [hc] at h ⊢
      cases ht : S.truth cv with
      | none => simp [ht] at h
      | some b =>
        cases b with
        | true =>
          simp only [ht] at h ⊢
          cases he : evalNodes S f ρ tn with
          | none => simp [he] at h
          | some ρ' =>
            rw [evalNodes_mono S tn f f' ρ ρ' hle he]
            simpa [he] using h
        | false =>
          simp only [ht] at h ⊢
          cases he : evalNodes S f ρ en with
          | none => simp [he] at h
          | some ρ' =>
            rw [evalNodes_mono S en f f' ρ ρ' hle he]
            simpa [he] using h
  | .loop b c inits outs bi bn bo, f, f', ρ, r, hle, h => by
    cases f with
    | zero => simp [evalNode] at h
    | succ a =>
      cases f' with
      | zero => omega
      | succ a' =>
        unfold evalNode at h ⊢
        simp only at h ⊢
        cases hb : ρ.getOpt b with
        | none => simp [hb] at h
        | some bv =>
          cases hc : ρ.getOpt c with
          | none => simp [hb, hc] at h
          | some cv =>
            cases hi : ρ.getMany inits with
            | none => simp [hb, hc, hi] at h
            | some st0 =>
              simp only [hb, hc, hi] at h ⊢
              cases hl : loopResult S (loopBodyFn S (fun e => evalNodes S a e bn) ρ bi bo) a bv cv st0 with
              | none => simp [hl] at h
              | some rs =>
                rw [loopResult_mono S (loopBodyFn_mono S (fun e r he => evalNodes_mono S bn a a' e r (by omega) he)
                  ρ bi bo) a a' (by omega) bv cv st0 rs hl]
                simpa [hl] using h
theorem evalNodes_mono (S : Sem V) : ∀ (ns : List Node) (f f' : Nat) (ρ r : Env V), f ≤ f' →
    evalNodes S f ρ ns = some r → evalNodes S f' ρ ns = some r
  | [], f, f', ρ, r, _, h => by simpa [evalNodes] using h
  | n :: ns, f, f', ρ, r, hle, h => by
    unfold evalNodes at h ⊢
    cases he : evalNode S f ρ n with
    | none => simp [he] at h
    | some ρ' =>
      rw [evalNode_mono S n f f' ρ ρ' hle he]
      simp only [he] at h
      exact evalNodes_mono S ns f f' ρ' r hle h
end

end OV.C01

namespace OV.C01

variable {V : Type}

/-! ## Exposed uses = liveness on the `if` fragment; liveness splits -/

mutual
theorem exposed_eq_live_stmt : ∀ (st : Stmt) (X : VSet), ifStmt st = true → exposedStmt st X = liveInStmt st X
  | .assign x e, X, _ => by simp [exposedStmt, liveInStmt]
  | .par xs es, X, _ => by simp [exposedStmt, liveInStmt]
  | .skip, X, _ => by simp [exposedStmt, liveInStmt]
  | .ite c t e, X, hi => by
    simp only [ifStmt, Bool.and_eq_true] at hi
    simp only [exposedStmt, liveInStmt, exposed_eq_live_block t X hi.1.2, exposed_eq_live_block e X hi.2]
  | .tuple _ _, _, hi => by simp [ifStmt] at hi
  | .badAssign _ _, _, hi => by simp [ifStmt] at hi
  | .for_ _ _ _ _, _, hi => by simp [ifStmt] at hi
  | .while_ _ _, _, hi => by simp [ifStmt] at hi
  | .brk _, _, hi => by simp [ifStmt] at hi
  | .ret _ _, _, hi => by simp [ifStmt] at hi
  | .unsupported, _, hi => by simp [ifStmt] at hi
theorem exposed_eq_live_block : ∀ (ss : List Stmt) (X : VSet), ifBlock ss = true →
    exposedBlock ss X = liveInBlock ss X
  | [], X, _ => by simp [exposedBlock, liveInBlock]
  | st :: ss, X, hi => by
    simp only [ifBlock, Bool.and_eq_true] at hi
    simp only [exposedBlock, liveInBlock, exposed_eq_live_block ss X hi.2,
      exposed_eq_live_stmt st _ hi.1]
end

mutual
/-- If every member of `Z` is in `A` or in `X`, then every live-in from `Z` is a live-in from `A` or in `X`. -/
theorem live_rel_stmt : ∀ (st : Stmt) {Z A X : VSet} {x : Name}, ifStmt st = true →
    (∀ y, y ∈ Z → y ∈ A ∨ y ∈ X) → x ∈ liveInStmt st Z → x ∈ liveInStmt st A ∨ x ∈ X
  | .assign v e, Z, A, X, x, _, hz, hx => by
    unfold liveInStmt at hx ⊢
    rcases mem_vunion.mp hx with h | h
    · obtain ⟨h1, h2⟩ := mem_vdiff.mp h
      rcases hz x h1 with h' | h'
      · exact Or.inl (mem_vunion.mpr (Or.inl (mem_vdiff.mpr ⟨h', h2⟩)))
      · exact Or.inr h'
    · exact Or.inl (mem_vunion.mpr (Or.inr h))
  | .par vs es, Z, A, X, x, _, hz, hx => by
    unfold liveInStmt at hx ⊢
    rcases mem_vunion.mp hx with h | h
    · obtain ⟨h1, h2⟩ := mem_vdiff.mp h
      rcases hz x h1 with h' | h'
      · exact Or.inl (mem_vunion.mpr (Or.inl (mem_vdiff.mpr ⟨h', h2⟩)))
      · exact Or.inr h'
    · exact Or.inl (mem_vunion.mpr (Or.inr h))
  | .skip, Z, A, X, x, _, hz, hx => by
    unfold liveInStmt at hx ⊢
    exact hz x hx
  | .ite c t e, Z, A, X, x, hi, hz, hx => by
    simp only [ifStmt, Bool.and_eq_true] at hi
    unfold liveInStmt at hx ⊢
    rcases mem_vunion.mp hx with h | h
    · rcases mem_vunion.mp h with h | h
      · rcases live_rel_block t hi.1.2 hz h with h' | h'
        · exact Or.inl (mem_vunion.mpr (Or.inl (mem_vunion.mpr (Or.inl h'))))
        · exact Or.inr h'
      · rcases live_rel_block e hi.2 hz h with h' | h'
        · exact Or.inl (mem_vunion.mpr (Or.inl (mem_vunion.mpr (Or.inr h'))))
        · exact Or.inr h'
    · exact Or.inl (mem_vunion.mpr (Or.inr h))
  | .tuple _ _, _, _, _, _, hi, _, _ => by simp [ifStmt] at hi
  | .badAssign _ _, _, _, _, _, hi, _, _ => by simp [ifStmt] at hi
  | .for_ _ _ _ _, _, _, _, _, hi, _, _ => by simp [ifStmt] at hi
  | .while_ _ _, _, _, _, _, hi, _, _ => by simp [ifStmt] at hi
  | .brk _, _, _, _, _, hi, _, _ => by simp [ifStmt] at hi
  | .ret _ _, _, _, _, _, hi, _, _ => by simp [ifStmt] at hi
  | .unsupported, _, _, _, _, hi, _, _ => by simp [ifStmt] at hi
theorem live_rel_block : ∀ (ss : List Stmt) {Z A X : VSet} {x : Name}, ifBlock ss = true →
    (∀ y, y ∈ Z → y ∈ A ∨ y ∈ X) → x ∈ liveInBlock ss Z → x ∈ liveInBlock ss A ∨ x ∈ X
  | [], Z, A, X, x, _, hz, hx => by
    unfold liveInBlock at hx ⊢
    exact hz x hx
  | st :: ss, Z, A, X, x, hi, hz, hx => by
    simp only [ifBlock, Bool.and_eq_true] at hi
    unfold liveInBlock at hx ⊢
    exact live_rel_stmt st hi.1 (fun y hy => live_rel_block ss hi.2 hz hy) hx
end

theorem live_mono_block {ss : List Stmt} {Z A : VSet} {x : Name} (hi : ifBlock ss = true)
    (hz : ∀ y, y ∈ Z → y ∈ A) (hx : x ∈ liveInBlock ss Z) : x ∈ liveInBlock ss A := by
  rcases live_rel_block ss (X := []) hi (fun y hy => Or.inl (hz y hy)) hx with h | h
  · exact h
  · cases h

/-! ## The fixpoint iteration -/

theorem fixIter_inv (P : VSet → Prop) (step : VSet → VSet) (hstep : ∀ X, P X → P (step X)) :
    ∀ (n : Nat) (X : VSet), P X → P (fixIter step n X) := by
  intro n
  induction n with
  | zero => intro X h; simpa [fixIter] using h
  | succ n ih =>
    intro X h
    unfold fixIter
    simp only
    by_cases he : (step X == X) = true
    · simp only [he, if_true]; exact h
    · simp only [he]; exact ih _ (hstep X h)

/-- What is needed of the live-out set `F` the body of `for i in range(b): body` is translated with. -/
structure ForLive (i : Name) (body : List Stmt) (lo F : VSet) : Prop where
  lo_sub : ∀ y, y ∈ lo → y ∈ F
  back : ∀ y, y ∈ liveInBlock body F → y ≠ i → y ∈ F
  sub_exposed : ∀ y, y ∈ F → y ∈ liveInBlock body [] ∨ y ∈ lo

theorem forLive_of_stable {i : Name} {ok : Bool} {b : Expr} {body : List Stmt} {lo : VSet}
    (hi : ifBlock body = true) (hst : stableStmt (.for_ i ok b body) lo = true) :
    ForLive i body lo (loopBodyLo (.for_ i ok b body) lo) := by
  unfold stableStmt at hst
  simp only [Bool.and_eq_true] at hst
  obtain ⟨⟨h1, h2⟩, _⟩ := hst
  refine ⟨vsubset_mem h1, ?_, ?_⟩
  · intro y hy hne
    exact vsubset_mem h2 y (mem_vdiff.mpr ⟨hy, by simpa using hne⟩)
  · simp only [loopBodyLo]
    apply fixIter_inv (fun X => ∀ y, y ∈ X → y ∈ liveInBlock body [] ∨ y ∈ lo)
    · intro X hX y hy
      rcases mem_vunion.mp hy with h | h
      · obtain ⟨h, _⟩ := mem_vdiff.mp h
        rcases live_rel_block body (A := []) (X := X) hi (fun z hz => Or.inr hz) h with h' | h'
        · exact Or.inl h'
        · exact hX y h'
      · exact Or.inr h
    · intro y hy; exact Or.inr hy

/-! ## Python's `for` over a block of the fragment -/

theorem iterFor_run (S : Sem V) (fuel : Nat) (i : Name) {body : List Stmt} (hi : ifBlock body = true)
    {d : VSet} (hd : assignedBlock body = some d) :
    ∀ (left k : Nat) {ρ : Store V} {o : Outcome V}, AllT ρ →
      iterFor S i (fun r => evalBlock S fuel body r) left k ρ = some o →
      ∃ ρ', o = .normal ρ' ∧ AllT ρ' ∧ (∀ x, ρ x ≠ none → ρ' x ≠ none)
        ∧ (∀ x, x ∉ d → x ≠ i → ρ' x = ρ x) := by
  intro left
  induction left with
  | zero =>
    intro k ρ o hρ h
    simp only [iterFor] at h
    cases h
    exact ⟨ρ, rfl, hρ, fun _ hx => hx, fun _ _ _ => rfl⟩
  | succ n ih =>
    intro k ρ o hρ h
    simp only [iterFor] at h
    cases hb : evalBlock S fuel body (ρ.set i (.t (S.ofNat k))) with
    | none => simp [hb] at h
    | some o1 =>
      obtain ⟨ρ1, rfl, r1⟩ := ifBlock_run S fuel body hi (hρ.set i (S.ofNat k)) hb
      simp only [hb] at h
      obtain ⟨ρ2, ho, a2, d2, f2⟩ := ih (k + 1) r1.allT h
      refine ⟨ρ2, ho, a2, ?_, ?_⟩
      · intro x hx
        apply d2
        apply r1.dom
        unfold Store.set
        by_cases hxi : x = i
        · simp [hxi]
        · simp only [hxi, if_false]; exact hx
      · intro x hxd hxi
        rw [f2 x hxd hxi, r1.frame d hd x hxd]
        unfold Store.set
        simp [hxi]

end OV.C01

namespace OV.C01

variable {V : Type}

/-! ## Translation-side facts about loops -/

theorem ifStmt_not_brk {st : Stmt} (h : ifStmt st = true) : ∀ c, st ≠ .brk c := by
  intro c hc; subst hc; simp [ifStmt] at h

theorem convLoopBody_ifBlock : ∀ (ss : List Stmt) (L : Locals) (lo : VSet) {L' : Locals} {ns : List Node}
    {bc : Option Name} {s s' : St}, ifBlock ss = true →
    convLoopBody L ss lo s = .ok ((L', ns, bc), s') → convStmts L ss lo s = .ok ((L', ns), s') ∧ bc = none := by
  intro ss
  induction ss with
  | nil =>
    intro L lo L' ns bc s s' _ h
    unfold convLoopBody at h
    obtain ⟨e1, e2⟩ := pure_ok h
    cases e1; subst e2
    exact ⟨by simp [convStmts, pure, M.pure], rfl⟩
  | cons st ss ih =>
    intro L lo L' ns bc s s' hi h
    simp only [ifBlock, Bool.and_eq_true] at hi
    rw [convLoopBody_cons_nonbrk L st ss lo (ifStmt_not_brk hi.1)] at h
    mbind h with p s1 h1
    obtain ⟨L1, ns1⟩ := p
    try dsimp only at h
    mbind h with p s2 h2
    obtain ⟨L2, ns2, bc'⟩ := p
    try dsimp only at h
    obtain ⟨e1, e2⟩ := pure_ok h
    cases e1; subst e2
    obtain ⟨h2', rfl⟩ := ih L1 lo hi.2 h2
    refine ⟨?_, rfl⟩
    unfold convStmts
    show (M.bind (convStmt L st (liveInBlock ss lo)) _) s = _
    unfold M.bind
    rw [h1]
    simp only
    show (M.bind (convStmts L1 ss lo) _) s1 = _
    unfold M.bind
    rw [h2']
    rfl

theorem loopParams_eq : ∀ (state : List Name) (L0 : Locals) {L1 : Locals} {ps : List Name} {s s' : St},
    loopParams L0 state s = .ok ((L1, ps), s') → L1 = bindVals L0 state ps ∧ ps.length = state.length := by
  intro state
  induction state with
  | nil =>
    intro L0 L1 ps s s' h
    unfold loopParams at h
    obtain ⟨e1, e2⟩ := pure_ok h
    cases e1
    exact ⟨rfl, rfl⟩
  | cons x xs ih =>
    intro L0 L1 ps s s' h
    unfold loopParams at h
    mbind h with p s1 h1
    mbind h with q s2 h2
    obtain ⟨L'', ps'⟩ := q
    try dsimp only at h
    obtain ⟨e1, e2⟩ := pure_ok h
    cases e1
    obtain ⟨r1, r2⟩ := ih _ h2
    exact ⟨by rw [r1]; rfl, by simp [r2]⟩

theorem loopInits_val (L : Locals) (hA : NoAttrBind L) : ∀ (state : List Name) {inits : List Name}
    {ns : List Node} {s s' : St}, loopInits L state s = .ok ((inits, ns), s') →
    ns = [] ∧ s' = s ∧ All2 (fun n x => lookup L x = some (.val n)) inits state := by
  intro state
  induction state with
  | nil =>
    intro inits ns s s' h
    unfold loopInits at h
    obtain ⟨e1, e2⟩ := pure_ok h
    cases e1
    exact ⟨rfl, e2.symm, All2.nil⟩
  | cons x xs ih =>
    intro inits ns s s' h
    unfold loopInits at h
    mbind h with p s1 h1
    obtain ⟨o, ns1⟩ := p
    try dsimp only at h
    mbind h with p s2 h2
    obtain ⟨os, ns2⟩ := p
    try dsimp only at h
    obtain ⟨e1, e2⟩ := pure_ok h
    cases e1; subst e2
    unfold pyVar at h1
    cases hl : lookup L x with
    | none => simp only [hl] at h1; exact (failM_ok h1).elim
    | some b =>
      cases b with
      | attr p ty => exact absurd hl (hA x p ty)
      | val n =>
        simp only [hl] at h1
        obtain ⟨rfl, rfl, rfl⟩ := toOnnxVar_val h1
        obtain ⟨r1, r2, r3⟩ := ih h2
        subst r1; subst r2
        exact ⟨rfl, rfl, All2.cons _ _ _ _ hl r3⟩

theorem loopOutputs_sim (S : Sem V) (fuel : Nat) (hId : ∀ v, S.op "" "Identity" [some v] [] = some [v])
    {ρ' : Store V} (L2 : Locals) (hA : NoAttrBind L2) :
    ∀ (vs : List Name) (sofar : List Node) (outs : List Name) {env : Env V} {s s' : St} {os : List Name}
      {ns : List Node}, VisOK s.used L2 →
      (∀ pv, pv ∈ vs → ∀ n, lookup L2 pv = some (.val n) → ∃ v, env n = some v ∧ ρ' pv = some (.t v)) →
      loopOutputs L2 vs sofar outs s = .ok ((os, ns), s') →
      ∃ env', evalNodes S fuel env ns = some env' ∧ Ext env env' s s' ∧ s'.castable = s.castable ∧ Mono s s'
        ∧ All2 (fun o pv => ∃ v, env' o = some v ∧ ρ' pv = some (.t v)) os vs := by
  intro vs
  induction vs with
  | nil =>
    intro sofar outs env s s' os ns _ _ h
    unfold loopOutputs at h
    obtain ⟨e1, e2⟩ := pure_ok h
    cases e1; subst e2
    exact ⟨env, evalNodes_nil _ _ _, Ext.refl _ _, rfl, Mono.refl _, All2.nil⟩
  | cons pv rest ih =>
    intro sofar outs env s s' os ns hL hf h
    unfold loopOutputs at h
    have restf : ∀ {env1 : Env V} {s1 : St}, Ext env env1 s s1 → Mono s s1 →
        ∀ q, q ∈ rest → ∀ n, lookup L2 q = some (.val n) → ∃ v, env1 n = some v ∧ ρ' q = some (.t v) := by
      intro env1 s1 e1 _ q hq n hl
      obtain ⟨v, h1, h2⟩ := hf q (List.mem_cons_of_mem _ hq) n hl
      exact ⟨v, by rw [e1.envSame n (hL.lookup hl)]; exact h1, h2⟩
    mbind h with p s1 h1
    obtain ⟨o, ns1⟩ := p
    try dsimp only at h
    unfold pyVar at h1
    cases hl : lookup L2 pv with
    | none => simp only [hl] at h1; exact (failM_ok h1).elim
    | some b =>
      cases b with
      | attr p ty => exact absurd hl (hA pv p ty)
      | val n =>
        simp only [hl] at h1
        obtain ⟨rfl, rfl, rfl⟩ := toOnnxVar_val h1
        obtain ⟨v, hn, hρ⟩ := hf pv List.mem_cons_self o hl
        have hnu : o ∈ s1.used := hL.lookup hl
        by_cases hin : ((topDefs (sofar ++ [])).contains o && !outs.contains o) = true
        · rw [if_pos hin] at h
          mbind h with p s2 h2
          obtain ⟨os', ns2⟩ := p
          try dsimp only at h
          obtain ⟨e1, e2⟩ := pure_ok h
          cases e1; subst e2
          obtain ⟨env3, ev3, x3, hc3, m3, a3⟩ := ih _ _ hL (restf (Ext.refl _ _) (Mono.refl _)) h2
          refine ⟨env3, by simpa using ev3, x3, hc3, m3, ?_⟩
          exact All2.cons _ _ _ _ ⟨v, by rw [x3.envSame _ hnu]; exact hn, hρ⟩ a3
        · rw [if_neg hin] at h
          mbind h with p s2 h2
          obtain ⟨o', nc⟩ := p
          try dsimp only at h
          mbind h with p s3 h3
          obtain ⟨os', ns2⟩ := p
          try dsimp only at h
          obtain ⟨e1, e2⟩ := pure_ok h
          cases e1; subst e2
          obtain ⟨ev2, x2, hu2, m2⟩ := emitCopy_sim S fuel hId hn h2
          have hc2 := emitCopy_castable h2
          obtain ⟨env3, ev3, x3, hc3, m3, a3⟩ := ih _ _ (hL.mono m2) (restf x2 m2) h3
          refine ⟨env3, by simpa using evalNodes_seq ev2 ev3, x2.trans m2 x3, by rw [hc3, hc2], m2.trans m3, ?_⟩
          exact All2.cons _ _ _ _ ⟨v, by rw [x3.envSame _ hu2]; exact Env.set_same _ _ _, hρ⟩ a3

/-! ### Castable bookkeeping of a whole `for` statement -/

theorem loopParams_cast : ∀ (state : List Name) (L0 : Locals) {L1 : Locals} {ps : List Name} {s s' : St},
    loopParams L0 state s = .ok ((L1, ps), s') → CastOK s s' := by
  intro state
  induction state with
  | nil =>
    intro L0 L1 ps s s' h
    unfold loopParams at h
    obtain ⟨_, e2⟩ := pure_ok h
    subst e2
    exact CastOK.refl _
  | cons x xs ih =>
    intro L0 L1 ps s s' h
    unfold loopParams at h
    mbind h with p s1 h1
    mbind h with q s2 h2
    obtain ⟨L'', ps'⟩ := q
    try dsimp only at h
    obtain ⟨_, e2⟩ := pure_ok h
    subst e2
    exact (genUnique_cast h1).trans (ih _ h2)

theorem loopOutputs_cast (L : Locals) : ∀ (vs : List Name) (sofar : List Node) (outs : List Name)
    {os : List Name} {ns : List Node} {s s' : St},
    loopOutputs L vs sofar outs s = .ok ((os, ns), s') → CastOK s s' := by
  intro vs
  induction vs with
  | nil =>
    intro sofar outs os ns s s' h
    unfold loopOutputs at h
    obtain ⟨_, e2⟩ := pure_ok h
    subst e2
    exact CastOK.refl _
  | cons pv rest ih =>
    intro sofar outs os ns s s' h
    unfold loopOutputs at h
    mbind h with p s1 h1
    obtain ⟨o, ns1⟩ := p
    try dsimp only at h
    by_cases hin : ((topDefs (sofar ++ ns1)).contains o && !outs.contains o) = true
    · rw [if_pos hin] at h
      mbind h with p s2 h2
      obtain ⟨os', ns2⟩ := p
      try dsimp only at h
      obtain ⟨_, e2⟩ := pure_ok h
      subst e2
      exact (pyVar_cast h1).trans (ih _ _ h2)
    · rw [if_neg hin] at h
      mbind h with p s2 h2
      obtain ⟨o', nc⟩ := p
      try dsimp only at h
      mbind h with p s3 h3
      obtain ⟨os', ns2⟩ := p
      try dsimp only at h
      obtain ⟨_, e2⟩ := pure_ok h
      subst e2
      exact (pyVar_cast h1).trans ((emitCopy_cast h2).trans (ih _ _ h3))

end OV.C01

namespace OV.C01

variable {V : Type}

theorem loopParams_castable : ∀ (state : List Name) (L0 : Locals) {L1 : Locals} {ps : List Name} {s s' : St},
    loopParams L0 state s = .ok ((L1, ps), s') → s'.castable = s.castable := by
  intro state
  induction state with
  | nil =>
    intro L0 L1 ps s s' h
    unfold loopParams at h
    obtain ⟨_, e2⟩ := pure_ok h
    subst e2; rfl
  | cons x xs ih =>
    intro L0 L1 ps s s' h
    unfold loopParams at h
    mbind h with p s1 h1
    mbind h with q s2 h2
    obtain ⟨L'', ps'⟩ := q
    try dsimp only at h
    obtain ⟨_, e2⟩ := pure_ok h
    subst e2
    rw [ih _ h2, (genUnique_spec h1).2.2]

/-- Decomposition of `loopEnter`. -/
theorem loopEnter_parts {L : Locals} {v : Name} {state : List Name} {L1 : Locals} {iv : Name}
    {ps : List Name} {s s' : St} (h : loopEnter L v state s = .ok ((L1, iv, ps), s')) :
    L1 = bindVals (bindVar ([] :: L) v (.val iv)) state ps ∧ ps.length = state.length
      ∧ s'.castable = s.castable ∧ CastOK s s' := by
  unfold loopEnter at h
  mbind h with iv' s1 h1
  mbind h with p s2 h2
  obtain ⟨L1', ps'⟩ := p
  try dsimp only at h
  obtain ⟨e1, e2⟩ := pure_ok h
  cases e1; subst e2
  obtain ⟨r1, r2⟩ := loopParams_eq _ _ h2
  exact ⟨r1, r2, by rw [loopParams_castable _ _ h2, (genUnique_spec h1).2.2],
    (genUnique_cast h1).trans (loopParams_cast _ _ h2)⟩

theorem envSetMany_cons (env : Env V) (x : Name) (xs : List Name) (v : V) (vs : List V) :
    Env.setMany env (x :: xs) (v :: vs) = Env.setMany (env.set x v) xs vs := rfl

end OV.C01

namespace OV.C01

variable {V : Type}

/-! ## The `Loop` node simulates Python's `for` -/

theorem All2.imp {α β : Type} {R R' : α → β → Prop} {as : List α} {bs : List β} (h : All2 R as bs)
    (hi : ∀ a b, b ∈ bs → R a b → R' a b) : All2 R' as bs := by
  induction h with
  | nil => exact All2.nil
  | cons a b as' bs' hr _ ih =>
    exact All2.cons _ _ _ _ (hi a b List.mem_cons_self hr)
      (ih (fun a' b' hb' => hi a' b' (List.mem_cons_of_mem _ hb')))

theorem all2_mem_right {α β : Type} {R : α → β → Prop} {as : List α} {bs : List β} (h : All2 R as bs) :
    ∀ b, b ∈ bs → ∃ a, R a b := by
  induction h with
  | nil => intro b hb; cases hb
  | cons a b as' bs' hr _ ih =>
    intro b' hb'
    rcases List.mem_cons.mp hb' with rfl | hb'
    · exact ⟨a, hr⟩
    · exact ih b' hb'

theorem inits_values {ρ : Store V} {L : Locals} {env1 : Env V} : ∀ {inits state : List Name},
    All2 (fun n x => lookup L x = some (.val n)) inits state →
    (∀ x, x ∈ state → ∀ n, lookup L x = some (.val n) → ∃ v, env1 n = some v ∧ ρ x = some (PV.t v)) →
    ∃ st0, inits.mapM env1 = some st0 ∧ All2 (fun v x => ρ x = some (PV.t v)) st0 state := by
  intro inits state h
  induction h with
  | nil => intro _; exact ⟨[], by simp, All2.nil⟩
  | cons n x ns xs hl _ ih =>
    intro hf
    obtain ⟨v, hv, hρ⟩ := hf x List.mem_cons_self n hl
    obtain ⟨st, hm, ha⟩ := ih (fun y hy => hf y (List.mem_cons_of_mem _ hy))
    exact ⟨v :: st, by simp [List.mapM_cons, hv, hm], All2.cons _ _ _ _ hρ ha⟩

/-- What stays true of the Python store over the iterations of a loop, relative to the store `ρ` at entry. -/
structure Along (ρ ρk : Store V) (d : VSet) (i : Name) : Prop where
  allT : AllT ρk
  dom : ∀ x, ρ x ≠ none → ρk x ≠ none
  frame : ∀ x, x ∉ d → x ≠ i → ρk x = ρ x

theorem for_step (S : Sem V) (fuel : Nat) (hConst : ∀ l, ∃ c, constOf S l = some c)
    (hId : ∀ v, S.op "" "Identity" [some v] [] = some [v]) (hT : S.truth (S.ofBool true) = some true)
    {i : Name} {b : Expr} {body : List Stmt} {lo d : VSet} {ρ ρ' : Store V} {L L' : Locals} {env : Env V}
    {s s' : St} {ns : List Node}
    (hb : tensorRhs b = true) (hbody : ifBlock body = true) (hd : assignedBlock body = some d)
    (hid : i ∉ d) (hilo : i ∉ lo)
    (hF : ForLive i body lo (loopBodyLo (.for_ i true b body) lo))
    (hinv : Inv S (liveInStmt (.for_ i true b body) lo) ρ L env s)
    (he : evalStmt S fuel (.for_ i true b body) ρ = some (.normal ρ'))
    (h : convStmt L (.for_ i true b body) lo s = .ok ((L', ns), s')) :
    ∃ G env', evalNodes S G env ns = some env' ∧ Inv S lo ρ' L' env' s' ∧ Ext env env' s s' ∧ Mono s s' := by
  have hfr := convStmt_fresh L _ lo h
  have hsc := convStmt_scope L _ lo hinv.vis (fun x hx => hx) h
  generalize hFdef : loopBodyLo (.for_ i true b body) lo = F at hF h
  have hLin : liveInStmt (.for_ i true b body) lo = vunion F (usedVars b) := by
    rw [← hFdef]; simp [liveInStmt, loopBodyLo]
  -- source side
  unfold evalStmt at he
  simp only [Bool.not_true, Bool.false_eq_true, if_false] at he
  cases hbe : evalExpr S ρ b with
  | none => simp [hbe] at he
  | some bv =>
    obtain ⟨bvv, rfl⟩ := tensorRhs_result hinv.allT hb hbe
    simp only [hbe, natPV] at he
    cases hn : S.natOf bvv with
    | none => simp [hn] at he
    | some n =>
      simp only [hn] at he
      -- converter side
      unfold convStmt at h
      simp only [Bool.not_true, Bool.false_eq_true, if_false] at h
      cases hs : loopState body lo with
      | none => simp only [hs] at h; exact (failM_ok h).elim
      | some state =>
        simp only [hs] at h
        mbind h with p s1 h1
        obtain ⟨ob, ns0⟩ := p
        try dsimp only at h
        mbind h with condIn s2 h2
        mbind h with p s3 h3
        obtain ⟨L1, iv, ps⟩ := p
        try dsimp only at h
        mbind h with p s4 h4
        obtain ⟨L2, bn, bc⟩ := p
        try dsimp only at h
        mbind h with p s5 h5
        obtain ⟨L'', nl⟩ := p
        try dsimp only at h
        obtain ⟨q1, q2⟩ := pure_ok h
        cases q1; subst q2
        rw [hFdef] at h4
        obtain ⟨h4c, hbc⟩ := convLoopBody_ifBlock body L1 F hbody h4
        subst hbc
        clear h4
        have h4 := h4c
        clear h4c
        unfold loopFinish at h5
        simp only [loopCondName] at h5
        mbind h5 with condOut s4a h5a
        mbind h5 with p s4b h5b
        obtain ⟨os, ns3⟩ := p
        try dsimp only at h5
        mbind h5 with p s4c h5c
        obtain ⟨inits, ns4⟩ := p
        try dsimp only at h5
        mbind h5 with outs s6 h5d
        obtain ⟨q1, q2⟩ := pure_ok h5
        cases q1; subst q2
        obtain ⟨rfl, rfl, hinits⟩ := loopInits_val L hinv.noattr state h5c
        -- the state variables
        have hstate : ∀ x, x ∈ state ↔ x ∈ d ∧ (x ∈ liveInBlock body [] ∨ x ∈ lo) := by
          intro x
          unfold loopState at hs
          rw [hd] at hs
          simp only at hs
          cases hs
          rw [mem_vinter, mem_vunion]
          unfold exposedUses
          rw [exposed_eq_live_block body [] hbody]
        have histate : i ∉ state := fun hm => hid ((hstate i).mp hm).1
        have hstF : ∀ x, x ∈ state → x ∈ F := by
          intro x hx
          obtain ⟨hxd, hx'⟩ := (hstate x).mp hx
          have hxi : x ≠ i := fun he' => hid (he' ▸ hxd)
          rcases hx' with h' | h'
          · exact hF.back x (live_mono_block hbody (fun _ hy => by cases hy) h') hxi
          · exact hF.lo_sub x h'
        have hFlive : ∀ y, y ∈ F → y ∈ liveInStmt (.for_ i true b body) lo := by
          intro y hy; rw [hLin]; exact mem_vunion.mpr (Or.inl hy)
        -- bound expression
        have hLb : ∀ y, y ∈ usedVars b → y ∈ liveInStmt (.for_ i true b body) lo := by
          intro y hy; rw [hLin]; exact mem_vunion.mpr (Or.inr hy)
        have hbe' : evalExpr S (restrict ρ (liveInStmt (.for_ i true b body) lo)) b = some (.t bvv) := by
          rw [evalExpr_restrict S ρ _ b hLb]; exact hbe
        obtain ⟨env1, ev1, r1, x1, c1⟩ :=
          convExpr_sim S fuel hConst _ L hinv.noattr b _ hinv.vis hinv.rel hinv.cast hbe' h1
        have k1 := convExpr_cast L b _ h1
        -- fresh names of the body inputs
        obtain ⟨hcfresh, hcused, hccast⟩ := genUnique_spec h2
        have k2 := genUnique_cast h2
        obtain ⟨hL1eq, hpslen, hc3, k3⟩ := loopEnter_parts h3
        obtain ⟨m3, f3⟩ := loopEnter_fresh h3
        have hps_nodup : ps.Nodup := (List.nodup_cons.mp f3.1).2
        have hiv_ps : iv ∉ ps := (List.nodup_cons.mp f3.1).1
        have hcondIn2 : condIn ∈ s2.used := by rw [hcused]; exact List.mem_cons_self
        have hcond_ps : condIn ∉ ps := fun hm => (f3.2 condIn (List.mem_cons_of_mem _ hm)).1 hcondIn2
        have hiv_cond : iv ≠ condIn := fun he' => (f3.2 iv List.mem_cons_self).1 (he' ▸ hcondIn2)
        have hbi_fresh : ∀ n, n ∈ s1.used → n ∉ iv :: condIn :: ps := by
          intro n hn hm
          rcases List.mem_cons.mp hm with rfl | hm
          · exact (f3.2 _ List.mem_cons_self).1 (k2.mono _ hn)
          · rcases List.mem_cons.mp hm with rfl | hm
            · exact hcfresh hn
            · exact (f3.2 n (List.mem_cons_of_mem _ hm)).1 (k2.mono _ hn)
        have k03 : CastOK s s3 := k1.trans (k2.trans k3)
        have cs3 : CastSub s3 := k03.sub hinv.cast
        have hnotcast3 : ∀ r, r ∈ iv :: condIn :: ps → r ∉ s3.castable := by
          intro r hr hc
          rw [hc3, hccast] at hc
          exact hbi_fresh r (c1 r hc) hr
        -- scope at the start of the body
        have hcondIn3 : condIn ∈ s3.used := m3 _ hcondIn2
        have hiv3 : iv ∈ s3.used := (f3.2 iv List.mem_cons_self).2
        have hps3 : ∀ p, p ∈ ps → p ∈ s3.used := fun p hp => (f3.2 p (List.mem_cons_of_mem _ hp)).2
        obtain ⟨hvis1, _⟩ := loopEnter_scope (vis := s3.used) h3 (hinv.vis.mono k03.mono) hiv3 hps3
        have hna1 : NoAttrBind L1 := by
          rw [hL1eq]
          exact NoAttrBind.bindVals (NoAttrBind.bindVal
            (fun x p ty hl => hinv.noattr x p ty (by rw [← lookup_push]; exact hl)) i iv) _ _
        have hlk_old : ∀ y, y ∉ state → y ≠ i → lookup L1 y = lookup L y := by
          intro y hy hyi
          rw [hL1eq, lookup_bindVals_notin _ _ _ hy, lookup_bindVar_ne hyi, lookup_push]
        have hlk_i : lookup L1 i = some (.val iv) := by
          rw [hL1eq, lookup_bindVals_notin _ _ _ histate, lookup_bindVar_same]
        generalize hcn : condNode none condIn condOut = cnode at h5b
        have hcnode : cnode = Node.op "" "Identity" [some condIn] [condOut] [] := by
          rw [← hcn]; rfl
        obtain ⟨hofresh, houused, hocast⟩ := genUnique_spec h5a
        have k4 := ifBlock_cast L1 body F hbody h4
        have k4a := genUnique_cast h5a
        -- the invariant at the start of an iteration
        have mkInv : ∀ (k : Nat) (cnd : V) (st : List V) (ρk : Store V), Along ρ ρk d i →
            All2 (fun v x => ρk x = some (PV.t v)) st state →
            Inv S (liveInBlock body F) (ρk.set i (.t (S.ofNat k))) L1
              (Env.setMany env1 (iv :: condIn :: ps) (S.ofNat k :: cnd :: st)) s3 := by
          intro k cnd st ρk hal hR
          have henv_old : ∀ m, m ∈ s1.used →
              (Env.setMany env1 (iv :: condIn :: ps) (S.ofNat k :: cnd :: st)) m = env1 m :=
            fun m hm => envSetMany_frame _ _ _ m (hbi_fresh m hm)
          have hextk : Ext env (Env.setMany env1 (iv :: condIn :: ps) (S.ofNat k :: cnd :: st)) s s3 :=
            ⟨fun m hm => by rw [henv_old m (k1.mono m hm)]; exact x1.envSame m hm, k03.ext⟩
          have hR' : All2 (fun v x => (ρk.set i (PV.t (S.ofNat k))) x = some (PV.t v)) st state :=
            hR.imp (fun v x hx hv => by
              unfold Store.set
              simp only [show x ≠ i from fun he' => histate (he' ▸ hx), if_false]
              exact hv)
          refine ⟨hvis1, hna1, cs3, hal.allT.set i (S.ofNat k), ?_, ?_⟩
          · intro y q hy
            obtain ⟨hyL, hyq⟩ := restrict_some.mp hy
            by_cases hyi : y = i
            · subst hyi
              simp only [Store.set, if_true] at hyq
              cases hyq
              refine ⟨iv, hlk_i, ?_, hnotcast3 iv List.mem_cons_self⟩
              rw [envSetMany_cons, envSetMany_frame _ _ _ iv (by
                intro hm
                rcases List.mem_cons.mp hm with h' | h'
                · exact hiv_cond h'
                · exact hiv_ps h')]
              exact Env.set_same _ _ _
            · by_cases hys : y ∈ state
              · obtain ⟨r, v, hl, hev, hρ, hrn⟩ := bind_set state ps st (bindVar ([] :: L) i (.val iv))
                  ((env1.set iv (S.ofNat k)).set condIn cnd) hps_nodup hpslen hR' y hys
                rw [hρ] at hyq
                cases hyq
                exact ⟨r, by rw [hL1eq]; exact hl, hev,
                  hnotcast3 r (List.mem_cons_of_mem _ (List.mem_cons_of_mem _ hrn))⟩
              · have hyE : y ∈ liveInBlock body [] ∨ y ∈ lo := by
                  rcases live_rel_block body (A := []) (X := F) hbody (fun z hz => Or.inr hz) hyL with h' | h'
                  · exact Or.inl h'
                  · exact hF.sub_exposed y h'
                have hyd : y ∉ d := fun hdm => hys ((hstate y).mpr ⟨hdm, hyE⟩)
                have hyF : y ∈ F := hF.back y hyL hyi
                simp only [Store.set, hyi, if_false] at hyq
                rw [hal.frame y hyd hyi] at hyq
                obtain ⟨m, hl, hr⟩ := hinv.rel y q (restrict_some.mpr ⟨hFlive y hyF, hyq⟩)
                exact ⟨m, by rw [hlk_old y hys hyi]; exact hl, hr.ext (hinv.vis.lookup hl) hextk⟩
          · intro y m hl
            unfold Store.set
            by_cases hyi : y = i
            · simp [hyi]
            · simp only [hyi, if_false]
              by_cases hys : y ∈ state
              · obtain ⟨v, hv⟩ := all2_mem_right hR y hys
                rw [hv]; simp
              · rw [hlk_old y hys hyi] at hl
                exact hal.dom y (hinv.bound y m hl)
        -- the iterations
        have iter : ∀ (left k : Nat) (ρk ρf : Store V) (st : List V), Along ρ ρk d i →
            All2 (fun v x => ρk x = some (PV.t v)) st state →
            iterFor S i (fun r => evalBlock S fuel body r) left k ρk = some (.normal ρf) →
            ∀ (G a : Nat), fuel ≤ G → left + 1 ≤ a →
            ∃ stf, loopIter S (loopBodyFn S (fun e => evalNodes S G e (bn ++ cnode :: ns3)) env1
                (iv :: condIn :: ps) (condOut :: os)) a (some left) k (S.ofBool true) st = some stf
              ∧ All2 (fun v x => ρf x = some (PV.t v)) stf state ∧ Along ρ ρf d i := by
          intro left
          induction left with
          | zero =>
            intro k ρk ρf st hal hR hit G a _ ha
            simp only [iterFor] at hit
            cases hit
            cases a with
            | zero => omega
            | succ a' => exact ⟨st, by simp [loopIter], hR, hal⟩
          | succ left ih =>
            intro k ρk ρf st hal hR hit G a hG ha
            simp only [iterFor] at hit
            cases hbk : evalBlock S fuel body (ρk.set i (.t (S.ofNat k))) with
            | none => simp [hbk] at hit
            | some o1 =>
              obtain ⟨ρ1, rfl, run1⟩ := ifBlock_run S fuel body hbody (hal.allT.set i (S.ofNat k)) hbk
              simp only [hbk] at hit
              have invk := mkInv k (S.ofBool true) st ρk hal hR
              obtain ⟨envB, evB, invB, xB, mB⟩ := block_step S fuel hConst hId body F hbody invk hbk h4
              have evBG := evalNodes_mono S bn fuel G _ _ hG evB
              -- the condition output
              have hcondB : envB condIn = some (S.ofBool true) := by
                rw [xB.envSame condIn hcondIn3, envSetMany_cons, envSetMany_cons,
                  envSetMany_frame _ _ _ condIn hcond_ps]
                exact Env.set_same _ _ _
              have evC : evalNodes S G envB [cnode] = some (envB.set condOut (S.ofBool true)) := by
                rw [hcnode]
                exact evalNodes_op1 (vs := [some (S.ofBool true)])
                  (by simp [List.mapM_cons, Env.getOpt, hcondB]) (hId _)
              have xC : Ext envB (envB.set condOut (S.ofBool true)) s4 s4a :=
                ext_set_fresh _ _ hofresh (fun m _ => by rw [hocast])
              have cs4a : CastSub s4a := k4a.sub invB.cast
              have invC : Inv S F ρ1 L2 (envB.set condOut (S.ofBool true)) s4a :=
                invB.ext xC k4a.mono cs4a
              have hfO : ∀ pv, pv ∈ state → ∀ m, lookup L2 pv = some (.val m) →
                  ∃ v, (envB.set condOut (S.ofBool true)) m = some v ∧ ρ1 pv = some (.t v) := by
                intro pv hpv m hl
                cases hq : ρ1 pv with
                | none => exact absurd hq (invC.bound pv m hl)
                | some q =>
                  obtain ⟨v, rfl⟩ := invC.allT pv q hq
                  obtain ⟨m', hl', hr⟩ := invC.rel pv _ (restrict_some.mpr ⟨hstF pv hpv, hq⟩)
                  rw [hl] at hl'
                  cases hl'
                  exact ⟨v, hr.1, rfl⟩
              obtain ⟨envD, evD, xD, _, mD, aD⟩ :=
                loopOutputs_sim S G hId L2 invC.noattr state (bn ++ [cnode]) [condOut] invC.vis hfO h5b
              obtain ⟨rs, hrs, hallD⟩ := outs_values aD
              have hcoD : envD condOut = some (S.ofBool true) := by
                rw [xD.envSame condOut (by rw [houused]; exact List.mem_cons_self)]
                exact Env.set_same _ _ _
              have hbodyk : loopBodyFn S (fun e => evalNodes S G e (bn ++ cnode :: ns3)) env1
                  (iv :: condIn :: ps) (condOut :: os) k (S.ofBool true) st = some (S.ofBool true, rs) := by
                unfold loopBodyFn
                have : evalNodes S G (Env.setMany env1 (iv :: condIn :: ps) (S.ofNat k :: S.ofBool true :: st))
                    (bn ++ cnode :: ns3) = some envD := by
                  have := evalNodes_seq evBG (evalNodes_seq (a := [cnode]) evC evD)
                  simpa using this
                simp only [this, Env.getMany, List.mapM_cons, hcoD, hrs]
                rfl
              have hal1 : Along ρ ρ1 d i :=
                ⟨run1.allT,
                 fun x hx => run1.dom x (by
                   unfold Store.set
                   by_cases hxi : x = i
                   · simp [hxi]
                   · simp only [hxi, if_false]; exact hal.dom x hx),
                 fun x hxd hxi => by
                   rw [run1.frame d hd x hxd]
                   unfold Store.set
                   simp only [hxi, if_false]
                   exact hal.frame x hxd hxi⟩
              cases a with
              | zero => omega
              | succ a' =>
                obtain ⟨stf, hit', hRf, halF⟩ := ih (k + 1) ρ1 ρf rs hal1 hallD hit G a' hG (by omega)
                refine ⟨stf, ?_, hRf, halF⟩
                unfold loopIter
                simp only [hT, hbodyk]
                simpa using hit'
        -- the values the loop starts with
        have hf0 : ∀ x, x ∈ state → ∀ m, lookup L x = some (.val m) →
            ∃ v, env1 m = some v ∧ ρ x = some (PV.t v) := by
          intro x hx m hl
          cases hq : ρ x with
          | none => exact absurd hq (hinv.bound x m hl)
          | some q =>
            obtain ⟨v, rfl⟩ := hinv.allT x q hq
            obtain ⟨m', hl', hr⟩ := hinv.rel x _ (restrict_some.mpr ⟨hFlive x (hstF x hx), hq⟩)
            rw [hl] at hl'
            cases hl'
            exact ⟨v, by rw [x1.envSame m (hinv.vis.lookup hl)]; exact hr.1, rfl⟩
        obtain ⟨st0, hst0, hR0⟩ := inits_values hinits hf0
        have hal0 : Along ρ ρ d i := ⟨hinv.allT, fun _ hx => hx, fun _ _ _ => rfl⟩
        obtain ⟨stf, hloop, hRf, halF⟩ :=
          iter n 0 ρ ρ' st0 hal0 hR0 he (max fuel (n + 1)) (max fuel (n + 1)) (Nat.le_max_left _ _)
            (Nat.le_max_right _ _)
        -- the Loop node
        obtain ⟨m6, f6, l6⟩ := genUniques_fresh _ h5d
        have hc6 := genUniques_castable _ h5d
        have k36 : CastOK s3 s6 := k4.trans (k4a.trans ((loopOutputs_cast _ _ _ _ h5b).trans (genUniques_cast _ h5d)))
        have k06 : CastOK s s6 := k03.trans k36
        have hlen : stf.length = outs.length := by rw [all2_len hRf, l6]
        have evLoop : evalNodes S (max fuel (n + 1) + 1) env1
            [Node.loop (some ob) none inits outs (iv :: condIn :: ps) (bn ++ cnode :: ns3) (condOut :: os)]
            = some (env1.setMany outs stf) := by
          simp [evalNodes, evalNode, Env.getOpt, r1.1, Env.getMany, hst0, loopResult, loopTrip, hn,
            loopCond0, hloop, hlen]
        have hnotin : ∀ m, m ∈ s.used → m ∉ outs := fun m hm hmo =>
          (f6.2 m hmo).1 ((k03.trans (k4.trans (k4a.trans (loopOutputs_cast _ _ _ _ h5b)))).mono m hm)
        have xfin : Ext env (env1.setMany outs stf) s s6 :=
          ⟨fun m hm => by rw [envSetMany_frame outs stf env1 m (hnotin m hm)]; exact x1.envSame m hm, k06.ext⟩
        refine ⟨max fuel (n + 1) + 1, env1.setMany outs stf, ?_, ?_, xfin, hfr.1⟩
        · have ev1' := evalNodes_mono S ns0 fuel (max fuel (n + 1) + 1) _ _
            (Nat.le_succ_of_le (Nat.le_max_left _ _)) ev1
          simpa using evalNodes_seq ev1' evLoop
        · refine ⟨hsc.2.mono (fun y hy => after_in_used hfr hy), hinv.noattr.bindVals _ _,
            k06.sub hinv.cast, halF.allT, ?_, ?_⟩
          · intro y q hy
            obtain ⟨hm, hq⟩ := restrict_some.mp hy
            by_cases hys : y ∈ state
            · obtain ⟨r, v, hl, hev, hρ, hrn⟩ := bind_set state outs stf L env1 f6.1 l6 hRf y hys
              rw [hρ] at hq
              cases hq
              refine ⟨r, hl, hev, ?_⟩
              intro hcst
              rw [hc6] at hcst
              exact (f6.2 r hrn).1 ((k03.trans (k4.trans (k4a.trans (loopOutputs_cast _ _ _ _ h5b)))).sub
                hinv.cast r hcst)
            · have hyi : y ≠ i := fun he' => hilo (he' ▸ hm)
              have hyd : y ∉ d := fun hdm => hys ((hstate y).mpr ⟨hdm, Or.inr hm⟩)
              rw [halF.frame y hyd hyi] at hq
              obtain ⟨m', hl, hr⟩ := hinv.rel y q (restrict_some.mpr ⟨hFlive y (hF.lo_sub y hm), hq⟩)
              exact ⟨m', by rw [lookup_bindVals_notin _ _ _ hys]; exact hl, hr.ext (hinv.vis.lookup hl) xfin⟩
          · intro y m hl
            by_cases hys : y ∈ state
            · obtain ⟨v, hv⟩ := all2_mem_right hRf y hys
              rw [hv]; simp
            · rw [lookup_bindVals_notin _ _ _ hys] at hl
              exact halF.dom y (hinv.bound y m hl)

/-! ## Function level -/

theorem forLine_cons {st : Stmt} {ss : List Stmt} (h : forLine (st :: ss) = true) :
    (∃ es, st = .ret es false ∧ ss = []) ∨
      (forTopStmt st (liveInBlock ss []) = true ∧ forLine ss = true) := by
  unfold forLine at h
  cases st with
  | ret es bare =>
    cases ss with
    | nil =>
      simp only [Bool.not_eq_true'] at h
      subst h
      exact Or.inl ⟨es, rfl, rfl⟩
    | cons s2 ss2 => simp [forTopStmt, ifStmt] at h
  | _ => right; simpa using h

theorem for_run (S : Sem V) (fuel : Nat) {i : Name} {b : Expr} {body : List Stmt} {d : VSet}
    {ρ : Store V} {o : Outcome V} (hb : tensorRhs b = true) (hbody : ifBlock body = true)
    (hd : assignedBlock body = some d) (hρ : AllT ρ)
    (he : evalStmt S fuel (.for_ i true b body) ρ = some o) : ∃ ρ', o = .normal ρ' := by
  unfold evalStmt at he
  simp only [Bool.not_true, Bool.false_eq_true, if_false] at he
  cases hbe : evalExpr S ρ b with
  | none => simp [hbe] at he
  | some bv =>
    obtain ⟨bvv, rfl⟩ := tensorRhs_result hρ hb hbe
    simp only [hbe, natPV] at he
    cases hn : S.natOf bvv with
    | none => simp [hn] at he
    | some n =>
      simp only [hn] at he
      obtain ⟨ρ', ho, _⟩ := iterFor_run S fuel i hbody hd n 0 hρ he
      exact ⟨ρ', ho⟩

theorem top_step (S : Sem V) (fuel : Nat) (hConst : ∀ l, ∃ c, constOf S l = some c)
    (hId : ∀ v, S.op "" "Identity" [some v] [] = some [v]) (hT : S.truth (S.ofBool true) = some true)
    (st : Stmt) (lo : VSet) {ρ : Store V} {o : Outcome V} {L L' : Locals} {env : Env V} {s s' : St}
    {ns : List Node} (hst : forTopStmt st lo = true) (hinv : Inv S (liveInStmt st lo) ρ L env s)
    (he : evalStmt S fuel st ρ = some o) (h : convStmt L st lo s = .ok ((L', ns), s')) :
    ∃ ρ1, o = .normal ρ1 ∧ ∃ G env', evalNodes S G env ns = some env' ∧ Inv S lo ρ1 L' env' s' := by
  by_cases hfor : ∃ i ok b body, st = .for_ i ok b body
  · obtain ⟨i, ok, b, body, rfl⟩ := hfor
    simp only [forTopStmt, forOK, Bool.and_eq_true, Bool.not_eq_true'] at hst
    obtain ⟨rfl, ⟨⟨⟨hb, hbody⟩, hilo⟩, hdd⟩, hstab⟩ := hst
    cases hd : assignedBlock body with
    | none => simp [hd] at hdd
    | some d =>
      simp only [hd, Bool.not_eq_true'] at hdd
      have hid : i ∉ d := by
        intro hm
        have : d.contains i = true := List.contains_iff_mem.mpr hm
        rw [hdd] at this; cases this
      have hilo' : i ∉ lo := by
        intro hm
        have : lo.contains i = true := List.contains_iff_mem.mpr hm
        rw [hilo] at this; cases this
      obtain ⟨ρ1, rfl⟩ := for_run S fuel hb hbody hd hinv.allT he
      obtain ⟨G, env', ev, inv', _, _⟩ := for_step S fuel hConst hId hT hb hbody hd hid hilo'
        (forLive_of_stable hbody hstab) hinv he h
      exact ⟨ρ1, rfl, G, env', ev, inv'⟩
  · have hif : ifStmt st = true := by
      cases st with
      | for_ i ok b body => exact absurd ⟨i, ok, b, body, rfl⟩ hfor
      | _ => exact hst
    obtain ⟨ρ1, rfl, _⟩ := ifStmt_run S fuel st hif hinv.allT he
    obtain ⟨env1, ev1, inv1, _, _⟩ := stmt_step S fuel hConst hId st _ hif hinv he h
    exact ⟨ρ1, rfl, fuel, env1, ev1, inv1⟩

theorem convTop_for_sim (S : Sem V) (fuel : Nat) (hConst : ∀ l, ∃ c, constOf S l = some c)
    (hId : ∀ v, S.op "" "Identity" [some v] [] = some [v]) (hT : S.truth (S.ofBool true) = some true)
    {inputs : List Name} {rc : Option Nat} :
    ∀ (body : List Stmt) (L : Locals) {ρ : Store V} {env : Env V} {s s' : St} {ns : List Node}
      {outs : List Name} {pvs : List (PV V)} {vs : List V},
      forLine body = true → Inv S (liveInBlock body []) ρ L env s →
      evalBlock S fuel body ρ = some (.returned pvs) → pvs.mapM (toTensor S) = some vs →
      convTop inputs rc L body [] s = .ok ((ns, outs), s') →
      ∃ G env', evalNodes S G env ns = some env' ∧ outs.mapM env' = some vs := by
  intro body
  induction body with
  | nil => intro L ρ env s s' ns outs pvs vs hi; simp [forLine] at hi
  | cons st ss ih =>
    intro L ρ env s s' ns outs pvs vs hi hinv he hv h
    rcases forLine_cons hi with ⟨es, rfl, rfl⟩ | ⟨hst, hss⟩
    · obtain ⟨env', ev, hm⟩ := convTop_if_sim S fuel hConst hId [.ret es false] L (by simp [ifLine])
        hinv he hv h
      exact ⟨fuel, env', ev, hm⟩
    · unfold liveInBlock at hinv
      unfold evalBlock at he
      cases hs : evalStmt S fuel st ρ with
      | none => simp [hs] at he
      | some o1 =>
        have hnr : ∀ es b, st ≠ .ret es b := by
          intro es b hc
          subst hc
          simp [forTopStmt, ifStmt] at hst
        rw [convTop_cons_nonret inputs rc L st ss [] hnr] at h
        mbind h with p s1 h1
        obtain ⟨L1, ns1⟩ := p
        try dsimp only at h
        mbind h with p s2 h2
        obtain ⟨ns2, outs2⟩ := p
        try dsimp only at h
        obtain ⟨q1, q2⟩ := pure_ok h
        cases q1
        obtain ⟨ρ1, rfl, G1, env1, ev1, inv1⟩ := top_step S fuel hConst hId hT st _ hst hinv hs h1
        simp only [hs] at he
        obtain ⟨G2, env2, ev2, hm2⟩ := ih L1 hss inv1 he hv h2
        exact ⟨max G1 G2, env2,
          evalNodes_seq (evalNodes_mono S ns1 G1 _ _ _ (Nat.le_max_left _ _) ev1)
            (evalNodes_mono S _ G2 _ _ _ (Nat.le_max_right _ _) ev2), hm2⟩

/-- **Refinement for functions made of assignments, nested `if`/`else` and `for i in range(n)` loops.**
The graph may need more evaluation fuel than the Python run (one unit per nesting level plus the trip
count), so the conclusion is for some fuel; by `evalNodes_mono` it then holds for every larger one. -/
theorem convert_correct_for (S : Sem V) (hConst : ∀ l, ∃ c, constOf S l = some c)
    (hId : ∀ v, S.op "" "Identity" [some v] [] = some [v]) (hT : S.truth (S.ofBool true) = some true)
    {f : Func} {g : Graph}
    (hil : forLine f.body = true) (hten : AllTensorParams f.params)
    (hnames : (f.params.map Param.name).Nodup) (h : convert f = .ok g)
    {fuel : Nat} {args vs : List V} (he : evalFunc S fuel f args = some vs) :
    ∃ G, evalGraph S G g args = some vs := by
  obtain ⟨h, _, d0, ha0⟩ := convert_core h
  unfold convertCore at h
  cases ha : assignedBlock f.body with
  | none => rw [ha] at ha0; cases ha0
  | some d =>
    simp only at h
    cases hc : convTop (tensorParams f.params) f.retCount [paramFrame f.params] f.body []
        { used := (tensorParams f.params).reverse, next := 0, castable := [] } with
    | error e => rw [hc] at h; cases h
    | ok r =>
      obtain ⟨⟨ns, outs⟩, s'⟩ := r
      rw [hc] at h
      cases h
      unfold evalFunc at he
      simp only at he
      by_cases hlen : args.length = (tensorParams f.params).length
      · rw [if_pos hlen] at he
        cases hb : evalBlock S fuel f.body
            (Store.setMany (fun _ => none) (tensorParams f.params) (args.map PV.t)) with
        | none => simp [hb] at he
        | some o =>
          cases o with
          | normal _ => simp [hb] at he
          | broke _ => simp [hb] at he
          | returned pvs =>
            simp only [hb] at he
            have hrelst := setMany_rel (tensorParams f.params) args (fun _ => none) (fun _ => none)
              (fun _ => rfl)
            have hL : VisOK (tensorParams f.params).reverse [paramFrame f.params] := by
              intro fr hfr p hp n hn
              simp only [List.mem_singleton] at hfr
              subst hfr
              simpa using paramFrame_vis _ p hp n hn
            have hinv : Inv S (liveInBlock f.body [])
                (Store.setMany (fun _ => none) (tensorParams f.params) (args.map PV.t))
                [paramFrame f.params] (Env.setMany (fun _ => none) (tensorParams f.params) args)
                { used := (tensorParams f.params).reverse, next := 0, castable := [] } := by
              refine ⟨hL, noAttrBind_params hten, (fun n hn => by cases hn), ?_, ?_, ?_⟩
              · intro x pv hx
                rw [hrelst] at hx
                cases hev : Env.setMany (fun _ => none) (tensorParams f.params) args x with
                | none => simp [hev] at hx
                | some v => simp only [hev, Option.map_some] at hx; cases hx; exact ⟨v, rfl⟩
              · intro x pv hx
                obtain ⟨_, hx⟩ := restrict_some.mp hx
                rw [hrelst] at hx
                cases hev : Env.setMany (fun _ => none) (tensorParams f.params) args x with
                | none => simp [hev] at hx
                | some v =>
                  simp only [hev, Option.map_some] at hx
                  cases hx
                  have hmem : x ∈ tensorParams f.params := by
                    rcases setMany_dom _ _ _ _ _ hev with h' | h'
                    · exact h'
                    · cases h'
                  refine ⟨x, ?_, hev, by simp⟩
                  simp only [lookup]
                  rw [paramFrame_find _ x hnames hmem]
              · intro x n hl
                obtain ⟨fr, hfr, hm⟩ := lookup_mem hl
                simp only [List.mem_singleton] at hfr
                subst hfr
                exact setMany_defined _ _ _ x (by simpa using hlen.symm) (paramFrame_key _ x n hm)
            obtain ⟨G, env', ev, hm⟩ := convTop_for_sim S fuel hConst hId hT f.body
              [paramFrame f.params] hil hinv hb he hc
            refine ⟨G, ?_⟩
            unfold evalGraph
            simp only [hlen, if_true, ev]
            exact hm
      · rw [if_neg hlen] at he; cases he

end OV.C01
