import OV.Model.C07Apply
/-! Helper lemmas for C07: the structural part of the splice. -/
namespace OV.C07

theorem insertAfter_filter_old (ns new : List Node) (root : Nat) (isNew : Node → Bool)
    (h1 : ∀ n ∈ ns, isNew n = false) (h2 : ∀ n ∈ new, isNew n = true) :
    (insertAfter ns root new).filter (fun n => !isNew n) = ns := by
  induction ns with
  | nil => simp [insertAfter]
  | cons a r ih =>
    have ha : isNew a = false := h1 a (by simp)
    have hr : ∀ n ∈ r, isNew n = false := fun n hn => h1 n (by simp [hn])
    have hnew : new.filter (fun n => !isNew n) = [] := by
      apply List.filter_eq_nil_iff.mpr
      intro n hn; simp [h2 n hn]
    have ih' := ih hr
    unfold insertAfter at ih' ⊢
    simp only [List.flatMap_cons, List.filter_append]
    rw [ih']
    by_cases hid : a.id == root
    · simp [hid, ha, hnew]
    · simp [hid, ha]

theorem mem_insertAfter_new (ns new : List Node) (root : Nat) (hroot : ∃ r ∈ ns, r.id = root) :
    ∀ n ∈ new, n ∈ insertAfter ns root new := by
  intro n hn
  obtain ⟨r, hr, hid⟩ := hroot
  unfold insertAfter
  apply List.mem_flatMap.mpr
  refine ⟨r, hr, ?_⟩
  simp [hid, hn]

theorem mem_insertAfter_old (ns new : List Node) (root : Nat) : ∀ n ∈ ns, n ∈ insertAfter ns root new := by
  intro n hn
  unfold insertAfter
  apply List.mem_flatMap.mpr
  refine ⟨n, hn, ?_⟩
  by_cases h : n.id == root <;> simp [h]

theorem mem_insertAfter (ns new : List Node) (root : Nat) :
    ∀ n ∈ insertAfter ns root new, n ∈ ns ∨ n ∈ new := by
  intro n hn
  unfold insertAfter at hn
  obtain ⟨a, ha, hna⟩ := List.mem_flatMap.mp hn
  by_cases h : a.id == root
  · simp [h] at hna
    rcases hna with rfl | h'
    · exact Or.inl ha
    · exact Or.inr h'
  · simp [h] at hna
    subst hna; exact Or.inl ha

/-- `insertAfter` in list form when exactly one node carries the root id. -/
theorem insertAfter_split (pre post new : List Node) (r : Node)
    (hpre : ∀ n ∈ pre, n.id ≠ r.id) (hpost : ∀ n ∈ post, n.id ≠ r.id) :
    insertAfter (pre ++ r :: post) r.id new = pre ++ r :: new ++ post := by
  have hself : ∀ l : List Node, (∀ n ∈ l, n.id ≠ r.id) → insertAfter l r.id new = l := by
    intro l hl
    induction l with
    | nil => simp [insertAfter]
    | cons a t ih =>
      have hne : a.id ≠ r.id := hl a (by simp)
      have ih' := ih (fun n hn => hl n (by simp [hn]))
      unfold insertAfter at ih' ⊢
      simp only [List.flatMap_cons]
      rw [ih']
      simp [hne]
  unfold insertAfter at hself ⊢
  simp only [List.flatMap_append, List.flatMap_cons]
  rw [hself pre hpre, hself post hpost]
  simp

/-! initializer registration under fresh names -/

theorem registerInits_fresh (d : Nat) (is : List (Name × String)) :
    ∀ (g : Graph), (is.map (·.1)).Nodup → (∀ x ∈ is.map (·.1), x ∉ g.initNames) →
      registerInits d g is = g.setInits (g.inits ++ is) := by
  induction is with
  | nil => intro g _ _; cases g; simp [registerInits, Graph.setInits, Graph.inits, Graph.inputs, Graph.nodes, Graph.outputs]
  | cons p rest ih =>
    intro g hnd hfresh
    obtain ⟨x, t⟩ := p
    have hx : x ∉ g.initNames := hfresh x (by simp)
    have hstep : registerInit d g x t = g.setInits (g.inits ++ [(x, t)]) := by
      unfold registerInit
      have : g.initNames.contains x = false := by simpa using hx
      rw [if_neg (by simpa using hx)]
    have hnd' : (rest.map (·.1)).Nodup := (List.nodup_cons.mp (by simpa using hnd)).2
    have hxr : x ∉ rest.map (·.1) := (List.nodup_cons.mp (by simpa using hnd)).1
    have hfresh' : ∀ y ∈ rest.map (·.1), y ∉ (g.setInits (g.inits ++ [(x, t)])).initNames := by
      intro y hy
      have hyg : y ∉ g.initNames := hfresh y (by simp at hy ⊢; exact Or.inr hy)
      cases g with
      | mk i ini n o =>
        simp only [Graph.setInits, Graph.initNames, Graph.inits, Graph.inputs, Graph.nodes, Graph.outputs,
          List.map_append, List.mem_append, List.map_cons, List.map_nil, List.mem_singleton] at hyg ⊢
        intro h
        rcases h with h | h
        · exact hyg h
        · subst h; exact hxr hy
    have := ih (g.setInits (g.inits ++ [(x, t)])) hnd' hfresh'
    unfold registerInits at this ⊢
    simp only [List.foldl_cons]
    rw [hstep, this]
    cases g; simp [Graph.setInits, Graph.inits, Graph.inputs, Graph.nodes, Graph.outputs]

end OV.C07
