import OV.Model.C07Apply
/-! Helper lemmas for C07: the structural part of the splice. -/
namespace OV.C07

theorem insertAfter_filter_old (ns new : List Node) (root : Nat) (isNew : Node → Bool)
    (h1 : ∀ n ∈ ns, isNew n = false) (h2 : ∀ n ∈ new, isNew n = true) :
    (insertAfter ns root new).filter (fun n => !isNew n) = ns := by
  induction ns with
  | nil => simp [insertAfter]
  | cons a r ih =>
    have ha : isNew a = false := h1 a (by simp)
    have hr : ∀ n ∈ r, isNew n = false := fun n hn => h1 n (by simp [hn])
    have hnew : new.filter (fun n => !isNew n) = [] := by
      apply List.filter_eq_nil_iff.mpr
      intro n hn; simp [h2 n hn]
    have ih' := ih hr
    unfold insertAfter at ih' ⊢
    simp only [List.flatMap_cons, List.filter_append]
    rw [ih']
    by_cases hid : a.id == root
    · simp [hid, ha, hnew]
    · simp [hid, ha]

theorem mem_insertAfter_new (ns new : List Node) (root : Nat) (hroot : ∃ r ∈ ns, r.id = root) :
    ∀ n ∈ new, n ∈ insertAfter ns root new := by
  intro n hn
  obtain ⟨r, hr, hid⟩ := hroot
  unfold insertAfter
  apply List.mem_flatMap.mpr
  refine ⟨r, hr, ?_⟩
  simp [hid, hn]

theorem mem_insertAfter_old (ns new : List Node) (root : Nat) : ∀ n ∈ ns, n ∈ insertAfter ns root new := by
  intro n hn
  unfold insertAfter
  apply List.mem_flatMap.mpr
  refine ⟨n, hn, ?_⟩
  by_cases h : n.id == root <;> simp [h]

theorem mem_insertAfter (ns new : List Node) (root : Nat) :
    ∀ n ∈ insertAfter ns root new, n ∈ ns ∨ n ∈ new := by
  intro n hn
  unfold insertAfter at hn
  obtain ⟨a, ha, hna⟩ := List.mem_flatMap.mp hn
  by_cases h : a.id == root
  · simp [h] at hna
    rcases hna with rfl | h'
    · exact Or.inl ha
    · exact Or.inr h'
  · simp [h] at hna
    subst hna; exact Or.inl ha

/-- `insertAfter` in list form when exactly one node carries the root id. -/
theorem insertAfter_split (pre post new : List Node) (r : Node)
    (hpre : ∀ n ∈ pre, n.id ≠ r.id) (hpost : ∀ n ∈ post, n.id ≠ r.id) :
    insertAfter (pre ++ r :: post) r.id new = pre ++ r :: new ++ post := by
  have hself : ∀ l : List Node, (∀ n ∈ l, n.id ≠ r.id) → insertAfter l r.id new = l := by
    intro l hl
    induction l with
    | nil => simp [insertAfter]
    | cons a t ih =>
      have hne : a.id ≠ r.id := hl a (by simp)
      have ih' := ih (fun n hn => hl n (by simp [hn]))
      unfold insertAfter at ih' ⊢
      simp only [List.flatMap_cons]
      rw [ih']
      simp [hne]
  unfold insertAfter at hself ⊢
  simp only [List.flatMap_append, List.flatMap_cons]
  rw [hself pre hpre, hself post hpost]
  simp

/-! initializer registration before fix 340a24c, under fresh names -/

theorem registerInitsPrefix_fresh (d : Nat) (is : List (Name × String)) :
    ∀ (g : Graph), (is.map (·.1)).Nodup → (∀ x ∈ is.map (·.1), x ∉ g.initNames) →
      registerInitsPrefix d g is = g.setInits (g.inits ++ is) := by
  induction is with
  | nil => intro g _ _; cases g; simp [registerInitsPrefix, Graph.setInits, Graph.inits, Graph.inputs, Graph.nodes, Graph.outputs]
  | cons p rest ih =>
    intro g hnd hfresh
    obtain ⟨x, t⟩ := p
    have hx : x ∉ g.initNames := hfresh x (by simp)
    have hstep : registerInitPrefix d g x t = g.setInits (g.inits ++ [(x, t)]) := by
      unfold registerInitPrefix
      have : g.initNames.contains x = false := by simpa using hx
      rw [if_neg (by simpa using hx)]
    have hnd' : (rest.map (·.1)).Nodup := (List.nodup_cons.mp (by simpa using hnd)).2
    have hxr : x ∉ rest.map (·.1) := (List.nodup_cons.mp (by simpa using hnd)).1
    have hfresh' : ∀ y ∈ rest.map (·.1), y ∉ (g.setInits (g.inits ++ [(x, t)])).initNames := by
      intro y hy
      have hyg : y ∉ g.initNames := hfresh y (by simp at hy ⊢; exact Or.inr hy)
      cases g with
      | mk i ini n o =>
        simp only [Graph.setInits, Graph.initNames, Graph.inits, Graph.inputs, Graph.nodes, Graph.outputs,
          List.map_append, List.mem_append, List.map_cons, List.map_nil, List.mem_singleton] at hyg ⊢
        intro h
        rcases h with h | h
        · exact hyg h
        · subst h; exact hxr hy
    have := ih (g.setInits (g.inits ++ [(x, t)])) hnd' hfresh'
    unfold registerInitsPrefix at this ⊢
    simp only [List.foldl_cons]
    rw [hstep, this]
    cases g; simp [Graph.setInits, Graph.inits, Graph.inputs, Graph.nodes, Graph.outputs]

/-! naming and initializer registration (after fixes 340a24c, c9666a4) -/

theorem freshIn_spec (names : List Name) (base y : Name) (h : freshIn names base = some y) : y ∉ names := by
  unfold freshIn at h
  have := List.find?_some h
  simpa using this

theorem freshInitName_spec (names taken : List Name) (x y : Name) (hsub : ∀ z ∈ taken, z ∈ names)
    (h : freshInitName names taken x = some y) : y ∉ taken ∧ y ∉ names := by
  unfold freshInitName at h
  split at h
  · rename_i hc
    simp only [Option.some.injEq] at h
    subst h
    simp only [Bool.and_eq_true, Bool.not_eq_eq_eq_not, Bool.not_true, List.contains_eq_mem,
      decide_eq_false_iff_not] at hc
    exact hc
  · have hn := freshIn_spec names x y h
    exact ⟨fun hm => hn (hsub y hm), hn⟩

theorem registerInits_spec (is : List (Name × String)) :
    ∀ (names : List Name) (g g' : Graph) (is' : List (Name × String)) (names' : List Name),
      (∀ z ∈ g.initNames, z ∈ names) → registerInits names g is = some (g', is', names') →
      g'.nodes = g.nodes ∧ g'.inputs = g.inputs ∧ g'.outputs = g.outputs ∧ g'.inits = g.inits ++ is' ∧
      is'.map (·.2) = is.map (·.2) ∧ (∀ y ∈ is'.map (·.1), y ∉ g.initNames ∧ y ∉ names) ∧ (is'.map (·.1)).Nodup ∧
      names' = names ++ is'.map (·.1) := by
  induction is with
  | nil =>
    intro names g g' is' names' _ h
    simp only [registerInits, Option.some.injEq, Prod.mk.injEq] at h
    obtain ⟨h1, h2, h3⟩ := h
    subst h1; subst h2; subst h3
    simp
  | cons p rest ih =>
    intro names g g' is' names' hsub h
    obtain ⟨x, t⟩ := p
    simp only [registerInits] at h
    split at h
    · exact absurd h (by simp)
    · rename_i y hy
      split at h
      · exact absurd h (by simp)
      · rename_i g1 r n1 hr
        simp only [Option.some.injEq, Prod.mk.injEq] at h
        obtain ⟨h1, h2, h3⟩ := h
        subst h1; subst h2; subst h3
        obtain ⟨hyt, hyn⟩ := freshInitName_spec _ _ _ _ hsub hy
        have hnames : (g.setInits (g.inits ++ [(y, t)])).initNames = g.initNames ++ [y] := by
          cases g; simp [Graph.setInits, Graph.initNames, Graph.inits]
        have hsub' : ∀ z ∈ (g.setInits (g.inits ++ [(y, t)])).initNames, z ∈ names ++ [y] := by
          intro z hz
          rw [hnames] at hz
          rcases List.mem_append.mp hz with h | h
          · exact List.mem_append.mpr (Or.inl (hsub z h))
          · exact List.mem_append.mpr (Or.inr h)
        obtain ⟨a1, a2, a3, a4, a5, a6, a7, a8⟩ := ih _ _ _ _ _ hsub' hr
        have hbase : (g.setInits (g.inits ++ [(y, t)])).nodes = g.nodes ∧
            (g.setInits (g.inits ++ [(y, t)])).inputs = g.inputs ∧
            (g.setInits (g.inits ++ [(y, t)])).outputs = g.outputs ∧
            (g.setInits (g.inits ++ [(y, t)])).inits = g.inits ++ [(y, t)] := by
          cases g; simp [Graph.setInits, Graph.nodes, Graph.inputs, Graph.outputs, Graph.inits]
        rw [hnames] at a6
        refine ⟨a1.trans hbase.1, a2.trans hbase.2.1, a3.trans hbase.2.2.1, ?_, ?_, ?_, ?_, ?_⟩
        · rw [a4, hbase.2.2.2]; simp
        · simp [a5]
        · intro z hz
          simp only [List.map_cons, List.mem_cons] at hz
          rcases hz with rfl | hz
          · exact ⟨hyt, hyn⟩
          · have := a6 z hz
            exact ⟨fun hm => this.1 (by simp [hm]), fun hm => this.2 (by simp [hm])⟩
        · simp only [List.map_cons, List.nodup_cons]
          exact ⟨fun hm => (a6 y hm).1 (by simp), a7⟩
        · rw [a8]; simp

/-! opset imports of an extracted function -/

theorem lookup_filter_key (l : List (String × Nat)) (p : String → Bool) (k : String) (hp : p k = true) :
    (l.filter (fun kv => p kv.1)).lookup k = l.lookup k := by
  induction l with
  | nil => rfl
  | cons a r ih =>
    obtain ⟨d, v⟩ := a
    by_cases hk : k == d
    · have hkd : k = d := by simpa using hk
      subst hkd
      simp [hp, List.lookup]
    · by_cases hpd : p d = true
      · simp [hpd, List.lookup, hk, ih]
      · simp [hpd, List.lookup, hk, ih]

theorem mergeOpsets_lookup_main (main lo : List (String × Nat)) (d : String) (v : Nat)
    (h : main.lookup d = some v) : (mergeOpsets main lo).lookup d = some ((lo.lookup d).getD v) := by
  unfold mergeOpsets
  rw [List.lookup_append]
  have : (main.map (fun kv => (kv.1, (lo.lookup kv.1).getD kv.2))).lookup d = some ((lo.lookup d).getD v) := by
    induction main with
    | nil => simp [List.lookup] at h
    | cons a r ih =>
      obtain ⟨k, w⟩ := a
      by_cases hk : d == k
      · have hdk : d = k := by simpa using hk
        subst hdk
        simp [List.lookup] at h ⊢
        rw [h]
      · simp only [List.lookup, hk] at h
        simp only [List.map_cons, List.lookup, hk]
        exact ih h
  rw [this]; rfl

theorem lookup_none_any (l : List (String × Nat)) (d : String) (h : l.lookup d = none) :
    l.any (fun mv => mv.1 == d) = false := by
  induction l with
  | nil => rfl
  | cons a r ih =>
    obtain ⟨k, w⟩ := a
    by_cases hk : d == k
    · simp [List.lookup, hk] at h
    · simp only [List.lookup, hk] at h
      have hk' : (k == d) = false := by
        have : ¬ d = k := by simpa using hk
        simpa using fun e => this e.symm
      simp [List.any_cons, hk', ih h]

theorem mergeOpsets_lookup_over (base over : List (String × Nat)) (d : String) (v : Nat)
    (h : over.lookup d = some v) : (mergeOpsets base over).lookup d = some v := by
  cases hb : base.lookup d with
  | some w => rw [mergeOpsets_lookup_main base over d w hb, h]; rfl
  | none =>
    unfold mergeOpsets
    rw [List.lookup_append]
    have h1 : (base.map (fun kv => (kv.1, (over.lookup kv.1).getD kv.2))).lookup d = none := by
      induction base with
      | nil => rfl
      | cons a r ih =>
        obtain ⟨k, w⟩ := a
        by_cases hk : d == k
        · simp [List.lookup, hk] at hb
        · simp only [List.lookup, hk] at hb
          simp only [List.map_cons, List.lookup, hk]
          exact ih hb
    rw [h1]
    have := lookup_filter_key over (fun k => !(base.any (fun mv => mv.1 == k))) d
      (by simp [lookup_none_any base d hb])
    simp only [Option.none_or]
    rw [this, h]

end OV.C07
