import OV.Lemmas.C06Sound
import OV.Model.C06Commute
/-! C06 — assembly of the top-level statements used by `OV.Props.C06`. -/
namespace OV.C06

theorem lookup_mem {α β} [BEq α] [LawfulBEq α] : ∀ (l : List (α × β)) (k : α) (v : β),
    l.lookup k = some v → (k, v) ∈ l := by
  intro l
  induction l with
  | nil => intro k v h; simp at h
  | cons hd tl ih =>
    intro k v h
    obtain ⟨k', v'⟩ := hd
    simp only [List.lookup] at h
    split at h
    · next he =>
      have : k = k' := by simpa using he
      cases h; subst this; simp
    · exact List.mem_cons_of_mem _ (ih k v h)

/-- what the matcher proper establishes on OR-free patterns -/
theorem matcher_core (E : Env) (root : NodeId) (rm : Bool)
    (hno : E.p.dispOk = true) (htopo : E.p.topoDeep) (har : E.fixF1 = true ∨ OutputArityOk E.p E.g)
    (hok : (matcherMatch E root rm).ok = true) :
    ∃ c' combo, (matcherMatch E root rm).bindings = c'.bindings ∧
      (matcherMatch E root rm).nb = c'.nb ∧ (matcherMatch E root rm).vb = c'.vb ∧
      (matcherMatch E root rm).nodes = c'.nodes ∧ NB c' ∧
      outputValues E.p c' = some (matcherMatch E root rm).outputs ∧
      (rm = true → Removable E.g c'.nodes (matcherMatch E root rm).outputs) ∧
      combo.head? = some root ∧ E.p.outputNodes.length ≤ combo.length ∧
      (∀ np n, (np, n) ∈ E.p.outputNodes.zip combo → SatN E (assignOf c') np n) := by
  obtain ⟨combo, he, hhead, hlen⟩ := matcherMatch_ok E root rm hok
  rw [he] at hok ⊢
  unfold multiMatch at hok ⊢
  have inv0 : Inv E ({} : Partial) [] := by
    intro q m hq
    simp at hq
  have nb0 : NB ({} : Partial) := rfl
  obtain ⟨c', r1, _, nb1, s1⟩ :=
    matchOutputNodes_spec E hno htopo har (E.p.outputNodes.zip combo) {} _ rfl inv0 nb0
  obtain ⟨ht, ho, hb, hn, hnb, hvb, hrem⟩ := finish_spec E rm _ c' r1.st r1.okF hok
  exact ⟨c', combo, hb, hnb, hvb, hn, nb1, ho, hrem, hhead, hlen, (s1 ht).2⟩

theorem inputs_fold_le : ∀ (ins : List (Option String)) (bs : List (String × Bound)),
    (∀ k x, bs.lookup k = some x → (bindInputs ins bs).lookup k = some x) ∧
    (∀ nm, some nm ∈ ins → ∃ b, (bindInputs ins bs).lookup nm = some b) := by
  unfold bindInputs
  intro ins
  induction ins with
  | nil => intro bs; exact ⟨fun _ _ h => h, fun _ h => by simp at h⟩
  | cons i rest ih =>
    intro bs
    simp only [List.foldl_cons]
    cases i with
    | none =>
      refine ⟨(ih bs).1, fun nm hm => ?_⟩
      rcases List.mem_cons.1 hm with he | hm
      · cases he
      · exact (ih bs).2 nm hm
    | some nm =>
      dsimp only
      by_cases hs : (bs.lookup nm).isSome = true
      · simp only [hs, if_true]
        refine ⟨(ih bs).1, fun nm' hm => ?_⟩
        rcases List.mem_cons.1 hm with he | hm
        · cases he
          obtain ⟨b, hb⟩ := Option.isSome_iff_exists.1 hs
          exact ⟨b, (ih bs).1 _ _ hb⟩
        · exact (ih bs).2 nm' hm
      · simp only [hs, Bool.false_eq_true, if_false]
        have hnone : bs.lookup nm = none := by
          cases hl : bs.lookup nm with
          | none => rfl
          | some b => simp [hl] at hs
        refine ⟨fun k x h => (ih _).1 k x (lookup_snoc_of_some _ _ _ _ _ h), fun nm' hm => ?_⟩
        rcases List.mem_cons.1 hm with he | hm
        · cases he
          exact ⟨Bound.none, (ih _).1 _ _ (lookup_snoc_self _ _ _ hnone)⟩
        · exact (ih _).2 nm' hm

theorem satN_node {E : Env} {A : Assign} {np : NPId} {n : NodeId} (h : SatN E A np n) :
    A.node np = some n := by
  cases h with
  | mk _ _ P N h1 h2 h3 => exact h3

/-- decomposition of a successful `Pattern.match` -/
theorem patternMatch_some (E : Env) (root : NodeId) (rm : Bool) (r : Result)
    (h : patternMatch E root rm = some r) :
    (matcherMatch E root rm).ok = true ∧
    r = { matcherMatch E root rm with
          bindings := bindInputs E.p.inputs (matcherMatch E root rm).bindings } ∧
    checksPass E.p r = true ∧ valueChecksPass E.p r = true ∧ E.p.cond = true := by
  unfold patternMatch at h
  dsimp only at h
  split at h
  · cases h
  · next hok =>
    split at h
    · cases h
    · next hc =>
      split at h
      · cases h
      · next hv =>
        split at h
        · cases h
        · next hcond =>
          cases h
          exact ⟨by simpa using hok, rfl, by simpa using hc, by simpa using hv, by simpa using hcond⟩

theorem patternMatch_sound (E : Env) (root : NodeId) (rm : Bool) (r : Result)
    (hno : E.p.dispOk = true) (htopo : E.p.topoDeep) (har : E.fixF1 = true ∨ OutputArityOk E.p E.g)
    (h : patternMatch E root rm = some r) :
    Instance E root r.assign ∧ ChecksPass E.p r.assign ∧
      (rm = true → Removable E.g r.nodes r.outputs) := by
  obtain ⟨hok, hr, hchk, hvchk, hcond⟩ := patternMatch_some E root rm r h
  obtain ⟨c', combo, hb, hnb, hvb, hn, _, _, hrem, hhead, hlen, hsat⟩ :=
    matcher_core E root rm hno htopo har hok
  have hale : ALe (assignOf c') r.assign := by
    subst hr
    refine ⟨fun k x hk => ?_, fun k x hk => ?_, fun k x hk => ?_⟩
    · show List.lookup k _ = some x
      exact (inputs_fold_le E.p.inputs _).1 k x (hb ▸ hk)
    · show List.lookup k (matcherMatch E root rm).nb = some x
      rw [hnb]; exact hk
    · show List.lookup k (matcherMatch E root rm).vb = some x
      rw [hvb]; exact hk
  refine ⟨⟨?_, ?_, hcond⟩, ⟨?_, ?_⟩, ?_⟩
  · intro np hnp
    have h0 : E.p.outputNodes[0]? = some np := by rw [← List.head?_eq_getElem?]; exact hnp
    have h1 : combo[0]? = some root := by rw [← List.head?_eq_getElem?]; exact hhead
    have : (np, root) ∈ E.p.outputNodes.zip combo :=
      List.mem_iff_getElem?.2 ⟨0, List.getElem?_zip_eq_some.2 ⟨h0, h1⟩⟩
    exact satN_node (satN_mono hale (hsat np root this))
  · intro np hnp
    obtain ⟨i, hi⟩ := List.mem_iff_getElem?.1 hnp
    have hilt : i < E.p.outputNodes.length := by
      rcases Nat.lt_or_ge i E.p.outputNodes.length with h | h
      · exact h
      · simp [List.getElem?_eq_none h] at hi
    have hic : i < combo.length := by omega
    have : (np, combo[i]) ∈ E.p.outputNodes.zip combo :=
      List.mem_iff_getElem?.2 ⟨i, List.getElem?_zip_eq_some.2 ⟨hi, List.getElem?_eq_getElem hic⟩⟩
    have hs := satN_mono hale (hsat np _ this)
    exact ⟨_, satN_node hs, hs⟩
  · intro np n P hnode hP
    have hm : (np, n) ∈ r.nb := lookup_mem _ _ _ hnode
    unfold checksPass at hchk
    simp only [List.all_eq_true] at hchk
    have := hchk (np, n) hm
    simp only [hP] at this
    simpa using this
  · intro id v hleaf
    have hm : (VKey.leaf id, v) ∈ r.vb := lookup_mem _ _ _ hleaf
    unfold valueChecksPass at hvchk
    simp only [List.all_eq_true] at hvchk
    have := hvchk (VKey.leaf id, v) hm
    simpa using this
  · intro hrm
    have := hrem hrm
    subst hr
    show Removable E.g (matcherMatch E root rm).nodes (matcherMatch E root rm).outputs
    rw [hn]; exact this

theorem mapM_mono {α β} (f g : α → Option β) (hfg : ∀ x y, f x = some y → g x = some y) :
    ∀ (l : List α) (out : List β), l.mapM f = some out → l.mapM g = some out := by
  intro l
  induction l with
  | nil => intro out h; simpa using h
  | cons a l ih =>
    intro out h
    simp only [List.mapM_cons, Option.pure_def, Option.bind_eq_bind, Option.bind_eq_some_iff] at h ⊢
    obtain ⟨b, hb, bs, hbs, he⟩ := h
    exact ⟨b, hfg _ _ hb, bs, ih bs hbs, he⟩

theorem outputOf_mono {A A' : Assign} (h : ALe A A') (p : GPat) (vp : VPat) (b : Bound) :
    A.outputOf p vp = some b → A'.outputOf p vp = some b := by
  unfold Assign.outputOf
  split
  · exact h.names _ _
  · split
    · exact id
    · next k _ =>
      intro hb
      cases hl : A.leaf k with
      | none => simp [hl] at hb
      | some v =>
        simp only [hl, Option.map_some, Option.some.injEq] at hb
        simp [h.leaf _ _ hl, hb]

theorem outputValues_eq (p : GPat) (c : Partial) :
    outputValues p c = p.outputs.mapM ((assignOf c).outputOf p) := by
  unfold outputValues
  congr

theorem patternMatch_exact (E : Env) (root : NodeId) (rm : Bool) (r : Result)
    (hno : E.p.dispOk = true) (htopo : E.p.topoDeep) (har : E.fixF1 = true ∨ OutputArityOk E.p E.g)
    (h : patternMatch E root rm = some r) :
    E.p.outputs.mapM (r.assign.outputOf E.p) = some r.outputs ∧
      r.nodes = r.nb.map (·.2) ∧
      (∀ nm, some nm ∈ E.p.inputs → ∃ b, r.assign.names nm = some b) := by
  obtain ⟨hok, hr, _, _, _⟩ := patternMatch_some E root rm r h
  obtain ⟨c', combo, hb, hnb, hvb, hn, nbc, hout, _, _, _, _⟩ :=
    matcher_core E root rm hno htopo har hok
  subst hr
  have hale : ALe (assignOf c')
      (Result.assign { matcherMatch E root rm with
        bindings := bindInputs E.p.inputs (matcherMatch E root rm).bindings }) := by
    refine ⟨fun k x hk => ?_, fun k x hk => ?_, fun k x hk => ?_⟩
    · show List.lookup k _ = some x
      exact (inputs_fold_le E.p.inputs _).1 k x (hb ▸ hk)
    · show List.lookup k (matcherMatch E root rm).nb = some x
      rw [hnb]; exact hk
    · show List.lookup k (matcherMatch E root rm).vb = some x
      rw [hvb]; exact hk
  refine ⟨?_, ?_, ?_⟩
  · rw [outputValues_eq] at hout
    exact mapM_mono _ _ (outputOf_mono hale E.p) _ _ hout
  · show (matcherMatch E root rm).nodes = (matcherMatch E root rm).nb.map (·.2)
    rw [hn, hnb]; exact nbc
  · intro nm hm
    exact (inputs_fold_le E.p.inputs _).2 nm hm

theorem firstMatch_first (E : Env) (rm : Bool) : ∀ (cs : List (List NodeId)) (last : Option Result),
    (firstMatch E rm cs last).ok = true →
    (∃ pre c post, cs = pre ++ c :: post ∧ firstMatch E rm cs last = multiMatch E rm c ∧
      ∀ c' ∈ pre, (multiMatch E rm c').ok = false) ∨
      (cs = [] ∧ ∃ m, last = some m ∧ m.ok = true) := by
  intro cs
  induction cs with
  | nil =>
    intro last h
    unfold firstMatch at h
    cases last with
    | none => simp [Result.failed] at h
    | some m => exact .inr ⟨rfl, m, rfl, by simpa using h⟩
  | cons c cs ih =>
    intro last h
    unfold firstMatch at h ⊢
    dsimp only at h ⊢
    by_cases hm : (multiMatch E rm c).ok = true
    · simp only [hm, if_true]
      exact .inl ⟨[], c, cs, rfl, rfl, fun _ h => by simp at h⟩
    · simp only [hm, Bool.false_eq_true, if_false] at h ⊢
      rcases ih _ h with ⟨pre, c', post, he, hf, hpre⟩ | ⟨_, m, hm1, hm2⟩
      · refine .inl ⟨c :: pre, c', post, by simp [he], hf, fun x hx => ?_⟩
        rcases List.mem_cons.1 hx with h' | h'
        · subst h'; simpa using hm
        · exact hpre x h'
      · cases hm1
        exact absurd hm2 hm

theorem matcherMatch_first (E : Env) (root : NodeId) (rm : Bool)
    (h : (matcherMatch E root rm).ok = true) :
    ∃ pre combo post, combos E root = pre ++ combo :: post ∧
      matcherMatch E root rm = multiMatch E rm combo ∧
      combo.head? = some root ∧
      ∀ c ∈ pre, (multiMatch E rm c).ok = false := by
  unfold matcherMatch at h ⊢
  unfold combos
  split at h
  · next np hnp =>
    refine ⟨[], [root], [], rfl, ?_, rfl, fun _ h => by simp at h⟩
    unfold multiMatch
    simp only [hnp, List.zip_cons_cons, List.zip_nil_right]
    unfold matchOutputNodes
    unfold matchOutputNodes
    exact (finish_congr E rm _).symm
  · next outs hne =>
    rcases firstMatch_first E rm _ none h with ⟨pre, c, post, he, hf, hpre⟩ | ⟨_, m, hm, _⟩
    · refine ⟨pre, c, post, he, hf, ?_, hpre⟩
      have hc : c ∈ product ([root] :: candidatesRest E E.p.outputNodes.tail false) := by
        rw [he]; simp
      exact product_head _ _ _ hc
    · cases hm

/-! ## commute -/

theorem masks_cons (fix7b : Bool) (n : NPat) (ns : List NPat) :
    masks fix7b (n :: ns) =
      if n.swappable fix7b then (masks fix7b ns).map (false :: ·) ++ (masks fix7b ns).map (true :: ·)
      else (masks fix7b ns).map (false :: ·) := by
  rw [masks]
  unfold commuteNode
  split <;> simp

theorem masks_length (fix7b : Bool) : ∀ ns : List NPat,
    (masks fix7b ns).length = 2 ^ (ns.filter (NPat.swappable fix7b)).length := by
  intro ns
  induction ns with
  | nil => simp [masks]
  | cons n ns ih =>
    rw [masks_cons]
    by_cases h : n.swappable fix7b = true
    · simp [h, ih, Nat.pow_succ]; omega
    · simp [h, ih]

theorem map_cons_nodup (b : Bool) (l : List (List Bool)) (h : l.Nodup) : (l.map (b :: ·)).Nodup := by
  unfold List.Nodup at *
  rw [List.pairwise_map]
  exact h.imp (fun hne he => hne (List.cons.inj he).2)

theorem masks_nodup (fix7b : Bool) : ∀ ns : List NPat, (masks fix7b ns).Nodup := by
  intro ns
  induction ns with
  | nil => simp [masks]
  | cons n ns ih =>
    rw [masks_cons]
    split
    · rw [List.nodup_append]
      refine ⟨map_cons_nodup _ _ ih, map_cons_nodup _ _ ih, fun a ha b hb he => ?_⟩
      simp only [List.mem_map] at ha hb
      obtain ⟨x, _, rfl⟩ := ha
      obtain ⟨y, _, rfl⟩ := hb
      cases he
    · exact map_cons_nodup _ _ ih

theorem masks_mem (fix7b : Bool) : ∀ (ns : List NPat) (m : List Bool),
    m ∈ masks fix7b ns ↔ m.length = ns.length ∧ ∀ (i : Nat) (b : Bool), m[i]? = some b → b = true →
      ∃ n : NPat, ns[i]? = some n ∧ n.swappable fix7b = true := by
  intro ns
  induction ns with
  | nil =>
    intro m
    simp only [masks, List.mem_singleton, List.length_nil, List.length_eq_zero_iff]
    constructor
    · rintro rfl; exact ⟨rfl, fun i b h => by simp at h⟩
    · exact fun h => h.1
  | cons n ns ih =>
    intro m
    rw [masks_cons]
    constructor
    · intro hm
      have key : ∃ b rest, m = b :: rest ∧ rest ∈ masks fix7b ns ∧ (b = true → n.swappable fix7b = true) := by
        split at hm
        · next hc =>
          rcases List.mem_append.1 hm with h | h
          · obtain ⟨rest, hr, rfl⟩ := List.mem_map.1 h
            exact ⟨false, rest, rfl, hr, fun h => by cases h⟩
          · obtain ⟨rest, hr, rfl⟩ := List.mem_map.1 h
            exact ⟨true, rest, rfl, hr, fun _ => hc⟩
        · obtain ⟨rest, hr, rfl⟩ := List.mem_map.1 hm
          exact ⟨false, rest, rfl, hr, fun h => by cases h⟩
      obtain ⟨b, rest, rfl, hr, hb⟩ := key
      have := (ih rest).1 hr
      refine ⟨by simp [this.1], fun i b' hi hb' => ?_⟩
      cases i with
      | zero =>
        simp at hi; subst hi
        exact ⟨n, rfl, hb hb'⟩
      | succ i =>
        simp only [List.getElem?_cons_succ] at hi ⊢
        exact this.2 i b' hi hb'
    · rintro ⟨hlen, hall⟩
      cases m with
      | nil => simp at hlen
      | cons b rest =>
        have hrest : rest ∈ masks fix7b ns := by
          refine (ih rest).2 ⟨by simpa using hlen, fun i b' hi hb' => ?_⟩
          have := hall (i + 1) b' (by simpa using hi) hb'
          simpa using this
        cases b with
        | false =>
          split
          · exact List.mem_append_left _ (List.mem_map.2 ⟨rest, hrest, rfl⟩)
          · exact List.mem_map.2 ⟨rest, hrest, rfl⟩
        | true =>
          obtain ⟨n', hn', hc⟩ := hall 0 true rfl rfl
          simp at hn'; subst hn'
          simp only [hc, if_true]
          exact List.mem_append_right _ (List.mem_map.2 ⟨rest, hrest, rfl⟩)

theorem masks_head (fix7b : Bool) : ∀ ns : List NPat, ∃ tl, masks fix7b ns = List.replicate ns.length false :: tl := by
  intro ns
  induction ns with
  | nil => exact ⟨[], rfl⟩
  | cons n ns ih =>
    obtain ⟨tl, htl⟩ := ih
    rw [masks_cons, htl]
    split
    · exact ⟨tl.map (false :: ·) ++ (masks fix7b ns).map (true :: ·), by simp [List.replicate_succ, htl]⟩
    · exact ⟨tl.map (false :: ·), by simp [List.replicate_succ]⟩

theorem exceptMapM_length {α β ε} (f : α → Except ε β) : ∀ (l : List α) (out : List β),
    l.mapM f = .ok out → out.length = l.length ∧ ∀ a tl, l = a :: tl → ∃ b, f a = .ok b ∧ out.head? = some b := by
  intro l
  induction l with
  | nil =>
    intro out h
    simp [List.mapM_nil, pure, Except.pure] at h
    simp [← h]
  | cons a l ih =>
    intro out h
    rw [List.mapM_cons] at h
    cases hb : f a with
    | error e =>
      rw [hb] at h
      have h' : (Except.error e : Except ε (List β)) = .ok out := h
      cases h'
    | ok b =>
      cases hbs : List.mapM f l with
      | error e =>
        rw [hb, hbs] at h
        have h' : (Except.error e : Except ε (List β)) = .ok out := h
        cases h'
      | ok bs =>
        rw [hb, hbs] at h
        have h' : (Except.ok (b :: bs) : Except ε (List β)) = .ok out := h
        cases h'
        refine ⟨by simp [(ih _ hbs).1], fun a' tl he => ?_⟩
        cases he
        exact ⟨b, hb, rfl⟩

theorem copyGraph_noswap (fix7a fix7c : Bool) (p : GPat) (n : Nat) :
    copyGraph fix7a p (List.replicate n false) fix7c = .ok p := by
  unfold copyGraph
  have : (List.replicate n false).any id = false := by
    induction n with
    | zero => rfl
    | succ n ih => simp [List.replicate_succ, ih]
  simp [this]

theorem commute_counts (fix7a fix7b fix7c : Bool) (p : GPat) (l : List GPat)
    (h : commute fix7a p fix7b fix7c = .ok l) :
    l.length = 2 ^ (p.nodes.filter (NPat.swappable fix7b)).length ∧
      (masks fix7b p.nodes).Nodup ∧
      (∀ m, m ∈ masks fix7b p.nodes ↔
        m.length = p.nodes.length ∧ ∀ (i : Nat) (b : Bool), m[i]? = some b → b = true →
          ∃ n : NPat, p.nodes[i]? = some n ∧ n.swappable fix7b = true) ∧
      l.head? = some p := by
  unfold commute at h
  obtain ⟨hlen, hhead⟩ := exceptMapM_length _ _ _ h
  refine ⟨by rw [hlen, masks_length], masks_nodup _ _, masks_mem _ _, ?_⟩
  obtain ⟨tl, htl⟩ := masks_head fix7b p.nodes
  obtain ⟨b, hb, hh⟩ := hhead _ _ htl
  rw [copyGraph_noswap] at hb
  cases hb
  exact hh

/-! ## clone keeps every `Constant` pattern, value and both tolerances -/

mutual
theorem cloneV_consts : ∀ (vp : VPat) (k : Nat), constsV (cloneV vp k).1 = constsV vp
  | .var _ _ true _ _, _ => by simp only [cloneV]; split <;> simp [constsV]
  | .var _ _ false _ _, _ => by simp [cloneV, constsV]
  | .any, _ => by simp [cloneV, constsV]
  | .const _ _, _ => by simp [cloneV, constsV]
  | .out _ _, _ => by simp [cloneV, constsV]
  | .orD _ _ _ _, _ => by simp [cloneV, constsV]
  | .orB _ _ _ _ alts, k => by
    simp only [cloneV, constsV]
    exact cloneL_consts alts (k + 1)
theorem cloneL_consts : ∀ (l : List VPat) (k : Nat), constsL (cloneL l k).1 = constsL l
  | [], _ => by simp [cloneL, constsL]
  | a :: rest, k => by
    simp only [cloneL, constsL]
    rw [cloneV_consts a k, cloneL_consts rest (cloneV a k).2]
end

theorem cloneInputs_consts : ∀ (ins : List (Option VPat)) (k : Nat),
    constsL ((cloneInputs ins k).1.filterMap id) = constsL (ins.filterMap id)
  | [], _ => by simp [cloneInputs]
  | none :: rest, k => by
    simp only [cloneInputs, List.filterMap_cons, id]
    exact cloneInputs_consts rest k
  | some v :: rest, k => by
    simp only [cloneInputs, List.filterMap_cons, id, constsL]
    rw [cloneV_consts v k, cloneInputs_consts rest (cloneV v k).2]

theorem cloneNode_consts (fix7a : Bool) (np np' : NPat) (b : Bool) (k k' : Nat)
    (h : cloneNode fix7a np b k = .ok (np', k')) :
    (∀ c, c ∈ np'.consts ↔ c ∈ np.consts) ∧ (b = false → np'.consts = np.consts) := by
  unfold cloneNode at h
  dsimp only at h
  split at h
  · cases h
  · have hc := cloneInputs_consts np.inputs k
    split at h
    · next hb =>
      split at h
      · next x y hxy =>
        cases h
        have : constsL ([y, x].filterMap id) = constsL ([x, y].filterMap id) → False ∨ True := fun _ => .inr trivial
        refine ⟨fun c => ?_, fun hf => by simp [hb] at hf⟩
        unfold NPat.consts
        rw [← hc, hxy]
        cases x <;> cases y <;> simp [constsL, or_comm]
      · cases h
    · cases h
      exact ⟨fun c => by unfold NPat.consts; rw [← hc], fun _ => by unfold NPat.consts; rw [← hc]⟩

theorem cloneNodes_consts (fix7a : Bool) : ∀ (ns : List NPat) (bs : List Bool) (k : Nat)
    (l : List NPat) (k' : Nat), cloneNodes fix7a ns bs k = .ok (l, k') →
    ∀ (i : Nat) (n n' : NPat), ns[i]? = some n → l[i]? = some n' → ∀ c, c ∈ n'.consts ↔ c ∈ n.consts
  | [], _, _, l, _, h => by
    intro i n n' hn
    simp at hn
  | np :: rest, [], _, l, _, h => by
    unfold cloneNodes at h
    cases h
    intro i n n' _ hn'
    simp at hn'
  | np :: rest, b :: bs, k, l, k', h => by
    unfold cloneNodes at h
    split at h
    · cases h
    · next np1 k1 h1 =>
      split at h
      · cases h
      · next l2 k2 h2 =>
        cases h
        intro i n n' hn hn'
        cases i with
        | zero =>
          simp at hn hn'
          subst hn hn'
          exact (cloneNode_consts fix7a _ _ b k k1 h1).1
        | succ i =>
          simp at hn hn'
          exact cloneNodes_consts fix7a rest bs k1 l2 _ h2 i n n' hn hn'

theorem copyGraph_consts (fix7a fix7c : Bool) (p q : GPat) (m : List Bool)
    (h : copyGraph fix7a p m fix7c = .ok q) :
    ∀ (i : Nat) (n n' : NPat), p.nodes[i]? = some n → q.nodes[i]? = some n' →
      ∀ c, c ∈ n'.consts ↔ c ∈ n.consts := by
  unfold copyGraph at h
  split at h
  · cases h
    intro i n n' hn hn'
    rw [hn] at hn'
    cases hn'
    exact fun _ => Iff.rfl
  · split at h
    · cases h
    · next nodes k hk =>
      split at h
      · cases h
      · dsimp only at h
        split at h
        · cases h
          exact cloneNodes_consts fix7a _ _ _ _ _ hk
        · cases h

theorem exceptMapM_mem {α β ε} (f : α → Except ε β) : ∀ (l : List α) (out : List β),
    l.mapM f = .ok out → ∀ b ∈ out, ∃ a ∈ l, f a = .ok b := by
  intro l
  induction l with
  | nil =>
    intro out h b hb
    simp [List.mapM_nil, pure, Except.pure] at h
    subst h
    simp at hb
  | cons a l ih =>
    intro out h b hb
    rw [List.mapM_cons] at h
    cases hfa : f a with
    | error e =>
      rw [hfa] at h
      have h' : (Except.error e : Except ε (List β)) = .ok out := h
      cases h'
    | ok b0 =>
      cases hbs : List.mapM f l with
      | error e =>
        rw [hfa, hbs] at h
        have h' : (Except.error e : Except ε (List β)) = .ok out := h
        cases h'
      | ok bs =>
        rw [hfa, hbs] at h
        have h' : (Except.ok (b0 :: bs) : Except ε (List β)) = .ok out := h
        cases h'
        rcases List.mem_cons.1 hb with he | hm
        · subst he; exact ⟨a, List.mem_cons_self .., hfa⟩
        · obtain ⟨a', ha', hf'⟩ := ih bs hbs b hm
          exact ⟨a', List.mem_cons_of_mem _ ha', hf'⟩

theorem commute_consts (fix7a fix7b fix7c : Bool) (p : GPat) (l : List GPat) (q : GPat)
    (h : commute fix7a p fix7b fix7c = .ok l) (hq : q ∈ l) :
    ∀ (i : Nat) (n n' : NPat), p.nodes[i]? = some n → q.nodes[i]? = some n' →
      ∀ c : ConstPat, c ∈ n'.consts ↔ c ∈ n.consts := by
  unfold commute at h
  obtain ⟨m, _, hm⟩ := exceptMapM_mem _ _ _ h q hq
  exact copyGraph_consts fix7a fix7c p q m hm

/-! ## every variant is the pattern with the masked nodes' two inputs swapped -/

mutual
theorem cloneV_skel : ∀ (vp : VPat) (k : Nat), skel (cloneV vp k).1 = skel vp
  | .var _ _ true _ _, _ => by simp only [cloneV]; split <;> simp [skel]
  | .var _ _ false _ _, _ => by simp [cloneV, skel]
  | .any, _ => by simp [cloneV, skel]
  | .const _ _, _ => by simp [cloneV, skel]
  | .out _ _, _ => by simp [cloneV, skel]
  | .orD _ _ _ _, _ => by simp [cloneV, skel]
  | .orB _ _ _ _ alts, k => by
    simp only [cloneV, skel]
    rw [cloneL_skel alts (k + 1)]
theorem cloneL_skel : ∀ (l : List VPat) (k : Nat), skelL (cloneL l k).1 = skelL l
  | [], _ => by simp [cloneL, skelL]
  | a :: rest, k => by
    simp only [cloneL, skelL]
    rw [cloneV_skel a k, cloneL_skel rest (cloneV a k).2]
end

theorem cloneInputs_skel : ∀ (ins : List (Option VPat)) (k : Nat),
    skelInputs (cloneInputs ins k).1 = skelInputs ins
  | [], _ => by simp [cloneInputs, skelInputs]
  | none :: rest, k => by
    have := cloneInputs_skel rest k
    simp only [skelInputs] at this ⊢
    simp [cloneInputs, this]
  | some v :: rest, k => by
    have := cloneInputs_skel rest (cloneV v k).2
    simp only [skelInputs] at this ⊢
    simp [cloneInputs, this, cloneV_skel v k]

theorem cloneNode_skel (fix7a : Bool) (np np' : NPat) (b : Bool) (k k' : Nat)
    (h : cloneNode fix7a np b k = .ok (np', k')) :
    skelInputs np'.inputs = (if b then (skelInputs np.inputs).reverse else skelInputs np.inputs) ∧
      (b = true → np.inputs.length = 2) ∧
      np' = { np with inputs := np'.inputs, opIsStr := false } := by
  unfold cloneNode at h
  dsimp only at h
  split at h
  · cases h
  · have hc := cloneInputs_skel np.inputs k
    split at h
    · next hb =>
      split at h
      · next x y hxy =>
        cases h
        have hlen : (cloneInputs np.inputs k).1.length = np.inputs.length := by
          have := congrArg List.length hc
          simpa [skelInputs] using this
        refine ⟨?_, fun _ => by rw [← hlen, hxy]; rfl, rfl⟩
        simp only [hb, if_true]
        rw [← hc, hxy]
        simp [skelInputs]
      · cases h
    · next hb =>
      cases h
      have hb' : b = false := by simpa using hb
      subst hb'
      exact ⟨by simpa using hc, (fun h => by cases h), rfl⟩

theorem cloneNodes_skel (fix7a : Bool) : ∀ (ns : List NPat) (bs : List Bool) (k : Nat)
    (l : List NPat) (k' : Nat), cloneNodes fix7a ns bs k = .ok (l, k') →
    ∀ (i : Nat) (n n' : NPat) (b : Bool), ns[i]? = some n → bs[i]? = some b → l[i]? = some n' →
      skelInputs n'.inputs = (if b then (skelInputs n.inputs).reverse else skelInputs n.inputs) ∧
      (b = true → n.inputs.length = 2) ∧ n' = { n with inputs := n'.inputs, opIsStr := false }
  | [], _, _, l, _, h => by
    intro i n n' b hn
    simp at hn
  | np :: rest, [], _, l, _, h => by
    intro i n n' b _ hb
    simp at hb
  | np :: rest, b0 :: bs, k, l, k', h => by
    unfold cloneNodes at h
    split at h
    · cases h
    · next np1 k1 h1 =>
      split at h
      · cases h
      · next l2 k2 h2 =>
        cases h
        intro i n n' b hn hb hn'
        cases i with
        | zero =>
          simp at hn hb hn'
          subst hn hb hn'
          exact cloneNode_skel fix7a _ _ _ k k1 h1
        | succ i =>
          simp at hn hb hn'
          exact cloneNodes_skel fix7a rest bs k1 l2 _ h2 i n n' b hn hb hn'

theorem copyGraph_skel (fix7a fix7c : Bool) (p q : GPat) (m : List Bool) (hm : m.any id = true)
    (h : copyGraph fix7a p m fix7c = .ok q) :
    ∀ (i : Nat) (n n' : NPat) (b : Bool), p.nodes[i]? = some n → m[i]? = some b → q.nodes[i]? = some n' →
      skelInputs n'.inputs = (if b then (skelInputs n.inputs).reverse else skelInputs n.inputs) ∧
      (b = true → n.inputs.length = 2) ∧ n' = { n with inputs := n'.inputs, opIsStr := false } := by
  unfold copyGraph at h
  split at h
  · next hx => simp [hm] at hx
  · split at h
    · cases h
    · next nodes k hk =>
      split at h
      · cases h
      · dsimp only at h
        split at h
        · cases h
          exact cloneNodes_skel fix7a _ _ _ _ _ hk
        · cases h

end OV.C06
