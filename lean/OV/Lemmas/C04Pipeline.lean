import OV.Lemmas.C04Closed
/-!
# C04 — the `optimize_ir` pipeline as a composition, and `visit_function`'s initializer clean-up

* `optimizeIr_rel`: any reflexive, transitive relation between a graph and its successor that every pass of the
  pipeline respects is respected by `optimizeIr`, for every option tuple (number of iterations, early stop, inline).
* `Iface`: the interface clause of C04 as such a relation — same formal inputs (names, order), same number of outputs,
  every initializer that is also a formal input still has its initializer.
* `initsToConstants` (commits 26dd9fc, a9715ec): no initializer is left, the interface is kept, scope well-formedness and single
  assignment are preserved.
-/
namespace OV.C03

/-! ### composition -/

/-- every onnx_ir pass and the rewrite pass respect `R` (the contracts of the passes that live outside the folding pass) -/
structure RelContracts (R : Graph → Graph → Prop) (P : IrPasses) : Prop where
  inline : ∀ g, R (P.inline g) g
  rewrite : ∀ g, R (P.rewrite g).1 g
  dce : ∀ g, R (P.dce g).1 g
  liftConstants : ∀ g, R (P.liftConstants g) g
  liftSubgraphInits : ∀ g, R (P.liftSubgraphInits g) g
  dedup : ∀ g, R (P.dedup g) g
  cse : ∀ g, R (P.cse g) g
  outputFix : ∀ g, R (P.outputFix g) g
  nameFix : ∀ g, R (P.nameFix g) g

section
variable (R : Graph → Graph → Prop) (hrefl : ∀ g, R g g) (htrans : ∀ {a b c}, R b a → R c b → R c a)
include hrefl htrans

omit hrefl in
theorem iterStep_rel (P : IrPasses) (C : RelContracts R P) (fold : Graph → Graph × Bool) (hfold : ∀ g, R (fold g).1 g)
    (g : Graph) : R (iterStep P fold g).1 g := by
  simp only [iterStep]
  have h1 : R (if (fold g).2 then P.nameFix (fold g).1 else (fold g).1) g := by
    split
    · exact htrans (hfold g) (C.nameFix _)
    · exact hfold g
  exact htrans (htrans h1 (C.rewrite _)) (C.dce _)

theorem iterate_rel (P : IrPasses) (C : RelContracts R P) (fold : Graph → Graph × Bool) (hfold : ∀ g, R (fold g).1 g)
    (early : Bool) : ∀ (k : Nat) (g : Graph), R (iterate P fold early k g) g
  | 0, g => hrefl g
  | k + 1, g => by
    simp only [iterate]
    split
    · exact iterStep_rel R htrans P C fold hfold g
    · exact htrans (iterStep_rel R htrans P C fold hfold g) (iterate_rel P C fold hfold early k _)

theorem optimizeIr_rel (P : IrPasses) (C : RelContracts R P) (fold : Graph → Graph × Bool) (hfold : ∀ g, R (fold g).1 g)
    (o : OptOpts) (g : Graph) : R (optimizeIr P fold o g) g := by
  simp only [optimizeIr]
  have h0 : R (if o.inline then P.inline g else g) g := by
    split
    · exact C.inline g
    · exact hrefl g
  have h1 := htrans h0 (iterate_rel R hrefl htrans P C fold hfold o.stopIfNoChange o.numIterations _)
  have h2 := htrans h1 (C.dce _)
  have h3 := htrans h2 (C.liftConstants _)
  have h4 := htrans h3 (C.liftSubgraphInits _)
  have h5 := htrans h4 (C.dedup _)
  have h6 := htrans h5 (C.cse _)
  have h7 := htrans h6 (C.outputFix _)
  exact htrans h7 (C.nameFix _)

end

/-- the interface clause: `g'` may stand where `g` stood -/
def Iface (g' g : Graph) : Prop :=
  g'.inputs = g.inputs ∧ g'.outputs.length = g.outputs.length ∧
  ∀ x, x ∈ g.inputs → x ∈ g.inits.map (·.1) → x ∈ g'.inits.map (·.1)

theorem Iface.refl (g : Graph) : Iface g g := ⟨rfl, rfl, fun _ _ h => h⟩

theorem Iface.trans {a b c : Graph} (h1 : Iface b a) (h2 : Iface c b) : Iface c a :=
  ⟨h2.1.trans h1.1, h2.2.1.trans h1.2.1, fun x hx hi => h2.2.2 x (h1.1 ▸ hx) (h1.2.2 x hx hi)⟩

/-! ### `visit_function`: initializers left in a function body become Constant nodes -/

def constOfInit (p : Name × String) : Node := mkNode "Constant" [] [p.1] [("value", .tensor p.2)]

theorem initsToConstants_eq (st : St) (g : Graph) (h : g.inits.isEmpty = false) :
    (initsToConstants st g).2 =
      Graph.mk g.inputs [] ((g.inits.filter fun p => readsName maxDepth g p.1 || g.outputs.contains p.1).map constOfInit ++ g.nodes) g.outputs := by
  simp only [initsToConstants, h]
  rfl

theorem initsToConstants_of_empty (st : St) (g : Graph) (h : g.inits.isEmpty = true) : (initsToConstants st g).2 = g := by
  simp only [initsToConstants, h, if_true]

theorem initsToConstants_inits (st : St) (g : Graph) : (initsToConstants st g).2.inits = [] := by
  cases h : g.inits.isEmpty with
  | true => rw [initsToConstants_of_empty st g h]; exact List.isEmpty_iff.mp h
  | false => rw [initsToConstants_eq st g h]; rfl

theorem initsToConstants_sig (st : St) (g : Graph) :
    (initsToConstants st g).2.inputs = g.inputs ∧ (initsToConstants st g).2.outputs = g.outputs := by
  cases h : g.inits.isEmpty with
  | true => rw [initsToConstants_of_empty st g h]; exact ⟨rfl, rfl⟩
  | false => rw [initsToConstants_eq st g h]; exact ⟨rfl, rfl⟩

theorem outsOf_consts : ∀ (l : List (Name × String)), outsOf (l.map constOfInit) = l.map (·.1)
  | [] => rfl
  | p :: r => by
    rw [List.map_cons, outsOf_cons, outsOf_consts r]
    rfl

/-- nodes without inputs in front of a list: it is enough that the rest is closed over any scope that has the old scope and
their outputs -/
theorem ClosedL_prepend_sources : ∀ (l1 : List Node) (S : List Name) (l2 : List Node), (∀ n ∈ l1, n.inputs = []) →
    (∀ S', (∀ x, x ∈ S → x ∈ S') → (∀ x, x ∈ outsOf l1 → x ∈ S') → ClosedL S' l2) → ClosedL S (l1 ++ l2)
  | [], S, l2, _, h => h S (fun _ hx => hx) (fun _ hx => by simp [outsOf] at hx)
  | n :: r, S, l2, hin, h => by
    refine ⟨?_, ?_⟩
    · intro x hx
      rw [hin n List.mem_cons_self] at hx
      exact absurd hx (by simp)
    · apply ClosedL_prepend_sources r (n.outputs ++ S) l2 (fun m hm => hin m (List.mem_cons_of_mem _ hm))
      intro S' hS hO
      apply h S' (fun x hx => hS x (List.mem_append_right _ hx))
      intro x hx
      rw [outsOf_cons] at hx
      rcases List.mem_append.mp hx with h1 | h1
      · exact hS x (List.mem_append_left _ h1)
      · exact hO x h1

theorem readsName_of_input (g : Graph) (n : Node) (x : Name) (hn : n ∈ g.nodes) (hx : some x ∈ n.inputs) :
    readsName maxDepth g x = true := by
  show readsName (7 + 1) g x = true
  rw [readsName]
  apply List.any_eq_true.mpr
  refine ⟨n, hn, ?_⟩
  have : n.inputs.contains (some x) = true := List.contains_iff_mem.mpr hx
  rw [this]
  rfl

theorem mem_live (g : Graph) (x : Name) (hi : x ∈ g.inits.map (·.1))
    (hr : (readsName maxDepth g x || g.outputs.contains x) = true) :
    x ∈ (g.inits.filter fun p => readsName maxDepth g p.1 || g.outputs.contains p.1).map (·.1) := by
  obtain ⟨p, hp, hpx⟩ := List.mem_map.mp hi
  exact List.mem_map.mpr ⟨p, List.mem_filter.mpr ⟨hp, by rw [hpx]; simpa using hr⟩, hpx⟩

/-- **Scope well-formedness is preserved by the initializer clean-up of `visit_function`** (after commit a9715ec: an
initializer that is an output of the body is kept as well). -/
theorem initsToConstants_closed (st : St) (g : Graph) (sc : List Name) (hcl : GraphClosed sc g) :
    GraphClosed sc (initsToConstants st g).2 := by
  cases h : g.inits.isEmpty with
  | true => rw [initsToConstants_of_empty st g h]; exact hcl
  | false =>
    rw [initsToConstants_eq st g h]
    refine ⟨?_, ?_⟩
    · show ClosedL (([] : List (Name × String)).map (·.1) ++ (g.inputs ++ sc)) (_ ++ g.nodes)
      apply ClosedL_prepend_sources
      · intro n hn
        obtain ⟨p, _, rfl⟩ := List.mem_map.mp hn
        rfl
      · intro S' hS hO
        apply ClosedL_restrict g.nodes hcl.1
        intro x hx hr
        rcases List.mem_append.mp hx with h1 | h1
        · obtain ⟨n, hn, hnx⟩ := hr
          apply hO
          rw [outsOf_consts]
          exact mem_live g x h1 (by rw [readsName_of_input g n x hn hnx]; rfl)
        · exact hS x (by simpa using h1)
    · intro o ho
      rcases hcl.2 o ho with h1 | ⟨m, hm, hmo⟩
      · rcases List.mem_append.mp h1 with h2 | h2
        · right
          have ho' : o ∈ g.outputs := ho
          have hl := mem_live g o h2 (by rw [List.contains_iff_mem.mpr ho', Bool.or_true])
          rw [← outsOf_consts] at hl
          obtain ⟨m, hm, hmo⟩ := List.mem_flatMap.mp hl
          exact ⟨m, List.mem_append_left _ hm, hmo⟩
        · left
          show o ∈ ([] : List (Name × String)).map (·.1) ++ (g.inputs ++ sc)
          exact List.mem_append_right _ h2
      · exact Or.inr ⟨m, List.mem_append_right _ hm, hmo⟩

/-- **Single assignment is preserved by the clean-up**, for bodies none of whose initializers is a formal input (a function
input has no default). -/
theorem initsToConstants_ssa (st : St) (g : Graph) (hssa : SSA g) (hni : ∀ x, x ∈ g.inits.map (·.1) → x ∉ g.inputs) :
    SSA (initsToConstants st g).2 := by
  cases h : g.inits.isEmpty with
  | true => rw [initsToConstants_of_empty st g h]; exact hssa
  | false =>
    rw [initsToConstants_eq st g h]
    have hsub : List.Sublist ((g.inits.filter fun p => readsName maxDepth g p.1 || g.outputs.contains p.1).map (·.1)) (g.inits.map (·.1)) :=
      List.Sublist.map _ List.filter_sublist
    refine ⟨?_, ?_⟩
    · show (([] : List (Name × String)).map (·.1) ++ outsOf (_ ++ g.nodes)).Nodup
      rw [outsOf_append, outsOf_consts, List.map_nil, List.nil_append]
      exact List.Nodup.sublist (List.Sublist.append hsub (List.Sublist.refl _)) hssa.1
    · intro o ho
      have ho' : o ∈ outsOf ((g.inits.filter fun p => readsName maxDepth g p.1 || g.outputs.contains p.1).map constOfInit ++ g.nodes) := ho
      rw [outsOf_append, outsOf_consts] at ho'
      rcases List.mem_append.mp ho' with h1 | h1
      · exact hni o (hsub.subset h1)
      · exact hssa.2 o h1

/-! ### the output loop of `visit_graph` never makes two outputs equal -/

theorem replaceOutputs_distinct (nodes : List Node) : ∀ (outs : List Name) (st : St),
    outs.Nodup → (∀ o, o ∈ outs → o ∈ st.gouts) →
    (replaceOutputs st nodes outs).2.Nodup ∧
    ∀ o', o' ∈ (replaceOutputs st nodes outs).2 → o' ∈ outs ∨ o' ∉ st.gouts
  | [], _, _, _ => ⟨List.nodup_nil, fun _ h => absurd h (by simp [replaceOutputs])⟩
  | o :: rest, st, hnd, hin => by
    have hrest : rest.Nodup := (List.nodup_cons.mp hnd).2
    have hno : o ∉ rest := (List.nodup_cons.mp hnd).1
    have hog : o ∈ st.gouts := hin o List.mem_cons_self
    -- the "keep `o`" continuation, for any state with the same graph-output set
    have keep : ∀ st1 : St, st1.gouts = st.gouts →
        (o :: (replaceOutputs st1 nodes rest).2).Nodup ∧
        ∀ o', o' ∈ o :: (replaceOutputs st1 nodes rest).2 → o' ∈ o :: rest ∨ o' ∉ st.gouts := by
      intro st1 hg
      have ih := replaceOutputs_distinct nodes rest st1 hrest
        (fun r hr => by rw [hg]; exact hin r (List.mem_cons_of_mem _ hr))
      rw [hg] at ih
      refine ⟨List.nodup_cons.mpr ⟨?_, ih.1⟩, ?_⟩
      · intro hmem
        rcases ih.2 o hmem with h | h
        · exact hno h
        · exact h hog
      · intro o' ho'
        rcases List.mem_cons.mp ho' with rfl | h
        · exact Or.inl List.mem_cons_self
        · rcases ih.2 o' h with h1 | h1
          · exact Or.inl (List.mem_cons_of_mem _ h1)
          · exact Or.inr h1
    simp only [replaceOutputs]
    split
    · rename_i y hy
      split
      · exact keep (st.note "out:noproducer") rfl
      · split
        · exact keep (st.note "out:alreadyoutput") rfl
        · rename_i hprod hgo
          have hyg : y ∉ st.gouts := by
            intro h
            apply hgo
            exact List.contains_iff_mem.mpr h
          have ih := replaceOutputs_distinct nodes rest
            ({ st with gouts := y :: st.gouts.erase o, modified := true }.note "out:replaced") hrest
            (fun r hr => by
              show r ∈ y :: st.gouts.erase o
              have hne : r ≠ o := fun e => hno (e ▸ hr)
              exact List.mem_cons_of_mem _ ((List.mem_erase_of_ne hne).mpr (hin r (List.mem_cons_of_mem _ hr))))
          refine ⟨List.nodup_cons.mpr ⟨?_, ih.1⟩, ?_⟩
          · intro hmem
            rcases ih.2 y hmem with h | h
            · exact hyg (hin y (List.mem_cons_of_mem _ h))
            · exact h List.mem_cons_self
          · intro o' ho'
            rcases List.mem_cons.mp ho' with rfl | h
            · exact Or.inr hyg
            · rcases ih.2 o' h with h1 | h1
              · exact Or.inl (List.mem_cons_of_mem _ h1)
              · by_cases e : o' = o
                · exact Or.inl (e ▸ List.mem_cons_self)
                · right
                  intro hg
                  apply h1
                  show o' ∈ y :: st.gouts.erase o
                  exact List.mem_cons_of_mem _ ((List.mem_erase_of_ne e).mpr hg)
    · exact keep st rfl


end OV.C03
