import OV.Model.C01Separate
/-! Lemmas for `separate_input_attributes_from_arguments` (`OV/Model/C01Separate.lean`). -/
namespace OV.C01.Eager
open OV.C01

theorem countTrail_le {A} : ∀ l : List (Option A), countTrail l ≤ l.length
  | [] => Nat.le_refl 0
  | x :: xs => by
    have := countTrail_le xs
    simp only [countTrail, List.length_cons]
    split <;> omega

/-- the final `trailing_placeholders` after running over a slot list `l` from counter `k` -/
def trailAfter {A} (k : Nat) (l : List (Option A)) : Nat :=
  if countTrail l = l.length then k + l.length else countTrail l

theorem trailAfter_cons_none {A} (k : Nat) (l : List (Option A)) :
    trailAfter (k + 1) l = trailAfter k (none :: l) := by
  have := countTrail_le l
  simp only [trailAfter, countTrail, List.length_cons, Option.isNone_none, and_true]
  by_cases h : countTrail l = l.length
  · simp [h]; omega
  · simp [h]; omega

theorem trailAfter_cons_some {A} (k : Nat) (v : A) (l : List (Option A)) :
    trailAfter 0 l = trailAfter k (some v :: l) := by
  have := countTrail_le l
  simp only [trailAfter, countTrail, List.length_cons, Option.isNone_some, Bool.false_eq_true, and_false, if_false]
  by_cases h : countTrail l = l.length
  · simp [h]
  · simp [h]; omega

/-- the loop on a signature without variadic parameters whose required parameters are given -/
theorem sepLoop_spec {A} (d : SigParam → A) (kw : List (Name × A)) (args : List A) :
    ∀ (ps : List SigParam) (i : Nat) (st : Sep A), noVariadic ps = true → requiredGiven kw args i ps = true →
      sepLoop false d kw i args ps st =
        .ok { inputs := st.inputs ++ inputSlots kw args i ps,
              trailing := trailAfter st.trailing (inputSlots kw args i ps),
              attrs := st.attrs ++ attrSlots kw args i ps,
              hasVariadic := st.hasVariadic }
  | [], i, st, _, _ => by
    simp [sepLoop, inputSlots, attrSlots, trailAfter, countTrail]
  | p :: ps, i, st, hv, hr => by
    simp only [noVariadic, Bool.and_eq_true, Bool.not_eq_true'] at hv
    simp only [requiredGiven, Bool.and_eq_true, Bool.or_eq_true, Bool.not_eq_true'] at hr
    obtain ⟨hreq, hrest⟩ := hr
    unfold sepLoop
    simp only [hv.1, Bool.false_eq_true, if_false]
    cases hg : given kw args i p with
    | some v =>

      cases hin : p.isInput with
      | true =>
        simp only [if_true]
        rw [sepLoop_spec d kw args ps (i + 1) _ hv.2 hrest]
        simp only [inputSlots, attrSlots, hin, if_true, hg, List.append_assoc, List.singleton_append,
          ← trailAfter_cons_some st.trailing v]
      | false =>
        simp only [Bool.false_eq_true, if_false]
        rw [sepLoop_spec d kw args ps (i + 1) _ hv.2 hrest]
        simp only [inputSlots, attrSlots, hin, Bool.false_eq_true, if_false, hg, List.append_assoc, List.singleton_append]
    | none =>

      simp only [hg, Option.isSome_none, Bool.false_eq_true, false_or] at hreq
      cases hin : p.isInput with
      | true =>
        have hreq' : p.required = false := by simpa [hin] using hreq
        simp only [Bool.not_true, Bool.false_and, Bool.false_eq_true, if_false, hreq', if_true]
        rw [sepLoop_spec d kw args ps (i + 1) _ hv.2 hrest]
        simp only [inputSlots, attrSlots, hin, if_true, hg, List.append_assoc, List.singleton_append,
          trailAfter_cons_none]
      | false =>
        cases hd : p.hasDefault with
        | true =>
          simp only [Bool.not_false, Bool.true_and, if_true, Bool.false_eq_true, if_false]
          rw [sepLoop_spec d kw args ps (i + 1) _ hv.2 hrest]
          simp only [inputSlots, attrSlots, hin, Bool.false_eq_true, if_false, hg]
        | false =>
          have hreq' : p.required = false := by simpa [hin, hd] using hreq
          simp only [Bool.not_false, Bool.true_and, Bool.false_eq_true, if_false, hreq']
          rw [sepLoop_spec d kw args ps (i + 1) _ hv.2 hrest]
          simp only [inputSlots, attrSlots, hin, Bool.false_eq_true, if_false, hg]

theorem separate_spec {A} (allowExtraKw : Bool) (d : SigParam → A) (ps : List SigParam) (args : List A)
    (kw : List (Name × A)) (hv : noVariadic ps = true) (hr : requiredGiven kw args 0 ps = true)
    (hk : kw.any (fun e => !(ps.any (fun p => p.name = e.1))) = false ∨ allowExtraKw = true) :
    separate false allowExtraKw true d ps args kw = .ok (trimNone (inputSlots kw args 0 ps), attrSlots kw args 0 ps) := by
  have hc : (kw.any (fun e => !(ps.any (fun p => p.name = e.1))) && !allowExtraKw) = false := by
    rcases hk with h | h <;> simp [h]
  simp only [separate, hc, Bool.false_eq_true, if_false, sepLoop_spec d kw args ps 0 _ hv hr, List.nil_append,
    Bool.not_true, Bool.false_and, trimNone, trailAfter]
  by_cases h : countTrail (inputSlots kw args 0 ps) = (inputSlots kw args 0 ps).length
  · simp [h]
  · simp [h]

/-- entries in front of the trimmed tail keep their index -/
theorem trimNone_get {A} (l : List (Option A)) (j : Nat) (v : A) (h : l[j]? = some (some v)) :
    (trimNone l)[j]? = some (some v) := by
  have key : ∀ (l : List (Option A)) (j : Nat) (v : A), l[j]? = some (some v) → j < l.length - countTrail l := by
    intro l
    induction l with
    | nil => intro j v h; simp at h
    | cons x xs ih =>
      intro j v h
      have hle := countTrail_le xs
      simp only [countTrail, List.length_cons]
      cases j with
      | zero =>
        simp only [List.getElem?_cons_zero, Option.some.injEq] at h
        subst h
        simp; omega
      | succ j =>
        simp only [List.getElem?_cons_succ] at h
        have := ih j v h
        split <;> omega
  rw [trimNone, List.getElem?_take_of_lt (key l j v h)]
  exact h

end OV.C01.Eager
