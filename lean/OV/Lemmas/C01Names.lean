import OV.Model.C01Convert
/-!
# Lemmas for C02: every name the converter defines is fresh

`Mono s s'`      : the computation only adds to `used`.
`FreshL s s' d`  : the names `d` defined by the computation are pairwise distinct, were unused before and
                   are recorded in `used` afterwards.
Each function of `OV.Model.C01Convert` gets a lemma `…_fresh` saying this about the nodes (all nested
definitions included) it emits.
-/
namespace OV.C01

/-! ## The monad -/

theorem bind_ok {α β} {m : M α} {f : α → M β} {s s'' : St} {b : β}
    (h : (m >>= f) s = .ok (b, s'')) : ∃ a s', m s = .ok (a, s') ∧ f a s' = .ok (b, s'') := by
  change M.bind m f s = _ at h
  unfold M.bind at h
  cases hm : m s with
  | error e => rw [hm] at h; cases h
  | ok p =>
    obtain ⟨a, s'⟩ := p
    rw [hm] at h
    exact ⟨a, s', rfl, h⟩

theorem pure_ok {α} {a b : α} {s s' : St} (h : (pure a : M α) s = .ok (b, s')) : a = b ∧ s = s' := by
  change M.pure a s = _ at h
  unfold M.pure at h
  cases h
  exact ⟨rfl, rfl⟩

theorem failM_ok {α} {e : Err} {b : α} {s s' : St} (h : (failM e : M α) s = .ok (b, s')) : False := by
  unfold failM at h
  cases h

/-- `mbind h with a s ha`: split `h : (m >>= f) s0 = .ok _` into `ha : m s0 = .ok (a, s)` and the rest,
which replaces `h` (the old `h` is cleared so that later `subst`s cannot resurrect it). -/
syntax "mbind " ident " with " ident ident ident : tactic
macro_rules
  | `(tactic| mbind $h with $a $s $ha) =>
    `(tactic| (have hx__ := bind_ok $h; clear $h; have ⟨$a, $s, $ha, $h⟩ := hx__; clear hx__))

/-! ## Freshness vocabulary -/

def Mono (s s' : St) : Prop := ∀ n, n ∈ s.used → n ∈ s'.used

def FreshL (s s' : St) (d : List Name) : Prop :=
  d.Nodup ∧ ∀ n ∈ d, n ∉ s.used ∧ n ∈ s'.used

theorem Mono.refl (s : St) : Mono s s := fun _ h => h
theorem Mono.trans {a b c : St} (h1 : Mono a b) (h2 : Mono b c) : Mono a c := fun n h => h2 n (h1 n h)

theorem FreshL.nil (s s' : St) : FreshL s s' [] := ⟨List.nodup_nil, fun _ h => by cases h⟩

theorem FreshL.append {s s' s'' : St} {d1 d2 : List Name}
    (m1 : Mono s s') (f1 : FreshL s s' d1) (m2 : Mono s' s'') (f2 : FreshL s' s'' d2) :
    FreshL s s'' (d1 ++ d2) := by
  refine ⟨?_, ?_⟩
  · rw [List.nodup_append]
    refine ⟨f1.1, f2.1, ?_⟩
    intro a ha b hb hab
    subst hab
    exact (f2.2 a hb).1 ((f1.2 a ha).2)
  · intro n hn
    rcases List.mem_append.mp hn with h | h
    · exact ⟨(f1.2 n h).1, m2 n (f1.2 n h).2⟩
    · exact ⟨fun hu => (f2.2 n h).1 (m1 n hu), (f2.2 n h).2⟩

theorem FreshL.perm {s s' : St} {d1 d2 : List Name} (p : d1.Perm d2) (f : FreshL s s' d1) :
    FreshL s s' d2 :=
  ⟨p.nodup_iff.mp f.1, fun n hn => f.2 n (p.mem_iff.mpr hn)⟩

theorem FreshL.weaken_left {s0 s s' : St} {d : List Name} (m : Mono s0 s) (f : FreshL s s' d) :
    FreshL s0 s' d :=
  ⟨f.1, fun n hn => ⟨fun hu => (f.2 n hn).1 (m n hu), (f.2 n hn).2⟩⟩

theorem FreshL.weaken_right {s s' s1 : St} {d : List Name} (f : FreshL s s' d) (m : Mono s' s1) :
    FreshL s s1 d :=
  ⟨f.1, fun n hn => ⟨(f.2 n hn).1, m n (f.2 n hn).2⟩⟩

/-! ## `allDefsL` -/

theorem allDefsL_append (a b : List Node) : allDefsL (a ++ b) = allDefsL a ++ allDefsL b := by
  induction a with
  | nil => simp [allDefsL]
  | cons n ns ih => simp [allDefsL, ih, List.append_assoc]

theorem allDefsL_nil : allDefsL [] = [] := by simp [allDefsL]

theorem allDefsL_single (n : Node) : allDefsL [n] = n.allDefs := by simp [allDefsL]

/-! ## `_generate_unique_name` -/

theorem genLoop_fresh {used : List Name} {cand : Name} :
    ∀ (fuel k : Nat) {r : Name} {k' : Nat}, genLoop used cand fuel k = some (r, k') → r ∉ used := by
  intro fuel
  induction fuel with
  | zero => intro k r k' h; simp [genLoop] at h
  | succ n ih =>
    intro k r k' h
    unfold genLoop at h
    simp only at h
    split at h
    · exact ih _ h
    · rename_i hc
      cases h
      simpa using hc

/-- `_generate_unique_name` returns a name that was not used, and records it. -/
theorem genUnique_spec {cand r : Name} {s s' : St} (h : genUnique cand s = .ok (r, s')) :
    r ∉ s.used ∧ s'.used = r :: s.used ∧ s'.castable = s.castable := by
  unfold genUnique at h
  split at h
  · split at h
    · rename_i r' k hg
      cases h
      exact ⟨genLoop_fresh _ _ hg, rfl, rfl⟩
    · cases h
  · rename_i hc
    cases h
    exact ⟨by simpa using hc, rfl, rfl⟩

theorem genUnique_fresh {cand r : Name} {s s' : St} (h : genUnique cand s = .ok (r, s')) :
    Mono s s' ∧ FreshL s s' [r] := by
  obtain ⟨h1, h2, _⟩ := genUnique_spec h
  refine ⟨fun n hn => by rw [h2]; exact List.mem_cons_of_mem _ hn, ?_, ?_⟩
  · simp
  · intro n hn
    rw [List.mem_singleton] at hn
    subst hn
    exact ⟨h1, by rw [h2]; exact List.mem_cons_self⟩

theorem genUniques_fresh : ∀ (cs : List Name) {rs : List Name} {s s' : St},
    genUniques cs s = .ok (rs, s') → Mono s s' ∧ FreshL s s' rs ∧ rs.length = cs.length := by
  intro cs
  induction cs with
  | nil =>
    intro rs s s' h
    unfold genUniques at h
    obtain ⟨h1, h2⟩ := pure_ok h
    subst h1; subst h2
    exact ⟨Mono.refl _, FreshL.nil _ _, rfl⟩
  | cons c cs ih =>
    intro rs s s' h
    unfold genUniques at h
    mbind h with r s1 hr
    mbind h with rs' s2 hrs
    obtain ⟨h1, h2⟩ := pure_ok h
    subst h1; subst h2
    obtain ⟨m1, f1⟩ := genUnique_fresh hr
    obtain ⟨m2, f2, hl⟩ := ih hrs
    exact ⟨m1.trans m2, FreshL.append m1 f1 m2 f2, by simp [hl]⟩

theorem markCastable_used {n : Name} {s s' : St} {u : Unit} (h : markCastable n s = .ok (u, s')) :
    s'.used = s.used := by
  unfold markCastable at h
  cases h
  rfl

theorem isCastable_state {n : Name} {s s' : St} {b : Bool} (h : isCastable n s = .ok (b, s')) :
    s' = s := by
  unfold isCastable at h
  cases h
  rfl

theorem mono_of_used_eq {s s' : St} (h : s'.used = s.used) : Mono s s' := fun n hn => by rw [h]; exact hn

theorem FreshL.of_used_eq_right {s s' s1 : St} {d : List Name} (f : FreshL s s' d) (h : s1.used = s'.used) :
    FreshL s s1 d := f.weaken_right (mono_of_used_eq h)


/-! ## Emission helpers -/

/-- Shape of most leaf emitters: result `(x, ns)`; the nodes define fresh names. -/
def NodesFresh (s s' : St) (ns : List Node) : Prop := Mono s s' ∧ FreshL s s' (allDefsL ns)

theorem NodesFresh.nil (s : St) : NodesFresh s s [] := ⟨Mono.refl s, by rw [allDefsL_nil]; exact FreshL.nil _ _⟩

theorem NodesFresh.append {s s' s'' : St} {a b : List Node}
    (h1 : NodesFresh s s' a) (h2 : NodesFresh s' s'' b) : NodesFresh s s'' (a ++ b) :=
  ⟨h1.1.trans h2.1, by rw [allDefsL_append]; exact FreshL.append h1.1 h1.2 h2.1 h2.2⟩

theorem NodesFresh.of_eq {s s' : St} {a b : List Node} (h : NodesFresh s s' a) (e : a = b) :
    NodesFresh s s' b := e ▸ h

theorem needState_ok {α : Type} {state : List Name} {a r : α} {s s' : St}
    (h : needState state a s = .ok (r, s')) : state ≠ [] ∧ a = r ∧ s = s' := by
  unfold needState at h
  cases state with
  | nil => simp only [List.isEmpty_nil, if_true] at h; exact (failM_ok h).elim
  | cons x xs =>
    simp only [List.isEmpty_cons, Bool.false_eq_true, if_false] at h
    obtain ⟨e1, e2⟩ := pure_ok h
    exact ⟨by simp, e1, e2⟩

theorem forCondIn_ok {i : Name} {lo : VSet} {state : List Name} {c : Name} {s s' : St}
    (h : forCondIn i lo state s = .ok (c, s')) : lo.contains i = false ∧ genUnique "cond_in" s = .ok (c, s') := by
  unfold forCondIn at h
  mbind h with c' s1 h1
  cases hl : lo.contains i with
  | true => simp only [hl, if_true] at h; exact (failM_ok h).elim
  | false =>
    simp only [hl, Bool.false_eq_true, if_false] at h
    obtain ⟨_, e1, e2⟩ := needState_ok h
    subst e1; subst e2
    exact ⟨rfl, h1⟩

theorem whileCond_ok {L : Locals} {t : Name} {state : List Name} {r : Name × List Node} {s s' : St}
    (h : whileCond L t state s = .ok (r, s')) : pyVar L t s = .ok (r, s') := by
  unfold whileCond at h
  mbind h with r' s1 h1
  obtain ⟨_, e1, e2⟩ := needState_ok h
  subst e1; subst e2
  exact h1

theorem guardE_ok {α : Type} {ok : Bool} {e : Err} {m : M α} {r : α} {s s' : St}
    (h : guardE ok e m s = .ok (r, s')) : ok = true ∧ m s = .ok (r, s') := by
  unfold guardE at h
  cases ok with
  | true => simp only [if_true] at h; exact ⟨rfl, h⟩
  | false => simp only [Bool.false_eq_true, if_false] at h; exact (failM_ok h).elim

theorem onlyLast_ok {α : Type} {last : Bool} {m : M α} {r : α} {s s' : St}
    (h : onlyLast last m s = .ok (r, s')) : last = true ∧ m s = .ok (r, s') := by
  unfold onlyLast at h
  cases last with
  | true => simp only [if_true] at h; exact ⟨rfl, h⟩
  | false => simp only [Bool.false_eq_true, if_false] at h; exact (failM_ok h).elim

theorem emitConst_fresh {l : Lit} {sug : Option Name} {x : Name} {ns : List Node} {s s' : St}
    (h : emitConst l sug s = .ok ((x, ns), s')) : NodesFresh s s' ns := by
  unfold emitConst at h
  mbind h with n s1 hn
  mbind h with u s2 hm
  obtain ⟨h1, h2⟩ := pure_ok h
  cases h1; subst h2
  obtain ⟨m1, f1⟩ := genUnique_fresh hn
  have hu := markCastable_used hm
  refine ⟨m1.trans (mono_of_used_eq hu), ?_⟩
  simp only [allDefsL, Node.allDefs, List.append_nil]
  exact f1.of_used_eq_right hu

theorem emitCopy_fresh {o sug x : Name} {ns : List Node} {s s' : St}
    (h : emitCopy o sug s = .ok ((x, ns), s')) : NodesFresh s s' ns := by
  unfold emitCopy at h
  mbind h with n s1 hn
  obtain ⟨h1, h2⟩ := pure_ok h
  cases h1; subst h2
  obtain ⟨m1, f1⟩ := genUnique_fresh hn
  refine ⟨m1, ?_⟩
  simp only [allDefsL, Node.allDefs, List.append_nil]
  exact f1

theorem toOnnxVar_fresh {b : Bind} {t x : Name} {ns : List Node} {s s' : St}
    (h : toOnnxVar b t s = .ok ((x, ns), s')) : NodesFresh s s' ns := by
  cases b with
  | val n =>
    unfold toOnnxVar at h
    simp only at h
    obtain ⟨h1, h2⟩ := pure_ok h
    cases h1; subst h2
    exact NodesFresh.nil _
  | attr p ty =>
    unfold toOnnxVar at h
    simp only at h
    mbind h with r s1 hr
    obtain ⟨m1, f1⟩ := genUnique_fresh hr
    cases hav : attrValueName ty with
    | none =>
      simp only [hav] at h
      exact (failM_ok h).elim
    | some an =>
      simp only [hav] at h
      by_cases hb : ty = AttrTy.bool
      · simp only [hb, if_true] at h
        mbind h with rb s2 hrb
        mbind h with u s3 hm
        obtain ⟨h1, h2⟩ := pure_ok h
        cases h1; subst h2
        obtain ⟨m2, f2⟩ := genUnique_fresh hrb
        have hu := markCastable_used hm
        refine ⟨(m1.trans m2).trans (mono_of_used_eq hu), ?_⟩
        simp only [allDefsL, Node.allDefs, List.append_nil]
        exact (FreshL.append m1 f1 m2 f2).of_used_eq_right hu
      · simp only [hb, if_false] at h
        mbind h with u s3 hm
        obtain ⟨h1, h2⟩ := pure_ok h
        cases h1; subst h2
        have hu := markCastable_used hm
        refine ⟨m1.trans (mono_of_used_eq hu), ?_⟩
        simp only [allDefsL, Node.allDefs, List.append_nil]
        exact f1.of_used_eq_right hu

theorem pyVar_fresh {L : Locals} {v x : Name} {ns : List Node} {s s' : St}
    (h : pyVar L v s = .ok ((x, ns), s')) : NodesFresh s s' ns := by
  unfold pyVar at h
  cases hl : lookup L v with
  | none => simp only [hl] at h; exact (failM_ok h).elim
  | some b => simp only [hl] at h; exact toOnnxVar_fresh h

theorem castOne_fresh {a : Name} {tgt : Option Name} {x : Name} {ns : List Node} {s s' : St}
    (h : castOne a tgt s = .ok ((x, ns), s')) : NodesFresh s s' ns := by
  unfold castOne at h
  cases tgt with
  | none => simp only at h; cases h; exact NodesFresh.nil _
  | some y =>
    simp only at h
    by_cases hc : s.castable.contains a = true
    · simp only [hc, if_true] at h
      cases hg : genUnique (a ++ "_cast") s with
      | error e => simp only [hg] at h; cases h
      | ok p =>
        obtain ⟨xc, s1⟩ := p
        simp only [hg] at h
        cases h
        obtain ⟨m1, f1⟩ := genUnique_fresh hg
        exact ⟨m1, by simpa [allDefsL, Node.allDefs] using f1⟩
    · simp only [hc] at h
      cases h
      exact NodesFresh.nil _

theorem castArgs_fresh {sig : Sig} {bs : List (String × Name)} :
    ∀ (as : List Name) (i : Nat) {xs : List Name} {ns : List Node} {s s' : St},
      castArgs sig bs as i s = .ok ((xs, ns), s') → NodesFresh s s' ns := by
  intro as
  induction as with
  | nil =>
    intro i xs ns s s' h
    unfold castArgs at h
    obtain ⟨h1, h2⟩ := pure_ok h
    cases h1; subst h2
    exact NodesFresh.nil _
  | cons a as ih =>
    intro i xs ns s s' h
    unfold castArgs at h
    mbind h with p s1 hc
    obtain ⟨x, n1⟩ := p
    mbind h with p s2 hr
    obtain ⟨rest, ns'⟩ := p
    obtain ⟨h1, h2⟩ := pure_ok h
    cases h1; subst h2
    exact (castOne_fresh hc).append (ih _ hr)

theorem castInputs_fresh {sig : Sig} {as xs : List Name} {ns : List Node} {s s' : St}
    (h : castInputs sig as s = .ok ((xs, ns), s')) : NodesFresh s s' ns := by
  unfold castInputs at h
  split at h
  · cases h
    exact NodesFresh.nil _
  · split at h
    · cases h
    · exact castArgs_fresh _ _ h

theorem liftE_state {α} {e : Except Err α} {a : α} {s s' : St} (h : liftE e s = .ok (a, s')) : s' = s := by
  unfold liftE at h
  split at h
  · cases h; rfl
  · cases h

end OV.C01

namespace OV.C01

/-! ## Expressions -/

theorem op_single_fresh {s s' : St} {r : Name} (m : Mono s s') (f : FreshL s s' [r])
    (dom name : String) (ins : List (Option Name)) (attrs : List (String × AttrV)) :
    NodesFresh s s' [Node.op dom name ins [r] attrs] :=
  ⟨m, by simpa [allDefsL, Node.allDefs] using f⟩

/-! ### Constant subscripts -/

theorem const1d_fresh {c c' : IntCache} {v : Int} {x : Name} {ns : List Node} {s s' : St}
    (h : const1d c v s = .ok ((x, ns, c'), s')) : NodesFresh s s' ns := by
  unfold const1d at h
  cases hf : cacheFind c v with
  | some n =>
    simp only [hf] at h
    obtain ⟨e1, e2⟩ := pure_ok h
    cases e1; subst e2
    exact NodesFresh.nil _
  | none =>
    simp only [hf] at h
    mbind h with p s1 h1
    obtain ⟨n, ns'⟩ := p
    try dsimp only at h
    obtain ⟨e1, e2⟩ := pure_ok h
    cases e1; subst e2
    exact emitConst_fresh h1

theorem convSlice_fresh {c c' : IntCache} {lo up st : Option Int} {r : Name × Name × Name} {ns : List Node}
    {s s' : St} (h : convSlice c lo up st s = .ok ((r, ns, c'), s')) : NodesFresh s s' ns := by
  unfold convSlice at h
  mbind h with p s1 h1
  obtain ⟨sn, ns1, c1⟩ := p
  try dsimp only at h
  mbind h with p s2 h2
  obtain ⟨ln, ns2, c2⟩ := p
  try dsimp only at h
  mbind h with p s3 h3
  obtain ⟨un, ns3, c3⟩ := p
  try dsimp only at h
  obtain ⟨e1, e2⟩ := pure_ok h
  cases e1; subst e2
  exact (const1d_fresh h1).append ((const1d_fresh h2).append (const1d_fresh h3))

theorem convSlices_fresh : ∀ (els : List SliceEl) {c c' : IntCache}
    {r : List Name × List Name × List Name × List Name} {ns : List Node} {s s' : St},
    convSlices c els s = .ok ((r, ns, c'), s') → NodesFresh s s' ns := by
  intro els
  induction els with
  | nil =>
    intro c c' r ns s s' h
    unfold convSlices at h
    obtain ⟨e1, e2⟩ := pure_ok h
    cases e1; subst e2
    exact NodesFresh.nil _
  | cons el rest ih =>
    intro c c' r ns s s' h
    obtain ⟨ax, lo, up, st⟩ := el
    unfold convSlices at h
    mbind h with p s1 h1
    obtain ⟨an, ns0, c0⟩ := p
    try dsimp only at h
    mbind h with p s2 h2
    obtain ⟨⟨l, u, sn⟩, ns1, c1⟩ := p
    try dsimp only at h
    mbind h with p s3 h3
    obtain ⟨⟨ls, us, as, ss⟩, ns2, c2⟩ := p
    try dsimp only at h
    obtain ⟨e1, e2⟩ := pure_ok h
    cases e1; subst e2
    exact (const1d_fresh h1).append ((convSlice_fresh h2).append (ih h3))

theorem pickOrConcat_fresh {cand : Name} {xs : List Name} {x : Name} {ns : List Node} {s s' : St}
    (h : pickOrConcat cand xs s = .ok ((x, ns), s')) : NodesFresh s s' ns := by
  have hc : ∀ {s s' : St} {x : Name} {ns : List Node},
      (do let r ← genUnique cand
          pure (r, [Node.op "" "Concat" (xs.map some) [r] [("axis", AttrV.const "i:0")]]) : M (Name × List Node)) s
        = .ok ((x, ns), s') → NodesFresh s s' ns := by
    intro s s' x ns h
    mbind h with r s1 h1
    obtain ⟨e1, e2⟩ := pure_ok h
    cases e1; subst e2
    obtain ⟨m1, f1⟩ := genUnique_fresh h1
    exact op_single_fresh m1 f1 _ _ _ _
  unfold pickOrConcat at h
  cases xs with
  | nil => exact hc h
  | cons a t =>
    cases t with
    | nil =>
      simp only at h
      obtain ⟨e1, e2⟩ := pure_ok h
      cases e1; subst e2
      exact NodesFresh.nil _
    | cons b t' => exact hc h

/-- The target name is generated first and defined last: freshness of the whole list is that of the
sequence up to a permutation of the defined names. -/
theorem target_last_fresh {s s1 s' : St} {target : Name} {mid : List Node} {last : Node}
    (ht : Mono s s1 ∧ FreshL s s1 [target]) (hm : NodesFresh s1 s' mid)
    (hl : allDefsL [last] = [target]) : NodesFresh s s' (mid ++ [last]) := by
  refine ⟨ht.1.trans hm.1, ?_⟩
  rw [allDefsL_append, hl]
  exact FreshL.perm List.perm_append_comm (FreshL.append ht.1 ht.2 hm.1 hm.2)

theorem convSubscript_fresh {var : Name} {tgt : Option Name} {idx : List Idx} {x : Name} {ns : List Node}
    {s s' : St} (h : convSubscript var tgt idx s = .ok ((x, ns), s')) : NodesFresh s s' ns := by
  unfold convSubscript at h
  mbind h with target s0 h0
  have ht := genUnique_fresh h0
  try dsimp only at h
  by_cases hc : (!(slicedOf 0 idx).isEmpty || decide ((scalarsOf 0 idx).length > 1)) = true
  · rw [if_pos hc] at h
    mbind h with p s1 h1
    obtain ⟨⟨starts, ends, axes, steps⟩, ns1, cc⟩ := p
    try dsimp only at h
    mbind h with p s2 h2
    obtain ⟨sv, n1⟩ := p
    try dsimp only at h
    mbind h with p s3 h3
    obtain ⟨ev, n2⟩ := p
    try dsimp only at h
    mbind h with p s4 h4
    obtain ⟨av, n3⟩ := p
    try dsimp only at h
    mbind h with p s5 h5
    obtain ⟨tv, n4⟩ := p
    try dsimp only at h
    have hmid := (convSlices_fresh _ h1).append ((pickOrConcat_fresh h2).append ((pickOrConcat_fresh h3).append
      ((pickOrConcat_fresh h4).append (pickOrConcat_fresh h5))))
    by_cases hsc : (scalarsOf 0 idx).isEmpty = true
    · rw [if_pos hsc] at h
      obtain ⟨e1, e2⟩ := pure_ok h
      cases e1; subst e2
      have := target_last_fresh (last := Node.op "" "Slice" [some var, some sv, some ev, some av, some tv] [x] [])
        ht hmid (by simp [allDefsL, Node.allDefs])
      simpa [List.append_assoc] using this
    · rw [if_neg hsc] at h
      mbind h with sliced s6 h6
      mbind h with p s7 h7
      obtain ⟨sq, n5⟩ := p
      try dsimp only at h
      obtain ⟨e1, e2⟩ := pure_ok h
      cases e1; subst e2
      obtain ⟨m6, f6⟩ := genUnique_fresh h6
      have hmid2 := hmid.append ((op_single_fresh m6 f6 "" "Slice" [some var, some sv, some ev, some av, some tv] []).append
        (emitConst_fresh h7))
      have := target_last_fresh (last := Node.op "" "Squeeze" [some sliced, some sq] [x] [])
        ht hmid2 (by simp [allDefsL, Node.allDefs])
      simpa [List.append_assoc] using this
  · rw [if_neg hc] at h
    cases hsc : scalarsOf 0 idx with
    | nil =>
      simp only [hsc] at h
      obtain ⟨e1, e2⟩ := pure_ok h
      cases e1; subst e2
      exact op_single_fresh ht.1 ht.2 _ _ _ _
    | cons p rest =>
      obtain ⟨ax, k⟩ := p
      simp only [hsc] at h
      mbind h with q s1 h1
      obtain ⟨iv, n1⟩ := q
      try dsimp only at h
      obtain ⟨e1, e2⟩ := pure_ok h
      cases e1; subst e2
      exact target_last_fresh ht (emitConst_fresh h1) (by simp [allDefsL, Node.allDefs])

mutual
theorem convExpr_fresh (L : Locals) : ∀ (e : Expr) (tgt : Option Name) {x : Name} {ns : List Node} {s s' : St},
    convExpr L e tgt s = .ok ((x, ns), s') → NodesFresh s s' ns
  | .var v, tgt, x, ns, s, s', h => by
    unfold convExpr at h
    exact pyVar_fresh h
  | .lit l, tgt, x, ns, s, s', h => by
    unfold convExpr at h
    exact emitConst_fresh h
  | .call dom op sig args attrs, tgt, x, ns, s, s', h => by
    unfold convExpr at h
    mbind h with p s1 h1
    obtain ⟨as, ns1⟩ := p
    try dsimp only at h
    mbind h with attrs' s2 h2
    have := liftE_state h2
    subst this
    mbind h with p s3 h3
    obtain ⟨as', ns2⟩ := p
    try dsimp only at h
    mbind h with r s4 h4
    obtain ⟨e1, e2⟩ := pure_ok h
    cases e1; subst e2
    obtain ⟨m4, f4⟩ := genUnique_fresh h4
    exact (convArgs_fresh L args h1).append ((castInputs_fresh h3).append (op_single_fresh m4 f4 _ _ _ _))
  | .binop o a b, tgt, x, ns, s, s', h => by
    unfold convExpr at h
    cases hp : primop o with
    | none => simp only [hp] at h; exact (failM_ok h).elim
    | some oname =>
      simp only [hp] at h
      mbind h with p s1 h1
      obtain ⟨l, ns1⟩ := p
      try dsimp only at h
      mbind h with p s2 h2
      obtain ⟨r, ns2⟩ := p
      try dsimp only at h
      mbind h with p s3 h3
      obtain ⟨as', ns3⟩ := p
      try dsimp only at h
      mbind h with res s4 h4
      obtain ⟨e1, e2⟩ := pure_ok h
      cases e1; subst e2
      obtain ⟨m4, f4⟩ := genUnique_fresh h4
      exact (convExpr_fresh L a none h1).append ((convExpr_fresh L b none h2).append
        ((castInputs_fresh h3).append (op_single_fresh m4 f4 _ _ _ _)))
  | .unop o a, tgt, x, ns, s, s', h => by
    unfold convExpr at h
    cases hp : primop o with
    | none => simp only [hp] at h; exact (failM_ok h).elim
    | some oname =>
      simp only [hp] at h
      cases hn : negatedLiteral o a with
      | some l => simp only [hn] at h; exact emitConst_fresh h
      | none =>
        simp only [hn] at h
        mbind h with p s1 h1
        obtain ⟨y, ns1⟩ := p
        try dsimp only at h
        mbind h with res s4 h4
        obtain ⟨e1, e2⟩ := pure_ok h
        cases e1; subst e2
        obtain ⟨m4, f4⟩ := genUnique_fresh h4
        exact (convExpr_fresh L a none h1).append (op_single_fresh m4 f4 _ _ _ _)
  | .cmp o a b, tgt, x, ns, s, s', h => by
    unfold convExpr at h
    cases hp : primop o with
    | none => simp only [hp] at h; exact (failM_ok h).elim
    | some oname =>
      simp only [hp] at h
      mbind h with p s1 h1
      obtain ⟨l, ns1⟩ := p
      try dsimp only at h
      mbind h with p s2 h2
      obtain ⟨r, ns2⟩ := p
      try dsimp only at h
      mbind h with p s3 h3
      obtain ⟨as', ns3⟩ := p
      try dsimp only at h
      by_cases hne : oname = "NotEqual"
      · simp only [hne, if_true] at h
        mbind h with tmp s4 h4
        mbind h with res s5 h5
        obtain ⟨e1, e2⟩ := pure_ok h
        cases e1; subst e2
        obtain ⟨m4, f4⟩ := genUnique_fresh h4
        obtain ⟨m5, f5⟩ := genUnique_fresh h5
        have hx := (op_single_fresh m4 f4 "" "Equal" (as'.map some) []).append
          (op_single_fresh m5 f5 "" "Not" [some tmp] [])
        exact (convExpr_fresh L a none h1).append ((convExpr_fresh L b none h2).append
          ((castInputs_fresh h3).append hx))
      · simp only [hne, if_false] at h
        mbind h with res s4 h4
        obtain ⟨e1, e2⟩ := pure_ok h
        cases e1; subst e2
        obtain ⟨m4, f4⟩ := genUnique_fresh h4
        exact (convExpr_fresh L a none h1).append ((convExpr_fresh L b none h2).append
          ((castInputs_fresh h3).append (op_single_fresh m4 f4 _ _ _ _)))
  | .subscript base idx, tgt, x, ns, s, s', h => by
    unfold convExpr at h
    mbind h with p s1 h1
    obtain ⟨v, ns1⟩ := p
    try dsimp only at h
    mbind h with p s2 h2
    obtain ⟨r, ns2⟩ := p
    try dsimp only at h
    obtain ⟨e1, e2⟩ := pure_ok h
    cases e1; subst e2
    exact (convExpr_fresh L base none h1).append (convSubscript_fresh h2)
  | .other us, tgt, x, ns, s, s', h => by
    unfold convExpr at h
    exact (failM_ok h).elim
theorem convArgs_fresh (L : Locals) : ∀ (es : List Expr) {xs : List Name} {ns : List Node} {s s' : St},
    convArgs L es s = .ok ((xs, ns), s') → NodesFresh s s' ns
  | [], xs, ns, s, s', h => by
    unfold convArgs at h
    obtain ⟨e1, e2⟩ := pure_ok h
    cases e1; subst e2
    exact NodesFresh.nil _
  | e :: es, xs, ns, s, s', h => by
    unfold convArgs at h
    mbind h with p s1 h1
    obtain ⟨y, ns1⟩ := p
    try dsimp only at h
    mbind h with p s2 h2
    obtain ⟨ys, ns2⟩ := p
    try dsimp only at h
    obtain ⟨e1, e2⟩ := pure_ok h
    cases e1; subst e2
    exact (convExpr_fresh L e none h1).append (convArgs_fresh L es h2)
end

end OV.C01

namespace OV.C01

/-! ## Statement helpers -/

theorem blockOutputs_fresh (L : Locals) : ∀ (vs : List Name) (sofar : List Node) (outs : List Name)
    {os : List Name} {ns : List Node} {s s' : St},
    blockOutputs L vs sofar outs s = .ok ((os, ns), s') → NodesFresh s s' ns := by
  intro vs
  induction vs with
  | nil =>
    intro sofar outs os ns s s' h
    unfold blockOutputs at h
    obtain ⟨e1, e2⟩ := pure_ok h
    cases e1; subst e2
    exact NodesFresh.nil _
  | cons pv rest ih =>
    intro sofar outs os ns s s' h
    unfold blockOutputs at h
    cases hc : currentScopeFind L pv with
    | some b =>
      simp only [hc] at h
      mbind h with p s1 h1
      obtain ⟨o, ns1⟩ := p
      try dsimp only at h
      by_cases hin : ((topDefs (sofar ++ ns1)).contains o && !outs.contains o) = true
      · rw [if_pos hin] at h
        mbind h with p s2 h2
        obtain ⟨os', ns2⟩ := p
        try dsimp only at h
        obtain ⟨e1, e2⟩ := pure_ok h
        cases e1; subst e2
        exact (toOnnxVar_fresh h1).append (ih _ _ h2)
      · rw [if_neg hin] at h
        mbind h with p s2 h2
        obtain ⟨o', nc⟩ := p
        try dsimp only at h
        mbind h with p s3 h3
        obtain ⟨os', ns2⟩ := p
        try dsimp only at h
        obtain ⟨e1, e2⟩ := pure_ok h
        cases e1; subst e2
        exact (toOnnxVar_fresh h1).append ((emitCopy_fresh h2).append (ih _ _ h3))
    | none =>
      simp only [hc] at h
      cases hl : lookup L pv with
      | none => simp only [hl] at h; exact (failM_ok h).elim
      | some b =>
        simp only [hl] at h
        mbind h with p s1 h1
        obtain ⟨o, ns1⟩ := p
        try dsimp only at h
        mbind h with p s2 h2
        obtain ⟨o', nc⟩ := p
        try dsimp only at h
        mbind h with p s3 h3
        obtain ⟨os', ns2⟩ := p
        try dsimp only at h
        obtain ⟨e1, e2⟩ := pure_ok h
        cases e1; subst e2
        exact (toOnnxVar_fresh h1).append ((emitCopy_fresh h2).append (ih _ _ h3))

theorem loopOutputs_fresh (L : Locals) : ∀ (vs : List Name) (sofar : List Node) (outs : List Name)
    {os : List Name} {ns : List Node} {s s' : St},
    loopOutputs L vs sofar outs s = .ok ((os, ns), s') → NodesFresh s s' ns := by
  intro vs
  induction vs with
  | nil =>
    intro sofar outs os ns s s' h
    unfold loopOutputs at h
    obtain ⟨e1, e2⟩ := pure_ok h
    cases e1; subst e2
    exact NodesFresh.nil _
  | cons pv rest ih =>
    intro sofar outs os ns s s' h
    unfold loopOutputs at h
    mbind h with p s1 h1
    obtain ⟨o, ns1⟩ := p
    try dsimp only at h
    by_cases hin : ((topDefs (sofar ++ ns1)).contains o && !outs.contains o) = true
    · rw [if_pos hin] at h
      mbind h with p s2 h2
      obtain ⟨os', ns2⟩ := p
      try dsimp only at h
      obtain ⟨e1, e2⟩ := pure_ok h
      cases e1; subst e2
      exact (pyVar_fresh h1).append (ih _ _ h2)
    · rw [if_neg hin] at h
      mbind h with p s2 h2
      obtain ⟨o', nc⟩ := p
      try dsimp only at h
      mbind h with p s3 h3
      obtain ⟨os', ns2⟩ := p
      try dsimp only at h
      obtain ⟨e1, e2⟩ := pure_ok h
      cases e1; subst e2
      exact (pyVar_fresh h1).append ((emitCopy_fresh h2).append (ih _ _ h3))

theorem loopInits_fresh (L : Locals) : ∀ (vs : List Name) {os : List Name}
    {ns : List Node} {s s' : St}, loopInits L vs s = .ok ((os, ns), s') → NodesFresh s s' ns := by
  intro vs
  induction vs with
  | nil =>
    intro os ns s s' h
    unfold loopInits at h
    obtain ⟨e1, e2⟩ := pure_ok h
    cases e1; subst e2
    exact NodesFresh.nil _
  | cons pv rest ih =>
    intro os ns s s' h
    unfold loopInits at h
    mbind h with p s1 h1
    obtain ⟨o, ns1⟩ := p
    try dsimp only at h
    mbind h with p s2 h2
    obtain ⟨os', ns2⟩ := p
    try dsimp only at h
    obtain ⟨e1, e2⟩ := pure_ok h
    cases e1; subst e2
    exact (pyVar_fresh h1).append (ih h2)

theorem loopParams_fresh : ∀ (vs : List Name) (L : Locals) {L' : Locals} {ps : List Name} {s s' : St},
    loopParams L vs s = .ok ((L', ps), s') → Mono s s' ∧ FreshL s s' ps := by
  intro vs
  induction vs with
  | nil =>
    intro L L' ps s s' h
    unfold loopParams at h
    obtain ⟨e1, e2⟩ := pure_ok h
    cases e1; subst e2
    exact ⟨Mono.refl _, FreshL.nil _ _⟩
  | cons pv rest ih =>
    intro L L' ps s s' h
    unfold loopParams at h
    mbind h with p s1 h1
    mbind h with q s2 h2
    obtain ⟨L'', ps'⟩ := q
    try dsimp only at h
    obtain ⟨e1, e2⟩ := pure_ok h
    cases e1; subst e2
    obtain ⟨m1, f1⟩ := genUnique_fresh h1
    obtain ⟨m2, f2⟩ := ih _ h2
    exact ⟨m1.trans m2, FreshL.append m1 f1 m2 f2⟩

theorem convParExprs_fresh (L : Locals) : ∀ (xs : List Name) (es : List Expr) {ts : List Name}
    {ns : List Node} {s s' : St}, convParExprs L xs es s = .ok ((ts, ns), s') → NodesFresh s s' ns := by
  intro xs
  induction xs with
  | nil =>
    intro es ts ns s s' h
    unfold convParExprs at h
    obtain ⟨e1, e2⟩ := pure_ok h
    cases e1; subst e2
    exact NodesFresh.nil _
  | cons x xs ih =>
    intro es ts ns s s' h
    cases es with
    | nil =>
      unfold convParExprs at h
      obtain ⟨e1, e2⟩ := pure_ok h
      cases e1; subst e2
      exact NodesFresh.nil _
    | cons e es =>
      unfold convParExprs at h
      mbind h with p s1 h1
      obtain ⟨t, ns1⟩ := p
      try dsimp only at h
      mbind h with p s2 h2
      obtain ⟨ts', ns2⟩ := p
      try dsimp only at h
      obtain ⟨e1, e2⟩ := pure_ok h
      cases e1; subst e2
      exact (convExpr_fresh _ e _ h1).append (ih _ h2)

theorem convPar_fresh (xs : List Name) (es : List Expr) (L : Locals) {L' : Locals}
    {ns : List Node} {s s' : St} (h : convPar L xs es s = .ok ((L', ns), s')) : NodesFresh s s' ns := by
  unfold convPar at h
  mbind h with p s1 h1
  obtain ⟨ts, ns1⟩ := p
  try dsimp only at h
  obtain ⟨e1, e2⟩ := pure_ok h
  cases e1; subst e2
  exact convParExprs_fresh L xs es h1

theorem loopEnter_fresh {L : Locals} {v : Name} {bindIt : Bool} {state : List Name} {L1 : Locals} {iv : Name}
    {ps : List Name} {s s' : St} (h : loopEnter L v bindIt state s = .ok ((L1, iv, ps), s')) :
    Mono s s' ∧ FreshL s s' (iv :: ps) := by
  unfold loopEnter at h
  mbind h with iv' s1 h1
  mbind h with p s2 h2
  obtain ⟨L1', ps'⟩ := p
  try dsimp only at h
  obtain ⟨e1, e2⟩ := pure_ok h
  cases e1; subst e2
  obtain ⟨m1, f1⟩ := genUnique_fresh h1
  obtain ⟨m2, f2⟩ := loopParams_fresh _ _ h2
  exact ⟨m1.trans m2, FreshL.append m1 f1 m2 f2⟩

/-- Permutations of concatenations are decided by counting. -/
theorem perm_of_count {l1 l2 : List Name} (h : ∀ a, l1.count a = l2.count a) : l1.Perm l2 :=
  List.perm_iff_count.mpr h

theorem condNodes_fresh {whileVar brkCond : Option Name} {oc co : Name} {cns : List Node} {s s' : St}
    (h : condNodes whileVar brkCond oc s = .ok ((co, cns), s')) : NodesFresh s s' cns := by
  have hone : ∀ {s s' : St} {co : Name} {cns : List Node},
      (do let co ← genUnique "cond_out"
          pure (co, [condNode brkCond oc co]) : M (Name × List Node)) s = .ok ((co, cns), s') →
      NodesFresh s s' cns := by
    intro s s' co cns h
    mbind h with c s1 h1
    obtain ⟨e1, e2⟩ := pure_ok h
    cases e1; subst e2
    obtain ⟨m1, f1⟩ := genUnique_fresh h1
    refine ⟨m1, ?_⟩
    cases brkCond <;> simpa [condNode, allDefsL, Node.allDefs] using f1
  unfold condNodes at h
  cases whileVar with
  | none => exact hone h
  | some w =>
    cases hb : brkCond with
    | none => subst hb; exact hone h
    | some b =>
      subst hb
      simp only at h
      mbind h with nb s1 h1
      mbind h with c s2 h2
      obtain ⟨e1, e2⟩ := pure_ok h
      cases e1; subst e2
      obtain ⟨m1, f1⟩ := genUnique_fresh h1
      obtain ⟨m2, f2⟩ := genUnique_fresh h2
      exact (op_single_fresh m1 f1 "" "Not" [some b] []).append (op_single_fresh m2 f2 "" "And" [some oc, some nb] [])

theorem loopFinish_fresh {L L2 : Locals} {state : List Name} {bound cond : Option Name}
    {condIn iv : Name} {ps : List Name} {whileVar : Option Name} {bn : List Node}
    {brkCond : Option Name} {L' : Locals} {nl : List Node} {s s' : St}
    (h : loopFinish L L2 state bound cond condIn iv ps whileVar bn brkCond s = .ok ((L', nl), s')) :
    Mono s s' ∧ ∃ nd, FreshL s s' nd ∧
      (allDefsL nl).Perm (nd ++ ((iv :: condIn :: ps) ++ allDefsL bn)) := by
  unfold loopFinish at h
  cases hc : loopCondName L2 whileVar condIn with
  | none => simp only [hc] at h; exact (failM_ok h).elim
  | some oc =>
    simp only [hc] at h
    mbind h with p s1 h1
    obtain ⟨condOut, cns⟩ := p
    try dsimp only at h
    mbind h with p s2 h2
    obtain ⟨os, ns3⟩ := p
    try dsimp only at h
    mbind h with p s3 h3
    obtain ⟨inits, ns4⟩ := p
    try dsimp only at h
    mbind h with outs s4 h4
    obtain ⟨e1, e2⟩ := pure_ok h
    cases e1; subst e2
    obtain ⟨m1, f1⟩ := condNodes_fresh h1
    obtain ⟨m2, f2⟩ := loopOutputs_fresh _ _ _ _ h2
    obtain ⟨m3, f3⟩ := loopInits_fresh _ _ h3
    obtain ⟨m4, f4, _⟩ := genUniques_fresh _ h4
    refine ⟨((m1.trans m2).trans m3).trans m4, allDefsL cns ++ (allDefsL ns3 ++ (allDefsL ns4 ++ outs)), ?_, ?_⟩
    · exact FreshL.append m1 f1 (m2.trans (m3.trans m4))
        (FreshL.append m2 f2 (m3.trans m4) (FreshL.append m3 f3 m4 f4))
    · apply perm_of_count
      intro a
      simp only [allDefsL_append, allDefsL, Node.allDefs, List.count_append, List.count_cons,
        List.count_nil, List.append_nil]
      omega

end OV.C01

namespace OV.C01

/-! ## Statements -/

theorem convLoopBody_cons_nonbrk (L : Locals) (s : Stmt) (ss : List Stmt) (lo : VSet)
    (hb : ∀ c, s ≠ .brk c) :
    convLoopBody L (s :: ss) lo = (do
      let (L1, ns1) ← convStmt L s (liveInBlock ss lo)
      let (L2, ns2, bc) ← convLoopBody L1 ss lo
      pure (L2, ns1 ++ ns2, bc)) := by
  cases s with
  | brk c => exact absurd rfl (hb c)
  | _ => rw [convLoopBody]; intro c hc; exact hb c hc

theorem ifN_perm (d0 dt dt2 de de2 r : List Name) (a' : Name) :
    (d0 ++ (r ++ ((dt ++ dt2) ++ (de ++ de2)))).count a'
      = (d0 ++ (dt ++ (dt2 ++ (de ++ (de2 ++ r))))).count a' := by
  simp only [List.count_append]; omega

mutual
theorem convStmt_fresh (L : Locals) : ∀ (st : Stmt) (lo : VSet) {L' : Locals} {ns : List Node} {s s' : St},
    convStmt L st lo s = .ok ((L', ns), s') → NodesFresh s s' ns
  | .assign x e, lo, L', ns, s, s', h => by
    unfold convStmt at h
    mbind h with p s1 h1
    obtain ⟨t, ns1⟩ := p
    try dsimp only at h
    obtain ⟨e1, e2⟩ := pure_ok h
    cases e1; subst e2
    exact convExpr_fresh L e _ h1
  | .par xs es, lo, L', ns, s, s', h => by
    unfold convStmt at h
    by_cases hl : xs.length ≠ es.length
    · rw [if_pos hl] at h; exact (failM_ok h).elim
    · rw [if_neg hl] at h; exact convPar_fresh _ _ _ h
  | .tuple xs e, lo, L', ns, s, s', h => by
    cases e with
    | call dom op sig args attrs =>
      unfold convStmt at h
      simp only at h
      mbind h with p s1 h1
      obtain ⟨as, ns1⟩ := p
      try dsimp only at h
      mbind h with attrs' s2 h2
      have := liftE_state h2
      subst this
      mbind h with p s3 h3
      obtain ⟨as', ns2⟩ := p
      try dsimp only at h
      mbind h with outs s4 h4
      obtain ⟨e1, e2⟩ := pure_ok h
      cases e1; subst e2
      obtain ⟨m4, f4, _⟩ := genUniques_fresh _ h4
      have hn : NodesFresh s3 s4 [Node.op dom op (as'.map some) outs attrs'] :=
        ⟨m4, by simpa [allDefsL, Node.allDefs] using f4⟩
      exact (convArgs_fresh L args h1).append ((castInputs_fresh h3).append hn)
    | _ => unfold convStmt at h; exact (failM_ok h).elim
  | .badAssign xs e, lo, L', ns, s, s', h => by
    unfold convStmt at h; exact (failM_ok h).elim
  | .ite c t e, lo, L', ns, s, s', h => by
    unfold convStmt at h
    cases ha : assignedStmt (.ite c t e) with
    | none => simp only [ha] at h; exact (failM_ok h).elim
    | some defs =>
      simp only [ha] at h
      mbind h with p s1 h1
      obtain ⟨test, ns0⟩ := p
      try dsimp only at h
      mbind h with p s2 h2
      obtain ⟨Lt, tn⟩ := p
      try dsimp only at h
      mbind h with p s3 h3
      obtain ⟨to, tn2⟩ := p
      try dsimp only at h
      mbind h with p s4 h4
      obtain ⟨Le, en⟩ := p
      try dsimp only at h
      mbind h with p s5 h5
      obtain ⟨eo, en2⟩ := p
      try dsimp only at h
      mbind h with renamed s6 h6
      by_cases hre : renamed.isEmpty = true
      · rw [if_pos hre] at h; exact (failM_ok h).elim
      · rw [if_neg hre] at h
        by_cases hrt : (renamed == [test]) = true
        · rw [if_pos hrt] at h; exact (failM_ok h).elim
        · rw [if_neg hrt] at h
          obtain ⟨e1, e2⟩ := pure_ok h
          cases e1; subst e2
          obtain ⟨m1, f1⟩ := convExpr_fresh L c _ h1
          obtain ⟨m2, f2⟩ := convStmts_fresh _ t lo h2
          obtain ⟨m3, f3⟩ := blockOutputs_fresh _ _ _ _ h3
          obtain ⟨m4, f4⟩ := convStmts_fresh _ e lo h4
          obtain ⟨m5, f5⟩ := blockOutputs_fresh _ _ _ _ h5
          obtain ⟨m6, f6, _⟩ := genUniques_fresh _ h6
          refine ⟨m1.trans (m2.trans (m3.trans (m4.trans (m5.trans m6)))), ?_⟩
          have hall := FreshL.append m1 f1 (m2.trans (m3.trans (m4.trans (m5.trans m6))))
            (FreshL.append m2 f2 (m3.trans (m4.trans (m5.trans m6)))
              (FreshL.append m3 f3 (m4.trans (m5.trans m6))
                (FreshL.append m4 f4 (m5.trans m6) (FreshL.append m5 f5 m6 f6))))
          refine hall.perm (perm_of_count ?_)
          intro a
          simp only [allDefsL_append, allDefsL, Node.allDefs, List.count_append, List.count_nil,
            List.append_nil]
          omega
  | .for_ i okIter bound body, lo, L', ns, s, s', h => by
    unfold convStmt at h
    by_cases hok : okIter = true
    · simp only [hok, Bool.not_true, Bool.false_eq_true, if_false] at h
      cases hs : loopState body lo with
      | none => simp only [hs] at h; exact (failM_ok h).elim
      | some state =>
        simp only [hs] at h
        mbind h with p s1 h1
        obtain ⟨ob, ns0⟩ := p
        try dsimp only at h
        mbind h with condIn s2 h2
        have h2 := (forCondIn_ok h2).2
        mbind h with p s3 h3
        obtain ⟨L1, iv, ps⟩ := p
        try dsimp only at h
        mbind h with p s4 h4
        obtain ⟨L2, bn, bc⟩ := p
        try dsimp only at h
        mbind h with p s5 h5
        obtain ⟨L'', nl⟩ := p
        try dsimp only at h
        obtain ⟨e1, e2⟩ := pure_ok h
        cases e1; subst e2
        obtain ⟨m1, f1⟩ := convExpr_fresh L bound _ h1
        obtain ⟨m2, f2⟩ := genUnique_fresh h2
        obtain ⟨m3, f3⟩ := loopEnter_fresh h3
        obtain ⟨m4, f4⟩ := convLoopBody_fresh _ body _ h4
        obtain ⟨m5, nd, f5, hp⟩ := loopFinish_fresh h5
        refine ⟨m1.trans (m2.trans (m3.trans (m4.trans m5))), ?_⟩
        have hall := FreshL.append m1 f1 (m2.trans (m3.trans (m4.trans m5)))
          (FreshL.append m2 f2 (m3.trans (m4.trans m5))
            (FreshL.append m3 f3 (m4.trans m5) (FreshL.append m4 f4 m5 f5)))
        refine hall.perm (perm_of_count ?_)
        intro a
        have hc := List.perm_iff_count.mp hp a
        simp only [allDefsL_append, List.count_append, List.count_cons, List.count_nil] at hc ⊢
        omega
    · simp only [hok, Bool.not_false, if_true] at h; exact (failM_ok h).elim
  | .while_ c body, lo, L', ns, s, s', h => by
    cases c with
    | var t =>
      unfold convStmt at h
      simp only at h
      cases hs : loopState body lo with
      | none => simp only [hs] at h; exact (failM_ok h).elim
      | some state =>
        simp only [hs] at h
        mbind h with condIn s2 h2
        mbind h with p s1 h1
        have h1 := whileCond_ok h1
        obtain ⟨oc, ns0⟩ := p
        try dsimp only at h
        mbind h with p s3 h3
        obtain ⟨L1, iv, ps⟩ := p
        try dsimp only at h
        mbind h with p s4 h4
        obtain ⟨L2, bn, bc⟩ := p
        try dsimp only at h
        mbind h with p s5 h5
        obtain ⟨L'', nl⟩ := p
        try dsimp only at h
        obtain ⟨e1, e2⟩ := pure_ok h
        cases e1; subst e2
        obtain ⟨m2, f2⟩ := genUnique_fresh h2
        obtain ⟨m1, f1⟩ := pyVar_fresh h1
        obtain ⟨m3, f3⟩ := loopEnter_fresh h3
        obtain ⟨m4, f4⟩ := convLoopBody_fresh _ body _ h4
        obtain ⟨m5, nd, f5, hp⟩ := loopFinish_fresh h5
        refine ⟨m2.trans (m1.trans (m3.trans (m4.trans m5))), ?_⟩
        have hall := FreshL.append m2 f2 (m1.trans (m3.trans (m4.trans m5)))
          (FreshL.append m1 f1 (m3.trans (m4.trans m5))
            (FreshL.append m3 f3 (m4.trans m5) (FreshL.append m4 f4 m5 f5)))
        refine hall.perm (perm_of_count ?_)
        intro a
        have hc := List.perm_iff_count.mp hp a
        simp only [allDefsL_append, List.count_append, List.count_cons, List.count_nil] at hc ⊢
        omega
    | _ => unfold convStmt at h; exact (failM_ok h).elim
  | .brk c, lo, L', ns, s, s', h => by
    unfold convStmt at h; exact (failM_ok h).elim
  | .ret es b, lo, L', ns, s, s', h => by
    unfold convStmt at h; exact (failM_ok h).elim
  | .skip, lo, L', ns, s, s', h => by
    unfold convStmt at h
    obtain ⟨e1, e2⟩ := pure_ok h
    cases e1; subst e2
    exact NodesFresh.nil _
  | .unsupported, lo, L', ns, s, s', h => by
    unfold convStmt at h; exact (failM_ok h).elim
theorem convStmts_fresh (L : Locals) : ∀ (ss : List Stmt) (lo : VSet) {L' : Locals} {ns : List Node} {s s' : St},
    convStmts L ss lo s = .ok ((L', ns), s') → NodesFresh s s' ns
  | [], lo, L', ns, s, s', h => by
    unfold convStmts at h
    obtain ⟨e1, e2⟩ := pure_ok h
    cases e1; subst e2
    exact NodesFresh.nil _
  | st :: ss, lo, L', ns, s, s', h => by
    unfold convStmts at h
    mbind h with p s1 h1
    obtain ⟨L1, ns1⟩ := p
    try dsimp only at h
    mbind h with p s2 h2
    obtain ⟨L2, ns2⟩ := p
    try dsimp only at h
    obtain ⟨e1, e2⟩ := pure_ok h
    cases e1; subst e2
    exact (convStmt_fresh L st _ h1).append (convStmts_fresh L1 ss lo h2)
theorem convLoopBody_fresh (L : Locals) : ∀ (ss : List Stmt) (lo : VSet) {L' : Locals} {ns : List Node}
    {bc : Option Name} {s s' : St},
    convLoopBody L ss lo s = .ok ((L', ns, bc), s') → NodesFresh s s' ns
  | [], lo, L', ns, bc, s, s', h => by
    unfold convLoopBody at h
    obtain ⟨e1, e2⟩ := pure_ok h
    cases e1; subst e2
    exact NodesFresh.nil _
  | st :: ss, lo, L', ns, bc, s, s', h => by
    by_cases hb : ∃ c, st = .brk c
    · obtain ⟨c, rfl⟩ := hb
      unfold convLoopBody at h
      cases c with
      | var t =>
        simp only at h
        by_cases he : (!ss.isEmpty) = true
        · rw [if_pos he] at h; exact (failM_ok h).elim
        · rw [if_neg he] at h
          cases hf : currentScopeFind L t with
          | none => rw [hf] at h; exact (failM_ok h).elim
          | some b =>
            cases b with
            | val n =>
              rw [hf] at h
              obtain ⟨e1, e2⟩ := pure_ok h
              cases e1; subst e2
              exact NodesFresh.nil _
            | attr p ty => rw [hf] at h; exact (failM_ok h).elim
      | _ => exact (failM_ok h).elim
    · rw [convLoopBody_cons_nonbrk L st ss lo (fun c hc => hb ⟨c, hc⟩)] at h
      mbind h with p s1 h1
      obtain ⟨L1, ns1⟩ := p
      try dsimp only at h
      mbind h with p s2 h2
      obtain ⟨L2, ns2, bc'⟩ := p
      try dsimp only at h
      obtain ⟨e1, e2⟩ := pure_ok h
      cases e1; subst e2
      exact (convStmt_fresh L st _ h1).append (convLoopBody_fresh L1 ss lo h2)
end

end OV.C01

namespace OV.C01

/-! ## Function level -/

theorem convRetOne_fresh {L : Locals} {inputs : List Name} {e : Expr} {pref : Name} {outs : List Name}
    {o : Name} {ns : List Node} {s s' : St}
    (h : convRetOne L inputs e pref outs s = .ok ((o, ns), s')) : NodesFresh s s' ns := by
  unfold convRetOne at h
  mbind h with p s1 h1
  obtain ⟨rv, ns1⟩ := p
  try dsimp only at h
  mbind h with p s2 h2
  obtain ⟨rv2, ns2⟩ := p
  try dsimp only at h
  have hf2 : NodesFresh s1 s2 ns2 := by
    by_cases hi : returnsInput inputs rv = true
    · rw [if_pos hi] at h2; exact emitCopy_fresh h2
    · rw [if_neg hi] at h2
      obtain ⟨e1, e2⟩ := pure_ok h2
      cases e1; subst e2
      exact NodesFresh.nil _
  by_cases hc : outs.contains rv2 = true
  · rw [if_pos hc] at h
    mbind h with p s3 h3
    obtain ⟨rv3, ns3⟩ := p
    try dsimp only at h
    obtain ⟨e1, e2⟩ := pure_ok h
    cases e1; subst e2
    exact (convExpr_fresh L e _ h1).append (hf2.append (emitCopy_fresh h3))
  · rw [if_neg hc] at h
    obtain ⟨e1, e2⟩ := pure_ok h
    cases e1; subst e2
    exact (convExpr_fresh L e _ h1).append hf2

theorem convRetAll_fresh {L : Locals} {inputs : List Name} {single : Bool} :
    ∀ (es : List Expr) (i : Nat) (outs : List Name) {outs' : List Name} {ns : List Node} {s s' : St},
      convRetAll L inputs single es i outs s = .ok ((outs', ns), s') → NodesFresh s s' ns := by
  intro es
  induction es with
  | nil =>
    intro i outs outs' ns s s' h
    unfold convRetAll at h
    obtain ⟨e1, e2⟩ := pure_ok h
    cases e1; subst e2
    exact NodesFresh.nil _
  | cons e es ih =>
    intro i outs outs' ns s s' h
    unfold convRetAll at h
    simp only at h
    mbind h with p s1 h1
    obtain ⟨o, ns1⟩ := p
    try dsimp only at h
    mbind h with p s2 h2
    obtain ⟨outs2, ns2⟩ := p
    try dsimp only at h
    obtain ⟨e1, e2⟩ := pure_ok h
    cases e1; subst e2
    exact (convRetOne_fresh h1).append (ih _ _ h2)

theorem convRetStmt_fresh {L : Locals} {inputs : List Name} {rc : Option Nat} {es : List Expr} {bare : Bool}
    {outs outs' : List Name} {ns : List Node} {s s' : St}
    (h : convRetStmt L inputs rc es bare outs s = .ok ((outs', ns), s')) : NodesFresh s s' ns := by
  unfold convRetStmt at h
  by_cases hb : bare = true
  · rw [if_pos hb] at h; exact (failM_ok h).elim
  · rw [if_neg hb] at h
    cases rc with
    | none => exact convRetAll_fresh _ _ _ h
    | some k =>
      simp only at h
      by_cases hk : k ≠ es.length
      · rw [if_pos hk] at h; exact (failM_ok h).elim
      · rw [if_neg hk] at h; exact convRetAll_fresh _ _ _ h

theorem convTop_cons_nonret (inputs : List Name) (rc : Option Nat) (L : Locals) (st : Stmt)
    (ss : List Stmt) (outs : List Name) (hb : ∀ es b, st ≠ .ret es b) :
    convTop inputs rc L (st :: ss) outs = (do
      let (L1, ns1) ← convStmt L st (liveInBlock ss [])
      let (ns2, outs') ← convTop inputs rc L1 ss outs
      pure (ns1 ++ ns2, outs')) := by
  cases st with
  | ret es b => exact absurd rfl (hb es b)
  | _ => rw [convTop]; intro es b hc; exact hb es b hc

theorem convTop_fresh {inputs : List Name} {rc : Option Nat} :
    ∀ (ss : List Stmt) (L : Locals) (outs : List Name) {ns : List Node} {outs' : List Name} {s s' : St},
      convTop inputs rc L ss outs s = .ok ((ns, outs'), s') → NodesFresh s s' ns := by
  intro ss
  induction ss with
  | nil =>
    intro L outs ns outs' s s' h
    unfold convTop at h
    obtain ⟨e1, e2⟩ := pure_ok h
    cases e1; subst e2
    exact NodesFresh.nil _
  | cons st ss ih =>
    intro L outs ns outs' s s' h
    by_cases hb : ∃ es b, st = .ret es b
    · obtain ⟨es, b, rfl⟩ := hb
      unfold convTop at h
      mbind h with p s1 h1
      have h1 := (onlyLast_ok h1).2
      obtain ⟨outs1, ns1⟩ := p
      try dsimp only at h
      mbind h with p s2 h2
      obtain ⟨ns2, outs2⟩ := p
      try dsimp only at h
      obtain ⟨e1, e2⟩ := pure_ok h
      cases e1; subst e2
      exact (convRetStmt_fresh h1).append (ih _ _ h2)
    · rw [convTop_cons_nonret inputs rc L st ss outs (fun es b hc => hb ⟨es, b, hc⟩)] at h
      mbind h with p s1 h1
      obtain ⟨L1, ns1⟩ := p
      try dsimp only at h
      mbind h with p s2 h2
      obtain ⟨ns2, outs2⟩ := p
      try dsimp only at h
      obtain ⟨e1, e2⟩ := pure_ok h
      cases e1; subst e2
      exact (convStmt_fresh L st _ h1).append (ih _ _ h2)

/-- **Single assignment across all scopes.**  Every name defined anywhere in the emitted function body —
function inputs, node outputs and subgraph inputs at every nesting depth — is defined exactly once. -/
theorem convert_allDefs_nodup {f : Func} {g : Graph} (h : convert f = .ok g)
    (hp : (tensorParams f.params).Nodup) : g.allDefs.Nodup := by
  obtain ⟨h, _, d0, ha0⟩ := convert_core h
  unfold convertCore at h
  cases ha : assignedBlock f.body with
  | none => rw [ha] at ha0; cases ha0
  | some d =>
    simp only at h
    cases hc : convTop (tensorParams f.params) f.retCount [paramFrame f.params] f.body []
        { used := (tensorParams f.params).reverse, next := 0, castable := [] } with
    | error e => rw [hc] at h; cases h
    | ok r =>
      obtain ⟨⟨ns, outs⟩, s'⟩ := r
      rw [hc] at h
      cases h
      obtain ⟨_, f1⟩ := convTop_fresh _ _ _ hc
      unfold Graph.allDefs
      simp only
      rw [List.nodup_append]
      refine ⟨hp, f1.1, ?_⟩
      intro a ha b hb hab
      subst hab
      exact (f1.2 a hb).1 (by simpa using ha)

end OV.C01
