import OV.Model.C05Linalg
import Mathlib.Algebra.BigOperators.Ring.Finset
import Mathlib.Algebra.Order.Field.Rat
import Mathlib.Tactic.Ring
import Mathlib.Tactic.NormNum
/-! Semantic carriers for the linear-algebra / padding rules of C05 (matrices and signals as functions;
Mathlib algebra), and arithmetic lemmas used by `OV/Props/C05.lean`. -/
namespace OV.Lemmas.C05Algebra
open OV.C05.Linalg
open Finset

/-- `MatMul` of 2-D operands, inner dimension `K`. -/
def mm {α : Type} [CommRing α] (K : Nat) (A B : Nat → Nat → α) : Nat → Nat → α :=
  fun i j => ∑ k ∈ range K, A i k * B k j

/-- `Transpose(perm=[1,0])`. -/
def tr {α : Type} (A : Nat → Nat → α) : Nat → Nat → α := fun i j => A j i

/-- ONNX `Gemm`: `alpha * A' * B' + beta * C` (C already broadcast to `(M,N)`). -/
def gemm {α : Type} [CommRing α] (K : Nat) (ta tb : Bool) (alpha beta : α) (A B C : Nat → Nat → α) :
    Nat → Nat → α :=
  fun i j => alpha * (∑ k ∈ range K, (if ta then A k i else A i k) * (if tb then B j k else B k j)) + beta * C i j

/-- A signal of length `m` read at any integer position: `fill` outside `[0, m)` — how Conv sees its (implicitly
padded) input; `fill = 0` for `Conv`, `fill = x_zero_point` for `ConvInteger`. -/
def ext {α : Type} (fill : α) (m : Nat) (y : Int → α) (i : Int) : α := if 0 ≤ i ∧ i < m then y i else fill

/-- `Pad(x, pads=[pb, pe], mode=constant, value=0)` of a length-`n` signal, as a function of its own index. -/
def padded {α : Type} [Zero α] (pb n : Nat) (x : Int → α) : Int → α := fun i => ext 0 n x (i - pb)

theorem pad_taps {α : Type} [Zero α] (x : Int → α) (n pb pe : Nat) (i : Int) :
    ext 0 (n + pb + pe) (padded pb n x) i = ext 0 n x (i - pb) := by
  unfold ext padded ext
  by_cases h : 0 ≤ i ∧ i < ((n + pb + pe : Nat) : Int)
  · simp only [h, and_self, if_true]
  · simp only [h, if_false]
    have : ¬ (0 ≤ i - (pb : Int) ∧ i - (pb : Int) < (n : Int)) := by
      intro hh; apply h; constructor <;> push_cast <;> omega
    simp only [this, if_false]

/-- SAME padding arithmetic on one axis, dilation 1: with `pb + pe = max(0, (y-1)*s + k - x)` and
`y = ceil(x/s)` the convolution output length is `y`. -/
theorem same_len (x k s : Nat) (hx : 0 < x) (hk : 0 < k) (hs : 0 < s) (pb pe : Nat)
    (hp : pb + pe = (((x + s - 1) / s - 1) * s + k) - x) :
    convOutLen x k s 1 pb pe = (x + s - 1) / s := by
  unfold convOutLen
  generalize hq : (x + s - 1) / s = q at *
  have h1 : q * s ≤ x + s - 1 := by rw [← hq]; exact Nat.div_mul_le_self _ _
  have h2 : x + s - 1 < s * (q + 1) := by rw [← hq]; exact Nat.lt_mul_div_succ _ hs
  have hq1 : 1 ≤ q := by rw [← hq]; exact Nat.div_pos (by omega) hs
  have hA : (q - 1) * s = q * s - s := by rw [Nat.sub_mul, Nat.one_mul]
  have hB : s * (q + 1) = q * s + s := by rw [Nat.mul_add, Nat.mul_one, Nat.mul_comm]
  have hC : (q - 1 + 1) * s = q * s := by rw [Nat.sub_add_cancel hq1]
  have hsA : s ≤ q * s := Nat.le_mul_of_pos_left s (by omega)
  have hk1 : (k - 1) * 1 + 1 = k := by omega
  rw [hk1]
  have hdiv : (x + pb + pe - k) / s = q - 1 := by
    apply Nat.div_eq_of_lt_le
    · rw [hA]; rw [hA] at hp; rw [hB] at h2; generalize q * s = A at *; omega
    · rw [hC]; rw [hA] at hp; rw [hB] at h2; generalize q * s = A at *; omega
  have hge : ¬ (x + pb + pe < k) := by
    rw [hA] at hp; rw [hB] at h2; generalize q * s = A at *; omega
  simp only [hge, if_false, hdiv]
  omega

/-! ## Layer-norm / RMS-norm over a field with an abstract square-root function (one normalised row of length `n`) -/

/-- `ReduceMean(·, axes=[-1], keepdims=1)` on one row. -/
def meanF {α : Type} [Field α] (n : Nat) (x : Nat → α) : α := (∑ k ∈ Finset.range n, x k) / n

/-- ONNX `LayerNormalization(X, Scale, axis=-1, epsilon)` on one row: `(x - mean) / sqrt(var + eps) * scale`. -/
def layerNormSpec {α : Type} [Field α] (sqrtf : α → α) (n : Nat) (eps : α) (scale x : Nat → α) (i : Nat) : α :=
  (x i - meanF n x) / sqrtf (meanF n (fun k => (x k - meanF n x) ^ 2) + eps) * scale i

/-- The matched sub-graph of `LayerNormFusion`: `usePow` = `Pow(d, 2)` instead of `Mul(d, d)`; `useDiv` = `Div(d, std)` instead
of `Mul(d, Reciprocal(std))`. -/
def layerNormPattern {α : Type} [Field α] (sqrtf : α → α) (usePow useDiv : Bool) (n : Nat) (eps : α) (scale x : Nat → α) (i : Nat) : α :=
  let mean := meanF n x
  let d := fun k => x k - mean
  let dd := fun k => if usePow then d k ^ 2 else d k * d k
  let sd := sqrtf (meanF n dd + eps)
  (if useDiv then d i / sd else d i * sd⁻¹) * scale i

/-- ONNX `RMSNormalization(X, Scale, axis=-1, epsilon)` on one row: `x / sqrt(mean(x²) + eps) * scale`. -/
def rmsNormSpec {α : Type} [Field α] (sqrtf : α → α) (n : Nat) (eps : α) (scale x : Nat → α) (i : Nat) : α :=
  x i / sqrtf (meanF n (fun k => x k ^ 2) + eps) * scale i

/-- The matched sub-graph of `RmsNormFusion` (`scaleFirst` = `Mul(scale, normalized)`). -/
def rmsNormPattern {α : Type} [Field α] (sqrtf : α → α) (scaleFirst : Bool) (n : Nat) (eps : α) (scale x : Nat → α) (i : Nat) : α :=
  let r := sqrtf (meanF n (fun k => x k ^ (2 : Nat)) + eps)
  let nrm := x i * r⁻¹
  if scaleFirst then scale i * nrm else nrm * scale i

end OV.Lemmas.C05Algebra
