import OV.Model.C10Names
/-! Helper lemmas for name freshness (core Lean only). -/
namespace OV.C10.Names

/-- number of used names `val j` with `c ≤ j` -/
def cnt (used : List VName) (c : Nat) : Nat :=
  (used.filter (fun x => match x with | .val j => decide (c ≤ j) | .other _ => false)).length

theorem cnt_le (used : List VName) (c : Nat) : cnt used c ≤ used.length := List.length_filter_le _ _

theorem cnt_succ_le (used : List VName) (c : Nat) : cnt used (c + 1) ≤ cnt used c := by
  induction used with
  | nil => simp [cnt]
  | cons x xs ih =>
    unfold cnt at *
    cases x with
    | other s => simpa [List.filter_cons] using ih
    | val j =>
      simp only [List.filter_cons]
      by_cases h1 : c + 1 ≤ j
      · have h2 : c ≤ j := by omega
        simp only [h1, h2, decide_true, if_true, List.length_cons]; omega
      · by_cases h2 : c ≤ j
        · simp only [h1, h2, decide_true, decide_false, if_true, List.length_cons]
          simp only [Bool.false_eq_true, if_false]; omega
        · simp only [h1, h2, decide_false, Bool.false_eq_true, if_false]; exact ih

theorem cnt_succ_lt {used : List VName} {c : Nat} (h : VName.val c ∈ used) : cnt used (c + 1) < cnt used c := by
  induction used with
  | nil => simp at h
  | cons x xs ih =>
    rcases List.mem_cons.mp h with h' | h'
    · subst h'
      have := cnt_succ_le xs c
      unfold cnt at *
      simp only [List.filter_cons, Nat.le_refl, decide_true, if_true, List.length_cons]
      have hn : ¬ c + 1 ≤ c := by omega
      simp only [hn, decide_false, Bool.false_eq_true, if_false]; omega
    · have ih' := ih h'
      unfold cnt at *
      cases x with
      | other s => simpa [List.filter_cons] using ih'
      | val j =>
        simp only [List.filter_cons]
        by_cases h1 : c + 1 ≤ j
        · have h2 : c ≤ j := by omega
          simp only [h1, h2, decide_true, if_true, List.length_cons]; omega
        · by_cases h2 : c ≤ j
          · simp only [h1, h2, decide_true, decide_false, if_true, List.length_cons]
            simp only [Bool.false_eq_true, if_false]; omega
          · simp only [h1, h2, decide_false, Bool.false_eq_true, if_false]; exact ih'

theorem firstFresh_total_aux (used : List VName) : ∀ (fuel c : Nat), cnt used c < fuel → ∃ k, firstFresh used fuel c = some k := by
  intro fuel
  induction fuel with
  | zero => intro c h; omega
  | succ fuel ih =>
    intro c h
    unfold firstFresh
    by_cases hc : used.contains (.val c) = true
    · simp only [hc, if_true]
      have hm : VName.val c ∈ used := by simpa using hc
      exact ih (c + 1) (by have := cnt_succ_lt hm; omega)
    · simp only [hc]; exact ⟨c, rfl⟩

theorem firstFresh_spec (used : List VName) : ∀ (fuel c k : Nat), firstFresh used fuel c = some k →
    c ≤ k ∧ VName.val k ∉ used ∧ ∀ j, c ≤ j → j < k → VName.val j ∈ used := by
  intro fuel
  induction fuel with
  | zero => intro c k h; simp [firstFresh] at h
  | succ fuel ih =>
    intro c k h
    unfold firstFresh at h
    by_cases hc : used.contains (.val c) = true
    · simp only [hc, if_true] at h
      obtain ⟨a, b, d⟩ := ih (c + 1) k h
      refine ⟨by omega, b, fun j h1 h2 => ?_⟩
      by_cases hj : j = c
      · subst hj; simpa using hc
      · exact d j (by omega) h2
    · simp only [hc] at h
      injection h with h; subst h
      exact ⟨Nat.le_refl _, by simpa using hc, fun j h1 h2 => by omega⟩

end OV.C10.Names

namespace OV.C10.Names

theorem firstFresh_total (used : List VName) (c : Nat) : ∃ k, firstFresh used (used.length + 1) c = some k :=
  firstFresh_total_aux used (used.length + 1) c (by have := cnt_le used c; omega)

theorem nameMany_spec : ∀ (n : Nat) (st : St), ∃ ks st', nameMany n st = some (ks, st') ∧ ks.length = n ∧
    List.Pairwise (· < ·) ks ∧ (∀ k ∈ ks, st.ctr ≤ k ∧ k < st'.ctr ∧ VName.val k ∉ st.used) ∧
    st.ctr ≤ st'.ctr ∧ (∀ x, x ∈ st.used → x ∈ st'.used) := by
  intro n
  induction n with
  | zero => intro st; exact ⟨[], st, rfl, rfl, List.Pairwise.nil, fun k h => by simp at h, Nat.le_refl _, fun x h => h⟩
  | succ n ih =>
    intro st
    obtain ⟨k, hk⟩ := firstFresh_total st.used st.ctr
    obtain ⟨h1, h2, _⟩ := firstFresh_spec st.used _ st.ctr k hk
    obtain ⟨ks, st', e, hl, hp, hall, hc, hu⟩ := ih { used := .val k :: st.used, ctr := k + 1 }
    refine ⟨k :: ks, st', ?_, by simp [hl], ?_, ?_, ?_, ?_⟩
    · simp only [nameMany, nameOne, hk, Option.map_some, e]
    · refine List.Pairwise.cons (fun j hj => ?_) hp
      have := (hall j hj).1; simp only at this; omega
    · intro j hj
      rcases List.mem_cons.mp hj with h | h
      · subst h; simp only at hc; exact ⟨h1, by omega, h2⟩
      · obtain ⟨a, b, c⟩ := hall j h
        simp only at a
        exact ⟨by omega, b, fun hm => c (List.mem_cons_of_mem _ hm)⟩
    · simp only at hc; omega
    · intro x hx; exact hu x (List.mem_cons_of_mem _ hx)

theorem pairwise_dropLast {l : List Nat} (h : List.Pairwise (· < ·) l) : List.Pairwise (· < ·) l.dropLast :=
  h.sublist (List.dropLast_sublist l)

theorem nameAll_spec : ∀ (sizes : List Nat) (st : St), ∃ vis, nameAll sizes st = some vis ∧
    vis.length = sizes.length ∧
    List.Pairwise (· < ·) vis.flatten ∧ (∀ k ∈ vis.flatten, st.ctr ≤ k ∧ VName.val k ∉ st.used) := by
  intro sizes
  induction sizes with
  | nil => intro st; exact ⟨[], rfl, rfl, List.Pairwise.nil, fun k h => by simp at h⟩
  | cons n ns ih =>
    intro st
    obtain ⟨ks, st1, e, _, hp, hall, hc, hu⟩ := nameMany_spec n st
    obtain ⟨vis, e2, hl2, hp2, hall2⟩ := ih st1
    refine ⟨ks.dropLast :: vis, ?_, by simp [hl2], ?_, ?_⟩
    · simp only [nameAll, nameReplacement, e, Option.map_some, e2]
    · rw [List.flatten_cons, List.pairwise_append]
      refine ⟨pairwise_dropLast hp, hp2, fun a ha b hb => ?_⟩
      have ha' := hall a (List.dropLast_subset ks ha)
      have hb' := (hall2 b hb).1
      omega
    · intro k hk
      rw [List.flatten_cons] at hk
      rcases List.mem_append.mp hk with h | h
      · have := hall k (List.dropLast_subset ks h); exact ⟨this.1, this.2.2⟩
      · obtain ⟨a, b⟩ := hall2 k h
        exact ⟨by omega, fun hm => b (hu _ hm)⟩

end OV.C10.Names
