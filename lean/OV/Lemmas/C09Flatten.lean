import OV.Lemmas.C09Reshape
/-! `Flatten2Reshape`: the emitted 2-element Reshape target (core Lean only). -/
set_option linter.unusedSimpArgs false
namespace OV.C09

theorem prodInt_two (a b : Int) : prodInt [a, b] = a * b := by simp [prodInt]
theorem prodInt_one (a : Int) : prodInt [a] = a := by simp [prodInt]
theorem prodInt_nil : prodInt [] = 1 := rfl

/-- Reshape (allowzero=0) of a tensor with `prodInt l = a*b`, `a,b > 0`, by the five target forms the
rule can emit. -/
theorem reshape2_lit (l : List Int) (a b : Int) (ha : 0 < a) (hb : 0 < b) (hp : prodInt l = a * b) :
    reshapeTarget l [a, b] false = some [a, b] := by
  have h1 : a ≠ -1 := by omega
  have h2 : b ≠ -1 := by omega
  have h3 : ¬ a < -1 := by omega
  have h4 : ¬ b < -1 := by omega
  have h5 : a ≠ 0 := by omega
  have h6 : b ≠ 0 := by omega
  simp [reshapeTarget, resolveZeros, prodInt_two, prodInt_one, prodInt_nil, h1, h2, h3, h4, h5, h6, hp, Ne.symm h1, Ne.symm h2]

theorem reshape2_zero_lit (l : List Int) (a b : Int) (ha : 0 < a) (hb : 0 < b) (hp : prodInt l = a * b)
    (h0 : l[0]? = some a) : reshapeTarget l [0, b] false = some [a, b] := by
  have h1 : a ≠ -1 := by omega
  have h2 : b ≠ -1 := by omega
  have h3 : ¬ a < -1 := by omega
  have h4 : ¬ b < -1 := by omega
  have h5 : a ≠ 0 := by omega
  have h6 : b ≠ 0 := by omega
  simp [reshapeTarget, resolveZeros, prodInt_two, prodInt_one, prodInt_nil, h0, h1, h2, h3, h4, h5, h6, hp, Ne.symm h1, Ne.symm h2]

theorem reshape2_neg_right (l : List Int) (a b : Int) (ha : 0 < a) (hb : 0 < b) (hp : prodInt l = a * b) :
    reshapeTarget l [a, -1] false = some [a, b] := by
  have h1 : a ≠ -1 := by omega
  have h3 : ¬ a < -1 := by omega
  have h5 : a ≠ 0 := by omega
  have hd : a * b / a = b := Int.mul_ediv_cancel_left b h5
  have hm : a * b % a = 0 := Int.mul_emod_right a b
  simp [reshapeTarget, resolveZeros, prodInt_two, prodInt_one, prodInt_nil, h1, h3, h5, hp, hd, hm, Ne.symm h1]

theorem reshape2_neg_left (l : List Int) (a b : Int) (ha : 0 < a) (hb : 0 < b) (hp : prodInt l = a * b) :
    reshapeTarget l [-1, b] false = some [a, b] := by
  have h2 : b ≠ -1 := by omega
  have h4 : ¬ b < -1 := by omega
  have h6 : b ≠ 0 := by omega
  have hd : a * b / b = a := Int.mul_ediv_cancel a h6
  have hm : a * b % b = 0 := Int.mul_emod_left a b
  simp [reshapeTarget, resolveZeros, prodInt_two, prodInt_one, prodInt_nil, h2, h4, h6, hp, hd, hm, Ne.symm h2]

theorem reshape2_zero_neg (l : List Int) (a b : Int) (ha : 0 < a) (hb : 0 < b) (hp : prodInt l = a * b)
    (h0 : l[0]? = some a) : reshapeTarget l [0, -1] false = some [a, b] := by
  have h1 : a ≠ -1 := by omega
  have h3 : ¬ a < -1 := by omega
  have h5 : a ≠ 0 := by omega
  have hd : a * b / a = b := Int.mul_ediv_cancel_left b h5
  have hm : a * b % a = 0 := Int.mul_emod_right a b
  simp [reshapeTarget, resolveZeros, prodInt_two, prodInt_one, prodInt_nil, h0, h1, h3, h5, hp, hd, hm, Ne.symm h1]

end OV.C09

namespace OV.C09

/-- invariant of the three update steps: each entry is still `-1`, or the right product, or (first
entry, `axis = 1` only) the copy marker `0`. -/
def FGood (axis : Nat) (P0 P1 : Int) (ns : List Int) : Prop :=
  ∃ a b, ns = [a, b] ∧ (a = -1 ∨ a = P0 ∨ (a = 0 ∧ axis = 1)) ∧ (b = -1 ∨ b = P1)

theorem FGood.set0 {axis : Nat} {P0 P1 : Int} {ns : List Int} (h : FGood axis P0 P1 ns) :
    FGood axis P0 P1 (setAt ns 0 P0) := by
  obtain ⟨a, b, rfl, _, hb⟩ := h
  exact ⟨P0, b, by simp [setAt], Or.inr (Or.inl rfl), hb⟩

theorem FGood.set1 {axis : Nat} {P0 P1 : Int} {ns : List Int} (h : FGood axis P0 P1 ns) :
    FGood axis P0 P1 (setAt ns 1 P1) := by
  obtain ⟨a, b, rfl, ha, _⟩ := h
  exact ⟨a, P1, by simp [setAt], ha, Or.inr rfl⟩

theorem pySlice_to_nat {α} (l : List α) (n : Nat) (h : n ≤ l.length) :
    pySlice l none (some (n : Int)) = l.take n ∧ pySlice l (some (n : Int)) none = l.drop n := by
  have hc : pyClamp l.length (n : Int) = n := by
    unfold pyClamp
    have : ¬ ((n : Int) < 0) := by omega
    simp only [this, if_false, Int.toNat_natCast]; omega
  simp only [pySlice, hc, List.drop_zero, List.take_length, and_self]

theorem flat_phase1_good (axis rank : Nat) (l : List Int) (hl : l.length = rank) (h : axis ≤ rank) :
    FGood axis (prodInt (l.take axis)) (prodInt (l.drop axis)) (flatPhase1 (axis : Int) (some (rank : Int))) := by
  unfold flatPhase1
  by_cases h0 : axis = 0
  · subst h0
    exact ⟨1, -1, by simp, Or.inr (Or.inl (by simp [prodInt])), Or.inl rfl⟩
  · by_cases h1 : axis = 1
    · subst h1
      exact ⟨0, -1, by simp, Or.inr (Or.inr ⟨rfl, rfl⟩), Or.inl rfl⟩
    · have e0 : ¬ ((axis : Int) = 0) := by omega
      have e1 : ¬ ((axis : Int) = 1) := by omega
      simp only [e0, e1, if_false]
      by_cases hr : axis = rank
      · subst hr
        refine ⟨-1, 1, by simp, Or.inl rfl, Or.inr ?_⟩
        rw [← hl, List.drop_length]; rfl
      · have : ¬ (some (axis : Int) = some (rank : Int)) := by
          intro hc; simp only [Option.some.injEq] at hc; omega
        simp only [this, if_false]
        exact ⟨-1, -1, rfl, Or.inl rfl, Or.inl rfl⟩

theorem flat_phase2_good {σ : String → Nat} {axis : Nat} {P0 P1 : Int} {ns : List Int} (out : Option Shape)
    (hout : ∀ o, out = some o → Admits σ o [P0, P1]) (h : FGood axis P0 P1 ns) :
    FGood axis P0 P1 (flatPhase2 out ns) := by
  cases out with
  | none => exact h
  | some o =>
    have ha := hout o rfl
    match o, ha with
    | [d0, d1], ha =>
      simp only [Admits] at ha
      simp only [flatPhase2, List.getElem?_cons_zero, List.getElem?_cons_succ]
      have s0 : FGood axis P0 P1 (match (some d0 : Option Dim) with | some (Dim.known n) => setAt ns 0 n | _ => ns) := by
        cases d0 with
        | known n => simp only [Dim.Admits] at ha; rw [ha.1]; exact h.set0
        | sym a => exact h
        | unknown => exact h
      cases d1 with
      | known n => simp only [Dim.Admits] at ha; rw [ha.2.1]; exact s0.set1
      | sym a => exact s0
      | unknown => exact s0
    | [], ha => simp only [Admits] at ha
    | [_], ha => simp only [Admits] at ha; exact ha.2.elim
    | _ :: _ :: _ :: _, ha => simp only [Admits] at ha; exact ha.2.2.elim

theorem flat_phase3_good {σ : String → Nat} {axis : Nat} {ns : List Int} (s : Shape) (l : List Int)
    (hs : Admits σ s l) (hax : axis ≤ s.length)
    (h : FGood axis (prodInt (l.take axis)) (prodInt (l.drop axis)) ns) :
    FGood axis (prodInt (l.take axis)) (prodInt (l.drop axis)) (flatPhase3 (some s) (axis : Int) ns) := by
  obtain ⟨e1, e2⟩ := pySlice_to_nat s axis hax
  simp only [flatPhase3, e1, e2]
  have s0 : FGood axis (prodInt (l.take axis)) (prodInt (l.drop axis))
      (match allInts (s.take axis) with | some c => setAt ns 0 (prodInt c) | none => ns) := by
    cases hc : allInts (s.take axis) with
    | none => exact h
    | some c => rw [← allInts_admits hc (admits_take axis hs)]; exact h.set0
  cases hc : allInts (s.drop axis) with
  | none => exact s0
  | some c => rw [← allInts_admits hc (admits_drop axis hs)]; exact s0.set1

/-- The emitted target, evaluated by Reshape (allowzero=0) on a tensor without zero-size dims, is the
Flatten result. -/
theorem flatten_core {σ : String → Nat} (s : Shape) (out : Option Shape) (axis : Nat) (tgt : List Int)
    (h : flattenTarget (some s) out (axis : Int) = some tgt) (hax : axis ≤ s.length)
    (l : List Int) (hs : Admits σ s l) (hpos : ∀ d ∈ l, 0 < d)
    (hout : ∀ o, out = some o → Admits σ o (flattenSpec l axis)) :
    reshapeTarget l tgt false = some (flattenSpec l axis) := by
  have hl := admits_length hs
  have hnn : ¬ ((axis : Int) < 0) := by omega
  simp only [flattenTarget, Option.map_some, hnn, if_false] at h
  by_cases hz : hasStaticZero (some s) = true
  · rw [if_pos hz] at h; cases h
  rw [if_neg hz] at h
  have good := flat_phase3_good (σ := σ) s l hs hax
    (flat_phase2_good out hout (flat_phase1_good axis s.length l hl.symm hax))
  generalize flatPhase3 (some s) (axis : Int) (flatPhase2 out (flatPhase1 (axis : Int) (some (s.length : Int)))) = ns at h good
  by_cases hcnt : (ns.filter (· == -1)).length > 1
  · simp only [hcnt, if_true] at h; cases h
  · simp only [hcnt, if_false, Option.some.injEq] at h
    subst h
    obtain ⟨a, b, rfl, ha, hb⟩ := good
    have hP0 : 0 < prodInt (l.take axis) := prodInt_pos (fun d hd => hpos d (List.mem_of_mem_take hd))
    have hP1 : 0 < prodInt (l.drop axis) := prodInt_pos (fun d hd => hpos d (List.mem_of_mem_drop hd))
    have hp : prodInt l = prodInt (l.take axis) * prodInt (l.drop axis) := by
      rw [← prodInt_append, List.take_append_drop]
    have h0 : axis = 1 → l[0]? = some (prodInt (l.take axis)) := by
      intro h1; subst h1
      cases l with
      | nil => simp only [List.length_nil] at hl; omega
      | cons x t => simp [prodInt]
    simp only [flattenSpec]
    rcases ha with rfl | rfl | ⟨rfl, h1⟩ <;> rcases hb with rfl | rfl
    · exact absurd (by decide) hcnt
    · exact reshape2_neg_left l _ _ hP0 hP1 hp
    · exact reshape2_neg_right l _ _ hP0 hP1 hp
    · exact reshape2_lit l _ _ hP0 hP1 hp
    · exact reshape2_zero_neg l _ _ hP0 hP1 hp (h0 h1)
    · exact reshape2_zero_lit l _ _ hP0 hP1 hp (h0 h1)

/-- the rule fires only on inputs without a static zero dim (commit 02f546a) -/
theorem flatten_fires_no_static_zero (s : Shape) (out : Option Shape) (axisAttr : Int) (tgt : List Int)
    (h : flattenTarget (some s) out axisAttr = some tgt) : Dim.known 0 ∉ s := by
  intro hm
  have hz : hasStaticZero (some s) = true := by
    simp only [hasStaticZero, List.any_eq_true, decide_eq_true_eq]
    exact ⟨_, hm, rfl⟩
  simp only [flattenTarget] at h
  rw [if_pos hz] at h; cases h

/-- no static zero, no unnamed dim, every symbol positive ⇒ every run-time dim positive -/
theorem pos_of_symbols_pos {σ : String → Nat} : ∀ {s : Shape} {l : List Int}, Admits σ s l →
    Dim.known 0 ∉ s → hasUnknown s = false → (∀ d ∈ l, 0 ≤ d) → (∀ a, Dim.sym a ∈ s → 0 < σ a) → ∀ v ∈ l, 0 < v
  | [], [], _, _, _, _, _ => by intro v hv; simp only [List.not_mem_nil] at hv
  | [], _ :: _, h, _, _, _, _ => by simp only [Admits] at h
  | _ :: _, [], h, _, _, _, _ => by simp only [Admits] at h
  | d :: s, w :: l, h, hz, hu, hn, hs => by
    simp only [Admits] at h
    simp only [hasUnknown, List.any_cons, Bool.or_eq_false_iff] at hu
    intro v hv
    simp only [List.mem_cons] at hv
    rcases hv with rfl | hv
    · cases d with
      | known n =>
        simp only [Dim.Admits] at h
        have h0 : n ≠ 0 := fun e => hz (by subst e; exact List.mem_cons_self ..)
        have := hn v (List.mem_cons_self ..)
        omega
      | sym a =>
        simp only [Dim.Admits] at h
        have := hs a (List.mem_cons_self ..)
        omega
      | unknown => simp only [Dim.isUnknown] at hu; cases hu.1
    · exact pos_of_symbols_pos h.2 (fun hm => hz (List.mem_cons_of_mem _ hm)) (by simpa only [hasUnknown] using hu.2)
        (fun d hd => hn d (List.mem_cons_of_mem _ hd)) (fun a ha => hs a (List.mem_cons_of_mem _ ha)) v hv

/-! ### sharper version: dims may be 0 at run time; the only failing target is `[0, -1]` with dim 0 = 0 -/

theorem prodInt_nonneg {l : List Int} (h : ∀ d ∈ l, 0 ≤ d) : 0 ≤ prodInt l := by
  induction l with
  | nil => simp only [prodInt, List.foldr_nil]; omega
  | cons a t ih =>
    rw [prodInt_cons]
    exact Int.mul_nonneg (h a (List.mem_cons_self ..)) (ih (fun d hd => h d (List.mem_cons_of_mem _ hd)))

theorem reshape2_zero_lit' (l : List Int) (a b : Int) (ha : 0 ≤ a) (hb : 0 < b) (hp : prodInt l = a * b)
    (h0 : l[0]? = some a) : reshapeTarget l [0, b] false = some [a, b] := by
  have h1 : a ≠ -1 := by omega
  have h2 : b ≠ -1 := by omega
  have h3 : ¬ a < -1 := by omega
  have h4 : ¬ b < -1 := by omega
  have h6 : b ≠ 0 := by omega
  simp [reshapeTarget, resolveZeros, prodInt_two, prodInt_one, prodInt_nil, h0, h1, h2, h3, h4, h6, hp, Ne.symm h1, Ne.symm h2]

theorem reshape2_neg_left' (l : List Int) (a b : Int) (hb : 0 < b) (hp : prodInt l = a * b) :
    reshapeTarget l [-1, b] false = some [a, b] := by
  have h2 : b ≠ -1 := by omega
  have h4 : ¬ b < -1 := by omega
  have h6 : b ≠ 0 := by omega
  have hd : a * b / b = a := Int.mul_ediv_cancel a h6
  have hm : a * b % b = 0 := Int.mul_emod_left a b
  simp [reshapeTarget, resolveZeros, prodInt_two, prodInt_one, prodInt_nil, h2, h4, h6, hp, hd, hm, Ne.symm h2]

theorem reshape2_neg_right' (l : List Int) (a b : Int) (ha : 0 < a) (hp : prodInt l = a * b) :
    reshapeTarget l [a, -1] false = some [a, b] := by
  have h1 : a ≠ -1 := by omega
  have h3 : ¬ a < -1 := by omega
  have h5 : a ≠ 0 := by omega
  have hd : a * b / a = b := Int.mul_ediv_cancel_left b h5
  have hm : a * b % a = 0 := Int.mul_emod_right a b
  simp [reshapeTarget, resolveZeros, prodInt_two, prodInt_one, prodInt_nil, h1, h3, h5, hp, hd, hm, Ne.symm h1]

theorem reshape2_zero_neg' (l : List Int) (a b : Int) (ha : 0 < a) (hp : prodInt l = a * b)
    (h0 : l[0]? = some a) : reshapeTarget l [0, -1] false = some [a, b] := by
  have h1 : a ≠ -1 := by omega
  have h3 : ¬ a < -1 := by omega
  have h5 : a ≠ 0 := by omega
  have hd : a * b / a = b := Int.mul_ediv_cancel_left b h5
  have hm : a * b % a = 0 := Int.mul_emod_right a b
  simp [reshapeTarget, resolveZeros, prodInt_two, prodInt_one, prodInt_nil, h0, h1, h3, h5, hp, hd, hm, Ne.symm h1]

/-- invariant with positivity of every entry that is a product -/
def FGood2 (axis : Nat) (P0 P1 : Int) (ns : List Int) : Prop :=
  ∃ a b, ns = [a, b] ∧ (a = -1 ∨ (a = P0 ∧ 0 < P0) ∨ (a = 0 ∧ axis = 1)) ∧ (b = -1 ∨ (b = P1 ∧ 0 < P1))

theorem FGood2.set0 {axis : Nat} {P0 P1 : Int} {ns : List Int} (h : FGood2 axis P0 P1 ns) (hp : 0 < P0) :
    FGood2 axis P0 P1 (setAt ns 0 P0) := by
  obtain ⟨a, b, rfl, _, hb⟩ := h
  exact ⟨P0, b, by simp [setAt], Or.inr (Or.inl ⟨rfl, hp⟩), hb⟩

theorem FGood2.set1 {axis : Nat} {P0 P1 : Int} {ns : List Int} (h : FGood2 axis P0 P1 ns) (hp : 0 < P1) :
    FGood2 axis P0 P1 (setAt ns 1 P1) := by
  obtain ⟨a, b, rfl, ha, _⟩ := h
  exact ⟨a, P1, by simp [setAt], ha, Or.inr ⟨rfl, hp⟩⟩

theorem flat_phase1_good2 (axis rank : Nat) (l : List Int) (hl : l.length = rank) (h : axis ≤ rank) :
    FGood2 axis (prodInt (l.take axis)) (prodInt (l.drop axis)) (flatPhase1 (axis : Int) (some (rank : Int))) := by
  unfold flatPhase1
  by_cases h0 : axis = 0
  · subst h0
    exact ⟨1, -1, by simp, Or.inr (Or.inl (by simp [prodInt])), Or.inl rfl⟩
  · by_cases h1 : axis = 1
    · subst h1
      exact ⟨0, -1, by simp, Or.inr (Or.inr ⟨rfl, rfl⟩), Or.inl rfl⟩
    · have e0 : ¬ ((axis : Int) = 0) := by omega
      have e1 : ¬ ((axis : Int) = 1) := by omega
      simp only [e0, e1, if_false]
      by_cases hr : axis = rank
      · subst hr
        refine ⟨-1, 1, by simp, Or.inl rfl, Or.inr ?_⟩
        rw [← hl, List.drop_length]; exact ⟨rfl, by decide⟩
      · have : ¬ (some (axis : Int) = some (rank : Int)) := by
          intro hc; simp only [Option.some.injEq] at hc; omega
        simp only [this, if_false]
        exact ⟨-1, -1, rfl, Or.inl rfl, Or.inl rfl⟩

theorem flat_phase2_good2 {σ : String → Nat} {axis : Nat} {P0 P1 : Int} {ns : List Int} (out : Option Shape)
    (hout : ∀ o, out = some o → Admits σ o [P0, P1]) (hnz : ∀ o, out = some o → Dim.known 0 ∉ o)
    (h0 : 0 ≤ P0) (h1 : 0 ≤ P1) (h : FGood2 axis P0 P1 ns) :
    FGood2 axis P0 P1 (flatPhase2 out ns) := by
  cases out with
  | none => exact h
  | some o =>
    have ha := hout o rfl
    have hz := hnz o rfl
    match o, ha, hz with
    | [d0, d1], ha, hz =>
      simp only [Admits] at ha
      simp only [flatPhase2, List.getElem?_cons_zero, List.getElem?_cons_succ]
      have s0 : FGood2 axis P0 P1 (match (some d0 : Option Dim) with | some (Dim.known n) => setAt ns 0 n | _ => ns) := by
        cases d0 with
        | known n =>
          simp only [Dim.Admits] at ha
          have : n ≠ 0 := fun e => hz (by subst e; exact List.mem_cons_self ..)
          rw [ha.1]; exact h.set0 (by omega)
        | sym a => exact h
        | unknown => exact h
      cases d1 with
      | known n =>
        simp only [Dim.Admits] at ha
        have : n ≠ 0 := fun e => hz (by subst e; exact List.mem_cons_of_mem _ (List.mem_cons_self ..))
        rw [ha.2.1]; exact s0.set1 (by omega)
      | sym a => exact s0
      | unknown => exact s0
    | [], ha, _ => simp only [Admits] at ha
    | [_], ha, _ => simp only [Admits] at ha; exact ha.2.elim
    | _ :: _ :: _ :: _, ha, _ => simp only [Admits] at ha; exact ha.2.2.elim

theorem allInts_pos {σ : String → Nat} {s : Shape} {c l : List Int} (hc : allInts s = some c) (ha : Admits σ s l)
    (hz : Dim.known 0 ∉ s) (hn : ∀ d ∈ l, 0 ≤ d) : 0 < prodInt l := by
  have hl := allInts_admits hc ha
  have hs := allInts_eq_map hc
  apply prodInt_pos
  intro d hd
  have h1 := hn d hd
  have h2 : d ≠ 0 := by
    intro e; subst e
    apply hz
    rw [hs, ← hl]
    exact List.mem_map.mpr ⟨0, hd, rfl⟩
  omega

theorem flat_phase3_good2 {σ : String → Nat} {axis : Nat} {ns : List Int} (s : Shape) (l : List Int)
    (hs : Admits σ s l) (hax : axis ≤ s.length) (hz : Dim.known 0 ∉ s) (hn : ∀ d ∈ l, 0 ≤ d)
    (h : FGood2 axis (prodInt (l.take axis)) (prodInt (l.drop axis)) ns) :
    FGood2 axis (prodInt (l.take axis)) (prodInt (l.drop axis)) (flatPhase3 (some s) (axis : Int) ns) := by
  obtain ⟨e1, e2⟩ := pySlice_to_nat s axis hax
  simp only [flatPhase3, e1, e2]
  have s0 : FGood2 axis (prodInt (l.take axis)) (prodInt (l.drop axis))
      (match allInts (s.take axis) with | some c => setAt ns 0 (prodInt c) | none => ns) := by
    cases hc : allInts (s.take axis) with
    | none => exact h
    | some c =>
      have hp := allInts_pos hc (admits_take axis hs) (fun hm => hz (List.mem_of_mem_take hm))
        (fun d hd => hn d (List.mem_of_mem_take hd))
      rw [← allInts_admits hc (admits_take axis hs)]; exact h.set0 hp
  cases hc : allInts (s.drop axis) with
  | none => exact s0
  | some c =>
    have hp := allInts_pos hc (admits_drop axis hs) (fun hm => hz (List.mem_of_mem_drop hm))
      (fun d hd => hn d (List.mem_of_mem_drop hd))
    rw [← allInts_admits hc (admits_drop axis hs)]; exact s0.set1 hp

/-- **Exact characterisation.**  Dims may be 0 at run time.  Whenever the rule fires, the emitted Reshape
yields the Flatten result unless the target is `[0, -1]` and dim 0 is 0. -/
theorem flatten_core2 {σ : String → Nat} (s : Shape) (out : Option Shape) (axis : Nat) (tgt : List Int)
    (h : flattenTarget (some s) out (axis : Int) = some tgt) (hax : axis ≤ s.length)
    (l : List Int) (hs : Admits σ s l) (hn : ∀ d ∈ l, 0 ≤ d)
    (hout : ∀ o, out = some o → Admits σ o (flattenSpec l axis)) (hoz : ∀ o, out = some o → Dim.known 0 ∉ o)
    (hbad : tgt = [0, -1] → l.head? ≠ some 0) :
    reshapeTarget l tgt false = some (flattenSpec l axis) := by
  have hl := admits_length hs
  have hz := flatten_fires_no_static_zero s out _ tgt h
  have hnn : ¬ ((axis : Int) < 0) := by omega
  simp only [flattenTarget, Option.map_some, hnn, if_false] at h
  by_cases hz' : hasStaticZero (some s) = true
  · rw [if_pos hz'] at h; cases h
  rw [if_neg hz'] at h
  have hP0 : 0 ≤ prodInt (l.take axis) := prodInt_nonneg (fun d hd => hn d (List.mem_of_mem_take hd))
  have hP1 : 0 ≤ prodInt (l.drop axis) := prodInt_nonneg (fun d hd => hn d (List.mem_of_mem_drop hd))
  have good := flat_phase3_good2 (σ := σ) s l hs hax hz hn
    (flat_phase2_good2 out hout hoz hP0 hP1 (flat_phase1_good2 axis s.length l hl.symm hax))
  generalize flatPhase3 (some s) (axis : Int) (flatPhase2 out (flatPhase1 (axis : Int) (some (s.length : Int)))) = ns at h good
  by_cases hcnt : (ns.filter (· == -1)).length > 1
  · simp only [hcnt, if_true] at h; cases h
  · simp only [hcnt, if_false, Option.some.injEq] at h
    subst h
    obtain ⟨a, b, rfl, ha, hb⟩ := good
    have hp : prodInt l = prodInt (l.take axis) * prodInt (l.drop axis) := by
      rw [← prodInt_append, List.take_append_drop]
    have h0 : axis = 1 → l[0]? = some (prodInt (l.take axis)) := by
      intro h1; subst h1
      cases l with
      | nil => simp only [List.length_nil] at hl; omega
      | cons x t => simp [prodInt]
    simp only [flattenSpec]
    rcases ha with rfl | ⟨rfl, hp0⟩ | ⟨rfl, h1⟩ <;> rcases hb with rfl | ⟨rfl, hp1⟩
    · exact absurd (by decide) hcnt
    · exact reshape2_neg_left' l _ _ hp1 hp
    · exact reshape2_neg_right' l _ _ hp0 hp
    · exact reshape2_lit l _ _ hp0 hp1 hp
    · have hne := hbad rfl
      have hh := h0 h1
      have hpos : 0 < prodInt (l.take axis) := by
        cases l with
        | nil => simp only [List.length_nil] at hl; omega
        | cons x t =>
          simp only [List.getElem?_cons_zero, Option.some.injEq] at hh
          simp only [List.head?_cons, ne_eq, Option.some.injEq] at hne
          omega
      exact reshape2_zero_neg' l _ _ hpos hp hh
    · exact reshape2_zero_lit' l _ _ hP0 hp1 hp (h0 h1)


end OV.C09
