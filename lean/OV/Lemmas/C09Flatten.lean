import OV.Lemmas.C09Reshape
/-! `Flatten2Reshape`: the emitted 2-element Reshape target (core Lean only). -/
set_option linter.unusedSimpArgs false
namespace OV.C09

theorem prodInt_two (a b : Int) : prodInt [a, b] = a * b := by simp [prodInt]
theorem prodInt_one (a : Int) : prodInt [a] = a := by simp [prodInt]
theorem prodInt_nil : prodInt [] = 1 := rfl

/-- Reshape (allowzero=0) of a tensor with `prodInt l = a*b`, `a,b > 0`, by the five target forms the
rule can emit. -/
theorem reshape2_lit (l : List Int) (a b : Int) (ha : 0 < a) (hb : 0 < b) (hp : prodInt l = a * b) :
    reshapeTarget l [a, b] false = some [a, b] := by
  have h1 : a ≠ -1 := by omega
  have h2 : b ≠ -1 := by omega
  have h3 : ¬ a < -1 := by omega
  have h4 : ¬ b < -1 := by omega
  have h5 : a ≠ 0 := by omega
  have h6 : b ≠ 0 := by omega
  simp [reshapeTarget, resolveZeros, prodInt_two, prodInt_one, prodInt_nil, h1, h2, h3, h4, h5, h6, hp, Ne.symm h1, Ne.symm h2]

theorem reshape2_zero_lit (l : List Int) (a b : Int) (ha : 0 < a) (hb : 0 < b) (hp : prodInt l = a * b)
    (h0 : l[0]? = some a) : reshapeTarget l [0, b] false = some [a, b] := by
  have h1 : a ≠ -1 := by omega
  have h2 : b ≠ -1 := by omega
  have h3 : ¬ a < -1 := by omega
  have h4 : ¬ b < -1 := by omega
  have h5 : a ≠ 0 := by omega
  have h6 : b ≠ 0 := by omega
  simp [reshapeTarget, resolveZeros, prodInt_two, prodInt_one, prodInt_nil, h0, h1, h2, h3, h4, h5, h6, hp, Ne.symm h1, Ne.symm h2]

theorem reshape2_neg_right (l : List Int) (a b : Int) (ha : 0 < a) (hb : 0 < b) (hp : prodInt l = a * b) :
    reshapeTarget l [a, -1] false = some [a, b] := by
  have h1 : a ≠ -1 := by omega
  have h3 : ¬ a < -1 := by omega
  have h5 : a ≠ 0 := by omega
  have hd : a * b / a = b := Int.mul_ediv_cancel_left b h5
  have hm : a * b % a = 0 := Int.mul_emod_right a b
  simp [reshapeTarget, resolveZeros, prodInt_two, prodInt_one, prodInt_nil, h1, h3, h5, hp, hd, hm, Ne.symm h1]

theorem reshape2_neg_left (l : List Int) (a b : Int) (ha : 0 < a) (hb : 0 < b) (hp : prodInt l = a * b) :
    reshapeTarget l [-1, b] false = some [a, b] := by
  have h2 : b ≠ -1 := by omega
  have h4 : ¬ b < -1 := by omega
  have h6 : b ≠ 0 := by omega
  have hd : a * b / b = a := Int.mul_ediv_cancel a h6
  have hm : a * b % b = 0 := Int.mul_emod_left a b
  simp [reshapeTarget, resolveZeros, prodInt_two, prodInt_one, prodInt_nil, h2, h4, h6, hp, hd, hm, Ne.symm h2]

theorem reshape2_zero_neg (l : List Int) (a b : Int) (ha : 0 < a) (hb : 0 < b) (hp : prodInt l = a * b)
    (h0 : l[0]? = some a) : reshapeTarget l [0, -1] false = some [a, b] := by
  have h1 : a ≠ -1 := by omega
  have h3 : ¬ a < -1 := by omega
  have h5 : a ≠ 0 := by omega
  have hd : a * b / a = b := Int.mul_ediv_cancel_left b h5
  have hm : a * b % a = 0 := Int.mul_emod_right a b
  simp [reshapeTarget, resolveZeros, prodInt_two, prodInt_one, prodInt_nil, h0, h1, h3, h5, hp, hd, hm, Ne.symm h1]

end OV.C09
