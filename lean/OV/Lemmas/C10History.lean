import OV.Model.C10History
import OV.Lemmas.C10
/-! Helper lemmas for the history theorems of C10 (core Lean only): the step loop composes, and the class of valid
self-consistent models is closed under a successful conversion. -/
namespace OV.C10

/-- The step loop is an action of `(Nat, +)`: `a + b` steps from `v` are `a` steps from `v` followed, on every node
they leave, by `b` steps from `v + a`. -/
theorem leafSteps_compose_lemma (a b : Nat) : ∀ (v : Nat) (l : Leaf),
    leafSteps (a + b) v l = (leafSteps a v l).flatMap (leafSteps b (v + a)) := by
  induction a with
  | zero => intro v l; simp [leafSteps]
  | succ a ih =>
    intro v l
    have e1 : a + 1 + b = (a + b) + 1 := by omega
    have e2 : v + (a + 1) = v + 1 + a := by omega
    rw [e1, e2]
    simp only [leafSteps]
    cases adapt l.op v with
    | raised => exact ih (v + 1) l
    | noAdapter => exact ih _ _
    | retNone => exact ih _ _
    | replaced news =>
      simp only [List.flatMap_assoc]
      congr 1
      funext o
      exact ih _ _

theorem aux_meaning_some (op : Op) (v : Nat) (h : op.isAux = true) : (op.meaning v).isSome := by
  cases op <;> simp_all [Op.isAux, Op.meaning]

theorem pmLeaves_mem {β} (μ : Op → Nat → β) (d : Nat) (ls : List Leaf) (l : Leaf) (hl : l ∈ ls)
    (ha : l.op.isAux = false) : μ l.op (l.readAt d) ∈ pmLeaves μ d ls := by
  induction ls with
  | nil => cases hl
  | cons x xs ih =>
    simp only [pmLeaves]
    rcases List.mem_cons.mp hl with h | h
    · subst h; simp [ha]
    · split
      · exact ih h
      · exact List.mem_cons_of_mem _ (ih h)

theorem leaves_valid_of_readings (t : Nat) (ls : List Leaf)
    (h : ∀ x ∈ pmLeaves Op.meaning t ls, x.isSome) : ∀ l ∈ ls, (l.op.meaning (l.readAt t)).isSome := by
  intro l hl
  cases ha : l.op.isAux with
  | true => exact aux_meaning_some _ _ ha
  | false => exact h _ (pmLeaves_mem Op.meaning t ls l hl ha)

/-- A visited node (precondition re-established, every contained node written for `t` and a valid form at `t`) is a
node of a valid model at `t`, at every nesting depth. -/
theorem validD_of_pre {s t : Nat} : (d : Nat) → (a : NodeD d) → PreD Op.meaning s t d a →
    (∀ x ∈ Inner.leaves a, LeafPost s t x ∧ (x.op.meaning (x.readAt t)).isSome) → ValidD t d a
  | 0, l, hp, hx => by
    have hp' : LeafPre Op.meaning s t l := hp
    have hl : l ∈ Inner.leaves (α := Leaf) l := List.mem_singleton.mpr rfl
    obtain ⟨hpost, hv⟩ := hx l hl
    exact ⟨hpost.effNew, hp'.noRef, hv⟩
  | d + 1, n, hp, hx => by
    have hp' : NodePre (α := NodeD d) Op.meaning s t (PreD Op.meaning s t d) n := hp
    have hx' : ∀ x ∈ Node.leaves n, LeafPost s t x ∧ (x.op.meaning (x.readAt t)).isSome := hx
    have hleaf := hx' n.leaf (List.mem_cons_self ..)
    exact ⟨⟨hleaf.1.effNew, hp'.leaf.noRef, hleaf.2⟩, hp'.ctrl,
      fun b hb a ha => validD_of_pre d a (hp'.bodies b hb a ha) (fun x hxa =>
        hx' x (List.mem_cons_of_mem _ (List.mem_flatMap.mpr ⟨a, List.mem_flatten.mpr ⟨b, hb, ha⟩, hxa⟩))),
      hp'.customFlat⟩

/-- A custom-domain node is not versioned by the default-domain import: valid at `s` ⇒ valid at `t`. -/
theorem validD_custom {s t d : Nat} (n : NodeD (d + 1)) (hd : (n : Node (NodeD d)).leaf.dflt = false)
    (h : ValidD s (d + 1) n) : ValidD t (d + 1) n := by
  have h' : ValidNode (α := NodeD d) s (ValidD s d) n := h
  have hb := h'.customFlat hd
  refine (⟨⟨fun h1 => ?_, fun h1 => ?_, ?_⟩, h'.ctrl, fun b hb' => ?_, h'.customFlat⟩ :
    ValidNode (α := NodeD d) t (ValidD t d) n)
  · rw [hd] at h1; cases h1
  · rw [hd] at h1; cases h1
  · have := h'.leaf.valid
    simpa [Leaf.readAt, hd] using this
  · rw [hb] at hb'; cases hb'

/-- `_version_converter.convert_version` on a valid model: the result is the model itself, or again a valid model —
now at `t` — with the same readings, inputs and initializers. -/
theorem nativeConvert_closed (s t : Nat) {d : Nat} (m : Model (NodeD d)) (h : ValidModel s m) :
    (nativeConvert t m).1 = m ∨
    (ValidModel t (nativeConvert t m).1 ∧
      pmNodes Op.meaning t (nativeConvert t m).1.nodes = pmNodes Op.meaning s m.nodes ∧
      (nativeConvert t m).1.inputs = m.inputs ∧ (nativeConvert t m).1.inits = m.inits) := by
  have hsc := h.selfConsistent
  have hsrc : ∀ n ∈ m.nodes, SrcNode (α := NodeD d) Op.meaning s (SrcD Op.meaning s d) n := fun n hn => hsc.nodes n hn
  unfold nativeConvert
  split
  · exact Or.inl rfl
  · unfold visitModel
    have hget : getOnnxOpsetVersion m.declared m.aionnx = .ok (some s) := by
      rw [h.declared, h.noAi]; rfl
    rw [hget]
    simp only []
    by_cases hst : s ≤ t
    · obtain ⟨g1, g2, g3⟩ := visitGraph_spec Op.meaning meaning_mono_lemma s t (specD Op.meaning meaning_mono_lemma s t d)
        m.nodes (fun n hn => SrcD.toPre hst (d + 1) n (hsc.nodes n hn))
      rcases hv : visitGraph (some s) t m.nodes with ⟨ns, e⟩
      rw [hv] at g1 g2 g3
      simp only at g1 g2 g3
      subst g1
      rw [h.inlined]
      simp only [visitFuncs, Model.setOpset]
      have hvalid : ∀ x ∈ ns.flatMap Node.leaves, (x.op.meaning (x.readAt t)).isSome :=
        leaves_valid_of_readings t _ (fun x hx => h.readings_valid x (by
          have : pmLeaves Op.meaning t (ns.flatMap Node.leaves) = pmNodes Op.meaning s m.nodes := g3
          rw [← this]; exact hx))
      refine Or.inr ⟨⟨(by first | trivial | rfl), (by first | trivial | rfl), (by first | trivial | rfl),
        fun n hn => ?_⟩, g3, (by first | trivial | rfl), (by first | trivial | rfl)⟩
      exact validD_of_pre (d + 1) n (g2 n hn).1 (fun x hx =>
        ⟨(g2 n hn).2 x hx, hvalid x (List.mem_flatMap.mpr ⟨n, hn, hx⟩)⟩)
    · obtain ⟨g1, g2⟩ := visitGraph_downgrade Op.meaning s t (by omega) m.nodes (fun n hn => (hsrc n hn).leaf)
      rcases hv : visitGraph (some s) t m.nodes with ⟨ns, e⟩
      rw [hv] at g1 g2
      simp only at g1 g2
      subst g1
      cases e with
      | some e => simp only []; exact Or.inl (by first | trivial | exact setNodes_self m)
      | none =>
        have hc := g2 rfl
        rw [h.inlined]
        simp only [visitFuncs, Model.setOpset]
        refine Or.inr ⟨⟨(by first | trivial | rfl), (by first | trivial | rfl), (by first | trivial | rfl),
          fun n hn => validD_custom n (hc n hn) (h.nodes n hn)⟩, ?_, (by first | trivial | rfl), (by first | trivial | rfl)⟩
        exact pmNodes_custom Op.meaning s t m.nodes (fun n hn => ⟨hc n hn, (hsrc n hn).customFlat (hc n hn)⟩)

/-- `_ConvertVersionPassRequiresInline.call` on a valid model when the C API (if it is reached at all) raises. -/
theorem requiresInline_closed (s t : Nat) (fb : Fallback) {d : Nat} (capi : CApi (NodeD d)) (m : Model (NodeD d))
    (h : ValidModel s m) (hc : capi m t = none) :
    (requiresInlineCall fb t capi m).1 = m ∨
    (ValidModel t (requiresInlineCall fb t capi m).1 ∧
      pmNodes Op.meaning t (requiresInlineCall fb t capi m).1.nodes = pmNodes Op.meaning s m.nodes ∧
      (requiresInlineCall fb t capi m).1.inputs = m.inputs ∧ (requiresInlineCall fb t capi m).1.inits = m.inits) := by
  unfold requiresInlineCall
  split
  · exact Or.inl rfl
  · split
    · exact nativeConvert_closed s t m h
    · split
      · exact Or.inl rfl
      · rw [hc]; exact Or.inl rfl

section generic
variable {α : Type}

theorem inlineNodes_nil (ns : List (Node α)) : inlineNodes ([] : List (Func α)) ns = ns := by
  induction ns with
  | nil => rfl
  | cons n ns ih =>
    unfold inlineNodes
    split
    · simp [ih]
    · rw [ih]

end generic

/-- On a model without functions declaring an opset the inline pass changes nothing. -/
theorem inlineModel_valid {s d : Nat} {m : Model (NodeD d)} (h : ValidModel s m) : inlineModel m = .ok m := by
  obtain ⟨h1, h2, h3, _⟩ := h
  rcases m with ⟨decl, ai, nodes, funcs, inputs, inits⟩
  simp only at h1 h2 h3
  subst h1 h2 h3
  have hclash : calledClash (⟨some s, none, nodes, [], inputs, inits⟩ : Model (NodeD d)) = false := by
    unfold calledClash
    rw [List.any_eq_false]
    intro n _
    split <;> simp
  unfold inlineModel
  rw [hclash]
  simp [inlineNodes_nil]

end OV.C10

namespace OV.C10

/-! ### `ir.from_proto` (version stamps erased) on a valid model -/

theorem leaves_erase : (d : Nat) → (a : NodeD d) → Inner.leaves (Inner.erase a) = (Inner.leaves a).map eraseLeaf
  | 0, l => by
    show [eraseLeaf l] = [l].map eraseLeaf
    rfl
  | d + 1, n => by
    show Node.leaves (eraseNode n) = (Node.leaves n).map eraseLeaf
    have ih : ∀ a : NodeD d, Inner.leaves (Inner.erase a) = (Inner.leaves a).map eraseLeaf := leaves_erase d
    simp only [Node.leaves, eraseNode, List.map_cons, List.cons.injEq, true_and]
    generalize (n : Node (NodeD d)).bodies = bs
    induction bs with
    | nil => rfl
    | cons b bs ihb =>
      simp only [List.map_cons, List.flatten_cons, List.flatMap_append, List.map_append, ihb]
      congr 1
      induction b with
      | nil => rfl
      | cons a as iha => simp only [List.map_cons, List.flatMap_cons, List.map_append, iha, ih]

theorem validD_erase {s : Nat} : (d : Nat) → (a : NodeD d) → ValidD s d a → ValidD s d (Inner.erase a)
  | 0, l, h => by
    have h' : ValidLeaf s l := h
    show ValidLeaf s (eraseLeaf l)
    refine ⟨fun _ => rfl, h'.noRef, ?_⟩
    have := h'.valid
    by_cases hd : l.dflt = true
    · have hv := h'.ver hd
      simpa [Leaf.readAt, eraseLeaf, hd, Leaf.eff, hv] using (by simpa [Leaf.readAt, hd, hv] using this)
    · have hd' : l.dflt = false := by cases hq : l.dflt <;> simp_all
      simpa [Leaf.readAt, eraseLeaf, hd'] using this
  | d + 1, n, h => by
    have h' : ValidNode (α := NodeD d) s (ValidD s d) n := h
    show ValidNode (α := NodeD d) s (ValidD s d) (eraseNode n)
    refine ⟨validD_erase 0 n.leaf h'.leaf, fun hb => h'.ctrl (by simpa [eraseNode] using hb), ?_, fun hd => ?_⟩
    · intro b hb a ha
      simp only [eraseNode, List.mem_map] at hb
      obtain ⟨b0, hb0, rfl⟩ := hb
      obtain ⟨a0, ha0, rfl⟩ := List.mem_map.mp ha
      exact validD_erase d a0 (h'.bodies b0 hb0 a0 ha0)
    · have := h'.customFlat (by simpa [eraseNode, eraseLeaf] using hd)
      simp [eraseNode, this]

theorem pmLeaves_erase {β} (μ : Op → Nat → β) (s : Nat) (ls : List Leaf)
    (h : ∀ l ∈ ls, l.dflt = true → l.eff s = s) : pmLeaves μ s (ls.map eraseLeaf) = pmLeaves μ s ls := by
  induction ls with
  | nil => rfl
  | cons l ls ih =>
    have ih' := ih (fun l' hl' => h l' (List.mem_cons_of_mem _ hl'))
    have hl := h l (List.mem_cons_self ..)
    simp only [List.map_cons, pmLeaves, ih']
    have hop : (eraseLeaf l).op = l.op := rfl
    rw [hop]
    split
    · rfl
    · congr 2
      by_cases hd : l.dflt = true
      · simp [Leaf.readAt, eraseLeaf, hd, Leaf.eff] ; simpa [Leaf.eff] using (hl hd).symm
      · have hd' : l.dflt = false := by cases hq : l.dflt <;> simp_all
        simp [Leaf.readAt, eraseLeaf, hd']

/-- `ir.from_proto` of a valid model is a valid model with the same readings. -/
theorem eraseVersions_valid {s d : Nat} {m : Model (NodeD d)} (h : ValidModel s m) :
    ValidModel s (eraseVersions m) ∧
    pmNodes Op.meaning s (eraseVersions m).nodes = pmNodes Op.meaning s m.nodes ∧
    (eraseVersions m).inputs = m.inputs ∧ (eraseVersions m).inits = m.inits := by
  refine ⟨⟨h.declared, h.noAi, by simp [eraseVersions, h.inlined], ?_⟩, ?_, rfl, rfl⟩
  · intro n hn
    simp only [eraseVersions, List.mem_map] at hn
    obtain ⟨n0, hn0, rfl⟩ := hn
    exact validD_erase (d + 1) n0 (h.nodes n0 hn0)
  · have hl : (eraseVersions m).nodes.flatMap Node.leaves = (m.nodes.flatMap Node.leaves).map eraseLeaf := by
      simp only [eraseVersions, List.flatMap_map, List.map_flatMap]
      congr 1
      funext n
      exact leaves_erase (d + 1) n
    simp only [pmNodes]
    rw [hl]
    refine pmLeaves_erase Op.meaning s _ (fun l hl' hd => ?_)
    obtain ⟨n, hn, hx⟩ := List.mem_flatMap.mp hl'
    exact SrcD.leaves_eff (d + 1) n (ValidD.toSrc (d + 1) n (h.nodes n hn)) l hx hd

/-- One call of the `ModelProto` entry on a valid model while the C API fails: the proto afterwards is a valid model
at `s` (refused / raised / no-op) or at `t`, with the readings, inputs and initializers of the original. -/
theorem protoCall_closed (s t : Nat) (fb : Fallback) {d : Nat} (m : Model (NodeD d)) (h : ValidModel s m) :
    ∃ s', (s' = s ∨ s' = t) ∧ ValidModel s' (convertVersionApi .proto fb t capiFails m).1 ∧
      pmNodes Op.meaning s' (convertVersionApi .proto fb t capiFails m).1.nodes = pmNodes Op.meaning s m.nodes ∧
      (convertVersionApi .proto fb t capiFails m).1.inputs = m.inputs ∧
      (convertVersionApi .proto fb t capiFails m).1.inits = m.inits := by
  obtain ⟨hv0, hpm0, hin0, hini0⟩ := eraseVersions_valid h
  simp only [convertVersionApi, inlineModel_valid hv0]
  have hc := requiresInline_closed s t fb capiFails (eraseVersions m) hv0 rfl
  rcases hr : requiresInlineCall fb t capiFails (eraseVersions m) with ⟨m2, e⟩
  rw [hr] at hc
  simp only at hc
  cases e with
  | some er => exact ⟨s, Or.inl rfl, hv0, hpm0, hin0, hini0⟩
  | none =>
    simp only []
    rcases hc with hm | ⟨hv, hpm, hin, hini⟩
    · subst hm
      obtain ⟨a, b, c, d'⟩ := eraseVersions_valid hv0
      exact ⟨s, Or.inl rfl, a, b.trans hpm0, c.trans hin0, d'.trans hini0⟩
    · obtain ⟨a, b, c, d'⟩ := eraseVersions_valid hv
      exact ⟨t, Or.inr rfl, a, (b.trans hpm).trans hpm0, (c.trans hin).trans hin0, (d'.trans hini).trans hini0⟩

theorem flatMap_congr_mem {α β} (L : List α) (f g : α → List β) (h : ∀ x ∈ L, f x = g x) : L.flatMap f = L.flatMap g := by
  induction L with
  | nil => rfl
  | cons x xs ih =>
    simp only [List.flatMap_cons, h x (List.mem_cons_self ..), ih (fun y hy => h y (List.mem_cons_of_mem _ hy))]

theorem visitLeaf_steps (dv t nv : Nat) (l : Leaf) (hd : l.dflt = true) (hv : l.version.or (some dv) = some nv)
    (hr : l.refAttr = false) (hle : nv ≤ t) : visitLeaf (some dv) t l = (leafSteps (t - nv) nv l, none) := by
  unfold visitLeaf
  simp [hd, hv, hr, Nat.not_lt.mpr hle]

/-- Two calls on a node without subgraphs (written for `s`, no reference attribute, no adapter raising below `u`):
visiting with target `u` and then — with the declared opset now `u` — with target `t` leaves exactly the nodes one
visit with target `t` leaves. -/
theorem two_visits_leaf (s u t : Nat) (l : Leaf) (hd : l.dflt = true) (hv : l.eff s = s) (hr : l.refAttr = false)
    (h1 : s ≤ u) (h2 : u ≤ t) (hg : ∀ v', s ≤ v' → v' < u → adapt l.op v' ≠ .raised) :
    (visitLeaf (some s) u l).1.flatMap (fun l' => (visitLeaf (some u) t l').1) = (visitLeaf (some s) t l).1 ∧
    (visitLeaf (some s) u l).2 = none ∧ (visitLeaf (some s) t l).2 = none ∧
    ∀ l' ∈ (visitLeaf (some s) u l).1, (visitLeaf (some u) t l').2 = none := by
  have hver : l.version.or (some s) = some s := by
    unfold Leaf.eff at hv; cases hq : l.version with
    | none => rfl
    | some w => rw [hq] at hv; simp [hv]
  rw [visitLeaf_steps s u s l hd hver hr h1, visitLeaf_steps s t s l hd hver hr (by omega)]
  obtain ⟨hm, _⟩ := leafSteps_spec (fun _ _ => ()) (fun _ _ _ => rfl) (u - s) s l (fun v' a b => by
    unfold Good
    cases hA : adapt l.op v' with
    | raised => exact absurd hA (hg v' a (by omega))
    | noAdapter => trivial
    | retNone => rfl
    | replaced news => exact replaced_one_principal hA)
  have hstep : ∀ l' ∈ leafSteps (u - s) s l, visitLeaf (some u) t l' = (leafSteps (t - u) u l', none) := by
    intro l' hl'
    obtain ⟨a, b, c, d'⟩ := hm l' hl'
    by_cases hk : u - s = 0
    · have hus : u = s := by omega
      rw [a hk, hus]
      exact visitLeaf_steps s t s l hd hver hr (by omega)
    · have hvv : l'.version = some u := by rw [b (by omega)]; congr 1; omega
      exact visitLeaf_steps u t u l' (c hd) (by rw [hvv]; rfl) (d' hr) h2
  refine ⟨?_, rfl, rfl, fun l' hl' => by rw [hstep l' hl']⟩
  simp only []
  rw [flatMap_congr_mem _ _ (leafSteps (t - u) u) (fun l' hl' => by rw [hstep l' hl'])]
  have e1 : t - s = (u - s) + (t - u) := by omega
  have e2 : u = s + (u - s) := by omega
  rw [e1, leafSteps_compose_lemma (u - s) (t - u) s l, ← e2]

end OV.C10
