import OV.Lemmas.C18Builder
import Std.Data.String.ToNat
/-! Helper lemmas for C18: the *rendering* of automatic value names with the node count last
(`{op}_{count}` / `{op}_{i}_{count}`) is injective on keys that agree on (scope, op) whenever they agree on the
count — string-level uniqueness of automatic names. -/
namespace OV.C18

/-- a non-empty character list whose last character is not a digit. -/
def EndsNonDigit (p : List Char) : Prop := ∃ init ch, p = init ++ [ch] ∧ ch.isDigit = false

theorem eq_nil_or_snoc {α : Type} : ∀ l : List α, l = [] ∨ ∃ init x, l = init ++ [x]
  | [] => Or.inl rfl
  | a :: t => by
    rcases eq_nil_or_snoc t with rfl | ⟨init, x, rfl⟩
    · exact Or.inr ⟨[], a, rfl⟩
    · exact Or.inr ⟨a :: init, x, rfl⟩

theorem digit_suffix_aux (p1 p2 d1 d2 as : List Char) (hp : p2 = p1 ++ as) (hd : d1 = as ++ d2)
    (hd1 : ∀ c ∈ d1, c.isDigit = true) (e2 : EndsNonDigit p2) : as = [] := by
  rcases eq_nil_or_snoc as with h | ⟨init, x, rfl⟩
  · exact h
  · exfalso
    obtain ⟨i2, ch, h2, hch⟩ := e2
    have : i2 ++ [ch] = (p1 ++ init) ++ [x] := by rw [← h2, hp, List.append_assoc]
    have hx : ch = x := by
      have := (List.append_inj' this rfl).2
      simpa using this
    have hxd : x.isDigit = true := hd1 x (by rw [hd]; simp)
    rw [hx, hxd] at hch
    cases hch

/-- the maximal digit suffix of a string is unique. -/
theorem digit_suffix_unique (p1 p2 d1 d2 : List Char) (h : p1 ++ d1 = p2 ++ d2)
    (hd1 : ∀ c ∈ d1, c.isDigit = true) (hd2 : ∀ c ∈ d2, c.isDigit = true)
    (e1 : EndsNonDigit p1) (e2 : EndsNonDigit p2) : p1 = p2 ∧ d1 = d2 := by
  rcases List.append_eq_append_iff.mp h with ⟨as, hp, hd⟩ | ⟨bs, hp, hd⟩
  · have := digit_suffix_aux p1 p2 d1 d2 as hp hd hd1 e2
    subst this
    simp at hp hd
    exact ⟨hp.symm, hd⟩
  · have := digit_suffix_aux p2 p1 d2 d1 bs hp hd hd2 e1
    subst this
    simp at hp hd
    exact ⟨hp, hd.symm⟩

theorem digits_isDigit (n : Nat) : ∀ c ∈ Nat.toDigits 10 n, c.isDigit = true :=
  fun _ hc => Nat.isDigit_of_mem_toDigits (by decide) (by decide) hc

theorem toDigits_inj {a b : Nat} (h : Nat.toDigits 10 a = Nat.toDigits 10 b) : a = b := by
  apply Nat.repr_injective
  apply String.toList_inj.mp
  rw [Nat.toList_repr, Nat.toList_repr, h]

/-! ## decomposition of a rendered automatic name -/

theorem qualifyHead_ends (parts : List String) : EndsNonDigit (qualifyHead parts).toList := by
  unfold qualifyHead
  split
  · exact ⟨['v'], '_', by decide, by decide⟩
  · refine ⟨("v_" ++ joinWith "." parts).toList, '.', ?_, by decide⟩
    simp [String.toList_append]

theorem EndsNonDigit.append_left {p : List Char} (q : List Char) (h : EndsNonDigit p) : EndsNonDigit (q ++ p) := by
  obtain ⟨init, ch, rfl, hc⟩ := h
  exact ⟨q ++ init, ch, by simp, hc⟩

theorem opHead_ends (parts : List String) (op : String) :
    EndsNonDigit ((qualifyHead parts).toList ++ (opHead op).toList) := by
  unfold opHead
  split
  · simpa using qualifyHead_ends parts
  · refine ⟨(qualifyHead parts).toList ++ op.toList, '_', ?_, by decide⟩
    simp [String.toList_append]

/-- the part of a rendered automatic name before the digits of the count. -/
def preOf (parts : List String) (op : String) : Option Nat → List Char
  | none => (qualifyHead parts).toList ++ (opHead op).toList
  | some i => (qualifyHead parts).toList ++ (opHead op).toList ++ Nat.toDigits 10 i ++ ['_']

theorem renderNew_split (parts : List String) (op : String) (c : Nat) (idx : Option Nat) :
    (VKey.renderNew (.auto parts op c idx)).toList = preOf parts op idx ++ Nat.toDigits 10 c := by
  cases idx with
  | none => simp [VKey.renderNew, preOf, String.toList_append, toString, Nat.toList_repr]
  | some i =>
    simp [VKey.renderNew, preOf, String.toList_append, toString, Nat.toList_repr]

theorem preOf_ends (parts : List String) (op : String) (idx : Option Nat) : EndsNonDigit (preOf parts op idx) := by
  cases idx with
  | none => exact opHead_ends parts op
  | some i => exact ⟨(qualifyHead parts).toList ++ (opHead op).toList ++ Nat.toDigits 10 i, '_', rfl, by decide⟩

/-- equal renderings have equal counts; with equal (scope, op) also equal output indices. -/
theorem renderNew_inj {p p' : List String} {o o' : String} {c c' : Nat} {i i' : Option Nat}
    (h : VKey.renderNew (.auto p o c i) = VKey.renderNew (.auto p' o' c' i')) :
    c = c' ∧ (p = p' → o = o' → i = i') := by
  have hl := congrArg String.toList h
  rw [renderNew_split, renderNew_split] at hl
  obtain ⟨hpre, hd⟩ := digit_suffix_unique _ _ _ _ hl (digits_isDigit c) (digits_isDigit c')
    (preOf_ends p o i) (preOf_ends p' o' i')
  refine ⟨toDigits_inj hd, ?_⟩
  intro hp ho
  subst hp ho
  cases i with
  | none =>
    cases i' with
    | none => rfl
    | some j =>
      exfalso
      simp only [preOf] at hpre
      have := congrArg List.length hpre
      simp only [List.length_append, List.length_cons, List.length_nil] at this
      omega
  | some j =>
    cases i' with
    | none =>
      exfalso
      simp only [preOf] at hpre
      have := congrArg List.length hpre
      simp only [List.length_append, List.length_cons, List.length_nil] at this
      omega
    | some j' =>
      simp only [preOf, List.append_assoc] at hpre
      have h1 := List.append_cancel_left (List.append_cancel_left hpre)
      have h2 := (List.append_inj' h1 rfl).1
      rw [toDigits_inj h2]

/-! ## keys made with the same count come from one node -/

def SameNode (keys : List VKey) : Prop :=
  ∀ p o c i p' o' i', VKey.auto p o c i ∈ keys → VKey.auto p' o' c i' ∈ keys → p = p' ∧ o = o'

/-- `st'` adds keys to `st`; the automatic ones among them all belong to one node whose count is not below the
    current total. -/
def Fresh (st st' : St) : Prop :=
  ∃ rs P O C, st'.vkeys = st.vkeys ++ rs ∧ N st ≤ C ∧ ∀ k ∈ rs, isAutoKey k = true → ∃ i, k = VKey.auto P O C i

theorem SameNode.fresh {st st' : St} (h : SameNode st.vkeys) (hb : AutoBound st.vkeys (N st))
    (f : Fresh st st') : SameNode st'.vkeys := by
  obtain ⟨rs, P, O, C, e, hC, hrs⟩ := f
  intro p o c i p' o' i' h1 h2
  rw [e] at h1 h2
  rcases List.mem_append.mp h1 with a | a <;> rcases List.mem_append.mp h2 with b | b
  · exact h p o c i p' o' i' a b
  · obtain ⟨j, hj⟩ := hrs _ b rfl
    cases hj
    have := hb _ a p o C i rfl
    omega
  · obtain ⟨j, hj⟩ := hrs _ a rfl
    cases hj
    have := hb _ b p' o' C i' rfl
    omega
  · obtain ⟨j, hj⟩ := hrs _ a rfl
    obtain ⟨j', hj'⟩ := hrs _ b rfl
    cases hj; cases hj'
    exact ⟨rfl, rfl⟩

theorem Fresh.ofRaw {st st' : St} (rs : List VKey) (e : st'.vkeys = st.vkeys ++ rs)
    (hr : ∀ k ∈ rs, isAutoKey k = false) : Fresh st st' :=
  ⟨rs, [], "", N st, e, Nat.le_refl _, fun k hk ha => by rw [hr k hk] at ha; cases ha⟩

theorem RawExt.fresh {st st' : St} (h : RawExt st st') : Fresh st st' := by
  obtain ⟨⟨rs, e, hr⟩, _⟩ := h
  exact Fresh.ofRaw rs e hr

theorem KE.fresh {st st' : St} (h : KE st st') : Fresh st st' := by
  obtain ⟨⟨rs, e, hr⟩, _⟩ := h
  exact Fresh.ofRaw rs e hr

theorem outKeys_shape (f : Frame) (n : Nat) (op : String) (o : Outs) :
    ∀ k ∈ outKeys f n op o, isAutoKey k = true → ∃ i, k = VKey.auto (scopeParts f) op n i := by
  intro k hk ha
  cases o with
  | named ns =>
    simp only [outKeys, List.mem_map] at hk
    obtain ⟨s, _, rfl⟩ := hk
    cases ha
  | auto m =>
    simp only [outKeys] at hk
    split at hk
    · simp only [List.mem_singleton] at hk; exact ⟨none, hk⟩
    · simp only [List.mem_map] at hk
      obtain ⟨j, _, rfl⟩ := hk
      exact ⟨some j, rfl⟩

theorem fresh_doOp (st : St) (t : String) (a : List Arg) (o : Outs) (nn : Option String) (g : List Nat)
    (as : List (String × AVal)) : Fresh st (doOp true st t a o nn g as) := by
  obtain ⟨⟨r1, e1, p1⟩, n1⟩ := rawExt_resolveArgs a st
  have hv : (doOp true st t a o nn g as).vkeys = (resolveArgs st a).1.vkeys ++
      outKeys (resolveArgs st a).1.cur (N (resolveArgs st a).1) t o := by
    unfold doOp
    split
    rename_i st1 ins hr
    simp only [hr]
    simp only [addNode]
    exact (newValuesK_vkeys _ st1).1
  refine ⟨r1 ++ outKeys (resolveArgs st a).1.cur (N (resolveArgs st a).1) t o, scopeParts (resolveArgs st a).1.cur,
    t, N (resolveArgs st a).1, by rw [hv, e1, List.append_assoc], Nat.le_of_eq n1.symm, ?_⟩
  intro k hk ha
  rcases List.mem_append.mp hk with x | x
  · rw [p1 k x] at ha; cases ha
  · exact outKeys_shape _ _ _ _ k x ha

theorem fresh_doCall (fns : List Fn) (st : St) (fi : Nat) (a : List Arg) (o : Option Outs)
    (as : List (String × AVal)) : Fresh st (doCall true fns st fi a o as) := by
  unfold doCall
  split
  · exact (rawExt_fail st _).fresh
  · rename_i f _
    generalize hk : outKeys st.cur (nodeCount true st) f.name (o.getD (.auto f.outputs.length)) = keys
    obtain ⟨v1, _⟩ := newValuesK_vkeys keys st
    obtain ⟨⟨r2, e2, p2⟩, _⟩ := rawExt_resolveArgs a (newValuesK st keys).1
    refine ⟨keys ++ r2, scopeParts st.cur, f.name, N st, ?_, Nat.le_refl _, ?_⟩
    · simp only [addNode]
      rw [e2, v1, List.append_assoc]
    · intro k hk' ha
      rcases List.mem_append.mp hk' with x | x
      · rw [← hk] at x
        exact outKeys_shape _ _ _ _ k x ha
      · rw [p2 k x] at ha; cases ha

theorem fresh_same {st st' : St} (e : st'.vkeys = st.vkeys) : Fresh st st' :=
  Fresh.ofRaw [] (by simp [e]) (by simp)

theorem fresh_step (fns : List Fn) (st : St) (it : Item) : Fresh st (step true fns st it) := by
  cases it with
  | input n => exact Fresh.ofRaw [.raw n] rfl (by simp [isAutoKey])
  | op t a o nn g as => exact fresh_doOp st t a o nn g as
  | push n => exact fresh_same rfl
  | pop => exact (ke_popScope st).fresh
  | call f a o as => exact fresh_doCall fns st f a o as
  | inline f a o p as => exact (ke_doInline fns st f a o p as).fresh
  | beginSub g i =>
    obtain ⟨⟨rs, e, hr⟩, _⟩ := rawExt_newValues st i
    exact Fresh.ofRaw rs (by simpa [step, doBeginSub] using e) hr
  | endSub r d =>
    simp only [step, doEndSub]
    split
    · exact (rawExt_fail st _).fresh
    · split
      · exact (RawExt.trans (rawExt_abandon st) (rawExt_fail _ _)).fresh
      · generalize hfold : List.foldl _ st _ = st1
        have hf : st1.vkeys = st.vkeys := by
          rw [← hfold]
          refine (renameValue_fold_keys _ st _ ?_).1
          intro s x
          obtain ⟨id, dd⟩ := x
          by_cases hx : dd = "" <;> simp [hx, renameValue]
        exact fresh_same hf
  | abortSub => exact (rawExt_doAbortSub st).fresh
  | output hd n =>
    simp only [step, doOutput]
    split
    · exact (rawExt_fail st _).fresh
    · split
      · split
        · exact fresh_same rfl
        · exact fresh_same (by simp [renameValue])
      · exact fresh_same rfl

/-- the invariant behind string-level uniqueness. -/
theorem sameNode_foldl (fns : List Fn) : ∀ (tr : List Item) (st : St), Inv st → SameNode st.vkeys →
    SameNode (tr.foldl (step true fns) st).vkeys
  | [], _, _, h => h
  | it :: r, st, hi, h => by
    simp only [List.foldl_cons]
    exact sameNode_foldl fns r _ (Inv.step fns st it hi) (h.fresh hi.1 (fresh_step fns st it))

/-- different keys of one build render differently (count-last rendering). -/
theorem renderNew_nodup (keys : List VKey) (hn : (keys.filter isAutoKey).Nodup) (hs : SameNode keys) :
    ((keys.filter isAutoKey).map VKey.renderNew).Nodup := by
  have hsub : ∀ k ∈ keys.filter isAutoKey, k ∈ keys ∧ isAutoKey k = true := fun k hk => List.mem_filter.mp hk
  generalize keys.filter isAutoKey = l at hn hsub
  induction l with
  | nil => simp
  | cons k r ih =>
    simp only [List.nodup_cons, List.map_cons] at hn ⊢
    refine ⟨?_, ih hn.2 (fun x hx => hsub x (by simp [hx]))⟩
    intro hmem
    simp only [List.mem_map] at hmem
    obtain ⟨k', hk', heq⟩ := hmem
    obtain ⟨m1, a1⟩ := hsub k (by simp)
    obtain ⟨m2, a2⟩ := hsub k' (by simp [hk'])
    cases k with
    | raw s => cases a1
    | auto p o c i =>
      cases k' with
      | raw s => cases a2
      | auto p' o' c' i' =>
        obtain ⟨hc, hi⟩ := renderNew_inj heq.symm
        subst hc
        obtain ⟨hp, ho⟩ := hs p o c i p' o' i' m1 m2
        subst hp ho
        rw [hi rfl rfl] at hn
        exact hn.1 hk'

end OV.C18
