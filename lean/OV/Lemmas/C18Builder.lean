import OV.Model.C18Builder
import Mathlib.Data.List.Nodup
import Mathlib.Data.List.Range
/-! Helper lemmas for C18 (builder naming): the per-graph node counter bounds every automatic name. -/
namespace OV.C18

def isAutoKey : VKey → Bool
  | .auto _ _ _ _ => true
  | .raw _ => false

/-- every automatic key was made with a count below the current graph's node count. -/
def AutoBound (keys : List VKey) (n : Nat) : Prop :=
  ∀ k ∈ keys, ∀ p o c i, k = VKey.auto p o c i → c < n

/-- `_node_count()`: nodes of all graphs of the builder tree. -/
abbrev N (st : St) : Nat := nodeCount true st

/-- the invariant of a build: every automatic name was made with a count below the current total. -/
def Inv (st : St) : Prop :=
  AutoBound st.vkeys (N st) ∧ (st.vkeys.filter isAutoKey).Nodup

/-- `st'` extends `st` by raw keys only and leaves the current graph's nodes alone. -/
def RawExt (st st' : St) : Prop :=
  (∃ rs : List VKey, st'.vkeys = st.vkeys ++ rs ∧ ∀ k ∈ rs, isAutoKey k = false) ∧
  N st' = N st

theorem RawExt.refl (st : St) : RawExt st st := ⟨⟨[], by simp, by simp⟩, rfl⟩

theorem RawExt.trans {a b c : St} (h1 : RawExt a b) (h2 : RawExt b c) : RawExt a c := by
  obtain ⟨⟨r1, e1, p1⟩, n1⟩ := h1
  obtain ⟨⟨r2, e2, p2⟩, n2⟩ := h2
  refine ⟨⟨r1 ++ r2, by rw [e2, e1, List.append_assoc], ?_⟩, by rw [n2, n1]⟩
  intro k hk
  rcases List.mem_append.mp hk with h | h
  · exact p1 k h
  · exact p2 k h

theorem Inv.rawExt {st st' : St} (h : Inv st) (e : RawExt st st') : Inv st' := by
  obtain ⟨⟨rs, ek, pr⟩, en⟩ := e
  have hf : rs.filter isAutoKey = [] := by
    apply List.filter_eq_nil_iff.mpr
    intro k hk
    simp [pr k hk]
  refine ⟨?_, ?_⟩
  · intro k hk p o c i hkey
    rw [ek] at hk
    rw [en]
    rcases List.mem_append.mp hk with hk | hk
    · exact h.1 k hk p o c i hkey
    · have := pr k hk
      rw [hkey] at this
      simp [isAutoKey] at this
  · rw [ek, List.filter_append, hf, List.append_nil]
    exact h.2

theorem N_def (st : St) : N st = st.cur.nodes.length + sumNodes st.stack + sumNodes st.done := by
  simp [N, nodeCount]

theorem rawExt_newValue (st : St) (n : String) : RawExt st (newValue st n).1 :=
  ⟨⟨[.raw n], rfl, by simp [isAutoKey]⟩, rfl⟩

theorem rawExt_promote (st : St) (l : Lit) : RawExt st (promote st l).1 := by
  unfold promote
  split
  · exact RawExt.refl st
  · exact ⟨⟨[.raw (constName l st.cache.length)], rfl, by simp [isAutoKey]⟩, rfl⟩

theorem rawExt_resolveArgs : ∀ (args : List Arg) (st : St), RawExt st (resolveArgs st args).1
  | [], st => RawExt.refl st
  | .ref h :: r, st => by simp only [resolveArgs]; exact rawExt_resolveArgs r st
  | .none :: r, st => by simp only [resolveArgs]; exact rawExt_resolveArgs r st
  | .lit l :: r, st => by
    simp only [resolveArgs]
    exact RawExt.trans (rawExt_promote st l) (rawExt_resolveArgs r (promote st l).1)

theorem newValuesK_vkeys : ∀ (ks : List VKey) (st : St),
    (newValuesK st ks).1.vkeys = st.vkeys ++ ks ∧ N (newValuesK st ks).1 = N st
  | [], st => by simp [newValuesK]
  | k :: r, st => by
    simp only [newValuesK]
    have := newValuesK_vkeys r (newValueK st k).1
    simp only [newValueK] at this ⊢
    constructor
    · rw [this.1]; simp
    · rw [this.2]; rfl

theorem rawExt_newValues (st : St) (ns : List String) : RawExt st (newValues st ns).1 := by
  unfold newValues
  obtain ⟨hk, hn⟩ := newValuesK_vkeys (ns.map VKey.raw) st
  refine ⟨⟨ns.map VKey.raw, hk, ?_⟩, hn⟩
  intro k hk
  simp only [List.mem_map] at hk
  obtain ⟨s, _, rfl⟩ := hk
  rfl

/-- the keys `_adapt_outputs` makes: raw, or automatic with the given count and pairwise distinct. -/
theorem outKeys_spec (f : Frame) (n : Nat) (op : String) (o : Outs) :
    (∀ k ∈ outKeys f n op o, ∀ p t c i, k = VKey.auto p t c i → c = n) ∧
    ((outKeys f n op o).filter isAutoKey).Nodup := by
  cases o with
  | named ns =>
    simp only [outKeys]
    constructor
    · intro k hk p t c i h
      simp only [List.mem_map] at hk
      obtain ⟨s, _, rfl⟩ := hk
      cases h
    · have : (ns.map (fun s => VKey.raw (qualifyValue f s))).filter isAutoKey = [] := by
        apply List.filter_eq_nil_iff.mpr
        intro k hk
        simp only [List.mem_map] at hk
        obtain ⟨s, _, rfl⟩ := hk
        simp [isAutoKey]
      rw [this]
      exact List.nodup_nil
  | auto m =>
    simp only [outKeys]
    split
    · constructor
      · intro k hk p t c i h
        simp only [List.mem_singleton] at hk
        subst hk
        cases h
        rfl
      · rw [List.filter_cons_of_pos (by rfl)]
        simp
    · constructor
      · intro k hk p t c i h
        simp only [List.mem_map, List.mem_range] at hk
        obtain ⟨j, _, rfl⟩ := hk
        cases h
        rfl
      · have : ((List.range m).map (fun i => VKey.auto (scopeParts f) op n (some i))).filter isAutoKey
            = (List.range m).map (fun i => VKey.auto (scopeParts f) op n (some i)) := by
          apply List.filter_eq_self.mpr
          intro k hk
          simp only [List.mem_map] at hk
          obtain ⟨j, _, rfl⟩ := hk
          rfl
        rw [this]
        refine List.Nodup.map_on ?_ List.nodup_range
        intro a _ b _ h
        cases h
        rfl

def Inv' (st : St) (n : Nat) : Prop :=
  AutoBound st.vkeys n ∧ (st.vkeys.filter isAutoKey).Nodup

theorem Inv'.rawExt {st st' : St} {n : Nat} (h : Inv' st n) (e : RawExt st st') : Inv' st' n := by
  obtain ⟨⟨rs, ek, pr⟩, _⟩ := e
  have hf : rs.filter isAutoKey = [] := by
    apply List.filter_eq_nil_iff.mpr
    intro k hk
    simp [pr k hk]
  refine ⟨?_, ?_⟩
  · intro k hk p o c i hkey
    rw [ek] at hk
    rcases List.mem_append.mp hk with hk | hk
    · exact h.1 k hk p o c i hkey
    · have := pr k hk
      rw [hkey] at this
      simp [isAutoKey] at this
  · rw [ek, List.filter_append, hf, List.append_nil]
    exact h.2

/-- new outputs named with the current total count. -/
theorem Inv'.newOutputs (st : St) (f : Frame) (op : String) (o : Outs) (h : Inv st) :
    Inv' (newValuesK st (outKeys f (N st) op o)).1 (N st + 1) := by
  obtain ⟨hk, _⟩ := newValuesK_vkeys (outKeys f (N st) op o) st
  obtain ⟨hcount, hnd⟩ := outKeys_spec f (N st) op o
  refine ⟨?_, ?_⟩
  · intro k hmem p t c i hkey
    rw [hk] at hmem
    rcases List.mem_append.mp hmem with hm | hm
    · exact Nat.lt_succ_of_lt (h.1 k hm p t c i hkey)
    · rw [hcount k hm p t c i hkey]; exact Nat.lt_succ_self _
  · rw [hk, List.filter_append]
    refine List.Nodup.append h.2 hnd ?_
    intro k hk1 hk2
    simp only [List.mem_filter] at hk1 hk2
    cases k with
    | raw s => simp [isAutoKey] at hk1
    | auto p t c i =>
      have h1 := h.1 _ hk1.1 p t c i rfl
      have h2 := hcount _ hk2.1 p t c i rfl
      omega

theorem N_addNode (st : St) (node : Node) : N (addNode st node) = N st + 1 := by
  simp [N, nodeCount, addNode]
  omega

theorem Inv.ofAddNode (st : St) (node : Node) (h : Inv' st (N st + 1)) :
    Inv (addNode st node) := by
  refine ⟨?_, ?_⟩
  · intro k hk p o c i hkey
    rw [N_addNode]
    exact h.1 k (by simpa [addNode] using hk) p o c i hkey
  · simpa [addNode] using h.2

theorem rawExt_fail (st : St) (e : String) : RawExt st (fail st e) := by
  unfold fail
  split
  · exact ⟨⟨[], by simp, by simp⟩, rfl⟩
  · exact ⟨⟨[], by simp, by simp⟩, rfl⟩

theorem Inv.congr {a b : St} (hk : b.vkeys = a.vkeys) (hc : b.cur = a.cur) (hs : b.stack = a.stack)
    (hd : b.done = a.done) (h : Inv a) : Inv b := by
  unfold Inv N nodeCount at *
  rw [hk, hc, hs, hd]
  exact h

/-- plain items (no `call_inline`): used by the refutation of the *rendered* statement. -/
def simpleItem : Item → Bool
  | .inline _ _ _ _ _ => false
  | _ => true

theorem Inv.doOp (st : St) (t : String) (a : List Arg) (o : Outs) (nn : Option String) (g : List Nat)
    (as : List (String × AVal)) (h : Inv st) : Inv (doOp true st t a o nn g as) := by
  unfold OV.C18.doOp
  have he := rawExt_resolveArgs a st
  split
  rename_i st1 ins hr
  rw [hr] at he
  have h1 : Inv st1 := Inv.rawExt h he
  simp only []
  have h2 := Inv'.newOutputs st1 st1.cur t o h1
  have hn := (newValuesK_vkeys (outKeys st1.cur (N st1) t o) st1).2
  have h2 : Inv' (newValuesK st1 (outKeys st1.cur (N st1) t o)).fst
      (N (newValuesK st1 (outKeys st1.cur (N st1) t o)).fst + 1) := by rw [hn]; exact h2
  exact Inv.congr (a := addNode (newValuesK st1 (outKeys st1.cur (N st1) t o)).fst
    ⟨nn.getD (autoNodeName st1.cur (N st1) t), "", t, ins,
     (newValuesK st1 (outKeys st1.cur (N st1) t o)).snd, g, "", as⟩) rfl rfl rfl rfl (Inv.ofAddNode _ _ h2)

theorem Inv.doCall (fns : List Fn) (st : St) (fi : Nat) (a : List Arg) (o : Option Outs)
    (as : List (String × AVal)) (h : Inv st) : Inv (doCall true fns st fi a o as) := by
  unfold OV.C18.doCall
  split
  · exact Inv.rawExt h (rawExt_fail st _)
  · rename_i f _
    have h1 := Inv'.newOutputs st st.cur f.name (o.getD (.auto f.outputs.length)) h
    have hc1 := (newValuesK_vkeys (outKeys st.cur (N st) f.name (o.getD (.auto f.outputs.length))) st).2
    have he := rawExt_resolveArgs a (newValuesK st (outKeys st.cur (N st) f.name (o.getD (.auto f.outputs.length)))).1
    have h2 : Inv' (resolveArgs (newValuesK st (outKeys st.cur (N st) f.name (o.getD (.auto f.outputs.length)))).1 a).1
        (N (resolveArgs (newValuesK st (outKeys st.cur (N st) f.name (o.getD (.auto f.outputs.length)))).1 a).1 + 1) := by
      rw [he.2, hc1]
      exact Inv'.rawExt h1 he
    exact Inv.congr rfl rfl rfl rfl (Inv.ofAddNode _ _ h2)

theorem sumNodes_append (a b : List Frame) : sumNodes (a ++ b) = sumNodes a + sumNodes b := by
  simp [sumNodes]

theorem renameValue_fold_keys {α : Type} (l : List α) (st : St) (g : St → α → St)
    (hg : ∀ s x, (g s x).vkeys = s.vkeys ∧ (g s x).cur = s.cur ∧ (g s x).stack = s.stack ∧ (g s x).done = s.done) :
    (l.foldl g st).vkeys = st.vkeys ∧ (l.foldl g st).cur = st.cur ∧ (l.foldl g st).stack = st.stack
      ∧ (l.foldl g st).done = st.done := by
  induction l generalizing st with
  | nil => simp
  | cons x r ih =>
    simp only [List.foldl_cons]
    obtain ⟨a, b, c, d⟩ := ih (g st x)
    obtain ⟨a', b', c', d'⟩ := hg st x
    exact ⟨a.trans a', b.trans b', c.trans c', d.trans d'⟩

theorem newValuesK_frames : ∀ (ks : List VKey) (st : St),
    (newValuesK st ks).1.cur = st.cur ∧ (newValuesK st ks).1.stack = st.stack ∧ (newValuesK st ks).1.done = st.done
  | [], st => by simp [newValuesK]
  | k :: r, st => by
    simp only [newValuesK]
    have := newValuesK_frames r (newValueK st k).1
    simp only [newValueK] at this ⊢
    exact this

theorem Inv.doBeginSub (st : St) (g : String) (ins : List String) (h : Inv st) :
    Inv (doBeginSub st g ins) := by
  unfold OV.C18.doBeginSub
  have he := rawExt_newValues st ins
  have h1 : Inv (newValues st ins).1 := Inv.rawExt h he
  have hn : N (newValues st ins).1 = N st := he.2
  have hf := newValuesK_frames (ins.map VKey.raw) st
  refine ⟨?_, h1.2⟩
  intro k hk p o c i hkey
  have := h1.1 k hk p o c i hkey
  rw [hn, N_def] at this
  have hd : (newValues st ins).1.done = st.done := hf.2.2
  simp only [N, nodeCount, sumNodes, if_true, List.length_nil, List.map_cons, List.sum_cons, hd]
  simp only [sumNodes] at this
  omega

/-- dropping the sub-builder moves its graph to the finished ones: no key, no node is lost. -/
theorem rawExt_abandon (st : St) : RawExt st (abandon st) := by
  unfold abandon
  split
  · exact RawExt.refl st
  · rename_i parent rest hs
    refine ⟨⟨[], by simp, by simp⟩, ?_⟩
    rw [N_def, N_def, hs]
    simp only [sumNodes_append]
    simp only [sumNodes, List.map_cons, List.sum_cons, List.map_nil, List.sum_nil]
    omega

theorem rawExt_doAbortSub (st : St) : RawExt st (doAbortSub st) := by
  unfold doAbortSub
  split
  · exact rawExt_fail st _
  · exact rawExt_abandon st

theorem Inv.doEndSub (st : St) (rets : List Nat) (declared : List String) (h : Inv st) :
    Inv (doEndSub st rets declared) := by
  unfold OV.C18.doEndSub
  split
  · exact Inv.rawExt h (rawExt_fail st _)
  · rename_i parent rest hs
    split
    · exact Inv.rawExt h (RawExt.trans (rawExt_abandon st) (rawExt_fail _ _))
    · simp only []
      generalize hfold : List.foldl _ st _ = st1
      have hf : st1.vkeys = st.vkeys ∧ st1.cur = st.cur ∧ st1.stack = st.stack ∧ st1.done = st.done := by
        rw [← hfold]
        apply renameValue_fold_keys
        intro s x
        obtain ⟨id, d⟩ := x
        by_cases hx : d = "" <;> simp [hx, renameValue]
      obtain ⟨hk, hc, hst, hd⟩ := hf
      refine ⟨?_, ?_⟩
      · intro k hmem p o c i hkey
        have hb := h.1 k (by simpa [hk] using hmem) p o c i hkey
        rw [N_def, hs] at hb
        simp only [N, nodeCount, if_true, hd, hc, sumNodes_append]
        simp only [sumNodes, List.map_cons, List.sum_cons, List.map_nil, List.sum_nil] at hb ⊢
        omega
      · simpa [hk] using h.2

/-! ### `call_inline`: only raw keys are created, the node count only grows -/

def KE (st st' : St) : Prop :=
  (∃ rs : List VKey, st'.vkeys = st.vkeys ++ rs ∧ ∀ k ∈ rs, isAutoKey k = false) ∧ N st ≤ N st'

theorem KE.refl (st : St) : KE st st := ⟨⟨[], by simp, by simp⟩, Nat.le_refl _⟩

theorem KE.trans {a b c : St} (h1 : KE a b) (h2 : KE b c) : KE a c := by
  obtain ⟨⟨r1, e1, p1⟩, n1⟩ := h1
  obtain ⟨⟨r2, e2, p2⟩, n2⟩ := h2
  refine ⟨⟨r1 ++ r2, by rw [e2, e1, List.append_assoc], ?_⟩, Nat.le_trans n1 n2⟩
  intro k hk
  rcases List.mem_append.mp hk with h | h
  · exact p1 k h
  · exact p2 k h

theorem RawExt.ke {a b : St} (h : RawExt a b) : KE a b := ⟨h.1, Nat.le_of_eq h.2.symm⟩

theorem KE.same {a b : St} (hk : b.vkeys = a.vkeys) (hc : b.cur.nodes.length = a.cur.nodes.length)
    (hs : b.stack = a.stack) (hd : b.done = a.done) : KE a b :=
  ⟨⟨[], by simp [hk], by simp⟩, by simp [N, nodeCount, hc, hs, hd]⟩

theorem Inv.ke {st st' : St} (h : Inv st) (e : KE st st') : Inv st' := by
  obtain ⟨⟨rs, ek, pr⟩, en⟩ := e
  have hf : rs.filter isAutoKey = [] := by
    apply List.filter_eq_nil_iff.mpr
    intro k hk
    simp [pr k hk]
  refine ⟨?_, ?_⟩
  · intro k hk p o c i hkey
    rw [ek] at hk
    rcases List.mem_append.mp hk with hk | hk
    · exact Nat.lt_of_lt_of_le (h.1 k hk p o c i hkey) en
    · have := pr k hk
      rw [hkey] at this
      simp [isAutoKey] at this
  · rw [ek, List.filter_append, hf, List.append_nil]
    exact h.2

theorem ke_cloneNodes (np : String) : ∀ (nodes : List FNode) (st : St) (m : VMap),
    KE st (cloneNodes st m np nodes).1
  | [], st, _ => KE.refl st
  | n :: r, st, m => by
    simp only [cloneNodes]
    refine KE.trans ?_ (ke_cloneNodes np r _ _)
    simp only [cloneNode]
    exact (rawExt_newValues st _).ke

theorem ke_fold {β : Type} (l : List β) (g : St → β → St)
    (hg : ∀ s x, (g s x).vkeys = s.vkeys ∧ (g s x).cur = s.cur ∧ (g s x).stack = s.stack ∧ (g s x).done = s.done)
    (st : St) : KE st (l.foldl g st) := by
  obtain ⟨a, b, c, d⟩ := renameValue_fold_keys l st g hg
  exact KE.same a (by rw [b]) c d

theorem ke_addInlined (finals : List Nat) : ∀ (nodes : List Node) (st : St), KE st (addInlined st finals nodes)
  | [], st => KE.refl st
  | n :: r, st => by
    simp only [addInlined]
    have h1 := ke_fold n.outs
      (fun s o => if nameOf s o ≠ "" ∧ o ∉ finals then renameValue s o (qualifyValue s.cur) else s)
      (by intro s o; split <;> simp [renameValue]) st
    have h2 : ∀ s : St, KE s (addNode s n) := fun s =>
      ⟨⟨[], by simp [addNode], by simp⟩, by rw [N_addNode]; omega⟩
    exact KE.trans (KE.trans h1 (h2 _)) (ke_addInlined finals r _)

theorem ke_renameFinals (guard : Nat → Bool) (st : St) (outs : List (Option Nat)) (d : Option (List String)) :
    KE st (renameFinals guard st outs d) := by
  cases d with
  | some desired =>
    simp only [renameFinals]
    apply ke_fold
    intro s x
    cases x.1 with
    | none => simp
    | some id => simp only []; split <;> simp [renameValue]
  | none =>
    simp only [renameFinals]
    apply ke_fold
    intro s o
    cases o with
    | none => simp
    | some id => simp only []; split <;> simp [renameValue]

theorem ke_popScope (st : St) : KE st (popScope st) := by
  unfold popScope
  split
  · exact (rawExt_fail st _).ke
  · exact KE.same rfl rfl rfl rfl

theorem ke_inlineRun (total : Bool) (st0 : St) (f : Fn) (actuals : List (Option Nat))
    (desired : Option (List String)) : KE st0 (inlineRun total st0 f actuals desired).1 := by
  unfold inlineRun inlineClones
  simp only []
  exact KE.trans (ke_cloneNodes _ f.nodes st0 _) (KE.trans (ke_addInlined _ _ _) (ke_renameFinals _ _ _ _))

theorem KE.congr {x a b : St} (hk : b.vkeys = a.vkeys) (hc : b.cur = a.cur) (hs : b.stack = a.stack)
    (hd : b.done = a.done) (h : KE x a) : KE x b := by
  unfold KE N nodeCount at *
  rw [hk, hc, hs, hd]
  exact h

theorem ke_ite_pop (c : Prop) [Decidable c] (s : St) : KE s (if c then s else popScope s) := by
  split
  · exact KE.refl s
  · exact ke_popScope s

theorem ke_doInline (fns : List Fn) (st : St) (fi : Nat) (a : List Arg) (o : Option (List String))
    (p : String) (as : List (String × AVal)) : KE st (doInline true fns st fi a o p as) := by
  unfold OV.C18.doInline OV.C18.doInlineWith
  split
  · exact (rawExt_fail st _).ke
  · rename_i f _
    split
    · exact (rawExt_fail st _).ke
    · split
      · exact (rawExt_fail st _).ke
      · simp only []
        have k0 : KE st (if p = "" then st else pushScope st p) := by
          split
          · exact KE.refl st
          · exact KE.same rfl rfl rfl rfl
        have kr : KE (if p = "" then st else pushScope st p) (resolveArgs (if p = "" then st else pushScope st p) a).1 :=
          (rawExt_resolveArgs a _).ke
        have k2 : ∀ s : St, KE s (if p = "" then s else popScope s) := by
          intro s
          split
          · exact KE.refl s
          · exact ke_popScope s
        split
        · exact KE.trans (KE.trans k0 (KE.trans kr (ke_ite_pop _ _))) (rawExt_fail _ _).ke
        · have k1 := KE.trans kr (ke_inlineRun true (resolveArgs (if p = "" then st else pushScope st p) a).1
            (resolveFn (effectiveAttrs true f as) f)
            (resolveArgs (if p = "" then st else pushScope st p) a).2
            (o.map (fun o => o.map (qualifyValue st.cur))))
          exact KE.congr rfl rfl rfl rfl (KE.trans k0 (KE.trans k1 (k2 _)))

theorem Inv.doInline (fns : List Fn) (st : St) (fi : Nat) (a : List Arg) (o : Option (List String))
    (p : String) (as : List (String × AVal)) (h : Inv st) : Inv (doInline true fns st fi a o p as) :=
  h.ke (ke_doInline fns st fi a o p as)

theorem Inv.step (fns : List Fn) (st : St) (it : Item) (h : Inv st) :
    Inv (OV.C18.step true fns st it) := by
  cases it with
  | input n => exact Inv.rawExt h ⟨⟨[.raw n], rfl, by simp [isAutoKey]⟩, rfl⟩
  | op t a o nn g as => exact Inv.doOp st t a o nn g as h
  | push n => exact Inv.rawExt h ⟨⟨[], by simp [OV.C18.step, pushScope], by simp⟩, rfl⟩
  | pop =>
    simp only [OV.C18.step, popScope]
    split
    · exact Inv.rawExt h (rawExt_fail st _)
    · exact Inv.rawExt h ⟨⟨[], by simp, by simp⟩, rfl⟩
  | call f a o as => exact Inv.doCall fns st f a o as h
  | inline f a o p as => exact Inv.doInline fns st f a o p as h
  | beginSub g i => exact Inv.doBeginSub st g i h
  | endSub r d => exact Inv.doEndSub st r d h
  | abortSub => exact Inv.rawExt h (rawExt_doAbortSub st)
  | output hd n =>
    simp only [OV.C18.step, doOutput]
    split
    · exact Inv.rawExt h (rawExt_fail st _)
    · split
      · split
        · exact Inv.rawExt h ⟨⟨[], by simp, by simp⟩, rfl⟩
        · exact Inv.rawExt h ⟨⟨[], by simp [renameValue], by simp⟩, rfl⟩
      · exact Inv.rawExt h ⟨⟨[], by simp, by simp⟩, rfl⟩

theorem Inv.init : Inv St.init := by
  refine ⟨?_, ?_⟩
  · intro k hk; simp [St.init] at hk
  · simp [St.init]

theorem Inv.foldl (fns : List Fn) : ∀ (tr : List Item) (st : St),
    Inv st → Inv (tr.foldl (OV.C18.step true fns) st)
  | [], st, h => h
  | it :: r, st, h => by
    simp only [List.foldl_cons]
    exact Inv.foldl fns r _ (Inv.step fns st it h)

end OV.C18
