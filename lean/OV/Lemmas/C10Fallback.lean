import OV.Model.C10Fallback
/-! Helper lemmas for the fallback-route theorems (core Lean only). -/
namespace OV.C10.Fallback

/-- distinct initializers have distinct names (it is a dict) -/
def NameInj (l : List Init) : Prop := ∀ i j, i ∈ l → j ∈ l → i.name = j.name → i = j

def Sub (d orig : List Init) : Prop := ∀ x, x ∈ d → x ∈ orig

theorem mem_names {l : List Init} {n : String} : n ∈ names l ↔ ∃ i ∈ l, i.name = n := by
  simp [names, List.mem_map]

theorem register_eq {d orig : List Init} {i : Init} (hs : Sub d orig) (hinj : NameInj orig) (hi : i ∈ orig) :
    register d i = if (names d).contains i.name then d else d ++ [i] := by
  unfold register
  split
  · rename_i hc
    have : d.map (fun j => if j.name = i.name then i else j) = d := by
      conv => rhs; rw [← List.map_id d]
      apply List.map_congr_left
      intro j hj
      by_cases h : j.name = i.name
      · simp [hinj j i (hs j hj) hi h]
      · simp [h]
    rw [this]
  · rfl

theorem register_sub {d orig : List Init} {i : Init} (hs : Sub d orig) (hinj : NameInj orig) (hi : i ∈ orig) :
    Sub (register d i) orig := by
  rw [register_eq hs hinj hi]
  split
  · exact hs
  · intro x hx
    rcases List.mem_append.mp hx with h | h
    · exact hs x h
    · rw [List.mem_singleton.mp h]; exact hi

theorem register_mem {d orig : List Init} {i : Init} (hs : Sub d orig) (hinj : NameInj orig) (hi : i ∈ orig) :
    i ∈ register d i := by
  rw [register_eq hs hinj hi]
  split
  · rename_i hc
    have hc' : i.name ∈ names d := by simpa using hc
    obtain ⟨j, hj, hn⟩ := mem_names.mp hc'
    rw [← hinj j i (hs j hj) hi hn]; exact hj
  · simp

theorem register_mono {d orig : List Init} {i : Init} (hs : Sub d orig) (hinj : NameInj orig) (hi : i ∈ orig) :
    ∀ x, x ∈ d → x ∈ register d i := by
  intro x hx
  rw [register_eq hs hinj hi]
  split
  · exact hx
  · exact List.mem_append_left _ hx

/-- Folding `register` over a list of names looked up in `orig`. -/
def regNames (orig : List Init) (d : List Init) (ns : List String) : List Init :=
  ns.foldl (fun d n => match orig.find? (fun i => i.name = n) with
    | some i => register d i
    | none => d) d

theorem find_name {orig : List Init} {n : String} {i : Init} (h : orig.find? (fun i => i.name = n) = some i) :
    i ∈ orig ∧ i.name = n := by
  refine ⟨List.mem_of_find?_eq_some h, ?_⟩
  have := List.find?_some h
  simpa using this

theorem find_of_mem {orig : List Init} (hinj : NameInj orig) {i : Init} (hi : i ∈ orig) :
    orig.find? (fun j => j.name = i.name) = some i := by
  cases h : orig.find? (fun j => j.name = i.name) with
  | none =>
    have := List.find?_eq_none.mp h i hi
    simp at this
  | some j =>
    obtain ⟨hj, hn⟩ := find_name h
    rw [hinj j i hj hi hn]

theorem regNames_spec (orig : List Init) (hinj : NameInj orig) :
    ∀ (ns : List String) (d : List Init), Sub d orig →
      Sub (regNames orig d ns) orig ∧ (∀ x, x ∈ d → x ∈ regNames orig d ns) ∧
      (∀ i, i ∈ orig → i.name ∈ ns → i ∈ regNames orig d ns) := by
  intro ns
  induction ns with
  | nil => intro d hs; exact ⟨hs, fun x hx => hx, fun i _ h => by simp at h⟩
  | cons n ns ih =>
    intro d hs
    unfold regNames
    simp only [List.foldl_cons]
    cases hf : orig.find? (fun i => i.name = n) with
    | none =>
      obtain ⟨a, b, c⟩ := ih d hs
      refine ⟨a, b, fun i hi hn => ?_⟩
      rcases List.mem_cons.mp hn with h | h
      · rw [← h, find_of_mem hinj hi] at hf; cases hf
      · exact c i hi h
    | some j =>
      obtain ⟨hj, hjn⟩ := find_name hf
      obtain ⟨a, b, c⟩ := ih (register d j) (register_sub hs hinj hj)
      refine ⟨a, fun x hx => b x (register_mono hs hinj hj x hx), fun i hi hn => ?_⟩
      rcases List.mem_cons.mp hn with h | h
      · have : j = i := hinj j i hj hi (by rw [hjn, h])
        rw [← this]; exact b j (register_mem hs hinj hj)
      · exact c i hi h

theorem registerAll_spec (orig : List Init) (hinj : NameInj orig) :
    ∀ (l : List Init) (d : List Init), Sub d orig → Sub l orig →
      Sub (registerAll d l) orig ∧ (∀ i, i ∈ l → i ∈ registerAll d l) ∧ (∀ x, x ∈ d → x ∈ registerAll d l) := by
  intro l
  induction l with
  | nil => intro d hs _; exact ⟨hs, fun i h => by simp at h, fun x hx => hx⟩
  | cons i l ih =>
    intro d hs hl
    have hi : i ∈ orig := hl i (List.mem_cons_self ..)
    unfold registerAll
    simp only [List.foldl_cons]
    obtain ⟨a, b, c⟩ := ih (register d i) (register_sub hs hinj hi) (fun x hx => hl x (List.mem_cons_of_mem _ hx))
    refine ⟨a, fun x hx => ?_, fun x hx => c x (register_mono hs hinj hi x hx)⟩
    rcases List.mem_cons.mp hx with h | h
    · rw [h]; exact c i (register_mem hs hinj hi)
    · exact b x h

theorem name_in_prepared_inputs (g : G) {i : Init} (hi : i ∈ g.inits) : i.name ∈ (prepare g).inputs := by
  unfold prepare
  simp only [List.mem_append, List.mem_filter]
  by_cases h : i.name ∈ g.inputs
  · exact Or.inl h
  · refine Or.inr ⟨mem_names.mpr ⟨i, hi, rfl⟩, ?_⟩
    simpa using h

end OV.C10.Fallback
