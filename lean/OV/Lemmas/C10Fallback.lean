import OV.Model.C10Fallback
/-! Helper lemmas for the fallback-route theorems (core Lean only). -/
namespace OV.C10.Fallback

/-- distinct initializers have distinct names (it is a dict) -/
def NameInj (l : List Init) : Prop := ∀ i j, i ∈ l → j ∈ l → i.name = j.name → i = j

def Sub (d orig : List Init) : Prop := ∀ x, x ∈ d → x ∈ orig

theorem mem_names {l : List Init} {n : String} : n ∈ names l ↔ ∃ i ∈ l, i.name = n := by
  simp [names, List.mem_map]

theorem register_eq {d orig : List Init} {i : Init} (hs : Sub d orig) (hinj : NameInj orig) (hi : i ∈ orig) :
    register d i = if (names d).contains i.name then d else d ++ [i] := by
  unfold register
  split
  · rename_i hc
    have : d.map (fun j => if j.name = i.name then i else j) = d := by
      conv => rhs; rw [← List.map_id d]
      apply List.map_congr_left
      intro j hj
      by_cases h : j.name = i.name
      · simp [hinj j i (hs j hj) hi h]
      · simp [h]
    rw [this]
  · rfl

theorem register_sub {d orig : List Init} {i : Init} (hs : Sub d orig) (hinj : NameInj orig) (hi : i ∈ orig) :
    Sub (register d i) orig := by
  rw [register_eq hs hinj hi]
  split
  · exact hs
  · intro x hx
    rcases List.mem_append.mp hx with h | h
    · exact hs x h
    · rw [List.mem_singleton.mp h]; exact hi

theorem register_mem {d orig : List Init} {i : Init} (hs : Sub d orig) (hinj : NameInj orig) (hi : i ∈ orig) :
    i ∈ register d i := by
  rw [register_eq hs hinj hi]
  split
  · rename_i hc
    have hc' : i.name ∈ names d := by simpa using hc
    obtain ⟨j, hj, hn⟩ := mem_names.mp hc'
    rw [← hinj j i (hs j hj) hi hn]; exact hj
  · simp

theorem register_mono {d orig : List Init} {i : Init} (hs : Sub d orig) (hinj : NameInj orig) (hi : i ∈ orig) :
    ∀ x, x ∈ d → x ∈ register d i := by
  intro x hx
  rw [register_eq hs hinj hi]
  split
  · exact hx
  · exact List.mem_append_left _ hx

/-- Folding `register` over a list of names looked up in `orig`. -/
def regNames (orig : List Init) (d : List Init) (ns : List String) : List Init :=
  ns.foldl (fun d n => match orig.find? (fun i => i.name = n) with
    | some i => register d i
    | none => d) d

theorem find_name {orig : List Init} {n : String} {i : Init} (h : orig.find? (fun i => i.name = n) = some i) :
    i ∈ orig ∧ i.name = n := by
  refine ⟨List.mem_of_find?_eq_some h, ?_⟩
  have := List.find?_some h
  simpa using this

theorem find_of_mem {orig : List Init} (hinj : NameInj orig) {i : Init} (hi : i ∈ orig) :
    orig.find? (fun j => j.name = i.name) = some i := by
  cases h : orig.find? (fun j => j.name = i.name) with
  | none =>
    have := List.find?_eq_none.mp h i hi
    simp at this
  | some j =>
    obtain ⟨hj, hn⟩ := find_name h
    rw [hinj j i hj hi hn]

theorem regNames_spec (orig : List Init) (hinj : NameInj orig) :
    ∀ (ns : List String) (d : List Init), Sub d orig →
      Sub (regNames orig d ns) orig ∧ (∀ x, x ∈ d → x ∈ regNames orig d ns) ∧
      (∀ i, i ∈ orig → i.name ∈ ns → i ∈ regNames orig d ns) := by
  intro ns
  induction ns with
  | nil => intro d hs; exact ⟨hs, fun x hx => hx, fun i _ h => by simp at h⟩
  | cons n ns ih =>
    intro d hs
    unfold regNames
    simp only [List.foldl_cons]
    cases hf : orig.find? (fun i => i.name = n) with
    | none =>
      obtain ⟨a, b, c⟩ := ih d hs
      refine ⟨a, b, fun i hi hn => ?_⟩
      rcases List.mem_cons.mp hn with h | h
      · rw [← h, find_of_mem hinj hi] at hf; cases hf
      · exact c i hi h
    | some j =>
      obtain ⟨hj, hjn⟩ := find_name hf
      obtain ⟨a, b, c⟩ := ih (register d j) (register_sub hs hinj hj)
      refine ⟨a, fun x hx => b x (register_mono hs hinj hj x hx), fun i hi hn => ?_⟩
      rcases List.mem_cons.mp hn with h | h
      · have : j = i := hinj j i hj hi (by rw [hjn, h])
        rw [← this]; exact b j (register_mem hs hinj hj)
      · exact c i hi h

theorem registerAll_spec (orig : List Init) (hinj : NameInj orig) :
    ∀ (l : List Init) (d : List Init), Sub d orig → Sub l orig →
      Sub (registerAll d l) orig ∧ (∀ i, i ∈ l → i ∈ registerAll d l) ∧ (∀ x, x ∈ d → x ∈ registerAll d l) := by
  intro l
  induction l with
  | nil => intro d hs _; exact ⟨hs, fun i h => by simp at h, fun x hx => hx⟩
  | cons i l ih =>
    intro d hs hl
    have hi : i ∈ orig := hl i (List.mem_cons_self ..)
    unfold registerAll
    simp only [List.foldl_cons]
    obtain ⟨a, b, c⟩ := ih (register d i) (register_sub hs hinj hi) (fun x hx => hl x (List.mem_cons_of_mem _ hx))
    refine ⟨a, fun x hx => ?_, fun x hx => c x (register_mono hs hinj hi x hx)⟩
    rcases List.mem_cons.mp hx with h | h
    · rw [h]; exact c i (register_mem hs hinj hi)
    · exact b x h

theorem name_in_prepared_inputs (g : G) {i : Init} (hi : i ∈ g.inits) : i.name ∈ (prepare g).inputs := by
  unfold prepare
  simp only [List.mem_append, List.mem_filter]
  by_cases h : i.name ∈ g.inputs
  · exact Or.inl h
  · refine Or.inr ⟨mem_names.mpr ⟨i, hi, rfl⟩, ?_⟩
    simpa using h

end OV.C10.Fallback

namespace OV.C10.Fallback

/-- The keys of a dict are pairwise different — an invariant of the data structure, not an assumption:
`register` (dict assignment) preserves it from the empty dict on. -/
inductive Distinct : List Init → Prop
  | nil : Distinct []
  | cons {i : Init} {l : List Init} : (∀ j, j ∈ l → j.name ≠ i.name) → Distinct l → Distinct (i :: l)

theorem Distinct.nameInj {l : List Init} (h : Distinct l) : NameInj l := by
  induction h with
  | nil => intro i j hi; simp at hi
  | @cons a l hne _ ih =>
    intro i j hi hj hn
    rcases List.mem_cons.mp hi with h1 | h1 <;> rcases List.mem_cons.mp hj with h2 | h2
    · rw [h1, h2]
    · subst h1; exact absurd hn.symm (hne j h2)
    · subst h2; exact absurd hn (hne i h1)
    · exact ih i j h1 h2 hn

theorem distinct_append_single {l : List Init} {i : Init} (h : Distinct l) (hn : ∀ j, j ∈ l → j.name ≠ i.name) :
    Distinct (l ++ [i]) := by
  induction h with
  | nil => exact Distinct.cons (fun j hj => by simp at hj) Distinct.nil
  | @cons a l hne hd ih =>
    refine Distinct.cons (fun j hj => ?_) (ih (fun j hj => hn j (List.mem_cons_of_mem _ hj)))
    rcases List.mem_append.mp hj with h1 | h1
    · exact hne j h1
    · rw [List.mem_singleton.mp h1]; exact (hn a (List.mem_cons_self ..)).symm

theorem distinct_map_replace {l : List Init} (i : Init) (h : Distinct l) :
    Distinct (l.map (fun j => if j.name = i.name then i else j)) := by
  induction h with
  | nil => exact Distinct.nil
  | @cons a l hne hd ih =>
    simp only [List.map_cons]
    refine Distinct.cons (fun j hj => ?_) ih
    obtain ⟨j0, hj0, rfl⟩ := List.mem_map.mp hj
    have h0 := hne j0 hj0
    by_cases h1 : j0.name = i.name <;> by_cases h2 : a.name = i.name <;> simp only [h1, h2, if_true, if_false]
    · exact absurd (h1.trans h2.symm) h0
    · exact fun h => h2 h.symm
    · exact fun h => h1 h
    · exact h0

/-- dict assignment keeps the keys pairwise different, whatever is assigned -/
theorem register_distinct {d : List Init} (i : Init) (h : Distinct d) : Distinct (register d i) := by
  unfold register
  split
  · exact distinct_map_replace i h
  · rename_i hc
    refine distinct_append_single h (fun j hj hn => hc ?_)
    have : i.name ∈ names d := mem_names.mpr ⟨j, hj, hn⟩
    simpa using this

theorem registerAll_distinct (l : List Init) : ∀ {d : List Init}, Distinct d → Distinct (registerAll d l) := by
  induction l with
  | nil => intro d h; exact h
  | cons i l ih => intro d h; exact ih (register_distinct i h)

end OV.C10.Fallback
