import OV.Model.Index
import OV.Lemmas.Index
import OV.Lemmas.IndexPlan
import OV.Lemmas.IndexGather
/-! C11 helper lemmas for the converse direction ("the front end does not fail where NumPy
succeeds"): the plan stages as equalities / with the implications reversed. -/
namespace OV.Index

/-! ### `axiswise`, pointwise -/

theorem axiswise_ok_pointwise (f : Comp → List Nat → Except Err AxisMap) :
    ∀ (comps : List Comp) (ds : List Nat) (r : View), axiswise f comps ds = .ok r →
      comps.length ≤ ds.length ∧
      ∀ (j : Nat) (c : Comp), comps[j]? = some c →
        ∃ d a, ds[j]? = some d ∧ f c (List.range d) = .ok a := by
  intro comps
  induction comps with
  | nil => intro ds r _; exact ⟨by simp, by intro j c hj; simp at hj⟩
  | cons c cs ih =>
    intro ds r h
    cases ds with
    | nil => simp [axiswise] at h
    | cons d ds =>
      obtain ⟨a, m, ha, hm, _⟩ := axiswise_cons_ok f c cs d ds r h
      obtain ⟨hl, hp⟩ := ih ds m hm
      refine ⟨by simpa using hl, ?_⟩
      intro j c' hj
      cases j with
      | zero => simp at hj; subst hj; exact ⟨d, a, by simp, ha⟩
      | succ j =>
        obtain ⟨d', a', hd', ha'⟩ := hp j c' (by simpa using hj)
        exact ⟨d', a', by simpa using hd', ha'⟩

theorem axiswise_ok_of_pointwise (f : Comp → List Nat → Except Err AxisMap) :
    ∀ (comps : List Comp) (ds : List Nat), comps.length ≤ ds.length →
      (∀ (j : Nat) (c : Comp) (d : Nat), comps[j]? = some c → ds[j]? = some d →
        ∃ a, f c (List.range d) = .ok a) →
      ∃ v, axiswise f comps ds = .ok v := by
  intro comps
  induction comps with
  | nil => intro ds _ _; exact ⟨_, rfl⟩
  | cons c cs ih =>
    intro ds hl hp
    cases ds with
    | nil => simp at hl
    | cons d ds =>
      obtain ⟨a, ha⟩ := hp 0 c d (by simp) (by simp)
      obtain ⟨v, hv⟩ := ih ds (by simpa using hl)
        (fun j c' d' hc hd => hp (j + 1) c' d' (by simpa using hc) (by simpa using hd))
      exact ⟨a :: v, axiswise_cons_of_ok f c cs d ds a v ha hv⟩

/-! ### Slice + Squeeze as an equality -/

theorem slice_squeeze_axiswise_eq (E : List SliceEntry) (S : List Nat)
    (ent : Comp → Nat → Nat → Option SliceEntry) (sq : Comp → Bool)
    (axisF : Comp → List Nat → Except Err AxisMap) (P : Comp → Prop)
    (hax : ∀ (c : Comp) (j d : Nat), P c →
        axisF c (List.range d) = axisAfter (ent c j d) (sq c) (List.range d)) :
    ∀ (comps : List Comp) (ds : List Nat) (k : Nat),
      comps.length ≤ ds.length →
      (∀ c ∈ comps, P c) →
      (∀ (j : Nat) (c : Comp) (d : Nat), comps[j]? = some c → ds[j]? = some d →
          E.find? (fun e => e.axis == k + j) = ent c (k + j) d) →
      (∀ j, comps.length ≤ j → E.find? (fun e => e.axis == k + j) = none) →
      (∀ (j : Nat) (c : Comp), comps[j]? = some c → S.contains (k + j) = sq c) →
      (∀ j, comps.length ≤ j → S.contains (k + j) = false) →
      opSqueeze.go S k (opSlice.go E k (View.init ds)) = axiswise axisF comps ds := by
  intro comps
  induction comps with
  | nil =>
    intro ds k _ _ _ hE' _ hS'
    rw [slice_go_init_none E k ds (fun j => hE' j (by simp)),
        squeeze_go_init_none S k ds (fun j => hS' j (by simp))]
    rfl
  | cons c cs ih =>
    intro ds k hlen hP hE hE' hS hS'
    cases ds with
    | nil => simp at hlen
    | cons d ds =>
      have hE0 := hE 0 c d (by simp) (by simp)
      have hS0 := hS 0 c (by simp)
      simp only [Nat.add_zero] at hE0 hS0
      have hlen' : cs.length ≤ ds.length := by simpa using hlen
      have hP' : ∀ c ∈ cs, P c := fun c hc => hP c (by simp [hc])
      have hEt : ∀ (j : Nat) (c : Comp) (d' : Nat), cs[j]? = some c → ds[j]? = some d' →
          E.find? (fun e => e.axis == k + 1 + j) = ent c (k + 1 + j) d' := by
        intro j c' d' hj hd
        have := hE (j + 1) c' d' (by simpa using hj) (by simpa using hd)
        rwa [show k + (j + 1) = k + 1 + j by omega] at this
      have hEt' : ∀ j, cs.length ≤ j → E.find? (fun e => e.axis == k + 1 + j) = none := by
        intro j hj
        have := hE' (j + 1) (by simp; omega)
        rwa [show k + (j + 1) = k + 1 + j by omega] at this
      have hSt : ∀ (j : Nat) (c : Comp), cs[j]? = some c → S.contains (k + 1 + j) = sq c := by
        intro j c' hj
        have := hS (j + 1) c' (by simpa using hj)
        rwa [show k + (j + 1) = k + 1 + j by omega] at this
      have hSt' : ∀ j, cs.length ≤ j → S.contains (k + 1 + j) = false := by
        intro j hj
        have := hS' (j + 1) (by simp; omega)
        rwa [show k + (j + 1) = k + 1 + j by omega] at this
      have hrec := ih ds (k + 1) hlen' hP' hEt hEt' hSt hSt'
      simp only [View.init] at hrec
      simp only [View.init, List.map_cons, slice_go_cons_pick, squeeze_go_cons_pick, hS0,
        lookupSlice_eq, hE0, hrec]
      simp only [axiswise, hax c k d (hP c (by simp)), axisAfter]
      cases sq c with
      | false =>
        simp only [Bool.false_eq_true, if_false]
        cases axiswise axisF cs ds <;> rfl
      | true =>
        simp only [if_true]
        cases single? (applyEntry (ent c k d) (List.range d)) <;> cases axiswise axisF cs ds <;> rfl

/-! ### Running Slice (+ Squeeze) when nothing can go wrong in the checks -/

theorem opSlice_go_rank (E : List SliceEntry) : ∀ (v : View) (k : Nat), (opSlice.go E k v).rank = v.rank := by
  intro v
  induction v with
  | nil => intro k; rfl
  | cons a rest ih =>
    intro k
    cases a with
    | drop s =>
      simp only [opSlice.go, View.rank, List.filter_cons, AxisMap.isPick, Bool.false_eq_true, if_false]
      exact ih k
    | pick srcs =>
      simp only [opSlice.go, View.rank, List.filter_cons, AxisMap.isPick, if_true, List.length_cons]
      have := ih (k + 1)
      simp only [View.rank] at this
      rw [this]

theorem slice_squeeze_run_conv (mk : List Nat → PlanOp) (hmk : ∀ S v, runOp (mk S) v = opSqueeze S v)
    (E : List SliceEntry) (S : List Nat) (v0 v1 : View)
    (hstep : ∀ e ∈ E, e.step ≠ 0) (haxis : ∀ e ∈ E, e.axis < v0.rank) (hS : ∀ a ∈ S, a < v0.rank)
    (hgo : opSqueeze.go S 0 (opSlice.go E 0 v0) = .ok v1) :
    runPlan ([PlanOp.slice E] ++ (if S.isEmpty then [] else [mk S])) v0 = .ok v1 := by
  have hsl : opSlice E v0 = .ok (opSlice.go E 0 v0) := by
    unfold opSlice
    have h1 : ¬ (E.any fun e => e.step == 0) = true := by
      intro h
      obtain ⟨e, he, hz⟩ := List.any_eq_true.mp h
      exact hstep e he (by simpa using hz)
    have h2 : ¬ (E.any fun e => decide (e.axis ≥ v0.rank)) = true := by
      intro h
      obtain ⟨e, he, hz⟩ := List.any_eq_true.mp h
      have := haxis e he
      simp at hz
      omega
    rw [if_neg h1, if_neg h2]
  rw [runPlan_append, runPlan_singleton]
  simp only [runOp, hsl]
  by_cases hSe : S.isEmpty = true
  · have hSnil : S = [] := by simpa using hSe
    subst hSnil
    simp only [List.isEmpty_nil, if_true, runPlan_nil]
    rw [squeeze_go_nil] at hgo
    exact hgo
  · rw [if_neg hSe, runPlan_singleton, hmk]
    unfold opSqueeze
    have h3 : ¬ (S.any fun a => decide (a ≥ (opSlice.go E 0 v0).rank)) = true := by
      intro h
      obtain ⟨a, ha, hz⟩ := List.any_eq_true.mp h
      have := hS a ha
      rw [opSlice_go_rank] at hz
      simp at hz
      omega
    rw [if_neg h3]
    exact hgo

/-! ### The Gather chain, converse -/

theorem gather_chain_axiswise_conv (G D : Comp → Bool)
    (preF : Comp → List Nat → Except Err AxisMap) (axisOf : Nat → Nat)
    (hG : ∀ c srcs, G c = true → preF c srcs = .ok (.pick srcs))
    (hGop : ∀ c a, G c = true → (gatherOp a c).isSome = true)
    (hD : ∀ c srcs a, preF c srcs = .ok a → a.isPick = !D c) :
    ∀ (cs : List Comp) (ds : List Nat) (n : Nat) (pre mid mid' : View),
      (∀ (i : Nat) (c : Comp), cs[i]? = some c → G c = true →
          axisOf (n + i) = (pre.filter AxisMap.isPick).length
                            + ((cs.take i).filter (fun c => !D c)).length) →
      axiswise preF cs ds = .ok mid →
      axiswise (withGather G preF) cs ds = .ok mid' →
      runPlan ((((cs.zipIdx n).filter (fun p => G p.1)).reverse).filterMap
          (fun p => gatherOp (axisOf p.2) p.1)) (pre ++ mid) = .ok (pre ++ mid') := by
  intro cs
  induction cs with
  | nil =>
    intro ds n pre mid mid' _ hax hfull
    simp only [axiswise, Except.ok.injEq] at hax hfull
    subst hax; subst hfull
    rfl
  | cons c cs ih =>
    intro ds n pre mid mid' hA hax hfull
    cases ds with
    | nil => simp [axiswise] at hax
    | cons d ds =>
      obtain ⟨a, mid0, ha, hmid0, rfl⟩ := axiswise_cons_ok preF c cs d ds mid hax
      obtain ⟨a', mid0', ha', hmid0', rfl⟩ := axiswise_cons_ok (withGather G preF) c cs d ds mid' hfull
      have hpick : a.isPick = !D c := hD c _ a ha
      have hA' : ∀ (i : Nat) (c' : Comp), cs[i]? = some c' → G c' = true →
          axisOf (n + 1 + i) = ((pre ++ [a]).filter AxisMap.isPick).length
                                + ((cs.take i).filter (fun c => !D c)).length := by
        intro i c' hi hg
        have := hA (i + 1) c' (by simpa using hi) hg
        rw [show n + (i + 1) = n + 1 + i by omega] at this
        rw [this]
        simp only [List.take_succ_cons, List.filter_cons, List.filter_append, List.length_append,
          List.filter_nil, hpick]
        cases D c <;> simp <;> omega
      have hsplit : pre ++ a :: mid0 = (pre ++ [a]) ++ mid0 := by simp
      have hrec := ih ds (n + 1) (pre ++ [a]) mid0 mid0' hA' hmid0 hmid0'
      simp only [List.zipIdx_cons]
      by_cases hg : G c = true
      · have hfil : ((c, n) :: cs.zipIdx (n + 1)).filter (fun p => G p.1)
            = (c, n) :: (cs.zipIdx (n + 1)).filter (fun p => G p.1) := by simp [hg]
        rw [hfil, List.reverse_cons, List.filterMap_append, runPlan_append, hsplit, hrec]
        obtain ⟨op, hop⟩ := Option.isSome_iff_exists.mp (hGop c (axisOf n) hg)
        have hapick : a = .pick (List.range d) := by
          have := hG c (List.range d) hg
          rw [this] at ha; cases ha; rfl
        subst hapick
        simp only [List.filterMap_cons, hop, List.filterMap_nil, runPlan_singleton]
        rw [gatherOp_run _ _ _ hop]
        have hax0 : axisOf n = (pre.filter AxisMap.isPick).length := by
          have := hA 0 c (by simp) hg
          simpa using this
        have hn : numpyAxis c (List.range d) = .ok a' := by simpa [withGather, hg] using ha'
        rw [hax0, List.append_assoc, List.singleton_append, modifyPick_at, hn]
      · have hg' : G c = false := by simpa using hg
        have hfil : ((c, n) :: cs.zipIdx (n + 1)).filter (fun p => G p.1)
            = (cs.zipIdx (n + 1)).filter (fun p => G p.1) := by simp [hg']
        have haa : a' = a := by
          have : preF c (List.range d) = .ok a' := by simpa [withGather, hg'] using ha'
          rw [ha] at this; cases this; rfl
        subst haa
        rw [hfil, hsplit, hrec]
        simp

/-! ### The converter, whole plans, converse -/

theorem mem_sliceEntries (comps : List Comp) (e : SliceEntry)
    (h : e ∈ (sliceEntriesOf comps).filterMap id) :
    ∃ (j : Nat) (c : Comp), comps[j]? = some c ∧ entryOf c j = some e ∧
      (c.kind = Kind.sliced ∨ c.kind = Kind.scalar) := by
  obtain ⟨o, ho, hoe⟩ := List.mem_filterMap.mp h
  simp only [id] at hoe
  subst hoe
  obtain ⟨p, hp, hpe⟩ := List.mem_map.mp ho
  obtain ⟨c, j⟩ := p
  rcases List.mem_append.mp hp with hm | hm
  · obtain ⟨hz, hk⟩ := List.mem_filter.mp hm
    exact ⟨j, c, List.mk_mem_zipIdx_iff_getElem?.mp hz, hpe, Or.inl (by cases hkk : c.kind <;> rw [hkk] at hk <;> first | rfl | exact absurd hk (by decide))⟩
  · obtain ⟨hz, hk⟩ := List.mem_filter.mp hm
    exact ⟨j, c, List.mk_mem_zipIdx_iff_getElem?.mp hz, hpe, Or.inr (by cases hkk : c.kind <;> rw [hkk] at hk <;> first | rfl | exact absurd hk (by decide))⟩

theorem mem_scalarsOf (comps : List Comp) (a : Nat) (h : a ∈ (scalarsOf comps).map (fun p => p.2)) :
    a < comps.length := by
  obtain ⟨p, hp, rfl⟩ := List.mem_map.mp h
  obtain ⟨c, j⟩ := p
  obtain ⟨hz, _⟩ := List.mem_filter.mp hp
  exact (List.getElem?_eq_some_iff.mp (List.mk_mem_zipIdx_iff_getElem?.mp hz)).1

/-- Slice path, converse: if the per-axis results exist, the plan runs and produces them. -/
theorem graph_slicepath_complete (comps : List Comp) (shape : List Nat) (r : View)
    (hlen : comps.length ≤ shape.length) (huse : useSlice comps = true)
    (hnone : (sliceEntriesOf comps).any Option.isNone = false)
    (hok : ∀ c ∈ comps, sliceOk c)
    (hfull : axiswise (withGather (fun c => c.kind == Kind.nonScalar) graphPre) comps shape = .ok r) :
    graphIndex comps shape = .ok r := by
  -- the view after Slice + Squeeze exists
  obtain ⟨_, hpw⟩ := axiswise_ok_pointwise _ comps shape r hfull
  obtain ⟨v1, hv1⟩ := axiswise_ok_of_pointwise graphPre comps shape hlen (by
    intro j c d hc hd
    obtain ⟨d', a, hd', ha⟩ := hpw j c hc
    rw [hd] at hd'; cases hd'
    simp only [withGather] at ha
    by_cases hk : (c.kind == Kind.nonScalar) = true
    · cases c with
      | tScalar v => exact ⟨_, rfl⟩
      | tVec v => exact ⟨_, rfl⟩
      | full => exact absurd hk (by decide)
      | int i => exact absurd hk (by simp only [Comp.kind]; decide)
      | slice lo hi st =>
        rcases slice_kind_cases lo hi st with hkk | hkk <;> rw [hkk] at hk <;> exact absurd hk (by decide)
    · exact ⟨a, by simpa [hk] using ha⟩)
  -- lookups
  have hE : ∀ (j : Nat) (c : Comp) (d : Nat), comps[j]? = some c → shape[j]? = some d →
      ((sliceEntriesOf comps).filterMap id).find? (fun e => e.axis == 0 + j) = entryOf c (0 + j) := by
    intro j c d hj _
    rw [Nat.zero_add, find_sliceEntriesOf, hj]
  have hE' : ∀ j, comps.length ≤ j →
      ((sliceEntriesOf comps).filterMap id).find? (fun e => e.axis == 0 + j) = none := by
    intro j hj
    rw [Nat.zero_add, find_sliceEntriesOf, List.getElem?_eq_none hj]
  have hS : ∀ (j : Nat) (c : Comp), comps[j]? = some c →
      ((scalarsOf comps).map (fun p => p.2)).contains (0 + j) = c.isInt := by
    intro j c hj
    rw [Nat.zero_add, contains_scalarsOf, hj]
  have hS' : ∀ j, comps.length ≤ j → ((scalarsOf comps).map (fun p => p.2)).contains (0 + j) = false := by
    intro j hj
    rw [Nat.zero_add, contains_scalarsOf, List.getElem?_eq_none hj]
  have hgo := slice_squeeze_axiswise_eq ((sliceEntriesOf comps).filterMap id)
    ((scalarsOf comps).map (fun p => p.2)) (fun c j _ => entryOf c j) Comp.isInt graphPre
    sliceOk (fun c j d hPc => graphPre_axisAfter c j d hPc) comps shape 0 hlen hok hE hE' hS hS'
  rw [hv1] at hgo
  have hstage := slice_squeeze_run_conv PlanOp.squeeze (fun _ _ => rfl)
    ((sliceEntriesOf comps).filterMap id) ((scalarsOf comps).map (fun p => p.2)) (View.init shape) v1
    (by
      intro e he
      obtain ⟨j, c, hj, hent, _⟩ := mem_sliceEntries comps e he
      cases c with
      | full => simp [entryOf] at hent
      | tScalar v => simp [entryOf] at hent
      | tVec v => simp [entryOf] at hent
      | int i => simp [entryOf] at hent; rw [← hent]; simp
      | slice lo hi st =>
        rw [entryOf_step lo hi st j e hent]
        have hsk : ¬ (lo = .none ∧ hi = .none ∧ st = .none) := by
          intro hsk
          obtain ⟨rfl, rfl, rfl⟩ := hsk
          simp [entryOf] at hent
        exact (hok _ (List.mem_of_getElem? hj) lo hi st rfl hsk).1)
    (by
      intro e he
      obtain ⟨j, c, hj, hent, _⟩ := mem_sliceEntries comps e he
      rw [entryOf_axis c j e hent, View.init_rank]
      have := (List.getElem?_eq_some_iff.mp hj).1
      omega)
    (by
      intro a ha
      rw [View.init_rank]
      have := mem_scalarsOf comps a ha
      omega)
    hgo
  -- the Gather chain
  have hchain := gather_chain_axiswise_conv (fun c => c.kind == Kind.nonScalar)
    (fun c => c.kind == Kind.scalar) graphPre
    (gatherAxis ((scalarsOf comps).map (fun p => p.2)))
    (by
      intro c srcs hg
      cases c with
      | tScalar v => rfl
      | tVec v => rfl
      | full => exact absurd hg (by decide)
      | int i => exact absurd hg (by simp only [Comp.kind]; decide)
      | slice lo hi st =>
        rcases slice_kind_cases lo hi st with hk | hk <;> rw [hk] at hg <;> exact absurd hg (by decide))
    (by
      intro c a hg
      exact gatherOp_isSome_of_kind c a (by simp [hg]))
    graphPre_isPick
    comps shape 0 [] v1 r
    (by
      intro i c hi _
      have hil : i ≤ comps.length := by
        have := (List.getElem?_eq_some_iff.mp hi).1
        omega
      have := gatherAxis_zipIdx (fun c => c.kind == Kind.scalar) comps i hil
      simp only [Nat.zero_add, List.filter_nil, List.length_nil]
      exact this)
    hv1 hfull
  simp only [List.nil_append] at hchain
  -- assemble
  unfold graphIndex planGraph
  have hempty : ¬ ((slicedOf comps).isEmpty && (scalarsOf comps).isEmpty && (nonScalarsOf comps).isEmpty) = true := by
    intro hempty
    simp only [Bool.and_eq_true, List.isEmpty_iff] at hempty
    have : useSlice comps = false := by simp [useSlice, hempty.1.1, hempty.1.2]
    rw [this] at huse; cases huse
  rw [if_neg hempty, huse]
  simp only [if_true]
  rw [if_neg (by rw [hnone]; decide)]
  simp only [bind, Except.bind]
  rw [runPlan_append, hstage]
  simpa [gatherChain, nonScalarsOf] using hchain

/-- Gather path, converse. -/
theorem graph_gatherpath_complete (comps : List Comp) (shape : List Nat) (r : View)
    (hlen : comps.length ≤ shape.length) (huse : useSlice comps = false)
    (h : axiswise numpyAxis comps shape = .ok r) :
    graphIndex comps shape = .ok r := by
  have huse' := huse
  simp only [useSlice, Bool.or_eq_false_iff, Bool.not_eq_false', decide_eq_false_iff_not] at huse'
  have hsl' : slicedOf comps = [] := by simpa using huse'.1
  have hnotsliced : ∀ (j : Nat) (c : Comp), comps[j]? = some c → (c.kind == Kind.sliced) = false :=
    filter_zipIdx_nil_forall (fun c => c.kind == Kind.sliced) comps 0 hsl'
  unfold graphIndex planGraph
  by_cases hempty : ((slicedOf comps).isEmpty && (scalarsOf comps).isEmpty && (nonScalarsOf comps).isEmpty) = true
  · rw [if_pos hempty]
    simp only [Bool.and_eq_true, List.isEmpty_iff] at hempty
    have hall : axiswise numpyAxis comps shape = .ok (View.init shape) := by
      refine axiswise_all_skip comps shape hlen ?_
      intro c hc
      obtain ⟨j, hj⟩ := List.getElem?_of_mem hc
      have h1 := filter_zipIdx_nil_forall (fun c => c.kind == Kind.scalar) comps 0 hempty.1.2 j c hj
      have h2 := hnotsliced j c hj
      have h3 := filter_zipIdx_nil_forall (fun c => c.kind == Kind.nonScalar) comps 0 hempty.2 j c hj
      cases hk : c.kind <;> rw [hk] at h1 h2 h3 <;>
        first | rfl | (exact absurd h1 (by decide)) | (exact absurd h2 (by decide)) | (exact absurd h3 (by decide))
    rw [h] at hall
    cases hall
    rfl
  rw [if_neg hempty, huse]
  simp only [Bool.false_eq_true, if_false, bind, Except.bind]
  have hfull : axiswise (withGather (fun c => c.kind == Kind.nonScalar || c.kind == Kind.scalar) pickF)
      comps shape = .ok r := by
    refine axiswise_mono numpyAxis _ comps shape r ?_ h
    intro j c d a hc _ ha
    simp only [withGather]
    by_cases hg : (c.kind == Kind.nonScalar || c.kind == Kind.scalar) = true
    · simpa [hg] using ha
    · simp only [hg, Bool.false_eq_true, if_false, pickF]
      have hsk : c.kind = Kind.skip := by
        have h2 := hnotsliced j c hc
        cases hk : c.kind <;> rw [hk] at hg h2 <;>
          first | rfl | (exact absurd h2 (by decide)) | (exact absurd hg (by decide))
      rw [numpyAxis_skip c _ hsk] at ha
      exact ha
  have hchain := gather_chain_axiswise_conv
    (fun c => c.kind == Kind.nonScalar || c.kind == Kind.scalar) (fun _ => false) pickF (gatherAxis [])
    (fun _ _ _ => rfl)
    (fun c a hg => gatherOp_isSome_of_kind c a hg)
    (by intro c srcs a ha; simp only [pickF, Except.ok.injEq] at ha; subst ha; rfl)
    comps shape 0 [] (View.init shape) r
    (by
      intro i c hi _
      have hil : i ≤ comps.length := by
        have := (List.getElem?_eq_some_iff.mp hi).1
        omega
      have hall : List.filter (fun _ : Comp => true) (List.take i comps) = List.take i comps :=
        List.filter_eq_self.mpr (by simp)
      simp [gatherAxis_nil, hall, List.length_take, Nat.min_eq_left hil])
    (axiswise_pickF comps shape hlen) hfull
  simp only [List.nil_append] at hchain
  simpa [gatherChain, gatheredOf] using hchain

/-- A registered component that passes `sliceOk` has a Slice entry (the converter does not refuse). -/
theorem entryOf_isSome (c : Comp) (j : Nat) (hP : sliceOk c)
    (hk : c.kind = Kind.sliced ∨ c.kind = Kind.scalar) : (entryOf c j).isSome = true := by
  cases c with
  | full => rcases hk with hk | hk <;> exact absurd hk (by decide)
  | tScalar v => rcases hk with hk | hk <;> exact absurd hk (by simp only [Comp.kind]; decide)
  | tVec v => rcases hk with hk | hk <;> exact absurd hk (by simp only [Comp.kind]; decide)
  | int i => rfl
  | slice lo hi st =>
    by_cases hsk : lo = .none ∧ hi = .none ∧ st = .none
    · obtain ⟨rfl, rfl, rfl⟩ := hsk
      rcases hk with hk | hk <;> exact absurd hk (by decide)
    · obtain ⟨_, hdyn⟩ := hP lo hi st rfl hsk
      have hent : entryOf (.slice lo hi st) j = convSliceEntry j lo hi st := by
        show (if _ then _ else _) = _
        rw [if_neg hsk]
      rw [hent]
      cases st with
      | dyn s =>
        obtain ⟨l, h, hl, hh⟩ := hdyn s rfl
        simp [convSliceEntry, hl, hh]
      | none => simp [convSliceEntry]
      | const v => simp [convSliceEntry]

theorem sliceEntries_no_refusal (comps : List Comp) (hok : ∀ c ∈ comps, sliceOk c) :
    (sliceEntriesOf comps).any Option.isNone = false := by
  rw [Bool.eq_false_iff]
  intro h
  obtain ⟨o, ho, hn⟩ := List.any_eq_true.mp h
  obtain ⟨p, hp, hpe⟩ := List.mem_map.mp ho
  obtain ⟨c, j⟩ := p
  have hk : c.kind = Kind.sliced ∨ c.kind = Kind.scalar := by
    rcases List.mem_append.mp hp with hm | hm
    · have := (List.mem_filter.mp hm).2
      left; cases hkk : c.kind <;> rw [hkk] at this <;> first | rfl | exact absurd this (by decide)
    · have := (List.mem_filter.mp hm).2
      right; cases hkk : c.kind <;> rw [hkk] at this <;> first | rfl | exact absurd this (by decide)
  have hc : c ∈ comps := by
    rcases List.mem_append.mp hp with hm | hm <;>
      exact List.mem_of_getElem? (List.mk_mem_zipIdx_iff_getElem?.mp (List.mem_filter.mp hm).1)
  have := entryOf_isSome c j (hok c hc) hk
  simp only at hpe
  rw [hpe] at this
  cases o with
  | none => cases this
  | some e => cases hn

/-! ### Eager mode, converse -/

/-- A registered slice has a non-zero step. -/
def stepOk (c : Comp) : Prop :=
  ∀ lo hi st, c = .slice lo hi st → ¬ (lo = .none ∧ hi = .none ∧ st = .none) → (st.val?).getD 1 ≠ 0

theorem eagerPre_axisAfter (c : Comp) (j d : Nat) (hst : stepOk c) :
    eagerPre c (List.range d) = axisAfter (entryOfEager c j d) c.isEagerScalar (List.range d) := by
  cases c with
  | tScalar v => simp [eagerPre, eagerAxisSlicePath, axisAfter, entryOfEager, applyEntry, Comp.isEagerScalar]
  | tVec v => simp [eagerPre, axisAfter, entryOfEager, applyEntry, Comp.isEagerScalar]
  | full => simp [eagerPre, eagerAxisSlicePath, axisAfter, entryOfEager, applyEntry, Comp.isEagerScalar]
  | int i => simp [eagerPre, eagerAxisSlicePath, axisAfter, entryOfEager, applyEntry, Comp.isEagerScalar]
  | slice lo hi st =>
    by_cases hsk : lo = .none ∧ hi = .none ∧ st = .none
    · simp [eagerPre, eagerAxisSlicePath, axisAfter, entryOfEager, applyEntry, Comp.isEagerScalar, hsk]
    · have h0 := hst lo hi st rfl hsk
      have hb0 : ((st.val?).getD 1 == 0) = false := by simpa using h0
      simp [eagerPre, eagerAxisSlicePath, axisAfter, entryOfEager, applyEntry, Comp.isEagerScalar, hsk, hb0]

theorem mem_eagerEntries (comps : List Comp) (shape : List Nat) (e : SliceEntry)
    (h : e ∈ eagerEntriesOf comps shape) :
    ∃ (j : Nat) (c : Comp), comps[j]? = some c ∧ entryOfEager c j (shape.getD j 0) = some e := by
  obtain ⟨p, hp, hpe⟩ := List.mem_filterMap.mp h
  obtain ⟨c, j⟩ := p
  rcases List.mem_append.mp hp with hm | hm
  · exact ⟨j, c, List.mk_mem_zipIdx_iff_getElem?.mp (List.mem_filter.mp hm).1, hpe⟩
  · exact ⟨j, c, List.mk_mem_zipIdx_iff_getElem?.mp (List.mem_filter.mp hm).1, hpe⟩

theorem mem_eScalarsOf (comps : List Comp) (a : Nat) (h : a ∈ (eScalarsOf comps).map (fun p => p.2)) :
    a < comps.length := by
  obtain ⟨p, hp, rfl⟩ := List.mem_map.mp h
  obtain ⟨c, j⟩ := p
  obtain ⟨hz, _⟩ := List.mem_filter.mp hp
  exact (List.getElem?_eq_some_iff.mp (List.mk_mem_zipIdx_iff_getElem?.mp hz)).1

theorem entryOfEager_step (c : Comp) (j d : Nat) (e : SliceEntry) (h : entryOfEager c j d = some e) :
    (∃ lo hi st, c = .slice lo hi st ∧ ¬ (lo = .none ∧ hi = .none ∧ st = .none) ∧ e.step = (st.val?).getD 1)
    ∨ e.step = 1 := by
  cases c with
  | full => simp [entryOfEager] at h
  | tVec v => simp [entryOfEager] at h
  | int i => simp [entryOfEager] at h; right; rw [← h]
  | tScalar i => simp [entryOfEager] at h; right; rw [← h]
  | slice lo hi st =>
    have h' : (if lo = .none ∧ hi = .none ∧ st = .none then none else
        some (⟨j, (eagerBounds d lo.val? hi.val? ((st.val?).getD 1)).1,
          (eagerBounds d lo.val? hi.val? ((st.val?).getD 1)).2,
          (st.val?).getD 1⟩ : SliceEntry)) = some e := h
    by_cases hsk : lo = .none ∧ hi = .none ∧ st = .none
    · rw [if_pos hsk] at h'; cases h'
    · rw [if_neg hsk] at h'
      left
      refine ⟨lo, hi, st, rfl, hsk, ?_⟩
      simp at h'; rw [← h']

/-- The 1-D Gathers at the end of `Tensor.__getitem__`, converse of `eager_vec_stage`. -/
theorem eager_vec_stage_conv (comps : List Comp) (shape : List Nat) (v1 r : View)
    (preF : Comp → List Nat → Except Err AxisMap)
    (hvec : (eVecsOf comps).length ≤ 1)
    (hG : ∀ c srcs, c.isVec = true → preF c srcs = .ok (.pick srcs))
    (hD : ∀ c srcs a, preF c srcs = .ok a → a.isPick = !c.isEagerScalar)
    (hpre : axiswise preF comps shape = .ok v1)
    (hfull : axiswise (withGather Comp.isVec preF) comps shape = .ok r) :
    runPlan ((eVecsOf comps).filterMap
        (fun p => gatherOp (gatherAxis ((eScalarsOf comps).map (fun p => p.2)) p.2) p.1)) v1 = .ok r := by
  rw [← reverse_of_length_le_one _ hvec]
  have := gather_chain_axiswise_conv Comp.isVec Comp.isEagerScalar preF
    (gatherAxis ((eScalarsOf comps).map (fun p => p.2))) hG
    (by intro c a hg; cases c <;> first | rfl | simp [Comp.isVec] at hg)
    hD comps shape 0 [] v1 r
    (by
      intro i c hi _
      have hil : i ≤ comps.length := by
        have := (List.getElem?_eq_some_iff.mp hi).1
        omega
      have := gatherAxis_zipIdx Comp.isEagerScalar comps i hil
      simp only [Nat.zero_add, List.filter_nil, List.length_nil]
      exact this)
    hpre hfull
  simpa [eVecsOf] using this

/-- **Eager mode, whole plans, converse**: if the per-axis results exist (NumPy's on the
Gather-only shapes of the plan, the Slice-path ones otherwise), `Tensor.__getitem__` runs through
and produces them. -/
theorem eager_index_complete (comps : List Comp) (shape : List Nat) (r : View)
    (hlen : comps.length ≤ shape.length)
    (hvec : (comps.filter Comp.isVec).length ≤ 1)
    (hstep : ∀ c ∈ comps, stepOk c)
    (hnp : axiswise numpyAxis comps shape = .ok r)
    (hsl : axiswise (withGather Comp.isVec eagerPre) comps shape = .ok r) :
    eagerIndex comps shape = .ok r := by
  have hvec' : (eVecsOf comps).length ≤ 1 := by
    rw [eVecsOf, zipIdx_filter_length]; exact hvec
  unfold eagerIndex planEager
  rw [if_neg (by omega)]
  have hz0 : ¬ (comps.any (fun c => c.isEagerSliced && c.stepVal == 0)) = true := by
    intro h
    obtain ⟨c, hc, hz⟩ := List.any_eq_true.mp h
    simp only [Bool.and_eq_true, beq_iff_eq] at hz
    cases c with
    | slice lo hi st =>
      have hsk : ¬ (lo = .none ∧ hi = .none ∧ st = .none) := by
        intro hsk; simp [Comp.isEagerSliced, hsk] at hz
      exact hstep _ hc lo hi st rfl hsk hz.2
    | full => simp [Comp.isEagerSliced] at hz
    | int i => simp [Comp.isEagerSliced] at hz
    | tScalar i => simp [Comp.isEagerSliced] at hz
    | tVec v => simp [Comp.isEagerSliced] at hz
  rw [if_neg hz0]
  obtain ⟨_, hpwn⟩ := axiswise_ok_pointwise numpyAxis comps shape r hnp
  -- the two Gather-only shapes of the plan
  have hgather : eSlicedOf comps = [] → ∀ v1,
      axiswise (withGather Comp.isEagerScalar pickF) comps shape = .ok v1 →
      runPlan ((eVecsOf comps).filterMap
        (fun p => gatherOp (gatherAxis ((eScalarsOf comps).map (fun p => p.2)) p.2) p.1)) v1 = .ok r := by
    intro hsl' v1 hv1
    refine eager_vec_stage_conv comps shape v1 r _ hvec' ?_ ?_ hv1 ?_
    · intro c srcs hv
      have : c.isEagerScalar = false := by cases c <;> first | rfl | simp [Comp.isVec] at hv
      simp [withGather, this, pickF]
    · intro c srcs a ha
      simp only [withGather] at ha
      cases hs : c.isEagerScalar with
      | false =>
        simp only [hs, Bool.false_eq_true, if_false, pickF, Except.ok.injEq] at ha
        subst ha; rfl
      | true =>
        simp only [hs, if_true] at ha
        cases c with
        | full => simp [Comp.isEagerScalar] at hs
        | tVec v => simp [Comp.isEagerScalar] at hs
        | slice lo hi st => simp [Comp.isEagerScalar] at hs
        | int i =>
          simp only [numpyAxis] at ha
          cases hn : normIdx srcs.length i with
          | none => simp [hn] at ha
          | some k =>
            cases hk : srcs[k]? with
            | none => simp [hn, hk] at ha
            | some s' => simp [hn, hk] at ha; subst ha; rfl
        | tScalar i =>
          simp only [numpyAxis] at ha
          cases hn : normIdx srcs.length i with
          | none => simp [hn] at ha
          | some k =>
            cases hk : srcs[k]? with
            | none => simp [hn, hk] at ha
            | some s' => simp [hn, hk] at ha; subst ha; rfl
    · refine axiswise_mono numpyAxis _ comps shape r ?_ hnp
      intro j c d a hc _ ha
      simp only [withGather]
      by_cases hv : c.isVec = true
      · simpa [hv] using ha
      · by_cases hs : c.isEagerScalar = true
        · simpa [hv, hs] using ha
        · simp only [hv, hs, Bool.false_eq_true, if_false, pickF]
          have hsk := kind_skip_of_not_eager c
            (filter_zipIdx_nil_forall Comp.isEagerSliced comps 0 hsl' j c hc)
            (by simpa using hs) (by simpa using hv)
          rw [numpyAxis_skip c _ hsk] at ha
          exact ha
  by_cases hempty : ((eSlicedOf comps).isEmpty && (eScalarsOf comps).isEmpty && (eVecsOf comps).isEmpty) = true
  · rw [if_pos hempty]
    simp only [Bool.and_eq_true, List.isEmpty_iff] at hempty
    have hall : axiswise numpyAxis comps shape = .ok (View.init shape) := by
      refine axiswise_all_skip comps shape hlen ?_
      intro c hc
      obtain ⟨j, hj⟩ := List.getElem?_of_mem hc
      exact kind_skip_of_not_eager c
        (filter_zipIdx_nil_forall Comp.isEagerSliced comps 0 hempty.1.1 j c hj)
        (filter_zipIdx_nil_forall Comp.isEagerScalar comps 0 hempty.1.2 j c hj)
        (filter_zipIdx_nil_forall Comp.isVec comps 0 hempty.2 j c hj)
    rw [hnp] at hall
    cases hall
    rfl
  rw [if_neg hempty]
  simp only [bind, Except.bind]
  rw [runPlan_append]
  by_cases hg : ((eSlicedOf comps).isEmpty && ((eScalarsOf comps).length == 1)) = true
  · -- single Gather, then the 1-D Gather
    rw [if_pos hg]
    simp only [Bool.and_eq_true, List.isEmpty_iff, beq_iff_eq] at hg
    obtain ⟨hsl', hone⟩ := hg
    obtain ⟨v1, hv1⟩ := axiswise_ok_of_pointwise (withGather Comp.isEagerScalar pickF) comps shape hlen (by
      intro j c d hc hd
      obtain ⟨d', a, hd', ha⟩ := hpwn j c hc
      rw [hd] at hd'; cases hd'
      simp only [withGather]
      by_cases hs : c.isEagerScalar = true
      · exact ⟨a, by simpa [hs] using ha⟩
      · exact ⟨.pick (List.range d), by simp [hs, pickF]⟩)
    have hfirst := gather_chain_axiswise_conv Comp.isEagerScalar (fun _ => false) pickF
      (gatherAxis []) (fun _ _ _ => rfl)
      (by intro c a hg; cases c <;> first | rfl | simp [Comp.isEagerScalar] at hg)
      (by intro c srcs a ha; simp only [pickF, Except.ok.injEq] at ha; subst ha; rfl)
      comps shape 0 [] (View.init shape) v1
      (by
        intro i c hi _
        have hil : i ≤ comps.length := by
          have := (List.getElem?_eq_some_iff.mp hi).1
          omega
        have hall : List.filter (fun _ : Comp => true) (List.take i comps) = List.take i comps :=
          List.filter_eq_self.mpr (by simp)
        simp [gatherAxis_nil, hall, List.length_take, Nat.min_eq_left hil])
      (axiswise_pickF comps shape hlen) hv1
    simp only [List.nil_append] at hfirst
    have hpre : runPlan ((eScalarsOf comps).map (fun p => PlanOp.gatherScalar p.2 p.1.scalarVal))
        (View.init shape) = .ok v1 := by
      rw [← hfirst, reverse_of_length_le_one _ (by rw [← eScalarsOf]; omega)]
      congr 1
      rw [← eScalarsOf]
      exact (filterMap_gatherOp_scalars _ (fun p hp => by
        simp only [eScalarsOf, List.mem_filter] at hp
        exact hp.2)).symm
    rw [hpre]
    exact hgather hsl' v1 hv1
  · rw [if_neg hg]
    by_cases hany : (!(eSlicedOf comps).isEmpty || !(eScalarsOf comps).isEmpty) = true
    · -- Slice (+ np.squeeze), then the 1-D Gather
      rw [if_pos hany]
      obtain ⟨_, hpws⟩ := axiswise_ok_pointwise _ comps shape r hsl
      obtain ⟨v1, hv1⟩ := axiswise_ok_of_pointwise eagerPre comps shape hlen (by
        intro j c d hc hd
        obtain ⟨d', a, hd', ha⟩ := hpws j c hc
        rw [hd] at hd'; cases hd'
        simp only [withGather] at ha
        by_cases hv : c.isVec = true
        · cases c <;> first | exact ⟨_, rfl⟩ | simp [Comp.isVec] at hv
        · exact ⟨a, by simpa [hv] using ha⟩)
      have hE : ∀ (j : Nat) (c : Comp) (d : Nat), comps[j]? = some c → shape[j]? = some d →
          (eagerEntriesOf comps shape).find? (fun e => e.axis == 0 + j) = entryOfEager c (0 + j) d := by
        intro j c d hj hd
        have hd' : shape.getD j 0 = d := by simp [List.getD, hd]
        rw [Nat.zero_add, find_eagerEntriesOf, hj]
        simp only [hd']
      have hE' : ∀ j, comps.length ≤ j →
          (eagerEntriesOf comps shape).find? (fun e => e.axis == 0 + j) = none := by
        intro j hj
        rw [Nat.zero_add, find_eagerEntriesOf, List.getElem?_eq_none hj]
      have hS : ∀ (j : Nat) (c : Comp), comps[j]? = some c →
          ((eScalarsOf comps).map (fun p => p.2)).contains (0 + j) = c.isEagerScalar := by
        intro j c hj
        rw [Nat.zero_add, contains_eScalarsOf, hj]
      have hS' : ∀ j, comps.length ≤ j →
          ((eScalarsOf comps).map (fun p => p.2)).contains (0 + j) = false := by
        intro j hj
        rw [Nat.zero_add, contains_eScalarsOf, List.getElem?_eq_none hj]
      have hgo := slice_squeeze_axiswise_eq (eagerEntriesOf comps shape)
        ((eScalarsOf comps).map (fun p => p.2)) entryOfEager Comp.isEagerScalar eagerPre stepOk
        (fun c j d hPc => eagerPre_axisAfter c j d hPc) comps shape 0 hlen hstep hE hE' hS hS'
      rw [hv1] at hgo
      have hstage := slice_squeeze_run_conv PlanOp.npSqueeze (fun _ _ => rfl)
        (eagerEntriesOf comps shape) ((eScalarsOf comps).map (fun p => p.2)) (View.init shape) v1
        (by
          intro e he
          obtain ⟨j, c, hj, hent⟩ := mem_eagerEntries comps shape e he
          rcases entryOfEager_step c j _ e hent with ⟨lo, hi, st, hc, hsk, hst⟩ | h1
          · rw [hst]
            exact hstep c (List.mem_of_getElem? hj) lo hi st hc hsk
          · rw [h1]; decide)
        (by
          intro e he
          obtain ⟨j, c, hj, hent⟩ := mem_eagerEntries comps shape e he
          rw [entryOfEager_axis shape c j e hent, View.init_rank]
          have := (List.getElem?_eq_some_iff.mp hj).1
          omega)
        (by
          intro a ha
          rw [View.init_rank]
          have := mem_eScalarsOf comps a ha
          omega)
        hgo
      have hstage' : runPlan ([PlanOp.slice (eagerEntriesOf comps shape)] ++
          (if (eScalarsOf comps).isEmpty then []
           else [PlanOp.npSqueeze ((eScalarsOf comps).map (fun p => p.2))])) (View.init shape) = .ok v1 := by
        simpa using hstage
      rw [hstage']
      exact eager_vec_stage_conv comps shape v1 r eagerPre hvec'
        (by intro c srcs hv; cases c <;> first | rfl | simp [Comp.isVec] at hv)
        eagerPre_isPick hv1 hsl
    · -- only the 1-D Gather
      rw [if_neg hany]
      have hn : (eSlicedOf comps).isEmpty = true ∧ (eScalarsOf comps).isEmpty = true := by
        cases h1 : (eSlicedOf comps).isEmpty <;> cases h2 : (eScalarsOf comps).isEmpty <;> simp_all
      simp only [List.isEmpty_iff] at hn
      simp only [runPlan_nil]
      refine hgather hn.1 (View.init shape) ?_
      refine axiswise_mono pickF _ comps shape _ ?_ (axiswise_pickF comps shape hlen)
      intro j c d a hc _ ha
      have hs := filter_zipIdx_nil_forall Comp.isEagerScalar comps 0 hn.2 j c hc
      simp [withGather, hs, ha]

end OV.Index
