import OV.Model.C03Dce
import OV.Lemmas.C03Uses
import OV.Lemmas.C03Frag
/-!
# Lemmas for `dce_refines` (Props/C03.lean): `RemoveUnusedNodesPass` on bodiless graphs

Part 1 — semantics: a relation `DceRel R ns ns'` ("`ns'` is `ns` with some nodes dropped whose outputs lie in `R`, and the
others trimmed: trailing absent inputs removed, outputs in `R` renamed to `""`, trailing `""` dropped") and the simulation
`evalNodes_dceRel`: the trimmed list evaluates to an environment that agrees with the original one outside `R`.
Part 2 — the model: `dceNodes` produces such a list for `R` = `""` and the node outputs nobody reads in the result.
-/
namespace OV.C03

variable {V : Type}

/-- A-op: trailing absent optional inputs do not matter to an operator. -/
def TrailingNoneLaw (sem : Sem V) : Prop :=
  ∀ op dom attrs (args : List (Option V)), sem.op op dom attrs (dropTrailing Option.isNone args) = sem.op op dom attrs args

/-! ### dropTrailing -/

theorem dropTrailing_cons {α} (p : α → Bool) (a : α) (l : List α) :
    dropTrailing p (a :: l) = if (dropTrailing p l).isEmpty && p a then [] else a :: dropTrailing p l := by
  simp only [dropTrailing]
  cases h : dropTrailing p l with
  | nil => cases p a <;> simp
  | cons b r => simp

theorem mem_of_mem_dropTrailing {α} (p : α → Bool) {x : α} : ∀ {l : List α}, x ∈ dropTrailing p l → x ∈ l
  | [], h => by simp [dropTrailing] at h
  | a :: l, h => by
    rw [dropTrailing_cons] at h
    split at h
    · simp at h
    · rcases List.mem_cons.mp h with e | e
      · exact e ▸ List.mem_cons_self
      · exact List.mem_cons_of_mem _ (mem_of_mem_dropTrailing p e)

theorem dropTrailing_length_le {α} (p : α → Bool) : ∀ (l : List α), (dropTrailing p l).length ≤ l.length
  | [] => by simp [dropTrailing]
  | a :: l => by
    rw [dropTrailing_cons]
    have := dropTrailing_length_le p l
    split <;> simp <;> omega

theorem lookupAll_len_dce {ρ : Env V} : ∀ {xs : List (Option Name)} {args : List (Option V)},
    lookupAll ρ xs = some args → xs.length = args.length
  | [], args, h => by
    simp only [lookupAll, Option.some.injEq] at h
    subst h; rfl
  | x :: xs, args, h => by
    simp only [lookupAll] at h
    cases hx : lookupIn ρ x with
    | none => simp [hx] at h
    | some v =>
      cases hr : lookupAll ρ xs with
      | none => simp [hx, hr] at h
      | some r =>
        simp only [hx, hr, Option.bind, Option.map, Option.some.injEq] at h
        subst h
        simp [lookupAll_len_dce hr]

theorem lookupAll_dropTrailing {ρ : Env V} : ∀ {xs : List (Option Name)} {args : List (Option V)},
    lookupAll ρ xs = some args → lookupAll ρ (dropTrailing Option.isNone xs) = some (dropTrailing Option.isNone args)
  | [], args, h => by
    simp only [lookupAll, Option.some.injEq] at h
    subst h; rfl
  | x :: xs, args, h => by
    simp only [lookupAll] at h
    cases hx : lookupIn ρ x with
    | none => simp [hx] at h
    | some v =>
      cases hr : lookupAll ρ xs with
      | none => simp [hx, hr] at h
      | some r =>
        simp only [hx, hr, Option.bind, Option.map, Option.some.injEq] at h
        subst h
        have ih := lookupAll_dropTrailing hr
        have hlen : (dropTrailing Option.isNone xs).isEmpty = (dropTrailing Option.isNone r).isEmpty := by
          have := lookupAll_len_dce ih
          cases h1 : dropTrailing Option.isNone xs <;> cases h2 : dropTrailing Option.isNone r <;>
            simp [h1, h2] at this ⊢
        have hnone : x.isNone = v.isNone := by
          cases x with
          | none => simp only [lookupIn, Option.some.injEq] at hx; subst hx; rfl
          | some y =>
            simp only [lookupIn] at hx
            cases hy : ρ y with
            | none => simp [hy] at hx
            | some w => simp [hy] at hx; subst hx; rfl
        rw [dropTrailing_cons, dropTrailing_cons, hlen, hnone]
        split
        · rfl
        · simp only [lookupAll, hx, ih, Option.bind, Option.map]

/-! ### outputs -/

/-- `os'` is `os` with names of `R` renamed to `""` and a suffix lying in `R` dropped -/
inductive OutsTrim (R : List Name) : List Name → List Name → Prop
  | drop {os} : (∀ o ∈ os, R.contains o = true) → OutsTrim R os []
  | keep {o os os'} : OutsTrim R os os' → OutsTrim R (o :: os) (o :: os')
  | rename {o os os'} : R.contains o = true → OutsTrim R os os' → OutsTrim R (o :: os) ("" :: os')

theorem OutsTrim.refl (R : List Name) : ∀ (os : List Name), OutsTrim R os os
  | [] => .drop (fun _ h => by simp at h)
  | _ :: os => .keep (OutsTrim.refl R os)

theorem OutsTrim.nil_inv {R : List Name} {os : List Name} (h : OutsTrim R os []) : ∀ o ∈ os, R.contains o = true := by
  cases h with
  | drop h => exact h

theorem OutsTrim.dropTrailing {R : List Name} (hR : R.contains "" = true) :
    ∀ {os os' : List Name}, OutsTrim R os os' → OutsTrim R os (dropTrailing (· == "") os') := by
  intro os os' h
  induction h with
  | drop h => exact .drop h
  | @keep o os os' h ih =>
    rw [dropTrailing_cons]
    split
    · rename_i hc
      simp only [Bool.and_eq_true, List.isEmpty_iff, beq_iff_eq] at hc
      rw [hc.1] at ih
      refine .drop (fun x hx => ?_)
      rcases List.mem_cons.mp hx with e | e
      · rw [e, hc.2]; exact hR
      · exact ih.nil_inv x e
    · exact .keep ih
  | @rename o os os' ho h ih =>
    rw [dropTrailing_cons]
    split
    · rename_i hc
      simp only [Bool.and_eq_true, List.isEmpty_iff] at hc
      rw [hc.1] at ih
      refine .drop (fun x hx => ?_)
      rcases List.mem_cons.mp hx with e | e
      · rw [e]; exact ho
      · exact ih.nil_inv x e
    · exact .rename ho ih

theorem EqOff.set_right {R : List Name} {ρ ρ' : Env V} (h : EqOff R ρ' ρ) {x : Name} (hx : R.contains x = true) (v : V) :
    EqOff R ρ' (ρ.set x v) := by
  intro y hy
  have : y ≠ x := fun e => by rw [e, hx] at hy; exact absurd hy (by decide)
  rw [Env.set_get_ne ρ v this]
  exact h y hy

theorem bindOuts_inR {R : List Name} : ∀ (os : List Name) (vs : List V) (ρ ρ' ρ1 : Env V),
    (∀ o ∈ os, R.contains o = true) → EqOff R ρ' ρ → bindOuts ρ os vs = some ρ1 → EqOff R ρ' ρ1
  | [], _, ρ, ρ', ρ1, _, h, he => by
    simp only [bindOuts, Option.some.injEq] at he
    exact he ▸ h
  | o :: os, [], _, _, _, _, _, he => by simp [bindOuts] at he
  | o :: os, v :: vs, ρ, ρ', ρ1, hR, h, he => by
    simp only [bindOuts] at he
    exact bindOuts_inR os vs _ ρ' ρ1 (fun x hx => hR x (List.mem_cons_of_mem _ hx))
      (h.set_right (hR o List.mem_cons_self) v) he

theorem bindOuts_trim {R : List Name} (hR : R.contains "" = true) {os os' : List Name} (ht : OutsTrim R os os') :
    ∀ (vs : List V) (ρ ρ' ρ1 : Env V), EqOff R ρ' ρ → bindOuts ρ os vs = some ρ1 →
      ∃ ρ1', bindOuts ρ' os' vs = some ρ1' ∧ EqOff R ρ1' ρ1 := by
  induction ht with
  | drop h => exact fun vs ρ ρ' ρ1 he hb => ⟨ρ', rfl, bindOuts_inR _ vs ρ ρ' ρ1 h he hb⟩
  | @keep o os os' _ ih =>
    intro vs ρ ρ' ρ1 he hb
    cases vs with
    | nil => simp [bindOuts] at hb
    | cons v vs =>
      simp only [bindOuts] at hb ⊢
      exact ih vs _ _ ρ1 (he.set o v) hb
  | @rename o os os' ho _ ih =>
    intro vs ρ ρ' ρ1 he hb
    cases vs with
    | nil => simp [bindOuts] at hb
    | cons v vs =>
      simp only [bindOuts] at hb ⊢
      refine ih vs _ _ ρ1 ?_ hb
      intro y hy
      have h1 : y ≠ "" := fun e => by rw [e, hR] at hy; exact absurd hy (by decide)
      have h2 : y ≠ o := fun e => by rw [e, ho] at hy; exact absurd hy (by decide)
      rw [Env.set_get_ne _ v h1, Env.set_get_ne _ v h2]
      exact he y hy

/-! ### nodes -/

/-- what `trimNode` may do to a kept bodiless node, relative to the set `R` of dropped names -/
structure NodeTrim (R : List Name) (n n2 : Node) : Prop where
  op : n2.op = n.op
  domain : n2.domain = n.domain
  attrs : n2.attrs = n.attrs
  subs : n2.subs = []
  subs0 : n.subs = []
  inputs : n2.inputs = dropTrailing Option.isNone n.inputs
  outputs : OutsTrim R n.outputs n2.outputs
  reads : ∀ x, some x ∈ n2.inputs → R.contains x = false
  const : n.isOp "Constant" = true → n.inputs = []

inductive DceRel (R : List Name) : List Node → List Node → Prop
  | nil : DceRel R [] []
  | drop {n ns ns'} : n.subs = [] → (∀ o ∈ n.outputs, R.contains o = true) → DceRel R ns ns' → DceRel R (n :: ns) ns'
  | keep {n n2 ns ns'} : NodeTrim R n n2 → DceRel R ns ns' → DceRel R (n :: ns) (n2 :: ns')

theorem constDenote_trim (sem : Sem V) {R : List Name} {n n2 : Node} (h : NodeTrim R n n2) :
    constDenote sem n2 = constDenote sem n := by
  unfold constDenote
  by_cases hc : n.isOp "Constant" = true
  · have hi : n2.inputs = n.inputs := by rw [h.inputs, h.const hc]; rfl
    simp only [Node.isOp, Node.isOnnxDomain, h.op, h.domain, h.subs, h.subs0, h.attrs, hi]
  · have hc1 : n.isOp "Constant" = false := by simpa using hc
    have hc2 : n2.isOp "Constant" = false := by
      simp only [Node.isOp, Node.isOnnxDomain, h.op, h.domain] at hc1 ⊢
      exact hc1
    simp only [hc1, hc2, Bool.false_and, Bool.false_eq_true, if_false]

theorem evalNode_trim (sem : Sem V) (hT : TrailingNoneLaw sem) {sub} {R : List Name} (hR : R.contains "" = true)
    {n n2 : Node} (h : NodeTrim R n n2) {ρ ρ' ρ1 : Env V} (he : EqOff R ρ' ρ) (hev : evalNode sem sub ρ n = some ρ1) :
    ∃ ρ1', evalNode sem sub ρ' n2 = some ρ1' ∧ EqOff R ρ1' ρ1 := by
  unfold evalNode at hev ⊢
  cases hl : lookupAll ρ n.inputs with
  | none => simp [hl] at hev
  | some args =>
    have hl2 : lookupAll ρ' n2.inputs = some (dropTrailing Option.isNone args) := by
      rw [lookupAll_eqOff he n2.inputs h.reads, h.inputs]
      exact lookupAll_dropTrailing hl
    have hno : nodeOutputs sem sub ρ' n2 (dropTrailing Option.isNone args) = nodeOutputs sem sub ρ n args := by
      unfold nodeOutputs
      simp only [h.subs, h.subs0, List.isEmpty_nil, if_true, constDenote_trim sem h, h.op, h.domain, h.attrs, hT _ _ _ args]
    rw [hl] at hev
    simp only [Option.bind] at hev
    rw [hl2]
    simp only [Option.bind, hno]
    cases hv : nodeOutputs sem sub ρ n args with
    | none => simp [hv] at hev
    | some vs =>
      simp only [hv] at hev ⊢
      exact bindOuts_trim hR h.outputs vs ρ ρ' ρ1 he hev

theorem evalNode_inR (sem : Sem V) {sub} {R : List Name} {n : Node} {ρ ρ' ρ1 : Env V}
    (hR : ∀ o ∈ n.outputs, R.contains o = true) (he : EqOff R ρ' ρ) (hev : evalNode sem sub ρ n = some ρ1) :
    EqOff R ρ' ρ1 := by
  unfold evalNode at hev
  cases hl : lookupAll ρ n.inputs with
  | none => simp [hl] at hev
  | some args =>
    rw [hl] at hev
    simp only [Option.bind] at hev
    cases hv : nodeOutputs sem sub ρ n args with
    | none => simp [hv] at hev
    | some vs =>
      simp only [hv] at hev
      exact bindOuts_inR _ vs ρ ρ' ρ1 hR he hev

/-- **Simulation**: the trimmed node list reaches an environment that agrees with the original one outside `R`. -/
theorem evalNodes_dceRel (sem : Sem V) (hT : TrailingNoneLaw sem) {sub} {R : List Name} (hR : R.contains "" = true)
    {ns ns' : List Node} (h : DceRel R ns ns') :
    ∀ (ρ ρ' ρ1 : Env V), EqOff R ρ' ρ → evalNodes (evalNode sem sub) ρ ns = some ρ1 →
      ∃ ρ1', evalNodes (evalNode sem sub) ρ' ns' = some ρ1' ∧ EqOff R ρ1' ρ1 := by
  induction h with
  | nil =>
    intro ρ ρ' ρ1 he hev
    simp only [evalNodes, Option.some.injEq] at hev
    exact ⟨ρ', rfl, hev ▸ he⟩
  | @drop n ns ns' _ hout _ ih =>
    intro ρ ρ' ρ1 he hev
    simp only [evalNodes] at hev
    cases h1 : evalNode sem sub ρ n with
    | none => simp [h1] at hev
    | some ρa =>
      simp only [h1, Option.bind] at hev
      exact ih ρa ρ' ρ1 (evalNode_inR sem hout he h1) hev
  | @keep n n2 ns ns' hn _ ih =>
    intro ρ ρ' ρ1 he hev
    simp only [evalNodes] at hev ⊢
    cases h1 : evalNode sem sub ρ n with
    | none => simp [h1] at hev
    | some ρa =>
      simp only [h1, Option.bind] at hev
      obtain ⟨ρa', e1, e2⟩ := evalNode_trim sem hT hR hn he h1
      rw [e1]
      exact ih ρa ρa' ρ1 e2 hev

theorem DceRel.bodiless {R : List Name} {ns ns' : List Node} (h : DceRel R ns ns') : ∀ k ∈ ns', k.subs = [] := by
  induction h with
  | nil => intro k hk; simp at hk
  | drop _ _ _ ih => exact ih
  | keep hn _ ih =>
    intro k hk
    rcases List.mem_cons.mp hk with e | e
    · exact e ▸ hn.subs
    · exact ih k e

/-! ## Part 2 — what `dceNodes` does on bodiless node lists -/

/-- per-node part of `dceFragB` -/
structure DceNodeWF (n : Node) : Prop where
  subs : n.subs = []
  bn : isBnTraining n = false
  self : ∀ o ∈ n.outputs, n.inputs.contains (some o) = false
  noEmpty : n.inputs.contains (some "") = false
  const : n.isOp "Constant" = true → n.inputs = []

theorem setSubs_self {n : Node} (h : n.subs = []) : n.setSubs [] = n := by
  cases n with
  | mk a b c d e f =>
    simp only [Node.subs] at h
    simp [Node.setSubs, Node.op, Node.domain, Node.inputs, Node.outputs, Node.attrs, h]

theorem bodyReads_nil {n : Node} (h : n.subs = []) (x : Name) : bodyReads n x = false := by
  simp [bodyReads, h]

theorem nodeReads_bodiless {n : Node} (h : n.subs = []) (x : Name) : nodeReads n x = n.inputs.contains (some x) := by
  simp [nodeReads, bodyReads_nil h]

/-! ### `trimNode` -/

theorem bnTrim_fields (used : Name → Bool) (n : Node) :
    (bnTrim used n).op = n.op ∧ (bnTrim used n).domain = n.domain ∧ (bnTrim used n).inputs = n.inputs ∧
    (bnTrim used n).subs = n.subs := by
  unfold bnTrim
  split <;> simp [Node.setOutputs, Node.setAttrs, Node.op, Node.domain, Node.inputs, Node.subs]

theorem trimOpt_fields (ctx : DceCtx) (used : Name → Bool) (n : Node) :
    (trimOptionalOutputs ctx used n).op = n.op ∧ (trimOptionalOutputs ctx used n).domain = n.domain ∧
    (trimOptionalOutputs ctx used n).inputs = n.inputs ∧ (trimOptionalOutputs ctx used n).subs = n.subs := by
  unfold trimOptionalOutputs
  split
  · simp
  · split
    · split
      · exact bnTrim_fields used n
      · split <;> simp [Node.setOutputs, Node.op, Node.domain, Node.inputs, Node.subs]
    · simp

theorem trimNode_fields (ctx : DceCtx) (ho : Bool) (used : Name → Bool) (n : Node) :
    (trimNode ctx ho used n).op = n.op ∧ (trimNode ctx ho used n).domain = n.domain ∧
    (trimNode ctx ho used n).inputs = dropTrailing Option.isNone n.inputs ∧ (trimNode ctx ho used n).subs = n.subs := by
  unfold trimNode
  simp only []
  split
  · have := trimOpt_fields ctx used (n.setInputs (dropTrailing Option.isNone n.inputs))
    simpa [Node.setInputs, Node.op, Node.domain, Node.inputs, Node.subs] using this
  · simp [Node.setInputs, Node.op, Node.domain, Node.inputs, Node.subs]

theorem renameUnused_trim {R : List Name} (used : Name → Bool) :
    ∀ (fl : List Nat) (os : List Name), (∀ o ∈ os, used o = false → R.contains o = true) →
      OutsTrim R os (renameUnused used fl os)
  | _, [], _ => by simp only [renameUnused]; exact OutsTrim.refl R []
  | [], o :: os, _ => by simp only [renameUnused]; exact OutsTrim.refl R _
  | f :: fs, o :: os, h => by
    simp only [renameUnused]
    have ih := renameUnused_trim used fs os (fun x hx => h x (List.mem_cons_of_mem _ hx))
    split
    · rename_i hc
      simp only [Bool.and_eq_true, Bool.not_eq_true'] at hc
      exact .rename (h o List.mem_cons_self hc.2) ih
    · exact .keep ih

theorem filter_training_self {attrs : List (String × Attr)} (h : attrs.any (·.1 == "training_mode") = false) :
    attrs.filter (fun a => a.1 != "training_mode") = attrs := by
  rw [List.filter_eq_self]
  intro a ha
  have := List.any_eq_false.mp h a ha
  simpa [bne] using this

theorem bnOuts_trim {R : List Name} (used : Name → Bool) :
    ∀ (outs : List Name), (∀ o ∈ outs, used o = false → R.contains o = true) →
      (match outs[1]? with | some o => used o | none => false) = false →
      (match outs[2]? with | some o => used o | none => false) = false → OutsTrim R outs (bnOuts outs)
  | [], _, _, _ => OutsTrim.refl R _
  | [_], _, _, _ => OutsTrim.refl R _
  | [y, a], h, h1, _ => by
    have ha : used a = false := by simpa using h1
    exact .keep (.rename (h a (by simp) ha) (OutsTrim.refl R _))
  | y :: a :: b :: r, h, h1, h2 => by
    have ha : used a = false := by simpa using h1
    have hb : used b = false := by simpa using h2
    exact .keep (.rename (h a (by simp) ha) (.rename (h b (by simp) hb) (OutsTrim.refl R _)))

theorem bnTrim_trim {R : List Name} (used : Name → Bool) (n : Node)
    (hbn : n.attrs.any (·.1 == "training_mode") = false)
    (h : ∀ o ∈ n.outputs, used o = false → R.contains o = true) :
    (bnTrim used n).attrs = n.attrs ∧ OutsTrim R n.outputs (bnTrim used n).outputs := by
  unfold bnTrim
  split
  · exact ⟨rfl, OutsTrim.refl R _⟩
  · rename_i hu
    simp only [Bool.or_eq_true, not_or, Bool.not_eq_true, bnUsed] at hu
    refine ⟨?_, ?_⟩
    · show List.filter (fun a => a.1 != "training_mode") n.attrs = n.attrs
      exact filter_training_self hbn
    show OutsTrim R n.outputs (bnOuts n.outputs)
    exact bnOuts_trim used n.outputs h hu.1 hu.2

theorem trimOpt_trim {R : List Name} (hR : R.contains "" = true) (ctx : DceCtx) (used : Name → Bool) (n : Node)
    (hbn : isBnTraining n = false) (h : ∀ o ∈ n.outputs, used o = false → R.contains o = true) :
    (trimOptionalOutputs ctx used n).attrs = n.attrs ∧ OutsTrim R n.outputs (trimOptionalOutputs ctx used n).outputs := by
  unfold trimOptionalOutputs
  split
  · exact ⟨rfl, OutsTrim.refl R _⟩
  · rename_i hd
    split
    · split
      · rename_i hop
        have hd' : n.domain = "" := by simpa using hd
        have : n.attrs.any (·.1 == "training_mode") = false := by
          simp only [isBnTraining, hop, hd', beq_self_eq_true, Bool.true_and] at hbn
          exact hbn
        exact bnTrim_trim used n this h
      · split
        · exact ⟨rfl, OutsTrim.refl R _⟩
        · exact ⟨by simp [Node.setOutputs, Node.attrs],
            by simpa [Node.setOutputs, Node.outputs] using (renameUnused_trim used _ n.outputs h).dropTrailing hR⟩
    · exact ⟨rfl, OutsTrim.refl R _⟩

theorem trimNode_trim {R : List Name} (hR : R.contains "" = true) (ctx : DceCtx) (ho : Bool) (used : Name → Bool) (n : Node)
    (hbn : isBnTraining n = false) (h : ∀ o ∈ n.outputs, used o = false → R.contains o = true) :
    (trimNode ctx ho used n).attrs = n.attrs ∧ OutsTrim R n.outputs (trimNode ctx ho used n).outputs := by
  unfold trimNode
  simp only []
  split
  · have := trimOpt_trim hR ctx used (n.setInputs (dropTrailing Option.isNone n.inputs))
      (by simpa [isBnTraining, Node.setInputs, Node.op, Node.domain, Node.attrs] using hbn)
      (by simpa [Node.setInputs, Node.outputs] using h)
    simpa [Node.setInputs, Node.outputs, Node.attrs] using this
  · exact ⟨by simp [Node.setInputs, Node.attrs], by simpa [Node.setInputs, Node.outputs] using OutsTrim.refl R n.outputs⟩

/-! ### `dceNodes` on bodiless lists -/

section
variable (ctx : DceCtx) (sub : Graph → DceOut × Graph) (ho : Bool) (outs : List Name)

/-- the kept form of a bodiless node -/
abbrev keptForm (later : DceOut) (n : Node) : Node := trimNode ctx ho (usedLater outs later.nodes later.ghosts) n

theorem dceNodes_cons_bodiless (n : Node) (rest : List Node) (hn : n.subs = []) :
    let r := dceNodes ctx sub ho outs rest
    (dceNodes ctx sub ho outs (n :: rest)).ghosts = r.ghosts ∧
    (dceNodes ctx sub ho outs (n :: rest)).nodes =
      if n.outputs.all (fun o => !usedLater outs r.nodes r.ghosts o) then r.nodes
      else keptForm ctx ho outs r n :: r.nodes := by
  intro r
  have hs : (keptForm ctx ho outs r n).subs = [] := by rw [(trimNode_fields ctx ho _ n).2.2.2]; exact hn
  simp only [dceNodes]
  split
  · simp [hn, r]
  · simp only [keptForm] at hs
    simp only [hs, dceSubs, List.nil_append, r, keptForm]
    exact ⟨trivial, by rw [setSubs_self hs]⟩

theorem dceNodes_ghosts_bodiless : ∀ (ns : List Node), (∀ n ∈ ns, n.subs = []) → (dceNodes ctx sub ho outs ns).ghosts = []
  | [], _ => rfl
  | n :: rest, h => by
    rw [(dceNodes_cons_bodiless ctx sub ho outs n rest (h n List.mem_cons_self)).1]
    exact dceNodes_ghosts_bodiless rest (fun m hm => h m (List.mem_cons_of_mem _ hm))

/-- result of a concatenation: processed prefix (nodes reading no more than prefix nodes read) followed by the result of the suffix -/
theorem dceNodes_append : ∀ (a b : List Node), (∀ n ∈ a, n.subs = []) →
    ∃ X, (dceNodes ctx sub ho outs (a ++ b)).nodes = X ++ (dceNodes ctx sub ho outs b).nodes ∧
      ∀ k ∈ X, k.subs = [] ∧ ∃ m ∈ a, ∀ x, some x ∈ k.inputs → some x ∈ m.inputs
  | [], b, _ => ⟨[], rfl, fun k hk => by simp at hk⟩
  | n :: a, b, h => by
    obtain ⟨X, hX, hXp⟩ := dceNodes_append a b (fun m hm => h m (List.mem_cons_of_mem _ hm))
    have hn := h n List.mem_cons_self
    have hc := (dceNodes_cons_bodiless ctx sub ho outs n (a ++ b) hn).2
    simp only [List.cons_append]
    rw [hc]
    have lift : ∀ k ∈ X, k.subs = [] ∧ ∃ m ∈ n :: a, ∀ x, some x ∈ k.inputs → some x ∈ m.inputs := by
      intro k hk
      obtain ⟨h1, m, hm, h2⟩ := hXp k hk
      exact ⟨h1, m, List.mem_cons_of_mem _ hm, h2⟩
    split
    · exact ⟨X, hX, lift⟩
    · refine ⟨keptForm ctx ho outs (dceNodes ctx sub ho outs (a ++ b)) n :: X, by rw [hX]; rfl, ?_⟩
      intro k hk
      rcases List.mem_cons.mp hk with e | e
      · subst e
        have hf := trimNode_fields ctx ho (usedLater outs (dceNodes ctx sub ho outs (a ++ b)).nodes (dceNodes ctx sub ho outs (a ++ b)).ghosts) n
        refine ⟨by rw [hf.2.2.2]; exact hn, n, List.mem_cons_self, ?_⟩
        intro x hx
        rw [hf.2.2.1] at hx
        exact mem_of_mem_dropTrailing _ hx
      · exact lift k e

theorem orderOKE_tail {n : Node} {rest : List Node} (h : orderOKE (n :: rest) = true) : orderOKE rest = true := by
  simp only [orderOKE, Bool.and_eq_true] at h
  exact h.2

theorem orderOKE_head {n : Node} {rest : List Node} (h : orderOKE (n :: rest) = true) {m : Node} (hm : m ∈ rest)
    {o : Name} (ho : o ∈ m.outputs) (hne : o ≠ "") : mentionsTop n o = false := by
  simp only [orderOKE, Bool.and_eq_true, List.all_eq_true, Bool.or_eq_true, beq_iff_eq, Bool.not_eq_true'] at h
  rcases h.1 m hm o ho with e | e
  · exact absurd e hne
  · exact e

theorem orderOK_append_left : ∀ {a b : List Node}, orderOKE (a ++ b) = true →
    ∀ m ∈ a, ∀ k ∈ b, ∀ o ∈ k.outputs, o ≠ "" → mentionsTop m o = false
  | [], _, _, m, hm, _, _, _, _, _ => by simp at hm
  | n :: a, b, h, m, hm, k, hk, o, ho', hne => by
    rcases List.mem_cons.mp hm with e | e
    · subst e
      exact orderOKE_head (n := m) (rest := a ++ b) h (List.mem_append_right _ hk) ho' hne
    · exact orderOK_append_left (orderOKE_tail h) m e k hk o ho' hne

/-- the names dropped by the sweep of `ns`: `""` and every node output nobody reads in the result -/
def droppedNames (ns : List Node) : List Name :=
  "" :: (ns.flatMap (·.outputs)).filter fun o => !usedLater outs (dceNodes ctx sub ho outs ns).nodes [] o

theorem dropped_has_empty (ns : List Node) : (droppedNames ctx sub ho outs ns).contains "" = true := by
  simp [droppedNames]

/-- an output of `n` that is unused when `n` is visited is unused in the final result -/
theorem unused_in_dropped {a rest : List Node} {n : Node} (hw : ∀ m ∈ a ++ n :: rest, DceNodeWF m)
    (hord : orderOKE (a ++ n :: rest) = true) {o : Name} (ho' : o ∈ n.outputs)
    (hu : usedLater outs (dceNodes ctx sub ho outs rest).nodes (dceNodes ctx sub ho outs rest).ghosts o = false) :
    (droppedNames ctx sub ho outs (a ++ n :: rest)).contains o = true := by
  have hbod : ∀ m ∈ a ++ n :: rest, m.subs = [] := fun m hm => (hw m hm).subs
  have hrest : ∀ m ∈ rest, m.subs = [] := fun m hm => hbod m (List.mem_append_right _ (List.mem_cons_of_mem _ hm))
  have hgh := dceNodes_ghosts_bodiless ctx sub ho outs rest hrest
  rw [hgh] at hu
  simp only [usedLater, List.any_nil, Bool.or_false, Bool.or_eq_false_iff] at hu
  obtain ⟨X, hX, hXp⟩ := dceNodes_append ctx sub ho outs a (n :: rest) (fun m hm => hbod m (List.mem_append_left _ hm))
  have hnw := hw n (List.mem_append_right _ List.mem_cons_self)
  have hc := (dceNodes_cons_bodiless ctx sub ho outs n rest hnw.subs).2
  simp only [droppedNames, List.contains_cons]
  by_cases he : o = ""
  · simp [he]
  · have hmem : o ∈ (a ++ n :: rest).flatMap (·.outputs) :=
      List.mem_flatMap.mpr ⟨n, List.mem_append_right _ List.mem_cons_self, ho'⟩
    have hfin : usedLater outs (dceNodes ctx sub ho outs (a ++ n :: rest)).nodes [] o = false := by
      simp only [usedLater, List.any_nil, Bool.or_false, Bool.or_eq_false_iff]
      refine ⟨hu.1, ?_⟩
      rw [hX, List.any_append, Bool.or_eq_false_iff]
      constructor
      · apply List.any_eq_false.mpr
        intro k hk
        obtain ⟨hks, m, hm, hsub⟩ := hXp k hk
        rw [nodeReads_bodiless hks]
        intro hc'
        have := hsub o (List.contains_iff_mem.mp hc')
        have hmt := orderOK_append_left hord m hm n List.mem_cons_self o ho' he
        simp only [mentionsTop, Bool.or_eq_false_iff] at hmt
        rw [List.contains_iff_mem.mpr this] at hmt
        exact absurd hmt.1 (by decide)
      · rw [hc]
        split
        · exact hu.2
        · simp only [List.any_cons, Bool.or_eq_false_iff]
          refine ⟨?_, hu.2⟩
          have hf := trimNode_fields ctx ho (usedLater outs (dceNodes ctx sub ho outs rest).nodes (dceNodes ctx sub ho outs rest).ghosts) n
          rw [nodeReads_bodiless (by rw [hf.2.2.2]; exact hnw.subs)]
          cases hcc : (keptForm ctx ho outs (dceNodes ctx sub ho outs rest) n).inputs.contains (some o) with
          | false => rfl
          | true =>
            have h1 := List.contains_iff_mem.mp hcc
            simp only [keptForm] at h1
            rw [hf.2.2.1] at h1
            have h2 := mem_of_mem_dropTrailing _ h1
            have h3 := hnw.self o ho'
            rw [List.contains_iff_mem.mpr h2] at h3
            exact absurd h3 (by decide)
    simp only [Bool.or_eq_true]
    right
    apply List.contains_iff_mem.mpr
    exact List.mem_filter.mpr ⟨hmem, by simp [hfin]⟩

/-- **`dceNodes` realises `DceRel`** for the dropped names of the whole list. -/
theorem dceNodes_rel : ∀ (b a : List Node), (∀ m ∈ a ++ b, DceNodeWF m) → orderOKE (a ++ b) = true →
    DceRel (droppedNames ctx sub ho outs (a ++ b)) b (dceNodes ctx sub ho outs b).nodes
  | [], _, _, _ => .nil
  | n :: rest, a, hw, hord => by
    have e : a ++ n :: rest = (a ++ [n]) ++ rest := by simp
    have ih := dceNodes_rel rest (a ++ [n]) (by rw [← e]; exact hw) (by rw [← e]; exact hord)
    rw [← e] at ih
    have hnw := hw n (List.mem_append_right _ List.mem_cons_self)
    have hc := (dceNodes_cons_bodiless ctx sub ho outs n rest hnw.subs).2
    have hR := dropped_has_empty ctx sub ho outs (a ++ n :: rest)
    have hun : ∀ o ∈ n.outputs,
        usedLater outs (dceNodes ctx sub ho outs rest).nodes (dceNodes ctx sub ho outs rest).ghosts o = false →
        (droppedNames ctx sub ho outs (a ++ n :: rest)).contains o = true :=
      fun o ho' hu => unused_in_dropped ctx sub ho outs hw hord ho' hu
    rw [hc]
    split
    · rename_i hall
      refine .drop hnw.subs (fun o ho' => hun o ho' ?_) ih
      have := List.all_eq_true.mp hall o ho'
      simpa using this
    · rename_i hnall
      refine .keep ?_ ih
      have hf := trimNode_fields ctx ho (usedLater outs (dceNodes ctx sub ho outs rest).nodes (dceNodes ctx sub ho outs rest).ghosts) n
      have ht := trimNode_trim hR ctx ho (usedLater outs (dceNodes ctx sub ho outs rest).nodes (dceNodes ctx sub ho outs rest).ghosts) n hnw.bn hun
      refine { op := hf.1, domain := hf.2.1, attrs := ht.1, subs := by rw [hf.2.2.2]; exact hnw.subs, subs0 := hnw.subs,
               inputs := hf.2.2.1, outputs := ht.2, reads := ?_, const := hnw.const }
      intro x hx
      -- `x` is read by a node of the final result, so it is not dropped
      cases hcx : (droppedNames ctx sub ho outs (a ++ n :: rest)).contains x with
      | false => rfl
      | true =>
        exfalso
        simp only [droppedNames, List.contains_cons, Bool.or_eq_true, beq_iff_eq] at hcx
        have hxn : some x ∈ n.inputs := by
          rw [hf.2.2.1] at hx
          exact mem_of_mem_dropTrailing _ hx
        rcases hcx with he | hm
        · have := hnw.noEmpty
          rw [he] at hxn
          rw [List.contains_iff_mem.mpr hxn] at this
          exact absurd this (by decide)
        · have hm' := (List.mem_filter.mp (List.contains_iff_mem.mp hm)).2
          simp only [Bool.not_eq_true', usedLater, List.any_nil, Bool.or_false, Bool.or_eq_false_iff] at hm'
          obtain ⟨X, hX, _⟩ := dceNodes_append ctx sub ho outs a (n :: rest)
            (fun m hm => (hw m (List.mem_append_left _ hm)).subs)
          rw [hX, List.any_append, Bool.or_eq_false_iff, hc] at hm'
          have h2 := hm'.2.2
          rw [if_neg hnall] at h2
          simp only [List.any_cons, Bool.or_eq_false_iff] at h2
          have h3 := h2.1
          rw [nodeReads_bodiless (by rw [hf.2.2.2]; exact hnw.subs)] at h3
          rw [List.contains_iff_mem.mpr hx] at h3
          exact absurd h3 (by decide)

end

/-! ## Part 3 — the pass on a graph of the fragment -/

@[simp] theorem Graph.mk_inputs (a : List Name) (b : List (Name × String)) (c : List Node) (d : List Name) : (Graph.mk a b c d).inputs = a := rfl
@[simp] theorem Graph.mk_inits (a : List Name) (b : List (Name × String)) (c : List Node) (d : List Name) : (Graph.mk a b c d).inits = b := rfl
@[simp] theorem Graph.mk_nodes (a : List Name) (b : List (Name × String)) (c : List Node) (d : List Name) : (Graph.mk a b c d).nodes = c := rfl
@[simp] theorem Graph.mk_outputs (a : List Name) (b : List (Name × String)) (c : List Node) (d : List Name) : (Graph.mk a b c d).outputs = d := rfl

theorem dceFragB_sound {g : Graph} (h : dceFragB g = true) :
    (∀ m ∈ g.nodes, DceNodeWF m) ∧ orderOKE g.nodes = true ∧ g.outputs.contains "" = false ∧ g.inputs.contains "" = false := by
  simp only [dceFragB, Bool.and_eq_true, List.all_eq_true, Bool.not_eq_true', Bool.or_eq_true] at h
  obtain ⟨⟨⟨hn, hord⟩, hout⟩, hin⟩ := h
  refine ⟨fun m hm => ?_, hord, hout, hin⟩
  obtain ⟨⟨⟨⟨h1, h2⟩, h3⟩, h4⟩, h5⟩ := hn m hm
  refine { subs := List.isEmpty_iff.mp h1, bn := h2, self := fun o ho => h3 o ho, noEmpty := h4, const := ?_ }
  intro hc
  rcases h5 with h5 | h5
  · rw [hc] at h5; exact absurd h5 (by decide)
  · exact List.isEmpty_iff.mp h5

theorem dcePass_sound (sem : Sem V) (hT : TrailingNoneLaw sem) (ctx : DceCtx) (hasOpset : Bool) (g : Graph)
    (hwf : dceFragB g = true) (d : Nat) (outer : Env V) (args : List (Option V)) (vs : List V)
    (hev : evalGraph sem (d + 1) outer g args = some vs) :
    evalGraph sem (d + 1) outer (dcePass ctx hasOpset g).2 args = some vs := by
  obtain ⟨hw, hord, hout, _⟩ := dceFragB_sound hwf
  have hbod : ∀ m ∈ g.nodes, m.subs = [] := fun m hm => (hw m hm).subs
  -- the sweep
  let sub := dceGraphLike ctx 7 false
  let D := dceNodes ctx sub hasOpset g.outputs g.nodes
  have hgh : D.ghosts = [] := dceNodes_ghosts_bodiless ctx sub hasOpset g.outputs g.nodes hbod
  let R := droppedNames ctx sub hasOpset g.outputs g.nodes
  have hR : R.contains "" = true := dropped_has_empty ctx sub hasOpset g.outputs g.nodes
  have hrel : DceRel R g.nodes D.nodes := by
    have := dceNodes_rel ctx sub hasOpset g.outputs g.nodes [] (by simpa using hw) (by simpa using hord)
    simpa using this
  have hpass : (dcePass ctx hasOpset g).2 =
      Graph.mk g.inputs (g.inits.filter fun p => !(deadInits (Graph.mk g.inputs g.inits D.nodes g.outputs) []).contains p.1)
        D.nodes g.outputs := by
    have hgl : dceGraphLike ctx (7 + 1) hasOpset g = ({ D with nodes := [] }, Graph.mk g.inputs g.inits D.nodes g.outputs) := rfl
    unfold dcePass
    rw [show maxDepth = 7 + 1 from rfl, hgl]
    show Graph.mk g.inputs (g.inits.filter fun p => !(deadInits (Graph.mk g.inputs g.inits D.nodes g.outputs) D.ghosts).contains p.1)
      D.nodes g.outputs = _
    rw [hgh]
  rw [hpass]
  -- the node part
  have hnode : evalGraph sem (d + 1) outer (Graph.mk g.inputs g.inits D.nodes g.outputs) args = some vs := by
    simp only [evalGraph] at hev ⊢
    have hs : startEnv sem outer (Graph.mk g.inputs g.inits D.nodes g.outputs) args = startEnv sem outer g args := rfl
    rw [hs]
    cases h0 : startEnv sem outer g args with
    | none => simp [h0] at hev
    | some ρ0 =>
      simp only [h0, Option.bind, Graph.mk_nodes, Graph.mk_outputs] at hev ⊢
      cases h1 : evalNodes (evalNode sem (evalGraph sem d)) ρ0 g.nodes with
      | none => simp [h1] at hev
      | some ρ =>
        simp only [h1] at hev
        obtain ⟨ρ1', e1, e2⟩ := evalNodes_dceRel sem hT hR hrel ρ0 ρ0 ρ (fun _ _ => rfl) h1
        rw [e1]
        simp only []
        rw [lookupOuts_eqOff e2 g.outputs ?_]
        · exact hev
        · intro x hx
          cases hc : R.contains x with
          | false => rfl
          | true =>
            exfalso
            simp only [R, droppedNames, List.contains_cons, Bool.or_eq_true, beq_iff_eq] at hc
            rcases hc with he | hm
            · rw [he] at hx
              rw [List.contains_iff_mem.mpr hx] at hout
              exact absurd hout (by decide)
            · have hm' := (List.mem_filter.mp (List.contains_iff_mem.mp hm)).2
              simp only [Bool.not_eq_true', usedLater, Bool.or_eq_false_iff] at hm'
              rw [List.contains_iff_mem.mpr hx] at hm'
              exact absurd hm'.1.1 (by decide)
  -- the initializer part
  rw [prune_sound sem _ g.inputs g.inits D.nodes g.outputs d outer args hrel.bodiless]
  · exact hnode
  · intro x hx
    cases hc : (deadInits (Graph.mk g.inputs g.inits D.nodes g.outputs) []).contains x with
    | false => rfl
    | true =>
      exfalso
      obtain ⟨p, hp, hpx⟩ := List.mem_map.mp (List.contains_iff_mem.mp hc)
      have := (List.mem_filter.mp hp).2
      simp only [Graph.mk_inputs, Graph.mk_outputs, Graph.mk_nodes, Bool.not_eq_true', Bool.or_eq_false_iff] at this
      rw [hpx, List.contains_iff_mem.mpr hx] at this
      exact absurd this.2 (by decide)
  · intro x hx
    cases hc : (deadInits (Graph.mk g.inputs g.inits D.nodes g.outputs) []).contains x with
    | false => rfl
    | true =>
      exfalso
      obtain ⟨p, hp, hpx⟩ := List.mem_map.mp (List.contains_iff_mem.mp hc)
      have := (List.mem_filter.mp hp).2
      simp only [Graph.mk_inputs, Graph.mk_outputs, Graph.mk_nodes, Bool.not_eq_true', Bool.or_eq_false_iff, usedLater] at this
      rw [hpx, List.contains_iff_mem.mpr hx] at this
      exact absurd this.1.1.1 (by decide)
  · intro n hn x hx
    cases hc : (deadInits (Graph.mk g.inputs g.inits D.nodes g.outputs) []).contains x with
    | false => rfl
    | true =>
      exfalso
      obtain ⟨p, hp, hpx⟩ := List.mem_map.mp (List.contains_iff_mem.mp hc)
      have := (List.mem_filter.mp hp).2
      simp only [Graph.mk_inputs, Graph.mk_outputs, Graph.mk_nodes, Bool.not_eq_true', Bool.or_eq_false_iff, usedLater] at this
      have h2 := List.any_eq_false.mp this.1.1.2 n hn
      rw [hpx, nodeReads_bodiless (hrel.bodiless n hn), List.contains_iff_mem.mpr hx] at h2
      exact absurd h2 (by decide)

/-! ## Part 4 — the pass maps the fragment into itself -/

theorem OutsTrim.mem {R : List Name} {os os' : List Name} (h : OutsTrim R os os') : ∀ o' ∈ os', o' = "" ∨ o' ∈ os := by
  induction h with
  | drop _ => intro o' ho'; simp at ho'
  | @keep o os os' _ ih =>
    intro o' ho'
    rcases List.mem_cons.mp ho' with e | e
    · exact Or.inr (e ▸ List.mem_cons_self)
    · exact (ih o' e).imp id (List.mem_cons_of_mem _)
  | @rename o os os' _ _ ih =>
    intro o' ho'
    rcases List.mem_cons.mp ho' with e | e
    · exact Or.inl e
    · exact (ih o' e).imp id (List.mem_cons_of_mem _)

theorem DceRel.mem {R : List Name} {ns ns' : List Node} (h : DceRel R ns ns') : ∀ k ∈ ns', ∃ n ∈ ns, NodeTrim R n k := by
  induction h with
  | nil => intro k hk; simp at hk
  | drop _ _ _ ih =>
    intro k hk
    obtain ⟨n, hn, ht⟩ := ih k hk
    exact ⟨n, List.mem_cons_of_mem _ hn, ht⟩
  | keep hn _ ih =>
    intro k hk
    rcases List.mem_cons.mp hk with e | e
    · exact ⟨_, List.mem_cons_self, e ▸ hn⟩
    · obtain ⟨n, hn', ht⟩ := ih k e
      exact ⟨n, List.mem_cons_of_mem _ hn', ht⟩

theorem NodeTrim.mentions {R : List Name} {n k : Node} (h : NodeTrim R n k) {o : Name} (hne : o ≠ "")
    (hm : mentionsTop n o = false) : mentionsTop k o = false := by
  simp only [mentionsTop, Bool.or_eq_false_iff] at hm ⊢
  constructor
  · cases hc : k.inputs.contains (some o) with
    | false => rfl
    | true =>
      have h1 := List.contains_iff_mem.mp hc
      rw [h.inputs] at h1
      have h2 := mem_of_mem_dropTrailing _ h1
      rw [List.contains_iff_mem.mpr h2] at hm
      exact absurd hm.1 (by decide)
  · cases hc : k.outputs.contains o with
    | false => rfl
    | true =>
      rcases h.outputs.mem o (List.contains_iff_mem.mp hc) with e | e
      · exact absurd e hne
      · rw [List.contains_iff_mem.mpr e] at hm
        exact absurd hm.2 (by decide)

theorem DceRel.orderOKE {R : List Name} {ns ns' : List Node} (h : DceRel R ns ns') :
    orderOKE ns = true → orderOKE ns' = true := by
  induction h with
  | nil => exact id
  | drop _ _ _ ih => exact fun ho => ih (orderOKE_tail ho)
  | @keep n n2 ns ns' hn hrel ih =>
    intro ho
    simp only [OV.C03.orderOKE, Bool.and_eq_true, List.all_eq_true, Bool.or_eq_true, beq_iff_eq, Bool.not_eq_true']
    refine ⟨?_, ih (orderOKE_tail ho)⟩
    intro m' hm' o' ho'
    by_cases hne : o' = ""
    · exact Or.inl hne
    · right
      obtain ⟨m, hm, ht⟩ := hrel.mem m' hm'
      rcases ht.outputs.mem o' ho' with e | e
      · exact absurd e hne
      · exact hn.mentions hne (orderOKE_head ho hm e hne)

theorem NodeTrim.wf {R : List Name} {n k : Node} (h : NodeTrim R n k) (hw : DceNodeWF n) : DceNodeWF k := by
  have hsub : ∀ x, some x ∈ k.inputs → some x ∈ n.inputs := by
    intro x hx
    rw [h.inputs] at hx
    exact mem_of_mem_dropTrailing _ hx
  refine { subs := h.subs, bn := ?_, self := ?_, noEmpty := ?_, const := ?_ }
  · have := hw.bn
    simp only [isBnTraining, h.op, h.domain, h.attrs] at this ⊢
    exact this
  · intro o ho
    cases hc : k.inputs.contains (some o) with
    | false => rfl
    | true =>
      have h1 := hsub o (List.contains_iff_mem.mp hc)
      rcases h.outputs.mem o ho with e | e
      · have := hw.noEmpty
        rw [e] at h1
        rw [List.contains_iff_mem.mpr h1] at this
        exact absurd this (by decide)
      · have := hw.self o e
        rw [List.contains_iff_mem.mpr h1] at this
        exact absurd this (by decide)
  · cases hc : k.inputs.contains (some "") with
    | false => rfl
    | true =>
      have := hw.noEmpty
      rw [List.contains_iff_mem.mpr (hsub "" (List.contains_iff_mem.mp hc))] at this
      exact absurd this (by decide)
  · intro hc
    have hc' : n.isOp "Constant" = true := by
      simp only [Node.isOp, Node.isOnnxDomain, h.op, h.domain] at hc ⊢
      exact hc
    rw [h.inputs, hw.const hc']
    rfl

theorem dceFragB_of {g : Graph} (hw : ∀ m ∈ g.nodes, DceNodeWF m) (hord : orderOKE g.nodes = true)
    (hout : g.outputs.contains "" = false) (hin : g.inputs.contains "" = false) : dceFragB g = true := by
  simp only [dceFragB, Bool.and_eq_true, List.all_eq_true, Bool.not_eq_true', Bool.or_eq_true]
  refine ⟨⟨⟨fun m hm => ?_, hord⟩, hout⟩, hin⟩
  have h := hw m hm
  refine ⟨⟨⟨⟨List.isEmpty_iff.mpr h.subs, h.bn⟩, h.self⟩, h.noEmpty⟩, ?_⟩
  cases hc : m.isOp "Constant" with
  | false => exact Or.inl rfl
  | true => exact Or.inr (List.isEmpty_iff.mpr (h.const hc))

/-- **The pass maps the fragment into itself**, so it can be iterated / composed inside `optimize_ir`. -/
theorem dceFragB_preserved (ctx : DceCtx) (hasOpset : Bool) (g : Graph) (hwf : dceFragB g = true) :
    dceFragB (dcePass ctx hasOpset g).2 = true := by
  obtain ⟨hw, hord, hout, hin⟩ := dceFragB_sound hwf
  have hbod : ∀ m ∈ g.nodes, m.subs = [] := fun m hm => (hw m hm).subs
  let sub := dceGraphLike ctx 7 false
  let D := dceNodes ctx sub hasOpset g.outputs g.nodes
  have hgh : D.ghosts = [] := dceNodes_ghosts_bodiless ctx sub hasOpset g.outputs g.nodes hbod
  have hrel : DceRel (droppedNames ctx sub hasOpset g.outputs g.nodes) g.nodes D.nodes := by
    have := dceNodes_rel ctx sub hasOpset g.outputs g.nodes [] (by simpa using hw) (by simpa using hord)
    simpa using this
  have hpass : (dcePass ctx hasOpset g).2 =
      Graph.mk g.inputs (g.inits.filter fun p => !(deadInits (Graph.mk g.inputs g.inits D.nodes g.outputs) []).contains p.1)
        D.nodes g.outputs := by
    have hgl : dceGraphLike ctx (7 + 1) hasOpset g = ({ D with nodes := [] }, Graph.mk g.inputs g.inits D.nodes g.outputs) := rfl
    unfold dcePass
    rw [show maxDepth = 7 + 1 from rfl, hgl]
    show Graph.mk g.inputs (g.inits.filter fun p => !(deadInits (Graph.mk g.inputs g.inits D.nodes g.outputs) D.ghosts).contains p.1)
      D.nodes g.outputs = _
    rw [hgh]
  rw [hpass]
  apply dceFragB_of
  · intro k hk
    obtain ⟨n, hn, ht⟩ := hrel.mem k hk
    exact ht.wf (hw n hn)
  · exact hrel.orderOKE hord
  · exact hout
  · exact hin

end OV.C03
