import OV.Model.C14History
/-! Helper lemmas for C14 (stash algebra, one `try_rewrite`, the rewriting loop). -/
namespace OV.C14

theorem applyWrites_not_mem (ws : List (Field × Val)) (s : Stash) (f : Field)
    (h : f ∉ ws.map Prod.fst) : applyWrites ws s f = s f := by
  induction ws generalizing s with
  | nil => rfl
  | cons p ws ih =>
    obtain ⟨g, v⟩ := p
    simp only [List.map_cons, List.mem_cons, not_or] at h
    simp only [applyWrites]
    rw [ih _ h.2]
    simp only [Stash.set, h.1, if_false]

theorem applyWrites_mem (ws : List (Field × Val)) (s s' : Stash) (f : Field)
    (h : f ∈ ws.map Prod.fst) : applyWrites ws s f = applyWrites ws s' f := by
  induction ws generalizing s s' with
  | nil => simp at h
  | cons p ws ih =>
    obtain ⟨g, v⟩ := p
    simp only [applyWrites]
    by_cases hin : f ∈ ws.map Prod.fst
    · exact ih _ _ hin
    · rw [applyWrites_not_mem _ _ _ hin, applyWrites_not_mem _ _ _ hin]
      simp only [List.map_cons, List.mem_cons] at h
      rcases h with h | h
      · simp only [Stash.set, h, if_true]
      · exact absurd h hin

theorem AgreeOn.refl (fs : List Field) (s : Stash) : AgreeOn fs s s := fun _ _ => rfl
theorem AgreeOn.symm {fs : List Field} {s s' : Stash} (h : AgreeOn fs s s') : AgreeOn fs s' s :=
  fun f hf => (h f hf).symm
theorem AgreeOn.trans {fs : List Field} {s s' s'' : Stash} (h : AgreeOn fs s s') (h' : AgreeOn fs s' s'') :
    AgreeOn fs s s'' := fun f hf => (h f hf).trans (h' f hf)

/-- writes that avoid `fs` keep every field of `fs` -/
theorem applyWrites_keeps (fs : List Field) (ws : List (Field × Val)) (s : Stash)
    (h : ∀ p, p ∈ ws → p.1 ∉ fs) : AgreeOn fs s (applyWrites ws s) := by
  intro f hf
  rw [applyWrites_not_mem]
  intro hmem
  rcases List.mem_map.1 hmem with ⟨p, hp, rfl⟩
  exact h p hp hf

theorem ok_reads {spec : RuleSpec} (h : spec.ok = true) :
    spec.checkEarlyReads = [] ∧ ∀ f, f ∈ spec.rewriteReads → f ∈ spec.checkWrites := by
  unfold RuleSpec.ok at h
  simp only [Bool.and_eq_true, List.all_eq_true, List.isEmpty_iff, List.contains_iff_mem] at h
  exact ⟨h.1.2, fun f hf => h.1.1 f hf⟩

/-- `try_rewrite` never changes a `__init__`-only field. -/
theorem tryRewrite_consts {I O : Type} {spec : RuleSpec} {b : RuleBeh I O} (hr : Respects spec b)
    (s : Stash) (i : I) : AgreeOn spec.consts s (tryRewrite b s i).1 := by
  unfold tryRewrite
  have h1 : AgreeOn spec.consts s (applyWrites (b.check s i).2 s) :=
    applyWrites_keeps _ _ _ (hr.consts_kept_check s i)
  by_cases hc : (b.check s i).1 = true
  · simp only [hc, if_true]
    exact h1.trans (applyWrites_keeps _ _ _ (hr.consts_kept_rewrite _ i))
  · simp only [hc]
    exact h1

/-- **One `try_rewrite` is independent of whatever earlier matches left on the object.** -/
theorem tryRewrite_indep {I O : Type} {spec : RuleSpec} {b : RuleBeh I O}
    (hok : spec.ok = true) (hr : Respects spec b) (s s' : Stash) (i : I)
    (hag : AgreeOn spec.consts s s') :
    (tryRewrite b s i).2 = (tryRewrite b s' i).2 := by
  obtain ⟨he, hrw⟩ := ok_reads hok
  have hcheck : b.check s i = b.check s' i := by
    apply hr.check_reads
    rw [he, List.nil_append]
    exact hag
  unfold tryRewrite
  rw [← hcheck]
  by_cases hc : (b.check s i).1 = true
  · simp only [hc, if_true]
    have : b.rewrite (applyWrites (b.check s i).2 s) i = b.rewrite (applyWrites (b.check s i).2 s') i := by
      apply hr.rewrite_reads
      intro f hf
      rcases List.mem_append.1 hf with hf | hf
      · exact applyWrites_mem _ _ _ _ (hr.check_writes s i hc f (hrw f hf))
      · have hnot : f ∉ (b.check s i).2.map Prod.fst := by
          intro hmem
          rcases List.mem_map.1 hmem with ⟨p, hp, rfl⟩
          exact hr.consts_kept_check s i p hp hf
        rw [applyWrites_not_mem _ _ _ hnot, applyWrites_not_mem _ _ _ hnot]
        exact hag f hf
    rw [this]
  · simp only [hc, Bool.false_eq_true, if_false]

/-- stashes of all installed rules agree on their `__init__`-only fields -/
def AgreeAll {I O : Type} (w : World I O) (σ σ' : Stashes) : Prop :=
  ∀ r p, w.rules[r]? = some p → AgreeOn p.1.consts (σ (w.owner r)) (σ' (w.owner r))

theorem AgreeAll.refl {I O : Type} (w : World I O) (σ : Stashes) : AgreeAll w σ σ :=
  fun _ _ _ => AgreeOn.refl _ _
theorem AgreeAll.trans {I O : Type} {w : World I O} {σ σ' σ'' : Stashes}
    (h : AgreeAll w σ σ') (h' : AgreeAll w σ' σ'') : AgreeAll w σ σ'' :=
  fun r p hp => (h r p hp).trans (h' r p hp)
theorem AgreeAll.symm {I O : Type} {w : World I O} {σ σ' : Stashes}
    (h : AgreeAll w σ σ') : AgreeAll w σ' σ := fun r p hp => (h r p hp).symm

theorem agreeAll_set {I O : Type} {w : World I O} (hw : w.Ok) (σ : Stashes) (r : Nat)
    (p : RuleSpec × RuleBeh I O) (hp : w.rules[r]? = some p) (i : I) :
    AgreeAll w σ (σ.set (w.owner r) (tryRewrite p.2 (σ (w.owner r)) i).1) := by
  intro k q hq
  unfold Stashes.set
  by_cases hk : w.owner k = w.owner r
  · simp only [hk, if_true]
    have hc : q.1.consts = p.1.consts := hw.2 k r q p hq hp hk
    rw [hc]
    exact tryRewrite_consts (hw.1 p (List.mem_of_getElem? hp)).2 _ _
  · simp only [hk, if_false]
    exact AgreeOn.refl _ _

/-- the rewriting loop never changes an `__init__`-only field of any rule -/
theorem runRewrite_consts {I O : Type} {w : World I O} (hw : w.Ok) (strat : List (Option O) → Next I)
    (n : Nat) (acc : List (Option O)) (σ : Stashes) :
    AgreeAll w σ (runRewrite w strat n acc σ).1 := by
  induction n generalizing acc σ with
  | zero => exact AgreeAll.refl _ _
  | succ n ih =>
    unfold runRewrite
    split
    · exact AgreeAll.refl _ _
    · exact AgreeAll.refl _ _
    · rename_i r i _
      split
      · rename_i p hp
        exact (agreeAll_set hw σ r p hp i).trans (ih _ _)
      · exact AgreeAll.refl _ _

/-- **The whole rewriting operation** (any adaptive sequence of attempts, any number of them, possibly
ending in an exception) returns the same outcomes from any two stash states. -/
theorem runRewrite_indep {I O : Type} {w : World I O} (hw : w.Ok) (strat : List (Option O) → Next I)
    (n : Nat) (acc : List (Option O)) (σ σ' : Stashes) (hag : AgreeAll w σ σ') :
    (runRewrite w strat n acc σ).2 = (runRewrite w strat n acc σ').2 := by
  induction n generalizing acc σ σ' with
  | zero => rfl
  | succ n ih =>
    unfold runRewrite
    split
    · rfl
    · rfl
    · rename_i r i _
      split
      · rename_i p hp
        have hp' := hw.1 p (List.mem_of_getElem? hp)
        have hout := tryRewrite_indep hp'.1 hp'.2 (σ (w.owner r)) (σ' (w.owner r)) i (hag r p hp)
        simp only []
        rw [hout]
        apply ih
        exact ((agreeAll_set hw σ r p hp i).symm.trans hag).trans (agreeAll_set hw σ' r p hp i)
      · rfl

/-! opset interning -/

theorem intern_fields (cache : List OpsetKey) (k : OpsetKey) : (intern cache k).2 = (k.domain, k.version) := by
  unfold intern
  split
  · rename_i c hc
    have := List.find?_some hc
    simp only [beq_iff_eq] at this
    rw [this]
  · rfl

theorem internAll_fields (cache : List OpsetKey) (ks : List OpsetKey) :
    (internAll cache ks).2 = ks.map (fun k => (k.domain, k.version)) := by
  induction ks generalizing cache with
  | nil => rfl
  | cons k ks ih => simp only [internAll, List.map_cons, intern_fields, ih]

/-! pattern builder -/

theorem runEvent_global (st : BState) (e : BEv) : (runEvent true st e).global = st.global := by
  cases e with
  | sugar => simp only [runEvent]
  | raise => simp only [runEvent]
  | nested b body => simp only [runEvent, Bool.not_true, Bool.and_false, Bool.false_eq_true, if_false]

theorem runEvents_global (st : BState) (es : List BEv) : (runEvents true st es).global = st.global := by
  induction es generalizing st with
  | nil => simp only [runEvents]
  | cons e es ih =>
    simp only [runEvents]
    split
    · exact runEvent_global st e
    · rw [ih, runEvent_global]

/-! sorting -/

theorem leStr_trans (a b c : String) : leStr a b = true → leStr b c = true → leStr a c = true := by
  unfold leStr; simp only [decide_eq_true_eq]; exact String.le_trans
theorem leStr_total (a b : String) : (leStr a b || leStr b a) = true := by
  unfold leStr; simp only [Bool.or_eq_true, decide_eq_true_eq]; exact String.le_total a b

theorem mergeSort_perm_eq {l₁ l₂ : List String} (h : l₁.Perm l₂) :
    l₁.mergeSort leStr = l₂.mergeSort leStr := by
  apply List.Perm.eq_of_pairwise (le := fun a b => leStr a b = true)
  · intro a b _ _ hab hba
    unfold leStr at hab hba
    simp only [decide_eq_true_eq] at hab hba
    exact String.le_antisymm hab hba
  · exact List.pairwise_mergeSort leStr_trans leStr_total l₁
  · exact List.pairwise_mergeSort leStr_trans leStr_total l₂
  · exact (List.mergeSort_perm l₁ leStr).trans (h.trans (List.mergeSort_perm l₂ leStr).symm)

theorem key_inj (a b : UsedOpset) (h1 : a.1 = b.1) (hk : a.key = b.key) : a = b := by
  obtain ⟨ad, av⟩ := a
  obtain ⟨bd, bv⟩ := b
  simp only [UsedOpset.key] at hk
  simp only at h1
  subst h1
  cases av <;> cases bv <;> simp at hk <;> simp [hk]

theorem leOpset_eq_of_eq {a b : UsedOpset} (h : a.1 = b.1) : leOpset a b = decide (a.key ≤ b.key) := by
  unfold leOpset; rw [if_pos h]
theorem leOpset_eq_of_ne {a b : UsedOpset} (h : ¬ a.1 = b.1) : leOpset a b = decide (a.1 ≤ b.1) := by
  unfold leOpset; rw [if_neg h]

theorem leOpset_total (a b : UsedOpset) : (leOpset a b || leOpset b a) = true := by
  by_cases h : a.1 = b.1
  · rw [leOpset_eq_of_eq h, leOpset_eq_of_eq h.symm, Bool.or_eq_true, decide_eq_true_eq, decide_eq_true_eq]
    exact Nat.le_total _ _
  · have h' : ¬ b.1 = a.1 := fun e => h e.symm
    rw [leOpset_eq_of_ne h, leOpset_eq_of_ne h', Bool.or_eq_true, decide_eq_true_eq, decide_eq_true_eq]
    exact String.le_total _ _

theorem leOpset_antisymm (a b : UsedOpset) (hab : leOpset a b = true) (hba : leOpset b a = true) : a = b := by
  by_cases h : a.1 = b.1
  · rw [leOpset_eq_of_eq h, decide_eq_true_eq] at hab
    rw [leOpset_eq_of_eq h.symm, decide_eq_true_eq] at hba
    exact key_inj a b h (Nat.le_antisymm hab hba)
  · have h' : ¬ b.1 = a.1 := fun e => h e.symm
    rw [leOpset_eq_of_ne h, decide_eq_true_eq] at hab
    rw [leOpset_eq_of_ne h', decide_eq_true_eq] at hba
    exact absurd (String.le_antisymm hab hba) h

theorem leOpset_trans (a b c : UsedOpset) (hab : leOpset a b = true) (hbc : leOpset b c = true) :
    leOpset a c = true := by
  by_cases h1 : a.1 = b.1 <;> by_cases h2 : b.1 = c.1
  · rw [leOpset_eq_of_eq h1, decide_eq_true_eq] at hab
    rw [leOpset_eq_of_eq h2, decide_eq_true_eq] at hbc
    rw [leOpset_eq_of_eq (h1.trans h2), decide_eq_true_eq]
    exact Nat.le_trans hab hbc
  · have h3 : ¬ a.1 = c.1 := fun e => h2 (h1.symm.trans e)
    rw [leOpset_eq_of_ne h2, decide_eq_true_eq] at hbc
    rw [leOpset_eq_of_ne h3, decide_eq_true_eq, h1]
    exact hbc
  · have h3 : ¬ a.1 = c.1 := fun e => h1 (e.trans h2.symm)
    rw [leOpset_eq_of_ne h1, decide_eq_true_eq] at hab
    rw [leOpset_eq_of_ne h3, decide_eq_true_eq, ← h2]
    exact hab
  · rw [leOpset_eq_of_ne h1, decide_eq_true_eq] at hab
    rw [leOpset_eq_of_ne h2, decide_eq_true_eq] at hbc
    by_cases h3 : a.1 = c.1
    · exact absurd (String.le_antisymm hab (h3 ▸ hbc)) h1
    · rw [leOpset_eq_of_ne h3, decide_eq_true_eq]
      exact String.le_trans hab hbc

theorem mergeSort_leOpset_perm_eq {l₁ l₂ : List UsedOpset} (h : l₁.Perm l₂) :
    l₁.mergeSort leOpset = l₂.mergeSort leOpset := by
  apply List.Perm.eq_of_pairwise (le := fun a b => leOpset a b = true)
  · intro a b _ _ hab hba
    exact leOpset_antisymm a b hab hba
  · exact List.pairwise_mergeSort leOpset_trans leOpset_total l₁
  · exact List.pairwise_mergeSort leOpset_trans leOpset_total l₂
  · exact (List.mergeSort_perm l₁ leOpset).trans (h.trans (List.mergeSort_perm l₂ leOpset).symm)

/-! model header -/

theorem lookup_append_of_some {imps extra : List (String × Nat)} {d : String} {v : Nat}
    (h : imps.lookup d = some v) : (imps ++ extra).lookup d = some v := by
  rw [List.lookup_append, h]; rfl

theorem addDomain_keeps (imps : List (String × Nat)) (f : SubFn) : ∃ e, addDomain imps f = imps ++ e := by
  unfold addDomain
  split
  · exact ⟨[], by simp⟩
  · exact ⟨_, rfl⟩

theorem addStd_keeps (imps : List (String × Nat)) (f : SubFn) : ∃ e, addStd imps f = imps ++ e := by
  unfold addStd
  cases f.stdImport with
  | none => exact ⟨[], by simp⟩
  | some v =>
    simp only
    split
    · exact ⟨[], by simp⟩
    · exact ⟨_, rfl⟩

theorem addFuncImports_keeps (imps : List (String × Nat)) (fs : List SubFn) :
    ∃ extra, addFuncImports imps fs = imps ++ extra := by
  induction fs generalizing imps with
  | nil => exact ⟨[], by simp [addFuncImports]⟩
  | cons f fs ih =>
    obtain ⟨e1, he1⟩ := addDomain_keeps imps f
    obtain ⟨e2, he2⟩ := addStd_keeps (addDomain imps f) f
    obtain ⟨e3, he3⟩ := ih (addStd (addDomain imps f) f)
    refine ⟨e1 ++ e2 ++ e3, ?_⟩
    simp only [addFuncImports]
    rw [he3, he2, he1]
    simp [List.append_assoc]

/-! globals -/

theorem translate_eval (g : Globals) (x : Val) (e : SExp) : (translate g e).eval x = e.evalPy g x := by
  induction e with
  | x => rfl
  | glob n =>
    simp only [translate, SExp.evalPy]
    cases g.lookup n <;> rfl
  | add a b iha ihb => simp only [translate, GExp.eval, SExp.evalPy, iha, ihb]
  | mul a b iha ihb => simp only [translate, GExp.eval, SExp.evalPy, iha, ihb]

theorem translateR_copy_frozen (g : RGlobals) (cells cells' : Cells) (e : SExp) :
    (translateR true g cells e).toProto cells' = (translateR true g cells e).toProto cells := by
  induction e with
  | x => rfl
  | glob n =>
    simp only [translateR]
    cases g.lookup n with
    | none => rfl
    | some v => cases v <;> rfl
  | add a b iha ihb => simp only [translateR, RExp.toProto, iha, ihb]
  | mul a b iha ihb => simp only [translateR, RExp.toProto, iha, ihb]

theorem translateR_noshared_frozen (g : RGlobals) (cells cells' : Cells) (e : SExp)
    (h : NoSharedMutablePayload g e) :
    (translateR false g cells e).toProto cells' = (translateR false g cells e).toProto cells := by
  induction e with
  | x => rfl
  | glob n =>
    have hn := h n (by simp [SExp.globalsOf])
    simp only [translateR]
    cases hl : g.lookup n with
    | none => rfl
    | some v =>
      cases v with
      | imm v => rfl
      | ref c => exact absurd hl (hn c)
  | add a b iha ihb =>
    have ha : NoSharedMutablePayload g a := fun n hn => h n (by simp [SExp.globalsOf, hn])
    have hb : NoSharedMutablePayload g b := fun n hn => h n (by simp [SExp.globalsOf, hn])
    simp only [translateR, RExp.toProto, iha ha, ihb hb]
  | mul a b iha ihb =>
    have ha : NoSharedMutablePayload g a := fun n hn => h n (by simp [SExp.globalsOf, hn])
    have hb : NoSharedMutablePayload g b := fun n hn => h n (by simp [SExp.globalsOf, hn])
    simp only [translateR, RExp.toProto, iha ha, ihb hb]

theorem iterProto_spec (n : Nat) (f : OnnxFn) :
    (iterProto n f).2 = f ∧ ∀ p, p ∈ (iterProto n f).1 → p = f.ir := by
  induction n generalizing f with
  | zero => exact ⟨rfl, fun p hp => by simp [iterProto] at hp⟩
  | succ n ih =>
    simp only [iterProto, toProto]
    refine ⟨(ih f).1, ?_⟩
    intro p hp
    simp only [List.mem_cons] at hp
    rcases hp with hp | hp
    · exact hp
    · exact (ih f).2 p hp

end OV.C14
