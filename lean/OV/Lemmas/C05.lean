import OV.Model.C05Order
import OV.Model.C05Shape
/-! Helper lemmas for `OV/Props/C05.lean`. -/
namespace OV.Lemmas.C05

end OV.Lemmas.C05
