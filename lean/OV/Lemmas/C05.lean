import OV.Model.C05Order
import OV.Model.C05Shape
import OV.Model.C05Linalg
import Mathlib.Order.MinMax
import Mathlib.Order.Lattice
/-! Helper lemmas for `OV/Props/C05.lean` (order family, pads arithmetic). -/
namespace OV.Lemmas.C05
open OV.C05.Order

/-- Folding an associative operation: the accumulator can be pulled out. -/
theorem foldl_assoc {α : Type} (op : α → α → α) (hassoc : ∀ a b c, op (op a b) c = op a (op b c))
    (l : List α) (x v : α) : l.foldl op (op x v) = op x (l.foldl op v) := by
  induction l generalizing v with
  | nil => rfl
  | cons w l ih => simp only [List.foldl_cons, hassoc, ih]

/-- `foldl op x l` in terms of `flatReduce op l`. -/
theorem foldl_eq_flatReduce {α : Type} (op : α → α → α) (hassoc : ∀ a b c, op (op a b) c = op a (op b c))
    (l : List α) (x : α) :
    l.foldl op x = match flatReduce op l with | none => x | some m => op x m := by
  cases l with
  | nil => rfl
  | cons v l => simp only [List.foldl_cons, flatReduce, foldl_assoc op hassoc]

/-- `flatReduce` of an append when both sides are non-empty. -/
theorem flatReduce_append {α : Type} (op : α → α → α) (hassoc : ∀ a b c, op (op a b) c = op a (op b c))
    (l1 l2 : List α) (a b : α) (h1 : flatReduce op l1 = some a) (h2 : flatReduce op l2 = some b) :
    flatReduce op (l1 ++ l2) = some (op a b) := by
  cases l1 with
  | nil => simp [flatReduce] at h1
  | cons v l1 =>
    cases l2 with
    | nil => simp [flatReduce] at h2
    | cons w l2 =>
      simp only [flatReduce, Option.some.injEq] at h1 h2
      simp only [List.cons_append, flatReduce, List.foldl_append, List.foldl_cons, Option.some.injEq]
      rw [h1, foldl_assoc op hassoc, h2]

end OV.Lemmas.C05
